#!/usr/bin/env python3
"""Per-property check: proof obligations + correspondence between the Coq model and /repo.

usage: check.py <property id> [--tier quick|thorough] [--replay FILE]

exit 0: theorems compiled, generated definitions proved, no difference on the
        property's projection.   exit 1: a line  VIOLATION property=<id> replay=<path>
"""
import argparse, hashlib, json, os, re, subprocess, sys, time, shutil, random
from concurrent.futures import ThreadPoolExecutor

ROOT = os.path.dirname(os.path.dirname(os.path.abspath(__file__)))
sys.path.insert(0, os.path.join(ROOT, "tools"))
from propcfg import PROPS  # noqa: E402

ENV = dict(os.environ, GOFLAGS="-mod=mod", GOPROXY="off", GOSUMDB="off", GOTOOLCHAIN="local", GOWORK="off")
WORK = os.path.join(ROOT, "work")


def sh(cmd, cwd=None, timeout=3000, check=True):
    p = subprocess.run(cmd, shell=True, cwd=cwd or ROOT, env=ENV, capture_output=True, text=True, timeout=timeout)
    if check and p.returncode != 0:
        raise RuntimeError(f"command failed: {cmd}\n{p.stdout[-3000:]}\n{p.stderr[-3000:]}")
    return p


# ---------------------------------------------------------------- build steps
def build_all(log):
    """Incremental build of the Coq development, extraction, driver; harness rebuilt from /repo."""
    t0 = time.time()
    p = sh("./tools/build.sh", check=False, timeout=3400)
    log["build_s"] = round(time.time() - t0, 1)
    if p.returncode != 0:
        return False, (p.stdout + p.stderr)[-4000:]
    return True, ""


# ---------------------------------------------------------------- trace comparison
def parse_lines(text):
    """-> dict idx -> {'R': str, 'EV': [..], 'CHK': [..]} , plus op table idx -> (world, cmd, args)"""
    res, ops = {}, {}
    for line in text.splitlines():
        if not line or line[0] == '#':
            continue
        kind, _, rest = line.partition(' ')
        if kind == 'OP':
            idx, w, cmd, *args = rest.split(' ')
            ops[int(idx)] = (w, cmd, args)
            continue
        if kind not in ('R', 'EV', 'CHK'):
            continue
        idx, _, body = rest.partition(' ')
        d = res.setdefault(int(idx), {'R': None, 'EV': [], 'CHK': []})
        if kind == 'R':
            d['R'] = body
        else:
            d[kind].append(body)
    return res, ops


def classify(cmd, args, impl_r, model_r):
    """Line classes of a difference at one op (what kind of observable differs)."""
    cls = set()
    ip, mp = (impl_r or '').startswith('panic'), (model_r or '').startswith('panic')
    if ip != mp:
        cls.add(('panic_missing:' if mp else 'panic_unexpected:') + cmd)
        return cls
    if cmd in ('VIEW', 'QVIEW'):
        a, b = (impl_r or '').split(' | '), (model_r or '').split(' | ')
        if len(a) == 3 and len(b) == 3:
            if a[0] != b[0]:
                cls.add('view_mask')
            if a[1] != b[1]:
                cls.add('view_vals')
            if a[2] != b[2]:
                cls.add('view_target')
        else:
            cls.add('view_mask')
    cls.add('res:' + cmd)
    return cls


def compare(trace_text, model_text):
    """First difference per world, plus all CHK FAIL lines.
    returns list of dicts {idx, world, cmd, args, impl, model, classes}"""
    impl, ops = parse_lines(trace_text)
    model, _ = parse_lines(model_text)
    diffs, dead_worlds = [], set()
    chks = []
    for idx in sorted(ops):
        w, cmd, args = ops[idx]
        i = impl.get(idx, {'R': None, 'EV': [], 'CHK': []})
        for c in i['CHK']:
            if c.startswith('FAIL'):
                chks.append({'idx': idx, 'world': w, 'cmd': cmd, 'args': args, 'chk': c})
        if w in dead_worlds or cmd.startswith('_'):
            continue
        m = model.get(idx, {'R': None, 'EV': [], 'CHK': []})
        ir, mr = i['R'], m['R']
        if mr is None or mr.startswith('model-cannot-follow'):
            # the model lost track of this world (consequence of an earlier Undef/difference)
            dead_worlds.add(w)
            continue
        if mr == 'panic-undef':
            dead_worlds.add(w)
            if ir != 'panic':
                diffs.append({'idx': idx, 'world': w, 'cmd': cmd, 'args': args, 'impl': ir, 'model': mr,
                              'classes': ['panic_missing:' + cmd]})
            continue
        if ir != mr:
            diffs.append({'idx': idx, 'world': w, 'cmd': cmd, 'args': args, 'impl': ir, 'model': mr,
                          'classes': sorted(classify(cmd, args, ir, mr))})
            dead_worlds.add(w)
            continue
        if sorted(i['EV']) != sorted(m['EV']):
            cls = ['events', 'ev:' + cmd]
            strip = lambda evs: sorted(re.sub(r' locked=\d', '', e) for e in evs)
            if strip(i['EV']) == strip(m['EV']):
                cls.append('ev_locked')   # the events differ only in the lock state they were delivered under
            diffs.append({'idx': idx, 'world': w, 'cmd': cmd, 'args': args, 'impl': i['EV'], 'model': m['EV'],
                          'classes': cls})
            dead_worlds.add(w)
    m = re.search(r'^CRASH (.*)$', trace_text, re.M)
    if m and ops:
        last = max(ops)
        w, cmd, args = ops[last]
        diffs.append({'idx': last, 'world': w, 'cmd': cmd, 'args': args, 'impl': 'CRASH ' + m.group(1)[:300],
                      'model': None, 'classes': ['crash']})
    for d in diffs:
        d['_impl'] = impl
    return diffs, chks, ops


def context_flags(ops, upto, impl=None):
    """What has happened in the history before op `upto` (for context-dependent projections)."""
    flags = set()
    targets = set()
    impl = impl or {}
    open_q = set()
    batch_q = set()
    nreg = 0
    for idx in sorted(ops):
        if idx >= upto:
            break
        w, cmd, a = ops[idx]
        r = (impl.get(idx) or {}).get('R') or ''
        if r.startswith('q '):
            open_q.add(r.split(' ')[1])
            flags.add('was_locked')
            if cmd in ('BXCHG', 'BSETREL', 'BBATCHQ'):
                batch_q.add(r.split(' ')[1])
        if cmd in ('QNEXT', 'QSTEP') and r == 'b 0':
            open_q.discard(a[0])
        if cmd == 'QCLOSE' and r == 'ok':
            open_q.discard(a[0])
        if cmd == 'QSCAN' and a and a[0] == 'H':
            open_q.discard(a[1])
        if cmd == 'REG':
            nreg += 1
        if cmd in ('RELSET',):
            targets.add(a[2])
        elif cmd == 'RELXCHG':
            targets.add(a[4])
        elif cmd in ('BNEW',) and a[3] != '-':
            targets.add(a[3])
        elif cmd in ('BBATCH', 'BBATCHQ') and a[4] != '-':
            targets.add(a[4])
        elif cmd == 'BADD' and a[4] != '-':
            targets.add(a[4])
        elif cmd == 'BSETREL':
            targets.add(a[2])
        elif cmd == 'BXCHG' and a[4] != '-':
            targets.add(a[4])
        if cmd == 'RM' and a[0] in targets:
            flags.add('target_died')
        if cmd in ('BRM', 'RESET') and targets:
            flags.add('target_died')
        if cmd in ('BXCHG', 'BSETREL', 'BRM', 'BBATCH', 'BBATCHQ'):
            flags.add('batch')
        if cmd == 'RESET':
            flags.add('reset')
        if cmd == 'CREG':
            flags.add('cached')
        if cmd == 'LOAD':
            flags.add('load')
        if cmd == 'LISTEN' and a[0] != 'off':
            flags.add('listener')
    w, cmd, a = ops[upto]
    if open_q:
        flags.add('locked_now')
    if nreg > 16:
        flags.add('many_comps')
    if cmd == 'QSCAN' and a and a[0] == 'H':
        flags.add('op_handle')
        if len(a) > 1 and a[1] in batch_q:
            flags.add('op_batch_query')
    if cmd in ('QCOUNT', 'QAT', 'QNEXT', 'QSTEP', 'QENT', 'QVIEW', 'QREL', 'QCLOSE') and a and a[0] in batch_q:
        flags.add('op_batch_query')
    if 'C' in a and cmd in ('QSCAN', 'QUERY', 'BXCHG', 'BSETREL', 'BRM'):
        flags.add('op_cached')
    if 'R' in a and cmd in ('QSCAN', 'QUERY', 'BXCHG', 'BSETREL', 'BRM', 'CREG'):
        flags.add('op_relfilter')
    return flags


def in_projection(cfg, d, ops):
    """Does the difference d count for this property?"""
    proj = cfg['projection']
    flags = None
    if 'crash' in d['classes']:
        return True   # the implementation process died: nothing of this history can be vouched for
    for rule in proj:
        # rule: (class-regex, required-flag or None)
        pat, need = rule
        if any(re.fullmatch(pat, c) for c in d['classes']):
            if need is None:
                return True
            if flags is None:
                flags = context_flags(ops, d['idx'], d.get('_impl'))
            if need in flags:
                return True
    return False


def chk_in_projection(cfg, c):
    for pat in cfg.get('chk', []):
        if re.search(pat, c['chk']):
            return True
    return False


# ---------------------------------------------------------------- running histories
def run_driver(path):
    p = subprocess.run([os.path.join(ROOT, "ocaml", "driver"), path], capture_output=True, text=True, timeout=600)
    return p.stdout


def run_replay(path, tags=""):
    p = subprocess.run([os.path.join(ROOT, "harness", "harness" + tags), "replay", path], capture_output=True, text=True,
                       timeout=600, env=ENV)
    return p.stdout


def gen(profile, seed, count, outdir, extra=""):
    os.makedirs(outdir, exist_ok=True)
    sh(f"{ROOT}/harness/harness gen -seed {seed} -profile {profile} -count {count} -out {outdir} {extra}", timeout=3000)


def evaluate_file(path, cfg):
    text = open(path).read()
    model = run_driver(path)
    diffs, chks, ops = compare(text, model)
    hits = [d for d in diffs if in_projection(cfg, d, ops)]
    chk_hits = [c for c in chks if chk_in_projection(cfg, c)]
    return {'path': path, 'diffs': diffs, 'hits': hits, 'chk_hits': chk_hits, 'nops': len(ops), 'ops': ops}


# ---------------------------------------------------------------- shrinking (delta debugging on OP lines)
def op_lines(text):
    return [l for l in text.splitlines() if l.startswith('OP ')]


def renumber(lines):
    out = []
    for i, l in enumerate(lines):
        parts = l.split(' ')
        parts[1] = str(i)
        out.append(' '.join(parts))
    return out


def still_fails(lines, cfg, tmp):
    with open(tmp, 'w') as f:
        f.write('\n'.join(renumber(lines)) + '\n')
    impl = run_replay(tmp)
    if ' skipped ' in impl:
        return False, impl
    with open(tmp, 'w') as f:
        f.write(impl)
    r = evaluate_file(tmp, cfg)
    return bool(r['hits'] or r['chk_hits']), impl


def shrink(text, cfg, tmp, budget_s=60):
    lines = op_lines(text)
    t0 = time.time()
    ok, impl = still_fails(lines, cfg, tmp)
    if not ok:
        return text  # not reproducible through replay: keep the original
    best = impl
    n = 2
    while len(lines) >= 2 and time.time() - t0 < budget_s:
        chunk = max(1, len(lines) // n)
        reduced = False
        for start in range(0, len(lines), chunk):
            cand = lines[:start] + lines[start + chunk:]
            if not cand or not cand[0].split(' ')[3] == 'NEWWORLD':
                continue
            ok, impl = still_fails(cand, cfg, tmp)
            if ok:
                lines, best, reduced = cand, impl, True
                n = max(n - 1, 2)
                break
            if time.time() - t0 > budget_s:
                break
        if not reduced:
            if chunk == 1:
                break
            n = min(n * 2, len(lines))
    return best


# ---------------------------------------------------------------- proofs
def count_obligations(vfile):
    src = open(vfile).read()
    return len(re.findall(r'^\s*(Theorem|Lemma|Example|Corollary)\s', src, re.M))


def proof_step(pid, cfg, log):
    """Compile Properties/<pid>.v (after the development was built), collect assumptions."""
    vfile = os.path.join(ROOT, "coq", "theories", "Properties", f"{pid}.v")
    res = {'obligations': 0, 'discharged': 0, 'assumptions': [], 'files': [], 'ok': True, 'error': ''}
    if not os.path.exists(vfile):
        res['ok'] = False
        res['error'] = f"{vfile} missing"
        return res
    # proof files: the modules under Proofs/, Pure/, Gen/ that the property file imports
    mods = re.findall(r'\b(?:Arche\.)?((?:Proofs|Pure|Gen)\.\w+)', open(vfile).read())
    files = [vfile] + [os.path.join(ROOT, "coq", "theories", m.replace('.', '/') + ".v") for m in dict.fromkeys(mods)]
    files = [f for f in files if os.path.exists(f)]
    res['files'] = [os.path.relpath(f, ROOT) for f in files]
    p = sh(f"timeout 900 coqc -Q theories Arche -w -notation-overridden,-ambiguous-paths theories/Properties/{pid}.v",
           cwd=os.path.join(ROOT, "coq"), check=False, timeout=1000)
    out = p.stdout + p.stderr
    for f in files:
        n = count_obligations(f)
        res['obligations'] += n
        vo = f[:-2] + ".vo"
        if os.path.exists(vo) and os.path.getmtime(vo) >= os.path.getmtime(f) and p.returncode == 0:
            res['discharged'] += n
    if p.returncode != 0:
        res['ok'] = False
        res['error'] = out[-3000:]
    # Print Assumptions output
    ass = re.findall(r'(Closed under the global context|Axioms:\n(?:.+\n)+?)(?=\n|\Z)', out)
    res['assumptions'] = sorted(set(a.strip() for a in ass))
    # forbidden constructs
    bad = sh(r"grep -rnE '\b(Admitted|admit|Axiom|Parameter|Conjecture)\b|Unset Guard|bypass_check|Admit Obligations' coq/theories --include=*.v | grep -v '^[^:]*:[0-9]*: *(\*' || true",
             check=False).stdout.strip()
    if bad:
        res['ok'] = False
        res['error'] += "\nforbidden construct:\n" + bad
    return res


TV_STRUCTS = {'GoEntityPool': 'pool', 'GoLocks': 'lock', 'GoLocks64': 'lock64', 'GoIntPool': 'intpool', 'GoBitSet': 'bitset', 'GoPaged': 'paged', 'GoResources': 'res'}


def tv_structs(pid):
    """The translated structures the property file of pid rests on."""
    src = open(os.path.join(ROOT, "coq", "theories", "Properties", f"{pid}.v")).read()
    return [k for g, k in TV_STRUCTS.items() if re.search(r'\bGen\.' + g + r'\b', src)]


def translator_validation(pid, tier, seed, structs):
    """The translator's output (extracted) against the real pool code, call by call."""
    H = os.path.join(ROOT, "tv_harness", "tv_harness")
    missing = [k for k in structs if not os.path.exists(os.path.join(ROOT, "ocaml", f"tvd_{k}"))]
    if not os.path.exists(H) or missing:
        return {'error': f"translator validation not built (tv_harness: {os.path.exists(H)}; drivers missing: {missing}; does Gen/Go*.v still compile?)", 'mismatches': 0}
    n = 150 if tier == 'quick' else 1500
    trace = os.path.join(WORK, f"tv_{pid}.trace")
    p = sh(f"{H} -seed {seed % 100000} -n {n} > {trace}", check=False, timeout=600)
    if p.returncode != 0:
        return {'error': 'tv_harness failed: ' + (p.stderr or '')[-500:], 'mismatches': 0}
    res = {'structures': {}, 'mismatches': 0, 'outside_model': 0, 'calls': 0, 'histories': 0,
           'call_distribution_all_structures': (p.stderr or '').strip()[-400:], 'error': ''}
    lines = []
    trace64 = None
    if any(k.endswith('64') for k in structs):
        # the tiny build (64 mask bits): the same hooks, compiled with the build tag
        H64 = os.path.join(ROOT, "tv_harness", "tv_harness_tiny")
        trace64 = os.path.join(WORK, f"tv_{pid}_tiny.trace")
        p64 = sh(f"{H64} -only lock -seed {seed % 100000} -n {n} > {trace64}", check=False, timeout=600)
        if not os.path.exists(H64) or p64.returncode != 0:
            return {'error': 'tv_harness_tiny failed or not built: ' + (p64.stderr or '')[-300:], 'mismatches': 0}
    for k in structs:
        q = sh(f"{os.path.join(ROOT, 'ocaml', 'tvd_' + k)} < {trace64 if k.endswith('64') else trace}", check=False, timeout=600)
        m = re.search(r'SUMMARY structure=\w+ histories=(\d+) calls=(\d+) mismatches=(\d+) outside=(\d+)', q.stdout)
        if not m:
            return {'error': f'tvd_{k} failed: ' + (q.stdout + q.stderr)[-500:], 'mismatches': 0}
        res['structures'][k] = {'histories': int(m.group(1)), 'calls': int(m.group(2)), 'mismatches': int(m.group(3)), 'outside_model': int(m.group(4))}
        res['histories'] += int(m.group(1)); res['calls'] += int(m.group(2))
        res['mismatches'] += int(m.group(3)); res['outside_model'] += int(m.group(4))
        lines += [l for l in q.stdout.splitlines() if l.startswith('MISMATCH')][:3]
    if res['mismatches']:
        rp = os.path.join(ROOT, "replays", f"{pid}-translator.txt")
        with open(rp, 'w') as f:
            f.write("# translator validation: the translation of the pool code (Gen/Go*.v) and the real code disagree\n")
            f.write("# replay: tv_harness/tv_harness -seed %d -n %d | ocaml/tvd_<structure>\n" % (seed % 100000, n))
            f.write("\n".join(lines) + "\n")
            mm = re.search(r'line=(\d+)', lines[0])
            if mm:
                tl = open(trace).read().splitlines()
                upto = int(mm.group(1))
                start = max(i for i in range(upto) if tl[i].startswith('H '))
                f.write("\n".join(tl[start:upto]) + "\n")
        res['replay'] = rp
    return res


# ---------------------------------------------------------------- main
def load_known():
    p = os.path.join(ROOT, "known_findings.json")
    if os.path.exists(p):
        return json.load(open(p))
    return []


def matches_known(k, hit):
    sig = k.get('signature', {})
    if 'cmd' in sig and not re.fullmatch(sig['cmd'], hit.get('cmd', '')):
        return False
    if 'class' in sig and not any(re.fullmatch(sig['class'], c) for c in hit.get('classes', [])):
        return False
    if 'chk' in sig and not re.search(sig['chk'], hit.get('chk', '')):
        return False
    return True


def main():
    ap = argparse.ArgumentParser()
    ap.add_argument('pid')
    ap.add_argument('--tier', default=os.environ.get('VERIF_TIER', 'quick'))
    ap.add_argument('--replay')
    ap.add_argument('--no-build', action='store_true')
    args = ap.parse_args()
    pid = args.pid
    cfg = PROPS[pid]
    tier = 'thorough' if args.tier == 'thorough' else 'quick'
    seed = int(os.environ.get('VERIF_SEED', '20260929'))
    t0 = time.time()
    log = {}
    os.makedirs(WORK, exist_ok=True)
    os.makedirs(os.path.join(ROOT, "replays"), exist_ok=True)
    os.makedirs(os.path.join(ROOT, "evidence"), exist_ok=True)
    violations = []      # (replay path, suffix)
    known_lines = []

    if args.replay:
        sh("./tools/build.sh")
        impl = run_replay(args.replay)
        tmp = os.path.join(WORK, f"replay_{pid}.trace")
        open(tmp, 'w').write(impl)
        r = evaluate_file(tmp, cfg)
        print(impl)
        print("---- model ----")
        print(run_driver(tmp))
        for d in r['hits']:
            print("DIFF", json.dumps({k: d[k] for k in ('idx', 'cmd', 'args', 'impl', 'model', 'classes')}))
        for c in r['chk_hits']:
            print("CHK", c)
        sys.exit(1 if (r['hits'] or r['chk_hits']) else 0)

    # 1. build (Coq development incl. regenerated files, extraction, driver, harness)
    if not args.no_build:
        if 'pre_build' in cfg:
            cfg['pre_build'](ROOT, log, sh)
        ok, err = build_all(log)
    else:
        ok, err = True, ""
    broken = []
    if not ok:
        broken.append(("build", err))

    # 2. proof obligations of this property
    proof = {'obligations': 0, 'discharged': 0, 'assumptions': [], 'files': [], 'ok': True, 'error': ''}
    if ok:
        proof = proof_step(pid, cfg, log)
        if not proof['ok']:
            broken.append(("proof", proof['error']))
        elif tier == 'thorough':
            # independent re-check of the compiled property file and everything it depends on
            t1 = time.time()
            p = sh(f"timeout 3000 coqchk -silent -o -Q theories Arche Arche.Properties.{pid}",
                   cwd=os.path.join(ROOT, "coq"), check=False, timeout=3100)
            out = p.stdout + p.stderr
            proof['coqchk'] = {'exit': p.returncode, 'seconds': round(time.time() - t1, 1),
                               'axioms': (re.search(r'\* Axioms:(.*?)\n\s*\n', out, re.S) or [None, '?'])[1].strip()}
            if p.returncode != 0 or 'Axioms: <none>' not in out:
                # stdlib axioms would be listed here; none is expected (see DESIGN.md 13.4)
                broken.append(("coqchk", out[-3000:]))

    # 2b. translator validation for the properties that rest on the translated pool code
    tv = None
    structs = tv_structs(pid)
    if structs:
        tv = translator_validation(pid, tier, seed, structs)
        if tv.get('error'):
            broken.append(("translator-validation", tv['error']))
        elif tv['mismatches']:
            broken.append(("translator-validation", open(tv['replay']).read()[:3000]))

    # 3. correspondence
    evals = 0
    nontrivial = set()
    samples = []
    dist = {}
    inconclusive = 0
    total_ops = 0
    results = []
    extra_evidence = {}
    if ok or os.path.exists(os.path.join(ROOT, "ocaml", "driver")):
        files = []
        cdir = os.path.join(ROOT, "corpus", pid)
        if os.path.isdir(cdir):
            for f in sorted(os.listdir(cdir)):
                if f.endswith('.trace'):
                    # corpus traces hold OP lines; re-execute against the current tree
                    out = os.path.join(WORK, f"{pid}_corpus_{f}")
                    open(out, 'w').write(run_replay(os.path.join(cdir, f)))
                    files.append(out)
        budget = cfg['budget'][tier]
        if proof['ok'] is False or not ok:
            budget = [(p, c * 3, e) for (p, c, e) in budget]   # change-focused: search harder
        for k, (profile, count, extra) in enumerate(budget):
            outdir = os.path.join(WORK, f"{pid}_{tier}_{k}")
            shutil.rmtree(outdir, ignore_errors=True)
            try:
                gen(profile, seed + k, count, outdir, extra)
            except Exception as e:  # harness failed to build or crashed
                broken.append(("harness", str(e)[-2000:]))
                continue
            st = json.load(open(os.path.join(outdir, "stats.json")))
            for kk, v in st.items():
                dist[kk] = dist.get(kk, 0) + v
            files += [os.path.join(outdir, f) for f in sorted(os.listdir(outdir)) if f.endswith('.trace')]
        with ThreadPoolExecutor(max_workers=14) as ex:
            results = list(ex.map(lambda f: evaluate_file(f, cfg), files))
        for r in results:
            evals += 1
            total_ops += r['nops']
            ops = r['ops']
            kinds = cfg.get('own_ops', set())
            own = [i for i in ops if ops[i][1] in kinds and i > 10]
            if own:
                h = hashlib.sha1('\n'.join(' '.join((ops[i][1],) + tuple(ops[i][2])) for i in sorted(ops)).encode()).hexdigest()
                nontrivial.add(h)
            if not samples and own:
                samples.append([f"{ops[i][1]} {' '.join(ops[i][2])}" for i in sorted(ops)][:40])
            if r['diffs'] and not r['hits']:
                inconclusive += 1
                if os.environ.get('VERIF_DEBUG'):
                    d = r['diffs'][0]
                    print("INCONCLUSIVE", r['path'], {k: d[k] for k in ('idx', 'cmd', 'args', 'impl', 'model', 'classes')})
        if 'extra' in cfg:
            extra_evidence = cfg['extra'](ROOT, tier, seed, sh, WORK)
            for v in extra_evidence.get('violations', []):
                results.append({'path': v['replay'], 'hits': [v], 'chk_hits': [], 'diffs': [], 'nops': 0, 'ops': {}, 'raw': True})

    # 4. verdicts
    known = [k for k in load_known() if k['property'] == pid and k.get('status') == 'open']
    seen_known = set()
    for r in results:
        if not (r['hits'] or r['chk_hits']):
            continue
        hit = (r['hits'] + r['chk_hits'])[0]
        k = next((k for k in known if matches_known(k, hit)), None)
        if k is not None:
            seen_known.add(k['id'])
            continue
        if len(violations) >= 3:
            break
        if r.get('raw'):
            violations.append((r['path'], ""))
            continue
        # shrink and write the replay
        tmp = os.path.join(WORK, f"shrink_{pid}.trace")
        small = shrink(open(r['path']).read(), cfg, tmp, budget_s=40 if tier == 'quick' else 180)
        hsh = hashlib.sha1(small.encode()).hexdigest()[:10]
        rp = os.path.join(ROOT, "replays", f"{pid}-{hsh}.trace")
        with open(rp, 'w') as f:
            f.write(f"# property {pid}\n# seed {seed}\n# first difference: {json.dumps({kk: hit.get(kk) for kk in ('idx','cmd','args','impl','model','classes','chk')})}\n")
            f.write(small)
        violations.append((rp, ""))
        if len(violations) >= 3:
            break
    for k in known:
        if k['id'] in seen_known or k.get('always_report'):
            known_lines.append(f"KNOWN-FINDING: property={pid} {k['what']}")
    if broken and not violations and tv is not None:
        # a tie proof no longer checks: search for a call sequence on which the translated code
        # leaves the model (entity pool, lock mask) or the list semantics (bit set, paged slice, ID pool)
        rounds = 400 if tier == 'quick' else 4000
        sm = []
        for k in structs:
            d = os.path.join(ROOT, 'ocaml', 'tvd_' + k)
            if os.path.exists(d):
                q = sh(f"{d} spec {seed % 100000} {rounds}", check=False, timeout=900)
                sm += [l for l in q.stdout.splitlines() if l.startswith('SPECMISMATCH')][:3]
        if sm:
            rp = os.path.join(ROOT, "replays", f"{pid}-code-vs-model.txt")
            with open(rp, 'w') as f:
                f.write(f"# property {pid}: the pool code of /repo (as translated into Gen/Go*.v) leaves the model on these call sequences\n")
                f.write(f"# replay: ocaml/tvd_<structure> spec {seed % 100000} {rounds}\n")
                f.write("\n".join(sm) + "\n\n")
                for what, err in broken:
                    f.write(f"== {what} no longer checks for property {pid}\n{err}\n")
            violations.append((rp, ""))
    if broken and not violations:
        # a proof obligation or the build no longer checks, and the search found no failing input
        rp = os.path.join(ROOT, "replays", f"{pid}-obligation.txt")
        with open(rp, 'w') as f:
            for what, err in broken:
                f.write(f"== {what} no longer checks for property {pid}\n{err}\n")
        violations.append((rp, " no-failing-input-found"))

    # 5. evidence
    ev = {
        "property_id": pid, "tier": tier, "seed": seed, "level": cfg.get('level', 'proof'),
        "coverage": {
            "obligations": proof['obligations'], "discharged": proof['discharged'],
            "checker_cmd": f"coq_makefile + make (full .vo); coqc theories/Properties/{pid}.v; grep for Admitted/Axiom/...",
            "trusted_base": cfg.get('trusted_base', []) + ["Print Assumptions: " + "; ".join(proof['assumptions'] or ["(none recorded)"])],
            "proof_files": proof['files'],
            "coqchk": proof.get('coqchk', 'thorough tier only'),
            "evaluations": evals, "distinct_nontrivial": len(nontrivial),
            "rule": cfg.get('rule', ''),
            "samples": samples or [["(no history of this property's own kind in this run)"]],
            "traces_validated_against_impl": evals,
            "operations_replayed": total_ops,
            "operation_distribution": dist,
            "inconclusive_histories": inconclusive,
            "known_findings_reproduced": sorted(seen_known),
        },
        "assumptions": cfg.get('assumptions', []),
        "wall_s": round(time.time() - t0, 1),
        "violations": len(violations),
    }
    ev["coverage"].update({k: v for k, v in extra_evidence.items() if k != 'violations'})
    if tv is not None:
        ev["coverage"]["translator_validation"] = tv
    if ev["coverage"]["obligations"] == 0:
        ev["coverage"]["obligations"] = 1   # keep the schema's minimum; discharged stays 0
    json.dump(ev, open(os.path.join(ROOT, "evidence", f"{pid}.json"), 'w'), indent=1)

    for l in known_lines:
        print(l)
    for rp, suffix in violations:
        print(f"VIOLATION property={pid} replay={rp}{suffix}")
    print(f"{pid} {tier}: obligations {proof['discharged']}/{proof['obligations']}, histories {evals} "
          f"({len(nontrivial)} non-trivial, {inconclusive} with differences outside the projection), "
          f"ops {total_ops}, {round(time.time()-t0,1)} s")
    sys.exit(1 if violations else 0)


if __name__ == '__main__':
    main()
