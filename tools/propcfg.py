"""Per-property configuration of tools/check.py: which generator profiles run, which
differences between model and implementation count for the property (its projection),
which implementation-internal consistency checks (CHK lines) belong to it, and which
Coq files carry its proof obligations."""

STRUCT = "NEW|NEWWITH|BNEW|BBATCH|BBATCHQ|BADD|RM|XCHG|ASSIGN|RELSET|RELXCHG|BXCHG|BSETREL|BRM|RESET|LOAD|REG"

TB_COMMON = [
    "Coq 8.16.1 kernel (coqc); vm_compute used in Examples and finite-domain lemmas; no native_compute",
    "hand-written executable model Model/{Base,Pool,Filter,World,Ops}.v: modelled, tied to /repo by this correspondence run only",
    "extraction with ExtrOcamlBasic only (no Extract Constant / Extract Inductive of our own), OCaml 4.13.1 compiler, ocaml/driver.ml",
    "Go harness (harness/*.go): op execution, panic->'panic' mapping, canonicalisation (sorted sets, slots instead of raw ids)",
]

THOROUGH_FACTOR = 3   # thorough budgets below are multiplied by this (about 5 min per property on 16 cores)

def _p(profile, quick, thorough, extra=""):
    return {'quick': [(profile, quick, extra)], 'thorough': [(profile, thorough * THOROUGH_FACTOR, "-maxlen 400")]}

def _merge(*bs):
    out = {'quick': [], 'thorough': []}
    for b in bs:
        out['quick'] += b['quick']
        out['thorough'] += b['thorough']
    return out

def c04_extra(ROOT, tier, seed, sh, WORK):
    """Differential validation of the translator on both builds + reference set semantics."""
    import os, re, subprocess
    out = {'violations': []}
    n = 60 if tier == 'quick' else 400
    d = os.path.join(WORK, 'c04')
    os.makedirs(d, exist_ok=True)
    sh("cd harness && go build -tags tiny -o harness_tiny .")
    procs = []
    total = 0
    for mod, binary in (('Mask256', 'harness'), ('Mask64', 'harness_tiny')):
        f = os.path.join(d, f"Cases{mod}.v")
        p = sh(f"{ROOT}/harness/{binary} masks -seed {seed} -n {n} -module {mod} -out {f}")
        lines = p.stdout.strip().splitlines()
        total += int(lines[0])
        ref = [l for l in lines if l.startswith('REFFAIL')]
        if ref:
            rp = os.path.join(ROOT, 'replays', f'C04-ref-{mod}.txt')
            open(rp, 'w').write("implementation disagrees with set semantics (build %s):\n" % mod + "\n".join(ref) + "\n")
            out['violations'].append({'replay': rp, 'cmd': 'masks', 'classes': ['ref'], 'chk': ref[0]})
        procs.append((mod, f, subprocess.Popen(f"timeout 1500 coqc -Q theories Arche {f}", shell=True, cwd=os.path.join(ROOT, 'coq'),
                                               stdout=subprocess.PIPE, stderr=subprocess.STDOUT, text=True)))
    for mod, f, pr in procs:
        o = pr.communicate()[0]
        m = re.search(r'result = \((\d+)%nat,\s*\[(.*?)\]\)', o, re.S)
        if not m:
            rp = os.path.join(ROOT, 'replays', f'C04-translator-{mod}.txt')
            open(rp, 'w').write("generated definitions could not be evaluated:\n" + o[-3000:])
            out['violations'].append({'replay': rp, 'cmd': 'masks', 'classes': ['translator'], 'chk': 'generated file does not evaluate'})
        elif m.group(2).strip():
            rp = os.path.join(ROOT, 'replays', f'C04-translator-{mod}.txt')
            open(rp, 'w').write("generated definition and Go function disagree on: " + m.group(2) + "\ncases file: " + f + "\n")
            out['violations'].append({'replay': rp, 'cmd': 'masks', 'classes': ['translator'], 'chk': m.group(2)[:200]})
    out['programs'] = 2
    out['disagreements_checked'] = total
    out['translator_cases'] = total
    out['source_hashes'] = open(os.path.join(ROOT, 'coq/theories/Gen/hashes.txt')).read().split('\n')[:60]
    return out


def _gen_traces(ROOT, WORK, name, seed, sh, profiles, count, extra=""):
    import os, shutil
    files = []
    for k, prof in enumerate(profiles):
        d = os.path.join(WORK, f"{name}_{k}")
        shutil.rmtree(d, ignore_errors=True)
        sh(f"{ROOT}/harness/harness gen -seed {seed + 17 * k} -profile {prof} -count {count} -out {d} {extra}")
        files += [os.path.join(d, f) for f in sorted(os.listdir(d)) if f.endswith('.trace')]
    return files


def c13_extra(ROOT, tier, seed, sh, WORK):
    """Determinism, implementation against implementation: the same history replayed in
    separate processes (one with GOGC=1 and a goroutine forcing collections, one restricted
    to a single processor) and twice in one process must print byte-identical raw output
    (handles, iteration order, events)."""
    import os, subprocess
    from concurrent.futures import ThreadPoolExecutor
    out = {'violations': []}
    count = 40 if tier == 'quick' else 500
    files = _gen_traces(ROOT, WORK, 'c13', seed, sh, ['mixed', 'rel', 'cache', 'batch', 'reset', 'handles', 'manynodes'], count)
    env = dict(os.environ, GOGC='1')
    H = os.path.join(ROOT, 'harness', 'harness')

    def one(f):
        a = subprocess.run([H, 'replay', '-raw', f], capture_output=True, text=True).stdout
        b = subprocess.run([H, 'replay', '-raw', '-gc', f], capture_output=True, text=True, env=env).stdout
        c = subprocess.run([H, 'replay', '-raw', '-twice', f], capture_output=True, text=True).stdout
        d = subprocess.run([H, 'replay', '-raw', f], capture_output=True, text=True, env=dict(os.environ, GOMAXPROCS='1')).stdout
        halves = c.split("=====\n")
        bad = None
        if a != b:
            bad = ('other process with forced GC', a, b)
        elif a != d:
            bad = ('other process restricted to one processor (GOMAXPROCS=1)', a, d)
        elif len(halves) != 2 or halves[0] != halves[1]:
            bad = ('second world in the same process', halves[0], halves[-1])
        elif halves[0] != a:
            bad = ('same history, another process', a, halves[0])
        return f, bad, a.count("\nOP ")
    with ThreadPoolExecutor(max_workers=12) as ex:
        res = list(ex.map(one, files))
    nops = 0
    for f, bad, n in res:
        nops += n
        if bad and len(out['violations']) < 3:
            what, x, y = bad
            xl, yl = x.splitlines(), y.splitlines()
            k = next((i for i in range(min(len(xl), len(yl))) if xl[i] != yl[i]), min(len(xl), len(yl)))
            rp = os.path.join(ROOT, 'replays', 'C13-' + os.path.basename(os.path.dirname(f)) + '-' + os.path.basename(f))
            open(rp, 'w').write(f"# property C13: output differs ({what}) at line {k}:\n#  run 1: {xl[k] if k < len(xl) else '<end>'}\n#  run 2: {yl[k] if k < len(yl) else '<end>'}\n" + open(f).read())
            out['violations'].append({'replay': rp, 'cmd': 'replay', 'classes': ['nondeterminism'], 'chk': what})
    out['determinism_histories'] = len(files)
    out['determinism_replays'] = 5 * len(files)
    out['determinism_ops'] = nops
    return out


def c19_extra(ROOT, tier, seed, sh, WORK):
    """Isolation: groups of 8 histories replayed concurrently, one goroutine and one set of
    worlds each, under the race detector; every output must equal the solo replay."""
    import os, subprocess
    out = {'violations': []}
    sh("cd harness && go build -race -o harness_race .", timeout=900)
    groups = 6 if tier == 'quick' else 80
    files = _gen_traces(ROOT, WORK, 'c19', seed, sh, ['mixed', 'rel'], groups * 4)
    H = os.path.join(ROOT, 'harness', 'harness')
    HR = os.path.join(ROOT, 'harness', 'harness_race')
    races = 0
    for g in range(groups):
        grp = files[g * 8:(g + 1) * 8]
        if not grp:
            break
        p = subprocess.run([HR, 'par'] + grp, capture_output=True, text=True, env=dict(os.environ, GORACE='halt_on_error=0'))
        race = 'DATA RACE' in p.stderr
        for f in grp:
            solo = subprocess.run([H, 'replay', '-raw', f], capture_output=True, text=True).stdout
            par = open(f + '.par').read() if os.path.exists(f + '.par') else ''
            if (par != solo or race or p.returncode not in (0, 66)) and len(out['violations']) < 3:
                rp = os.path.join(ROOT, 'replays', 'C19-' + os.path.basename(os.path.dirname(f)) + '-' + os.path.basename(f))
                open(rp, 'w').write("# property C19: " + ("data race reported:\n# " + p.stderr[:1500].replace("\n", "\n# ") if race else "concurrent replay differs from solo replay") + "\n# group: " + " ".join(grp) + "\n" + open(f).read())
                out['violations'].append({'replay': rp, 'cmd': 'par', 'classes': ['race' if race else 'crosstalk'], 'chk': 'race' if race else 'crosstalk'})
                if race:
                    races += 1
                    break
    out['concurrent_groups'] = groups
    out['concurrent_histories'] = len(files)
    out['race_reports'] = races
    return out


def c14_extra(ROOT, tier, seed, sh, WORK):
    """Pointer-carrying components under GC: finalizer audit over seeded histories
    (gc_harness/), plain, with GOGC=1, and with a goroutine forcing collections."""
    import os, re, subprocess
    out = {'violations': []}
    sh("cd gc_harness && cp /repo/go.sum . 2>/dev/null; go build -o gc_harness .", timeout=900)
    n = 30 if tier == 'quick' else 400
    G = os.path.join(ROOT, 'gc_harness', 'gc_harness')
    runs = [('plain', {}, []), ('GOGC=1', {'GOGC': '1'}, []), ('gcgoroutine', {}, ['-gcgoroutine'])]
    tot = {'histories': 0, 'ops': 0, 'live_checks': 0, 'released_checks': 0}
    retained = set()   # histories with a retention report in a regime without concurrent collection
    for name, env, flags in runs:
        p = subprocess.run([G, '-seed', str(seed % 100000), '-n', str(n)] + flags, capture_output=True, text=True,
                           env=dict(os.environ, **env), timeout=3000)
        m = re.search(r'SUMMARY histories=(\d+) ops=(\d+) live_checks=(\d+) released_checks=(\d+) fails=(\d+)', p.stdout)
        if not m:
            rp = os.path.join(ROOT, 'replays', f'C14-{name}.txt')
            open(rp, 'w').write(p.stdout[-3000:] + p.stderr[-3000:])
            out['violations'].append({'replay': rp, 'cmd': 'gc', 'classes': ['gc'], 'chk': f'{name}: harness produced no summary'})
            continue
        for k, v in zip(tot, m.groups()):
            tot[k] += int(v)
        kinds = {}
        for l in p.stdout.splitlines():
            mm = re.match(r'FAIL history=(\S+) op=\S+ ([a-z ]+):', l)
            if mm:
                kind = mm.group(2)
                if kind == 'storage retains removed payload':
                    if name != 'gcgoroutine':
                        retained.add(mm.group(1))
                    elif mm.group(1).isdigit() and int(mm.group(1)) < n and mm.group(1) not in retained:
                        # What the storage holds is a function of the history alone, and the SAME history
                        # (same seed, same index) released everything in the two regimes in which the
                        # collector only runs between operations.  A finalizer that does not run while a
                        # goroutine collects concurrently is therefore not the storage keeping a reference:
                        # in this regime the untyped moves of known finding K2 corrupt the heap ("marked
                        # free object in span"), finalizer records included.  Reported under K2.
                        kind = 'retention only under concurrent collection'
                kinds.setdefault(kind, []).append(l)
        for kind, lines in kinds.items():
            if kind == 'suppressed':
                continue
            rp = os.path.join(ROOT, 'replays', f"C14-{name}-{kind.replace(' ', '_')}.txt")
            open(rp, 'w').write(f"# gc_harness -seed {seed % 100000} -n {n} {' '.join(flags)} (env {env})\n" + "\n".join(lines[:40]) + "\n")
            out['violations'].append({'replay': rp, 'cmd': 'gc', 'classes': ['gc'], 'chk': f'{name}: {kind}'})
    out.update({'gc_' + k: v for k, v in tot.items()})
    return out


def c18_extra(ROOT, tier, seed, sh, WORK):
    """Generic API against its documented ID-based equivalents on twin worlds, all arities."""
    import os, re, subprocess
    out = {'violations': []}
    sh("cd generic_harness && cp /repo/go.sum . 2>/dev/null; go build -o generic_harness .", timeout=900)
    n = 20 if tier == 'quick' else 400
    G = os.path.join(ROOT, 'generic_harness', 'generic_harness')
    p = subprocess.run([G, '-seed', str(seed % 100000), '-n', str(n)], capture_output=True, text=True, timeout=3000)
    m = re.search(r'SUMMARY cases=(\d+) fails=(\d+) arities=(\S+)', p.stdout)
    if not m:
        rp = os.path.join(ROOT, 'replays', 'C18-harness.txt')
        open(rp, 'w').write(p.stdout[-3000:] + p.stderr[-3000:])
        out['violations'].append({'replay': rp, 'cmd': 'generic', 'classes': ['generic'], 'chk': 'harness produced no summary'})
        return out
    kinds = {}
    for l in p.stdout.splitlines():
        if l.startswith('FAIL '):
            key = re.sub(r'arity=\d+', 'arity=N', l)[:90]
            kinds.setdefault(key, []).append(l)
    for key, lines in kinds.items():
        rp = os.path.join(ROOT, 'replays', 'C18-' + re.sub(r'[^A-Za-z0-9]+', '_', key)[:60] + '.txt')
        open(rp, 'w').write(f"# generic_harness -seed {seed % 100000} -n {n}\n" + "\n".join(lines[:40]) + "\n")
        out['violations'].append({'replay': rp, 'cmd': 'generic', 'classes': ['generic'], 'chk': lines[0][:300]})
    out['generic_cases'] = int(m.group(1))
    out['generic_arities'] = m.group(3)
    return out


def c20_extra(ROOT, tier, seed, sh, WORK):
    """generic.Resource[T] against World.Resources() on twin worlds, with changes made behind
    the mapper's back (Resources().Add/Remove, World.Reset)."""
    import os, re, subprocess
    out = {'violations': []}
    sh("cd generic_harness && cp /repo/go.sum . 2>/dev/null; go build -o generic_harness .", timeout=900)
    n = 20 if tier == 'quick' else 400
    G = os.path.join(ROOT, 'generic_harness', 'generic_harness')
    p = subprocess.run([G, '-seed', str(seed % 100000), '-n', str(n), '-section', 'resource'], capture_output=True, text=True, timeout=3000)
    m = re.search(r'SUMMARY cases=(\d+) fails=(\d+)', p.stdout)
    if not m:
        rp = os.path.join(ROOT, 'replays', 'C20-harness.txt')
        open(rp, 'w').write(p.stdout[-3000:] + p.stderr[-3000:])
        out['violations'].append({'replay': rp, 'cmd': 'generic', 'classes': ['generic'], 'chk': 'harness produced no summary'})
        return out
    kinds = {}
    for l in p.stdout.splitlines():
        if l.startswith('FAIL '):
            kinds.setdefault(re.sub(r'iter=\d+', 'iter=N', l)[:90], []).append(l)
    for key, lines in kinds.items():
        rp = os.path.join(ROOT, 'replays', 'C20-' + re.sub(r'[^A-Za-z0-9]+', '_', key)[:60] + '.txt')
        open(rp, 'w').write(f"# generic_harness -seed {seed % 100000} -n {n} -section resource\n" + "\n".join(lines[:40]) + "\n")
        out['violations'].append({'replay': rp, 'cmd': 'generic', 'classes': ['generic'], 'chk': lines[0][:300]})
    out['generic_resource_cases'] = int(m.group(1))
    return out


PROPS = {
    'C01': {
        'budget': _merge(_p('core', 220, 4000), _p('mixed', 80, 2000)),
        'projection': [(r'view_mask', None), (r'view_vals', None), (r'res:(GET|HAS|MASK)', None),
                       (r'panic_unexpected:(XCHG|ASSIGN|SET|GET|HAS|MASK|VIEW|NEW|NEWWITH|BADD|BNEW|BXCHG|BBATCH|BBATCHQ)', None)],
        'chk': [r'Has\(|Get\(|Ids .* Mask'],
        'own_ops': {'XCHG', 'ASSIGN', 'SET', 'RM', 'BXCHG'},
        'rule': "seeded histories (profile core+mixed), 40-160 ops + probe suffix; non-trivial = contains an exchange/assign/set/remove/batch move after the first 10 ops; distinct by hash of the op list",
        'proof_files': ['Proofs/Storage.v'],
    },
    'C02': {
        'budget': _merge(_p('handles', 220, 4000), _p('dump', 80, 1000), _p('mixed', 60, 1000)),
        'projection': [(r'res:(ALIVE|STATS|NEW|NEWWITH|BNEW|BBATCH|BBATCHQ|DUMP|LOAD)', None),
                       (r'panic_unexpected:(NEW|NEWWITH|BNEW|BBATCH|BBATCHQ|RM|BRM|ALIVE|RESET|LOAD)', None)],
        'own_ops': {'RM', 'BRM', 'BBATCH', 'NEW', 'RESET'},
        'rule': "seeded histories (profile handles): single/batch creation and removal, filters, Reset, dump/load; non-trivial = a removal or batch creation after the first 10 ops",
        'proof_files': ['Proofs/PoolInv.v'],
    },
    'C03': {
        'budget': _merge(_p('query', 220, 4000), _p('mixed', 60, 1000)),
        'projection': [(r'res:(QSCAN|QNEXT|QSTEP|QCOUNT|QAT|QENT|QVIEW|QREL|QUERY)', None),
                       (r'panic_(missing|unexpected):Q.*', None)],
        'chk': [r'Count\(\)|EntityAt|visited|Step|Query\.'],
        'own_ops': {'QSCAN', 'QUERY', 'QNEXT', 'QSTEP'},
        'rule': "every QSCAN checks on the implementation: Count = visited, EntityAt(i) = i-th visited, Step(k) twin vs Next, no duplicates, accessors vs world, out-of-range panics; the visited set and count are compared with the model",
        'proof_files': ['Proofs/Cursor.v'],
    },
    'C04': {
        'budget': _merge(_p('query', 120, 2000), _p('mixed', 60, 1000)),
        'projection': [(r'res:(QSCAN|MASK)', None), (r'view_mask', None)],
        'chk': [r'REFFAIL|generated|Has\(|Mask'],
        'own_ops': {'QSCAN'},
        'extra': c04_extra,
        'rule': "translator validation: every generated function evaluated by vm_compute on all single-bit masks, boundary pairs across all words, complements, seeded random masks x all IDs (both builds) against the Go function; Go functions against naive set semantics; plus filter-heavy histories against the model",
        'trusted_base': TB_COMMON + ["translator (translator/*.go), Pure/MachInt.v (machine integers, popcount64 = bits.OnesCount64), go/types with the source importer"],
    },
    'C05': {
        'budget': _merge(_p('rel', 220, 4000), _p('cache', 80, 1000), _p('mixed', 60, 1000)),
        'projection': [(r'view_target', None), (r'res:(RELGET|QREL)', None),
                       (r'panic_missing:(RELSET|RELXCHG|BNEW|BBATCH|BBATCHQ|BADD|BSETREL|BXCHG|NEW|NEWWITH|XCHG|ASSIGN)', None),
                       (r'panic_unexpected:(RELSET|RELXCHG|RELGET)', None),
                       (r'res:QSCAN', 'op_relfilter')],
        'chk': [r'Relation', r'cached filter \d+ \(R '],
        'own_ops': {'RELSET', 'RELXCHG', 'BSETREL', 'BNEW'},
        'rule': "seeded histories (profile rel): targets alive/zero/self/dead/recycled through every target-taking entry point; non-trivial = a relation operation after the first 10 ops",
    },
    'C06': {
        'budget': _merge(_p('rel', 220, 4000, "-minlen 80"), _p('reset', 60, 1000)),
        'projection': [(r'panic_unexpected:(RM|BRM|RESET)', None),
                       (r'view_(mask|vals|target)', 'target_died'), (r'res:(QSCAN|ALIVE|RELGET|STATS)', 'target_died'),
                       (r'panic_unexpected:.*', 'target_died')],
        'own_ops': {'RM', 'BRM', 'RESET'},
        'rule': "seeded histories (profile rel/reset) with hub targets, self-targets, targets removed alone, by batch and by Reset, followed by reuse for fresh targets in the probe suffix; a difference counts once a target has died in the history; non-trivial = an entity removal after the first 10 ops",
    },
    'C07': {
        'budget': _merge(_p('cache', 220, 4000), _p('reset', 60, 1000)),
        'projection': [(r'res:(QSCAN|BXCHG|BSETREL|BRM|QUERY|QCOUNT)', 'op_cached'), (r'res:(CREG|CUNREG)', None),
                       (r'panic_(missing|unexpected):(CREG|CUNREG)', None), (r'panic_(missing|unexpected):.*', 'op_cached')],
        'chk': [r'cached filter'],
        'own_ops': {'CREG', 'CUNREG'},
        'rule': "seeded histories (profile cache): up to 8 registered filters incl. relation filters, registered before/after the entities exist; every cached scan is paired with a scan through the original filter (implementation against implementation) and both are compared with the model",
    },
    'C08': {
        'budget': _merge(_p('batch', 220, 4000), _p('mixed', 60, 1000)),
        'projection': [(r'res:(BXCHG|BSETREL|BRM|BBATCH|BBATCHQ)', None), (r'res:QSCAN', 'op_handle'),
                       (r'view_(mask|vals|target)', 'batch'), (r'panic_unexpected:(BXCHG|BSETREL|BRM|BBATCH|BBATCHQ)', None),
                       # the query a Q variant returns: Count, EntityAt, Next/Step, the accessors, and scans that panic
                       (r'(res|panic_unexpected|panic_missing):(QCOUNT|QAT|QNEXT|QSTEP|QENT|QVIEW|QREL|QSCAN)', 'op_batch_query')],
        'chk': [r'twin'],
        'own_ops': {'BXCHG', 'BSETREL', 'BRM', 'BBATCH', 'BBATCHQ'},
        'rule': "seeded histories (profile batch); the model's batch operations are proved/defined as the fold of the single operation, so model agreement = batch equals singles; non-trivial = a batch operation after the first 10 ops",
    },
    'C09': {
        'budget': _merge(_p('lock', 220, 4000), _p('mixed', 60, 1000), _p('subs', 80, 1500)),
        'projection': [(r'res:(LOCKED|QNEXT|QSTEP|QCLOSE|QUERY)', None), (r'ev_locked', None), (r'panic_(missing|unexpected):(%s)' % STRUCT, 'locked_now'),
                       (r'panic_unexpected:(QUERY|QSCAN)', None), (r'panic_unexpected:(%s)' % STRUCT, 'was_locked')],
        'chk': [r'locked'],
        'own_ops': {'QUERY', 'QNEXT', 'QSTEP', 'QCLOSE'},
        'rule': "seeded histories (profile lock): up to 6 nested open queries of every kind, structural operations attempted while locked, release by Next/Step/Close; non-trivial = a query left open after the first 10 ops",
    },
    'C10': {
        'budget': _merge(_p('illegal', 220, 4000), _p('mixed', 60, 1000)),
        'projection': [(r'panic_missing:.*', None)],
        'chk': [r'state changed', r'did not panic'],
        'own_ops': {'XCHG', 'RM', 'RELSET', 'RELXCHG', 'SET', 'ASSIGN', 'BNEW', 'NEW'},
        'rule': "seeded histories (profile illegal): 40 % of the operations come from the illegal-argument stream (16 classes); for each, the model must panic too, and the implementation's full observable digest before and after a failed single-entity call must be equal; out-of-range EntityAt / Step(0) on every scanned query (plain, cached, batch) must panic",
    },
    'C11': {
        'budget': _merge(_p('events', 220, 4000), _p('mixed', 60, 1000, "")),
        'projection': [(r'events', None)],
        'chk': [r'event'],
        'own_ops': {'XCHG', 'RM', 'RELSET', 'BXCHG', 'BSETREL', 'BRM', 'NEW', 'BNEW'},
        'rule': "seeded histories (profile events) with an all-subscribing listener: the sorted event list of every operation (entity, masks, id lists, relations, old target, type bits, lock flag) is compared with the model's",
    },
    'C12': {
        'budget': _merge(_p('subs', 260, 4000)),
        'projection': [(r'events', None), (r'res:LISTEND', None)],
        'own_ops': {'LISTEN', 'LISTEND'},
        'rule': "seeded histories (profile subs): random subscription masks (all 64) and component restrictions installed through listener.Callback and listener.Dispatch (sub-listeners given to NewDispatch, added before and after SetListener), changed during the history; delivered events compared with the model's filtered stream, and the Dispatch's own Subscriptions()/Components() after all additions compared with the model's outer_cfg",
    },
    'C13': {
        'budget': _merge(_p('mixed', 40, 400)),
        'projection': [],
        'own_ops': {'QSCAN', 'RM', 'XCHG', 'NEW'},
        'extra': c13_extra,
        'level': 'proof',
        'rule': "histories (profiles mixed, rel, cache, batch) replayed raw (real handles, iteration order, event order) in a second process with GOGC=1 and a goroutine forcing GC, and twice in one process: outputs compared byte for byte, implementation against implementation",
    },
    'C14': {
        'budget': _merge(_p('core', 60, 600)),
        'projection': [(r'view_vals', None)],
        'own_ops': {'XCHG', 'RM', 'SET'},
        'extra': c14_extra,
        'rule': "gc_harness: seeded histories over 11 component types holding pointers/slices/maps/strings (with and without a pointer beside them)/arrays of pointers/a 328-byte component with its references at the end, whose referents are reachable only through the component; finalizers audit that live referents are never collected and removed ones are released; three collector regimes (between bursts, GOGC=1, concurrent goroutine)",
    },
    'C15': {
        'budget': _merge(_p('reset', 220, 4000), _p('cache', 40, 500)),
        'projection': [(r'.*', 'reset')],
        'own_ops': {'RESET'},
        'rule': "seeded histories (profile reset): several Reset cycles with registered (relation) filters, dead targets, retired tables before the reset; every observable after a reset is compared with the model, whose Reset is proved to give a fresh world's behaviour",
    },
    'C16': {
        'budget': _merge(_p('registry', 160, 3000), _p('lock', 60, 500), _p('mixed', 40, 500), _p('res', 40, 500)),
        'projection': [(r'res:(REG|RESREG)', None), (r'panic_(missing|unexpected):(REG|RESREG)', None),
                       (r'view_(mask|vals)', 'many_comps'), (r'panic_unexpected:.*', 'many_comps')],
        'chk': [r'Component', r'ResourceType', r'(Has|Get)\((1[6-9]|[2-9]\d|\d{3})\)'],   # wrong answers for IDs beyond the first layout chunk
        'own_ops': {'REG', 'RESREG'},
        'rule': "seeded histories (profiles registry, res): registrations interleaved with table creation up to MaskTotalBits types of 8 shapes; ComponentInfo/ComponentIDs checked on every component registration, ResourceTypeID/ResourceType on every resource registration (resource and component types registered under different numbers)",
    },
    'C17': {
        'budget': _merge(_p('dump', 220, 4000)),
        'projection': [(r'res:(DUMP|LOAD)', None), (r'panic_(missing|unexpected):(DUMP|LOAD)', None),
                       (r'res:(ALIVE|NEW|NEWWITH|BNEW|BBATCH|STATS|RM|BRM)', 'load'),
                       (r'panic_(missing|unexpected):(ALIVE|NEW|NEWWITH|BNEW|BBATCH|STATS|RM|BRM)', 'load')],
        'chk': [r'dump|load|JSON'],
        'own_ops': {'DUMP', 'LOAD'},
        'rule': "seeded histories (profile dump): dump, load into a fresh or reset twin world, shared continuation",
    },
    'C18': {
        'budget': _merge(_p('mixed', 40, 400)),
        'projection': [],
        'own_ops': {'QSCAN', 'RM', 'XCHG', 'NEW'},
        'extra': c18_extra,
        'rule': "generic_harness: for every arity 0-12, twin worlds driven through MapN/FilterN/QueryN/Map/Exchange/Resource and through the documented ID-based equivalents; handles, counts, events, full dumps, pointer identity of every Get position, builder-call sequences before and between queries, registered or not",
    },
    'C19': {
        'budget': _merge(_p('mixed', 40, 400), _p('dump', 80, 800)),
        'projection': [],
        'chk': [r'changed world', r'another world'],
        'own_ops': {'QSCAN', 'RM', 'XCHG', 'NEW'},
        'extra': c19_extra,
        'level': 'proof',
        'rule': "groups of 8 histories replayed concurrently (one goroutine, one set of worlds each, different registration orders) in a -race build; each output compared with its solo replay; race detector reports counted; worlds of one process share one Dispatch template value and every listener checks that the events it receives come from its own world",
    },
    'C20': {
        'budget': _merge(_p('res', 220, 4000)),
        'projection': [(r'res:RES.*', None), (r'panic_(missing|unexpected):RES.*', None)],
        'chk': [r'Resource'],
        'own_ops': {'RESADD', 'RESRM', 'RESGET', 'RESHAS'},
        'extra': c20_extra,
        'rule': "seeded histories (profile res): Add/Remove/Get/Has over several resource types interleaved with entity operations, locks and Reset; pointer identity checked on every Get; plus generic.Resource[T] against World.Resources() on twin worlds with changes behind the mapper's back",
    },
}

for _k, _v in PROPS.items():
    _v.setdefault('trusted_base', list(TB_COMMON))
    _v.setdefault('level', 'proof')
