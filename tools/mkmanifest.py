#!/usr/bin/env python3
"""Writes MANIFEST.json from tools/propcfg.py and tools/levels.json (texts per property)."""
import json, os, sys
ROOT = os.path.dirname(os.path.dirname(os.path.abspath(__file__)))
sys.path.insert(0, os.path.join(ROOT, "tools"))
from propcfg import PROPS
levels = json.load(open(os.path.join(ROOT, "tools", "levels.json")))
hooks = json.load(open(os.path.join(ROOT, "MANIFEST.hooks"))) if os.path.exists(os.path.join(ROOT, "MANIFEST.hooks")) else {}
checks = []
for pid in sorted(PROPS):
    lv = levels[pid]
    checks.append({
        "property_id": pid,
        "quick_cmd": f"python3 tools/check.py {pid} --tier quick",
        "thorough_cmd": f"python3 tools/check.py {pid} --tier thorough",
        "evidence_file": f"/verif/evidence/{pid}.json",
        "replay_cmd_template": f"python3 tools/check.py {pid} --replay {{path}}",
        "engine": "coq-model+correspondence",
        "level_claimed": {"category": lv.get("category", "proof"), "text": lv["text"], "design_ref": lv.get("design_ref", "DESIGN.md section 6")},
        "level_note": lv["note"],
        "technique": lv["technique"],
    })
allp = [json.loads(l)["id"] for l in open(os.path.join(ROOT, "properties.jsonl"))]
na = [{"property_id": p, "reason": levels.get(p, {}).get("na_reason", "check not built yet in this revision; see DESIGN.md section 6")} for p in allp if p not in PROPS]
m = {
    "version": 1,
    "setup_cmd": "./tools/build.sh",
    "hooks": {
        "guard": "verif",
        "enable": "go build -tags verif (tv_harness module with replace => /repo; the other harnesses need no hooks)",
        "baseline_off_cmd": "cd /repo && go test -vet=off -count=1 ./...",
        "source_commits": hooks.get("source_commits", []),
        "add_only": True,
    },
    "engines": [
        {"name": "coq-model+correspondence", "path": "coq/ ocaml/ harness/ tools/check.py", "serves_properties": sorted(PROPS),
         "kind_free_text": "Coq 8.16 model with theorems (coq/theories), extracted to OCaml and replayed against the Go implementation on seeded histories (differential correspondence check)"},
    ],
    "checks": checks,
    "notes": "All checks rebuild the harness against /repo's working tree and the Coq development incrementally; see DESIGN.md.",
    "not_applicable": na,
}
json.dump(m, open(os.path.join(ROOT, "MANIFEST.json"), "w"), indent=1)
print("checks:", len(checks), "not_applicable:", len(na))
