#!/bin/bash
# development helper: generate histories for a profile and diff model vs implementation
# usage: devdiff.sh <profile> <seed> <count> [extra gen flags]
set -e
export GOFLAGS=-mod=mod GOPROXY=off GOSUMDB=off GOTOOLCHAIN=local GOWORK=off
prof=$1; seed=$2; count=$3; shift 3
d=/tmp/probe/dd_$prof
rm -rf $d; mkdir -p $d
(cd /verif/harness && go build -o harness . )
/verif/harness/harness gen -seed $seed -profile $prof -count $count -out $d "$@"
cd $d
nd=0
for f in h*.trace; do
  b=${f%.trace}
  /verif/ocaml/driver $f > $b.model
  grep -E '^(R|EV) ' $f > $b.impl || true
  if ! diff -q $b.impl $b.model >/dev/null; then
    nd=$((nd+1))
    if [ $nd -le ${SHOW:-6} ]; then echo "== $f"; diff $b.impl $b.model | head -${LINES_:-4}; fi
  fi
done
echo "histories with diffs: $nd / $count"
echo "CHK failures:"; grep -h "FAIL" h*.trace | sed 's/^CHK [0-9]* //' | sort | uniq -c | sort -rn | head
