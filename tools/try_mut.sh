#!/bin/bash
# Confirm a sub-agent's mutation in a scratch worktree, then run checks against /repo with it applied.
# usage: try_mut.sh <PID> <m1|m2> [check ids...]   (default check: the PID itself)
PID=$1; M=$2; shift 2
CHECKS=${@:-$PID}
SRC=${MUTBASE:-/tmp/mut}/out/$PID/$M
[ -f $SRC/patch.diff ] || SRC=/verif/seeded/$PID-$M
SCR=/tmp/mutv/${PID}_$M
export GOFLAGS= GOPROXY=off GOSUMDB=off GOTOOLCHAIN=local
[ -f $SRC/patch.diff ] || { echo "no patch at $SRC"; exit 2; }
rm -rf $SCR; git -C /repo worktree prune; git -C /repo worktree add --detach $SCR HEAD >/dev/null 2>&1 || exit 2
place=$(head -5 $SRC/demo_test.go | grep -o "place in: *[a-z_/]*" | sed 's/place in: *//' | head -1); place=${place:-ecs/}
demo=$(grep -o "func Test[A-Za-z0-9_]*" $SRC/demo_test.go | head -1 | sed 's/func //')
conf=ok
( cd $SCR && git apply $SRC/patch.diff ) || conf="patch-does-not-apply"
if [ $conf = ok ]; then
  ( cd $SCR && go build ./... && go test -vet=off -count=1 ./... >/tmp/mutv/${PID}_$M.suite 2>&1 ) || conf="suite-fails-with-patch"
fi
if [ $conf = ok ]; then
  cp $SRC/demo_test.go $SCR/$place/zz_demo_test.go
  ( cd $SCR && go test -vet=off -count=1 -run "^$demo\$" ./$place >/tmp/mutv/${PID}_$M.demo_with 2>&1 ) && conf="demo-passes-with-patch"
fi
if [ $conf = ok ]; then
  ( cd $SCR && git apply -R $SRC/patch.diff && go test -vet=off -count=1 -run "^$demo\$" ./$place >/tmp/mutv/${PID}_$M.demo_without 2>&1 ) || conf="demo-fails-without-patch"
fi
git -C /repo worktree remove --force $SCR
echo "CONFIRM $PID/$M: $conf (demo $demo in $place)"
[ $conf = ok ] || exit 3
# run the checks against /repo
cd /repo && git apply $SRC/patch.diff || { echo "cannot apply to /repo"; exit 4; }
cd /verif
EVSAVE=$(mktemp -d /root/evsave.XXXX); cp -a evidence/. $EVSAVE/   # evidence must come from clean-tree runs only
for c in $CHECKS; do
  out=$(python3 tools/check.py $c 2>&1 | grep -E "^VIOLATION|quick:" | head -3)
  echo "  check $c: $(echo "$out" | tr '\n' ' ' | cut -c1-300)"
done
git -C /repo checkout -- . ; git -C /repo status --short | head -3
cp -a $EVSAVE/. evidence/; rm -rf $EVSAVE
./tools/build.sh >/dev/null 2>&1   # harness/Gen back to the clean tree
