#!/bin/bash
# Build everything the checks need, offline: Coq development (full .vo build),
# extraction of the model, OCaml driver, Go harness (against /repo's working tree).
set -e
cd "$(dirname "$0")/.."
ROOT=$(pwd)
export GOFLAGS=-mod=mod GOPROXY=off GOSUMDB=off GOTOOLCHAIN=local GOWORK=off
# 1. regenerate the pure layer from the current sources (translator is rebuilt too)
(cd translator && go build -o translator . && ./translator -repo /repo -out "$ROOT/coq/theories/Gen.new" \
   && mkdir -p "$ROOT/coq/theories/Gen" \
   && for f in "$ROOT"/coq/theories/Gen.new/*; do b=$(basename "$f"); cmp -s "$f" "$ROOT/coq/theories/Gen/$b" || cp "$f" "$ROOT/coq/theories/Gen/$b"; done; rm -rf "$ROOT/coq/theories/Gen.new") \
  || { echo "TRANSLATOR FAILED"; rm -f "$ROOT"/coq/theories/Gen/*.v "$ROOT"/coq/theories/Gen/*.vo; }
# 2. Coq development: full .vo build; -k so that a broken generated file only takes down
#    the proofs that depend on it (each check verifies its own Properties/Cxx.vo)
(cd coq && coq_makefile -f _CoqProject -o Makefile >/dev/null && (timeout 3000 make -k -j16 2>&1 | grep -v "^COQC\|^COQDEP\|^make" || true))
(cd ocaml && timeout 600 coqc -Q ../coq/theories Arche ../coq/theories/Extract/Extract.v >/dev/null \
   && rm -f ../coq/theories/Extract/Extract.vo* ../coq/theories/Extract/Extract.glob ../coq/theories/Extract/.Extract.aux \
   && ocamlfind ocamlopt -w -a model.mli model.ml driver.ml -o driver)
(cd harness && cp /repo/go.sum . 2>/dev/null; go build -o harness .)
echo "build ok"
