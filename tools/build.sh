#!/bin/bash
# Build everything the checks need, offline: Coq development (full .vo build),
# extraction of the model, OCaml driver, Go harness (against /repo's working tree).
set -e
cd "$(dirname "$0")/.."
ROOT=$(pwd)
export GOFLAGS=-mod=mod GOPROXY=off GOSUMDB=off GOTOOLCHAIN=local GOWORK=off
(cd coq && coq_makefile -f _CoqProject -o Makefile >/dev/null && timeout 3000 make -j16 2>&1 | grep -v "^COQC\|^COQDEP\|^make" || true)
(cd coq && timeout 3000 make -j16 >/dev/null)   # fails loudly if anything did not build
(cd ocaml && timeout 600 coqc -Q ../coq/theories Arche ../coq/theories/Extract/Extract.v >/dev/null \
   && rm -f ../coq/theories/Extract/Extract.vo* ../coq/theories/Extract/Extract.glob ../coq/theories/Extract/.Extract.aux \
   && ocamlfind ocamlopt -w -a model.mli model.ml driver.ml -o driver)
(cd harness && cp /repo/go.sum . 2>/dev/null; go build -o harness .)
echo "build ok"
