#!/bin/bash
# Build everything the checks need, offline: Coq development (full .vo build),
# extraction of the model, OCaml driver, Go harness (against /repo's working tree).
set -e
cd "$(dirname "$0")/.."
ROOT=$(pwd)
export GOFLAGS=-mod=mod GOPROXY=off GOSUMDB=off GOTOOLCHAIN=local GOWORK=off
# 1. regenerate the pure layer from the current sources (translator is rebuilt too)
(cd translator && go build -o translator . && ./translator -repo /repo -out "$ROOT/coq/theories/Gen.new" \
   && mkdir -p "$ROOT/coq/theories/Gen" \
   && for f in "$ROOT"/coq/theories/Gen.new/*; do b=$(basename "$f"); cmp -s "$f" "$ROOT/coq/theories/Gen/$b" || cp "$f" "$ROOT/coq/theories/Gen/$b"; done; rm -rf "$ROOT/coq/theories/Gen.new") \
  || { echo "TRANSLATOR FAILED"; rm -f "$ROOT"/coq/theories/Gen/*.v "$ROOT"/coq/theories/Gen/*.vo; }
# 2. Coq development: full .vo build; -k so that a broken generated file only takes down
#    the proofs that depend on it (each check verifies its own Properties/Cxx.vo)
(cd coq && coq_makefile -f _CoqProject -o Makefile >/dev/null && (timeout 3000 make -k -j16 2>&1 | grep -v "^COQC\|^COQDEP\|^make" || true))
# a source that no longer compiles must not leave its previous .vo behind (a stale .vo of a
# generated file would let stale proofs load): whatever imports it then fails to load
find coq/theories -name '*.v' | while read -r f; do
  vo="${f%.v}.vo"
  if [ -f "$vo" ] && [ "$f" -nt "$vo" ]; then rm -f "$vo" "${f%.v}.vos" "${f%.v}.vok"; fi
done
(cd ocaml && timeout 600 coqc -Q ../coq/theories Arche ../coq/theories/Extract/Extract.v >/dev/null \
   && rm -f ../coq/theories/Extract/Extract.vo* ../coq/theories/Extract/Extract.glob ../coq/theories/Extract/.Extract.aux \
   && ocamlfind ocamlopt -w -a model.mli model.ml driver.ml -o driver)
(cd harness && cp /repo/go.sum . 2>/dev/null; go build -o harness .)
# 3. translator validation: the translator's output extracted to OCaml, and a harness that calls
#    the real pool code through the verif-tagged hooks (a failure here only disables that step)
for k in Pool:pool Locks:lock Locks64:lock64 IntPool:intpool BitSet:bitset Paged:paged Res:res; do
  E=${k%%:*}; n=${k##*:}
  (cd ocaml && rm -f tvd_$n gm_$n.ml gm_$n.mli \
     && timeout 600 coqc -Q ../coq/theories Arche ../coq/theories/Extract/ExtractGo$E.v >/dev/null 2>&1 \
     && rm -f ../coq/theories/Extract/ExtractGo$E.vo* ../coq/theories/Extract/ExtractGo$E.glob ../coq/theories/Extract/.ExtractGo$E.aux \
     && { echo "open Gm_$n"; cat tvcommon.ml tv_$n.ml; } > tvd_$n.ml \
     && ocamlfind ocamlopt -w -a gm_$n.mli gm_$n.ml tvd_$n.ml -o tvd_$n) || { echo "TV DRIVER $n NOT BUILT"; rm -f ocaml/tvd_$n; }
done
(cd tv_harness && cp /repo/go.sum . 2>/dev/null; go build -tags verif -o tv_harness .) || { echo "TV HARNESS NOT BUILT"; rm -f tv_harness/tv_harness; }
(cd tv_harness && go build -tags "verif tiny" -o tv_harness_tiny .) || { echo "TV HARNESS (tiny) NOT BUILT"; rm -f tv_harness/tv_harness_tiny; }
echo "build ok"
