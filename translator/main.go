// Translator: regenerates Gallina definitions from the pure parts of /repo on every run.
//
//	translator -repo /repo -out /verif/coq/theories/Gen
//
// It accepts a deliberately small subset of Go (see DESIGN.md section 2.1) and refuses
// everything else loudly: a function that leaves the subset is emitted as a definition
// that does not compile, which breaks the proof obligation that depends on it.
// Types and constant values come from go/types (source importer, no network).
package main

import (
	"bytes"
	"crypto/sha256"
	"flag"
	"fmt"
	"go/ast"
	"go/build"
	"go/constant"
	"go/importer"
	"go/parser"
	"go/printer"
	"go/token"
	"go/types"
	"os"
	"path/filepath"
	"sort"
	"strings"
)

type pkgInfo struct {
	fset  *token.FileSet
	files []*ast.File
	info  *types.Info
	pkg   *types.Package
	dir   string
}

func load(repo, rel string, tags []string) *pkgInfo {
	ctx := build.Default
	ctx.BuildTags = tags
	ctx.Dir = repo
	dir := filepath.Join(repo, rel)
	bp, err := ctx.ImportDir(dir, 0)
	if err != nil {
		panic(err)
	}
	fset := token.NewFileSet()
	var files []*ast.File
	for _, f := range bp.GoFiles {
		af, err := parser.ParseFile(fset, filepath.Join(dir, f), nil, parser.ParseComments)
		if err != nil {
			panic(err)
		}
		files = append(files, af)
	}
	info := &types.Info{Types: map[ast.Expr]types.TypeAndValue{}, Defs: map[*ast.Ident]types.Object{},
		Uses: map[*ast.Ident]types.Object{}, Selections: map[*ast.SelectorExpr]*types.Selection{}}
	conf := types.Config{Importer: importer.ForCompiler(fset, "source", nil)}
	pkg, err := conf.Check("github.com/mlange-42/arche/"+rel, fset, files, info)
	if err != nil {
		panic(err)
	}
	return &pkgInfo{fset, files, info, pkg, dir}
}

// ---------------------------------------------------------------- translation

type unsupported struct{ msg string }

func fail(format string, a ...interface{}) { panic(unsupported{fmt.Sprintf(format, a...)}) }

type tr struct {
	p        *pkgInfo
	prefix   string          // name prefix for functions of this package ("", "filter_", "listener_")
	maskLen  int             // 4 for the default build, 0 for tiny (bits is a plain uint64)
	nilable  map[string]bool // pointer parameters compared with nil -> option
	recv     string          // receiver variable name
	recvMut  bool            // method assigns to receiver fields
	mutating map[string]bool // "Mask.Set" etc: methods returning the new receiver
	retVars  []string
}

func width(t types.Type) int {
	b, ok := t.Underlying().(*types.Basic)
	if !ok {
		return 0
	}
	switch b.Kind() {
	case types.Uint8, types.Int8:
		return 8
	case types.Uint16, types.Int16:
		return 16
	case types.Uint32, types.Int32:
		return 32
	case types.Uint64, types.Int64, types.Int, types.Uint, types.Uintptr:
		return 64
	case types.UntypedInt:
		return 64
	}
	return 0
}

func isBool(t types.Type) bool {
	b, ok := t.Underlying().(*types.Basic)
	return ok && (b.Kind() == types.Bool || b.Kind() == types.UntypedBool)
}

func named(t types.Type) string {
	if p, ok := t.(*types.Pointer); ok {
		t = p.Elem()
	}
	if n, ok := t.(*types.Named); ok {
		return n.Obj().Name()
	}
	return ""
}

var coqKeywords = map[string]bool{"end": true, "in": true, "let": true, "match": true, "at": true, "as": true, "fun": true, "if": true, "then": true, "else": true, "return": true, "with": true, "mod": true, "using": true, "cap": false,
	// identifiers of the preludes and of the standard library that a Go local must not shadow
	"res": true, "length": true, "fst": true, "snd": true, "nth": true, "map": true, "repeat": true, "firstn": true, "skipn": true, "wrap": true, "rbind": true, "seq": true, "fold_left": true}

func mangle(s string) string {
	if coqKeywords[s] {
		return s + "_"
	}
	return s
}

func (t *tr) typeOf(e ast.Expr) types.Type {
	tv, ok := t.p.info.Types[e]
	if !ok {
		if id, ok := e.(*ast.Ident); ok {
			if o := t.p.info.Uses[id]; o != nil {
				return o.Type()
			}
			if o := t.p.info.Defs[id]; o != nil {
				return o.Type()
			}
		}
		fail("no type for expression")
	}
	return tv.Type
}

func (t *tr) constVal(e ast.Expr) (string, bool) {
	tv, ok := t.p.info.Types[e]
	if !ok || tv.Value == nil {
		return "", false
	}
	switch tv.Value.Kind() {
	case constant.Int:
		return tv.Value.ExactString(), true
	case constant.Bool:
		if constant.BoolVal(tv.Value) {
			return "true", true
		}
		return "false", true
	}
	return "", false
}

func isNil(e ast.Expr) bool {
	id, ok := e.(*ast.Ident)
	return ok && id.Name == "nil"
}

func (t *tr) expr(e ast.Expr) string {
	if v, ok := t.constVal(e); ok {
		return v
	}
	switch x := e.(type) {
	case *ast.ParenExpr:
		return t.expr(x.X)
	case *ast.Ident:
		if t.nilable[x.Name] {
			// a nil-able pointer parameter used as a value: implicit dereference
			return t.oget(x)
		}
		return mangle(x.Name)
	case *ast.BasicLit:
		return x.Value
	case *ast.StarExpr:
		if id, ok := x.X.(*ast.Ident); ok && t.nilable[id.Name] {
			return t.oget(id)
		}
		return t.expr(x.X)
	case *ast.UnaryExpr:
		switch x.Op {
		case token.NOT:
			return fmt.Sprintf("(negb %s)", t.expr(x.X))
		case token.XOR:
			return fmt.Sprintf("(not_w %d %s)", width(t.typeOf(e)), t.expr(x.X))
		case token.AND:
			return t.expr(x.X)
		}
		fail("unary operator %s", x.Op)
	case *ast.SelectorExpr:
		// field access
		if sel, ok := t.p.info.Selections[x]; ok && sel.Kind() == types.FieldVal {
			rt := named(sel.Recv())
			switch {
			case rt == "ID" && x.Sel.Name == "id":
				return t.expr(x.X)
			case rt == "Mask" && x.Sel.Name == "bits" && t.maskLen == 0:
				return fmt.Sprintf("(mbits %s)", t.expr(x.X))
			case rt == "MaskFilter":
				return fmt.Sprintf("(mf_%s %s)", strings.ToLower(x.Sel.Name), t.expr(x.X))
			}
			fail("field %s.%s", rt, x.Sel.Name)
		}
		fail("selector %s", x.Sel.Name)
	case *ast.IndexExpr:
		// b.bits[i]
		if s, ok := x.X.(*ast.SelectorExpr); ok && s.Sel.Name == "bits" {
			return fmt.Sprintf("(word %s %s)", t.expr(s.X), t.expr(x.Index))
		}
		fail("index expression")
	case *ast.BinaryExpr:
		return t.binary(x, e)
	case *ast.CallExpr:
		return t.call(x)
	case *ast.CompositeLit:
		return t.composite(x)
	}
	fail("expression %T", e)
	return ""
}

func (t *tr) oget(id *ast.Ident) string {
	if named(t.typeOf(id)) == "Mask" {
		return fmt.Sprintf("(ogetM %s)", mangle(id.Name))
	}
	return fmt.Sprintf("(ogetN %s)", mangle(id.Name))
}

func (t *tr) composite(x *ast.CompositeLit) string {
	tn := named(t.typeOf(x))
	switch tn {
	case "Mask":
		if len(x.Elts) == 0 {
			return "mask_zero"
		}
		kv, ok := x.Elts[0].(*ast.KeyValueExpr)
		if !ok {
			fail("Mask literal without key")
		}
		if arr, ok := kv.Value.(*ast.CompositeLit); ok {
			parts := []string{}
			for _, el := range arr.Elts {
				parts = append(parts, t.expr(el))
			}
			return "(mkMask " + strings.Join(parts, " ") + ")"
		}
		return "(mkMask " + t.expr(kv.Value) + ")"
	case "MaskFilter":
		var inc, exc string
		for _, el := range x.Elts {
			kv := el.(*ast.KeyValueExpr)
			switch kv.Key.(*ast.Ident).Name {
			case "Include":
				inc = t.expr(kv.Value)
			case "Exclude":
				exc = t.expr(kv.Value)
			}
		}
		return fmt.Sprintf("(mkMaskFilter %s %s)", inc, exc)
	}
	// [4]uint64{...}
	if _, ok := t.typeOf(x).Underlying().(*types.Array); ok {
		parts := []string{}
		for _, el := range x.Elts {
			parts = append(parts, t.expr(el))
		}
		return "(mkMask " + strings.Join(parts, " ") + ")"
	}
	fail("composite literal of type %s", tn)
	return ""
}

func (t *tr) binary(x *ast.BinaryExpr, e ast.Expr) string {
	// nil comparisons of nilable pointers
	if isNil(x.Y) || isNil(x.X) {
		v := x.X
		if isNil(x.X) {
			v = x.Y
		}
		id, ok := v.(*ast.Ident)
		if !ok || !t.nilable[id.Name] {
			fail("nil comparison of a non-parameter")
		}
		if x.Op == token.EQL {
			return fmt.Sprintf("(negb (is_some %s))", mangle(id.Name))
		}
		return fmt.Sprintf("(is_some %s)", mangle(id.Name))
	}
	a, b := t.expr(x.X), t.expr(x.Y)
	w := width(t.typeOf(e))
	switch x.Op {
	case token.LAND:
		return fmt.Sprintf("(%s && %s)", a, b)
	case token.LOR:
		return fmt.Sprintf("(%s || %s)", a, b)
	case token.EQL, token.NEQ:
		var s string
		if isBool(t.typeOf(x.X)) {
			s = fmt.Sprintf("(Bool.eqb %s %s)", a, b)
		} else if width(t.typeOf(x.X)) > 0 {
			s = fmt.Sprintf("(N.eqb %s %s)", a, b)
		} else {
			fail("comparison of non-integers")
		}
		if x.Op == token.NEQ {
			return "(negb " + s + ")"
		}
		return s
	case token.LSS:
		return fmt.Sprintf("(N.ltb %s %s)", a, b)
	case token.LEQ:
		return fmt.Sprintf("(N.leb %s %s)", a, b)
	case token.GTR:
		return fmt.Sprintf("(N.ltb %s %s)", b, a)
	case token.GEQ:
		return fmt.Sprintf("(N.leb %s %s)", b, a)
	case token.ADD:
		return fmt.Sprintf("(add_w %d %s %s)", w, a, b)
	case token.SUB:
		return fmt.Sprintf("(sub_w %d %s %s)", w, a, b)
	case token.MUL:
		return fmt.Sprintf("(mul_w %d %s %s)", w, a, b)
	case token.QUO:
		return fmt.Sprintf("(N.div %s %s)", a, b)
	case token.REM:
		return fmt.Sprintf("(N.modulo %s %s)", a, b)
	case token.AND:
		return fmt.Sprintf("(N.land %s %s)", a, b)
	case token.OR:
		return fmt.Sprintf("(N.lor %s %s)", a, b)
	case token.XOR:
		return fmt.Sprintf("(N.lxor %s %s)", a, b)
	case token.AND_NOT:
		return fmt.Sprintf("(N.ldiff %s %s)", a, b)
	case token.SHL:
		return fmt.Sprintf("(shl_w %d %s %s)", w, a, b)
	case token.SHR:
		return fmt.Sprintf("(N.shiftr %s %s)", a, b)
	}
	fail("binary operator %s", x.Op)
	return ""
}

func (t *tr) call(x *ast.CallExpr) string {
	// conversion?
	if tv, ok := t.p.info.Types[x.Fun]; ok && tv.IsType() {
		w := width(tv.Type)
		if w > 0 {
			return fmt.Sprintf("(wrap %d %s)", w, t.expr(x.Args[0]))
		}
		return t.expr(x.Args[0]) // named struct conversion, e.g. ecs.Mask(f)
	}
	args := []string{}
	for _, a := range x.Args {
		args = append(args, t.expr(a))
	}
	switch f := x.Fun.(type) {
	case *ast.Ident:
		return "(" + t.prefix + f.Name + " " + strings.Join(args, " ") + ")"
	case *ast.SelectorExpr:
		// package-qualified function
		if id, ok := f.X.(*ast.Ident); ok {
			if pn, ok := t.p.info.Uses[id].(*types.PkgName); ok {
				switch pn.Imported().Path() + "." + f.Sel.Name {
				case "math/bits.OnesCount64":
					return "(popcount64 " + args[0] + ")"
				case "github.com/mlange-42/arche/ecs.All":
					return "(All " + strings.Join(args, " ") + ")"
				}
				fail("call of %s.%s", pn.Imported().Path(), f.Sel.Name)
			}
		}
		// method call
		sel, ok := t.p.info.Selections[f]
		if !ok {
			fail("call of unknown selector")
		}
		rt := named(sel.Recv())
		if _, isIface := sel.Recv().Underlying().(*types.Interface); isIface {
			// interface dispatch f.L.Matches(bits): the sub-filter's answer is a parameter
			if fs, ok := f.X.(*ast.SelectorExpr); ok && f.Sel.Name == "Matches" {
				return mangle(fs.Sel.Name + "_matches")
			}
			fail("interface method call")
		}
		name := rt + "_" + f.Sel.Name
		return "(" + name + " " + t.expr(f.X) + " " + strings.Join(args, " ") + ")"
	}
	fail("call expression")
	return ""
}

// assigned variables of a statement list (for nothing here: continuation duplication is used)

func (t *tr) stmts(list []ast.Stmt, rest func() string) string {
	if len(list) == 0 {
		return rest()
	}
	s, tail := list[0], list[1:]
	k := func() string { return t.stmts(tail, rest) }
	switch x := s.(type) {
	case *ast.ReturnStmt:
		if len(x.Results) == 0 {
			return t.retValue("")
		}
		if len(x.Results) != 1 {
			fail("multiple results")
		}
		return t.retValue(t.expr(x.Results[0]))
	case *ast.DeclStmt:
		gd := x.Decl.(*ast.GenDecl)
		out := ""
		for _, sp := range gd.Specs {
			vs := sp.(*ast.ValueSpec)
			for i, n := range vs.Names {
				var v string
				if len(vs.Values) > i {
					v = t.expr(vs.Values[i])
				} else if named(t.typeOf(n)) == "Mask" {
					v = "mask_zero"
				} else if width(t.typeOf(n)) > 0 {
					v = "0"
				} else {
					fail("var declaration of type %s", t.typeOf(n))
				}
				out += fmt.Sprintf("let %s := %s in\n  ", mangle(n.Name), v)
			}
		}
		return out + k()
	case *ast.AssignStmt:
		if len(x.Lhs) != 1 || len(x.Rhs) != 1 {
			fail("tuple assignment")
		}
		rhs := t.expr(x.Rhs[0])
		op := x.Tok
		combine := func(cur string, tp types.Type) string {
			w := width(tp)
			switch op {
			case token.ASSIGN, token.DEFINE:
				return rhs
			case token.OR_ASSIGN:
				return fmt.Sprintf("(N.lor %s %s)", cur, rhs)
			case token.AND_ASSIGN:
				return fmt.Sprintf("(N.land %s %s)", cur, rhs)
			case token.XOR_ASSIGN:
				return fmt.Sprintf("(N.lxor %s %s)", cur, rhs)
			case token.ADD_ASSIGN:
				return fmt.Sprintf("(add_w %d %s %s)", w, cur, rhs)
			case token.SUB_ASSIGN:
				return fmt.Sprintf("(sub_w %d %s %s)", w, cur, rhs)
			case token.AND_NOT_ASSIGN:
				return fmt.Sprintf("(N.ldiff %s %s)", cur, rhs)
			}
			fail("assignment operator %s", op)
			return ""
		}
		switch l := x.Lhs[0].(type) {
		case *ast.Ident:
			return fmt.Sprintf("let %s := %s in\n  %s", mangle(l.Name), combine(mangle(l.Name), t.typeOf(l)), k())
		case *ast.IndexExpr:
			// recv.bits[i] op= e
			s, ok := l.X.(*ast.SelectorExpr)
			if !ok || s.Sel.Name != "bits" {
				fail("indexed assignment")
			}
			r := t.expr(s.X)
			i := t.expr(l.Index)
			return fmt.Sprintf("let %s := setw %s %s %s in\n  %s", r, r, i, combine(fmt.Sprintf("(word %s %s)", r, i), t.typeOf(l)), k())
		case *ast.SelectorExpr:
			if l.Sel.Name != "bits" {
				fail("field assignment")
			}
			r := t.expr(l.X)
			if t.maskLen == 0 {
				return fmt.Sprintf("let %s := mkMask %s in\n  %s", r, combine(fmt.Sprintf("(mbits %s)", r), t.typeOf(l)), k())
			}
			if op != token.ASSIGN {
				fail("compound assignment to the whole bits array")
			}
			return fmt.Sprintf("let %s := %s in\n  %s", r, rhs, k())
		}
		fail("assignment target")
	case *ast.ExprStmt:
		// mutating method call on a local: mask.Set(id, true)
		c, ok := x.X.(*ast.CallExpr)
		if !ok {
			fail("expression statement")
		}
		f, ok := c.Fun.(*ast.SelectorExpr)
		if !ok {
			fail("expression statement")
		}
		sel, ok := t.p.info.Selections[f]
		if !ok || !t.mutating[named(sel.Recv())+"."+f.Sel.Name] {
			fail("call statement of a non-mutating function")
		}
		r := t.expr(f.X)
		return fmt.Sprintf("let %s := %s in\n  %s", r, t.call(c), k())
	case *ast.IfStmt:
		if x.Init != nil {
			fail("if with init")
		}
		// if c { v op= e } without else and without return: a conditional rebinding of v
		if x.Else == nil && len(x.Body.List) == 1 {
			if as, ok := x.Body.List[0].(*ast.AssignStmt); ok && len(as.Lhs) == 1 {
				if id, ok := as.Lhs[0].(*ast.Ident); ok && as.Tok != token.DEFINE {
					v := mangle(id.Name)
					inner := t.stmts(x.Body.List, func() string { return v })
					return fmt.Sprintf("let %s := if %s then (%s) else %s in\n  %s", v, t.expr(x.Cond), inner, v, k())
				}
			}
		}
		c := t.expr(x.Cond)
		thenB := t.stmts(x.Body.List, k)
		var elseB string
		switch el := x.Else.(type) {
		case nil:
			elseB = k()
		case *ast.BlockStmt:
			elseB = t.stmts(el.List, k)
		case *ast.IfStmt:
			elseB = t.stmts([]ast.Stmt{el}, k)
		}
		return fmt.Sprintf("if %s then (\n  %s)\n  else (\n  %s)", c, thenB, elseB)
	case *ast.RangeStmt:
		// for _, id := range ids { v.M(id, ...) }  ->  fold_left
		if x.Key == nil || x.Value == nil {
			fail("range form")
		}
		if id, ok := x.Key.(*ast.Ident); !ok || id.Name != "_" {
			fail("range with index")
		}
		if _, isMap := t.typeOf(x.X).Underlying().(*types.Map); isMap {
			fail("range over a map")
		}
		if len(x.Body.List) != 1 {
			fail("range body")
		}
		es, ok := x.Body.List[0].(*ast.ExprStmt)
		if !ok {
			fail("range body")
		}
		c := es.X.(*ast.CallExpr)
		f := c.Fun.(*ast.SelectorExpr)
		r := t.expr(f.X)
		v := mangle(x.Value.(*ast.Ident).Name)
		return fmt.Sprintf("let %s := fold_left (fun %s %s => %s) %s %s in\n  %s", r, r, v, t.call(c), t.expr(x.X), r, k())
	}
	fail("statement %T", s)
	return ""
}

func (t *tr) retValue(v string) string {
	if t.recvMut {
		if v != "" {
			fail("mutating method with a result")
		}
		return t.recv
	}
	return v
}

func coqType(tp types.Type, nilable bool) string {
	if p, ok := tp.(*types.Pointer); ok {
		inner := coqType(p.Elem(), false)
		if nilable {
			return "option " + inner
		}
		return inner
	}
	if s, ok := tp.(*types.Slice); ok {
		return "list " + coqType(s.Elem(), false)
	}
	switch named(tp) {
	case "Mask", "ANY", "NoneOF", "AnyNOT":
		return "Mask"
	case "MaskFilter":
		return "MaskFilter"
	case "ID":
		return "N"
	case "Subscription":
		return "N"
	}
	if isBool(tp) {
		return "bool"
	}
	if width(tp) > 0 {
		return "N"
	}
	return "UNSUPPORTED_TYPE"
}

// does the body compare identifier name with nil?
func comparesNil(body *ast.BlockStmt, name string) bool {
	found := false
	ast.Inspect(body, func(n ast.Node) bool {
		if b, ok := n.(*ast.BinaryExpr); ok && (b.Op == token.EQL || b.Op == token.NEQ) {
			for _, pair := range [][2]ast.Expr{{b.X, b.Y}, {b.Y, b.X}} {
				if id, ok := pair[0].(*ast.Ident); ok && id.Name == name && isNil(pair[1]) {
					found = true
				}
			}
		}
		return true
	})
	return found
}

func assignsReceiver(body *ast.BlockStmt, recv string) bool {
	found := false
	ast.Inspect(body, func(n ast.Node) bool {
		if a, ok := n.(*ast.AssignStmt); ok {
			for _, l := range a.Lhs {
				var base ast.Expr = l
				if ix, ok := base.(*ast.IndexExpr); ok {
					base = ix.X
				}
				if s, ok := base.(*ast.SelectorExpr); ok {
					if id, ok := s.X.(*ast.Ident); ok && id.Name == recv {
						found = true
					}
				}
			}
		}
		return true
	})
	return found
}

type fnSpec struct {
	recvType string // "" for functions
	name     string
}

func findFunc(p *pkgInfo, fs fnSpec) *ast.FuncDecl {
	for _, f := range p.files {
		for _, d := range f.Decls {
			fd, ok := d.(*ast.FuncDecl)
			if !ok || fd.Name.Name != fs.name {
				continue
			}
			if fs.recvType == "" && fd.Recv == nil {
				return fd
			}
			if fd.Recv != nil && len(fd.Recv.List) == 1 {
				rt := fd.Recv.List[0].Type
				if st, ok := rt.(*ast.StarExpr); ok {
					rt = st.X
				}
				if id, ok := rt.(*ast.Ident); ok && id.Name == fs.recvType {
					return fd
				}
			}
		}
	}
	return nil
}

func srcHash(p *pkgInfo, fd *ast.FuncDecl) (string, string) {
	var buf bytes.Buffer
	cp := *fd
	cp.Doc = nil
	printer.Fprint(&buf, p.fset, &cp)
	h := sha256.Sum256(buf.Bytes())
	pos := p.fset.Position(fd.Pos())
	end := p.fset.Position(fd.End())
	return fmt.Sprintf("%x", h[:8]), fmt.Sprintf("%s:%d-%d", filepath.Base(pos.Filename), pos.Line, end.Line)
}

func (t *tr) function(fs fnSpec, hashes map[string]string) string {
	fd := findFunc(t.p, fs)
	cname := t.prefix + fs.name
	if fs.recvType != "" {
		cname = fs.recvType + "_" + fs.name
	}
	if fd == nil {
		return fmt.Sprintf("(* %s: function not found in the source *)\nDefinition %s := function_missing_from_source_%s.\n\n", cname, cname, cname)
	}
	h, where := srcHash(t.p, fd)
	hashes[cname] = h
	header := fmt.Sprintf("(* %s  source %s  sha256/8 %s *)\n", cname, where, h)
	var result string
	func() {
		defer func() {
			if r := recover(); r != nil {
				if u, ok := r.(unsupported); ok {
					result = header + fmt.Sprintf("(* outside the translator's subset: %s *)\nDefinition %s := left_the_translators_subset_%s.\n\n", u.msg, cname, cname)
					return
				}
				panic(r)
			}
		}()
		t.nilable = map[string]bool{}
		t.recv, t.recvMut = "", false
		params := []string{}
		if fd.Recv != nil {
			r := fd.Recv.List[0]
			t.recv = mangle(r.Names[0].Name)
			t.recvMut = assignsReceiver(fd.Body, r.Names[0].Name)
			if ct := coqType(t.p.info.Defs[r.Names[0]].Type(), false); ct != "UNSUPPORTED_TYPE" {
				params = append(params, fmt.Sprintf("(%s : %s)", t.recv, ct))
			}
		}
		// interface-typed fields whose Matches is called become bool parameters
		ifaceParams := map[string]bool{}
		ast.Inspect(fd.Body, func(n ast.Node) bool {
			if c, ok := n.(*ast.CallExpr); ok {
				if f, ok := c.Fun.(*ast.SelectorExpr); ok && f.Sel.Name == "Matches" {
					if fs2, ok := f.X.(*ast.SelectorExpr); ok {
						if sel, ok := t.p.info.Selections[f]; ok {
							if _, isI := sel.Recv().Underlying().(*types.Interface); isI {
								ifaceParams[fs2.Sel.Name] = true
							}
						}
					}
				}
			}
			return true
		})
		ip := []string{}
		for k := range ifaceParams {
			ip = append(ip, k)
		}
		sort.Strings(ip)
		for _, k := range ip {
			params = append(params, fmt.Sprintf("(%s : bool)", mangle(k+"_matches")))
		}
		for _, f := range fd.Type.Params.List {
			for _, n := range f.Names {
				tp := t.p.info.Defs[n].Type()
				nl := false
				if _, ok := tp.(*types.Pointer); ok && comparesNil(fd.Body, n.Name) {
					nl = true
					t.nilable[n.Name] = true
				}
				ct := coqType(tp, nl)
				if ct == "UNSUPPORTED_TYPE" {
					// an unused parameter of an unsupported type (e.g. the bits of a logic filter node) is dropped
					used := false
					ast.Inspect(fd.Body, func(nd ast.Node) bool {
						if id, ok := nd.(*ast.Ident); ok && id.Name == n.Name && t.p.info.Uses[id] == t.p.info.Defs[n] {
							used = true
						}
						return true
					})
					if used {
						fail("parameter %s of unsupported type %s", n.Name, tp)
					}
					continue
				}
				params = append(params, fmt.Sprintf("(%s : %s)", mangle(n.Name), ct))
			}
		}
		rt := ""
		if t.recvMut {
			rt = coqType(t.p.info.Defs[fd.Recv.List[0].Names[0]].Type(), false)
		} else if fd.Type.Results != nil && len(fd.Type.Results.List) == 1 {
			rt = coqType(t.p.info.Types[fd.Type.Results.List[0].Type].Type, false)
		} else {
			fail("result list")
		}
		body := t.stmts(fd.Body.List, func() string {
			if t.recvMut {
				return t.recv
			}
			fail("function body may end without return")
			return ""
		})
		result = header + fmt.Sprintf("Definition %s %s : %s :=\n  %s.\n\n", cname, strings.Join(params, " "), rt, body)
	}()
	return result
}

const preamble = `(** GENERATED by /verif/translator from the current /repo sources - do not edit.
    Regenerated on every check; the proofs in Pure/ are re-checked against it. *)
From Coq Require Import NArith List Bool.
From Arche Require Import Pure.MachInt.
Import ListNotations.
Open Scope N_scope.
Open Scope bool_scope.
Definition is_some {A} (o : option A) : bool := match o with Some _ => true | None => false end.
Definition ogetN (o : option N) : N := match o with Some x => x | None => 0 end.

`

func maskDecl(n int) string {
	if n == 0 {
		return `Record Mask := mkMask { mbits : N }.
Definition mask_zero : Mask := mkMask 0.
Definition MaskTotalBits : N := 64.

`
	}
	fields := []string{}
	wcases, scases := []string{}, []string{}
	zeros := []string{}
	for i := 0; i < n; i++ {
		fields = append(fields, fmt.Sprintf("m%d : N", i))
		wcases = append(wcases, fmt.Sprintf("  | %d => m%d m", i, i))
		args := []string{}
		for j := 0; j < n; j++ {
			if j == i {
				args = append(args, "v")
			} else {
				args = append(args, fmt.Sprintf("(m%d m)", j))
			}
		}
		scases = append(scases, fmt.Sprintf("  | %d => mkMask %s", i, strings.Join(args, " ")))
		zeros = append(zeros, "0")
	}
	return fmt.Sprintf(`Record Mask := mkMask { %s }.
Definition mask_zero : Mask := mkMask %s.
Definition MaskTotalBits : N := %d.
(* bits[i]: an index outside the array is a run-time panic in Go; no translated
   function produces one (idx = id / 64 with id < 256). *)
Definition word (m : Mask) (i : N) : N :=
  match i with
%s
  | _ => 0
  end.
Definition setw (m : Mask) (i : N) (v : N) : Mask :=
  match i with
%s
  | _ => m
  end.

`, strings.Join(fields, "; "), strings.Join(zeros, " "), 64*n, strings.Join(wcases, "\n"), strings.Join(scases, "\n"))
}

func maskLenOf(p *pkgInfo) int {
	obj := p.pkg.Scope().Lookup("Mask")
	st := obj.Type().Underlying().(*types.Struct)
	for i := 0; i < st.NumFields(); i++ {
		if st.Field(i).Name() == "bits" {
			if a, ok := st.Field(i).Type().(*types.Array); ok {
				return int(a.Len())
			}
			return 0
		}
	}
	panic("Mask.bits not found")
}

var maskFns = []fnSpec{
	{"Mask", "Get"}, {"Mask", "Set"}, {"", "All"}, {"Mask", "Not"}, {"Mask", "IsZero"}, {"Mask", "Reset"},
	{"Mask", "Contains"}, {"Mask", "ContainsAny"}, {"Mask", "And"}, {"Mask", "Or"}, {"Mask", "Xor"},
	{"Mask", "TotalBitsSet"}, {"Mask", "Matches"}, {"Mask", "Without"}, {"Mask", "Exclusive"},
	{"MaskFilter", "Matches"}, {"RelationFilter", "Matches"}, {"CachedFilter", "Matches"},
}

func genMask(repo string, tags []string, out string, hashes map[string]string) {
	p := load(repo, "ecs", tags)
	n := maskLenOf(p)
	t := &tr{p: p, maskLen: n, mutating: map[string]bool{"Mask.Set": true, "Mask.Reset": true}}
	var b strings.Builder
	b.WriteString(preamble)
	b.WriteString(maskDecl(n))
	b.WriteString("Definition ogetM (o : option Mask) : Mask := match o with Some x => x | None => mask_zero end.\n")
	b.WriteString("Record MaskFilter := mkMaskFilter { mf_include : Mask; mf_exclude : Mask }.\n\n")
	for _, f := range maskFns {
		b.WriteString(t.function(f, hashes))
	}
	// filter package: leaf filters and connectives
	fp := load(repo, "filter", tags)
	ft := &tr{p: fp, maskLen: n, mutating: t.mutating}
	for _, f := range []fnSpec{{"ANY", "Matches"}, {"NoneOF", "Matches"}, {"AnyNOT", "Matches"},
		{"AND", "Matches"}, {"OR", "Matches"}, {"XOR", "Matches"}, {"NOT", "Matches"}} {
		b.WriteString(ft.function(f, hashes))
	}
	// subscriptions: ecs/event, ecs/util.go, listener/util.go
	ep := load(repo, "ecs/event", tags)
	et := &tr{p: ep, maskLen: n, mutating: t.mutating}
	for _, f := range []fnSpec{{"Subscription", "Contains"}, {"Subscription", "ContainsAny"}} {
		b.WriteString(et.function(f, hashes))
	}
	for _, f := range []fnSpec{{"", "capacity"}, {"", "capacityNonZero"}, {"", "capacityU32"}, {"", "subscription"}, {"", "subscribes"}} {
		b.WriteString(t.function(f, hashes))
	}
	lp := load(repo, "listener", tags)
	lt := &tr{p: lp, maskLen: n, mutating: t.mutating, prefix: "listener_"}
	b.WriteString(lt.function(fnSpec{"", "subscribes"}, hashes))
	os.WriteFile(out, []byte(b.String()), 0o644)
}

func main() {
	repo := flag.String("repo", "/repo", "")
	out := flag.String("out", "/verif/coq/theories/Gen", "")
	flag.Parse()
	os.Chdir(*repo)
	os.MkdirAll(*out, 0o755)
	hashes := map[string]string{}
	genMask(*repo, nil, filepath.Join(*out, "Mask256.v"), hashes)
	h64 := map[string]string{}
	genMask(*repo, []string{"tiny"}, filepath.Join(*out, "Mask64.v"), h64)
	genFacts(*repo, filepath.Join(*out, "PkgFacts.v"))
	genImp(*repo, *out, hashes)
	var keys []string
	for k := range hashes {
		keys = append(keys, k)
	}
	sort.Strings(keys)
	var hb strings.Builder
	for _, k := range keys {
		fmt.Fprintf(&hb, "%s %s %s\n", k, hashes[k], h64[k])
	}
	os.WriteFile(filepath.Join(*out, "hashes.txt"), []byte(hb.String()), 0o644)
}
