// imp.go: translation of small imperative struct methods (pointer receivers, slices,
// arrays, explicit panics) into Gallina functions over records.
//
// Subset (everything else is refused loudly, see fail()):
//   - struct types become records with generated setters and zero values; integers are N
//     with explicit wrap-around at their Go width; slices are GoRt.slice, arrays are lists
//   - a method with pointer receiver that assigns through the receiver returns the new
//     receiver value (and its result, if any); a function that can panic (explicit panic,
//     index expression, make, re-slice, call of such a function) returns GoRt.res
//   - statements: return, :=, =, op=, ++/--, tuple assignment (two-phase, as the Go
//     specification orders it), if/else, panic(...), copy(dst, src), calls of translated
//     functions in statement position / as the only right-hand side / as return value
//   - every index expression of a statement is bounds-checked on the state before the
//     statement (index operands of the left side are evaluated first, as Go does)
//   - slice-typed locals are read-only snapshots: writing elements of (or appending to)
//     a path while a snapshot of it is live is refused (aliasing is not modelled)
package main

import (
	"bytes"
	"fmt"
	"go/printer"
	"go/ast"
	"go/token"
	"go/types"
	"os"
	"path/filepath"
	"strings"
)

type ifn struct {
	spec      fnSpec
	cname     string
	decl      *ast.FuncDecl
	partial   bool
	mut       bool
	hasResult bool
	hasRecv   bool
	external  bool // defined in Gen/Mask256.v
}

type itr struct {
	p       *pkgInfo
	structs []string
	isRec   map[string]bool
	fns     map[string]*ifn // by "Recv.Name" / ".Name"
	tparamW int

	cur     *ifn
	recv    string
	guards  []string
	insides []string
	tmp     int
	aliases map[string]string // local slice snapshot -> path it was taken from
}

func (t *itr) typeOf(e ast.Expr) types.Type {
	tv, ok := t.p.info.Types[e]
	if !ok {
		if id, ok := e.(*ast.Ident); ok {
			if o := t.p.info.Uses[id]; o != nil {
				return o.Type()
			}
			if o := t.p.info.Defs[id]; o != nil {
				return o.Type()
			}
		}
		fail("no type for expression")
	}
	return tv.Type
}

func (t *itr) width(tp types.Type) int {
	if _, ok := tp.(*types.TypeParam); ok {
		return t.tparamW
	}
	return width(tp)
}

func (t *itr) signed(tp types.Type) bool {
	b, ok := tp.Underlying().(*types.Basic)
	if !ok {
		return false
	}
	switch b.Kind() {
	case types.Int, types.Int8, types.Int16, types.Int32, types.Int64:
		return true
	}
	return false
}

func tname(tp types.Type) string {
	if p, ok := tp.(*types.Pointer); ok {
		tp = p.Elem()
	}
	if n, ok := tp.(*types.Named); ok {
		return n.Obj().Name()
	}
	return ""
}

func (t *itr) ctype(tp types.Type) string {
	if p, ok := tp.(*types.Pointer); ok {
		return t.ctype(p.Elem())
	}
	if _, ok := tp.(*types.TypeParam); ok {
		return "N"
	}
	n := tname(tp)
	switch {
	case n == "Mask":
		return "Mask"
	case n == "ID" || n == "ResID":
		return "N"
	case t.isRec[n]:
		return "go_" + n
	}
	switch u := tp.Underlying().(type) {
	case *types.Interface:
		if u.Empty() {
			// any: nil or an opaque non-nil value (a number standing for the pointer)
			return "(option N)"
		}
	case *types.Slice:
		return "(slice " + t.ctype(u.Elem()) + ")"
	case *types.Array:
		return "(list " + t.ctype(u.Elem()) + ")"
	case *types.Basic:
		if isBool(tp) {
			return "bool"
		}
		if width(tp) > 0 {
			return "N"
		}
	}
	fail("type %s", tp)
	return ""
}

func (t *itr) zero(tp types.Type) string {
	if p, ok := tp.(*types.Pointer); ok {
		fail("zero value of pointer type %s", p)
	}
	if _, ok := tp.(*types.TypeParam); ok {
		return "0"
	}
	n := tname(tp)
	switch {
	case n == "Mask":
		return "mask_zero"
	case n == "ID" || n == "ResID":
		return "0"
	case t.isRec[n]:
		return "zero_" + n
	}
	switch u := tp.Underlying().(type) {
	case *types.Interface:
		if u.Empty() {
			return "None"
		}
	case *types.Slice:
		return "s_nil"
	case *types.Array:
		return fmt.Sprintf("(a_make %s %d)", t.zero(u.Elem()), u.Len())
	case *types.Basic:
		if isBool(tp) {
			return "false"
		}
		if width(tp) > 0 {
			return "0"
		}
	}
	fail("zero value of type %s", tp)
	return ""
}

func (t *itr) structOf(name string) *types.Struct {
	obj := t.p.pkg.Scope().Lookup(name)
	if obj == nil {
		fail("type %s not found", name)
	}
	st, ok := obj.Type().Underlying().(*types.Struct)
	if !ok {
		fail("type %s is not a struct", name)
	}
	return st
}

// fieldType: the Coq type of a struct field, "" if the field's type is outside the subset (the
// field is then left out of the record; any use of it fails the translation of that function)
func (t *itr) fieldType(f *types.Var) (ct string) {
	defer func() {
		if r := recover(); r != nil {
			if _, ok := r.(unsupported); ok {
				ct = ""
				return
			}
			panic(r)
		}
	}()
	return t.ctype(f.Type())
}

func (t *itr) fields(name string) []*types.Var {
	st := t.structOf(name)
	var out []*types.Var
	for i := 0; i < st.NumFields(); i++ {
		if t.fieldType(st.Field(i)) != "" {
			out = append(out, st.Field(i))
		}
	}
	return out
}

func (t *itr) record(name string) string {
	st := t.structOf(name)
	fs := t.fields(name)
	var fields, zeros []string
	var b strings.Builder
	for i := 0; i < st.NumFields(); i++ {
		if t.fieldType(st.Field(i)) == "" {
			fmt.Fprintf(&b, "(* field %s.%s : %s is outside the subset and left out *)\n", name, st.Field(i).Name(), st.Field(i).Type())
		}
	}
	for _, f := range fs {
		fields = append(fields, fmt.Sprintf("%s_%s : %s", name, f.Name(), t.ctype(f.Type())))
		zeros = append(zeros, t.zero(f.Type()))
	}
	fmt.Fprintf(&b, "Record go_%s := mk_%s { %s }.\n", name, name, strings.Join(fields, "; "))
	fmt.Fprintf(&b, "Definition zero_%s : go_%s := mk_%s %s.\n", name, name, name, strings.Join(zeros, " "))
	for i, fi := range fs {
		args := []string{}
		for j, fj := range fs {
			if j == i {
				args = append(args, "v")
			} else {
				args = append(args, fmt.Sprintf("(%s_%s r)", name, fj.Name()))
			}
		}
		fmt.Fprintf(&b, "Definition set_%s_%s (r : go_%s) (v : %s) : go_%s := mk_%s %s.\n",
			name, fi.Name(), name, t.ctype(fi.Type()), name, name, strings.Join(args, " "))
	}
	b.WriteString("\n")
	return b.String()
}

// ---------------------------------------------------------------- function lookup

func recvTypeName(fd *ast.FuncDecl) string {
	if fd.Recv == nil || len(fd.Recv.List) != 1 {
		return ""
	}
	rt := fd.Recv.List[0].Type
	if st, ok := rt.(*ast.StarExpr); ok {
		rt = st.X
	}
	if ix, ok := rt.(*ast.IndexExpr); ok {
		rt = ix.X
	}
	if id, ok := rt.(*ast.Ident); ok {
		return id.Name
	}
	return "?"
}

func (t *itr) find(fs fnSpec) *ast.FuncDecl {
	for _, f := range t.p.files {
		for _, d := range f.Decls {
			fd, ok := d.(*ast.FuncDecl)
			if ok && fd.Name.Name == fs.name && recvTypeName(fd) == fs.recvType {
				return fd
			}
		}
	}
	return nil
}

// callee of a call expression: the translated function, the receiver expression (nil for
// plain functions)
func (t *itr) callee(c *ast.CallExpr) (*ifn, ast.Expr) {
	fun := c.Fun
	if ix, ok := fun.(*ast.IndexExpr); ok { // explicit instantiation f[T](...)
		fun = ix.X
	}
	switch f := fun.(type) {
	case *ast.Ident:
		if fn, ok := t.fns["."+f.Name]; ok {
			return fn, nil
		}
	case *ast.SelectorExpr:
		if sel, ok := t.p.info.Selections[f]; ok && sel.Kind() == types.MethodVal {
			if fn, ok := t.fns[tname(sel.Recv())+"."+f.Sel.Name]; ok {
				return fn, f.X
			}
			fail("call of untranslated method %s.%s", tname(sel.Recv()), f.Sel.Name)
		}
	}
	return nil, nil
}

func isBuiltin(c *ast.CallExpr, name string) bool {
	id, ok := c.Fun.(*ast.Ident)
	return ok && id.Name == name
}

// rooted reports whether expression e is a path (fields, indices) starting at identifier name
func rooted(e ast.Expr, name string) bool {
	for {
		switch x := e.(type) {
		case *ast.Ident:
			return x.Name == name
		case *ast.SelectorExpr:
			e = x.X
		case *ast.IndexExpr:
			e = x.X
		case *ast.ParenExpr:
			e = x.X
		case *ast.StarExpr:
			e = x.X
		default:
			return false
		}
	}
}

// analyse computes partial / mut for all functions (fixpoint over the call graph)
func (t *itr) analyse() {
	for changed := true; changed; {
		changed = false
		for _, fn := range t.fns {
			if fn.external || fn.decl == nil {
				continue
			}
			recv := ""
			ptr := false
			if fn.decl.Recv != nil {
				recv = fn.decl.Recv.List[0].Names[0].Name
				_, ptr = fn.decl.Recv.List[0].Type.(*ast.StarExpr)
			}
			partial, mut := fn.partial, fn.mut
			ast.Inspect(fn.decl.Body, func(n ast.Node) bool {
				switch x := n.(type) {
				case *ast.IndexExpr:
					if _, isType := t.p.info.Types[x.X]; isType && !t.p.info.Types[x.X].IsType() {
						partial = true
					}
				case *ast.SliceExpr:
					partial = true
				case *ast.AssignStmt:
					for _, l := range x.Lhs {
						if _, isIdent := l.(*ast.Ident); !isIdent && ptr && rooted(l, recv) {
							mut = true
						}
					}
				case *ast.IncDecStmt:
					if _, isIdent := x.X.(*ast.Ident); !isIdent && ptr && rooted(x.X, recv) {
						mut = true
					}
				case *ast.CallExpr:
					if isBuiltin(x, "panic") || isBuiltin(x, "make") {
						partial = true
					}
					if isBuiltin(x, "copy") && ptr && rooted(x.Args[0], recv) {
						mut = true
					}
					func() {
						defer func() { recover() }()
						if g, rx := t.callee(x); g != nil {
							if g.partial {
								partial = true
							}
							if g.mut && rx != nil && ptr && rooted(rx, recv) {
								mut = true
							}
						}
					}()
				}
				return true
			})
			if partial != fn.partial || mut != fn.mut {
				fn.partial, fn.mut = partial, mut
				changed = true
			}
		}
	}
}

// ---------------------------------------------------------------- expressions

func (t *itr) fresh(prefix string) string {
	t.tmp++
	return fmt.Sprintf("%s%d_", prefix, t.tmp)
}

func (t *itr) constVal(e ast.Expr) (string, bool) {
	tr0 := &tr{p: t.p}
	v, ok := tr0.constVal(e)
	if ok && strings.HasPrefix(v, "-") {
		fail("negative constant")
	}
	return v, ok
}

func (t *itr) checkField(rec, field string) {
	for _, f := range t.fields(rec) {
		if f.Name() == field {
			return
		}
	}
	fail("field %s.%s is outside the subset", rec, field)
}

func (t *itr) fieldName(x *ast.SelectorExpr) (string, bool) {
	sel, ok := t.p.info.Selections[x]
	if !ok || sel.Kind() != types.FieldVal {
		return "", false
	}
	return tname(sel.Recv()), true
}

func (t *itr) expr(e ast.Expr) string {
	if v, ok := t.constVal(e); ok {
		return v
	}
	switch x := e.(type) {
	case *ast.ParenExpr:
		return t.expr(x.X)
	case *ast.Ident:
		if x.Name == "nil" {
			if i, ok := t.typeOf(e).Underlying().(*types.Interface); ok && i.Empty() {
				return "None"
			}
			fail("nil of type %s", t.typeOf(e))
		}
		return mangle(x.Name)
	case *ast.StarExpr:
		return t.expr(x.X)
	case *ast.UnaryExpr:
		switch x.Op {
		case token.NOT:
			return fmt.Sprintf("(negb %s)", t.expr(x.X))
		case token.XOR:
			return fmt.Sprintf("(not_w %d %s)", t.width(t.typeOf(e)), t.expr(x.X))
		case token.AND:
			// &x as a returned value: the current value of x (pointer identity is not modelled)
			return t.expr(x.X)
		}
		fail("unary operator %s", x.Op)
	case *ast.SelectorExpr:
		rt, ok := t.fieldName(x)
		if !ok {
			fail("selector %s", x.Sel.Name)
		}
		if (rt == "ID" || rt == "ResID") && x.Sel.Name == "id" {
			return t.expr(x.X)
		}
		if !t.isRec[rt] {
			fail("field of untranslated type %s", rt)
		}
		t.checkField(rt, x.Sel.Name)
		return fmt.Sprintf("(%s_%s %s)", rt, x.Sel.Name, t.expr(x.X))
	case *ast.IndexExpr:
		c, i := t.expr(x.X), t.expr(x.Index)
		switch u := t.typeOf(x.X).Underlying().(type) {
		case *types.Slice:
			t.guards = append(t.guards, fmt.Sprintf("(N.ltb %s (s_len %s))", i, c))
			return fmt.Sprintf("(s_get %s %s %s)", t.zero(u.Elem()), c, i)
		case *types.Array:
			t.guards = append(t.guards, fmt.Sprintf("(N.ltb %s %d)", i, u.Len()))
			return fmt.Sprintf("(a_get %s %s %s)", t.zero(u.Elem()), c, i)
		}
		fail("index into %s", t.typeOf(x.X))
	case *ast.SliceExpr:
		if x.Low != nil || x.Max != nil || x.High == nil {
			fail("slice expression form")
		}
		if _, ok := t.typeOf(x.X).Underlying().(*types.Slice); !ok {
			fail("re-slice of a non-slice")
		}
		c, n := t.expr(x.X), t.expr(x.High)
		t.guards = append(t.guards, fmt.Sprintf("(N.leb %s (s_cap %s))", n, c))
		t.insides = append(t.insides, fmt.Sprintf("(N.leb %s (s_len %s))", n, c))
		return fmt.Sprintf("(s_prefix %s %s)", c, n)
	case *ast.BinaryExpr:
		return t.binary(x, e)
	case *ast.CallExpr:
		return t.callExpr(x)
	case *ast.CompositeLit:
		return t.composite(x)
	}
	fail("expression %T", e)
	return ""
}

func containsSub(e ast.Expr) bool {
	found := false
	ast.Inspect(e, func(n ast.Node) bool {
		if b, ok := n.(*ast.BinaryExpr); ok && b.Op == token.SUB {
			found = true
		}
		return true
	})
	return found
}

func (t *itr) binary(x *ast.BinaryExpr, e ast.Expr) string {
	if x.Op == token.LAND || x.Op == token.LOR {
		// the right operand is evaluated conditionally: no bounds checks may hide in it
		a := t.expr(x.X)
		n := len(t.guards)
		b := t.expr(x.Y)
		if len(t.guards) != n {
			fail("index expression under a short-circuit operator")
		}
		if x.Op == token.LAND {
			return fmt.Sprintf("(%s && %s)", a, b)
		}
		return fmt.Sprintf("(%s || %s)", a, b)
	}
	if (x.Op == token.EQL || x.Op == token.NEQ) && (isNil(x.X) || isNil(x.Y)) {
		v := x.X
		if isNil(x.X) {
			v = x.Y
		}
		if i, ok := t.typeOf(v).Underlying().(*types.Interface); !ok || !i.Empty() {
			fail("nil comparison of a value of type %s", t.typeOf(v))
		}
		if x.Op == token.EQL {
			return fmt.Sprintf("(negb (is_some %s))", t.expr(v))
		}
		return fmt.Sprintf("(is_some %s)", t.expr(v))
	}
	a, b := t.expr(x.X), t.expr(x.Y)
	w := t.width(t.typeOf(e))
	switch x.Op {
	case token.EQL, token.NEQ:
		var s string
		if isBool(t.typeOf(x.X)) {
			s = fmt.Sprintf("(Bool.eqb %s %s)", a, b)
		} else if t.width(t.typeOf(x.X)) > 0 {
			s = fmt.Sprintf("(N.eqb %s %s)", a, b)
		} else {
			fail("comparison of non-integers")
		}
		if x.Op == token.NEQ {
			return "(negb " + s + ")"
		}
		return s
	case token.LSS, token.LEQ, token.GTR, token.GEQ:
		if t.signed(t.typeOf(x.X)) && (containsSub(x.X) || containsSub(x.Y)) {
			fail("ordering of signed values that may be negative")
		}
		switch x.Op {
		case token.LSS:
			return fmt.Sprintf("(N.ltb %s %s)", a, b)
		case token.LEQ:
			return fmt.Sprintf("(N.leb %s %s)", a, b)
		case token.GTR:
			return fmt.Sprintf("(N.ltb %s %s)", b, a)
		default:
			return fmt.Sprintf("(N.leb %s %s)", b, a)
		}
	case token.ADD, token.SUB, token.MUL:
		if t.signed(t.typeOf(e)) {
			return t.signedArith(x.Op, w, a, b)
		}
		switch x.Op {
		case token.ADD:
			return fmt.Sprintf("(add_w %d %s %s)", w, a, b)
		case token.SUB:
			return fmt.Sprintf("(sub_w %d %s %s)", w, a, b)
		}
		return fmt.Sprintf("(mul_w %d %s %s)", w, a, b)
	case token.AND:
		return fmt.Sprintf("(N.land %s %s)", a, b)
	case token.OR:
		return fmt.Sprintf("(N.lor %s %s)", a, b)
	case token.XOR:
		return fmt.Sprintf("(N.lxor %s %s)", a, b)
	case token.QUO, token.REM:
		// unsigned, or signed values that are never negative (see signedParams)
		if containsSub(x.X) || containsSub(x.Y) {
			fail("division of a value that may be negative")
		}
		if x.Op == token.QUO {
			return fmt.Sprintf("(N.div %s %s)", a, b)
		}
		return fmt.Sprintf("(N.modulo %s %s)", a, b)
	case token.SHL:
		if t.signed(t.typeOf(e)) {
			fail("shift of a signed value")
		}
		return fmt.Sprintf("(shl_w %d %s %s)", w, a, b)
	case token.SHR:
		if t.signed(t.typeOf(e)) {
			fail("shift of a signed value")
		}
		return fmt.Sprintf("(N.shiftr %s %s)", a, b)
	}
	fail("binary operator %s", x.Op)
	return ""
}

// signed arithmetic is modelled only while the mathematical result stays in
// [0, 2^(w-1)): otherwise the outcome is Outside (not a claim about Go's wrap-around)
func (t *itr) signedArith(op token.Token, w int, a, b string) string {
	switch op {
	case token.ADD, token.INC, token.ADD_ASSIGN:
		t.insides = append(t.insides, fmt.Sprintf("(N.ltb (%s + %s) (2 ^ %d))", a, b, w-1))
		return fmt.Sprintf("(%s + %s)", a, b)
	case token.SUB, token.DEC, token.SUB_ASSIGN:
		t.insides = append(t.insides, fmt.Sprintf("(N.leb %s %s)", b, a))
		return fmt.Sprintf("(%s - %s)", a, b)
	case token.MUL:
		t.insides = append(t.insides, fmt.Sprintf("(N.ltb (%s * %s) (2 ^ %d))", a, b, w-1))
		return fmt.Sprintf("(%s * %s)", a, b)
	}
	fail("signed operator %s", op)
	return ""
}

func (t *itr) composite(x *ast.CompositeLit) string {
	tp := t.typeOf(x)
	n := tname(tp)
	if n == "Mask" && len(x.Elts) == 0 {
		return "mask_zero"
	}
	if !t.isRec[n] {
		fail("composite literal of type %s", tp)
	}
	st := t.structOf(n)
	if len(t.fields(n)) != st.NumFields() {
		fail("composite literal of %s, which has fields outside the subset", n)
	}
	vals := make([]string, st.NumFields())
	for i := range vals {
		vals[i] = t.zero(st.Field(i).Type())
	}
	for i, el := range x.Elts {
		if kv, ok := el.(*ast.KeyValueExpr); ok {
			k := kv.Key.(*ast.Ident).Name
			found := false
			for j := 0; j < st.NumFields(); j++ {
				if st.Field(j).Name() == k {
					vals[j] = t.expr(kv.Value)
					found = true
				}
			}
			if !found {
				fail("unknown field %s", k)
			}
		} else {
			vals[i] = t.expr(el)
		}
	}
	return fmt.Sprintf("(mk_%s %s)", n, strings.Join(vals, " "))
}

func (t *itr) args(c *ast.CallExpr) string {
	out := ""
	for _, a := range c.Args {
		out += " " + t.expr(a)
	}
	return out
}

// a call in expression position: conversions, builtins, total functions without receiver effects
func (t *itr) callExpr(x *ast.CallExpr) string {
	if tv, ok := t.p.info.Types[x.Fun]; ok && tv.IsType() {
		w := t.width(tv.Type)
		if w > 0 {
			src := t.typeOf(x.Args[0])
			v := t.expr(x.Args[0])
			if t.signed(tv.Type) {
				// into a signed type: modelled while the value fits into the non-negative half
				sw := t.width(src)
				if (t.signed(src) && sw > w) || (!t.signed(src) && sw >= w) {
					t.insides = append(t.insides, fmt.Sprintf("(N.ltb %s (2 ^ %d))", v, w-1))
				}
				return v
			}
			return fmt.Sprintf("(wrap %d %s)", w, v)
		}
		fail("conversion to %s", tv.Type)
	}
	switch {
	case isBuiltin(x, "len"):
		switch u := t.typeOf(x.Args[0]).Underlying().(type) {
		case *types.Slice:
			return fmt.Sprintf("(s_len %s)", t.expr(x.Args[0]))
		case *types.Array:
			return fmt.Sprint(u.Len())
		}
		fail("len of %s", t.typeOf(x.Args[0]))
	case isBuiltin(x, "cap"):
		if _, ok := t.typeOf(x.Args[0]).Underlying().(*types.Slice); ok {
			return fmt.Sprintf("(s_cap %s)", t.expr(x.Args[0]))
		}
		fail("cap of %s", t.typeOf(x.Args[0]))
	case isBuiltin(x, "make"):
		sl, ok := t.typeOf(x).Underlying().(*types.Slice)
		if !ok || len(x.Args) < 2 {
			fail("make form")
		}
		n := t.expr(x.Args[1])
		c := n
		if len(x.Args) == 3 {
			c = t.expr(x.Args[2])
		}
		t.guards = append(t.guards, fmt.Sprintf("(N.leb %s %s)", n, c))
		return fmt.Sprintf("(s_make %s %s %s)", t.zero(sl.Elem()), n, c)
	case isBuiltin(x, "append"):
		if len(x.Args) != 2 || x.Ellipsis.IsValid() {
			fail("append form")
		}
		return fmt.Sprintf("(s_append %s %s)", t.expr(x.Args[0]), t.expr(x.Args[1]))
	case isBuiltin(x, "id"):
		// func id(id uint8) ID: ID is erased to its number
		return t.expr(x.Args[0])
	}
	fn, rx := t.callee(x)
	if fn == nil {
		fail("call of an untranslated function")
	}
	if fn.partial || fn.mut {
		fail("call of %s in expression position (it can panic or assigns its receiver)", fn.cname)
	}
	if rx != nil {
		return fmt.Sprintf("(%s %s%s)", fn.cname, t.expr(rx), t.args(x))
	}
	return fmt.Sprintf("(%s%s)", fn.cname, t.args(x))
}

// ---------------------------------------------------------------- paths and assignment

type acc struct {
	field    string // record_field accessor name (with record prefix), "" for an index
	setter   string
	idx      string // pre-evaluated index term
	zero     string
	isSlice  bool
	arrayLen int64
}

// decompose an lvalue into base identifier and accessors; index operands are bound to
// fresh names first (pre), bounds guards are collected against the current state
func (t *itr) decompose(e ast.Expr, pre *[]string) (string, []acc) {
	switch x := e.(type) {
	case *ast.ParenExpr:
		return t.decompose(x.X, pre)
	case *ast.StarExpr:
		return t.decompose(x.X, pre)
	case *ast.Ident:
		return mangle(x.Name), nil
	case *ast.SelectorExpr:
		rt, ok := t.fieldName(x)
		if !ok || !t.isRec[rt] {
			fail("assignment through selector %s", x.Sel.Name)
		}
		t.checkField(rt, x.Sel.Name)
		b, as := t.decompose(x.X, pre)
		return b, append(as, acc{field: rt + "_" + x.Sel.Name, setter: "set_" + rt + "_" + x.Sel.Name})
	case *ast.IndexExpr:
		b, as := t.decompose(x.X, pre)
		iv := t.fresh("i")
		*pre = append(*pre, fmt.Sprintf("let %s := %s in\n  ", iv, t.expr(x.Index)))
		c := t.expr(x.X)
		switch u := t.typeOf(x.X).Underlying().(type) {
		case *types.Slice:
			t.guards = append(t.guards, fmt.Sprintf("(N.ltb %s (s_len %s))", iv, c))
			return b, append(as, acc{idx: iv, zero: t.zero(u.Elem()), isSlice: true})
		case *types.Array:
			t.guards = append(t.guards, fmt.Sprintf("(N.ltb %s %d)", iv, u.Len()))
			return b, append(as, acc{idx: iv, zero: t.zero(u.Elem()), arrayLen: u.Len()})
		}
		fail("indexed assignment into %s", t.typeOf(x.X))
	}
	fail("assignment target %T", e)
	return "", nil
}

func pathCur(base string, as []acc) string {
	cur := base
	for _, a := range as {
		switch {
		case a.field != "":
			cur = fmt.Sprintf("(%s %s)", a.field, cur)
		case a.isSlice:
			cur = fmt.Sprintf("(s_get %s %s %s)", a.zero, cur, a.idx)
		default:
			cur = fmt.Sprintf("(a_get %s %s %s)", a.zero, cur, a.idx)
		}
	}
	return cur
}

func upd(cur string, as []acc, v string) string {
	if len(as) == 0 {
		return v
	}
	a := as[0]
	switch {
	case a.field != "":
		return fmt.Sprintf("(%s %s %s)", a.setter, cur, upd(fmt.Sprintf("(%s %s)", a.field, cur), as[1:], v))
	case a.isSlice:
		return fmt.Sprintf("(s_set %s %s %s)", cur, a.idx, upd(fmt.Sprintf("(s_get %s %s %s)", a.zero, cur, a.idx), as[1:], v))
	default:
		return fmt.Sprintf("(a_set %s %s %s)", cur, a.idx, upd(fmt.Sprintf("(a_get %s %s %s)", a.zero, cur, a.idx), as[1:], v))
	}
}

func assignLet(base string, as []acc, v string) string {
	return fmt.Sprintf("let %s := %s in\n  ", base, upd(base, as, v))
}

func pathString(e ast.Expr) string {
	switch x := e.(type) {
	case *ast.Ident:
		return x.Name
	case *ast.SelectorExpr:
		return pathString(x.X) + "." + x.Sel.Name
	case *ast.ParenExpr:
		return pathString(x.X)
	case *ast.IndexExpr:
		return pathString(x.X) + "[]"
	}
	return "?"
}

// element write / append through path p: refused while a snapshot of p is live
func (t *itr) checkAlias(p string) {
	for name, src := range t.aliases {
		if src == p || strings.HasPrefix(p, src+"[]") {
			fail("write through %s while the snapshot %s of its backing array is live", p, name)
		}
	}
}

// the bounds checks collected while translating the expressions of one statement; they are
// taken BEFORE the continuation is translated and wrapped around statement + continuation,
// so that they are evaluated on the state before the statement
type pending struct{ guards, insides []string }

func (t *itr) take() pending {
	p := pending{t.guards, t.insides}
	t.guards, t.insides = nil, nil
	if (len(p.guards) > 0 || len(p.insides) > 0) && !t.cur.partial {
		fail("bounds check in a function classified as total")
	}
	return p
}

func (p pending) wrap(body string) string {
	out := body
	// the modelling conditions come first: a bounds check computed from values the model
	// does not represent must not be reported as a panic
	if len(p.guards) > 0 {
		out = fmt.Sprintf("go_guard (%s) (\n  %s)", strings.Join(p.guards, " && "), out)
	}
	if len(p.insides) > 0 {
		out = fmt.Sprintf("go_inside (%s) (\n  %s)", strings.Join(p.insides, " && "), out)
	}
	return out
}

// ---------------------------------------------------------------- statements

func (t *itr) ret(v string) string {
	var s string
	switch {
	case t.cur.mut && t.cur.hasResult:
		s = fmt.Sprintf("(%s, %s)", t.recv, v)
	case t.cur.mut:
		s = t.recv
	case t.cur.hasResult:
		s = v
	default:
		s = "tt"
	}
	if t.cur.partial {
		return "Ret " + s
	}
	return s
}

// callStmt: a call of a translated function in statement position; k receives the name of
// the result value ("" if none)
func (t *itr) callStmt(c *ast.CallExpr, k func(string) string) string {
	fn, rx := t.callee(c)
	if fn == nil {
		fail("call statement of an untranslated function")
	}
	var pre []string
	call := "(" + fn.cname
	var base string
	var as []acc
	if rx != nil {
		if fn.mut {
			base, as = t.decompose(rx, &pre)
			call += " " + pathCur(base, as)
		} else {
			call += " " + t.expr(rx)
		}
	}
	call += t.args(c) + ")"
	pg := t.take()
	r := t.fresh("r")
	var body string
	switch {
	case fn.mut && fn.hasResult:
		v := t.fresh("v")
		body = fmt.Sprintf("let %s := snd %s in\n  %s%s", v, r, assignLet(base, as, "(fst "+r+")"), k(v))
	case fn.mut:
		body = assignLet(base, as, r) + k("")
	case fn.hasResult:
		body = k(r)
	default:
		body = k("")
	}
	var out string
	if fn.partial {
		if !t.cur.partial {
			fail("partial callee in a total function")
		}
		out = fmt.Sprintf("rbind %s (fun %s =>\n  %s)", call, r, body)
	} else {
		out = fmt.Sprintf("let %s := %s in\n  %s", r, call, body)
	}
	return strings.Join(pre, "") + pg.wrap(out)
}

func (t *itr) isStmtCall(e ast.Expr) (*ast.CallExpr, bool) {
	c, ok := e.(*ast.CallExpr)
	if !ok {
		return nil, false
	}
	if tv, ok := t.p.info.Types[c.Fun]; ok && tv.IsType() {
		return nil, false
	}
	var fn *ifn
	func() {
		defer func() { recover() }()
		fn, _ = t.callee(c)
	}()
	if fn != nil && (fn.partial || fn.mut) {
		return c, true
	}
	return nil, false
}

func (t *itr) combine(op token.Token, cur, rhs string, tp types.Type) string {
	w := t.width(tp)
	switch op {
	case token.ASSIGN, token.DEFINE:
		return rhs
	case token.ADD_ASSIGN, token.INC:
		if t.signed(tp) {
			return t.signedArith(op, w, cur, rhs)
		}
		return fmt.Sprintf("(add_w %d %s %s)", w, cur, rhs)
	case token.SUB_ASSIGN, token.DEC:
		if t.signed(tp) {
			return t.signedArith(op, w, cur, rhs)
		}
		return fmt.Sprintf("(sub_w %d %s %s)", w, cur, rhs)
	case token.OR_ASSIGN:
		return fmt.Sprintf("(N.lor %s %s)", cur, rhs)
	case token.AND_ASSIGN:
		return fmt.Sprintf("(N.land %s %s)", cur, rhs)
	}
	fail("assignment operator %s", op)
	return ""
}

func (t *itr) assign(lhs []ast.Expr, rhs []ast.Expr, op token.Token, k func() string) string {
	if len(lhs) == 1 && len(rhs) == 1 {
		if c, ok := t.isStmtCall(rhs[0]); ok {
			if op != token.ASSIGN && op != token.DEFINE {
				fail("compound assignment from a call")
			}
			return t.callStmt(c, func(v string) string {
				var pre []string
				b, as := t.decompose(lhs[0], &pre)
				pg := t.take()
				return strings.Join(pre, "") + pg.wrap(assignLet(b, as, v)+k())
			})
		}
	}
	if len(lhs) != len(rhs) {
		fail("assignment count mismatch")
	}
	// phase 1: index operands of the left side, then the right-hand sides, on the current state
	var pre []string
	type target struct {
		base string
		as   []acc
	}
	targets := make([]target, len(lhs))
	wholeAssigned := map[string]bool{}
	for i, l := range lhs {
		b, as := t.decompose(l, &pre)
		targets[i] = target{b, as}
		ps := pathString(l)
		for j := 0; j < i; j++ {
			pj := pathString(lhs[j])
			if strings.HasPrefix(ps, pj) || strings.HasPrefix(pj, ps) {
				fail("tuple assignment to overlapping paths %s and %s", pj, ps)
			}
		}
		wholeAssigned[ps] = true
	}
	vals := make([]string, len(rhs))
	for i, r := range rhs {
		var v string
		if isNil(r) {
			if it, ok := t.typeOf(lhs[i]).Underlying().(*types.Interface); ok && it.Empty() && op == token.ASSIGN {
				v = "None"
			} else {
				fail("nil assigned to a value of type %s", t.typeOf(lhs[i]))
			}
		} else {
			v = t.expr(r)
		}
		if op != token.ASSIGN && op != token.DEFINE {
			v = t.combine(op, pathCur(targets[i].base, targets[i].as), v, t.typeOf(lhs[i]))
		}
		vals[i] = v
	}
	// aliasing discipline
	for i, l := range lhs {
		ps := pathString(l)
		_, lhsIsIdent := l.(*ast.Ident)
		_, isSlice := t.typeOf(l).Underlying().(*types.Slice)
		if c, ok := rhs[i].(*ast.CallExpr); ok && isBuiltin(c, "append") {
			if pathString(c.Args[0]) != ps {
				fail("append into a different slice")
			}
			t.checkAlias(ps)
			continue
		}
		if strings.Contains(ps, "[]") {
			t.checkAlias(ps[:strings.Index(ps, "[]")])
		}
		if isSlice {
			c, isCall := rhs[i].(*ast.CallExpr)
			_, isReslice := rhs[i].(*ast.SliceExpr)
			switch {
			case isCall && isBuiltin(c, "make"):
				// a fresh backing array: snapshots of the old one stay valid
				for name, src := range t.aliases {
					if src == ps {
						delete(t.aliases, name)
					}
				}
			case isReslice && pathString(rhs[i].(*ast.SliceExpr).X) == ps:
				t.checkAlias(ps)
			case lhsIsIdent && op == token.DEFINE:
				t.aliases[ps] = pathString(rhs[i])
			default:
				fail("slice assignment form %s", ps)
			}
		}
	}
	out := strings.Join(pre, "")
	pg := t.take()
	if len(lhs) == 1 {
		body := assignLet(targets[0].base, targets[0].as, vals[0]) + k()
		return out + pg.wrap(body)
	}
	names := make([]string, len(vals))
	lets := ""
	for i, v := range vals {
		names[i] = t.fresh("v")
		lets += fmt.Sprintf("let %s := %s in\n  ", names[i], v)
	}
	for i := range lhs {
		lets += assignLet(targets[i].base, targets[i].as, names[i])
	}
	return out + pg.wrap(lets+k())
}

func (t *itr) stmts(list []ast.Stmt, rest func() string) string {
	if len(list) == 0 {
		return rest()
	}
	s, tail := list[0], list[1:]
	k := func() string { return t.stmts(tail, rest) }
	switch x := s.(type) {
	case *ast.ReturnStmt:
		if len(x.Results) == 0 {
			return t.ret("")
		}
		if len(x.Results) != 1 {
			fail("multiple results")
		}
		if c, ok := t.isStmtCall(x.Results[0]); ok {
			return t.callStmt(c, func(v string) string { return t.ret(v) })
		}
		v := t.expr(x.Results[0])
		return t.take().wrap(t.ret(v))
	case *ast.AssignStmt:
		return t.assign(x.Lhs, x.Rhs, x.Tok, k)
	case *ast.IncDecStmt:
		one := &ast.BasicLit{Kind: token.INT, Value: "1"}
		var pre []string
		b, as := t.decompose(x.X, &pre)
		v := t.combine(x.Tok, pathCur(b, as), "1", t.typeOf(x.X))
		_ = one
		pg := t.take()
		return strings.Join(pre, "") + pg.wrap(assignLet(b, as, v)+k())
	case *ast.ExprStmt:
		c, ok := x.X.(*ast.CallExpr)
		if !ok {
			fail("expression statement")
		}
		if isBuiltin(c, "panic") {
			if !t.cur.partial {
				fail("panic in a total function")
			}
			return "Panicked"
		}
		if isBuiltin(c, "copy") {
			if _, isCall := c.Args[1].(*ast.CallExpr); isCall {
				fail("copy from a call")
			}
			var pre []string
			b, as := t.decompose(c.Args[0], &pre)
			v := fmt.Sprintf("(s_copy %s %s)", pathCur(b, as), t.expr(c.Args[1]))
			t.checkAlias(pathString(c.Args[0]))
			pg := t.take()
			return strings.Join(pre, "") + pg.wrap(assignLet(b, as, v)+k())
		}
		return t.callStmt(c, func(string) string { return k() })
	case *ast.RangeStmt:
		// for i := range X { assignments through one variable st }: a fold over 0..len(X)-1;
		// len(X) is evaluated once, before the loop, as in Go
		if x.Value != nil || x.Key == nil || x.Tok != token.DEFINE {
			fail("range form")
		}
		if _, ok := t.typeOf(x.X).Underlying().(*types.Slice); !ok {
			fail("range over %s", t.typeOf(x.X))
		}
		iv := mangle(x.Key.(*ast.Ident).Name)
		st := ""
		ast.Inspect(x.Body, func(n ast.Node) bool {
			var targets []ast.Expr
			switch y := n.(type) {
			case *ast.ReturnStmt, *ast.BranchStmt, *ast.RangeStmt, *ast.ForStmt:
				fail("control flow inside a range body")
			case *ast.AssignStmt:
				if y.Tok == token.DEFINE {
					fail("declaration inside a range body")
				}
				targets = y.Lhs
			case *ast.IncDecStmt:
				targets = []ast.Expr{y.X}
			case *ast.CallExpr:
				if fn, _ := t.callee(y); fn != nil && fn.mut {
					fail("mutating call inside a range body")
				}
			}
			for _, l := range targets {
				root := l
				for {
					switch z := root.(type) {
					case *ast.SelectorExpr:
						root = z.X
						continue
					case *ast.IndexExpr:
						root = z.X
						continue
					case *ast.ParenExpr:
						root = z.X
						continue
					}
					break
				}
				id, ok := root.(*ast.Ident)
				if !ok || (st != "" && st != mangle(id.Name)) {
					fail("range body assigns through more than one variable")
				}
				st = mangle(id.Name)
			}
			return true
		})
		if st == "" || !rooted(x.X, st) {
			fail("range body does not assign through the ranged variable")
		}
		rng := fmt.Sprintf("(n_range (s_len %s))", t.expr(x.X))
		pg := t.take()
		if t.cur.partial {
			body := t.stmts(x.Body.List, func() string { return "Ret " + st })
			return pg.wrap(fmt.Sprintf("rbind (fold_left (fun acc_ %s => rbind acc_ (fun %s =>\n  %s)) %s (Ret %s)) (fun %s =>\n  %s)",
				iv, st, body, rng, st, st, k()))
		}
		body := t.stmts(x.Body.List, func() string { return st })
		return pg.wrap(fmt.Sprintf("let %s := fold_left (fun %s %s =>\n  %s) %s %s in\n  %s", st, st, iv, body, rng, st, k()))
	case *ast.IfStmt:
		if x.Init != nil {
			fail("if with init")
		}
		c := t.expr(x.Cond)
		pg := t.take()
		saved := map[string]string{}
		for a, b := range t.aliases {
			saved[a] = b
		}
		thenB := t.stmts(x.Body.List, k)
		thenAliases := t.aliases
		t.aliases = saved
		var elseB string
		switch el := x.Else.(type) {
		case nil:
			elseB = k()
		case *ast.BlockStmt:
			elseB = t.stmts(el.List, k)
		case *ast.IfStmt:
			elseB = t.stmts([]ast.Stmt{el}, k)
		}
		for a, b := range thenAliases {
			t.aliases[a] = b
		}
		return pg.wrap(fmt.Sprintf("if %s then (\n  %s)\n  else (\n  %s)", c, thenB, elseB))
	}
	fail("statement %T", s)
	return ""
}

// ---------------------------------------------------------------- functions

func (t *itr) function(fn *ifn, hashes map[string]string) string {
	fd := fn.decl
	if fd == nil {
		return fmt.Sprintf("(* %s: function not found in the source *)\nDefinition %s := function_missing_from_source_%s.\n\n", fn.cname, fn.cname, fn.cname)
	}
	h, where := srcHash(t.p, fd)
	hashes[fn.cname] = h
	header := fmt.Sprintf("(* %s  source %s  sha256/8 %s *)\n", fn.cname, where, h)
	var result string
	func() {
		defer func() {
			if r := recover(); r != nil {
				if u, ok := r.(unsupported); ok {
					result = header + fmt.Sprintf("(* outside the translator's subset: %s *)\nDefinition %s := left_the_translators_subset_%s.\n\n", u.msg, fn.cname, fn.cname)
					return
				}
				panic(r)
			}
		}()
		t.cur, t.recv, t.guards, t.insides, t.tmp, t.aliases = fn, "", nil, nil, 0, map[string]string{}
		params := []string{}
		var recvT string
		if fd.Recv != nil {
			r := fd.Recv.List[0]
			t.recv = mangle(r.Names[0].Name)
			recvT = t.ctype(t.p.info.Defs[r.Names[0]].Type())
			params = append(params, fmt.Sprintf("(%s : %s)", t.recv, recvT))
		}
		for _, f := range fd.Type.Params.List {
			for _, n := range f.Names {
				params = append(params, fmt.Sprintf("(%s : %s)", mangle(n.Name), t.ctype(t.p.info.Defs[n].Type())))
				if t.signed(t.p.info.Defs[n].Type()) {
					header += fmt.Sprintf("(* signed parameter %s: modelled for values >= 0 only *)\n", n.Name)
				}
			}
		}
		rt := "unit"
		if fn.hasResult {
			rt = t.ctype(t.p.info.Types[fd.Type.Results.List[0].Type].Type)
		}
		switch {
		case fn.mut && fn.hasResult:
			rt = fmt.Sprintf("(%s * %s)", recvT, rt)
		case fn.mut:
			rt = recvT
		}
		if fn.partial {
			rt = "res " + rt
		}
		body := t.stmts(fd.Body.List, func() string {
			if fn.hasResult {
				fail("function body may end without return")
			}
			return t.ret("")
		})
		result = header + fmt.Sprintf("Definition %s %s : %s :=\n  %s.\n\n", fn.cname, strings.Join(params, " "), rt, body)
	}()
	return result
}

const impPreamble = `(** GENERATED by /verif/translator (imp.go) from the current /repo sources - do not edit.
    Regenerated on every check; the tie proofs (Proofs/*Tie.v) are re-checked against it.
    Conventions: see Pure/GoRt.v (outcomes, slices) and Pure/MachInt.v (wrap-around). *)
From Coq Require Import NArith List Bool.
From Arche Require Import Pure.MachInt Pure.GoRt Gen.Mask256.
Import ListNotations.
Open Scope N_scope.
Open Scope bool_scope.

`

// One generated file per data structure, so that a function leaving the subset (or a proof
// that breaks) takes down only the properties that rest on that structure.
type impGroup struct {
	file    string
	note    string
	records []string
	fns     []fnSpec
	usesID  bool
}

var impGroups = []impGroup{
	{"GoEntityPool.v", "ecs/entity.go (handle part), ecs/pool.go entityPool", []string{"Entity", "entityPool"}, []fnSpec{
		{"", "newEntity"}, {"", "newEntityGen"}, {"Entity", "IsZero"}, {"Entity", "ID"}, {"Entity", "Generation"},
		{"", "newEntityPool"}, {"entityPool", "getNew"}, {"entityPool", "Get"}, {"entityPool", "Recycle"},
		{"entityPool", "Reset"}, {"entityPool", "Alive"}, {"entityPool", "Available"}}, false},
	{"GoLocks.v", "ecs/pool.go bitPool, ecs/util.go lockMask", []string{"bitPool", "lockMask"}, []fnSpec{
		{"bitPool", "getNew"}, {"bitPool", "Get"}, {"bitPool", "Recycle"}, {"bitPool", "Reset"},
		{"lockMask", "Lock"}, {"lockMask", "Unlock"}, {"lockMask", "IsLocked"}, {"lockMask", "Reset"}}, true},
	{"GoIntPool.v", "ecs/pool.go intPool[T], instantiated at uint32 (its only instantiation in the package)", []string{"intPool"}, []fnSpec{
		{"", "newIntPool"}, {"intPool", "getNew"}, {"intPool", "Get"}, {"intPool", "Recycle"}, {"intPool", "Reset"}}, false},
	{"GoBitSet.v", "ecs/bitset.go", []string{"bitSet"}, []fnSpec{
		{"bitSet", "Get"}, {"bitSet", "Set"}, {"bitSet", "Reset"}, {"bitSet", "ExtendTo"}}, false},
	{"GoResources.v", "ecs/resources.go: the storage part of Resources (the registry field is outside the subset); a value of type any is nil or an opaque number", []string{"Resources"}, []fnSpec{
		{"Resources", "Add"}, {"Resources", "Remove"}, {"Resources", "Get"}, {"Resources", "Has"}, {"Resources", "reset"}}, false},
	{"GoPaged.v", "ecs/util.go pagedSlice[T]; the elements are opaque values, represented by numbers (zero value 0)", []string{"pagedSlice"}, []fnSpec{
		{"pagedSlice", "Add"}, {"pagedSlice", "Get"}, {"pagedSlice", "Set"}, {"pagedSlice", "Len"}}, false},
}

func genImp(repo string, outDir string, hashes map[string]string) {
	genImpBuild(repo, outDir, hashes, nil, impGroups, "Gen.Mask256")
	// the tiny build (64 mask bits): the lock mask and its bit pool are the only translated code
	// whose shape depends on MaskTotalBits
	tiny := []impGroup{impGroups[1]}
	tiny[0].file = "GoLocks64.v"
	tiny[0].note += " (build tag tiny)"
	genImpBuild(repo, outDir, map[string]string{}, []string{"tiny"}, tiny, "Gen.Mask64")
}

func genImpBuild(repo string, outDir string, hashes map[string]string, tags []string, groups []impGroup, maskModule string) {
	p := load(repo, "ecs", tags)
	for _, g := range groups {
		t := &itr{p: p, isRec: map[string]bool{}, fns: map[string]*ifn{}, tparamW: 32}
		var b strings.Builder
		b.WriteString(strings.Replace(impPreamble, "Gen.Mask256", maskModule, 1))
		fmt.Fprintf(&b, "(* %s *)\n\n", g.note)
		for _, r := range g.records {
			t.isRec[r] = true
		}
		func() {
			defer func() {
				if r := recover(); r != nil {
					if u, ok := r.(unsupported); ok {
						fmt.Fprintf(&b, "(* record types left the translator's subset: %s *)\nDefinition records := left_the_translators_subset_records.\n", u.msg)
						return
					}
					panic(r)
				}
			}()
			for _, r := range g.records {
				b.WriteString(t.record(r))
			}
		}()
		if g.usesID {
			// ID is erased to its number: func id(id uint8) ID must be the plain wrapper
			if fd := t.find(fnSpec{"", "id"}); fd == nil || len(fd.Body.List) != 1 || nodeString(p, fd.Body.List[0]) != "return ID{id: id}" {
				b.WriteString("Definition id_erasure := the_function_id_is_no_longer_the_plain_wrapper.\n")
			}
		}
		// functions of Gen/Mask256.v that the code calls
		for _, m := range []struct {
			name      string
			mut, res_ bool
		}{{"Get", false, true}, {"Set", true, false}, {"IsZero", false, true}, {"Reset", true, false}} {
			t.fns["Mask."+m.name] = &ifn{cname: "Mask_" + m.name, mut: m.mut, hasResult: m.res_, hasRecv: true, external: true}
		}
		order := []*ifn{}
		for _, fs := range g.fns {
			cname := "go_" + fs.name
			if fs.recvType != "" {
				cname = fs.recvType + "_" + fs.name
			}
			fd := t.find(fs)
			fn := &ifn{spec: fs, cname: cname, decl: fd, hasRecv: fs.recvType != ""}
			if fd != nil {
				fn.hasResult = fd.Type.Results != nil && len(fd.Type.Results.List) > 0
			}
			t.fns[fs.recvType+"."+fs.name] = fn
			order = append(order, fn)
		}
		t.analyse()
		for _, fn := range order {
			b.WriteString(t.function(fn, hashes))
		}
		os.WriteFile(filepath.Join(outDir, g.file), []byte(b.String()), 0o644)
	}
}

func nodeString(p *pkgInfo, n ast.Node) string {
	var buf bytes.Buffer
	printer.Fprint(&buf, p.fset, n)
	return buf.String()
}
