// Minimal reproduction of the defect found by gc_harness (property C14):
// entities carrying a pointer component are moved between two tables with
// World.Add / World.Remove while another goroutine runs the collector.
// Nothing is ever removed, so no payload may be finalized; on the unmodified
// library finalizers do run, and the process usually dies with the runtime's
// "marked free object in span" (a live payload was freed).
//
//	cd /verif/gc_harness && GOFLAGS=-mod=mod GOPROXY=off GOSUMDB=off GOTOOLCHAIN=local GOWORK=off go run ./repro
package main

import (
	"fmt"
	"runtime"
	"sync/atomic"
	"time"

	"github.com/mlange-42/arche/ecs"
)

type Payload struct {
	ID    int64
	Check [4]int64
}
type PtrComp struct{ P *Payload }
type Plain struct{ X, Y int64 }

var lost int32

//go:noinline
func newPayload(id int64) *Payload {
	p := &Payload{ID: id}
	runtime.SetFinalizer(p, func(*Payload) { atomic.AddInt32(&lost, 1) })
	return p
}

var world *ecs.World

func main() {
	w := ecs.NewWorld(ecs.NewConfig().WithCapacityIncrement(1))
	world = &w
	ptrID := ecs.ComponentID[PtrComp](world)
	plainID := ecs.ComponentID[Plain](world)

	go func() {
		for {
			runtime.GC()
			time.Sleep(10 * time.Microsecond)
		}
	}()

	ents := []ecs.Entity{}
	for i := 0; i < 20; i++ {
		e := world.NewEntity(ptrID)
		(*PtrComp)(world.Get(e, ptrID)).P = newPayload(int64(i)) // typed store, with write barrier
		ents = append(ents, e)
	}
	// Nothing is ever removed: no payload may be finalized.
	start := time.Now()
	moves := 0
	for time.Since(start) < 3*time.Second {
		for _, e := range ents {
			if world.Has(e, plainID) {
				world.Remove(e, plainID)
			} else {
				world.Add(e, plainID)
			}
			moves++
		}
	}
	fmt.Printf("moves=%d finalizers run for live payloads=%d\n", moves, atomic.LoadInt32(&lost))
}
