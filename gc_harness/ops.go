package main

import (
	"fmt"

	"github.com/mlange-42/arche/ecs"
)

const maxEntities = 70

type opDef struct {
	name   string
	weight int
	run    func(h *hist) bool // false: not applicable in the current state
}

var opTable []opDef

func init() {
	opTable = []opDef{
		{"NewEntity+Get", 8, (*hist).opNewEntityGet},
		{"NewEntityWith", 8, (*hist).opNewEntityWith},
		{"Builder.New", 6, (*hist).opBuilderNew},
		{"Builder.NewBatch", 5, (*hist).opBuilderBatch},
		{"Set", 14, (*hist).opSet},
		{"Assign", 10, (*hist).opAssign},
		{"Add", 7, (*hist).opAdd},
		{"Remove", 9, (*hist).opRemove},
		{"Exchange", 10, (*hist).opExchange},
		{"Relations.Set", 8, (*hist).opSetRelation},
		{"Batch.Add", 3, (*hist).opBatchAdd},
		{"Batch.Remove", 3, (*hist).opBatchRemove},
		{"Batch.Exchange", 4, (*hist).opBatchExchange},
		{"Batch.SetRelation", 4, (*hist).opBatchSetRelation},
		{"RemoveEntity", 9, (*hist).opRemoveEntity},
		{"RemoveTarget", 4, (*hist).opRemoveTarget},
		{"Batch.RemoveEntities", 2, (*hist).opBatchRemoveEntities},
		{"Reset", 1, (*hist).opReset},
	}
}

// step performs one random operation.
func (h *hist) step() {
	h.op++
	h.ops++
	total := 0
	weights := make([]int, len(opTable))
	for i, od := range opTable {
		w := od.weight
		crowded := len(h.ents) >= maxEntities
		switch od.name {
		case "NewEntity+Get", "NewEntityWith", "Builder.New", "Builder.NewBatch":
			if crowded {
				w = 0
			} else if len(h.ents) < 10 {
				w *= 4
			}
		case "RemoveEntity", "Batch.RemoveEntities":
			if crowded {
				w *= 5
			}
		}
		weights[i] = w
		total += w
	}
	for try := 0; try < 20; try++ {
		r := h.rng.Intn(total)
		i := 0
		for r >= weights[i] {
			r -= weights[i]
			i++
		}
		h.opName = opTable[i].name
		applicable := false
		h.guard(h.opName, func() { applicable = opTable[i].run(h) })
		if applicable || h.broken {
			return
		}
	}
	h.opName = "NewEntity+Get"
	h.guard(h.opName, func() { h.opNewEntityGet() })
}

func (h *hist) randomKinds(min, max int) []int {
	all := make([]int, nKinds)
	for i := range all {
		all[i] = i
	}
	return h.sample(all, min, max)
}

// ---------------------------------------------------------------- creation

// NewEntity with ids, then values written through the pointer returned by Get
// for some of the components (the others must read as zero).
func (h *hist) opNewEntityGet() bool {
	kinds := h.randomKinds(0, 5)
	e := h.w.NewEntity(h.ids(kinds)...)
	en := h.track(e, kinds, ecs.Entity{}, "NewEntity")
	if en == nil {
		return true
	}
	for _, k := range kinds {
		if h.rng.Intn(3) > 0 {
			pl := h.newPlan(k)
			writeThrough(h.w.Get(e, h.cid[k]), pl)
			h.attach(en, pl)
		}
	}
	return true
}

func (h *hist) opNewEntityWith() bool {
	switch h.rng.Intn(3) {
	case 0: // escaping shape, arbitrary subset
		kinds := h.randomKinds(1, 5)
		pls := h.plans(kinds)
		comps := make([]ecs.Component, len(kinds))
		for i, pl := range pls {
			comps[i] = ecs.Component{ID: h.cid[pl.kind], Comp: heapComp(pl)}
		}
		e := h.w.NewEntityWith(comps...)
		en := h.track(e, kinds, ecs.Entity{}, "NewEntityWith/heap")
		if en != nil {
			for _, pl := range pls {
				h.attach(en, pl)
			}
		}
	case 1: // literal, one component
		k := h.rng.Intn(nKinds)
		pl := h.newPlan(k)
		e := litNewWith(h.w, h.cid[k], pl)
		en := h.track(e, []int{k}, ecs.Entity{}, "NewEntityWith/literal")
		if en != nil {
			h.attach(en, pl)
		}
	case 2: // literal, fixed combination
		c := h.rng.Intn(len(combos))
		pls := h.plans(combos[c])
		e := litNewWithCombo(h.w, &h.cid, c, pls)
		en := h.track(e, combos[c], ecs.Entity{}, "NewEntityWith/literal-combo")
		if en != nil {
			for _, pl := range pls {
				h.attach(en, pl)
			}
		}
	}
	return true
}

func (h *hist) opBuilderNew() bool {
	switch h.rng.Intn(3) {
	case 0: // builder with values (escaping shape), with or without relation target
		kinds := h.randomKinds(1, 5)
		pls := h.plans(kinds)
		comps := make([]ecs.Component, len(kinds))
		for i, pl := range pls {
			comps[i] = ecs.Component{ID: h.cid[pl.kind], Comp: heapComp(pl)}
		}
		b := ecs.NewBuilderWith(h.w, comps...)
		target := ecs.Entity{}
		var e ecs.Entity
		if contains(kinds, kChild) && h.rng.Intn(3) > 0 {
			target = h.pickTarget(nil)
			e = b.WithRelation(h.cid[kChild]).New(target)
		} else {
			e = b.New()
		}
		en := h.track(e, kinds, target, "Builder(values).New")
		if en != nil {
			for _, pl := range pls {
				h.attach(en, pl)
			}
		}
	case 1: // literal, one component
		k := h.rng.Intn(nKinds)
		pl := h.newPlan(k)
		target := ecs.Entity{}
		withTarget := k == kChild && h.rng.Intn(3) > 0
		if withTarget {
			target = h.pickTarget(nil)
		}
		e := litBuilderNew(h.w, h.cid[k], pl, withTarget, target)
		en := h.track(e, []int{k}, target, "Builder(literal).New")
		if en != nil {
			h.attach(en, pl)
		}
	case 2: // ids only: all components must read as zero
		kinds := h.randomKinds(1, 5)
		b := ecs.NewBuilder(h.w, h.ids(kinds)...)
		target := ecs.Entity{}
		var e ecs.Entity
		if contains(kinds, kChild) && h.rng.Intn(3) > 0 {
			target = h.pickTarget(nil)
			e = b.WithRelation(h.cid[kChild]).New(target)
		} else {
			e = b.New()
		}
		h.track(e, kinds, target, "Builder(ids).New")
	}
	return true
}

// collectNew finds the entities created by a batch that did not return a query.
func (h *hist) collectNew() []ecs.Entity {
	res := []ecs.Entity{}
	q := h.w.Query(ecs.All())
	for q.Next() {
		e := q.Entity()
		if _, known := h.by[e]; !known {
			res = append(res, e)
		}
	}
	return res
}

func (h *hist) opBuilderBatch() bool {
	n := 1 + h.rng.Intn(6)
	useQ := h.rng.Intn(2) == 0
	mode := h.rng.Intn(3)
	var kinds []int
	var pls []*plan
	var b *ecs.Builder
	how := ""
	switch mode {
	case 0: // values, escaping shape
		kinds = h.randomKinds(1, 4)
		pls = h.plans(kinds)
		comps := make([]ecs.Component, len(kinds))
		for i, pl := range pls {
			comps[i] = ecs.Component{ID: h.cid[pl.kind], Comp: heapComp(pl)}
		}
		b = ecs.NewBuilderWith(h.w, comps...)
		how = "Builder(values)"
	case 1: // values, literal combination
		c := h.rng.Intn(len(combos))
		kinds = combos[c]
		pls = h.plans(kinds)
		b = litBuilderCombo(h.w, &h.cid, c, pls)
		how = "Builder(literal-combo)"
	case 2: // ids only
		kinds = h.randomKinds(1, 4)
		b = ecs.NewBuilder(h.w, h.ids(kinds)...)
		how = "Builder(ids)"
	}
	target := ecs.Entity{}
	withTarget := contains(kinds, kChild) && h.rng.Intn(3) > 0
	if withTarget {
		target = h.pickTarget(nil)
		b = b.WithRelation(h.cid[kChild])
	}
	var created []ecs.Entity
	// per-entity plans written through Query.Get (ids-only builder with query)
	var written [][]*plan
	if useQ {
		how += ".NewBatchQ"
		var q ecs.Query
		if withTarget {
			q = b.NewBatchQ(n, target)
		} else {
			q = b.NewBatchQ(n)
		}
		for q.Next() {
			created = append(created, q.Entity())
			var w []*plan
			if mode == 2 && h.rng.Intn(2) == 0 {
				for _, k := range kinds {
					if h.rng.Intn(2) == 0 {
						pl := h.newPlan(k)
						writeThrough(q.Get(h.cid[k]), pl)
						w = append(w, pl)
					}
				}
			}
			written = append(written, w)
		}
	} else {
		how += ".NewBatch"
		if withTarget {
			b.NewBatch(n, target)
		} else {
			b.NewBatch(n)
		}
		created = h.collectNew()
	}
	b = nil
	if len(created) != n {
		h.mismatch("%s(%d) created %d entities", how, n, len(created))
		return true
	}
	for i, e := range created {
		en := h.track(e, kinds, target, how)
		if en == nil {
			return true
		}
		for _, pl := range pls { // shared value: one plan, n references
			h.attach(en, pl)
		}
		if written != nil {
			for _, pl := range written[i] {
				h.attach(en, pl)
			}
		}
	}
	return true
}

// ---------------------------------------------------------------- values

func (h *hist) opSet() bool {
	en := h.pick(func(en *ent) bool { return len(en.kinds(true)) > 0 })
	if en == nil {
		return false
	}
	ks := en.kinds(true)
	k := ks[h.rng.Intn(len(ks))]
	pl := h.newPlan(k)
	shape := h.rng.Intn(3)
	switch shape {
	case 0:
		litSet(h.w, en.e, h.cid[k], pl)
		en.last = "Set/literal " + kindNames[k]
	case 1:
		h.w.Set(en.e, h.cid[k], heapComp(pl))
		en.last = "Set/heap " + kindNames[k]
	case 2:
		writeThrough(h.w.Get(en.e, h.cid[k]), pl)
		en.last = "Get-write " + kindNames[k]
	}
	h.detach(en, k, "overwritten by "+en.last)
	h.attach(en, pl)
	return true
}

func (h *hist) opAssign() bool {
	en := h.pick(func(en *ent) bool { return len(en.kinds(false)) > 0 })
	if en == nil {
		return false
	}
	missing := en.kinds(false)
	switch h.rng.Intn(4) {
	case 0, 1: // escaping shape; via World.Assign or Builder.Add (the latter can set a target)
		kinds := h.sample(missing, 1, 3)
		pls := h.plans(kinds)
		comps := make([]ecs.Component, len(kinds))
		for i, pl := range pls {
			comps[i] = ecs.Component{ID: h.cid[pl.kind], Comp: heapComp(pl)}
		}
		target := ecs.Entity{}
		if contains(kinds, kChild) && h.rng.Intn(2) == 0 {
			target = h.pickTarget(func(o *ent) bool { return o == en })
			ecs.NewBuilderWith(h.w, comps...).WithRelation(h.cid[kChild]).Add(en.e, target)
			en.last = "Builder.Add(values,target)"
		} else if h.rng.Intn(3) == 0 {
			ecs.NewBuilderWith(h.w, comps...).Add(en.e)
			en.last = "Builder.Add(values)"
		} else {
			h.w.Assign(en.e, comps...)
			en.last = "Assign/heap"
		}
		for _, pl := range pls {
			en.has[pl.kind] = true
			h.attach(en, pl)
		}
		if contains(kinds, kChild) {
			en.target = target
		}
	case 2: // literal, one component
		k := missing[h.rng.Intn(len(missing))]
		pl := h.newPlan(k)
		litAssign(h.w, en.e, h.cid[k], pl)
		en.last = "Assign/literal " + kindNames[k]
		en.has[k] = true
		h.attach(en, pl)
		if k == kChild {
			en.target = ecs.Entity{}
		}
	case 3: // literal combination, if all of it is missing
		c := h.rng.Intn(len(combos))
		for _, k := range combos[c] {
			if en.has[k] {
				return false
			}
		}
		pls := h.plans(combos[c])
		litAssignCombo(h.w, en.e, &h.cid, c, pls)
		en.last = "Assign/literal-combo"
		for _, pl := range pls {
			en.has[pl.kind] = true
			h.attach(en, pl)
		}
		if contains(combos[c], kChild) {
			en.target = ecs.Entity{}
		}
	}
	return true
}

// ---------------------------------------------------------------- moves

func (h *hist) opAdd() bool {
	en := h.pick(func(en *ent) bool { return len(en.kinds(false)) > 0 })
	if en == nil {
		return false
	}
	kinds := h.sample(en.kinds(false), 1, 3)
	target := ecs.Entity{}
	if contains(kinds, kChild) && h.rng.Intn(2) == 0 {
		target = h.pickTarget(func(o *ent) bool { return o == en })
		if h.rng.Intn(2) == 0 {
			h.w.Relations().Exchange(en.e, h.ids(kinds), nil, h.cid[kChild], target)
			en.last = "Relations.Exchange(add)"
		} else {
			ecs.NewBuilder(h.w, h.ids(kinds)...).WithRelation(h.cid[kChild]).Add(en.e, target)
			en.last = "Builder.Add(ids,target)"
		}
	} else {
		h.w.Add(en.e, h.ids(kinds)...)
		en.last = "Add"
	}
	for _, k := range kinds {
		en.has[k] = true
	}
	if contains(kinds, kChild) {
		en.target = target
	}
	return true
}

func (h *hist) opRemove() bool {
	en := h.pick(func(en *ent) bool { return len(en.kinds(true)) > 0 })
	if en == nil {
		return false
	}
	kinds := h.sample(en.kinds(true), 1, 3)
	h.w.Remove(en.e, h.ids(kinds)...)
	en.last = "Remove"
	for _, k := range kinds {
		h.remKind(en, k, "World.Remove")
	}
	return true
}

func (h *hist) opExchange() bool {
	en := h.pick(func(en *ent) bool { return len(en.kinds(true)) > 0 && len(en.kinds(false)) > 0 })
	if en == nil {
		return false
	}
	add := h.sample(en.kinds(false), 1, 2)
	rem := h.sample(en.kinds(true), 1, 2)
	target := ecs.Entity{}
	if contains(add, kChild) && h.rng.Intn(2) == 0 {
		target = h.pickTarget(func(o *ent) bool { return o == en })
		h.w.Relations().Exchange(en.e, h.ids(add), h.ids(rem), h.cid[kChild], target)
		en.last = "Relations.Exchange"
	} else {
		h.w.Exchange(en.e, h.ids(add), h.ids(rem))
		en.last = "Exchange"
	}
	for _, k := range rem {
		h.remKind(en, k, "World.Exchange")
	}
	for _, k := range add {
		en.has[k] = true
	}
	if contains(add, kChild) {
		en.target = target
	}
	return true
}

func (h *hist) opSetRelation() bool {
	en := h.pick(func(en *ent) bool { return en.has[kChild] })
	if en == nil {
		return false
	}
	target := h.pickTarget(func(o *ent) bool { return o == en })
	h.w.Relations().Set(en.e, h.cid[kChild], target)
	en.target = target
	en.last = "Relations.Set"
	return true
}

// ---------------------------------------------------------------- batches

// runBatch executes a batch operation either in its counting or in its query
// flavour and checks the set of affected entities against the model.
func (h *hist) runBatch(name string, f *bfilter, aff []*ent, checkCount bool, plain func() int, query func() ecs.Query) bool {
	if h.rng.Intn(3) == 0 {
		q := query()
		seen := 0
		for q.Next() {
			en := h.by[q.Entity()]
			if en == nil || !f.matches(en) {
				q.Close()
				h.mismatch("%sQ over %v visited unexpected entity %v", name, f, q.Entity())
				return false
			}
			seen++
		}
		if checkCount && seen != len(aff) {
			h.mismatch("%sQ over %v visited %d entities, model has %d", name, f, seen, len(aff))
			return false
		}
	} else {
		cnt := plain()
		if cnt != len(aff) {
			h.mismatch("%s over %v affected %d entities, model has %d", name, f, cnt, len(aff))
			return false
		}
	}
	return true
}

func (h *hist) opBatchAdd() bool {
	t := h.pick(func(en *ent) bool { return len(en.kinds(false)) > 0 })
	if t == nil {
		return false
	}
	add := h.sample(t.kinds(false), 1, 2)
	f := &bfilter{inc: h.sample(t.kinds(true), 0, 2), exc: add}
	h.maybeRel(f, t)
	aff := h.affected(f)
	ids := h.ids(add)
	target := ecs.Entity{}
	name := "Batch.Add"
	var ok bool
	if contains(add, kChild) && h.rng.Intn(2) == 0 {
		target = h.pickTarget(f.matches)
		name = "Relations.ExchangeBatch(add)"
		ok = h.runBatch(name, f, aff, true,
			func() int { return h.w.Relations().ExchangeBatch(h.filter(f), ids, nil, h.cid[kChild], target) },
			func() ecs.Query { return h.w.Relations().ExchangeBatchQ(h.filter(f), ids, nil, h.cid[kChild], target) })
	} else {
		ok = h.runBatch(name, f, aff, true,
			func() int { return h.w.Batch().Add(h.filter(f), ids...) },
			func() ecs.Query { return h.w.Batch().AddQ(h.filter(f), ids...) })
	}
	if !ok {
		return true
	}
	for _, en := range aff {
		for _, k := range add {
			en.has[k] = true
		}
		if contains(add, kChild) {
			en.target = target
		}
		en.last = name
	}
	return true
}

func (h *hist) opBatchRemove() bool {
	t := h.pick(func(en *ent) bool { return len(en.kinds(true)) > 0 })
	if t == nil {
		return false
	}
	inc := h.sample(t.kinds(true), 1, 3)
	rem := inc[:1+h.rng.Intn(len(inc))]
	if len(rem) > 2 {
		rem = rem[:2]
	}
	f := &bfilter{inc: inc}
	if h.rng.Intn(2) == 0 {
		f.exc = h.sample(t.kinds(false), 0, 1)
	}
	h.maybeRel(f, t)
	aff := h.affected(f)
	ids := h.ids(rem)
	if !h.runBatch("Batch.Remove", f, aff, true,
		func() int { return h.w.Batch().Remove(h.filter(f), ids...) },
		func() ecs.Query { return h.w.Batch().RemoveQ(h.filter(f), ids...) }) {
		return true
	}
	for _, en := range aff {
		for _, k := range rem {
			h.remKind(en, k, "Batch.Remove")
		}
		en.last = "Batch.Remove"
	}
	return true
}

func (h *hist) opBatchExchange() bool {
	t := h.pick(func(en *ent) bool { return len(en.kinds(true)) > 0 && len(en.kinds(false)) > 0 })
	if t == nil {
		return false
	}
	add := h.sample(t.kinds(false), 1, 2)
	inc := h.sample(t.kinds(true), 1, 3)
	rem := inc[:1+h.rng.Intn(len(inc))]
	if len(rem) > 2 {
		rem = rem[:2]
	}
	f := &bfilter{inc: inc, exc: add}
	h.maybeRel(f, t)
	aff := h.affected(f)
	addIDs, remIDs := h.ids(add), h.ids(rem)
	target := ecs.Entity{}
	name := "Batch.Exchange"
	var ok bool
	if contains(add, kChild) && h.rng.Intn(2) == 0 {
		target = h.pickTarget(f.matches)
		name = "Relations.ExchangeBatch"
		ok = h.runBatch(name, f, aff, true,
			func() int { return h.w.Relations().ExchangeBatch(h.filter(f), addIDs, remIDs, h.cid[kChild], target) },
			func() ecs.Query {
				return h.w.Relations().ExchangeBatchQ(h.filter(f), addIDs, remIDs, h.cid[kChild], target)
			})
	} else {
		ok = h.runBatch(name, f, aff, true,
			func() int { return h.w.Batch().Exchange(h.filter(f), addIDs, remIDs) },
			func() ecs.Query { return h.w.Batch().ExchangeQ(h.filter(f), addIDs, remIDs) })
	}
	if !ok {
		return true
	}
	for _, en := range aff {
		for _, k := range rem {
			h.remKind(en, k, name)
		}
		for _, k := range add {
			en.has[k] = true
		}
		if contains(add, kChild) {
			en.target = target
		}
		en.last = name
	}
	return true
}

func (h *hist) opBatchSetRelation() bool {
	t := h.pick(func(en *ent) bool { return en.has[kChild] })
	if t == nil {
		return false
	}
	others := []int{}
	for _, k := range t.kinds(true) {
		if k != kChild {
			others = append(others, k)
		}
	}
	f := &bfilter{inc: append([]int{kChild}, h.sample(others, 0, 1)...)}
	h.maybeRel(f, t)
	aff := h.affected(f)
	target := h.pickTarget(f.matches)
	// The query flavour only visits entities whose target changes: no count check there.
	if !h.runBatch("Batch.SetRelation", f, aff, false,
		func() int { return h.w.Batch().SetRelation(h.filter(f), h.cid[kChild], target) },
		func() ecs.Query { return h.w.Batch().SetRelationQ(h.filter(f), h.cid[kChild], target) }) {
		return true
	}
	for _, en := range aff {
		if en.target != target {
			en.target = target
			en.last = "Batch.SetRelation"
		}
	}
	return true
}

// ---------------------------------------------------------------- removal

func (h *hist) opRemoveEntity() bool {
	en := h.pick(nil)
	if en == nil {
		return false
	}
	h.w.RemoveEntity(en.e)
	h.dropEntity(en, "RemoveEntity")
	return true
}

// Remove an entity that is a relation target; sometimes move its children to
// another target afterwards, which retires the table of the dead target.
func (h *hist) opRemoveTarget() bool {
	c := h.pick(func(en *ent) bool {
		if !en.has[kChild] || en.target.IsZero() {
			return false
		}
		_, alive := h.by[en.target]
		return alive
	})
	if c == nil {
		return false
	}
	dead := c.target
	t := h.by[dead]
	h.w.RemoveEntity(t.e)
	h.dropEntity(t, "RemoveEntity(target)")
	if h.rng.Intn(2) == 0 {
		f := &bfilter{inc: []int{kChild}, useRel: true, target: dead}
		aff := h.affected(f)
		target := h.pickTarget(f.matches)
		cnt := h.w.Batch().SetRelation(h.filter(f), h.cid[kChild], target)
		if cnt != len(aff) {
			h.mismatch("Batch.SetRelation away from dead target %v moved %d entities, model has %d", dead, cnt, len(aff))
			return true
		}
		for _, en := range aff {
			en.target = target
			en.last = "Batch.SetRelation(from dead target)"
		}
	}
	return true
}

func (h *hist) opBatchRemoveEntities() bool {
	t := h.pick(nil)
	if t == nil {
		return false
	}
	f := &bfilter{inc: h.sample(t.kinds(true), 1, 3), exc: h.sample(t.kinds(false), 0, 2)}
	h.maybeRel(f, t)
	aff := h.affected(f)
	cnt := h.w.Batch().RemoveEntities(h.filter(f))
	if cnt != len(aff) {
		h.mismatch("Batch.RemoveEntities over %v removed %d entities, model has %d", f, cnt, len(aff))
		return true
	}
	for _, en := range aff {
		h.dropEntity(en, "Batch.RemoveEntities")
	}
	return true
}

// World.Reset followed by re-population: recycled tables must neither retain
// nor expose the old payloads.
func (h *hist) opReset() bool {
	if h.op < 20 {
		return false
	}
	h.w.Reset()
	for len(h.ents) > 0 {
		h.dropEntity(h.ents[len(h.ents)-1], "World.Reset")
	}
	n := 5 + h.rng.Intn(10)
	for i := 0; i < n && !h.broken; i++ {
		h.op++
		h.ops++
		switch h.rng.Intn(4) {
		case 0:
			h.opName = "NewEntity+Get(after Reset)"
			h.opNewEntityGet()
		case 1:
			h.opName = "NewEntityWith(after Reset)"
			h.opNewEntityWith()
		case 2:
			h.opName = "Builder.New(after Reset)"
			h.opBuilderNew()
		case 3:
			h.opName = "Builder.NewBatch(after Reset)"
			h.opBuilderBatch()
		}
	}
	return true
}

func (h *hist) describe(en *ent) string {
	return fmt.Sprintf("entity=%v comps=%v target=%v last=%q", en.e, kindList(en.kinds(true)), en.target, en.last)
}
