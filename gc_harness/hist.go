package main

import (
	"fmt"
	"io"
	"math/rand"

	"github.com/mlange-42/arche/ecs"
)

// ent is the harness model of one alive entity.
type ent struct {
	e      ecs.Entity
	has    [nKinds]bool
	val    [nKinds]*plan // nil: component was added without a value, must read as zero
	target ecs.Entity    // relation target, meaningful if has[kChild]
	idx    int           // position in hist.ents
	last   string        // last operation that touched the entity
}

// gWorld makes the world reachable from a global root (in addition to the
// harness structures), as it would be in most programs.
var gWorld *ecs.World

type hist struct {
	idx    int
	rng    *rand.Rand
	out    io.Writer
	w      *ecs.World
	cid    [nKinds]ecs.ID
	ents   []*ent
	by     map[ecs.Entity]*ent
	nextID int64
	op     int
	opName string
	scen   string
	burst  int

	pending  []*objState
	deferred []*objState
	grace    bool
	reported map[string]bool

	ops, liveChecks, releasedChecks, fails int
	suppressed                             int
	broken                                 bool
	capInc                                 int
}

// maxFailLines bounds the FAIL lines printed per history; further failures are
// counted and summarised in one extra line.
const maxFailLines = 40

func (h *hist) fail(kind string, format string, args ...interface{}) {
	h.fails++
	if h.fails > maxFailLines {
		h.suppressed++
		return
	}
	fmt.Fprintf(h.out, "FAIL history=%d op=%d %s:%s %s\n", h.idx, h.op, kind, h.scen, fmt.Sprintf(format, args...))
}

// guard runs f and converts a panic into a FAIL; the history is abandoned
// afterwards because model and world may be out of step.
func (h *hist) guard(what string, f func()) (ok bool) {
	defer func() {
		if r := recover(); r != nil {
			h.fail("unexpected panic", "in %s: %v", what, r)
			h.broken = true
			ok = false
		}
	}()
	f()
	return true
}

func (h *hist) mismatch(format string, args ...interface{}) {
	h.fail("model mismatch", format, args...)
	h.broken = true
}

// ---------------------------------------------------------------- model

func (h *hist) newID() int64 {
	h.nextID++
	return h.nextID
}

func (h *hist) newPlan(k int) *plan {
	pl := &plan{kind: k}
	switch k {
	case kPtr, kChild:
		pl.pids = []int64{h.newID()}
	case kSlice:
		n := 1 + h.rng.Intn(3)
		for i := 0; i < n; i++ {
			pl.pids = append(pl.pids, h.newID())
		}
		pl.aux = h.newID()
	case kMap:
		n := 1 + h.rng.Intn(3)
		for i := 0; i < n; i++ {
			pl.pids = append(pl.pids, h.newID())
		}
	case kStr:
		pl.pids = []int64{h.newID()}
		pl.aux = h.newID()
		pl.strN = 24 + h.rng.Intn(40)
	case kMixed:
		pl.pids = []int64{h.newID(), h.newID()}
		pl.x = h.rng.Int63()
	case kArr:
		pl.pids = []int64{h.newID(), h.newID(), h.newID()}
		pl.x = h.rng.Int63()
	case kStrOnly:
		pl.aux = h.newID()
		pl.strN = 24 + h.rng.Intn(40)
		pl.x = h.rng.Int63()
	case kBig:
		pl.pids = []int64{h.newID(), h.newID()}
		pl.x = h.rng.Int63()
	case kPlain:
		pl.x, pl.y = h.rng.Int63(), h.rng.Int63()
	case kTag:
	}
	return pl
}

func (h *hist) plans(kinds []int) []*plan {
	res := make([]*plan, len(kinds))
	for i, k := range kinds {
		res[i] = h.newPlan(k)
	}
	return res
}

func (h *hist) track(e ecs.Entity, kinds []int, target ecs.Entity, how string) *ent {
	if _, dup := h.by[e]; dup {
		h.mismatch("%s returned entity %v which the model holds as alive already", how, e)
		return nil
	}
	en := &ent{e: e, idx: len(h.ents), last: how}
	for _, k := range kinds {
		en.has[k] = true
	}
	if en.has[kChild] {
		en.target = target
	}
	h.ents = append(h.ents, en)
	h.by[e] = en
	return en
}

func (h *hist) attach(en *ent, pl *plan) {
	if en.val[pl.kind] != nil {
		panic("harness: attach over existing plan")
	}
	en.val[pl.kind] = pl
	pl.refs++
}

func (h *hist) detach(en *ent, k int, how string) {
	pl := en.val[k]
	if pl == nil {
		return
	}
	en.val[k] = nil
	pl.refs--
	if pl.refs > 0 {
		return
	}
	for _, id := range pl.tracked() {
		st := registry[id]
		if st == nil {
			continue
		}
		st.released = true
		st.relBurst = h.burst
		st.relOp = h.op
		st.relHow = how
		h.pending = append(h.pending, st)
	}
}

func (h *hist) remKind(en *ent, k int, how string) {
	h.detach(en, k, how)
	en.has[k] = false
	if k == kChild {
		en.target = ecs.Entity{}
	}
}

func (h *hist) dropEntity(en *ent, how string) {
	for k := 0; k < nKinds; k++ {
		h.detach(en, k, how)
	}
	last := h.ents[len(h.ents)-1]
	h.ents[en.idx] = last
	last.idx = en.idx
	h.ents = h.ents[:len(h.ents)-1]
	delete(h.by, en.e)
}

func (e *ent) kinds(present bool) []int {
	res := []int{}
	for k := 0; k < nKinds; k++ {
		if e.has[k] == present {
			res = append(res, k)
		}
	}
	return res
}

func (h *hist) ids(kinds []int) []ecs.ID {
	res := make([]ecs.ID, len(kinds))
	for i, k := range kinds {
		res[i] = h.cid[k]
	}
	return res
}

// sample returns between min and max distinct elements of from (fewer if from is short).
func (h *hist) sample(from []int, min, max int) []int {
	if max > len(from) {
		max = len(from)
	}
	if min > max {
		min = max
	}
	n := min
	if max > min {
		n += h.rng.Intn(max - min + 1)
	}
	p := h.rng.Perm(len(from))
	res := make([]int, n)
	for i := 0; i < n; i++ {
		res[i] = from[p[i]]
	}
	return res
}

func contains(s []int, k int) bool {
	for _, x := range s {
		if x == k {
			return true
		}
	}
	return false
}

func (h *hist) pick(pred func(*ent) bool) *ent {
	c := []*ent{}
	for _, en := range h.ents {
		if pred == nil || pred(en) {
			c = append(c, en)
		}
	}
	if len(c) == 0 {
		return nil
	}
	return c[h.rng.Intn(len(c))]
}

// pickTarget returns an alive entity (not in the exclude set) or the zero entity.
func (h *hist) pickTarget(exclude func(*ent) bool) ecs.Entity {
	if h.rng.Intn(4) == 0 {
		return ecs.Entity{}
	}
	t := h.pick(func(en *ent) bool { return exclude == nil || !exclude(en) })
	if t == nil {
		return ecs.Entity{}
	}
	return t.e
}

// ---------------------------------------------------------------- filters

type bfilter struct {
	inc, exc []int
	useRel   bool
	target   ecs.Entity
}

func (f *bfilter) matches(en *ent) bool {
	for _, k := range f.inc {
		if !en.has[k] {
			return false
		}
	}
	for _, k := range f.exc {
		if en.has[k] {
			return false
		}
	}
	if f.useRel && (!en.has[kChild] || en.target != f.target) {
		return false
	}
	return true
}

func (f *bfilter) String() string {
	s := fmt.Sprintf("All%v", kindList(f.inc))
	if len(f.exc) > 0 {
		s += fmt.Sprintf(".Without%v", kindList(f.exc))
	}
	if f.useRel {
		s += fmt.Sprintf(" target=%v", f.target)
	}
	return s
}

func kindList(ks []int) []string {
	r := make([]string, len(ks))
	for i, k := range ks {
		r[i] = kindNames[k]
	}
	return r
}

func (h *hist) filter(f *bfilter) ecs.Filter {
	var inner ecs.Filter
	if len(f.exc) > 0 {
		mf := ecs.All(h.ids(f.inc)...).Without(h.ids(f.exc)...)
		inner = &mf
	} else {
		inner = ecs.All(h.ids(f.inc)...)
	}
	if f.useRel {
		rf := ecs.NewRelationFilter(inner, f.target)
		return &rf
	}
	return inner
}

func (h *hist) affected(f *bfilter) []*ent {
	res := []*ent{}
	for _, en := range h.ents {
		if f.matches(en) {
			res = append(res, en)
		}
	}
	return res
}

// maybeRel turns the filter into a relation filter for the template's target, sometimes.
func (h *hist) maybeRel(f *bfilter, t *ent) {
	if contains(f.inc, kChild) && t.has[kChild] && h.rng.Intn(2) == 0 {
		f.useRel = true
		f.target = t.target
	}
}
