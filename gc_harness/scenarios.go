package main

import (
	"runtime/debug"

	"github.com/mlange-42/arche/ecs"
)

// Directed scenarios. The random histories exercise every path, but the
// windows in which a concurrent collector can observe an unsafe copy differ a
// lot between paths. These scenarios isolate two paths and hammer them so
// that a defect confined to one of them is still found:
//
//	0 "copy-in":      values enter the storage only through World.Set /
//	                  NewEntityWith (archetype.Set); entities never move and are
//	                  only removed wholesale (typed zeroing, no row copies).
//	1 "swap-remove":  values are written through Get pointers (typed stores);
//	                  the only untyped copies are the swap-removes in the
//	                  middle of one large table (archetype.Remove).
var scenarioNames = []string{"copy-in", "swap-remove"}

func (h *hist) runScenario(s int) {
	switch s {
	case 0:
		h.scenarioCopyIn()
	case 1:
		h.scenarioSwapRemove()
	}
}

func (h *hist) scenarioCopyIn() {
	ptrKinds := []int{kPtr, kSlice, kMap, kStr, kMixed, kChild, kArr, kStrOnly, kBig}
	h.prebuiltSets(ptrKinds)
	for round := 0; round < 30 && !h.broken; round++ {
		h.opName = "copy-in burst"
		h.guard(h.opName, func() {
			for i := 0; i < 500; i++ {
				h.op++
				h.ops++
				if len(h.ents) < 24 && h.rng.Intn(3) > 0 {
					k := ptrKinds[h.rng.Intn(len(ptrKinds))]
					pl := h.newPlan(k)
					var e ecs.Entity
					how := ""
					switch h.rng.Intn(3) {
					case 0:
						e = litNewWith(h.w, h.cid[k], pl)
						how = "NewEntityWith/literal"
					case 1:
						e = h.w.NewEntityWith(ecs.Component{ID: h.cid[k], Comp: heapComp(pl)})
						how = "NewEntityWith/heap"
					case 2:
						e = litBuilderNew(h.w, h.cid[k], pl, false, ecs.Entity{})
						how = "Builder(literal).New"
					}
					en := h.track(e, []int{k}, ecs.Entity{}, how)
					if en == nil {
						return
					}
					h.attach(en, pl)
				} else if len(h.ents) > 0 && h.rng.Intn(12) > 0 {
					en := h.ents[h.rng.Intn(len(h.ents))]
					k := en.kinds(true)[0]
					pl := h.newPlan(k)
					if h.rng.Intn(2) == 0 {
						litSet(h.w, en.e, h.cid[k], pl)
						en.last = "Set/literal " + kindNames[k]
					} else {
						h.w.Set(en.e, h.cid[k], heapComp(pl))
						en.last = "Set/heap " + kindNames[k]
					}
					h.detach(en, k, "overwritten by "+en.last)
					h.attach(en, pl)
				} else {
					h.w.Batch().RemoveEntities(ecs.All())
					for len(h.ents) > 0 {
						h.dropEntity(h.ents[len(h.ents)-1], "Batch.RemoveEntities(All())")
					}
				}
			}
		})
		if !h.broken {
			h.checkBurst()
		}
	}
}

const prebuilt = 1024

// prebuiltSets overwrites the components of whole tables with World.Set from
// values that were built beforehand and are referenced only from an array on
// the goroutine stack, whose slots are cleared (stack writes: no barrier) as
// soon as the value was handed to the library. A collection cycle that starts
// while the loop runs sees the payloads neither through the stack (if it is
// scanned late) nor through the storage (if it was scanned early), unless the
// library's copy into the storage tells the collector.
func (h *hist) prebuiltSets(kinds []int) {
	defer debug.SetGCPercent(debug.SetGCPercent(1))
	tables := map[int][]*ent{}
	h.opName = "fill"
	h.guard(h.opName, func() {
		for _, k := range kinds {
			q := ecs.NewBuilder(h.w, h.cid[k]).NewBatchQ(prebuilt)
			for q.Next() {
				en := h.track(q.Entity(), []int{k}, ecs.Entity{}, "Builder(ids).NewBatchQ")
				if en == nil {
					q.Close()
					return
				}
				tables[k] = append(tables[k], en)
			}
		}
	})
	for burst := 0; burst < 120 && !h.broken; burst++ {
		k := kinds[burst%len(kinds)]
		ents := tables[k]
		pls := make([]*plan, len(ents))
		for i := range pls {
			pls[i] = h.newPlan(k)
		}
		h.opName = "prebuilt Set burst " + kindNames[k]
		h.op += len(ents)
		h.ops += len(ents)
		h.guard(h.opName, func() { setBurst(h.w, h.cid[k], ents, pls) })
		for i, en := range ents {
			en.last = "Set/prebuilt " + kindNames[k]
			h.detach(en, k, "overwritten by "+en.last)
			h.attach(en, pls[i])
		}
		if burst%6 == 5 && !h.broken {
			h.checkBurst()
		}
	}
	if h.broken {
		return
	}
	h.opName = "Batch.RemoveEntities(All())"
	h.guard(h.opName, func() { h.w.Batch().RemoveEntities(ecs.All()) })
	for len(h.ents) > 0 {
		h.dropEntity(h.ents[len(h.ents)-1], "Batch.RemoveEntities(All())")
	}
	h.checkBurst()
}

//go:noinline
func setBurst(w *ecs.World, id ecs.ID, ents []*ent, pls []*plan) {
	var comps [prebuilt]interface{}
	n := len(pls)
	for i := 0; i < n; i++ {
		comps[i] = heapComp(pls[i])
	}
	for i := 0; i < n; i++ {
		w.Set(ents[i].e, id, comps[i])
		comps[i] = nil
		// Garbage, so that collection cycles are also started by this
		// goroutine from inside the loop (it then keeps running while the
		// background workers mark, and its stack is scanned late).
		garbage = make([]byte, 256)
	}
}

var garbage []byte

func (h *hist) scenarioSwapRemove() {
	const size = 40000 // 320 kB per pointer column: scanned by the collector in several chunks
	ids := []ecs.ID{h.cid[kPtr], h.cid[kMixed]}
	fill := func() {
		n := size - len(h.ents)
		if n <= 0 {
			return
		}
		q := ecs.NewBuilder(h.w, ids...).NewBatchQ(n)
		for q.Next() {
			e := q.Entity()
			en := h.track(e, []int{kPtr, kMixed}, ecs.Entity{}, "Builder(ids).NewBatchQ")
			if en == nil {
				q.Close()
				return
			}
			p1, p2 := h.newPlan(kPtr), h.newPlan(kMixed)
			writeThrough(q.Get(ids[0]), p1)
			writeThrough(q.Get(ids[1]), p2)
			h.attach(en, p1)
			h.attach(en, p2)
		}
	}
	for round := 0; round < 4 && !h.broken; round++ {
		h.opName = "fill"
		h.guard(h.opName, fill)
		if h.broken {
			break
		}
		h.checkBurst()
		h.opName = "RemoveEntity (swap-remove)"
		h.guard(h.opName, func() {
			for i := 0; i < size/2; i++ {
				h.op++
				h.ops++
				en := h.ents[h.rng.Intn(len(h.ents))]
				h.w.RemoveEntity(en.e)
				h.dropEntity(en, "RemoveEntity")
			}
		})
		if !h.broken {
			h.checkBurst()
		}
	}
}
