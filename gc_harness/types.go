package main

import (
	"runtime"
	"sync/atomic"
	"unsafe"

	"github.com/mlange-42/arche/ecs"
)

// Payload is the heap object referenced by components. It is reachable ONLY
// through the component that carries it: the harness keeps its ID and an
// objState (updated by the finalizer), never a *Payload.
type Payload struct {
	ID    int64
	Check [4]int64
}

// Component types under test.
type PtrComp struct{ P *Payload }
type SliceComp struct{ S []*Payload }
type MapComp struct{ M map[int]*Payload }
type StrComp struct {
	S string
	P *Payload
}
type Mixed struct {
	A int64
	P *Payload
	B [3]int32
	Q *Payload
}
// ArrComp: the only references sit inside arrays (an array of pointers, an array of structs)
type ArrComp struct {
	A [2]*Payload
	N [1]struct {
		X int64
		P *Payload
	}
}
// StrOnly: the only reference is a string (no pointer-typed field at all)
type StrOnly struct {
	S string
	N int64
}

// BigComp: larger than 256 bytes, with its references in the rear part
type BigComp struct {
	Pad  [40]int64
	P    *Payload
	Tail [3]int64
	Q    *Payload
}
type Plain struct{ X, Y int64 }
type Tag struct{}
type Child struct {
	ecs.Relation
	P *Payload
}

// Component kinds (index into hist.cid).
const (
	kPtr = iota
	kSlice
	kMap
	kStr
	kMixed
	kPlain
	kTag
	kChild
	kArr
	kStrOnly
	kBig
	nKinds
)

var kindNames = [nKinds]string{"PtrComp", "SliceComp", "MapComp", "StrComp", "Mixed", "Plain", "Tag", "Child", "ArrComp", "StrOnly", "BigComp"}

// objState is the harness-side record of one tracked heap object (a Payload,
// the backing array of a SliceComp slice, or the bytes of a StrComp string).
// The finalizer closure captures only this record.
type objState struct {
	id       int64
	what     string // "payload", "slice-array", "string-bytes"
	fin      int32  // set to 1 by the finalizer (atomic)
	released bool   // the harness expects the object to be collectable
	relBurst int    // burst in which it was released
	relOp    int    // op index at which it was released
	relHow   string // what released it
	reported bool   // a FAIL was already printed for this object
}

func (s *objState) finalized() bool { return atomic.LoadInt32(&s.fin) != 0 }

// registry maps tracked object ids to their state. Only touched by the main goroutine.
var registry = map[int64]*objState{}

func register(id int64, what string) *objState {
	st := &objState{id: id, what: what}
	registry[id] = st
	return st
}

func checkFor(id int64) [4]int64 {
	u := uint64(id)
	return [4]int64{int64(u * 0x9E3779B97F4A7C15), ^id, (id << 7) ^ 0x5555555555, id + 1234567}
}

// newPayload allocates a tracked payload on the heap. Not inlined, so that no
// stack slot of the caller holds the pointer longer than the caller's own
// expression needs it.
//
//go:noinline
func newPayload(id int64) *Payload {
	st := register(id, "payload")
	p := &Payload{ID: id, Check: checkFor(id)}
	runtime.SetFinalizer(p, func(*Payload) { atomic.StoreInt32(&st.fin, 1) })
	return p
}

// mkSlice builds a slice of tracked payloads whose backing array is tracked, too.
//
//go:noinline
func mkSlice(pl *plan) []*Payload {
	s := make([]*Payload, len(pl.pids))
	st := register(pl.aux, "slice-array")
	runtime.SetFinalizer(&s[0], func(**Payload) { atomic.StoreInt32(&st.fin, 1) })
	for i, id := range pl.pids {
		s[i] = newPayload(id)
	}
	return s
}

//go:noinline
func mkMap(pl *plan) map[int]*Payload {
	m := make(map[int]*Payload)
	for i, id := range pl.pids {
		m[mapKey(pl, i)] = newPayload(id)
	}
	return m
}

func mapKey(pl *plan, i int) int { return int(pl.pids[0]%1000)*10 + i }

func strByte(id int64, i int) byte { return byte('a' + (id*7+int64(i)*3)%26) }

// mkString builds a heap-allocated string at run time; its bytes are tracked.
//
//go:noinline
func mkString(pl *plan) string {
	b := make([]byte, pl.strN)
	for i := range b {
		b[i] = strByte(pl.aux, i)
	}
	st := register(pl.aux, "string-bytes")
	runtime.SetFinalizer(&b[0], func(*byte) { atomic.StoreInt32(&st.fin, 1) })
	return unsafe.String(&b[0], len(b))
}

func mixedB(x int64) [3]int32 { return [3]int32{int32(x), int32(x >> 8), int32(x >> 16)} }

// plan describes one component value: which tracked objects it references and
// its plain data. A plan can be shared by several entities (batch builders copy
// one value to many rows), hence the reference count.
type plan struct {
	kind int
	refs int
	pids []int64 // payload ids, in slot order
	aux  int64   // id of the slice backing array / string bytes (0 = none)
	strN int     // string length
	x, y int64   // Plain.X/Y, Mixed.A
}

func (pl *plan) tracked() []int64 {
	ids := append([]int64{}, pl.pids...)
	if pl.aux != 0 {
		ids = append(ids, pl.aux)
	}
	return ids
}

// heapComp builds a component value in a helper and returns it as pointer:
// the "escaping" call shape (the component struct itself lives on the heap).
//
//go:noinline
func heapComp(pl *plan) interface{} {
	switch pl.kind {
	case kPtr:
		return &PtrComp{P: newPayload(pl.pids[0])}
	case kSlice:
		return &SliceComp{S: mkSlice(pl)}
	case kMap:
		return &MapComp{M: mkMap(pl)}
	case kStr:
		return &StrComp{S: mkString(pl), P: newPayload(pl.pids[0])}
	case kMixed:
		return &Mixed{A: pl.x, P: newPayload(pl.pids[0]), B: mixedB(pl.x), Q: newPayload(pl.pids[1])}
	case kPlain:
		return &Plain{X: pl.x, Y: pl.y}
	case kTag:
		return &Tag{}
	case kChild:
		return &Child{P: newPayload(pl.pids[0])}
	case kArr:
		return mkArr(pl)
	case kStrOnly:
		return &StrOnly{S: mkString(pl), N: pl.x}
	case kBig:
		return mkBig(pl)
	}
	panic("bad kind")
}

// writeThrough writes a value through a pointer into the storage (as obtained
// from World.Get or Query.Get): ordinary typed stores, with write barriers.
//
//go:noinline
func writeThrough(ptr unsafe.Pointer, pl *plan) {
	switch pl.kind {
	case kPtr:
		(*PtrComp)(ptr).P = newPayload(pl.pids[0])
	case kSlice:
		(*SliceComp)(ptr).S = mkSlice(pl)
	case kMap:
		(*MapComp)(ptr).M = mkMap(pl)
	case kStr:
		c := (*StrComp)(ptr)
		c.S = mkString(pl)
		c.P = newPayload(pl.pids[0])
	case kMixed:
		*(*Mixed)(ptr) = Mixed{A: pl.x, P: newPayload(pl.pids[0]), B: mixedB(pl.x), Q: newPayload(pl.pids[1])}
	case kPlain:
		*(*Plain)(ptr) = Plain{X: pl.x, Y: pl.y}
	case kTag:
	case kChild:
		(*Child)(ptr).P = newPayload(pl.pids[0])
	case kArr:
		*(*ArrComp)(ptr) = *mkArr(pl)
	case kStrOnly:
		c := (*StrOnly)(ptr)
		c.S = mkString(pl)
		c.N = pl.x
	case kBig:
		*(*BigComp)(ptr) = *mkBig(pl)
	}
}

func mkBig(pl *plan) *BigComp {
	c := &BigComp{P: newPayload(pl.pids[0]), Q: newPayload(pl.pids[1])}
	for i := range c.Pad {
		c.Pad[i] = pl.x + int64(i)
	}
	c.Tail = [3]int64{pl.x, ^pl.x, pl.x >> 3}
	return c
}

func mkArr(pl *plan) *ArrComp {
	c := &ArrComp{A: [2]*Payload{newPayload(pl.pids[0]), newPayload(pl.pids[1])}}
	c.N[0].X = pl.x
	c.N[0].P = newPayload(pl.pids[2])
	return c
}
