package main

import (
	"fmt"
	"runtime"
	"time"
	"unsafe"

	"github.com/mlange-42/arche/ecs"
)

// checkBurst runs after every burst of operations.
func (h *hist) checkBurst() {
	runtime.GC()
	runtime.GC()
	h.verifyAll()
	h.checkReleased(false)
	h.burst++
}

// ---------------------------------------------------------------- LIVE / ZERO

//go:noinline
func (h *hist) verifyAll() {
	for _, en := range h.ents {
		if h.broken {
			return
		}
		h.guard("verification of "+h.describe(en), func() { h.verifyEnt(en) })
	}
}

func (h *hist) once(key string) bool {
	if h.reported[key] {
		return false
	}
	h.reported[key] = true
	return true
}

// object checks the registry state of a tracked object referenced by a live component.
func (h *hist) object(en *ent, k int, id int64) {
	h.liveChecks++
	st := registry[id]
	if st == nil {
		h.mismatch("tracked object %d of %s not in registry (%s)", id, kindNames[k], h.describe(en))
		return
	}
	if st.finalized() && !st.reported {
		st.reported = true
		h.fail("live payload finalized", "%s %d referenced by live %s was finalized; %s", st.what, id, kindNames[k], h.describe(en))
	}
}

// payload checks one payload pointer read from the storage against the
// expected id (want == 0: the pointer must be nil).
func (h *hist) payload(en *ent, k int, slot string, p *Payload, want int64) {
	if want == 0 {
		h.liveChecks++
		if p != nil {
			if h.once(fmt.Sprintf("z%v/%d/%s", en.e, k, slot)) {
				h.fail("zero value violated", "%s.%s added without value holds stale pointer to payload id=%d; %s", kindNames[k], slot, p.ID, h.describe(en))
			}
		}
		return
	}
	h.object(en, k, want)
	if p == nil {
		if h.once(fmt.Sprintf("n%v/%d/%s", en.e, k, slot)) {
			h.fail("live payload corrupted", "%s.%s is nil, expected payload %d; %s", kindNames[k], slot, want, h.describe(en))
		}
		return
	}
	if p.ID != want || p.Check != checkFor(want) {
		if h.once(fmt.Sprintf("c%v/%d/%s", en.e, k, slot)) {
			h.fail("live payload corrupted", "%s.%s expected payload %d, found id=%d check=%v; %s", kindNames[k], slot, want, p.ID, p.Check, h.describe(en))
		}
	}
}

func (h *hist) corrupt(en *ent, k int, format string, args ...interface{}) {
	if h.once(fmt.Sprintf("x%v/%d/%s", en.e, k, format)) {
		h.fail("live payload corrupted", "%s: %s; %s", kindNames[k], fmt.Sprintf(format, args...), h.describe(en))
	}
}

func (h *hist) zeroViolated(en *ent, k int, format string, args ...interface{}) {
	if h.once(fmt.Sprintf("y%v/%d/%s", en.e, k, format)) {
		h.fail("zero value violated", "%s: %s; %s", kindNames[k], fmt.Sprintf(format, args...), h.describe(en))
	}
}

func pid(pl *plan, i int) int64 {
	if pl == nil {
		return 0
	}
	return pl.pids[i]
}

//go:noinline
func (h *hist) verifyEnt(en *ent) {
	w := h.w
	if !w.Alive(en.e) {
		h.mismatch("entity not alive; %s", h.describe(en))
		return
	}
	for k := 0; k < nKinds; k++ {
		id := h.cid[k]
		has := w.Has(en.e, id)
		if has != en.has[k] {
			h.mismatch("Has(%s)=%v, model says %v; %s", kindNames[k], has, en.has[k], h.describe(en))
			return
		}
		ptr := w.Get(en.e, id)
		if !has {
			if ptr != nil {
				h.mismatch("Get(%s) non-nil for absent component; %s", kindNames[k], h.describe(en))
			}
			continue
		}
		if ptr == nil {
			h.mismatch("Get(%s) nil for present component; %s", kindNames[k], h.describe(en))
			return
		}
		pl := en.val[k]
		switch k {
		case kPtr:
			h.payload(en, k, "P", (*PtrComp)(ptr).P, pid(pl, 0))
		case kChild:
			h.payload(en, k, "P", (*Child)(ptr).P, pid(pl, 0))
		case kSlice:
			h.verifySlice(en, (*SliceComp)(ptr), pl)
		case kMap:
			h.verifyMap(en, (*MapComp)(ptr), pl)
		case kStr:
			h.verifyStr(en, (*StrComp)(ptr), pl)
		case kArr:
			c := (*ArrComp)(ptr)
			h.payload(en, k, "A[0]", c.A[0], pid(pl, 0))
			var q1, q2 int64
			if pl != nil {
				q1, q2 = pl.pids[1], pl.pids[2]
			}
			h.payload(en, k, "A[1]", c.A[1], q1)
			h.payload(en, k, "N[0].P", c.N[0].P, q2)
			h.liveChecks++
			if pl == nil {
				if c.N[0].X != 0 {
					h.zeroViolated(en, k, "plain field N[0].X=%d not zero", c.N[0].X)
				}
			} else if c.N[0].X != pl.x {
				h.corrupt(en, k, "plain field N[0].X=%d, expected %d", c.N[0].X, pl.x)
			}
		case kMixed:
			c := (*Mixed)(ptr)
			h.payload(en, k, "P", c.P, pid(pl, 0))
			var q int64
			if pl != nil {
				q = pl.pids[1]
			}
			h.payload(en, k, "Q", c.Q, q)
			h.liveChecks++
			if pl == nil {
				if c.A != 0 || c.B != [3]int32{} {
					h.zeroViolated(en, k, "plain fields A=%d B=%v not zero", c.A, c.B)
				}
			} else if c.A != pl.x || c.B != mixedB(pl.x) {
				h.corrupt(en, k, "plain fields A=%d B=%v, expected A=%d B=%v", c.A, c.B, pl.x, mixedB(pl.x))
			}
		case kPlain:
			c := (*Plain)(ptr)
			h.liveChecks++
			if pl == nil {
				if c.X != 0 || c.Y != 0 {
					h.zeroViolated(en, k, "X=%d Y=%d not zero", c.X, c.Y)
				}
			} else if c.X != pl.x || c.Y != pl.y {
				h.corrupt(en, k, "X=%d Y=%d, expected X=%d Y=%d", c.X, c.Y, pl.x, pl.y)
			}
		case kTag:
		case kStrOnly:
			c := (*StrOnly)(ptr)
			h.liveChecks++
			if pl == nil {
				if c.S != "" || unsafe.StringData(c.S) != nil || c.N != 0 {
					h.zeroViolated(en, k, "StrOnly added without value is not zero (len=%d N=%d)", len(c.S), c.N)
				}
			} else {
				h.object(en, k, pl.aux)
				ok := len(c.S) == pl.strN && c.N == pl.x
				for i := 0; ok && i < len(c.S); i++ {
					if c.S[i] != strByte(pl.aux, i) {
						ok = false
					}
				}
				if !ok {
					h.corrupt(en, k, "string-only component changed: len=%d %q N=%d, expected len=%d N=%d", len(c.S), c.S, c.N, pl.strN, pl.x)
				}
			}
		case kBig:
			c := (*BigComp)(ptr)
			h.payload(en, k, "P", c.P, pid(pl, 0))
			var q int64
			if pl != nil {
				q = pl.pids[1]
			}
			h.payload(en, k, "Q", c.Q, q)
			h.liveChecks++
			if pl == nil {
				if c.Pad != [40]int64{} || c.Tail != [3]int64{} {
					h.zeroViolated(en, k, "plain fields of BigComp not zero (Pad[0]=%d Tail=%v)", c.Pad[0], c.Tail)
				}
			} else if c.Pad[0] != pl.x || c.Pad[39] != pl.x+39 || c.Tail != [3]int64{pl.x, ^pl.x, pl.x >> 3} {
				h.corrupt(en, k, "plain fields of BigComp changed: Pad[0]=%d Pad[39]=%d Tail=%v, expected x=%d", c.Pad[0], c.Pad[39], c.Tail, pl.x)
			}
		}
	}
	if en.has[kChild] {
		if got := w.Relations().Get(en.e, h.cid[kChild]); got != en.target {
			h.mismatch("relation target %v, model says %v; %s", got, en.target, h.describe(en))
		}
	}
}

func (h *hist) verifySlice(en *ent, c *SliceComp, pl *plan) {
	if pl == nil {
		h.liveChecks++
		if c.S != nil || len(c.S) != 0 || cap(c.S) != 0 {
			h.zeroViolated(en, kSlice, "slice added without value is not nil (len=%d cap=%d)", len(c.S), cap(c.S))
		}
		return
	}
	h.object(en, kSlice, pl.aux)
	if len(c.S) != len(pl.pids) {
		h.corrupt(en, kSlice, "slice length %d, expected %d", len(c.S), len(pl.pids))
		return
	}
	for i, want := range pl.pids {
		h.payload(en, kSlice, fmt.Sprintf("S[%d]", i), c.S[i], want)
	}
}

func (h *hist) verifyMap(en *ent, c *MapComp, pl *plan) {
	if pl == nil {
		h.liveChecks++
		if c.M != nil {
			h.zeroViolated(en, kMap, "map added without value is not nil (len=%d)", len(c.M))
		}
		return
	}
	if c.M == nil || len(c.M) != len(pl.pids) {
		h.corrupt(en, kMap, "map length %d (nil=%v), expected %d", len(c.M), c.M == nil, len(pl.pids))
		return
	}
	for i, want := range pl.pids {
		h.payload(en, kMap, fmt.Sprintf("M[%d]", i), c.M[mapKey(pl, i)], want)
	}
}

func (h *hist) verifyStr(en *ent, c *StrComp, pl *plan) {
	if pl == nil {
		h.liveChecks++
		if c.S != "" || unsafe.StringData(c.S) != nil {
			h.zeroViolated(en, kStr, "string added without value is not empty (len=%d)", len(c.S))
		}
		h.payload(en, kStr, "P", c.P, 0)
		return
	}
	h.object(en, kStr, pl.aux)
	ok := len(c.S) == pl.strN
	if ok {
		for i := 0; i < len(c.S); i++ {
			if c.S[i] != strByte(pl.aux, i) {
				ok = false
				break
			}
		}
	}
	if !ok {
		h.corrupt(en, kStr, "string contents changed: len=%d %q, expected len=%d", len(c.S), c.S, pl.strN)
	}
	h.payload(en, kStr, "P", c.P, pl.pids[0])
}

// ---------------------------------------------------------------- RELEASED

func allFinalized(sts []*objState) bool {
	for _, st := range sts {
		if !st.finalized() {
			return false
		}
	}
	return true
}

// checkReleased requires every object released so far to be finalized after
// at most 10 quick rounds of GC + sleep, followed - only if something is still
// outstanding - by up to 60 slower rounds (about 3 s): a finalizer that is merely late
// because the machine is busy or a collector goroutine is hogging the finalizer queue
// must not be reported as retention; storage that really keeps the reference never
// gets finalized however long we wait.
//
//go:noinline
func (h *hist) checkReleased(final bool) {
	sts := append(h.deferred, h.pending...)
	h.pending, h.deferred = nil, nil
	for round := 0; round < 10 && !allFinalized(sts); round++ {
		runtime.GC()
		time.Sleep(time.Millisecond)
	}
	for round := 0; round < 60 && !allFinalized(sts); round++ {
		runtime.GC()
		runtime.Gosched()
		time.Sleep(50 * time.Millisecond)
	}
	for _, st := range sts {
		if !st.finalized() {
			if h.grace && !final && st.relBurst == h.burst {
				// released in this very burst: one more burst before the verdict
				h.deferred = append(h.deferred, st)
				continue
			}
			h.releasedChecks++
			if !st.reported {
				st.reported = true
				h.fail("storage retains removed payload", "%s %d not finalized after 70 GC rounds (3 s); released at op %d by %s", st.what, st.id, st.relOp, st.relHow)
			}
		} else {
			h.releasedChecks++
		}
		delete(registry, st.id)
	}
}

// finish tears the world down in one of several ways and requires every
// tracked object to be collectable in the end.
func (h *hist) finish() {
	if !h.broken {
		h.op++
		mode := h.rng.Intn(4)
		h.guard("teardown", func() {
			switch mode {
			case 0:
				h.opName = "final World.Reset"
				h.w.Reset()
			case 1:
				h.opName = "final RemoveEntity of all"
				for _, i := range h.rng.Perm(len(h.ents)) {
					h.w.RemoveEntity(h.ents[i].e)
				}
			case 2:
				h.opName = "final Batch.RemoveEntities(All())"
				h.w.Batch().RemoveEntities(ecs.All())
			case 3:
				h.opName = "final drop of the world"
				h.w, gWorld = nil, nil
			}
		})
		for len(h.ents) > 0 {
			h.dropEntity(h.ents[len(h.ents)-1], h.opName)
		}
		runtime.GC()
		h.checkReleased(true)
	}
	// Drop the world: now nothing at all may survive.
	h.op++
	h.w, gWorld = nil, nil
	rest := []*objState{}
	for _, st := range registry {
		if !st.released {
			st.released = true
			st.relOp = h.op
			st.relHow = "drop of the world"
		}
		rest = append(rest, st)
	}
	if !h.broken {
		h.pending = rest
		h.checkReleased(true)
	}
	for id := range registry {
		delete(registry, id)
	}
}
