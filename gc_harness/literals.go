package main

import (
	"github.com/mlange-42/arche/ecs"
)

// "Non-escaping looking" call shapes: the component literal is written directly
// in the argument list of the library call. Whether the compiler puts the
// literal on the stack or on the heap is its own decision (see README); the
// payloads are always heap objects.

func litSet(w *ecs.World, e ecs.Entity, id ecs.ID, pl *plan) {
	switch pl.kind {
	case kPtr:
		w.Set(e, id, &PtrComp{P: newPayload(pl.pids[0])})
	case kSlice:
		w.Set(e, id, &SliceComp{S: mkSlice(pl)})
	case kMap:
		w.Set(e, id, &MapComp{M: mkMap(pl)})
	case kStr:
		w.Set(e, id, &StrComp{S: mkString(pl), P: newPayload(pl.pids[0])})
	case kMixed:
		w.Set(e, id, &Mixed{A: pl.x, P: newPayload(pl.pids[0]), B: mixedB(pl.x), Q: newPayload(pl.pids[1])})
	case kPlain:
		w.Set(e, id, &Plain{X: pl.x, Y: pl.y})
	case kTag:
		w.Set(e, id, &Tag{})
	case kChild:
		w.Set(e, id, &Child{P: newPayload(pl.pids[0])})
	case kArr:
		w.Set(e, id, mkArr(pl))
	case kStrOnly:
		w.Set(e, id, &StrOnly{S: mkString(pl), N: pl.x})
	case kBig:
		w.Set(e, id, mkBig(pl))
	}
}

func litAssign(w *ecs.World, e ecs.Entity, id ecs.ID, pl *plan) {
	switch pl.kind {
	case kPtr:
		w.Assign(e, ecs.Component{ID: id, Comp: &PtrComp{P: newPayload(pl.pids[0])}})
	case kSlice:
		w.Assign(e, ecs.Component{ID: id, Comp: &SliceComp{S: mkSlice(pl)}})
	case kMap:
		w.Assign(e, ecs.Component{ID: id, Comp: &MapComp{M: mkMap(pl)}})
	case kStr:
		w.Assign(e, ecs.Component{ID: id, Comp: &StrComp{S: mkString(pl), P: newPayload(pl.pids[0])}})
	case kMixed:
		w.Assign(e, ecs.Component{ID: id, Comp: &Mixed{A: pl.x, P: newPayload(pl.pids[0]), B: mixedB(pl.x), Q: newPayload(pl.pids[1])}})
	case kPlain:
		w.Assign(e, ecs.Component{ID: id, Comp: &Plain{X: pl.x, Y: pl.y}})
	case kTag:
		w.Assign(e, ecs.Component{ID: id, Comp: &Tag{}})
	case kChild:
		w.Assign(e, ecs.Component{ID: id, Comp: &Child{P: newPayload(pl.pids[0])}})
	case kArr:
		w.Assign(e, ecs.Component{ID: id, Comp: mkArr(pl)})
	case kStrOnly:
		w.Assign(e, ecs.Component{ID: id, Comp: &StrOnly{S: mkString(pl), N: pl.x}})
	case kBig:
		w.Assign(e, ecs.Component{ID: id, Comp: mkBig(pl)})
	}
}

func litNewWith(w *ecs.World, id ecs.ID, pl *plan) ecs.Entity {
	switch pl.kind {
	case kPtr:
		return w.NewEntityWith(ecs.Component{ID: id, Comp: &PtrComp{P: newPayload(pl.pids[0])}})
	case kSlice:
		return w.NewEntityWith(ecs.Component{ID: id, Comp: &SliceComp{S: mkSlice(pl)}})
	case kMap:
		return w.NewEntityWith(ecs.Component{ID: id, Comp: &MapComp{M: mkMap(pl)}})
	case kStr:
		return w.NewEntityWith(ecs.Component{ID: id, Comp: &StrComp{S: mkString(pl), P: newPayload(pl.pids[0])}})
	case kMixed:
		return w.NewEntityWith(ecs.Component{ID: id, Comp: &Mixed{A: pl.x, P: newPayload(pl.pids[0]), B: mixedB(pl.x), Q: newPayload(pl.pids[1])}})
	case kPlain:
		return w.NewEntityWith(ecs.Component{ID: id, Comp: &Plain{X: pl.x, Y: pl.y}})
	case kTag:
		return w.NewEntityWith(ecs.Component{ID: id, Comp: &Tag{}})
	case kChild:
		return w.NewEntityWith(ecs.Component{ID: id, Comp: &Child{P: newPayload(pl.pids[0])}})
	case kArr:
		return w.NewEntityWith(ecs.Component{ID: id, Comp: mkArr(pl)})
	case kStrOnly:
		return w.NewEntityWith(ecs.Component{ID: id, Comp: &StrOnly{S: mkString(pl), N: pl.x}})
	case kBig:
		return w.NewEntityWith(ecs.Component{ID: id, Comp: mkBig(pl)})
	}
	panic("bad kind")
}

// litBuilderNew: NewBuilderWith(literal).New(), for Child optionally with a relation target.
func litBuilderNew(w *ecs.World, id ecs.ID, pl *plan, withTarget bool, target ecs.Entity) ecs.Entity {
	switch pl.kind {
	case kPtr:
		return ecs.NewBuilderWith(w, ecs.Component{ID: id, Comp: &PtrComp{P: newPayload(pl.pids[0])}}).New()
	case kSlice:
		return ecs.NewBuilderWith(w, ecs.Component{ID: id, Comp: &SliceComp{S: mkSlice(pl)}}).New()
	case kMap:
		return ecs.NewBuilderWith(w, ecs.Component{ID: id, Comp: &MapComp{M: mkMap(pl)}}).New()
	case kStr:
		return ecs.NewBuilderWith(w, ecs.Component{ID: id, Comp: &StrComp{S: mkString(pl), P: newPayload(pl.pids[0])}}).New()
	case kMixed:
		return ecs.NewBuilderWith(w, ecs.Component{ID: id, Comp: &Mixed{A: pl.x, P: newPayload(pl.pids[0]), B: mixedB(pl.x), Q: newPayload(pl.pids[1])}}).New()
	case kPlain:
		return ecs.NewBuilderWith(w, ecs.Component{ID: id, Comp: &Plain{X: pl.x, Y: pl.y}}).New()
	case kTag:
		return ecs.NewBuilderWith(w, ecs.Component{ID: id, Comp: &Tag{}}).New()
	case kChild:
		if withTarget {
			return ecs.NewBuilderWith(w, ecs.Component{ID: id, Comp: &Child{P: newPayload(pl.pids[0])}}).WithRelation(id).New(target)
		}
		return ecs.NewBuilderWith(w, ecs.Component{ID: id, Comp: &Child{P: newPayload(pl.pids[0])}}).New()
	case kArr:
		return ecs.NewBuilderWith(w, ecs.Component{ID: id, Comp: mkArr(pl)}).New()
	case kStrOnly:
		return ecs.NewBuilderWith(w, ecs.Component{ID: id, Comp: &StrOnly{S: mkString(pl), N: pl.x}}).New()
	case kBig:
		return ecs.NewBuilderWith(w, ecs.Component{ID: id, Comp: mkBig(pl)}).New()
	}
	panic("bad kind")
}

// Fixed multi-component combinations for literal call shapes.
var combos = [][]int{
	{kPtr, kMixed},
	{kSlice, kStr, kPlain},
	{kChild, kMap},
}

func litNewWithCombo(w *ecs.World, cid *[nKinds]ecs.ID, combo int, p []*plan) ecs.Entity {
	switch combo {
	case 0:
		return w.NewEntityWith(
			ecs.Component{ID: cid[kPtr], Comp: &PtrComp{P: newPayload(p[0].pids[0])}},
			ecs.Component{ID: cid[kMixed], Comp: &Mixed{A: p[1].x, P: newPayload(p[1].pids[0]), B: mixedB(p[1].x), Q: newPayload(p[1].pids[1])}},
		)
	case 1:
		return w.NewEntityWith(
			ecs.Component{ID: cid[kSlice], Comp: &SliceComp{S: mkSlice(p[0])}},
			ecs.Component{ID: cid[kStr], Comp: &StrComp{S: mkString(p[1]), P: newPayload(p[1].pids[0])}},
			ecs.Component{ID: cid[kPlain], Comp: &Plain{X: p[2].x, Y: p[2].y}},
		)
	case 2:
		return w.NewEntityWith(
			ecs.Component{ID: cid[kChild], Comp: &Child{P: newPayload(p[0].pids[0])}},
			ecs.Component{ID: cid[kMap], Comp: &MapComp{M: mkMap(p[1])}},
		)
	}
	panic("bad combo")
}

func litAssignCombo(w *ecs.World, e ecs.Entity, cid *[nKinds]ecs.ID, combo int, p []*plan) {
	switch combo {
	case 0:
		w.Assign(e,
			ecs.Component{ID: cid[kPtr], Comp: &PtrComp{P: newPayload(p[0].pids[0])}},
			ecs.Component{ID: cid[kMixed], Comp: &Mixed{A: p[1].x, P: newPayload(p[1].pids[0]), B: mixedB(p[1].x), Q: newPayload(p[1].pids[1])}},
		)
	case 1:
		w.Assign(e,
			ecs.Component{ID: cid[kSlice], Comp: &SliceComp{S: mkSlice(p[0])}},
			ecs.Component{ID: cid[kStr], Comp: &StrComp{S: mkString(p[1]), P: newPayload(p[1].pids[0])}},
			ecs.Component{ID: cid[kPlain], Comp: &Plain{X: p[2].x, Y: p[2].y}},
		)
	case 2:
		w.Assign(e,
			ecs.Component{ID: cid[kChild], Comp: &Child{P: newPayload(p[0].pids[0])}},
			ecs.Component{ID: cid[kMap], Comp: &MapComp{M: mkMap(p[1])}},
		)
	default:
		panic("bad combo")
	}
}

// litBuilderCombo returns a builder with literal component values (the builder
// keeps the values, so these literals do escape; kept for call-shape variety).
func litBuilderCombo(w *ecs.World, cid *[nKinds]ecs.ID, combo int, p []*plan) *ecs.Builder {
	switch combo {
	case 0:
		return ecs.NewBuilderWith(w,
			ecs.Component{ID: cid[kPtr], Comp: &PtrComp{P: newPayload(p[0].pids[0])}},
			ecs.Component{ID: cid[kMixed], Comp: &Mixed{A: p[1].x, P: newPayload(p[1].pids[0]), B: mixedB(p[1].x), Q: newPayload(p[1].pids[1])}},
		)
	case 1:
		return ecs.NewBuilderWith(w,
			ecs.Component{ID: cid[kSlice], Comp: &SliceComp{S: mkSlice(p[0])}},
			ecs.Component{ID: cid[kStr], Comp: &StrComp{S: mkString(p[1]), P: newPayload(p[1].pids[0])}},
			ecs.Component{ID: cid[kPlain], Comp: &Plain{X: p[2].x, Y: p[2].y}},
		)
	case 2:
		return ecs.NewBuilderWith(w,
			ecs.Component{ID: cid[kChild], Comp: &Child{P: newPayload(p[0].pids[0])}},
			ecs.Component{ID: cid[kMap], Comp: &MapComp{M: mkMap(p[1])}},
		).WithRelation(cid[kChild])
	}
	panic("bad combo")
}
