// gc_harness stress-tests arche's component storage under garbage collection
// (property C14): payloads referenced only from components must stay alive and
// intact while the component exists, and must become collectable afterwards.
package main

import (
	"bufio"
	"bytes"
	"context"
	"flag"
	"fmt"
	"math/rand"
	"os"
	"os/exec"
	"runtime"
	"strings"
	"sync"
	"time"

	"github.com/mlange-42/arche/ecs"
)

type options struct {
	seed        int64
	n           int
	length      int
	gcGoroutine bool
	inproc      bool
	child       int
	capInc      int
	grace       bool
	scenario    int
	directed    string
}

func main() {
	var o options
	flag.Int64Var(&o.seed, "seed", 1, "random seed")
	flag.IntVar(&o.n, "n", 30, "number of histories")
	flag.IntVar(&o.length, "len", 150, "operations per history")
	flag.BoolVar(&o.gcGoroutine, "gcgoroutine", false, "run runtime.GC() in a tight loop on a background goroutine")
	flag.BoolVar(&o.inproc, "inproc", false, "run all histories in this process (no crash isolation)")
	flag.IntVar(&o.child, "child", -1, "internal: run only the history with this index")
	flag.IntVar(&o.capInc, "capinc", 0, "capacity increment (0: random from 1, 2, 4 per history)")
	flag.BoolVar(&o.grace, "grace", false, "give payloads released in the current burst one more burst before requiring finalization")
	flag.IntVar(&o.scenario, "scenario", -1, "internal: with -child, run this directed scenario instead of a random history")
	flag.StringVar(&o.directed, "directed", "auto", "run the directed scenarios after the random histories: on, off, auto (= only with -gcgoroutine)")
	flag.Parse()

	if o.child >= 0 {
		s := runHistory(&o, o.child)
		fmt.Printf("HSUM ops=%d live_checks=%d released_checks=%d fails=%d\n", s.ops, s.live, s.released, s.fails)
		return
	}

	total := sums{}
	for i := 0; i < o.n; i++ {
		var s sums
		if o.inproc {
			s = runHistory(&o, i)
		} else {
			s = runChild(&o, i)
		}
		total.add(s)
	}
	if o.directed == "on" || (o.directed == "auto" && o.gcGoroutine) {
		d := sums{}
		for k := range scenarioNames {
			o.scenario = k
			var s sums
			if o.inproc {
				s = runHistory(&o, o.n+k)
			} else {
				s = runChild(&o, o.n+k)
			}
			d.add(s)
		}
		o.scenario = -1
		fmt.Printf("DIRECTED scenarios=%d ops=%d live_checks=%d released_checks=%d fails=%d\n",
			len(scenarioNames), d.ops, d.live, d.released, d.fails)
		total.add(d)
	}
	fmt.Printf("SUMMARY histories=%d ops=%d live_checks=%d released_checks=%d fails=%d\n",
		o.n, total.ops, total.live, total.released, total.fails)
}

type sums struct{ ops, live, released, fails int }

func (s *sums) add(o sums) {
	s.ops += o.ops
	s.live += o.live
	s.released += o.released
	s.fails += o.fails
}

// runChild runs one history in a child process, so that a fatal runtime error
// (e.g. "found pointer to free object") is reported instead of killing the run.
func runChild(o *options, i int) sums {
	exe, err := os.Executable()
	if err != nil {
		fmt.Printf("FAIL history=%d op=0 harness error: %v\n", i, err)
		return sums{fails: 1}
	}
	args := []string{
		"-child", fmt.Sprint(i), "-seed", fmt.Sprint(o.seed), "-len", fmt.Sprint(o.length),
		"-capinc", fmt.Sprint(o.capInc), "-scenario", fmt.Sprint(o.scenario),
		fmt.Sprintf("-gcgoroutine=%v", o.gcGoroutine), fmt.Sprintf("-grace=%v", o.grace),
	}
	ctx, cancel := context.WithTimeout(context.Background(), 120*time.Second)
	defer cancel()
	cmd := exec.CommandContext(ctx, exe, args...)
	var stdout, stderr bytes.Buffer
	cmd.Stdout, cmd.Stderr = &stdout, &stderr
	runErr := cmd.Run()

	s := sums{}
	got := false
	fails := 0
	sc := bufio.NewScanner(&stdout)
	sc.Buffer(make([]byte, 1<<20), 1<<20)
	for sc.Scan() {
		line := sc.Text()
		switch {
		case strings.HasPrefix(line, "FAIL "):
			fmt.Println(line)
			fails++
		case strings.HasPrefix(line, "HSUM "):
			fmt.Sscanf(line, "HSUM ops=%d live_checks=%d released_checks=%d fails=%d", &s.ops, &s.live, &s.released, &s.fails)
			got = true
		}
	}
	if !got || runErr != nil {
		msg := firstLines(stderr.String(), 3)
		if ctx.Err() != nil {
			msg = "timeout; " + msg
		}
		fmt.Printf("FAIL history=%d op=? runtime crash: child process died (%v): %s\n", i, runErr, msg)
		s.fails = fails + 1
	}
	return s
}

func firstLines(s string, n int) string {
	lines := []string{}
	for _, l := range strings.Split(s, "\n") {
		l = strings.TrimSpace(l)
		if l == "" {
			continue
		}
		lines = append(lines, l)
		if len(lines) == n {
			break
		}
	}
	return strings.Join(lines, " | ")
}

func runHistory(o *options, idx int) sums {
	rng := rand.New(rand.NewSource(o.seed*1000003 + int64(idx)*7919 + 17))
	h := &hist{
		idx:      idx,
		rng:      rng,
		out:      os.Stdout,
		by:       map[ecs.Entity]*ent{},
		reported: map[string]bool{},
		nextID:   int64(idx) * 10000000,
		grace:    o.grace,
	}
	h.capInc = o.capInc
	if h.capInc <= 0 {
		h.capInc = []int{1, 2, 4}[rng.Intn(3)]
		switch o.scenario {
		case 0:
			h.capInc = 1
		case 1:
			h.capInc = 1024
		}
	}
	if o.scenario >= 0 {
		h.scen = " scenario=" + scenarioNames[o.scenario]
	}

	var stop chan struct{}
	var wg sync.WaitGroup
	if o.gcGoroutine {
		stop = make(chan struct{})
		wg.Add(1)
		go func() {
			defer wg.Done()
			for {
				select {
				case <-stop:
					return
				default:
				}
				runtime.GC()
				time.Sleep(10 * time.Microsecond)
			}
		}()
	}

	ok := h.guard("world setup", func() {
		cfg := ecs.NewConfig().WithCapacityIncrement(h.capInc)
		if rng.Intn(2) == 0 {
			cfg = cfg.WithRelationCapacityIncrement([]int{1, 2, 4}[rng.Intn(3)])
		}
		w := ecs.NewWorld(cfg)
		h.w = &w
		gWorld = h.w
		// Register the component types in a random order (varies ids and column order).
		for _, k := range rng.Perm(nKinds) {
			switch k {
			case kPtr:
				h.cid[k] = ecs.ComponentID[PtrComp](h.w)
			case kSlice:
				h.cid[k] = ecs.ComponentID[SliceComp](h.w)
			case kMap:
				h.cid[k] = ecs.ComponentID[MapComp](h.w)
			case kStr:
				h.cid[k] = ecs.ComponentID[StrComp](h.w)
			case kMixed:
				h.cid[k] = ecs.ComponentID[Mixed](h.w)
			case kPlain:
				h.cid[k] = ecs.ComponentID[Plain](h.w)
			case kTag:
				h.cid[k] = ecs.ComponentID[Tag](h.w)
			case kChild:
				h.cid[k] = ecs.ComponentID[Child](h.w)
			case kArr:
				h.cid[k] = ecs.ComponentID[ArrComp](h.w)
			case kStrOnly:
				h.cid[k] = ecs.ComponentID[StrOnly](h.w)
			case kBig:
				h.cid[k] = ecs.ComponentID[BigComp](h.w)
			}
		}
	})
	_ = ok

	if o.scenario >= 0 && !h.broken {
		h.runScenario(o.scenario)
	}
	for o.scenario < 0 && !h.broken && h.op < o.length {
		burst := 6 + rng.Intn(9)
		for i := 0; i < burst && !h.broken && h.op < o.length; i++ {
			h.step()
		}
		if !h.broken {
			h.checkBurst()
		}
	}
	h.finish()

	if h.suppressed > 0 {
		fmt.Fprintf(h.out, "FAIL history=%d op=%d suppressed:%s %d further failures not shown\n", h.idx, h.op, h.scen, h.suppressed)
	}
	if stop != nil {
		close(stop)
		wg.Wait()
	}
	return sums{ops: h.ops, live: h.liveChecks, released: h.releasedChecks, fails: h.fails}
}
