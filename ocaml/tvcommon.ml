(* tvcommon.ml: shared part of the translator-validation drivers (textually included after
   `open Gm_<structure>`): numbers, outcomes, the replay loop and the command line. *)
let rec pos_of_int i =
  if i = 1 then XH else if i land 1 = 0 then XO (pos_of_int (i lsr 1)) else XI (pos_of_int (i lsr 1))
let n_of_int i = if i = 0 then N0 else Npos (pos_of_int i)
let rec int_of_pos = function XH -> 1 | XO p -> 2 * int_of_pos p | XI p -> 2 * int_of_pos p + 1
let int_of_n = function N0 -> 0 | Npos p -> int_of_pos p

(* 64-bit words travel as hex strings *)
let n_of_hex (s : string) : n =
  let bits = ref [] in
  String.iter (fun c ->
    let v = int_of_string ("0x" ^ String.make 1 c) in
    bits := (v land 1 = 1) :: (v land 2 = 2) :: (v land 4 = 4) :: (v land 8 = 8) :: !bits) s;
  (* !bits: least significant first *)
  let rec build = function
    | [] -> None
    | b :: r ->
      (match build r with
       | None -> if b then Some XH else None
       | Some p -> Some (if b then XI p else XO p))
  in
  match build !bits with None -> N0 | Some p -> Npos p

let hex_of_n (x : n) : string =
  match x with
  | N0 -> "0"
  | Npos p ->
    let rec bits = function XH -> [true] | XO q -> false :: bits q | XI q -> true :: bits q in
    let bs = Array.of_list (bits p) in
    let len = Array.length bs in
    let nd = (len + 3) / 4 in
    let buf = Buffer.create nd in
    for d = nd - 1 downto 0 do
      let v = ref 0 in
      for k = 3 downto 0 do
        let i = 4 * d + k in
        v := 2 * !v + (if i < len && bs.(i) then 1 else 0)
      done;
      Buffer.add_string buf (Printf.sprintf "%x" !v)
    done;
    Buffer.contents buf

let dec (x : n) = string_of_int (int_of_n x)


let outcome (r : 'a res) (k : 'a -> 'b * string) (dead : 'b) : 'b * string =
  match r with
  | Ret a -> k a
  | Panicked -> (dead, "panic")
  | Outside -> (dead, "outside")

let ints l = "[" ^ String.concat "," (List.map string_of_int l) ^ "]"
let rec nat_of_int i = if i <= 0 then O else S (nat_of_int (i - 1))
let rec int_of_nat = function O -> 0 | S k -> 1 + int_of_nat k
let show_res f = function Ret a -> f a | Panicked -> "panic" | Outside -> "outside"

(* replay of the histories of one structure kind out of tv_harness's trace:
   init : the text after "H <kind>" -> initial state (None: dead);
   step : state -> tokens of the call -> (state option, printed result) *)
let replay (kind : string) (init : string list -> 'st option) (step : 'st -> string list -> 'st option * string) =
  let hist = ref 0 and line = ref 0 and calls = ref 0 and mism = ref 0 and outside = ref 0 in
  let st = ref None and mine = ref false and reported = ref false in
  (try
     while true do
       let l = input_line stdin in
       incr line;
       match String.split_on_char ' ' (String.trim l) with
       | "H" :: k :: rest ->
         mine := (k = kind);
         if !mine then (incr hist; reported := false; st := init rest)
       | toks when !mine ->
         let rec split acc = function
           | "=>" :: r -> (List.rev acc, String.concat " " r)
           | x :: r -> split (x :: acc) r
           | [] -> (List.rev acc, "")
         in
         let op, want = split [] toks in
         incr calls;
         let got = (match !st with
             | None -> "dead"
             | Some s -> let (s', g) = step s op in st := s'; g) in
         if got = "outside" then incr outside;
         if String.trim got <> String.trim want && not !reported then begin
           incr mism; reported := true;
           Printf.printf "MISMATCH history=%d line=%d structure=%s call=%s go=%s translated=%s\n"
             !hist !line kind (String.concat " " op) want got
         end
       | _ -> ()
     done
   with End_of_file -> ());
  Printf.printf "SUMMARY structure=%s histories=%d calls=%d mismatches=%d outside=%d\n" kind !hist !calls !mism !outside

let found = ref 0
let report structure hist call code model =
  if !found < 5 then
    Printf.printf "SPECMISMATCH structure=%s call=%s code=%s model=%s history=%s\n" structure call code model
      (String.concat ";" (List.rev hist));
  incr found

let main kind init step (spec : unit -> unit) =
  match Array.to_list Sys.argv with
  | [ _; "spec"; seed; n ] ->
    Random.init (int_of_string seed);
    for _ = 1 to int_of_string n do spec () done;
    Printf.printf "SPECSUMMARY structure=%s rounds=%s mismatches=%d\n" kind n !found
  | _ -> replay kind init step
