(* tv_lock64: lockMask + bitPool (Gen/GoLocks64.v, tiny build) against the real code / against Model.Pool *)
let i = int_of_string

let step (m : go_lockMask) toks : go_lockMask option * string =
  let k r f = outcome r f None in
  match toks with
  | [ "L" ] -> k (lockMask_Lock m) (fun (m', b) -> (Some m', "n " ^ dec b))
  | [ "U"; b ] -> k (lockMask_Unlock m (n_of_int (i b))) (fun m' -> (Some m', "ok"))
  | [ "Q" ] -> (Some m, if lockMask_IsLocked m then "b 1" else "b 0")
  | [ "X" ] -> (Some (lockMask_Reset m), "ok")
  | [ "D" ] ->
    let set = List.filter (fun k -> mask_Get m.lockMask_locks (n_of_int k)) (List.init 64 (fun k -> k)) in
    let bp = m.lockMask_bitPool in
    (Some m, "d " ^ dec bp.bitPool_length ^ " " ^ dec bp.bitPool_next ^ " " ^ dec bp.bitPool_available ^ " "
             ^ ints set ^ " " ^ ints (List.map int_of_n bp.bitPool_bits))
  | _ -> failwith ("tv_lock64: cannot parse " ^ String.concat " " toks)

let spec () =
  let g = ref zero_lockMask and l = ref (locks_init (nat_of_int 64)) and held = ref [] and hist = ref [] and dead = ref false in
  let fill = Random.int 3 = 0 in
  let k = ref 0 in
  while not !dead && !k < 700 do
    incr k;
    let r = if fill && Random.int 100 < 85 then 0 else Random.int 100 in
    if r < 50 then begin
      hist := "L" :: !hist;
      let want = (match locks_lock (nat_of_int 64) !l with Some (_, b) -> "n " ^ string_of_int (int_of_nat b) | None -> "panic") in
      let got = show_res (fun (_, b) -> "n " ^ dec b) (lockMask_Lock !g) in
      if got <> want then (report "lockMask" !hist "Lock" got want; dead := true)
      else (match lockMask_Lock !g, locks_lock (nat_of_int 64) !l with
          | Ret (g', b), Some (l', _) -> g := g'; l := l'; held := int_of_n b :: !held
          | _ -> dead := true)
    end else if r < 85 && !held <> [] then begin
      let b = List.nth !held (Random.int (List.length !held)) in
      hist := Printf.sprintf "U %d" b :: !hist;
      (match lockMask_Unlock !g (n_of_int b), locks_unlock !l (nat_of_int b) with
       | Ret g', Some l' -> g := g'; l := l'; held := List.filter (fun x -> x <> b) !held
       | r, m -> report "lockMask" !hist "Unlock" (show_res (fun _ -> "ok") r) (if m = None then "panic" else "ok"); dead := true)
    end else if r < 90 then begin
      let b = Random.int 64 in
      hist := Printf.sprintf "U %d" b :: !hist;
      let want = (match locks_unlock !l (nat_of_int b) with Some _ -> "ok" | None -> "panic") in
      let got = show_res (fun _ -> "ok") (lockMask_Unlock !g (n_of_int b)) in
      if got <> want then (report "lockMask" !hist "Unlock" got want; dead := true)
      else if got = "panic" then dead := true
      else (match lockMask_Unlock !g (n_of_int b), locks_unlock !l (nat_of_int b) with
          | Ret g', Some l' -> g := g'; l := l'; held := List.filter (fun x -> x <> b) !held
          | _ -> dead := true)
    end else if r < 98 then begin
      hist := "Q" :: !hist;
      let got = lockMask_IsLocked !g and want = locks_locked !l in
      if got <> want then (report "lockMask" !hist "IsLocked" (string_of_bool got) (string_of_bool want); dead := true)
    end else begin
      hist := "X" :: !hist;
      g := lockMask_Reset !g; l := locks_init (nat_of_int 64); held := []
    end
  done

let () = main "lock" (fun _ -> Some zero_lockMask) step spec
