(* tv_res: the resource storage (Gen/GoResources.v) against the real code / against an
   array of optional values *)
let i = int_of_string
let show = function None -> "nil" | Some x -> dec x
let fresh () : go_Resources = s_make None (n_of_int 256) (n_of_int 256)

let step (r : go_Resources) toks : go_Resources option * string =
  let k x f = outcome x f None in
  match toks with
  | [ "A"; id; v ] -> k (resources_Add r (n_of_int (i id)) (Some (n_of_int (i v)))) (fun r' -> (Some r', "ok"))
  | [ "R"; id ] -> k (resources_Remove r (n_of_int (i id))) (fun r' -> (Some r', "ok"))
  | [ "G"; id ] -> k (resources_Get r (n_of_int (i id))) (fun x -> (Some r, "x " ^ show x))
  | [ "Q"; id ] -> k (resources_Has r (n_of_int (i id))) (fun b -> (Some r, if b then "b 1" else "b 0"))
  | [ "X" ] -> k (resources_reset r) (fun r' -> (Some r', "ok"))
  | [ "D" ] -> (Some r, "d " ^ String.concat "," (List.map show (resources_resources r).s_data))
  | _ -> failwith ("tv_res: cannot parse " ^ String.concat " " toks)

let spec () =
  let g = ref (fresh ()) and m = Array.make 256 None and hist = ref [] and dead = ref false in
  let k = ref 0 and next = ref 0 in
  while not !dead && !k < 150 do
    incr k;
    let id = if Random.int 3 = 0 then Random.int 256 else List.nth [ 0; 1; 2; 255 ] (Random.int 4) in
    let r = Random.int 100 in
    if r < 35 then begin
      incr next;
      hist := Printf.sprintf "A %d %d" id !next :: !hist;
      let want = if m.(id) = None then "ok" else "panic" in
      (match resources_Add !g (n_of_int id) (Some (n_of_int !next)) with
       | Ret g' when want = "ok" -> g := g'; m.(id) <- Some !next
       | Panicked when want = "panic" -> dead := true
       | x -> report "Resources" !hist "Add" (show_res (fun _ -> "ok") x) want; dead := true)
    end else if r < 60 then begin
      hist := Printf.sprintf "R %d" id :: !hist;
      let want = if m.(id) = None then "panic" else "ok" in
      (match resources_Remove !g (n_of_int id) with
       | Ret g' when want = "ok" -> g := g'; m.(id) <- None
       | Panicked when want = "panic" -> dead := true
       | x -> report "Resources" !hist "Remove" (show_res (fun _ -> "ok") x) want; dead := true)
    end else if r < 78 then begin
      hist := Printf.sprintf "G %d" id :: !hist;
      let want = (match m.(id) with None -> "nil" | Some v -> string_of_int v) in
      let got = show_res show (resources_Get !g (n_of_int id)) in
      if got <> want then (report "Resources" !hist "Get" got want; dead := true)
    end else if r < 95 then begin
      hist := Printf.sprintf "Q %d" id :: !hist;
      let want = string_of_bool (m.(id) <> None) in
      let got = show_res string_of_bool (resources_Has !g (n_of_int id)) in
      if got <> want then (report "Resources" !hist "Has" got want; dead := true)
    end else begin
      hist := "X" :: !hist;
      (match resources_reset !g with
       | Ret g' -> g := g'; Array.fill m 0 256 None
       | x -> report "Resources" !hist "reset" (show_res (fun _ -> "ok") x) "ok"; dead := true)
    end
  done

let () = main "res" (fun _ -> Some (fresh ())) step spec
