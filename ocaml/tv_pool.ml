(* tv_pool: entityPool (Gen/GoEntityPool.v) against the real code / against Model.Pool *)
let ent id gen = { entity_id = n_of_int id; entity_gen = n_of_int gen }
let i = int_of_string

let init _ = None (* the first call is N <inc> *)
let inc_of = ref "0"

let step_pool (p : go_entityPool) toks : go_entityPool option * string =
  let k r f = outcome r f None in
  match toks with
  | [ "G" ] -> k (entityPool_Get p) (fun (p', e) -> (Some p', "e " ^ dec e.entity_id ^ " " ^ dec e.entity_gen))
  | [ "R"; id; gen ] -> k (entityPool_Recycle p (ent (i id) (i gen))) (fun p' -> (Some p', "ok"))
  | [ "A"; id; gen ] -> k (entityPool_Alive p (ent (i id) (i gen))) (fun b -> (Some p, if b then "b 1" else "b 0"))
  | [ "X" ] -> k (entityPool_Reset p) (fun p' -> (Some p', "ok"))
  | [ "D" ] ->
    let es = List.map (fun e -> dec e.entity_id ^ ":" ^ dec e.entity_gen) p.entityPool_entities.s_data in
    (Some p, "d " ^ dec p.entityPool_next ^ " " ^ dec p.entityPool_available ^ " " ^ dec p.entityPool_entities.s_cap
             ^ " " ^ String.concat "," es)
  | _ -> failwith ("tv_pool: cannot parse " ^ String.concat " " toks)

(* the state is created by the first call of a history *)
type st = Fresh of string | Pool of go_entityPool

let spec () =
  let inc = 1 + Random.int 8 in
  match go_newEntityPool (n_of_int inc) with
  | Ret g0 ->
    let g = ref g0 and p = ref pool_init and live = ref [] and known = ref [] and hist = ref [] and dead = ref false in
    let k = ref 0 in
    while not !dead && !k < 150 do
      incr k;
      let r = Random.int 100 in
      if r < 45 || !live = [] then begin
        hist := "G" :: !hist;
        let (p', e) = pool_get !p in
        let want = Printf.sprintf "e %d %s" (int_of_nat e.eid) (dec e.egen) in
        let got = show_res (fun (_, (x : go_Entity)) -> "e " ^ dec x.entity_id ^ " " ^ dec x.entity_gen) (entityPool_Get !g) in
        if got <> want then (report "entityPool" !hist "Get" got want; dead := true)
        else begin
          (match entityPool_Get !g with Ret (g', _) -> g := g' | _ -> ());
          p := p'; live := e :: !live; known := e :: !known
        end
      end else if r < 75 then begin
        let e = List.nth !live (Random.int (List.length !live)) in
        hist := Printf.sprintf "R %d %s" (int_of_nat e.eid) (dec e.egen) :: !hist;
        (match entityPool_Recycle !g { entity_id = n_of_int (int_of_nat e.eid); entity_gen = e.egen } with
         | Ret g' -> g := g'; p := pool_recycle !p e; live := List.filter (fun x -> x <> e) !live
         | r -> report "entityPool" !hist "Recycle" (show_res (fun _ -> "ok") r) "ok"; dead := true)
      end else if r < 97 then begin
        let e = List.nth !known (Random.int (List.length !known)) in
        hist := Printf.sprintf "A %d %s" (int_of_nat e.eid) (dec e.egen) :: !hist;
        let want = (match pool_alive_opt !p e with Some true -> "b 1" | Some false -> "b 0" | None -> "panic") in
        let got = show_res (fun b -> if b then "b 1" else "b 0")
            (entityPool_Alive !g { entity_id = n_of_int (int_of_nat e.eid); entity_gen = e.egen }) in
        if got <> want then (report "entityPool" !hist "Alive" got want; dead := true)
      end else begin
        (* Reset: the model starts over from pool_init; handles issued before must be dead *)
        hist := "X" :: !hist;
        (match entityPool_Reset !g with
         | Ret g' ->
           g := g'; p := pool_init; live := [];
           let z = show_res (fun b -> if b then "b 1" else "b 0") (entityPool_Alive !g { entity_id = N0; entity_gen = N0 }) in
           if z <> "b 0" then (report "entityPool" !hist "Alive(zero entity) after Reset" z "b 0"; dead := true);
           known := []
         | r -> report "entityPool" !hist "Reset" (show_res (fun _ -> "ok") r) "ok"; dead := true)
      end
    done
  | r -> report "entityPool" [] "newEntityPool" (show_res (fun _ -> "ok") r) "ok"

let () =
  main "pool"
    (fun rest -> Some (Fresh (match rest with x :: _ -> x | [] -> "0")))
    (fun st toks ->
       match st, toks with
       | Fresh inc, [ "N" ] ->
         outcome (go_newEntityPool (n_of_int (i inc))) (fun p -> (Some (Pool p), "ok")) None
       | Pool p, _ -> let (p', g) = step_pool p toks in ((match p' with Some x -> Some (Pool x) | None -> None), g)
       | _ -> failwith "tv_pool: call before N")
    spec
