(* Correspondence driver: replays the OP lines of a trace through the model extracted
   from Coq (model.ml) and prints the model's observations in the same canonical form
   the Go harness prints the implementation's.  No logic of its own beyond parsing,
   slot bookkeeping and printing. *)
open Model

(* ---- conversions between OCaml ints and the extracted inductive numbers ---- *)
let rec nat_of_int i = if i <= 0 then O else S (nat_of_int (i - 1))
let rec int_of_nat = function O -> 0 | S n -> 1 + int_of_nat n
let rec pos_of_int i =
  if i <= 1 then XH else if i land 1 = 1 then XI (pos_of_int (i lsr 1)) else XO (pos_of_int (i lsr 1))
let rec int_of_pos = function XH -> 1 | XO p -> 2 * int_of_pos p | XI p -> 2 * int_of_pos p + 1
let n_of_int i = if i = 0 then N0 else Npos (pos_of_int i)
let int_of_n = function N0 -> 0 | Npos p -> int_of_pos p
let z_of_int i = if i = 0 then Z0 else if i > 0 then Zpos (pos_of_int i) else Zneg (pos_of_int (-i))
let int_of_z = function Z0 -> 0 | Zpos p -> int_of_pos p | Zneg p -> - (int_of_pos p)

(* ---- per-world bookkeeping ---- *)
type wstate = {
  mutable w : world;
  mutable slots : entity array;       (* slot -> handle; slot 0 is the zero entity *)
  mutable nslots : int;
  rev : (int * int, int) Hashtbl.t;   (* (id, gen) -> newest slot *)
  mutable dead : bool;                (* model said Undef: stop reporting this world *)
  tb : int;
}

let worlds : (int, wstate) Hashtbl.t = Hashtbl.create 8
let dumps : (int, dump) Hashtbl.t = Hashtbl.create 8
let ndumps = ref 0

let zero_ent = { eid = O; egen = N0 }

let add_slot ws e =
  if ws.nslots >= Array.length ws.slots then begin
    let a = Array.make (2 * Array.length ws.slots) zero_ent in
    Array.blit ws.slots 0 a 0 ws.nslots; ws.slots <- a
  end;
  ws.slots.(ws.nslots) <- e;
  Hashtbl.replace ws.rev (int_of_nat e.eid, int_of_n e.egen) ws.nslots;
  ws.nslots <- ws.nslots + 1;
  ws.nslots - 1

let slot_of ws e =
  if int_of_nat e.eid = 0 then "s0"
  else match Hashtbl.find_opt ws.rev (int_of_nat e.eid, int_of_n e.egen) with
    | Some s -> "s" ^ string_of_int s
    | None -> Printf.sprintf "u%d.%d" (int_of_nat e.eid) (int_of_n e.egen)

let ent_of ws tok =
  (* "s<k>" *)
  let k = int_of_string (String.sub tok 1 (String.length tok - 1)) in
  if k = 0 then zero_ent else if k < ws.nslots then ws.slots.(k) else failwith ("unknown slot " ^ tok)

(* ---- token helpers ---- *)
let ints tok = if tok = "-" || tok = "" then [] else List.map int_of_string (String.split_on_char ',' tok)
let nats tok = List.map nat_of_int (ints tok)
let mask tok = mask_of (nats tok)
let pairs tok =
  if tok = "-" || tok = "" then [] else
    List.map (fun s -> match String.split_on_char '=' s with
        | [a; b] -> (nat_of_int (int_of_string a), z_of_int (int_of_string b))
        | _ -> failwith ("bad pair " ^ s)) (String.split_on_char ',' tok)
let opt_ent ws tok = if tok = "-" then None else Some (ent_of ws tok)
let opt_nat tok = if tok = "-" then None else Some (nat_of_int (int_of_string tok))

let rec parse_filter ws toks : fexpr * string list =
  match toks with
  | "A" :: ids :: r -> (FAll (mask ids), r)
  | "M" :: inc :: exc :: r -> (FMask (mask inc, mask exc), r)
  | "X" :: ids :: r -> let m = mask ids in (FMask (m, mask_not (nat_of_int ws.tb) m), r)
  | "ANY" :: ids :: r -> (FAny (mask ids), r)
  | "NONE" :: ids :: r -> (FNoneOf (mask ids), r)
  | "ANYNOT" :: ids :: r -> (FAnyNot (mask ids), r)
  | "AND" :: r -> let (a, r1) = parse_filter ws r in let (b, r2) = parse_filter ws r1 in (FAnd (a, b), r2)
  | "OR" :: r -> let (a, r1) = parse_filter ws r in let (b, r2) = parse_filter ws r1 in (FOr (a, b), r2)
  | "XOR" :: r -> let (a, r1) = parse_filter ws r in let (b, r2) = parse_filter ws r1 in (FXor (a, b), r2)
  | "NOT" :: r -> let (a, r1) = parse_filter ws r in (FNot a, r1)
  | "R" :: r -> let (a, r1) = parse_filter ws r in
    (match r1 with t :: r2 -> (FRel (a, ent_of ws t), r2) | [] -> failwith "R: missing target")
  | t :: _ -> failwith ("bad filter token " ^ t)
  | [] -> failwith "empty filter"

let parse_farg ws toks : farg =
  match toks with
  | "C" :: k :: _ -> FCached (nat_of_int (int_of_string k))
  | _ -> FPlain (fst (parse_filter ws toks))

let parse_bspec ids vals rel : bspec =
  { b_ids = nats ids;
    b_vals = (if vals = "-" then None else Some (List.map z_of_int (ints vals)));
    b_rel = opt_nat rel }

(* ---- printing ---- *)
let str_ids l = if l = [] then "-" else String.concat "," (List.map (fun i -> string_of_int (int_of_nat i)) l)
let str_ids_sorted l =
  let l = List.sort compare (List.map int_of_nat l) in
  if l = [] then "-" else String.concat "," (List.map string_of_int l)
let str_mask ws m = str_ids (mask_ids (nat_of_int ws.tb) m)
let str_optnat = function None -> "-" | Some i -> string_of_int (int_of_nat i)

let str_event ws (e : event) =
  Printf.sprintf "e=%s add=%s rem=%s aids=%s rids=%s orel=%s nrel=%s otg=%s types=%d locked=%d to=%d"
    (slot_of ws e.ev_ent) (str_mask ws e.ev_added) (str_mask ws e.ev_removed)
    (str_ids_sorted e.ev_added_ids) (str_ids_sorted e.ev_removed_ids)
    (str_optnat e.ev_oldrel) (str_optnat e.ev_newrel) (slot_of ws e.ev_oldtarget)
    (int_of_n e.ev_types) (if e.ev_locked then 1 else 0) (int_of_nat e.ev_to)

let str_view ws m vals target =
  Printf.sprintf "v %s | %s | %s" (str_mask ws m)
    (if vals = [] then "-" else
       String.concat "," (List.map (fun (i, v) -> Printf.sprintf "%d=%d" (int_of_nat i) (int_of_z v)) vals))
    (match target with None -> "-" | Some t -> slot_of ws t)

(* creation results allocate slots *)
let new_slots ws es =
  let first = ws.nslots in
  List.iter (fun e -> ignore (add_slot ws e)) es;
  Printf.sprintf "es %d s%d" (List.length es) first

let str_value ws ~(creates : bool) (v : value) : string =
  match v with
  | VUnit -> "ok"
  | VBool b -> if b then "b 1" else "b 0"
  | VNat n -> "n " ^ string_of_int (int_of_nat n)
  | VEnt e -> if creates then "e s" ^ string_of_int (add_slot ws e) else "e " ^ slot_of ws e
  | VEnts es -> new_slots ws es
  | VOptZ None -> "z nil"
  | VOptZ (Some z) -> "z " ^ string_of_int (int_of_z z)
  | VMask m -> "m " ^ str_mask ws m
  | VIds l -> "m " ^ str_ids l
  | VView (m, vals, t) -> str_view ws m vals t
  | VDump (_, alive, _, _) ->
    (* alive ids as sorted slots *)
    let sl = List.sort compare (List.map (fun i ->
        let i = int_of_nat i in
        let e = List.nth ws.w.w_pool.p_ents i in
        match Hashtbl.find_opt ws.rev (i, int_of_n (snd e)) with Some s -> s | None -> -1) alive) in
    "dump " ^ (if sl = [] then "-" else String.concat "," (List.map string_of_int sl))

(* ---- one line ---- *)
let out = Buffer.create (1 lsl 20)

let emit_result idx ws ((w', o), evs) ~creates =
  ws.w <- w';
  (* the result line first: it assigns the slots the events refer to *)
  let rs = (match o with Ok v -> Some (str_value ws ~creates v) | _ -> None) in
  let evl = List.sort compare (List.map (str_event ws) evs) in
  (match o with
   | Ok _ -> Buffer.add_string out (Printf.sprintf "R %s %s\n" idx (Option.get rs))
   | Panic -> Buffer.add_string out (Printf.sprintf "R %s panic\n" idx)
   | Undef -> Buffer.add_string out (Printf.sprintf "R %s panic-undef\n" idx); ws.dead <- true);
  List.iter (fun s -> Buffer.add_string out (Printf.sprintf "EV %s %s\n" idx s)) evl

let run_op idx ws (o : op) ~creates = emit_result idx ws (step ws.w o) ~creates

let handle_line line =
  let toks = List.filter (fun s -> s <> "") (String.split_on_char ' ' (String.trim line)) in
  match toks with
  | [] -> ()
  | t :: _ when String.length t > 0 && t.[0] = '#' -> ()
  | idx :: wtok :: cmd :: args ->
    let wk = int_of_string (String.sub wtok 1 (String.length wtok - 1)) in
    if cmd = "NEWWORLD" then begin
      match args with
      | [capinc; relcapinc; tb] ->
        let tbi = int_of_string tb in
        let w = world_init (nat_of_int (int_of_string capinc)) (nat_of_int (int_of_string relcapinc)) (nat_of_int tbi) in
        let ws = { w; slots = Array.make 64 zero_ent; nslots = 1; rev = Hashtbl.create 64; dead = false; tb = tbi } in
        Hashtbl.replace worlds wk ws;
        Buffer.add_string out (Printf.sprintf "R %s ok\n" idx)
      | _ -> failwith "NEWWORLD args"
    end else begin
      let ws = Hashtbl.find worlds wk in
      if ws.dead then (if cmd = "DUMP" then incr ndumps (* keep the dump numbering of the implementation side *)) else
      let e = ent_of ws and n s = nat_of_int (int_of_string s) in
      let zz s = z_of_int (int_of_string s) in
      let bit01 s = s = "1" in
      match cmd, args with
      | x, _ when String.length x > 0 && x.[0] = '_' ->
        Buffer.add_string out (Printf.sprintf "R %s ok\n" idx)   (* harness-only operation *)
      | "REG", [key; isrel; zs] -> run_op idx ws (ORegister (n key, bit01 isrel, bit01 zs)) ~creates:false
      | "NEW", [ids] -> run_op idx ws (ONew (nats ids)) ~creates:true
      | "NEWWITH", [cs] -> run_op idx ws (ONewWith (pairs cs)) ~creates:true
      | "BNEW", [ids; vals; rel; tg] -> run_op idx ws (OBNew (parse_bspec ids vals rel, opt_ent ws tg)) ~creates:true
      | "BBATCH", [ids; vals; rel; cnt; tg] ->
        run_op idx ws (OBBatch (parse_bspec ids vals rel, zz cnt, opt_ent ws tg)) ~creates:true
      | "BBATCHQ", [ids; vals; rel; cnt; tg] ->
        (* the model returns the query handle; the new entities are the rows of its segment *)
        let ((w', o), evs) = step ws.w (OBBatchQ (parse_bspec ids vals rel, zz cnt, opt_ent ws tg)) in
        (match o with
         | Ok (VNat h) ->
           ws.w <- w';
           let q = List.nth w'.w_queries (int_of_nat h) in
           let s = List.hd q.q_segs in
           let t = List.nth w'.w_tables (int_of_nat s.s_tid) in
           let es = List.filteri (fun i _ -> i >= int_of_nat s.s_start && i < int_of_nat s.s_end) t.t_ents in
           Buffer.add_string out (Printf.sprintf "R %s q %d %s\n" idx (int_of_nat h) (new_slots ws es))
         | _ -> emit_result idx ws ((w', o), evs) ~creates:false)
      | "BADD", [ids; vals; rel; s; tg] -> run_op idx ws (OBAdd (parse_bspec ids vals rel, e s, opt_ent ws tg)) ~creates:false
      | "RM", [s] -> run_op idx ws (ORemoveEntity (e s)) ~creates:false
      | "ALIVE", [s] -> run_op idx ws (OAlive (e s)) ~creates:false
      | "XCHG", [s; add; rem] -> run_op idx ws (OExchange (e s, nats add, nats rem)) ~creates:false
      | "ASSIGN", [s; cs] -> run_op idx ws (OAssign (e s, pairs cs)) ~creates:false
      | "SET", [s; id; v] -> run_op idx ws (OSet (e s, n id, zz v)) ~creates:false
      | "GET", [s; id] -> run_op idx ws (OGet (e s, n id)) ~creates:false
      | "HAS", [s; id] -> run_op idx ws (OHas (e s, n id)) ~creates:false
      | "MASK", [s] -> run_op idx ws (OMask (e s)) ~creates:false
      | "VIEW", [s] -> run_op idx ws (OView (e s)) ~creates:false
      | "RELGET", [s; id] -> run_op idx ws (ORelGet (e s, n id)) ~creates:false
      | "RELSET", [s; id; t] -> run_op idx ws (ORelSet (e s, n id, e t)) ~creates:false
      | "RELXCHG", [s; add; rem; rid; t] -> run_op idx ws (ORelExchange (e s, nats add, nats rem, n rid, e t)) ~creates:false
      | "BXCHG", q :: add :: rem :: rid :: tg :: f ->
        let rel = if rid = "-" then None else Some (n rid, e tg) in
        let ((w', o), evs) = step ws.w (OBatchExchange (bit01 q, parse_farg ws f, nats add, nats rem, rel)) in
        (match o, bit01 q with
         | Ok (VNat h), true -> ws.w <- w'; Buffer.add_string out (Printf.sprintf "R %s q %d\n" idx (int_of_nat h))
         | _ -> emit_result idx ws ((w', o), evs) ~creates:false)
      | "BSETREL", q :: rid :: tg :: f ->
        let ((w', o), evs) = step ws.w (OBatchSetRel (bit01 q, parse_farg ws f, n rid, e tg)) in
        (match o, bit01 q with
         | Ok (VNat h), true -> ws.w <- w'; Buffer.add_string out (Printf.sprintf "R %s q %d\n" idx (int_of_nat h))
         | _ -> emit_result idx ws ((w', o), evs) ~creates:false)
      | "BRM", f -> run_op idx ws (OBatchRemove (parse_farg ws f)) ~creates:false
      | "QUERY", f ->
        let ((w', o), evs) = step ws.w (OQuery (parse_farg ws f)) in
        (match o with
         | Ok (VNat h) -> ws.w <- w'; Buffer.add_string out (Printf.sprintf "R %s q %d\n" idx (int_of_nat h))
         | _ -> emit_result idx ws ((w', o), evs) ~creates:false)
      | "QSCAN", f ->
        (* macro: open (or take) a query, count, iterate to exhaustion; result = sorted slot set *)
        let evs_acc = ref [] in
        let stepm o = let ((w', out), evs) = step ws.w o in ws.w <- w'; evs_acc := !evs_acc @ evs; out in
        let h = (match f with
            | "H" :: h :: _ -> Some (n h)
            | _ -> (match stepm (OQuery (parse_farg ws f)) with Ok (VNat h) -> Some h | _ -> None)) in
        (match h with
         | None -> Buffer.add_string out (Printf.sprintf "R %s panic\n" idx)
         | Some h ->
           (* fresh = the query has not been advanced yet *)
           let fresh = (match List.nth_opt ws.w.w_queries (int_of_nat h) with
               | Some q -> q.q_next = O && q.q_cur = None | None -> true) in
           let cnt = (match stepm (OQCount h) with Ok (VNat c) -> int_of_nat c | _ -> -1) in
           let acc = ref [] in
           let continue = ref true in
           while !continue do
             (match stepm (OQNext h) with
              | Ok (VBool true) ->
                (match stepm (OQEntity h) with
                 | Ok (VEnt e) -> acc := (match Hashtbl.find_opt ws.rev (int_of_nat e.eid, int_of_n e.egen) with Some s -> s | None -> -1) :: !acc
                 | _ -> continue := false)
              | _ -> continue := false)
           done;
           let sl = List.sort compare !acc in
           if not fresh then
             Buffer.add_string out (Printf.sprintf "R %s rem %d n=%d\n" idx (List.length sl) cnt)
           else
           Buffer.add_string out (Printf.sprintf "R %s set %s n=%d\n" idx
                                    (if sl = [] then "-" else String.concat "," (List.map string_of_int sl)) cnt);
           let evl = List.sort compare (List.map (str_event ws) !evs_acc) in
           List.iter (fun s -> Buffer.add_string out (Printf.sprintf "EV %s %s\n" idx s)) evl)
      | "QNEXT", [h] -> run_op idx ws (OQNext (n h)) ~creates:false
      | "QSTEP", [h; k] -> run_op idx ws (OQStep (n h, zz k)) ~creates:false
      | "QCOUNT", [h] -> run_op idx ws (OQCount (n h)) ~creates:false
      | "QAT", [h; i] -> run_op idx ws (OQEntityAt (n h, zz i)) ~creates:false
      | "QCLOSE", [h] -> run_op idx ws (OQClose (n h)) ~creates:false
      | "QENT", [h] -> run_op idx ws (OQEntity (n h)) ~creates:false
      | "QVIEW", [h] -> run_op idx ws (OQView (n h)) ~creates:false
      | "QREL", [h; id] -> run_op idx ws (OQRel (n h, n id)) ~creates:false
      | "CREG", "C" :: _ -> Buffer.add_string out (Printf.sprintf "R %s panic\n" idx)
      | "CREG", f -> run_op idx ws (OCacheRegister (fst (parse_filter ws f))) ~creates:false
      | "CUNREG", [k] -> run_op idx ws (OCacheUnregister (n k)) ~creates:false
      | "RESET", [] -> run_op idx ws OReset ~creates:false
      | "DUMP", [] ->
        let d = world_dump ws.w in
        Hashtbl.replace dumps !ndumps d; incr ndumps;
        run_op idx ws ODump ~creates:false
      | "LOAD", [d] ->
        let dk = int_of_string (String.sub d 1 (String.length d - 1)) in
        let dd = Hashtbl.find dumps dk in
        let ((w', o), evs) = step ws.w (OLoad dd) in
        (match o with
         | Ok _ ->
           ws.w <- w';
           (* alive entities of the loaded world get fresh slots, ascending by id *)
           let es = List.sort compare (List.map (fun i -> int_of_nat i) dd.d_alive) in
           let es = List.map (fun i -> let (_, g) = List.nth dd.d_ents i in { eid = nat_of_int i; egen = g }) es in
           Buffer.add_string out (Printf.sprintf "R %s ok %s\n" idx (new_slots ws es))
         | _ -> emit_result idx ws ((w', o), evs) ~creates:false)
      | "RESREG", [key] -> run_op idx ws (OResReg (n key)) ~creates:false
      | "RESADD", [id; v] -> run_op idx ws (OResAdd (n id, zz v)) ~creates:false
      | "RESRM", [id] -> run_op idx ws (OResRemove (n id)) ~creates:false
      | "RESGET", [id] -> run_op idx ws (OResGet (n id)) ~creates:false
      | "RESHAS", [id] -> run_op idx ws (OResHas (n id)) ~creates:false
      | "LISTEN", ["off"] -> run_op idx ws (OSetListener None) ~creates:false
      | "LISTEN", [subs; comps] ->
        let c = if comps = "-" then None else Some (mask comps) in
        run_op idx ws (OSetListener (Some (LCallback { lc_subs = n_of_int (int_of_string subs); lc_comps = c }))) ~creates:false
      | "LISTEND", _ :: rest ->
        let rec subs = function
          | s :: c :: r -> { lc_subs = n_of_int (int_of_string s); lc_comps = (if c = "-" then None else Some (mask c)) } :: subs r
          | _ -> [] in
        let ls = LDispatch (subs rest) in
        let ((w', _), _) = step ws.w (OSetListener (Some ls)) in
        ws.w <- w';
        (* what the Dispatch presents to the world: Subscriptions() / Components() *)
        let c = outer_cfg ls in
        Buffer.add_string out (Printf.sprintf "R %s ok cfg=%d/%s\n" idx (int_of_n c.lc_subs)
          (match c.lc_comps with None -> "nil" | Some m -> str_mask ws m))
      | "LOCKED", [] -> run_op idx ws OIsLocked ~creates:false
      | "STATS", [] -> run_op idx ws OStats ~creates:false
      | _ -> failwith ("bad op line: " ^ line)
    end
  | _ -> failwith ("bad line: " ^ line)

let () =
  let ic = if Array.length Sys.argv > 1 then open_in Sys.argv.(1) else stdin in
  (try
     while true do
       let line = input_line ic in
       (* only OP lines are input; they are written as "OP <idx> W<k> CMD args" *)
       if String.length line > 3 && String.sub line 0 3 = "OP " then begin
         let body = String.sub line 3 (String.length line - 3) in
         try handle_line body
         with Failure msg | Invalid_argument msg ->
           (* the model cannot follow (e.g. a slot it never created): report and stop this world *)
           (match String.split_on_char ' ' body with
            | idx :: wtok :: _ ->
              Buffer.add_string out (Printf.sprintf "R %s model-cannot-follow %s\n" idx msg);
              (try (Hashtbl.find worlds (int_of_string (String.sub wtok 1 (String.length wtok - 1)))).dead <- true with _ -> ())
            | _ -> ())
           | Not_found ->
           (match String.split_on_char ' ' body with
            | idx :: wtok :: _ ->
              Buffer.add_string out (Printf.sprintf "R %s model-cannot-follow not-found\n" idx);
              (try (Hashtbl.find worlds (int_of_string (String.sub wtok 1 (String.length wtok - 1)))).dead <- true with _ -> ())
            | _ -> ())
       end
     done
   with End_of_file -> ());
  print_string (Buffer.contents out)
