(* tv_bitset: bitSet (Gen/GoBitSet.v) against the real code / against a list of booleans *)
let i = int_of_string

let step (b : go_bitSet) toks : go_bitSet option * string =
  let k r f = outcome r f None in
  match toks with
  | [ "E"; n ] -> k (bitSet_ExtendTo b (n_of_int (i n))) (fun b' -> (Some b', "ok"))
  | [ "S"; n; v ] -> k (bitSet_Set b (n_of_int (i n)) (v = "1")) (fun b' -> (Some b', "ok"))
  | [ "G"; n ] -> k (bitSet_Get b (n_of_int (i n))) (fun x -> (Some b, if x then "b 1" else "b 0"))
  | [ "X" ] -> k (bitSet_Reset b) (fun b' -> (Some b', "ok"))
  | [ "D" ] -> (Some b, "d [" ^ String.concat "," (List.map hex_of_n (bitSet_data b).s_data) ^ "]")
  | _ -> failwith ("tv_bitset: cannot parse " ^ String.concat " " toks)

let spec () =
  let g = ref zero_bitSet and bits = ref [||] and hist = ref [] and dead = ref false in
  let k = ref 0 in
  while not !dead && !k < 120 do
    incr k;
    let size = Array.length !bits in
    let r = Random.int 100 in
    if r < 15 || size = 0 then begin
      let want = 1 + Random.int 300 in
      hist := Printf.sprintf "E %d" want :: !hist;
      (match bitSet_ExtendTo !g (n_of_int want) with
       | Ret g' -> g := g'; if want > size then bits := Array.append !bits (Array.make (want - size) None)
       | r -> report "bitSet" !hist "ExtendTo" (show_res (fun _ -> "ok") r) "ok"; dead := true)
    end else if r < 60 then begin
      let i = Random.int size and v = Random.bool () in
      hist := Printf.sprintf "S %d %b" i v :: !hist;
      (match bitSet_Set !g (n_of_int i) v with
       | Ret g' -> g := g'; !bits.(i) <- Some v
       | r -> report "bitSet" !hist "Set" (show_res (fun _ -> "ok") r) "ok"; dead := true)
    end else if r < 95 then begin
      let i = Random.int size in
      hist := Printf.sprintf "G %d" i :: !hist;
      (match bitSet_Get !g (n_of_int i), !bits.(i) with
       | Ret b, Some v when b = v -> ()
       | Ret _, None -> ()   (* a bit that was never written: not specified *)
       | r, v -> report "bitSet" !hist "Get" (show_res string_of_bool r)
                   (match v with Some v -> string_of_bool v | None -> "any"); dead := true)
    end else begin
      hist := "X" :: !hist;
      (match bitSet_Reset !g with
       | Ret g' -> g := g'; bits := Array.map (fun _ -> Some false) !bits
       | r -> report "bitSet" !hist "Reset" (show_res (fun _ -> "ok") r) "ok"; dead := true)
    end
  done

let () = main "bitset" (fun _ -> Some zero_bitSet) step spec
