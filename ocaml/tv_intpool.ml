(* tv_intpool: intPool[uint32] (Gen/GoIntPool.v) against the real code / freshness of IDs *)
let i = int_of_string

let step ((p, c) : go_intPool * bool) toks : (go_intPool * bool) option * string =
  let k r f = outcome r f None in
  match toks with
  | [ "G" ] -> k (intPool_Get p) (fun (p', v) -> (Some (p', c), "n " ^ dec v))
  | [ "R"; v ] -> k (intPool_Recycle p (n_of_int (i v))) (fun p' -> (Some (p', c), "ok"))
  | [ "X" ] -> k (intPool_Reset p) (fun p' -> (Some (p', c), "ok"))
  | [ "D" ] ->
    (Some (p, c), "d " ^ dec p.intPool_next ^ " " ^ dec p.intPool_available ^ " "
                  ^ (if c then dec p.intPool_pool.s_cap else "-") ^ " "
                  ^ String.concat "," (List.map dec p.intPool_pool.s_data))
  | _ -> failwith ("tv_intpool: cannot parse " ^ String.concat " " toks)

let spec () =
  match go_newIntPool (n_of_int (Random.int 4)) with
  | Ret g0 ->
    let g = ref g0 and used = ref [] and hist = ref [] and dead = ref false in
    let k = ref 0 in
    while not !dead && !k < 150 do
      incr k;
      let r = Random.int 100 in
      if r < 50 || !used = [] then begin
        hist := "G" :: !hist;
        (match intPool_Get !g with
         | Ret (g', v) ->
           let v = int_of_n v in
           if List.mem v !used then (report "intPool" !hist "Get" (string_of_int v) "an ID that is not in use"; dead := true)
           else (g := g'; used := v :: !used)
         | r -> report "intPool" !hist "Get" (show_res (fun _ -> "ok") r) "ok"; dead := true)
      end else if r < 95 then begin
        let v = List.nth !used (Random.int (List.length !used)) in
        hist := Printf.sprintf "R %d" v :: !hist;
        (match intPool_Recycle !g (n_of_int v) with
         | Ret g' -> g := g'; used := List.filter (fun x -> x <> v) !used
         | r -> report "intPool" !hist "Recycle" (show_res (fun _ -> "ok") r) "ok"; dead := true)
      end else begin
        hist := "X" :: !hist;
        (match intPool_Reset !g with
         | Ret g' -> g := g'; used := []
         | r -> report "intPool" !hist "Reset" (show_res (fun _ -> "ok") r) "ok"; dead := true)
      end
    done
  | r -> report "intPool" [] "newIntPool" (show_res (fun _ -> "ok") r) "ok"

let () =
  main "intpool"
    (fun rest ->
       let inc = (match rest with x :: _ -> x | [] -> "0") in
       match go_newIntPool (n_of_int (i inc)) with Ret p -> Some (p, inc <> "0") | _ -> None)
    step spec
