(* tv_paged: pagedSlice (Gen/GoPaged.v) against the real code / against a list *)
let i = int_of_string

let step (p : go_pagedSlice) toks : go_pagedSlice option * string =
  let k r f = outcome r f None in
  match toks with
  | [ "A"; v ] -> k (pagedSlice_Add p (n_of_hex v)) (fun p' -> (Some p', "ok"))
  | [ "G"; n ] -> k (pagedSlice_Get p (n_of_int (i n))) (fun x -> (Some p, "x " ^ hex_of_n x))
  | [ "S"; n; v ] -> k (pagedSlice_Set p (n_of_int (i n)) (n_of_hex v)) (fun p' -> (Some p', "ok"))
  | [ "N" ] -> (Some p, "n " ^ dec (pagedSlice_Len p))
  | [ "D" ] ->
    let pages = List.map (fun pg -> String.concat "," (List.map hex_of_n pg.s_data)) p.pagedSlice_pages.s_data in
    (Some p, "d " ^ dec p.pagedSlice_len ^ " " ^ dec p.pagedSlice_lenLast ^ " " ^ String.concat "|" pages)
  | _ -> failwith ("tv_paged: cannot parse " ^ String.concat " " toks)

let spec () =
  let g = ref zero_pagedSlice and l = ref [||] and hist = ref [] and dead = ref false in
  let k = ref 0 in
  while not !dead && !k < 150 do
    incr k;
    let len = Array.length !l in
    let r = Random.int 100 in
    if r < 50 || len = 0 then begin
      let v = Random.int 1000000 in
      hist := Printf.sprintf "A %d" v :: !hist;
      (match pagedSlice_Add !g (n_of_int v) with
       | Ret g' -> g := g'; l := Array.append !l [| v |]
       | r -> report "pagedSlice" !hist "Add" (show_res (fun _ -> "ok") r) "ok"; dead := true)
    end else if r < 75 then begin
      let i = Random.int len in
      hist := Printf.sprintf "G %d" i :: !hist;
      let got = show_res dec (pagedSlice_Get !g (n_of_int i)) in
      if got <> string_of_int !l.(i) then (report "pagedSlice" !hist "Get" got (string_of_int !l.(i)); dead := true)
    end else if r < 92 then begin
      let i = Random.int len and v = Random.int 1000000 in
      hist := Printf.sprintf "S %d %d" i v :: !hist;
      (match pagedSlice_Set !g (n_of_int i) (n_of_int v) with
       | Ret g' -> g := g'; !l.(i) <- v
       | r -> report "pagedSlice" !hist "Set" (show_res (fun _ -> "ok") r) "ok"; dead := true)
    end else begin
      hist := "N" :: !hist;
      if int_of_n (pagedSlice_Len !g) <> len then
        (report "pagedSlice" !hist "Len" (dec (pagedSlice_Len !g)) (string_of_int len); dead := true)
    end
  done

let () = main "paged" (fun _ -> Some zero_pagedSlice) step spec
