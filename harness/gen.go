package main

// Seeded generator of operation histories.  It works online: every operation is chosen
// from the generator's PRNG and from what the real world reports (masks of alive
// entities), executed at once, and written to the trace together with what the
// implementation answered.  About 85 % of the operations are legal; the rest come from
// a separate illegal-argument stream.

import (
	"bufio"
	"fmt"
	"math/rand"
	"sort"
	"strconv"
	"strings"

	"github.com/mlange-42/arche/ecs"
)

type Profile struct {
	name     string
	w        map[string]float64 // weight multipliers per op kind
	illegal  float64
	minComps int
	maxComps int
	listener float64 // probability of installing an all-subscribing listener at the start
	subsRand bool    // random subscription masks / component restrictions
	length   [2]int
}

var baseWeights = map[string]float64{
	"new": 8, "newwith": 4, "bnew": 4, "bbatch": 2, "bbatchq": 1, "badd": 2,
	"rm": 6, "xchg": 10, "assign": 3, "set": 6, "get": 2, "view": 3, "alive": 2,
	"relset": 5, "relxchg": 3, "relget": 1, "relcycle": 0.6, "layoutcross": 0.05, "wordedge": 0.03, "recycledtarget": 0.5, "resetrel": 0.05, "manymasks": 0.01,
	"bxchg": 3, "bsetrel": 2, "brm": 1, "bbig": 0.05,
	"qscan": 3, "qopen": 1, "creg": 1, "cunreg": 0.4, "cscan": 2,
	"reset": 0.3, "dumpload": 0.2, "reg": 0.5, "res": 1, "listen": 0.4, "stats": 1, "locked": 0.5,
}

func profile(name string) Profile {
	p := Profile{name: name, w: map[string]float64{}, illegal: 0.12, minComps: 4, maxComps: 10, listener: 0.3, length: [2]int{40, 160}}
	mul := func(f float64, ks ...string) {
		for _, k := range ks {
			p.w[k] = f
		}
	}
	switch name {
	case "core": // C01
		mul(2, "xchg", "rm", "set", "assign", "bxchg", "view")
	case "handles": // C02
		mul(3, "new", "rm", "bbatch", "brm", "alive", "stats")
		mul(3, "reset")
		mul(8, "dumpload")
		mul(10, "bbig")
		mul(20, "wordedge")
	case "query": // C03
		mul(4, "qscan", "qopen")
		mul(2, "bxchg", "bsetrel", "bbatchq")
	case "rel": // C05, C06
		mul(3, "relset", "relxchg", "bsetrel", "bnew", "rm", "relget")
		mul(4, "recycledtarget")
		mul(2, "brm", "reset")
	case "cache": // C07
		mul(6, "creg", "cscan")
		mul(3, "cunreg", "relset", "rm", "bsetrel", "brm", "reset")
	case "batch": // C08
		mul(5, "bxchg", "bsetrel", "brm", "bbatch", "bbatchq")
	case "lock": // C09
		mul(6, "qopen")
		mul(5, "reg")
		mul(3, "creg", "cunreg")
		p.illegal = 0.05
	case "illegal": // C10
		p.illegal = 0.4
		mul(4, "creg", "cunreg", "res")
	case "events": // C11
		p.listener = 1
		mul(2, "bxchg", "bsetrel", "brm", "bbatch", "bbatchq", "relset", "relxchg")
	case "subs": // C12
		p.listener = 1
		p.subsRand = true
		mul(8, "listen")
	case "reset": // C15
		mul(12, "reset")
		mul(40, "resetrel")
		mul(3, "creg", "cscan", "relset")
	case "registry": // C16
		p.minComps, p.maxComps = 0, ecs.MaskTotalBits
		mul(10, "reg")
		mul(4, "qopen")
		mul(8, "relcycle")
		mul(40, "layoutcross")
		p.length = [2]int{30, 90}
	case "dump": // C17
		mul(15, "dumpload")
		mul(3, "new", "rm", "bbatch", "alive")
		mul(20, "bbig")
	case "res": // C20
		mul(12, "res")
		mul(3, "reset")
	case "manynodes": // C13: worlds with well over a hundred archetype-graph nodes
		p.minComps, p.maxComps = 9, 10
		mul(600, "manymasks")
		mul(3, "bxchg", "brm", "creg", "cscan", "bsetrel")
		p.length = [2]int{500, 900}
	case "mixed":
	default:
		panic("harness: unknown profile " + name)
	}
	return p
}

type cachedInfo struct {
	toks  []string
	alive bool
}

type G struct {
	rng    *rand.Rand
	h      *H
	out    *bufio.Writer
	idx    int
	p      Profile
	x      *W
	wk     int
	cached []cachedInfo
	nRes   int
	nextK  int // next type key to register
	nWorlds int
	flushEach bool
	digestNext bool
	bystanders []int
	stats  map[string]int
	npanic int
	nops   int
	keys   []int
}

func (g *G) emit(cmd string, args ...string) string {
	line := fmt.Sprintf("OP %d W%d %s", g.idx, g.wk, cmd)
	if len(args) > 0 {
		line += " " + strings.Join(args, " ")
	}
	fmt.Fprintln(g.out, line)
	if g.flushEach {
		g.out.Flush() // the OP line must be on disk before the implementation runs it
	}
	before := ""
	underLock := false
	if g.digestNext && singleEntityCmd[cmd] {
		before = g.x.digest()
	} else if (cmd == "LOAD" || cmd == "RESET") && g.x != nil && g.x.w != nil && g.x.w.IsLocked() {
		// a structural call refused because the world is locked must leave everything as it was (C09)
		before = g.x.digest() + g.x.aliveDigest()
		underLock = true
	}
	g.digestNext = false
	// cross-talk probe (C19): an operation on this world must not change another world
	other, otherBefore := -1, ""
	if len(g.bystanders) > 0 && cmd != "NEWWORLD" && g.rng.Float64() < 0.4 {
		other = g.bystanders[g.rng.Intn(len(g.bystanders))]
		if other != g.wk {
			otherBefore = g.h.worlds[other].digest() + g.h.worlds[other].aliveDigest()
		}
	}
	defer func() {
		if otherBefore != "" {
			if after := g.h.worlds[other].digest() + g.h.worlds[other].aliveDigest(); after != otherBefore {
				fmt.Fprintf(g.out, "CHK %d FAIL %s on W%d changed world W%d\n", g.idx-1, cmd, g.wk, other)
			}
		}
	}()
	lines := g.h.run(g.idx, g.wk, cmd, args)
	for _, l := range lines {
		fmt.Fprintln(g.out, l)
	}
	if before != "" && !strings.Contains(before, "unavailable") && len(lines) > 0 && strings.HasSuffix(lines[0], " panic") {
		after := g.x.digest()
		if underLock {
			after += g.x.aliveDigest()
		}
		if !strings.Contains(after, "unavailable") && after != before {
			if underLock {
				fmt.Fprintf(g.out, "CHK %d FAIL state changed by the call %s %s refused on a locked world\n", g.idx, cmd, strings.Join(args, " "))
			} else {
				fmt.Fprintf(g.out, "CHK %d FAIL state changed by the failed call %s %s\n", g.idx, cmd, strings.Join(args, " "))
			}
		}
	}
	g.idx++
	g.nops++
	g.stats[cmd]++
	res := ""
	if len(lines) > 0 {
		res = strings.SplitN(lines[0], " ", 3)[2]
	}
	if res == "panic" {
		g.npanic++
		g.stats["panic:"+cmd]++
	}
	return res
}

func (g *G) alive() []int {
	var r []int
	for s := g.x.epoch; s < len(g.x.slots); s++ {
		if s == 0 {
			continue
		}
		if g.x.w.Alive(g.x.slots[s]) {
			r = append(r, s)
		}
	}
	return r
}

func (g *G) deadSlots() []int {
	var r []int
	for s := g.x.epoch; s < len(g.x.slots); s++ {
		if s == 0 {
			continue
		}
		if !g.x.w.Alive(g.x.slots[s]) {
			r = append(r, s)
		}
	}
	return r
}

func sl(s int) string { return "s" + strconv.Itoa(s) }

func (g *G) pick(l []int) int { return l[g.rng.Intn(len(l))] }

func (g *G) relIDs() []int {
	var r []int
	for i, c := range g.x.comps {
		if c.isRel {
			r = append(r, i)
		}
	}
	return r
}

func (g *G) maskOf(s int) []int {
	m := g.x.w.Mask(g.x.slots[s])
	return g.x.maskIDs(&m)
}

func contains(l []int, v int) bool {
	for _, x := range l {
		if x == v {
			return true
		}
	}
	return false
}

func (g *G) relOf(ids []int) int {
	for _, i := range ids {
		if g.x.comps[i].isRel {
			return i
		}
	}
	return -1
}

// subset of ids not in mask, at most one relation overall if hasRel is false, none otherwise
func (g *G) pickAdd(mask []int, hasRel bool, max int) []int {
	n := len(g.x.comps)
	if n == 0 {
		return nil
	}
	var r []int
	k := g.rng.Intn(max + 1)
	for t := 0; t < k*2 && len(r) < k; t++ {
		i := g.rng.Intn(n)
		if contains(mask, i) || contains(r, i) {
			continue
		}
		if g.x.comps[i].isRel {
			if hasRel {
				continue
			}
			hasRel = true
		}
		r = append(r, i)
	}
	return r
}

func (g *G) pickSub(l []int, max int) []int {
	if len(l) == 0 {
		return nil
	}
	k := g.rng.Intn(max + 1)
	perm := g.rng.Perm(len(l))
	var r []int
	for _, p := range perm {
		if len(r) >= k {
			break
		}
		r = append(r, l[p])
	}
	return r
}

func (g *G) vals(ids []int) string {
	if len(ids) == 0 {
		return "-"
	}
	s := make([]string, len(ids))
	for i, id := range ids {
		s[i] = fmt.Sprintf("%d=%d", id, 1+g.rng.Intn(255))
	}
	return strings.Join(s, ",")
}

// a target: alive (mostly), zero, or dead (illegal stream only)
func (g *G) pickTarget(self int) string {
	al := g.alive()
	r := g.rng.Float64()
	switch {
	case r < 0.12 || len(al) == 0:
		return "s0"
	case r < 0.18 && self > 0:
		return sl(self)
	default:
		// favour a few hub targets so that tables fill, empty and get reused
		if g.rng.Float64() < 0.6 {
			return sl(al[g.rng.Intn(1+len(al)/4)])
		}
		return sl(g.pick(al))
	}
}

func (g *G) randFilter(depth int) []string {
	n := len(g.x.comps)
	idl := func(max int) string {
		if n == 0 {
			return "-"
		}
		k := g.rng.Intn(max + 1)
		var r []int
		for t := 0; t < k; t++ {
			i := g.rng.Intn(n)
			if !contains(r, i) {
				r = append(r, i)
			}
		}
		sort.Ints(r)
		return strIDs(r)
	}
	// bias towards the mask of an alive entity
	fromAlive := func() string {
		al := g.alive()
		if len(al) == 0 {
			return idl(2)
		}
		m := g.maskOf(g.pick(al))
		sub := g.pickSub(m, 2)
		sort.Ints(sub)
		return strIDs(sub)
	}
	r := g.rng.Float64()
	if depth <= 0 || r < 0.45 {
		switch g.rng.Intn(7) {
		case 0, 1, 2:
			return []string{"A", fromAlive()}
		case 3:
			return []string{"M", fromAlive(), idl(2)}
		case 4:
			return []string{"X", fromAlive()}
		case 5:
			return []string{"ANY", idl(3)}
		default:
			if g.rng.Intn(2) == 0 {
				return []string{"NONE", idl(2)}
			}
			return []string{"ANYNOT", idl(2)}
		}
	}
	switch g.rng.Intn(5) {
	case 0:
		return append(append([]string{"AND"}, g.randFilter(depth-1)...), g.randFilter(depth-1)...)
	case 1:
		return append(append([]string{"OR"}, g.randFilter(depth-1)...), g.randFilter(depth-1)...)
	case 2:
		return append(append([]string{"XOR"}, g.randFilter(depth-1)...), g.randFilter(depth-1)...)
	case 3:
		return append([]string{"NOT"}, g.randFilter(depth-1)...)
	default:
		return g.randFilter(depth - 1)
	}
}

// a top-level filter: plain, or a relation filter with some target
func (g *G) topFilter() []string {
	f := g.randFilter(2)
	if len(g.relIDs()) > 0 && g.rng.Float64() < 0.35 {
		// relation filter; inner filter usually requires a relation component
		if g.rng.Float64() < 0.7 {
			f = []string{"A", strconv.Itoa(g.pick(g.relIDs()))}
		}
		tg := g.pickTarget(0)
		if ds := g.deadSlots(); len(ds) > 0 && g.rng.Float64() < 0.15 {
			tg = sl(g.pick(ds))
		}
		return append(append([]string{"R"}, f...), tg)
	}
	return f
}

func (g *G) filterArg() []string {
	var live []int
	for k, c := range g.cached {
		if c.alive {
			live = append(live, k)
		}
	}
	if len(live) > 0 && g.rng.Float64() < 0.4 {
		return []string{"C", strconv.Itoa(g.pick(live))}
	}
	return g.topFilter()
}

func (g *G) openQueries() []int {
	var r []int
	for h, o := range g.x.qopen {
		if o {
			r = append(r, h)
		}
	}
	return r
}

func (g *G) register() {
	if g.rng.Intn(10) == 0 && len(g.x.comps) > 0 {
		// the pointer type of a type that is already registered (or of the next one, which then
		// follows): distinct types, distinct IDs, never a relation
		base := g.x.comps[g.rng.Intn(len(g.x.comps))].key
		if g.rng.Intn(3) == 0 {
			base = g.nextK
		}
		if base < pointerKeyBase {
			if _, ok := g.x.keyToID[base+pointerKeyBase]; !ok {
				g.emit("REG", strconv.Itoa(base+pointerKeyBase), "0", "1")
				return
			}
		}
	}
	key := g.nextK
	g.nextK++
	ct := typeForKey(key)
	g.emit("REG", strconv.Itoa(key), strconv.Itoa(b01(ct.isRel)), strconv.Itoa(b01(ct.zs)))
}

// builder spec: ids, vals, rel
func (g *G) bspec(forceRel bool) (ids []int, a [3]string, rel int) {
	ids = g.pickAdd(nil, false, 4)
	rel = g.relOf(ids)
	if forceRel && rel < 0 && len(g.relIDs()) > 0 {
		rel = g.pick(g.relIDs())
		ids = append(ids, rel)
	}
	a[0] = strIDs(ids)
	a[1] = "-"
	if len(ids) > 0 && g.rng.Float64() < 0.5 {
		vs := make([]int, len(ids))
		for i := range ids {
			vs[i] = 1 + g.rng.Intn(255)
		}
		a[1] = strIDs(vs)
	}
	a[2] = "-"
	if rel >= 0 && (forceRel || g.rng.Float64() < 0.7) {
		a[2] = strconv.Itoa(rel)
	}
	return
}

// operations that address (or create) a single entity, a resource or a filter registration:
// when they fail, every observable must be as before (C10)
var singleEntityCmd = map[string]bool{"RM": true, "XCHG": true, "GET": true, "SET": true, "MASK": true, "HAS": true,
	"RELSET": true, "RELGET": true, "RELXCHG": true, "VIEW": true, "NEW": true, "NEWWITH": true, "BNEW": true, "BADD": true,
	"ASSIGN": true, "RESADD": true, "RESRM": true, "CREG": true, "CUNREG": true}

func (g *G) illegalOp() bool {
	g.digestNext = true
	defer func() { g.digestNext = false }()
	al := g.alive()
	dead := g.deadSlots()
	n := len(g.x.comps)
	if n == 0 {
		return false
	}
	anyID := func() string { return strconv.Itoa(g.rng.Intn(n)) }
	switch g.rng.Intn(17) {
	case 0: // dead entity
		if len(dead) == 0 {
			return false
		}
		d := sl(g.pick(dead))
		switch g.rng.Intn(7) {
		case 0:
			g.emit("RM", d)
		case 1:
			g.emit("XCHG", d, anyID(), "-")
		case 2:
			g.emit("GET", d, anyID())
		case 3:
			g.emit("SET", d, anyID(), "7")
		case 4:
			g.emit("MASK", d)
		case 5:
			g.emit("HAS", d, anyID())
		default:
			if r := g.relIDs(); len(r) > 0 {
				g.emit("RELSET", d, strconv.Itoa(g.pick(r)), "s0")
			} else {
				g.emit("VIEW", d)
			}
		}
	case 1: // add present
		if len(al) == 0 {
			return false
		}
		s := g.pick(al)
		m := g.maskOf(s)
		if len(m) == 0 {
			return false
		}
		g.emit("XCHG", sl(s), strconv.Itoa(g.pick(m)), "-")
	case 2: // remove absent
		if len(al) == 0 {
			return false
		}
		s := g.pick(al)
		m := g.maskOf(s)
		i := g.rng.Intn(n)
		if contains(m, i) {
			return false
		}
		g.emit("XCHG", sl(s), "-", strconv.Itoa(i))
	case 3: // duplicate ids
		i := anyID()
		if g.rng.Intn(2) == 0 {
			g.emit("NEW", i+","+i)
		} else if len(al) > 0 {
			s := g.pick(al)
			m := g.maskOf(s)
			if contains(m, atoiMust(i)) {
				g.emit("XCHG", sl(s), "-", i+","+i)
			} else {
				g.emit("XCHG", sl(s), i+","+i, "-")
			}
		}
	case 4: // second relation
		r := g.relIDs()
		if len(r) < 2 {
			return false
		}
		a, b := r[0], r[1+g.rng.Intn(len(r)-1)]
		if g.rng.Intn(2) == 0 || len(al) == 0 {
			g.emit("NEW", fmt.Sprintf("%d,%d", a, b))
		} else {
			// add a second relation to an entity that has one
			for _, s := range al {
				m := g.maskOf(s)
				if rel := g.relOf(m); rel >= 0 {
					other := a
					if other == rel {
						other = b
					}
					g.emit("XCHG", sl(s), strconv.Itoa(other), "-")
					return true
				}
			}
			return false
		}
	case 5: // add and remove the same id
		if len(al) == 0 {
			return false
		}
		s := g.pick(al)
		m := g.maskOf(s)
		if len(m) == 0 {
			return false
		}
		i := strconv.Itoa(g.pick(m))
		g.emit("XCHG", sl(s), i, i)
	case 6: // relation call on a non-relation or missing component
		if len(al) == 0 {
			return false
		}
		s := g.pick(al)
		i := g.rng.Intn(n)
		m := g.maskOf(s)
		if g.x.comps[i].isRel && contains(m, i) {
			return false
		}
		switch g.rng.Intn(3) {
		case 0:
			g.emit("RELGET", sl(s), strconv.Itoa(i))
		case 1:
			g.emit("RELSET", sl(s), strconv.Itoa(i), g.pickTarget(s))
		default:
			add := g.pickAdd(m, g.relOf(m) >= 0, 1)
			if len(add) == 0 {
				return false
			}
			if g.x.comps[i].isRel && contains(add, i) {
				return false
			}
			g.emit("RELXCHG", sl(s), strIDs(add), "-", strconv.Itoa(i), g.pickTarget(s))
		}
	case 7: // dead target
		if len(dead) == 0 || len(g.relIDs()) == 0 {
			return false
		}
		d := sl(g.pick(dead))
		rel := g.pick(g.relIDs())
		// prefer a dead entity that alive entities still point to (its relation table survives),
		// together with their relation component
		if g.rng.Intn(5) < 3 {
			for _, s := range al {
				r := g.relOf(g.maskOf(s))
				if r < 0 {
					continue
				}
				tg := g.x.w.Relations().Get(g.x.slots[s], g.x.id(r))
				if !tg.IsZero() && !g.x.w.Alive(tg) {
					if ts, ok := g.x.rev[tg]; ok {
						d, rel = sl(ts), r
						break
					}
				}
			}
		}
		vals := "-"
		if g.rng.Intn(2) == 0 {
			vals = strconv.Itoa(1 + g.rng.Intn(50)) // NewBuilderWith instead of NewBuilder
		}
		switch g.rng.Intn(9) {
		case 6, 7: // batch exchange (plain and Q variant) adding the relation with the dead target
			g.emit("BXCHG", strconv.Itoa(g.rng.Intn(2)), strconv.Itoa(rel), "-", strconv.Itoa(rel), d, "M", "-", strconv.Itoa(rel))
		case 8: // Batch.SetRelationQ
			g.emit("BSETREL", "1", strconv.Itoa(rel), d, "A", strconv.Itoa(rel))
		case 0:
			g.emit("BNEW", strconv.Itoa(rel), vals, strconv.Itoa(rel), d)
		case 1:
			g.emit("BBATCH", strconv.Itoa(rel), vals, strconv.Itoa(rel), "2", d)
		case 2:
			for _, s := range al {
				if g.relOf(g.maskOf(s)) == rel {
					g.emit("RELSET", sl(s), strconv.Itoa(rel), d)
					return true
				}
			}
			return false
		case 3:
			for _, s := range al {
				m := g.maskOf(s)
				if g.relOf(m) < 0 {
					g.emit("RELXCHG", sl(s), strconv.Itoa(rel), "-", strconv.Itoa(rel), d)
					return true
				}
			}
			return false
		case 4:
			for _, s := range al {
				m := g.maskOf(s)
				if g.relOf(m) < 0 {
					g.emit("BADD", strconv.Itoa(rel), vals, strconv.Itoa(rel), sl(s), d)
					return true
				}
			}
			return false
		default:
			g.emit("BSETREL", "0", strconv.Itoa(rel), d, "A", strconv.Itoa(rel))
		}
	case 8: // non-positive batch count
		g.emit("BBATCH", "-", "-", "-", strconv.Itoa(-g.rng.Intn(2)), "-")
	case 9: // query index out of range
		g.emit("QSCAN", g.topFilter()...) // contains the out-of-range EntityAt probes
	case 10: // resources
		if g.nRes == 0 {
			return false
		}
		i := g.rng.Intn(g.nRes)
		if g.x.w.Resources().Has(g.x.resID(i)) {
			g.emit("RESADD", strconv.Itoa(i), "9")
		} else {
			g.emit("RESRM", strconv.Itoa(i))
		}
	case 11: // double registration of a cached filter; use of an unregistered one
		if g.rng.Intn(2) == 0 {
			for k, c := range g.cached {
				if c.alive {
					g.emit("CREG", "C", strconv.Itoa(k))
					return true
				}
			}
			return false
		}
		for k, c := range g.cached {
			if !c.alive && g.rng.Intn(2) == 0 {
				ks := strconv.Itoa(k)
				switch g.rng.Intn(4) {
				case 0:
					g.emit("CUNREG", ks)
				case 1:
					g.emit("QUERY", "C", ks)
				case 2:
					g.emit("BRM", "C", ks)
				default:
					g.emit("QSCAN", "C", ks)
				}
				g.emit("LOCKED")
				return true
			}
		}
		return false
	case 12: // builder target without relation
		g.emit("BNEW", "-", "-", "-", "s0")
	case 16: // builder (with or without values) whose relation is not among its components, or is no relation, plus a target
		if n == 0 {
			return false
		}
		rel := g.rng.Intn(n)
		var ids []int
		for i := 0; i < n; i++ {
			if (i != rel || !g.x.comps[i].isRel) && !g.x.comps[i].isRel && g.rng.Intn(3) == 0 && len(ids) < 3 {
				ids = append(ids, i)
			}
		}
		if g.x.comps[rel].isRel && contains(ids, rel) {
			return false
		}
		vals := "-"
		if len(ids) > 0 && g.rng.Intn(2) == 0 {
			vs := make([]int, len(ids))
			for i := range ids {
				vs[i] = 1 + g.rng.Intn(255)
			}
			vals = strIDs(vs)
		}
		tg := "s0"
		if len(al) > 0 && g.rng.Intn(2) == 0 {
			tg = sl(g.pick(al))
		}
		switch g.rng.Intn(4) {
		case 0: // the batch variants check the relation on another path (newEntities / newEntitiesWith)
			g.emit("BBATCH", strIDs(ids), vals, strconv.Itoa(rel), strconv.Itoa(1+g.rng.Intn(3)), tg)
		case 1:
			g.emit("BBATCHQ", strIDs(ids), vals, strconv.Itoa(rel), strconv.Itoa(1+g.rng.Intn(3)), tg)
		default:
			g.emit("BNEW", strIDs(ids), vals, strconv.Itoa(rel), tg)
		}
		g.emit("STATS")
	case 13: // exchange with relation but nothing to do
		if len(al) == 0 || len(g.relIDs()) == 0 {
			return false
		}
		g.emit("RELXCHG", sl(g.pick(al)), "-", "-", strconv.Itoa(g.pick(g.relIDs())), "s0")
	case 14: // assign a present component
		if len(al) == 0 {
			return false
		}
		s := g.pick(al)
		m := g.maskOf(s)
		if len(m) == 0 {
			return false
		}
		g.emit("ASSIGN", sl(s), g.vals([]int{g.pick(m)}))
	default: // set an absent component
		if len(al) == 0 {
			return false
		}
		s := g.pick(al)
		m := g.maskOf(s)
		i := g.rng.Intn(n)
		if contains(m, i) {
			return false
		}
		g.emit("SET", sl(s), strconv.Itoa(i), "5")
	}
	return true
}

func atoiMust(s string) int { v, _ := strconv.Atoi(s); return v }

func (g *G) legalOp(kind string) bool {
	al := g.alive()
	n := len(g.x.comps)
	switch kind {
	case "new":
		ids := g.pickAdd(nil, false, 4)
		g.emit("NEW", strIDs(ids))
	case "newwith":
		ids := g.pickAdd(nil, false, 3)
		g.emit("NEWWITH", g.vals(ids))
	case "bnew":
		hasT := g.rng.Float64() < 0.6 && len(g.relIDs()) > 0
		_, a, _ := g.bspec(hasT)
		tg := "-"
		if hasT {
			tg = g.pickTarget(0)
		}
		g.emit("BNEW", a[0], a[1], a[2], tg)
	case "bbatch", "bbatchq":
		hasT := g.rng.Float64() < 0.5 && len(g.relIDs()) > 0
		_, a, _ := g.bspec(hasT)
		tg := "-"
		if hasT {
			tg = g.pickTarget(0)
		}
		cmd := "BBATCH"
		if kind == "bbatchq" {
			cmd = "BBATCHQ"
		}
		g.emit(cmd, a[0], a[1], a[2], strconv.Itoa(1+g.rng.Intn(6)), tg)
	case "wordedge":
		// entities created one by one until the newest ID is a multiple of 64 (the word size of the
		// bit sets indexed by entity ID); the newest entity is then used as a relation target and removed
		if g.x.w.Stats().Entities.Used > 200 {
			return false
		}
		for i := 0; i < 140; i++ {
			res := g.emit("NEW", "-")
			if !strings.HasPrefix(res, "e ") {
				return true
			}
			s := atoiMust(strings.Fields(res)[1][1:])
			if id := g.x.slots[s].ID(); id%64 == 0 {
				if rels := g.relIDs(); len(rels) > 0 && g.rng.Intn(2) == 0 {
					rel := g.pick(rels)
					g.emit("BNEW", strconv.Itoa(rel), "-", strconv.Itoa(rel), sl(s))
				}
				g.emit("RM", sl(s))
				g.emit("STATS")
				break
			}
		}
	case "bbig":
		// many entities at once: ids beyond the first 64-bit word of every bit set, pool growth
		if g.x.w.Stats().Entities.Used > 150 {
			return false
		}
		_, a, _ := g.bspec(false)
		g.emit("BBATCH", a[0], a[1], a[2], strconv.Itoa(40+g.rng.Intn(110)), "-")
	case "badd":
		if len(al) == 0 {
			return false
		}
		s := g.pick(al)
		m := g.maskOf(s)
		add := g.pickAdd(m, g.relOf(m) >= 0, 3)
		if len(add) == 0 {
			return false
		}
		rel := g.relOf(add)
		vals := "-"
		if g.rng.Intn(2) == 0 {
			vs := make([]int, len(add))
			for i := range add {
				vs[i] = 1 + g.rng.Intn(255)
			}
			vals = strIDs(vs)
		}
		if rel >= 0 && g.rng.Float64() < 0.7 {
			g.emit("BADD", strIDs(add), vals, strconv.Itoa(rel), sl(s), g.pickTarget(s))
		} else {
			g.emit("BADD", strIDs(add), vals, "-", sl(s), "-")
		}
	case "rm":
		if len(al) == 0 {
			return false
		}
		// prefer targets now and then
		g.emit("RM", sl(g.pick(al)))
	case "xchg":
		if len(al) == 0 || n == 0 {
			return false
		}
		s := g.pick(al)
		m := g.maskOf(s)
		rem := g.pickSub(m, 2)
		remRel := g.relOf(rem) >= 0
		add := g.pickAdd(m, g.relOf(m) >= 0 && !remRel, 3)
		if len(add) == 0 && len(rem) == 0 {
			return false
		}
		g.emit("XCHG", sl(s), strIDs(add), strIDs(rem))
	case "assign":
		if len(al) == 0 {
			return false
		}
		s := g.pick(al)
		m := g.maskOf(s)
		add := g.pickAdd(m, g.relOf(m) >= 0, 2)
		if len(add) == 0 {
			return false
		}
		g.emit("ASSIGN", sl(s), g.vals(add))
	case "set":
		if len(al) == 0 {
			return false
		}
		s := g.pick(al)
		m := g.maskOf(s)
		if len(m) == 0 {
			return false
		}
		g.emit("SET", sl(s), strconv.Itoa(g.pick(m)), strconv.Itoa(1+g.rng.Intn(255)))
	case "get":
		if len(al) == 0 || n == 0 {
			return false
		}
		g.emit("GET", sl(g.pick(al)), strconv.Itoa(g.rng.Intn(n)))
	case "view":
		if len(al) == 0 {
			return false
		}
		g.emit("VIEW", sl(g.pick(al)))
	case "alive":
		if len(g.x.slots) <= g.x.epoch+1 {
			return false
		}
		s := g.x.epoch + g.rng.Intn(len(g.x.slots)-g.x.epoch)
		if s == 0 || g.rng.Intn(12) == 0 {
			g.emit("ALIVE", "s0") // the zero entity is never alive
			return true
		}
		g.emit("ALIVE", sl(s))
	case "relset":
		var cands []int
		for _, s := range al {
			if g.relOf(g.maskOf(s)) >= 0 {
				cands = append(cands, s)
			}
		}
		if len(cands) == 0 {
			return false
		}
		s := g.pick(cands)
		g.emit("RELSET", sl(s), strconv.Itoa(g.relOf(g.maskOf(s))), g.pickTarget(s))
	case "relcycle":
		// a relation table is created for a new target, emptied, and retired by the death of
		// its target; it waits in the node's free list until another target re-uses it
		rels := g.relIDs()
		if len(rels) == 0 {
			return false
		}
		rel := g.pick(rels)
		rt := g.emit("NEW", "-")
		if !strings.HasPrefix(rt, "e ") {
			return true
		}
		tgt := strings.Fields(rt)[1]
		ids := []int{rel}
		for i := range g.x.comps {
			// mostly the bare relation: the same node, hence the same parked tables, again and again
			if g.rng.Intn(5) < 2 && !g.x.comps[i].isRel && g.rng.Intn(4) == 0 && len(ids) < 3 {
				ids = append(ids, i)
			}
		}
		sort.Ints(ids)
		rc := g.emit("BNEW", strIDs(ids), "-", strconv.Itoa(rel), tgt)
		if !strings.HasPrefix(rc, "e ") {
			return true
		}
		child := strings.Fields(rc)[1]
		g.emit("VIEW", child)
		if g.rng.Intn(4) != 0 {
			g.emit("RM", child)
			g.emit("RM", tgt)
		}
	case "manymasks":
		// entities for many different component combinations: the archetype graph grows to
		// hundreds of nodes
		if n < 8 {
			return false
		}
		for k := 0; k < 40; k++ {
			var ids []int
			rel := false
			for i := 0; i < n && i < 10; i++ {
				if g.rng.Intn(2) == 0 {
					if g.x.comps[i].isRel {
						if rel {
							continue
						}
						rel = true
					}
					ids = append(ids, i)
				}
			}
			g.emit("NEW", strIDs(ids))
		}
	case "resetrel":
		// registered relation filters across Reset: parents and children through the pooled tables of
		// one relation node, a retirement, Reset, then the same handles again with the tables paired
		// differently; every registered filter is compared with its original after each stage
		rels := g.relIDs()
		if len(rels) == 0 {
			return false
		}
		rel := g.pick(rels)
		scanAll := func() {
			for k, c := range g.cached {
				if c.alive {
					a := g.emit("QSCAN", "C", strconv.Itoa(k))
					b := g.emit("QSCAN", c.toks...)
					if a != b {
						fmt.Fprintf(g.out, "CHK %d FAIL cached filter %d (%s) selects %q, original selects %q\n", g.idx-1, k, strings.Join(c.toks, " "), a, b)
					}
				}
			}
		}
		stage := func(registerFirst bool) bool {
			var parents []string
			for i := 0; i < 3; i++ {
				r := g.emit("NEW", "-")
				if !strings.HasPrefix(r, "e ") {
					return false
				}
				parents = append(parents, strings.Fields(r)[1])
			}
			if registerFirst {
				live := 0
				for _, c := range g.cached {
					if c.alive {
						live++
					}
				}
				if live < 8 {
					f := []string{"R", "A", strconv.Itoa(rel), parents[g.rng.Intn(2)]}
					if strings.HasPrefix(g.emit("CREG", f...), "n ") {
						g.cached = append(g.cached, cachedInfo{toks: f, alive: true})
					}
				}
			}
			order := g.rng.Perm(3)
			for _, k := range order {
				g.emit("BBATCH", strconv.Itoa(rel), "-", strconv.Itoa(rel), strconv.Itoa(1+g.rng.Intn(3)), parents[k])
			}
			scanAll()
			// one parent goes away with its children: its table is retired
			victim := parents[order[g.rng.Intn(3)]]
			g.emit("BRM", "R", "A", strconv.Itoa(rel), victim)
			g.emit("RM", victim)
			scanAll()
			for _, k := range g.rng.Perm(3) {
				if parents[k] != victim {
					g.emit("BBATCH", strconv.Itoa(rel), "-", strconv.Itoa(rel), "1", parents[k])
				}
			}
			scanAll()
			return true
		}
		if !stage(true) {
			return true
		}
		for i := 0; i < 2; i++ {
			if g.emit("RESET") != "ok" {
				return true
			}
			// after a Reset the same handles are issued again: a filter registered for one of them
			// in the previous round now selects the children of the new holder of that handle
			if !stage(g.rng.Intn(2) == 0) {
				return true
			}
		}
	case "recycledtarget":
		// an entity keeps pointing at a dead target; the next entity created recycles the dead
		// target's id (the free list is LIFO); the child is then re-targeted to that NEW entity -
		// same id, other generation - alone or by a batch call
		rels := g.relIDs()
		if len(rels) == 0 {
			return false
		}
		rel := g.pick(rels)
		rt := g.emit("NEW", "-")
		if !strings.HasPrefix(rt, "e ") {
			return true
		}
		tgt := strings.Fields(rt)[1]
		rc := g.emit("BNEW", strconv.Itoa(rel), "-", strconv.Itoa(rel), tgt)
		if !strings.HasPrefix(rc, "e ") {
			return true
		}
		child := strings.Fields(rc)[1]
		g.emit("RM", tgt)
		rn := g.emit("NEW", "-")
		if !strings.HasPrefix(rn, "e ") {
			return true
		}
		tgt2 := strings.Fields(rn)[1]
		if g.rng.Intn(3) == 0 {
			g.emit("BSETREL", "0", strconv.Itoa(rel), tgt2, "A", strconv.Itoa(rel))
		} else {
			g.emit("RELSET", child, strconv.Itoa(rel), tgt2)
		}
		g.emit("RELGET", child, strconv.Itoa(rel))
		g.emit("VIEW", child)
	case "layoutcross":
		// tables parked in a free list while the registry grows across a layout chunk boundary
		// (16, 32, ...), then re-used: Has/Get with the late IDs must still say "absent"
		n := len(g.x.comps)
		next := (n/16 + 1) * 16
		if len(g.relIDs()) == 0 || next >= g.p.maxComps || next-n > 14 {
			return false
		}
		for k := 0; k < 2+g.rng.Intn(4); k++ {
			g.legalOp("relcycle")
		}
		for len(g.x.comps) <= next {
			before := len(g.x.comps)
			g.register()
			if len(g.x.comps) == before {
				break
			}
		}
		for k := 0; k < 2+g.rng.Intn(4); k++ {
			g.legalOp("relcycle")
		}
	case "relget":
		var cands []int
		for _, s := range al {
			if g.relOf(g.maskOf(s)) >= 0 {
				cands = append(cands, s)
			}
		}
		if len(cands) == 0 {
			return false
		}
		s := g.pick(cands)
		g.emit("RELGET", sl(s), strconv.Itoa(g.relOf(g.maskOf(s))))
	case "relxchg":
		if len(al) == 0 || len(g.relIDs()) == 0 {
			return false
		}
		s := g.pick(al)
		m := g.maskOf(s)
		cur := g.relOf(m)
		var add, rem []int
		rid := cur
		if cur < 0 {
			rid = g.pick(g.relIDs())
			add = append(g.pickAdd(append(m, rid), true, 1), rid)
		} else if g.rng.Intn(3) == 0 && len(g.relIDs()) > 1 {
			// swap the relation component
			rem = []int{cur}
			for {
				rid = g.pick(g.relIDs())
				if rid != cur {
					break
				}
			}
			add = []int{rid}
		} else {
			add = g.pickAdd(m, true, 2)
			var nonrel []int
			for _, i := range m {
				if i != cur {
					nonrel = append(nonrel, i)
				}
			}
			rem = g.pickSub(nonrel, 1)
			if len(add) == 0 && len(rem) == 0 {
				return false
			}
		}
		g.emit("RELXCHG", sl(s), strIDs(add), strIDs(rem), strconv.Itoa(rid), g.pickTarget(s))
	case "bxchg":
		if n == 0 {
			return false
		}
		// choose the change first, then a filter that makes it legal for all matches
		var add, rem []int
		var f []string
		keepRel := -1
		q := strconv.Itoa(b01(g.rng.Float64() < 0.3))
		if len(al) > 0 && g.rng.Float64() < 0.8 {
			m := g.maskOf(g.pick(al))
			rem = g.pickSub(m, 1)
			add = g.pickAdd(m, g.relOf(m) >= 0 && g.relOf(rem) < 0, 2)
			if len(add) == 0 && len(rem) == 0 {
				return false
			}
			// filter: has rem, lacks add, and no relation if a relation is added
			exc := append([]int{}, add...)
			if g.relOf(add) >= 0 {
				for _, r := range g.relIDs() {
					if !contains(exc, r) && !contains(rem, r) {
						exc = append(exc, r)
					}
				}
			}
			inc := append([]int{}, rem...)
			inc = append(inc, g.pickSub(m, 1)...)
			if r := g.relOf(m); r >= 0 && !contains(rem, r) && g.relOf(add) < 0 && g.rng.Intn(2) == 0 {
				keepRel = r
				inc = append(inc, r)
			}
			inc = dedup(inc)
			sort.Ints(inc)
			sort.Ints(exc)
			f = []string{"M", strIDs(inc), strIDs(exc)}
			if k := g.liveCachedWithToks(f); k >= 0 {
				f = []string{"C", strconv.Itoa(k)}
			}
		} else {
			f = g.filterArg()
			add = g.pickAdd(nil, true, 1)
			if len(add) == 0 {
				return false
			}
		}
		rid, tg := "-", "-"
		if g.relOf(add) >= 0 && g.rng.Float64() < 0.6 {
			rid, tg = strconv.Itoa(g.relOf(add)), g.pickTarget(0)
		} else if keepRel >= 0 && g.rng.Float64() < 0.5 {
			// the matching tables keep their relation component: name it with a new target,
			// the zero entity included
			rid, tg = strconv.Itoa(keepRel), g.pickTarget(0)
			if g.rng.Intn(3) == 0 {
				tg = "s0"
			}
		}
		args := append([]string{q, strIDs(add), strIDs(rem), rid, tg}, f...)
		res := g.emit("BXCHG", args...)
		g.afterBatchQ(res)
	case "bsetrel":
		if len(g.relIDs()) == 0 {
			return false
		}
		rel := g.pick(g.relIDs())
		q := strconv.Itoa(b01(g.rng.Float64() < 0.3))
		var f []string
		switch g.rng.Intn(3) {
		case 0:
			f = []string{"A", strconv.Itoa(rel)}
		case 1:
			f = append(append([]string{"R"}, "A", strconv.Itoa(rel)), g.pickTarget(0))
		default:
			f = []string{"M", strconv.Itoa(rel), strIDs(g.pickSub(g.nonRelIDs(), 1))}
		}
		res := g.emit("BSETREL", append([]string{q, strconv.Itoa(rel), g.pickTarget(0)}, f...)...)
		g.afterBatchQ(res)
	case "brm":
		f := g.filterArg()
		if f[0] == "A" && f[1] == "-" && g.rng.Float64() < 0.8 {
			return false // do not wipe the world too often
		}
		g.emit("BRM", f...)
	case "qscan":
		g.emit("QSCAN", g.filterArg()...)
	case "qopen":
		if len(g.openQueries()) >= 6 {
			return false
		}
		g.emit("QUERY", g.filterArg()...)
	case "creg":
		live := 0
		for _, c := range g.cached {
			if c.alive {
				live++
			}
		}
		if live >= 8 {
			return false
		}
		f := g.topFilter()
		res := g.emit("CREG", f...)
		if strings.HasPrefix(res, "n ") {
			g.cached = append(g.cached, cachedInfo{toks: f, alive: true})
		}
	case "cunreg":
		for k, c := range g.cached {
			if c.alive && g.rng.Intn(2) == 0 {
				if g.emit("CUNREG", strconv.Itoa(k)) == "ok" {
					g.cached[k].alive = false
				}
				return true
			}
		}
		return false
	case "cscan":
		var live []int
		for k, c := range g.cached {
			if c.alive {
				live = append(live, k)
			}
		}
		if len(live) == 0 {
			return false
		}
		k := g.pick(live)
		a := g.emit("QSCAN", "C", strconv.Itoa(k))
		b := g.emit("QSCAN", g.cached[k].toks...)
		if a != b {
			fmt.Fprintf(g.out, "CHK %d FAIL cached filter %d (%s) selects %q, original selects %q\n", g.idx-1, k, strings.Join(g.cached[k].toks, " "), a, b)
		}
	case "reset":
		g.emit("RESET")
	case "dumpload":
		// dump this world, load into a fresh second world, compare alive answers
		res := g.emit("DUMP")
		if !strings.HasPrefix(res, "dump") {
			return true
		}
		if g.rng.Float64() < 0.5 {
			return true
		}
		g.loadIntoNewWorld()
	case "reg":
		if len(g.x.comps) >= g.p.maxComps {
			return false
		}
		before := len(g.x.comps)
		g.register()
		if len(g.x.comps) > before && g.rng.Intn(2) == 0 {
			res := g.emit("NEWWITH", g.vals([]int{before}))
			if strings.HasPrefix(res, "e ") {
				g.emit("VIEW", strings.Fields(res)[1])
			}
		}
	case "res":
		if g.p.name == "res" && g.nRes > 0 && g.nRes < ecs.MaskTotalBits && g.rng.Intn(60) == 0 {
			// fill the resource registry to its limit, occupy slots at both ends, reset, look again
			for g.nRes < ecs.MaskTotalBits {
				if !strings.HasPrefix(g.emit("RESREG", strconv.Itoa(1000+g.nRes)), "n ") {
					return true
				}
				g.nRes++
			}
			g.emit("RESREG", strconv.Itoa(1000+g.nRes)) // one too many
			picks := []int{0, g.nRes - 1, g.rng.Intn(g.nRes), g.rng.Intn(g.nRes)}
			for _, i := range picks {
				if !g.x.w.Resources().Has(g.x.resID(i)) {
					g.emit("RESADD", strconv.Itoa(i), strconv.Itoa(1+g.rng.Intn(1000)))
				}
			}
			if g.rng.Intn(3) > 0 {
				g.emit("RESET")
			}
			for _, i := range picks {
				g.emit("RESHAS", strconv.Itoa(i))
				g.emit("RESGET", strconv.Itoa(i))
			}
			return true
		}
		if g.nRes < 6 && (g.nRes == 0 || g.rng.Intn(4) == 0) {
			res := g.emit("RESREG", strconv.Itoa(1000+g.nRes))
			if strings.HasPrefix(res, "n ") {
				g.nRes++
			}
			return true
		}
		i := g.rng.Intn(g.nRes)
		switch g.rng.Intn(4) {
		case 0:
			if g.x.w.Resources().Has(g.x.resID(i)) {
				g.emit("RESRM", strconv.Itoa(i))
			} else {
				g.emit("RESADD", strconv.Itoa(i), strconv.Itoa(1+g.rng.Intn(1000)))
			}
		case 1:
			g.emit("RESGET", strconv.Itoa(i))
		case 2:
			g.emit("RESHAS", strconv.Itoa(i))
		default:
			if !g.x.w.Resources().Has(g.x.resID(i)) {
				g.emit("RESADD", strconv.Itoa(i), strconv.Itoa(1+g.rng.Intn(1000)))
			} else {
				g.emit("RESGET", strconv.Itoa(i))
			}
		}
	case "listen":
		if !g.p.subsRand {
			if g.rng.Intn(3) == 0 {
				g.emit("LISTEN", "off")
			} else {
				g.emit("LISTEN", "63", "-")
			}
			return true
		}
		one := func() (string, string) {
			subs := g.rng.Intn(64)
			comps := "-"
			if g.rng.Intn(3) != 0 && n > 0 {
				c := g.pickSub(seqInts(n), 3)
				sort.Ints(c)
				comps = strIDs(c)
			}
			return strconv.Itoa(subs), comps
		}
		if g.rng.Intn(2) == 0 {
			// a Dispatch over 0-4 sub-listeners, some of them added after construction
			k := g.rng.Intn(5)
			first := g.rng.Intn(k + 1)
			ktok := strconv.Itoa(first)
			if late := g.rng.Intn(k - first + 1); late > 0 && g.rng.Intn(2) == 0 {
				// "K+J": the last J sub-listeners are added AFTER World.SetListener (a Dispatch kept as
				// a resource so that systems can add listeners later: its subscriptions grow while installed)
				ktok += "+" + strconv.Itoa(late)
			}
			args := []string{ktok}
			for i := 0; i < k; i++ {
				a, b := one()
				args = append(args, a, b)
			}
			g.emit("LISTEND", args...)
			return true
		}
		a, b := one()
		g.emit("LISTEN", a, b)
	case "stats":
		g.emit("STATS")
	case "locked":
		g.emit("LOCKED")
	default:
		panic("harness: unknown op kind " + kind)
	}
	return true
}

func seqInts(n int) []int {
	r := make([]int, n)
	for i := range r {
		r[i] = i
	}
	return r
}

func dedup(l []int) []int {
	var r []int
	for _, v := range l {
		if !contains(r, v) {
			r = append(r, v)
		}
	}
	return r
}

func (g *G) nonRelIDs() []int {
	var r []int
	for i, c := range g.x.comps {
		if !c.isRel {
			r = append(r, i)
		}
	}
	return r
}

func (g *G) liveCachedWithToks(f []string) int {
	for k, c := range g.cached {
		if c.alive && strings.Join(c.toks, " ") == strings.Join(f, " ") {
			return k
		}
	}
	return -1
}

// loadIntoNewWorld: the last dump is loaded into a fresh (or populated-then-reset)
// world with another capacity increment; the history continues on the loaded world, so
// every later creation and removal is compared with the model's pool.
func (g *G) loadIntoNewWorld() {
	d := len(g.h.dumps) - 1
	if d > 0 && g.rng.Float64() < 0.4 {
		// an OLDER snapshot: the dumped world has moved on since (a dump is a value)
		d = g.rng.Intn(d)
	}
	ds := "d" + strconv.Itoa(d)
	// refused: the dumped world itself still has (or had) entities
	if g.x.w.Stats().Entities.Total > 0 && g.rng.Float64() < 0.4 {
		g.emit("LOAD", ds)
	}
	oldComps := g.x.comps
	g.nWorlds++
	g.wk = g.nWorlds
	capincs := []int{1, 1, 2, 3, 8, 128}
	mainCap := capincs[g.rng.Intn(len(capincs))]
	g.emit("NEWWORLD", strconv.Itoa(mainCap), strconv.Itoa(g.rng.Intn(3)), strconv.Itoa(ecs.MaskTotalBits))
	g.x = g.h.worlds[g.wk]
	g.cached = nil
	g.nRes = 0
	for _, c := range oldComps {
		g.emit("REG", strconv.Itoa(c.key), strconv.Itoa(b01(c.isRel)), strconv.Itoa(b01(c.zs)))
	}
	if g.rng.Float64() < 0.4 {
		// a world that had entities and was reset is as good as a fresh one
		n := 1 + g.rng.Intn(5)
		for i := 0; i < n; i++ {
			g.emit("NEW", "-")
		}
		if g.rng.Intn(2) == 0 {
			g.emit("RM", sl(1))
		}
		if g.rng.Float64() < 0.25 {
			g.emit("LOAD", ds) // refused: not reset
		}
		g.emit("RESET")
	}
	if g.rng.Float64() < 0.3 {
		// refused: the (empty) world is locked by an open query; nothing may change, and the load
		// succeeds once the query is closed
		if res := g.emit("QUERY", "A", "-"); strings.HasPrefix(res, "q ") {
			g.emit("LOAD", ds)
			g.emit("QCLOSE", strings.Fields(res)[1])
		}
	}
	g.emit("LOAD", ds)
	g.emit("_DUMPCMP", ds)
	g.emit("STATS")
	if g.rng.Float64() < 0.35 {
		// a bystander: a second world loaded from the SAME dump, never touched again; whatever
		// is done to the first one must not show in it (C19)
		withListeners := g.rng.Intn(2) == 0
		if withListeners {
			// both worlds get a Dispatch built from the same (empty) template value, each with its
			// own sub-listeners added afterwards: no event of one world may reach the other's
			g.emit("LISTEND", "0", "63", "-", strconv.Itoa(g.rng.Intn(64)), "-")
		}
		mainWk, mainX, mainCached, mainRes := g.wk, g.x, g.cached, g.nRes
		g.nWorlds++
		g.wk = g.nWorlds
		byCap := mainCap // same configuration: whatever the first world does with the dump, this one does too
		if g.rng.Intn(3) == 0 {
			byCap = capincs[g.rng.Intn(len(capincs))]
		}
		g.emit("NEWWORLD", strconv.Itoa(byCap), strconv.Itoa(g.rng.Intn(3)), strconv.Itoa(ecs.MaskTotalBits))
		g.x = g.h.worlds[g.wk]
		for _, c := range oldComps {
			g.emit("REG", strconv.Itoa(c.key), strconv.Itoa(b01(c.isRel)), strconv.Itoa(b01(c.zs)))
		}
		g.emit("LOAD", ds)
		if withListeners {
			g.emit("LISTEND", "0", "63", "-")
		}
		g.bystanders = append(g.bystanders, g.wk)
		g.wk, g.x, g.cached, g.nRes = mainWk, mainX, mainCached, mainRes
	}
}

// after a Q-variant batch: usually iterate the returned query at once
func (g *G) afterBatchQ(res string) {
	if !strings.HasPrefix(res, "q ") {
		return
	}
	h := strings.Fields(res)[1]
	if g.rng.Float64() < 0.7 {
		g.emit("QSCAN", "H", h)
	}
}

// progress an open query
func (g *G) queryOp() {
	oq := g.openQueries()
	h := strconv.Itoa(g.pick(oq))
	switch g.rng.Intn(8) {
	case 0, 1, 2:
		g.emit("QNEXT", h)
	case 3:
		g.emit("QSTEP", h, strconv.Itoa(1+g.rng.Intn(4)))
	case 4:
		g.emit("QCOUNT", h)
	case 5:
		g.emit("QCLOSE", h)
	case 6:
		g.emit("QSCAN", "H", h)
	default:
		g.emit("LOCKED")
	}
}

func (g *G) history(wk int, nops int) {
	g.wk = wk
	capincs := []int{1, 2, 3, 8, 128}
	relincs := []int{0, 1, 2, 5}
	g.emit("NEWWORLD", strconv.Itoa(capincs[g.rng.Intn(len(capincs))]), strconv.Itoa(relincs[g.rng.Intn(len(relincs))]), strconv.Itoa(ecs.MaskTotalBits))
	g.x = g.h.worlds[wk]
	g.cached = nil
	g.nRes = 0
	// registration: a random permutation of shapes, at least two relation types mostly
	ncomps := g.p.minComps
	if g.p.maxComps > g.p.minComps {
		ncomps += g.rng.Intn(1 + min(g.p.maxComps-g.p.minComps, 8))
	}
	if g.p.name == "registry" {
		// boundary-heavy registry sizes: layout chunks of 16, mask words of 64, the limit
		b := []int{0, 1, 2, 15, 16, 17, 18, 31, 32, 33, 34, 47, 48, 49, 63, 64}
		if ecs.MaskTotalBits > 64 {
			b = append(b, 65, 79, 80, 81, 127, 128, 129, 191, 192, 193, 239, 240, 241, 242, 254, 255, 256)
		}
		ncomps = b[g.rng.Intn(len(b))]
		if g.rng.Intn(4) == 0 {
			ncomps = g.rng.Intn(ecs.MaskTotalBits + 1)
		}
	}
	g.nextK = g.rng.Intn(40) * numShapes
	// keys are consecutive from a random offset: all shapes appear
	parked := false
	for i := 0; i < ncomps; i++ {
		g.register()
		if g.p.name == "registry" && len(g.relIDs()) > 0 {
			// relation tables parked in a free list just before a layout chunk boundary, re-used after it
			if i%16 == 14 && g.rng.Intn(5) < 3 {
				for k := 0; k < 2+g.rng.Intn(4); k++ {
					g.legalOp("relcycle")
				}
				parked = true
			} else if parked && i%16 == 1+g.rng.Intn(2) {
				for k := 0; k < 3+g.rng.Intn(4); k++ {
					g.legalOp("relcycle")
				}
				parked = false
			}
		}
		if g.p.name == "registry" && (i%16 == 0 || i%16 == 15 || g.rng.Intn(6) == 0) {
			// tables created at many registry sizes: the newest ID must be usable at once
			res := g.emit("NEWWITH", g.vals([]int{i}))
			if strings.HasPrefix(res, "e ") {
				g.emit("VIEW", strings.Fields(res)[1])
			}
		}
	}
	if g.p.name == "registry" && ncomps > 0 {
		res := g.emit("NEWWITH", g.vals([]int{ncomps - 1}))
		if strings.HasPrefix(res, "e ") {
			g.emit("VIEW", strings.Fields(res)[1])
		}
		if ncomps == ecs.MaskTotalBits {
			g.register() // one beyond the limit: must panic and leave the registry unchanged
		}
	}
	if g.rng.Float64() < g.p.listener {
		g.emit("LISTEN", "63", "-")
	}
	// total weight table
	kinds := make([]string, 0, len(baseWeights))
	for k := range baseWeights {
		kinds = append(kinds, k)
	}
	sort.Strings(kinds)
	weights := make([]float64, len(kinds))
	total := 0.0
	for i, k := range kinds {
		w := baseWeights[k]
		if m, ok := g.p.w[k]; ok {
			w *= m
		}
		weights[i] = w
		total += w
	}
	for g.nops < nops {
		if oq := g.openQueries(); len(oq) > 0 && g.rng.Float64() < 0.6 {
			g.queryOp()
			continue
		}
		if g.rng.Float64() < g.p.illegal {
			if g.illegalOp() {
				continue
			}
		}
		r := g.rng.Float64() * total
		for i, k := range kinds {
			r -= weights[i]
			if r <= 0 {
				g.legalOp(k)
				break
			}
		}
	}
	g.probe()
}

// probe suffix: makes latent corruption observable.
func (g *G) probe() {
	// close what is open
	for _, h := range g.openQueries() {
		g.emit("QCLOSE", strconv.Itoa(h))
	}
	g.emit("LOCKED")
	g.emit("STATS")
	al := g.alive()
	masks := map[string][]int{}
	for _, s := range al {
		g.emit("VIEW", sl(s))
		m := g.maskOf(s)
		masks[strIDs(m)] = m
	}
	for s := g.x.epoch; s < len(g.x.slots); s++ {
		if s > 0 {
			g.emit("ALIVE", sl(s))
		}
	}
	g.emit("ALIVE", "s0")
	// every registered filter, cached and uncached
	for k, c := range g.cached {
		if c.alive {
			a := g.emit("QSCAN", "C", strconv.Itoa(k))
			b := g.emit("QSCAN", c.toks...)
			if a != b {
				fmt.Fprintf(g.out, "CHK %d FAIL cached filter %d (%s) selects %q, original selects %q\n", g.idx-1, k, strings.Join(g.cached[k].toks, " "), a, b)
			}
		}
	}
	// one new entity in every node shape seen: must read zero
	keys := make([]string, 0, len(masks))
	for k := range masks {
		keys = append(keys, k)
	}
	sort.Strings(keys)
	for _, k := range keys {
		res := g.emit("NEW", k)
		if strings.HasPrefix(res, "e ") {
			g.emit("VIEW", strings.Fields(res)[1])
		}
	}
	// a fresh target for every relation shape: forces reuse of retired tables
	res := g.emit("NEW", "-")
	if strings.HasPrefix(res, "e ") {
		tg := strings.Fields(res)[1]
		for _, k := range keys {
			m := masks[k]
			if rel := g.relOf(m); rel >= 0 {
				r2 := g.emit("BNEW", k, "-", strconv.Itoa(rel), tg)
				if strings.HasPrefix(r2, "e ") {
					g.emit("VIEW", strings.Fields(r2)[1])
				}
				g.emit("QSCAN", "R", "A", strconv.Itoa(rel), tg)
			}
		}
	}
	g.emit("QSCAN", "A", "-")
	g.emit("STATS")
	g.emit("LOCKED")
}

func min(a, b int) int {
	if a < b {
		return a
	}
	return b
}

func newG(seed int64, prof string, out *bufio.Writer) *G {
	return &G{rng: rand.New(rand.NewSource(seed)), h: newH(), out: out, p: profile(prof), stats: map[string]int{}}
}
