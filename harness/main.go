package main

// harness gen    -seed S -profile P -count N -minlen A -maxlen B -out DIR
// harness replay FILE            (re-executes the OP lines of FILE, prints the trace)

import (
	"bufio"
	"encoding/json"
	"flag"
	"fmt"
	"math/rand"
	"os"
	"path/filepath"
	"strconv"
	"strings"
)

func main() {
	if len(os.Args) < 2 {
		fmt.Fprintln(os.Stderr, "usage: harness gen|replay ...")
		os.Exit(2)
	}
	switch os.Args[1] {
	case "gen":
		genMain(os.Args[2:])
	case "replay":
		replayMain(os.Args[2:])
	case "masks":
		masksMain(os.Args[2:])
	default:
		fmt.Fprintln(os.Stderr, "unknown mode", os.Args[1])
		os.Exit(2)
	}
}

func genMain(args []string) {
	fs := flag.NewFlagSet("gen", flag.ExitOnError)
	seed := fs.Int64("seed", 1, "")
	prof := fs.String("profile", "mixed", "")
	count := fs.Int("count", 10, "")
	minlen := fs.Int("minlen", 0, "")
	maxlen := fs.Int("maxlen", 0, "")
	outdir := fs.String("out", ".", "")
	fs.Parse(args)
	os.MkdirAll(*outdir, 0o755)
	master := rand.New(rand.NewSource(*seed))
	agg := map[string]int{}
	totalOps, totalPanics := 0, 0
	for i := 0; i < *count; i++ {
		hs := master.Int63()
		name := filepath.Join(*outdir, fmt.Sprintf("h%05d.trace", i))
		f, err := os.Create(name)
		if err != nil {
			panic(err)
		}
		out := bufio.NewWriter(f)
		g := newG(hs, *prof, out)
		lo, hi := g.p.length[0], g.p.length[1]
		if *minlen > 0 {
			lo = *minlen
		}
		if *maxlen > 0 {
			hi = *maxlen
		}
		n := lo
		if hi > lo {
			n += g.rng.Intn(hi - lo)
		}
		fmt.Fprintf(out, "# profile %s seed %d history %d hseed %d\n", *prof, *seed, i, hs)
		g.history(0, n)
		out.Flush()
		f.Close()
		for k, v := range g.stats {
			agg[k] += v
		}
		totalOps += g.nops
		totalPanics += g.npanic
	}
	agg["_ops"] = totalOps
	agg["_panics"] = totalPanics
	b, _ := json.Marshal(agg)
	os.WriteFile(filepath.Join(*outdir, "stats.json"), b, 0o644)
}

// replay: execute the OP lines of a file against the implementation.
func replayMain(args []string) {
	f, err := os.Open(args[0])
	if err != nil {
		panic(err)
	}
	defer f.Close()
	h := newH()
	sc := bufio.NewScanner(f)
	sc.Buffer(make([]byte, 1<<20), 1<<24)
	out := bufio.NewWriter(os.Stdout)
	defer out.Flush()
	for sc.Scan() {
		line := sc.Text()
		if !strings.HasPrefix(line, "OP ") {
			if strings.HasPrefix(line, "# profile") {
				fmt.Fprintln(out, line)
			}
			continue
		}
		toks := strings.Fields(line)
		idx, _ := strconv.Atoi(toks[1])
		wk, _ := strconv.Atoi(toks[2][1:])
		fmt.Fprintln(out, line)
		func() {
			defer func() {
				if r := recover(); r != nil {
					// a harness-level failure (e.g. a slot that no longer exists after
					// shrinking): report the op as skipped
					fmt.Fprintf(out, "R %d skipped %v\n", idx, r)
				}
			}()
			for _, l := range h.run(idx, wk, toks[3], toks[4:]) {
				fmt.Fprintln(out, l)
			}
		}()
	}
}
