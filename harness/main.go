package main

// harness gen    -seed S -profile P -count N -minlen A -maxlen B -out DIR
// harness replay FILE            (re-executes the OP lines of FILE, prints the trace)

import (
	"bufio"
	"encoding/json"
	"flag"
	"fmt"
	"math/rand"
	"io"
	"os"
	"os/exec"
	"path/filepath"
	"runtime"
	"runtime/debug"
	"strconv"
	"strings"
	"sync"
	"time"

	"github.com/mlange-42/arche/ecs"
)

func main() {
	if len(os.Args) < 2 {
		fmt.Fprintln(os.Stderr, "usage: harness gen|replay ...")
		os.Exit(2)
	}
	switch os.Args[1] {
	case "gen":
		genMain(os.Args[2:])
	case "one":
		oneMain(os.Args[2:])
	case "replay":
		replayMain(os.Args[2:])
	case "masks":
		masksMain(os.Args[2:])
	case "par":
		parMain(os.Args[2:])
	case "genwrap":
		genwrapMain()
	default:
		fmt.Fprintln(os.Stderr, "unknown mode", os.Args[1])
		os.Exit(2)
	}
}

func genMain(args []string) {
	fs := flag.NewFlagSet("gen", flag.ExitOnError)
	seed := fs.Int64("seed", 1, "")
	prof := fs.String("profile", "mixed", "")
	count := fs.Int("count", 10, "")
	minlen := fs.Int("minlen", 0, "")
	maxlen := fs.Int("maxlen", 0, "")
	outdir := fs.String("out", ".", "")
	fs.Parse(args)
	os.MkdirAll(*outdir, 0o755)
	master := rand.New(rand.NewSource(*seed))
	agg := map[string]int{}
	// every history runs in its own process: a fault in the implementation (memory
	// corruption after a broken index fix-up, say) must not take the other histories down
	type job struct {
		i  int
		hs int64
	}
	jobs := make(chan job)
	var mu sync.Mutex
	var wg sync.WaitGroup
	for w := 0; w < 12; w++ {
		wg.Add(1)
		go func() {
			defer wg.Done()
			for j := range jobs {
				name := filepath.Join(*outdir, fmt.Sprintf("h%05d.trace", j.i))
				cmd := exec.Command(os.Args[0], "one", "-hseed", strconv.FormatInt(j.hs, 10), "-profile", *prof,
					"-minlen", strconv.Itoa(*minlen), "-maxlen", strconv.Itoa(*maxlen), "-out", name,
					"-tag", fmt.Sprintf("seed %d history %d", *seed, j.i))
				errOut, err := cmd.CombinedOutput()
				if err != nil {
					// the child died: keep the partial trace and mark the crash
					f, _ := os.OpenFile(name, os.O_APPEND|os.O_WRONLY|os.O_CREATE, 0o644)
					msg := strings.SplitN(string(errOut), "\n", 4)
					fmt.Fprintf(f, "CRASH %s\n", strings.Join(msg[:min(3, len(msg))], " | "))
					f.Close()
				}
				if b, err := os.ReadFile(name + ".stats"); err == nil {
					st := map[string]int{}
					json.Unmarshal(b, &st)
					mu.Lock()
					for k, v := range st {
						agg[k] += v
					}
					mu.Unlock()
					os.Remove(name + ".stats")
				}
			}
		}()
	}
	for i := 0; i < *count; i++ {
		jobs <- job{i, master.Int63()}
	}
	close(jobs)
	wg.Wait()
	b, _ := json.Marshal(agg)
	os.WriteFile(filepath.Join(*outdir, "stats.json"), b, 0o644)
}

func oneMain(args []string) {
	fs := flag.NewFlagSet("one", flag.ExitOnError)
	hs := fs.Int64("hseed", 1, "")
	prof := fs.String("profile", "mixed", "")
	minlen := fs.Int("minlen", 0, "")
	maxlen := fs.Int("maxlen", 0, "")
	name := fs.String("out", "h.trace", "")
	tag := fs.String("tag", "", "")
	fs.Parse(args)
	debug.SetPanicOnFault(true)
	f, err := os.Create(*name)
	if err != nil {
		panic(err)
	}
	out := bufio.NewWriterSize(f, 1<<16)
	g := newG(*hs, *prof, out)
	g.flushEach = true
	lo, hi := g.p.length[0], g.p.length[1]
	if *minlen > 0 {
		lo = *minlen
	}
	if *maxlen > 0 {
		hi = *maxlen
	}
	n := lo
	if hi > lo {
		n += g.rng.Intn(hi - lo)
	}
	fmt.Fprintf(out, "# profile %s %s hseed %d\n", *prof, *tag, *hs)
	g.history(0, n)
	out.Flush()
	f.Close()
	g.stats["_ops"] = g.nops
	g.stats["_panics"] = g.npanic
	b, _ := json.Marshal(g.stats)
	os.WriteFile(*name+".stats", b, 0o644)
}

// replay: execute the OP lines of a file against the implementation.
//   replay [-raw] [-gc] [-twice] FILE
func replayMain(args []string) {
	twice := false
	for len(args) > 1 {
		switch args[0] {
		case "-raw":
			rawMode = true
		case "-gc":
			debug.SetGCPercent(1)
			go func() {
				for {
					runtime.GC()
					time.Sleep(50 * time.Microsecond)
				}
			}()
		case "-twice":
			twice = true
		}
		args = args[1:]
	}
	replayFile(args[0], os.Stdout)
	if twice {
		fmt.Println("=====")
		replayFile(args[0], os.Stdout)
	}
}

func replayFile(name string, w io.Writer) {
	f, err := os.Open(name)
	if err != nil {
		panic(err)
	}
	defer f.Close()
	debug.SetPanicOnFault(true)
	h := newH()
	sc := bufio.NewScanner(f)
	sc.Buffer(make([]byte, 1<<20), 1<<24)
	out := bufio.NewWriter(w)
	defer out.Flush()
	for sc.Scan() {
		line := sc.Text()
		if !strings.HasPrefix(line, "OP ") {
			if strings.HasPrefix(line, "# profile") {
				fmt.Fprintln(out, line)
			}
			continue
		}
		toks := strings.Fields(line)
		idx, _ := strconv.Atoi(toks[1])
		wk, _ := strconv.Atoi(toks[2][1:])
		fmt.Fprintln(out, line)
		func() {
			defer func() {
				if r := recover(); r != nil {
					// a harness-level failure (e.g. a slot that no longer exists after
					// shrinking): report the op as skipped
					fmt.Fprintf(out, "R %d skipped %v\n", idx, r)
				}
			}()
			for _, l := range h.run(idx, wk, toks[3], toks[4:]) {
				fmt.Fprintln(out, l)
			}
		}()
	}
}

// par: replay every given trace in its own goroutine on its own worlds (the documented
// pattern for parallel simulations), writing each output to FILE.par; the caller
// compares it with the solo replay.  Built with -race for C19.
func parMain(args []string) {
	rawMode = true
	var wg sync.WaitGroup
	for _, name := range args {
		wg.Add(1)
		go func(name string) {
			defer wg.Done()
			f, err := os.Create(name + ".par")
			if err != nil {
				panic(err)
			}
			defer f.Close()
			replayFile(name, f)
		}(name)
	}
	wg.Wait()
}

// genwrap: the honest replay of known finding K1 (about two minutes): 2^32 create/remove
// cycles on one id wrap the uint32 generation, after which the very first handle is
// reported alive again and is re-issued.
func genwrapMain() {
	w := ecs.NewWorld()
	first := w.NewEntity()
	w.RemoveEntity(first)
	for i := uint64(0); i < (1<<32)-1; i++ {
		e := w.NewEntity()
		if e == first {
			fmt.Printf("K1 reproduced after %d cycles: handle %v re-issued, Alive(first)=%v\n", i+1, e, w.Alive(first))
			return
		}
		w.RemoveEntity(e)
	}
	fmt.Printf("K1 not reproduced: Alive(first)=%v\n", w.Alive(first))
}
