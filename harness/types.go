package main

// Component type universe.  Types are built at run time with reflect so that a world
// can register up to MaskTotalBits distinct types of many shapes:
// payload structs of several sizes and alignments, zero-sized structs, structs that
// embed ecs.Relation first (relations), second, or hold it under another field name
// (not relations), and non-struct types.

import (
	"fmt"
	"reflect"
	"unsafe"

	"github.com/mlange-42/arche/ecs"
)

var relationType = reflect.TypeOf(ecs.Relation{})

var payloadSizes = []int{1, 2, 3, 4, 8, 12, 16, 24, 40, 5}

// shape classes (key % numShapes)
const (
	shPayload = iota
	shRelation
	shZero
	shZeroRelation
	shRelSecond
	shRelNamed
	shNonStruct
	shAligned8
	numShapes
)

type compType struct {
	key   int
	tp    reflect.Type
	size  int
	isRel bool // what the property says isRelation must report
	zs    bool
}

func arr(n int, elem reflect.Type) reflect.Type { return reflect.ArrayOf(n, elem) }

var u8 = reflect.TypeOf(uint8(0))
var u64 = reflect.TypeOf(uint64(0))

// pointerKeyBase: key k+pointerKeyBase is the POINTER type *T of the type T of key k.  *T and T
// are distinct types and must get distinct IDs (C16).  The harness never stores through such a
// component (its values stay nil), so it is treated like a zero-sized one.
const pointerKeyBase = 100000

// typeForKey builds the component type for a key; deterministic.
func typeForKey(key int) compType {
	if key >= pointerKeyBase {
		el := typeForKey(key - pointerKeyBase)
		return compType{key: key, tp: reflect.PointerTo(el.tp), size: 0, isRel: false, zs: true}
	}
	shape := key % numShapes
	k := key / numShapes
	size := payloadSizes[k%len(payloadSizes)]
	fname := fmt.Sprintf("P%d", key)
	var tp reflect.Type
	isRel := false
	switch shape {
	case shPayload:
		tp = reflect.StructOf([]reflect.StructField{{Name: fname, Type: arr(size, u8)}})
	case shRelation:
		tp = reflect.StructOf([]reflect.StructField{
			{Name: "Relation", Type: relationType, Anonymous: true},
			{Name: fname, Type: arr(size, u8)}})
		isRel = true
	case shZero:
		tp = reflect.StructOf([]reflect.StructField{{Name: fname, Type: arr(0, u8)}})
	case shZeroRelation:
		tp = reflect.StructOf([]reflect.StructField{
			{Name: "Relation", Type: relationType, Anonymous: true},
			{Name: fname, Type: arr(0, u8)}})
		isRel = true
	case shRelSecond:
		tp = reflect.StructOf([]reflect.StructField{
			{Name: fname, Type: arr(size, u8)},
			{Name: "Relation", Type: relationType, Anonymous: true}})
	case shRelNamed:
		tp = reflect.StructOf([]reflect.StructField{
			{Name: fmt.Sprintf("Rel%d", key), Type: relationType},
			{Name: fname, Type: arr(size, u8)}})
	case shNonStruct:
		// distinct array lengths give distinct types
		tp = arr(41+k, u8)
	case shAligned8:
		tp = reflect.StructOf([]reflect.StructField{{Name: fname, Type: arr(1+k%3, u64)}})
	}
	return compType{key: key, tp: tp, size: int(tp.Size()), isRel: isRel, zs: tp.Size() == 0}
}

// Payload encoding: value v in 0..255; byte i is v*(2i+1) mod 256.  v = 0 is the zero
// value; every byte determines v, so a torn or shifted copy is detected.
func encodeInto(p unsafe.Pointer, size int, v int) {
	b := unsafe.Slice((*byte)(p), size)
	for i := range b {
		b[i] = byte(v * (2*i + 1))
	}
}

// decode returns the value and whether all bytes are consistent.
func decodeFrom(p unsafe.Pointer, size int) (int, bool) {
	if size == 0 {
		return 0, true
	}
	b := unsafe.Slice((*byte)(p), size)
	v := int(b[0])
	for i := range b {
		if b[i] != byte(v*(2*i+1)) {
			return v, false
		}
	}
	return v, true
}

// newValue allocates a *T holding the encoding of v, as interface{}.
func newValue(ct compType, v int) interface{} {
	pv := reflect.New(ct.tp)
	if ct.size > 0 {
		encodeInto(pv.UnsafePointer(), ct.size, v)
	}
	return pv.Interface()
}
