package main

// Executor: runs one trace operation against the real arche packages and returns the
// canonical result line(s).  The same textual operations are replayed through the
// Coq model by the OCaml driver.

import (
	"encoding/json"
	"fmt"
	"sort"
	"strconv"
	"strings"
	"sync"
	"unsafe"

	"github.com/mlange-42/arche/ecs"
	"github.com/mlange-42/arche/ecs/event"
	"github.com/mlange-42/arche/filter"
	"github.com/mlange-42/arche/listener"
)

// rawMode: print raw handles (id.gen), events in emission order and query results in
// visit order - used where the implementation is compared with itself (C13, C19).
var rawMode bool

type rawEvent struct {
	e       ecs.EntityEvent
	locked  bool
	aliveOK bool
	to      int
}

type W struct {
	w       *ecs.World
	tb      int
	comps   []compType // by component ID
	keyToID map[int]int
	slots   []ecs.Entity
	rev     map[ecs.Entity]int
	queries []*ecs.Query
	qopen   []bool
	qadv    []bool // query has been advanced (Next/Step) at least once
	cached  []*ecs.CachedFilter
	events  []rawEvent
	dead    bool
	resTok  map[int]*resToken // resource id -> token object currently added (harness view)
	cb      *listener.Callback
	chk     []string // failed internal consistency checks of the current op
	epoch   int      // first slot of the current reset epoch
}

type resToken struct{ tok int }

type H struct {
	worlds map[int]*W
	dumps  []ecs.EntityDump
}

func newH() *H { return &H{worlds: map[int]*W{}} }

func (x *W) addSlot(e ecs.Entity) int {
	x.slots = append(x.slots, e)
	x.rev[e] = len(x.slots) - 1
	return len(x.slots) - 1
}

func (x *W) slotOf(e ecs.Entity) string {
	if rawMode {
		return fmt.Sprintf("%d.%d", e.ID(), e.Generation())
	}
	if e.IsZero() {
		return "s0"
	}
	if s, ok := x.rev[e]; ok {
		return "s" + strconv.Itoa(s)
	}
	return fmt.Sprintf("u%d.%d", e.ID(), e.Generation())
}

func (x *W) ent(tok string) ecs.Entity {
	k, err := strconv.Atoi(tok[1:])
	if err != nil || k >= len(x.slots) {
		panic("harness: bad slot " + tok)
	}
	return x.slots[k]
}

func ints(tok string) []int {
	if tok == "-" || tok == "" {
		return nil
	}
	parts := strings.Split(tok, ",")
	r := make([]int, len(parts))
	for i, p := range parts {
		v, err := strconv.Atoi(p)
		if err != nil {
			panic("harness: bad int list " + tok)
		}
		r[i] = v
	}
	return r
}

// ids builds ecs.ID values.  ecs.ID has an unexported field, so IDs are obtained from
// the registry (ComponentIDs) and looked up by number.
func (x *W) id(i int) ecs.ID {
	all := ecs.ComponentIDs(x.w)
	if i < len(all) {
		return all[i]
	}
	panic(fmt.Sprintf("harness: component id %d not registered", i))
}

func (x *W) ids(tok string) []ecs.ID {
	is := ints(tok)
	r := make([]ecs.ID, len(is))
	for k, i := range is {
		r[k] = x.id(i)
	}
	return r
}

func idNum(id ecs.ID) int { return int(*(*uint8)(unsafe.Pointer(&id))) }

func (x *W) pairs(tok string) []ecs.Component {
	if tok == "-" || tok == "" {
		return nil
	}
	parts := strings.Split(tok, ",")
	r := make([]ecs.Component, len(parts))
	for k, p := range parts {
		kv := strings.Split(p, "=")
		i, _ := strconv.Atoi(kv[0])
		v, _ := strconv.Atoi(kv[1])
		r[k] = ecs.Component{ID: x.id(i), Comp: newValue(x.comps[i], v)}
	}
	return r
}

func strIDs(l []int) string {
	if len(l) == 0 {
		return "-"
	}
	s := make([]string, len(l))
	for i, v := range l {
		s[i] = strconv.Itoa(v)
	}
	return strings.Join(s, ",")
}

func (x *W) maskIDs(m *ecs.Mask) []int {
	var r []int
	for i := 0; i < len(x.comps); i++ {
		if m.Get(x.id(i)) {
			r = append(r, i)
		}
	}
	// bits beyond the registered ids are reported too (they must not be set)
	return r
}

func (x *W) strMask(m *ecs.Mask) string { return strIDs(x.maskIDs(m)) }

func sortedIDs(l []ecs.ID) string {
	r := make([]int, len(l))
	for i, id := range l {
		r[i] = idNum(id)
	}
	sort.Ints(r)
	return strIDs(r)
}

func optID(p *ecs.ID) string {
	if p == nil {
		return "-"
	}
	return strconv.Itoa(idNum(*p))
}

func b01(b bool) int {
	if b {
		return 1
	}
	return 0
}

func (x *W) strEvent(r rawEvent) string {
	e := r.e
	return fmt.Sprintf("e=%s add=%s rem=%s aids=%s rids=%s orel=%s nrel=%s otg=%s types=%d locked=%d to=%d",
		x.slotOf(e.Entity), x.strMask(&e.Added), x.strMask(&e.Removed),
		sortedIDs(e.AddedIDs), sortedIDs(e.RemovedIDs), optID(e.OldRelation), optID(e.NewRelation),
		x.slotOf(e.OldTarget), int(e.EventTypes), b01(r.locked), r.to)
}

// view of an alive entity through the World API.
func (x *W) view(e ecs.Entity) string {
	m := x.w.Mask(e)
	ids := x.maskIDs(&m)
	vals := make([]string, 0, len(ids))
	target := "-"
	for _, i := range ids {
		p := x.w.Get(e, x.id(i))
		if p == nil {
			vals = append(vals, fmt.Sprintf("%d=nil", i))
			continue
		}
		v, ok := decodeFrom(p, x.comps[i].size)
		if !ok {
			vals = append(vals, fmt.Sprintf("%d=torn%d", i, v))
		} else {
			vals = append(vals, fmt.Sprintf("%d=%d", i, v))
		}
		if x.comps[i].isRel {
			target = x.slotOf(x.w.Relations().Get(e, x.id(i)))
		}
	}
	// Has / Ids must agree with Mask
	wids := x.w.Ids(e)
	if sortedIDs(wids) != strIDs(ids) {
		x.chk = append(x.chk, fmt.Sprintf("Ids %s != Mask %s", sortedIDs(wids), strIDs(ids)))
	}
	for i := range x.comps {
		has := x.w.Has(e, x.id(i))
		if has != m.Get(x.id(i)) {
			x.chk = append(x.chk, fmt.Sprintf("Has(%d)=%v disagrees with Mask", i, has))
		}
		if (x.w.Get(e, x.id(i)) != nil) != has {
			x.chk = append(x.chk, fmt.Sprintf("Get(%d) nil-ness disagrees with Has=%v", i, has))
		}
	}
	vs := "-"
	if len(vals) > 0 {
		vs = strings.Join(vals, ",")
	}
	return fmt.Sprintf("v %s | %s | %s", strIDs(ids), vs, target)
}

// view of the entity under a query cursor, through the Query API, checked against the
// world's own answers for that entity.
func (x *W) qview(q *ecs.Query) string {
	e := q.Entity()
	m := q.Mask()
	ids := x.maskIDs(&m)
	vals := make([]string, 0, len(ids))
	target := "-"
	for _, i := range ids {
		p := q.Get(x.id(i))
		if p == nil {
			vals = append(vals, fmt.Sprintf("%d=nil", i))
			continue
		}
		if p != x.w.Get(e, x.id(i)) {
			x.chk = append(x.chk, fmt.Sprintf("Query.Get(%d) pointer differs from World.Get", i))
		}
		v, ok := decodeFrom(p, x.comps[i].size)
		if !ok {
			vals = append(vals, fmt.Sprintf("%d=torn%d", i, v))
		} else {
			vals = append(vals, fmt.Sprintf("%d=%d", i, v))
		}
		if x.comps[i].isRel {
			t := q.Relation(x.id(i))
			target = x.slotOf(t)
			if t != x.w.Relations().Get(e, x.id(i)) {
				x.chk = append(x.chk, "Query.Relation differs from Relations.Get")
			}
		}
	}
	wm := x.w.Mask(e)
	if wm != m {
		x.chk = append(x.chk, "Query.Mask differs from World.Mask")
	}
	if sortedIDs(q.Ids()) != strIDs(ids) {
		x.chk = append(x.chk, "Query.Ids differs from Query.Mask")
	}
	for i := range x.comps {
		if q.Has(x.id(i)) != m.Get(x.id(i)) {
			x.chk = append(x.chk, fmt.Sprintf("Query.Has(%d) disagrees with Query.Mask", i))
		}
	}
	vs := "-"
	if len(vals) > 0 {
		vs = strings.Join(vals, ",")
	}
	return fmt.Sprintf("v %s | %s | %s", strIDs(ids), vs, target)
}

// ---- filters ----

func (x *W) mask(tok string) ecs.Mask { return ecs.All(x.ids(tok)...) }

func (x *W) parseFilter(toks []string) (ecs.Filter, []string) {
	switch toks[0] {
	case "A":
		m := x.mask(toks[1])
		return m, toks[2:]
	case "M":
		return &ecs.MaskFilter{Include: x.mask(toks[1]), Exclude: x.mask(toks[2])}, toks[3:]
	case "X":
		f := x.mask(toks[1]).Exclusive()
		return &f, toks[2:]
	case "ANY":
		return filter.Any(x.ids(toks[1])...), toks[2:]
	case "NONE":
		return filter.NoneOf(x.ids(toks[1])...), toks[2:]
	case "ANYNOT":
		return filter.AnyNot(x.ids(toks[1])...), toks[2:]
	case "AND":
		a, r := x.parseFilter(toks[1:])
		b, r2 := x.parseFilter(r)
		return filter.And(a, b), r2
	case "OR":
		a, r := x.parseFilter(toks[1:])
		b, r2 := x.parseFilter(r)
		return filter.Or(a, b), r2
	case "XOR":
		a, r := x.parseFilter(toks[1:])
		b, r2 := x.parseFilter(r)
		return filter.XOr(a, b), r2
	case "NOT":
		a, r := x.parseFilter(toks[1:])
		return filter.Not(a), r
	case "R":
		a, r := x.parseFilter(toks[1:])
		rf := ecs.NewRelationFilter(a, x.ent(r[0]))
		return &rf, r[1:]
	}
	panic("harness: bad filter token " + toks[0])
}

func (x *W) parseFarg(toks []string) ecs.Filter {
	if toks[0] == "C" {
		k, _ := strconv.Atoi(toks[1])
		if k < len(x.cached) {
			return x.cached[k] // possibly a stale (unregistered) handle: the library must refuse it
		}
		panic("harness: cached filter not available")
	}
	f, _ := x.parseFilter(toks)
	return f
}

// ---- builder ----

func (x *W) builder(ids, vals, rel string) *ecs.Builder {
	var b *ecs.Builder
	if vals == "-" {
		b = ecs.NewBuilder(x.w, x.ids(ids)...)
	} else {
		is := ints(ids)
		vs := ints(vals)
		comps := make([]ecs.Component, len(is))
		for k, i := range is {
			comps[k] = ecs.Component{ID: x.id(i), Comp: newValue(x.comps[i], vs[k])}
		}
		b = ecs.NewBuilderWith(x.w, comps...)
	}
	if rel != "-" {
		r, _ := strconv.Atoi(rel)
		b = b.WithRelation(x.id(r))
	}
	return b
}

func (x *W) created(e ecs.Entity) string {
	k := x.addSlot(e)
	if rawMode {
		return fmt.Sprintf("e s%d %d.%d", k, e.ID(), e.Generation())
	}
	return "e s" + strconv.Itoa(k)
}

func (x *W) newSlots(es []ecs.Entity) string {
	first := len(x.slots)
	for _, e := range es {
		x.addSlot(e)
	}
	if rawMode {
		return fmt.Sprintf("es %d s%d %v", len(es), first, es)
	}
	return fmt.Sprintf("es %d s%d", len(es), first)
}

// allEntities lists the alive entities through a plain query (used only to discover
// the handles NewBatch does not return).
func (x *W) allEntities() []ecs.Entity {
	var es []ecs.Entity
	q := x.w.Query(ecs.All())
	for q.Next() {
		es = append(es, q.Entity())
	}
	return es
}

// digest: every observable of the world (entities, component sets, values, targets,
// resources, lock state, registry size), taken through the public API; used around calls
// that are expected to fail (C10: a failed single-entity call changes nothing).
func (x *W) digest() (s string) {
	defer func() {
		if r := recover(); r != nil {
			s = "unavailable"
		}
	}()
	var sb strings.Builder
	st := x.w.Stats()
	fmt.Fprintf(&sb, "used=%d locked=%v comps=%d cached=%d;", st.Entities.Used, x.w.IsLocked(), len(ecs.ComponentIDs(x.w)), st.CachedFilters)
	saved := x.chk
	var rows []string
	for _, e := range x.allEntities() {
		rows = append(rows, fmt.Sprintf("%v:%s", e, x.view(e)))
	}
	x.chk = saved
	sort.Strings(rows)
	sb.WriteString(strings.Join(rows, ";"))
	for i, id := range ecs.ResourceIDs(x.w) {
		fmt.Fprintf(&sb, ";r%d=%v/%p", i, x.w.Resources().Has(id), x.w.Resources().Get(id))
	}
	return sb.String()
}

// aliveDigest: the Alive answer for every handle this world has ever issued or loaded.
func (x *W) aliveDigest() (s string) {
	defer func() {
		if r := recover(); r != nil {
			s = "|alive-unavailable"
		}
	}()
	b := make([]byte, 0, len(x.slots)+1)
	b = append(b, '|')
	for _, e := range x.slots {
		if x.w.Alive(e) {
			b = append(b, '1')
		} else {
			b = append(b, '0')
		}
	}
	return string(b)
}

func (x *W) installListener(subs int, comps string) {
	cb := x.callback(0, subs, comps)
	x.cb = &cb
	x.w.SetListener(x.cb)
}

// installDispatch: the first k sub-listeners go to NewDispatch, the rest are added later.
var dispatchTemplate = listener.NewDispatch()

// events delivered to a listener of another world (C19); reported with the next operation
var crossTalk struct {
	sync.Mutex
	msgs []string
}

func (x *W) installDispatch(k int, late int, specs []string) string {
	var cbs []*listener.Callback
	for i := 0; i+1 < len(specs); i += 2 {
		s, _ := strconv.Atoi(specs[i])
		cb := x.callback(i/2, s, specs[i+1])
		cbs = append(cbs, &cb)
	}
	var first []ecs.Listener
	for i := 0; i < k && i < len(cbs); i++ {
		first = append(first, cbs[i])
	}
	var d listener.Dispatch
	if k == 0 {
		// a copy of one template value shared by all worlds of the process (Dispatch is a value
		// type; NewDispatch returns it by value): the copies must be independent
		d = dispatchTemplate
	} else {
		d = listener.NewDispatch(first...)
	}
	early := len(cbs) - late
	if early < k {
		early = k
	}
	for i := k; i < early && i < len(cbs); i++ {
		d.AddListener(cbs[i])
	}
	x.cb = nil
	x.w.SetListener(&d)
	// sub-listeners added while the Dispatch is installed
	for i := early; i < len(cbs); i++ {
		d.AddListener(cbs[i])
	}
	// what the Dispatch presents to the world after all additions (model: outer_cfg)
	comps := "nil"
	if c := d.Components(); c != nil {
		comps = x.strMask(c)
	}
	return fmt.Sprintf("cfg=%d/%s", int(d.Subscriptions()), comps)
}

func (x *W) callback(to int, subs int, comps string) listener.Callback {
	cb := listener.NewCallback(func(w *ecs.World, e ecs.EntityEvent) {
		if w != x.w {
			crossTalk.Lock()
			if len(crossTalk.msgs) < 3 {
				crossTalk.msgs = append(crossTalk.msgs, "event of another world delivered to this world's listener")
			}
			crossTalk.Unlock()
			return
		}
		re := rawEvent{e: e, locked: w.IsLocked(), to: to}
		// copy the id slices: the documentation forbids keeping them
		re.e.AddedIDs = append([]ecs.ID{}, e.AddedIDs...)
		re.e.RemovedIDs = append([]ecs.ID{}, e.RemovedIDs...)
		if e.OldRelation != nil {
			v := *e.OldRelation
			re.e.OldRelation = &v
		}
		if e.NewRelation != nil {
			v := *e.NewRelation
			re.e.NewRelation = &v
		}
		if !w.Alive(e.Entity) {
			x.chk = append(x.chk, "event for an entity that is not alive at delivery")
		} else if e.EventTypes&event.EntityRemoved != 0 {
			// the entity must still be inspectable with its old components
			m := w.Mask(e.Entity)
			if m != e.Removed {
				x.chk = append(x.chk, "removal event: entity mask differs from Removed mask")
			}
		}
		x.events = append(x.events, re)
	}, event.Subscription(subs), x.ids(comps)...)
	return cb
}

// exec runs one operation and returns the result text.  Panics of the library are
// mapped to "panic"; harness-internal errors re-panic with a "harness:" prefix.
func (h *H) exec(wk int, cmd string, a []string, idxSeed int) (res string, msg string) {
	if cmd == "NEWWORLD" {
		capinc, _ := strconv.Atoi(a[0])
		relinc, _ := strconv.Atoi(a[1])
		tb, _ := strconv.Atoi(a[2])
		if tb != ecs.MaskTotalBits {
			panic(fmt.Sprintf("harness: trace is for MaskTotalBits=%d, build has %d", tb, ecs.MaskTotalBits))
		}
		w := ecs.NewWorld(ecs.NewConfig().WithCapacityIncrement(capinc).WithRelationCapacityIncrement(relinc))
		x := &W{w: &w, tb: tb, keyToID: map[int]int{}, rev: map[ecs.Entity]int{}, resTok: map[int]*resToken{}}
		x.slots = append(x.slots, ecs.Entity{})
		h.worlds[wk] = x
		return "ok", ""
	}
	x := h.worlds[wk]
	defer func() {
		if r := recover(); r != nil {
			s := fmt.Sprint(r)
			if strings.HasPrefix(s, "harness:") {
				panic(r)
			}
			res, msg = "panic", s
		}
	}()
	atoi := func(s string) int { v, _ := strconv.Atoi(s); return v }
	optEnt := func(s string) []ecs.Entity {
		if s == "-" {
			return nil
		}
		return []ecs.Entity{x.ent(s)}
	}
	switch cmd {
	case "REG":
		ct := typeForKey(atoi(a[0]))
		if ct.isRel != (a[1] == "1") || ct.zs != (a[2] == "1") {
			panic("harness: REG flags do not match the type shape")
		}
		id := ecs.TypeID(x.w, ct.tp)
		n := idNum(id)
		if n == len(x.comps) {
			x.comps = append(x.comps, ct)
			x.keyToID[ct.key] = n
		}
		// registry consistency (C16)
		info, ok := ecs.ComponentInfo(x.w, id)
		if !ok || info.Type != ct.tp || info.IsRelation != ct.isRel {
			x.chk = append(x.chk, fmt.Sprintf("ComponentInfo(%d) = (%v, rel=%v, ok=%v), want (%v, rel=%v)", n, info.Type, info.IsRelation, ok, ct.tp, ct.isRel))
		}
		all := ecs.ComponentIDs(x.w)
		if len(all) != len(x.comps) {
			x.chk = append(x.chk, fmt.Sprintf("ComponentIDs has %d entries, %d types registered", len(all), len(x.comps)))
		}
		for i, cid := range all {
			if idNum(cid) != i {
				x.chk = append(x.chk, "ComponentIDs not dense in registration order")
			}
		}
		return "n " + strconv.Itoa(n), ""
	case "NEW":
		e := x.w.NewEntity(x.ids(a[0])...)
		return x.created(e), ""
	case "NEWWITH":
		e := x.w.NewEntityWith(x.pairs(a[0])...)
		return x.created(e), ""
	case "BNEW":
		e := x.builder(a[0], a[1], a[2]).New(optEnt(a[3])...)
		return x.created(e), ""
	case "BBATCH":
		before := map[ecs.Entity]bool{}
		for _, e := range x.allEntities() {
			before[e] = true
		}
		x.builder(a[0], a[1], a[2]).NewBatch(atoi(a[3]), optEnt(a[4])...)
		var es []ecs.Entity
		for _, e := range x.allEntities() {
			if !before[e] {
				es = append(es, e)
			}
		}
		return x.newSlots(es), ""
	case "BBATCHQ":
		q := x.builder(a[0], a[1], a[2]).NewBatchQ(atoi(a[3]), optEnt(a[4])...)
		cnt := q.Count()
		es := make([]ecs.Entity, cnt)
		for i := 0; i < cnt; i++ {
			es[i] = q.EntityAt(i)
		}
		x.queries = append(x.queries, &q)
		x.qopen = append(x.qopen, true)
		x.qadv = append(x.qadv, false)
		return fmt.Sprintf("q %d %s", len(x.queries)-1, x.newSlots(es)), ""
	case "BADD":
		x.builder(a[0], a[1], a[2]).Add(x.ent(a[3]), optEnt(a[4])...)
		return "ok", ""
	case "RM":
		x.w.RemoveEntity(x.ent(a[0]))
		return "ok", ""
	case "ALIVE":
		return fmt.Sprintf("b %d", b01(x.w.Alive(x.ent(a[0])))), ""
	case "XCHG":
		e, add, rem := x.ent(a[0]), x.ids(a[1]), x.ids(a[2])
		// use the dedicated entry points where they exist
		if len(rem) == 0 && len(add) > 0 {
			x.w.Add(e, add...)
		} else if len(add) == 0 && len(rem) > 0 {
			x.w.Remove(e, rem...)
		} else {
			x.w.Exchange(e, add, rem)
		}
		return "ok", ""
	case "ASSIGN":
		x.w.Assign(x.ent(a[0]), x.pairs(a[1])...)
		return "ok", ""
	case "SET":
		i := atoi(a[1])
		x.w.Set(x.ent(a[0]), x.id(i), newValue(x.comps[i], atoi(a[2])))
		return "ok", ""
	case "GET":
		i := atoi(a[1])
		p := x.w.Get(x.ent(a[0]), x.id(i))
		if p == nil {
			return "z nil", ""
		}
		v, ok := decodeFrom(p, x.comps[i].size)
		if !ok {
			return fmt.Sprintf("z torn%d", v), ""
		}
		return "z " + strconv.Itoa(v), ""
	case "HAS":
		return fmt.Sprintf("b %d", b01(x.w.Has(x.ent(a[0]), x.id(atoi(a[1]))))), ""
	case "MASK":
		m := x.w.Mask(x.ent(a[0]))
		return "m " + x.strMask(&m), ""
	case "VIEW":
		return x.view(x.ent(a[0])), ""
	case "RELGET":
		return "e " + x.slotOf(x.w.Relations().Get(x.ent(a[0]), x.id(atoi(a[1])))), ""
	case "RELSET":
		x.w.Relations().Set(x.ent(a[0]), x.id(atoi(a[1])), x.ent(a[2]))
		return "ok", ""
	case "RELXCHG":
		x.w.Relations().Exchange(x.ent(a[0]), x.ids(a[1]), x.ids(a[2]), x.id(atoi(a[3])), x.ent(a[4]))
		return "ok", ""
	case "BXCHG":
		isQ := a[0] == "1"
		add, rem := x.ids(a[1]), x.ids(a[2])
		f := x.parseFarg(a[5:])
		if a[3] != "-" {
			rid, tg := x.id(atoi(a[3])), x.ent(a[4])
			if isQ {
				q := x.w.Relations().ExchangeBatchQ(f, add, rem, rid, tg)
				return x.regQuery(&q), ""
			}
			return "n " + strconv.Itoa(x.w.Relations().ExchangeBatch(f, add, rem, rid, tg)), ""
		}
		if isQ {
			var q ecs.Query
			if len(rem) == 0 && len(add) > 0 {
				q = x.w.Batch().AddQ(f, add...)
			} else if len(add) == 0 && len(rem) > 0 {
				q = x.w.Batch().RemoveQ(f, rem...)
			} else {
				q = x.w.Batch().ExchangeQ(f, add, rem)
			}
			return x.regQuery(&q), ""
		}
		var n int
		if len(rem) == 0 && len(add) > 0 {
			n = x.w.Batch().Add(f, add...)
		} else if len(add) == 0 && len(rem) > 0 {
			n = x.w.Batch().Remove(f, rem...)
		} else {
			n = x.w.Batch().Exchange(f, add, rem)
		}
		return "n " + strconv.Itoa(n), ""
	case "BSETREL":
		isQ := a[0] == "1"
		rid, tg := x.id(atoi(a[1])), x.ent(a[2])
		f := x.parseFarg(a[3:])
		if isQ {
			q := x.w.Batch().SetRelationQ(f, rid, tg)
			return x.regQuery(&q), ""
		}
		return "n " + strconv.Itoa(x.w.Relations().SetBatch(f, rid, tg)), ""
	case "BRM":
		return "n " + strconv.Itoa(x.w.Batch().RemoveEntities(x.parseFarg(a))), ""
	case "QUERY":
		q := x.w.Query(x.parseFarg(a))
		return x.regQuery(&q), ""
	case "QNEXT":
		h := atoi(a[0])
		x.qadv[h] = true
		ok := x.queries[h].Next()
		if !ok {
			x.qopen[h] = false
		}
		return fmt.Sprintf("b %d", b01(ok)), ""
	case "QSTEP":
		h := atoi(a[0])
		x.qadv[h] = true
		ok := x.queries[h].Step(atoi(a[1]))
		if !ok {
			x.qopen[h] = false
		}
		return fmt.Sprintf("b %d", b01(ok)), ""
	case "QCOUNT":
		return "n " + strconv.Itoa(x.queries[atoi(a[0])].Count()), ""
	case "QAT":
		return "e " + x.slotOf(x.queries[atoi(a[0])].EntityAt(atoi(a[1]))), ""
	case "QCLOSE":
		h := atoi(a[0])
		x.queries[h].Close()
		x.qopen[h] = false
		return "ok", ""
	case "QENT":
		return "e " + x.slotOf(x.queries[atoi(a[0])].Entity()), ""
	case "QVIEW":
		return x.qview(x.queries[atoi(a[0])]), ""
	case "QREL":
		return "e " + x.slotOf(x.queries[atoi(a[0])].Relation(x.id(atoi(a[1])))), ""
	case "QSCAN":
		return x.qscan(a, idxSeed), ""
	case "CREG":
		var f ecs.Filter
		if a[0] == "C" {
			f = x.parseFarg(a)
		} else {
			f, _ = x.parseFilter(a)
		}
		cf := x.w.Cache().Register(f)
		x.cached = append(x.cached, &cf)
		return "n " + strconv.Itoa(len(x.cached)-1), ""
	case "CUNREG":
		k := atoi(a[0])
		x.w.Cache().Unregister(x.cached[k])
		return "ok", ""
	case "RESET":
		x.w.Reset()
		x.epoch = len(x.slots)
		x.resTok = map[int]*resToken{}
		return "ok", ""
	case "DUMP":
		// the slot is taken even if the call panics: dump numbers are positions of DUMP lines
		h.dumps = append(h.dumps, ecs.EntityDump{})
		d := x.w.DumpEntities()
		h.dumps[len(h.dumps)-1] = d
		sl := make([]int, len(d.Alive))
		for i, id := range d.Alive {
			e := d.Entities[id]
			if s, ok := x.rev[e]; ok {
				sl[i] = s
			} else {
				sl[i] = -1
			}
		}
		if rawMode {
			return fmt.Sprintf("dump %v", d), ""
		}
		sort.Ints(sl)
		return "dump " + strIDs(sl), ""
	case "LOAD":
		d := h.dumps[atoi(a[0][1:])]
		x.w.LoadEntities(&d)
		ids := append([]uint32{}, d.Alive...)
		sort.Slice(ids, func(i, j int) bool { return ids[i] < ids[j] })
		es := make([]ecs.Entity, len(ids))
		for i, id := range ids {
			es[i] = d.Entities[id]
		}
		return "ok " + x.newSlots(es), ""
	case "_DUMPCMP":
		// second dump identical; handles survive a JSON round trip (harness-only op)
		d := h.dumps[atoi(a[0][1:])]
		d2 := x.w.DumpEntities()
		if fmt.Sprint(d.Entities) != fmt.Sprint(d2.Entities) || fmt.Sprint(d.Alive) != fmt.Sprint(d2.Alive) || d.Next != d2.Next || d.Available != d2.Available {
			x.chk = append(x.chk, fmt.Sprintf("second dump differs from the loaded dump: %v vs %v", d2, d))
		}
		js, err := json.Marshal(d)
		var back ecs.EntityDump
		if err != nil || json.Unmarshal(js, &back) != nil || fmt.Sprint(back) != fmt.Sprint(d) {
			x.chk = append(x.chk, "dump does not survive a JSON round trip")
		}
		// a handle as a plain value, as a struct field and as a map value (none of them addressable)
		for i, e := range d.Entities {
			if i > 6 && i%7 != 0 {
				continue
			}
			type holder struct {
				E ecs.Entity
				L []ecs.Entity
			}
			var e1 ecs.Entity
			var h1 holder
			var m1 map[string]ecs.Entity
			j1, err1 := json.Marshal(e)
			j2, err2 := json.Marshal(holder{E: e, L: []ecs.Entity{e}})
			j3, err3 := json.Marshal(map[string]ecs.Entity{"k": e})
			if err1 != nil || err2 != nil || err3 != nil ||
				json.Unmarshal(j1, &e1) != nil || json.Unmarshal(j2, &h1) != nil || json.Unmarshal(j3, &m1) != nil ||
				e1 != e || h1.E != e || len(h1.L) != 1 || h1.L[0] != e || m1["k"] != e {
				x.chk = append(x.chk, fmt.Sprintf("handle %v does not survive a JSON round trip by value (%s %s %s)", e, j1, j2, j3))
				break
			}
		}
		for i, e := range d.Entities {
			if i == 0 {
				continue
			}
			isAlive := false
			for _, id := range d.Alive {
				if int(id) == i {
					isAlive = true
				}
			}
			// every handle of the dump gets the same Alive answer in the loaded world
			if x.w.Alive(ecs.Entity(back.Entities[i])) != isAlive && e.ID() == uint32(i) {
				x.chk = append(x.chk, fmt.Sprintf("load: handle %v alive=%v, dump says %v", e, !isAlive, isAlive))
			}
		}
		return "ok", ""
	case "RESREG":
		ct := typeForKey(atoi(a[0]))
		id := ecs.ResourceTypeID(x.w, ct.tp)
		n := int(*(*uint8)(unsafe.Pointer(&id)))
		tp, ok := ecs.ResourceType(x.w, id)
		if !ok || tp != ct.tp {
			x.chk = append(x.chk, "ResourceType disagrees with registration")
		}
		return "n " + strconv.Itoa(n), ""
	case "RESADD":
		id := x.resID(atoi(a[0]))
		t := &resToken{tok: atoi(a[1])}
		x.w.Resources().Add(id, t)
		x.resTok[atoi(a[0])] = t
		return "ok", ""
	case "RESRM":
		x.w.Resources().Remove(x.resID(atoi(a[0])))
		delete(x.resTok, atoi(a[0]))
		return "ok", ""
	case "RESGET":
		r := x.w.Resources().Get(x.resID(atoi(a[0])))
		if r == nil {
			return "z nil", ""
		}
		t, ok := r.(*resToken)
		if !ok {
			return "z badtype", ""
		}
		if x.resTok[atoi(a[0])] != t {
			x.chk = append(x.chk, "Resources.Get returned a pointer other than the one added")
		}
		return "z " + strconv.Itoa(t.tok), ""
	case "RESHAS":
		return fmt.Sprintf("b %d", b01(x.w.Resources().Has(x.resID(atoi(a[0]))))), ""
	case "LISTEN":
		if a[0] == "off" {
			x.w.SetListener(nil)
			x.cb = nil
			return "ok", ""
		}
		x.installListener(atoi(a[0]), a[1])
		return "ok", ""
	case "LISTEND":
		k, late := a[0], 0
		if i := strings.Index(k, "+"); i >= 0 {
			late = atoi(k[i+1:])
			k = k[:i]
		}
		return "ok " + x.installDispatch(atoi(k), late, a[1:]), ""
	case "LOCKED":
		return fmt.Sprintf("b %d", b01(x.w.IsLocked())), ""
	case "STATS":
		return "n " + strconv.Itoa(x.w.Stats().Entities.Used), ""
	}
	panic("harness: unknown op " + cmd)
}

func (x *W) resID(i int) ecs.ResID {
	all := ecs.ResourceIDs(x.w)
	if i < len(all) {
		return all[i]
	}
	panic(fmt.Sprintf("harness: resource id %d not registered", i))
}

func (x *W) regQuery(q *ecs.Query) string {
	x.queries = append(x.queries, q)
	x.qopen = append(x.qopen, true)
	x.qadv = append(x.qadv, false)
	return fmt.Sprintf("q %d", len(x.queries)-1)
}

// run executes one OP and returns the output lines (R, EV, CHK, # msg).
func (h *H) run(idx int, wk int, cmd string, args []string) []string {
	if x, ok := h.worlds[wk]; ok && cmd != "NEWWORLD" {
		if x.dead {
			return nil
		}
		x.events = x.events[:0]
		x.chk = x.chk[:0]
	}
	res, msg := h.exec(wk, cmd, args, idx)
	x := h.worlds[wk]
	out := []string{fmt.Sprintf("R %d %s", idx, res)}
	if msg != "" {
		out = append(out, fmt.Sprintf("# %d panic: %s", idx, strings.ReplaceAll(msg, "\n", " ")))
	}
	evs := make([]string, len(x.events))
	for i, e := range x.events {
		evs[i] = x.strEvent(e)
	}
	if !rawMode {
		sort.Strings(evs)
	}
	for _, e := range evs {
		out = append(out, fmt.Sprintf("EV %d %s", idx, e))
	}
	for _, c := range x.chk {
		out = append(out, fmt.Sprintf("CHK %d FAIL %s", idx, c))
	}
	crossTalk.Lock()
	for _, c := range crossTalk.msgs {
		out = append(out, fmt.Sprintf("CHK %d FAIL %s", idx, c))
	}
	crossTalk.msgs = nil
	crossTalk.Unlock()
	return out
}

// qscan iterates a query completely and returns the visited entities as a sorted slot
// set plus the count.  For a fresh query it also checks, implementation against
// implementation, what C03 states: Count = number visited, EntityAt(i) = i-th visited,
// Step(k) lands where k calls of Next would, no entity twice, accessors agree with the
// world at every position, out-of-range indices panic.
func (x *W) qscan(a []string, seed int) string {
	var q *ecs.Query
	var mk func() ecs.Query
	hidx := -1
	fresh := true
	if a[0] == "H" {
		hidx, _ = strconv.Atoi(a[1])
		q = x.queries[hidx]
		fresh = !x.qadv[hidx]
		x.qadv[hidx] = true
	} else {
		f := x.parseFarg(a)
		mk = func() ecs.Query { return x.w.Query(f) }
		qq := mk()
		q = &qq
		// the scan's own query takes a handle number (as in the model), already exhausted
		x.queries = append(x.queries, q)
		x.qopen = append(x.qopen, false)
		x.qadv = append(x.qadv, true)
	}
	n := q.Count()
	at := make([]ecs.Entity, 0, n)
	for i := 0; i < n; i++ {
		at = append(at, q.EntityAt(i))
	}
	if !panics(func() { q.EntityAt(n) }) {
		x.chk = append(x.chk, "EntityAt(Count()) did not panic")
	}
	if !panics(func() { q.EntityAt(-1) }) {
		x.chk = append(x.chk, "EntityAt(-1) did not panic")
	}
	var visited []ecs.Entity
	seen := map[ecs.Entity]bool{}
	for q.Next() {
		e := q.Entity()
		if seen[e] {
			x.chk = append(x.chk, "entity visited twice: "+x.slotOf(e))
		}
		seen[e] = true
		visited = append(visited, e)
		if len(visited) <= 64 {
			x.qview(q)
		}
		if !x.w.Alive(e) {
			x.chk = append(x.chk, "query visited a dead entity")
		}
	}
	if hidx >= 0 {
		x.qopen[hidx] = false
	}
	if fresh && len(visited) != n {
		x.chk = append(x.chk, fmt.Sprintf("Count()=%d but %d entities visited", n, len(visited)))
	}
	for i := range visited {
		if fresh && i < len(at) && at[i] != visited[i] {
			x.chk = append(x.chk, fmt.Sprintf("EntityAt(%d)=%s but %d-th visited is %s", i, x.slotOf(at[i]), i, x.slotOf(visited[i])))
			break
		}
	}
	if mk != nil {
		// twin query advanced by Step with varying step sizes
		t := mk()
		pos := -1
		r := uint32(seed*2654435761 + 12345)
		for {
			r = r*1664525 + 1013904223
			k := 1 + int(r>>16)%4
			ok := t.Step(k)
			pos += k
			if pos < len(visited) {
				if !ok {
					x.chk = append(x.chk, fmt.Sprintf("Step to position %d of %d returned false", pos, len(visited)))
					break
				}
				if t.Entity() != visited[pos] {
					x.chk = append(x.chk, fmt.Sprintf("Step landed on %s, Next-iteration position %d is %s", x.slotOf(t.Entity()), pos, x.slotOf(visited[pos])))
					t.Close()
					break
				}
			} else {
				if ok {
					x.chk = append(x.chk, fmt.Sprintf("Step past the end (position %d of %d) returned true", pos, len(visited)))
					t.Close()
				}
				break
			}
		}
		if !panics(func() { tq := mk(); defer tq.Close(); tq.Step(0) }) {
			x.chk = append(x.chk, "Step(0) did not panic")
		}
	}
	if rawMode {
		parts := make([]string, len(visited))
		for i, e := range visited {
			parts[i] = x.slotOf(e)
		}
		return fmt.Sprintf("order %s n=%d", strings.Join(parts, ","), n)
	}
	sl := make([]int, len(visited))
	for i, e := range visited {
		if s, ok := x.rev[e]; ok {
			sl[i] = s
		} else {
			sl[i] = -1
		}
	}
	sort.Ints(sl)
	if !fresh {
		// the remainder of a partly iterated query depends on the iteration order, which
		// is not an observable the properties fix: only its size is reported
		return fmt.Sprintf("rem %d n=%d", len(sl), n)
	}
	return fmt.Sprintf("set %s n=%d", strIDs(sl), n)
}

func panics(f func()) (p bool) {
	defer func() {
		if r := recover(); r != nil {
			p = true
		}
	}()
	f()
	return false
}
