package main

func masksMain(args []string) {}
