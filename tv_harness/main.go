// tv_harness: translator validation. Runs random call sequences against the REAL pool code
// of /repo (through the verif-tagged hooks in ecs/verif_hooks.go) and prints every call
// with its result; ocaml/tvdriver replays the same calls through the extraction of
// Gen/PoolGo.v (the translator's output) and reports the first difference.
//
//	go build -tags verif -o tv_harness . && ./tv_harness -seed 1 -n 200 > trace
package main

import (
	"bufio"
	"flag"
	"fmt"
	"math/rand"
	"os"
	"strings"

	"github.com/mlange-42/arche/ecs"
)

var out *bufio.Writer
var stats = map[string]int{}

// call runs f and prints "op => result"; returns false after a panic
func call(op string, f func() string) bool {
	res := "panic"
	func() {
		defer func() { recover() }()
		res = f()
	}()
	fmt.Fprintf(out, "%s => %s\n", op, res)
	stats[strings.Fields(op)[0]]++
	if res == "panic" {
		stats["panic"]++
	}
	return res != "panic"
}

func b01(b bool) string {
	if b {
		return "b 1"
	}
	return "b 0"
}

func poolHistory(rng *rand.Rand, n int) {
	incs := []uint32{1, 1, 2, 3, 8, 128, 0}
	inc := incs[rng.Intn(len(incs))]
	fmt.Fprintf(out, "H pool %d\n", inc)
	var p *ecs.VEntityPool
	if !call("N", func() string { p = ecs.NewVEntityPool(inc); return "ok" }) {
		return
	}
	var known []ecs.Entity
	var alive []ecs.Entity
	dump := func() string {
		ids, gens, next, avail, c := p.State()
		parts := make([]string, len(ids))
		for i := range ids {
			parts[i] = fmt.Sprintf("%d:%d", ids[i], gens[i])
		}
		return fmt.Sprintf("d %d %d %d %s", next, avail, c, strings.Join(parts, ","))
	}
	for i := 0; i < n; i++ {
		ok := true
		r := rng.Intn(100)
		if r >= 40 && r < 65 && len(alive) == 0 {
			r = 0
		}
		switch {
		case r < 40:
			ok = call("G", func() string {
				e := p.Get()
				known = append(known, e)
				alive = append(alive, e)
				return fmt.Sprintf("e %d %d", e.ID(), e.Generation())
			})
		case r < 65:
			k := rng.Intn(len(alive))
			e := alive[k]
			alive = append(alive[:k], alive[k+1:]...)
			ok = call(fmt.Sprintf("R %d %d", e.ID(), e.Generation()), func() string { p.Recycle(e); return "ok" })
		case r < 68:
			// any handle: dead ones, the zero entity, ids out of range
			var e ecs.Entity
			switch rng.Intn(4) {
			case 0:
				e = ecs.VEntity(0, uint32(rng.Intn(2)))
			case 1:
				e = ecs.VEntity(uint32(len(known)+1+rng.Intn(3)), 0)
			default:
				if len(known) > 0 {
					e = known[rng.Intn(len(known))]
				}
			}
			ok = call(fmt.Sprintf("R %d %d", e.ID(), e.Generation()), func() string { p.Recycle(e); return "ok" })
		case r < 90:
			e := ecs.VEntity(uint32(rng.Intn(len(known)+1)), uint32(rng.Intn(3)))
			if rng.Intn(30) == 0 {
				e = ecs.VEntity(uint32(rng.Intn(len(known)+4)), uint32(rng.Intn(3))) // possibly out of range
			}
			if len(known) > 0 && rng.Intn(3) > 0 {
				e = known[rng.Intn(len(known))]
			}
			ok = call(fmt.Sprintf("A %d %d", e.ID(), e.Generation()), func() string { return b01(p.Alive(e)) })
		case r < 93:
			ok = call("X", func() string { p.Reset(); alive = nil; return "ok" })
			if rng.Intn(4) > 0 {
				known = nil // mostly: forget the handles of before the reset (their ids are out of range now)
			}
		default:
			ok = call("D", dump)
		}
		if !ok {
			return
		}
	}
	call("D", dump)
}

func intPoolHistory(rng *rand.Rand, n int) {
	incs := []uint32{1, 2, 5, 128, 0}
	inc := incs[rng.Intn(len(incs))]
	fmt.Fprintf(out, "H intpool %d\n", inc)
	p := ecs.NewVIntPool(inc)
	var used []uint32
	total := 0
	dump := func() string {
		pool, next, avail, c := p.State()
		parts := make([]string, len(pool))
		for i := range pool {
			parts[i] = fmt.Sprint(pool[i])
		}
		cs := fmt.Sprint(c)
		if inc == 0 {
			cs = "-" // capacity chosen by the run time
		}
		return fmt.Sprintf("d %d %d %s %s", next, avail, cs, strings.Join(parts, ","))
	}
	for i := 0; i < n; i++ {
		ok := true
		r := rng.Intn(100)
		if r >= 45 && r < 80 && len(used) == 0 {
			r = 0
		}
		switch {
		case r < 45:
			ok = call("G", func() string { v := p.Get(); used = append(used, v); total++; return fmt.Sprintf("n %d", v) })
		case r < 80:
			k := rng.Intn(len(used))
			v := used[k]
			used = append(used[:k], used[k+1:]...)
			ok = call(fmt.Sprintf("R %d", v), func() string { p.Recycle(v); return "ok" })
		case r < 85:
			v := uint32(rng.Intn(total + 3))
			ok = call(fmt.Sprintf("R %d", v), func() string { p.Recycle(v); return "ok" })
		case r < 88:
			ok = call("X", func() string { p.Reset(); used = nil; total = 0; return "ok" })
		default:
			ok = call("D", dump)
		}
		if !ok {
			return
		}
	}
	call("D", dump)
}

func lockHistory(rng *rand.Rand, n int) {
	fmt.Fprintf(out, "H lock\n")
	m := &ecs.VLockMask{}
	var held []uint8
	dump := func() string {
		set, bits, length, next, avail := m.State()
		return fmt.Sprintf("d %d %d %d %s %s", length, next, avail, joinInts(set), joinU8(bits))
	}
	fill := rng.Intn(4) == 0 // some histories go for exhaustion
	for i := 0; i < n; i++ {
		ok := true
		r := rng.Intn(100)
		if fill && r < 80 {
			r = 0
		}
		if r >= 45 && r < 80 && len(held) == 0 {
			r = 0
		}
		switch {
		case r < 45:
			ok = call("L", func() string { b := m.Lock(); held = append(held, b); return fmt.Sprintf("n %d", b) })
		case r < 80:
			k := rng.Intn(len(held))
			b := held[k]
			held = append(held[:k], held[k+1:]...)
			ok = call(fmt.Sprintf("U %d", b), func() string { m.Unlock(b); return "ok" })
		case r < 82:
			b := uint8(rng.Intn(256))
			ok = call(fmt.Sprintf("U %d", b), func() string { m.Unlock(b); return "ok" })
		case r < 92:
			ok = call("Q", func() string { return b01(m.IsLocked()) })
		case r < 94:
			ok = call("X", func() string { m.Reset(); held = nil; return "ok" })
		default:
			ok = call("D", dump)
		}
		if !ok {
			return
		}
	}
	call("D", dump)
}

func joinInts(a []int) string {
	s := make([]string, len(a))
	for i, x := range a {
		s[i] = fmt.Sprint(x)
	}
	return "[" + strings.Join(s, ",") + "]"
}

func joinU8(a []uint8) string {
	s := make([]string, len(a))
	for i, x := range a {
		s[i] = fmt.Sprint(x)
	}
	return "[" + strings.Join(s, ",") + "]"
}

func bitSetHistory(rng *rand.Rand, n int) {
	fmt.Fprintf(out, "H bitset\n")
	b := &ecs.VBitSet{}
	size := 0
	dump := func() string {
		ws := b.State()
		s := make([]string, len(ws))
		for i, w := range ws {
			s[i] = fmt.Sprintf("%x", w)
		}
		return "d [" + strings.Join(s, ",") + "]"
	}
	for i := 0; i < n; i++ {
		ok := true
		switch r := rng.Intn(100); {
		case r < 15 || size == 0:
			k := 1 + rng.Intn(400)
			if rng.Intn(3) == 0 {
				k = 64 * rng.Intn(6)
			}
			ok = call(fmt.Sprintf("E %d", k), func() string { b.ExtendTo(k); return "ok" })
			if k > size {
				size = k
			}
		case r < 55:
			k := rng.Intn(size)
			if rng.Intn(25) == 0 {
				k = rng.Intn(size + 70)
			}
			v := rng.Intn(2) == 0
			ok = call(fmt.Sprintf("S %d %d", k, b2i(v)), func() string { b.Set(uint32(k), v); return "ok" })
		case r < 88:
			k := rng.Intn(size)
			if rng.Intn(25) == 0 {
				k = rng.Intn(size + 70)
			}
			ok = call(fmt.Sprintf("G %d", k), func() string { return b01(b.Get(uint32(k))) })
		case r < 91:
			ok = call("X", func() string { b.Reset(); return "ok" })
		default:
			ok = call("D", dump)
		}
		if !ok {
			return
		}
	}
	call("D", dump)
}

func b2i(b bool) int {
	if b {
		return 1
	}
	return 0
}

func pagedHistory(rng *rand.Rand, n int) {
	fmt.Fprintf(out, "H paged\n")
	p := &ecs.VPaged{}
	dump := func() string {
		pages, l, ll := p.State()
		ps := make([]string, len(pages))
		for i, pg := range pages {
			s := make([]string, len(pg))
			for j, x := range pg {
				s[j] = fmt.Sprintf("%x", x)
			}
			ps[i] = strings.Join(s, ",")
		}
		return fmt.Sprintf("d %d %d %s", l, ll, strings.Join(ps, "|"))
	}
	for i := 0; i < n; i++ {
		ok := true
		l := int(p.Len())
		switch r := rng.Intn(100); {
		case r < 50:
			v := rng.Uint64()
			if rng.Intn(2) == 0 {
				v = uint64(rng.Intn(100))
			}
			ok = call(fmt.Sprintf("A %x", v), func() string { p.Add(v); return "ok" })
		case r < 70:
			k := rng.Intn(l + 1)
			if rng.Intn(20) == 0 {
				k = rng.Intn(l + 40)
			}
			ok = call(fmt.Sprintf("G %d", k), func() string { return fmt.Sprintf("x %x", p.Get(int32(k))) })
		case r < 85:
			k := rng.Intn(l + 1)
			if rng.Intn(20) == 0 {
				k = rng.Intn(l + 40)
			}
			v := rng.Uint64()
			ok = call(fmt.Sprintf("S %d %x", k, v), func() string { p.Set(int32(k), v); return "ok" })
		case r < 92:
			ok = call("N", func() string { return fmt.Sprintf("n %d", p.Len()) })
		default:
			ok = call("D", dump)
		}
		if !ok {
			return
		}
	}
	call("D", dump)
}

func resHistory(rng *rand.Rand, n int) {
	fmt.Fprintf(out, "H res\n")
	r := ecs.NewVResources()
	toks := map[any]int{}
	mk := func() (any, int) {
		k := 1 + len(toks)
		p := new(int)
		*p = k
		toks[p] = k
		return p, k
	}
	show := func(x any) string {
		if x == nil {
			return "nil"
		}
		return fmt.Sprint(toks[x])
	}
	dump := func() string {
		st := r.State()
		s := make([]string, len(st))
		for i, x := range st {
			s[i] = show(x)
		}
		return "d " + strings.Join(s, ",")
	}
	ids := []int{0, 1, 2, 3, 7, 100, 254, 255}
	for i := 0; i < n; i++ {
		ok := true
		id := ids[rng.Intn(len(ids))]
		if rng.Intn(4) == 0 {
			id = rng.Intn(256)
		}
		has := false
		func() {
			defer func() { recover() }()
			has = r.Has(uint8(id))
		}()
		switch c := rng.Intn(100); {
		case c < 30:
			if has && rng.Intn(12) > 0 {
				ok = call(fmt.Sprintf("R %d", id), func() string { r.Remove(uint8(id)); return "ok" })
			} else {
				x, k := mk()
				ok = call(fmt.Sprintf("A %d %d", id, k), func() string { r.Add(uint8(id), x); return "ok" })
			}
		case c < 50:
			if !has && rng.Intn(12) > 0 {
				x, k := mk()
				ok = call(fmt.Sprintf("A %d %d", id, k), func() string { r.Add(uint8(id), x); return "ok" })
			} else {
				ok = call(fmt.Sprintf("R %d", id), func() string { r.Remove(uint8(id)); return "ok" })
			}
		case c < 70:
			ok = call(fmt.Sprintf("G %d", id), func() string { return "x " + show(r.Get(uint8(id))) })
		case c < 90:
			ok = call(fmt.Sprintf("Q %d", id), func() string { return b01(r.Has(uint8(id))) })
		case c < 93:
			ok = call("X", func() string { r.Reset(); return "ok" })
		default:
			ok = call("D", dump)
		}
		if !ok {
			return
		}
	}
	call("D", dump)
}

func main() {
	seed := flag.Int64("seed", 1, "")
	n := flag.Int("n", 100, "histories per structure")
	length := flag.Int("len", 120, "calls per history")
	only := flag.String("only", "", "restrict to one structure (lock: used for the tiny build)")
	flag.Parse()
	out = bufio.NewWriter(os.Stdout)
	defer out.Flush()
	rng := rand.New(rand.NewSource(*seed))
	for i := 0; i < *n; i++ {
		if *only == "lock" {
			lockHistory(rng, *length*3)
			continue
		}
		poolHistory(rng, *length)
		intPoolHistory(rng, *length)
		lockHistory(rng, *length*3)
		bitSetHistory(rng, *length)
		pagedHistory(rng, *length)
		resHistory(rng, *length)
	}
	fmt.Fprintf(os.Stderr, "STATS %v\n", stats)
}
