module tvharness

go 1.21

toolchain go1.23.5

require github.com/mlange-42/arche v0.0.0

replace github.com/mlange-42/arche => /repo
