(** * C04 for the [tiny] build: the generated 64-bit mask functions (Gen/Mask64.v,
      regenerated from ecs/bitmask_tiny.go) are set operations over the IDs 0..63. *)
From Coq Require Import NArith Lia Bool List.
From Arche Require Import Pure.MachInt Gen.Mask64.
Import ListNotations.
Open Scope N_scope.

Definition WF (m : Mask) : Prop := mbits m < 2 ^ 64.
Definition mbit (m : Mask) (i : N) : bool := N.testbit (mbits m) i.

Lemma high m j : WF m -> 64 <= j -> mbit m j = false.
Proof. intros Hm Hj. eapply lt_pow2_bits; eassumption. Qed.

Theorem Get_spec m i : i < 64 -> Mask_Get m i = mbit m i.
Proof.
  intros Hi. unfold Mask_Get, mbit. cbv zeta. rewrite shl_w_one by assumption.
  rewrite wrap_small by (apply N.pow_lt_mono_r; lia). apply land_pow2_eqb.
Qed.

Theorem Set_spec m i v j : i < 64 -> j < 64 ->
  mbit (Mask_Set m i v) j = if j =? i then v else mbit m j.
Proof.
  intros Hi Hj. unfold Mask_Set, mbit. rewrite shl_w_one by assumption. destruct v; cbn [mbits].
  - rewrite N.lor_spec, N.pow2_bits_eqb. rewrite (N.eqb_sym i j).
    destruct (j =? i); [apply orb_true_r|apply orb_false_r].
  - rewrite N.land_spec, not_w_bits, N.pow2_bits_eqb, (proj2 (N.ltb_lt _ _) Hj), andb_true_r.
    rewrite (N.eqb_sym i j). destruct (j =? i); [apply andb_false_r|apply andb_true_r].
Qed.

Theorem Set_WF m i v : i < 64 -> WF m -> WF (Mask_Set m i v).
Proof.
  intros Hi Hm. unfold Mask_Set, WF in *. rewrite shl_w_one by assumption. destruct v; cbn [mbits].
  - apply bits_lt_pow2. intros k Hk. rewrite N.lor_spec, (lt_pow2_bits _ _ Hm k Hk), N.pow2_bits_eqb.
    destruct (N.eqb_spec i k); [lia|reflexivity].
  - apply bits_lt_pow2. intros k Hk. rewrite N.land_spec, (lt_pow2_bits _ _ Hm k Hk). reflexivity.
Qed.

Lemma WF_zero : WF mask_zero.
Proof. unfold WF, mask_zero. cbn [mbits]. apply N.neq_0_lt_0. apply N.pow_nonzero. lia. Qed.

Lemma All_fold ids : forall m, Forall (fun i => i < 64) ids -> WF m ->
  WF (fold_left (fun mask id => Mask_Set mask id true) ids m) /\
  forall j, j < 64 -> mbit (fold_left (fun mask id => Mask_Set mask id true) ids m) j = mbit m j || existsb (N.eqb j) ids.
Proof.
  induction ids as [|i r IH]; intros m Hall Hm; simpl.
  - split; [assumption|]. intros j _. now rewrite orb_false_r.
  - inversion Hall as [|? ? Hi Hr]; subst.
    destruct (IH (Mask_Set m i true) Hr (Set_WF m i true Hi Hm)) as [Hwf Hb].
    split; [assumption|]. intros j Hj. rewrite Hb, Set_spec by assumption.
    destruct (N.eqb j i); [now rewrite orb_true_r|reflexivity].
Qed.

Theorem All_spec ids j : Forall (fun i => i < 64) ids -> j < 64 ->
  mbit (All ids) j = existsb (N.eqb j) ids.
Proof.
  intros H Hj. unfold All. cbv zeta. destruct (All_fold ids mask_zero H WF_zero) as [_ Hb].
  rewrite Hb by assumption. unfold mbit, mask_zero. cbn [mbits]. now rewrite N.bits_0.
Qed.

Theorem Not_spec m j : j < 64 -> mbit (Mask_Not m) j = negb (mbit m j).
Proof.
  intros Hj. unfold Mask_Not, mbit. cbn [mbits]. rewrite not_w_bits, (proj2 (N.ltb_lt _ _) Hj). apply andb_true_r.
Qed.
Theorem Not_WF m : WF (Mask_Not m).
Proof. unfold Mask_Not, WF. cbn [mbits]. apply not_w_lt. Qed.

Theorem And_spec a b j : mbit (Mask_And a b) j = mbit a j && mbit b j.
Proof. unfold Mask_And, mbit. cbn [mbits]. apply N.land_spec. Qed.
Theorem Or_spec a b j : mbit (Mask_Or a b) j = mbit a j || mbit b j.
Proof. unfold Mask_Or, mbit. cbn [mbits]. apply N.lor_spec. Qed.
Theorem Xor_spec a b j : mbit (Mask_Xor a b) j = xorb (mbit a j) (mbit b j).
Proof. unfold Mask_Xor, mbit. cbn [mbits]. apply N.lxor_spec. Qed.
Theorem Reset_spec m j : mbit (Mask_Reset m) j = false.
Proof. unfold Mask_Reset, mbit. cbv zeta. cbn [mbits]. apply N.bits_0. Qed.

Theorem Contains_spec a b : WF b ->
  Mask_Contains a b = true <-> forall j, j < 64 -> mbit b j = true -> mbit a j = true.
Proof.
  intros Hb. unfold Mask_Contains. rewrite land_eqb_spec. split.
  - intros H j _. apply H.
  - intros H k Hk. destruct (N.lt_ge_cases k 64) as [Hlt|Hge]; [now apply H|].
    unfold mbit in *. rewrite (lt_pow2_bits _ _ Hb k Hge) in Hk. discriminate.
Qed.

Theorem ContainsAny_spec a b : WF b ->
  Mask_ContainsAny a b = true <-> exists j, j < 64 /\ mbit a j = true /\ mbit b j = true.
Proof.
  intros Hb. unfold Mask_ContainsAny. rewrite land_neq0_spec. split.
  - intros (k & Ha & Hk). destruct (N.lt_ge_cases k 64) as [Hlt|Hge]; [exists k; auto|].
    rewrite (lt_pow2_bits _ _ Hb k Hge) in Hk. discriminate.
  - intros (k & _ & Ha & Hk). exists k. auto.
Qed.

Theorem IsZero_spec m : WF m -> Mask_IsZero m = true <-> forall j, j < 64 -> mbit m j = false.
Proof.
  intros Hm. unfold Mask_IsZero. rewrite eqb0_spec. split.
  - intros H j _. apply H.
  - intros H k. destruct (N.lt_ge_cases k 64) as [Hlt|Hge]; [now apply H|].
    apply (lt_pow2_bits _ _ Hm k Hge).
Qed.

Theorem TotalBitsSet_spec m : WF m -> Mask_TotalBitsSet m = count_bits (mbits m) 64.
Proof. intros Hm. unfold Mask_TotalBitsSet. now apply popcount64_count. Qed.

Theorem MaskFilter_spec f bits : WF (mf_include f) -> WF (mf_exclude f) ->
  MaskFilter_Matches f bits = true <->
  (forall j, j < 64 -> mbit (mf_include f) j = true -> mbit bits j = true) /\
  (forall j, j < 64 -> mbit (mf_exclude f) j = true -> mbit bits j = false).
Proof.
  intros Hi He. unfold MaskFilter_Matches.
  rewrite andb_true_iff, orb_true_iff, negb_true_iff, Contains_spec by assumption.
  split.
  - intros [Hc Hx]. split; [assumption|]. intros j Hj Hej.
    destruct Hx as [Hx|Hx].
    + destruct (mbit bits j) eqn:Hb; [|reflexivity].
      assert (Mask_ContainsAny bits (mf_exclude f) = true); [|congruence].
      apply ContainsAny_spec; [assumption|]. exists j. auto.
    + rewrite IsZero_spec in Hx by assumption. rewrite Hx in Hej by assumption. discriminate.
  - intros [Hc Hx]. split; [assumption|]. left.
    destruct (Mask_ContainsAny bits (mf_exclude f)) eqn:Hany; [|reflexivity].
    apply ContainsAny_spec in Hany; [|assumption]. destruct Hany as (j & Hj & Hb & Hej).
    rewrite (Hx j Hj Hej) in Hb. discriminate.
Qed.

Theorem Exclusive_spec m bits : WF m ->
  MaskFilter_Matches (Mask_Exclusive m) bits = true <-> forall j, j < 64 -> mbit bits j = mbit m j.
Proof.
  intros Hm. unfold Mask_Exclusive. rewrite MaskFilter_spec; cbn [mf_include mf_exclude]; [|assumption|apply Not_WF].
  split.
  - intros [Hi He] j Hj. destruct (mbit m j) eqn:Hb.
    + now apply Hi.
    + apply He; [assumption|]. rewrite Not_spec, Hb by assumption. reflexivity.
  - intros H. split; intros j Hj Hb.
    + rewrite H by assumption. assumption.
    + rewrite Not_spec in Hb by assumption. rewrite H by assumption.
      now apply negb_true_iff in Hb.
Qed.

Example wf_example : WF (All [0; 1; 62; 63]) /\ mbit (All [0; 1; 62; 63]) 63 = true /\
  mbit (All [0; 1; 62; 63]) 2 = false /\ Mask_TotalBitsSet (All [0; 1; 62; 63]) = 4.
Proof.
  split; [apply (All_fold [0; 1; 62; 63] mask_zero); [repeat constructor; lia|apply WF_zero]|]. vm_compute. auto.
Qed.
