(** * C04 for the default (256-bit) build: the GENERATED mask and filter functions
      (Gen/Mask256.v, regenerated from ecs/bitmask.go, ecs/bitmask_common.go,
      ecs/filter.go, filter/filter.go on every run) are set operations over the IDs
      0..255.  All statements quantify over all masks and all IDs. *)
From Coq Require Import NArith Lia Bool List.
From Arche Require Import Pure.MachInt Gen.Mask256.
Import ListNotations.
Open Scope N_scope.

Definition WF (m : Mask) : Prop :=
  m0 m < 2 ^ 64 /\ m1 m < 2 ^ 64 /\ m2 m < 2 ^ 64 /\ m3 m < 2 ^ 64.

(** Bit [i] of a mask: bit [i mod 64] of word [i / 64]. *)
Definition mbit (m : Mask) (i : N) : bool := N.testbit (word m (i / 64)) (i mod 64).

Lemma idx_cases i : i < 256 -> i / 64 = 0 \/ i / 64 = 1 \/ i / 64 = 2 \/ i / 64 = 3.
Proof.
  intros H. assert (H4 : i / 64 < 4) by (apply N.div_lt_upper_bound; lia).
  revert H4. generalize (i / 64). intros x Hx. lia.
Qed.

Lemma mod64_lt i : i mod 64 < 64.
Proof. apply N.mod_lt. lia. Qed.

Lemma word_lt m k : WF m -> word m k < 2 ^ 64.
Proof.
  intros (H0 & H1 & H2 & H3). unfold word.
  destruct k as [|[[|[]|]|[|[]|]|]]; try assumption; apply N.neq_0_lt_0; apply N.pow_nonzero; lia.
Qed.

Lemma word_high m k j : WF m -> 64 <= j -> N.testbit (word m k) j = false.
Proof. intros Hm Hj. eapply lt_pow2_bits; [apply word_lt; eassumption|assumption]. Qed.

Lemma word_setw m i v k : i < 4 -> word (setw m i v) k = if k =? i then v else word m k.
Proof.
  intros Hi. assert (i = 0 \/ i = 1 \/ i = 2 \/ i = 3) as [->|[->|[->| ->]]] by lia;
  destruct k as [|[[|[]|]|[|[]|]|]]; reflexivity.
Qed.

Lemma pos_decomp i j : i / 64 = j / 64 -> i mod 64 = j mod 64 -> i = j.
Proof. intros H1 H2. rewrite (N.div_mod i 64), (N.div_mod j 64) by lia. congruence. Qed.

Lemma bit_of_word m w k : w < 4 -> k < 64 -> mbit m (64 * w + k) = N.testbit (word m w) k.
Proof.
  intros Hw Hk. unfold mbit.
  replace ((64 * w + k) / 64) with w by (apply N.div_unique with k; lia).
  replace ((64 * w + k) mod 64) with k by (apply N.mod_unique with w; lia).
  reflexivity.
Qed.

(** ** Get / Set / All *)
Theorem Get_spec m i : i < 256 -> Mask_Get m i = mbit m i.
Proof.
  intros Hi. unfold Mask_Get, mbit. cbv zeta.
  rewrite offset_u8 by assumption.
  rewrite shl_w_one by apply mod64_lt.
  rewrite wrap_small by (apply N.pow_lt_mono_r; [lia|apply mod64_lt]).
  apply land_pow2_eqb.
Qed.

Theorem Set_spec m i v j : i < 256 ->
  mbit (Mask_Set m i v) j = if j =? i then v else mbit m j.
Proof.
  intros Hi. unfold Mask_Set, mbit. cbv zeta.
  rewrite offset_u8 by assumption.
  rewrite shl_w_one by apply mod64_lt.
  assert (Hidx : i / 64 < 4) by (apply N.div_lt_upper_bound; lia).
  destruct v.
  - rewrite word_setw by assumption.
    destruct (N.eqb_spec (j / 64) (i / 64)) as [Hw|Hw].
    + rewrite N.lor_spec, N.pow2_bits_eqb, Hw.
      destruct (N.eqb_spec (i mod 64) (j mod 64)) as [Ho|Ho].
      * rewrite (proj2 (N.eqb_eq j i)) by (apply pos_decomp; congruence). apply orb_true_r.
      * rewrite orb_false_r. destruct (N.eqb_spec j i) as [->|]; [congruence|reflexivity].
    + destruct (N.eqb_spec j i) as [->|]; [congruence|reflexivity].
  - rewrite word_setw by assumption.
    destruct (N.eqb_spec (j / 64) (i / 64)) as [Hw|Hw].
    + rewrite N.land_spec, not_w_bits, N.pow2_bits_eqb, Hw.
      rewrite (proj2 (N.ltb_lt _ _) (mod64_lt j)), andb_true_r.
      destruct (N.eqb_spec (i mod 64) (j mod 64)) as [Ho|Ho].
      * rewrite (proj2 (N.eqb_eq j i)) by (apply pos_decomp; congruence). apply andb_false_r.
      * simpl. rewrite andb_true_r. destruct (N.eqb_spec j i) as [->|]; [congruence|reflexivity].
    + destruct (N.eqb_spec j i) as [->|]; [congruence|reflexivity].
Qed.

Lemma lor_lt a b w : a < 2 ^ w -> b < 2 ^ w -> N.lor a b < 2 ^ w.
Proof.
  intros Ha Hb. apply bits_lt_pow2. intros k Hk. rewrite N.lor_spec.
  rewrite (lt_pow2_bits a w Ha k Hk), (lt_pow2_bits b w Hb k Hk). reflexivity.
Qed.
Lemma land_lt a b w : a < 2 ^ w -> N.land a b < 2 ^ w.
Proof.
  intros Ha. apply bits_lt_pow2. intros k Hk. rewrite N.land_spec.
  rewrite (lt_pow2_bits a w Ha k Hk). reflexivity.
Qed.
Lemma lxor_lt a b w : a < 2 ^ w -> b < 2 ^ w -> N.lxor a b < 2 ^ w.
Proof.
  intros Ha Hb. apply bits_lt_pow2. intros k Hk. rewrite N.lxor_spec.
  rewrite (lt_pow2_bits a w Ha k Hk), (lt_pow2_bits b w Hb k Hk). reflexivity.
Qed.

Lemma WF_setw m i v : WF m -> v < 2 ^ 64 -> WF (setw m i v).
Proof.
  intros (H0 & H1 & H2 & H3) Hv. unfold setw, WF.
  destruct i as [|[[|[]|]|[|[]|]|]]; simpl; auto.
Qed.

Theorem Set_WF m i v : i < 256 -> WF m -> WF (Mask_Set m i v).
Proof.
  intros Hi Hm. unfold Mask_Set. cbv zeta. rewrite offset_u8 by assumption.
  rewrite shl_w_one by apply mod64_lt.
  destruct v; apply WF_setw; try assumption.
  - apply lor_lt; [apply word_lt; assumption|apply N.pow_lt_mono_r; [lia|apply mod64_lt]].
  - apply land_lt. apply word_lt; assumption.
Qed.

Lemma WF_zero : WF mask_zero.
Proof. unfold WF, mask_zero. simpl. repeat split; apply N.neq_0_lt_0; apply N.pow_nonzero; lia. Qed.

Lemma mbit_zero j : mbit mask_zero j = false.
Proof. unfold mbit, mask_zero, word. simpl. destruct (j / 64) as [|[[|[]|]|[|[]|]|]]; apply N.bits_0. Qed.

Lemma All_fold ids : forall m, Forall (fun i => i < 256) ids -> WF m ->
  WF (fold_left (fun mask id => Mask_Set mask id true) ids m) /\
  forall j, mbit (fold_left (fun mask id => Mask_Set mask id true) ids m) j = mbit m j || existsb (N.eqb j) ids.
Proof.
  induction ids as [|i r IH]; intros m Hall Hm; simpl.
  - split; [assumption|]. intros j. now rewrite orb_false_r.
  - inversion Hall as [|? ? Hi Hr]; subst.
    destruct (IH (Mask_Set m i true) Hr (Set_WF m i true Hi Hm)) as [Hwf Hb].
    split; [assumption|]. intros j. rewrite Hb, Set_spec by assumption.
    destruct (N.eqb j i); [now rewrite orb_true_r|reflexivity].
Qed.

Theorem All_spec ids j : Forall (fun i => i < 256) ids ->
  mbit (All ids) j = existsb (N.eqb j) ids.
Proof.
  intros H. unfold All. cbv zeta. destruct (All_fold ids mask_zero H WF_zero) as [_ Hb].
  rewrite Hb, mbit_zero. reflexivity.
Qed.

Theorem All_WF ids : Forall (fun i => i < 256) ids -> WF (All ids).
Proof. intros H. unfold All. cbv zeta. apply (All_fold ids mask_zero H WF_zero). Qed.

(** ** Not / And / Or / Xor / Reset *)
Ltac by_word j Hj :=
  unfold mbit; destruct (idx_cases j Hj) as [-> | [-> | [-> | ->]]]; cbn [word m0 m1 m2 m3].

Theorem Not_spec m j : j < 256 -> mbit (Mask_Not m) j = negb (mbit m j).
Proof.
  intros Hj. unfold Mask_Not. by_word j Hj; rewrite not_w_bits;
  rewrite (proj2 (N.ltb_lt _ _) (mod64_lt j)); apply andb_true_r.
Qed.

Theorem Not_WF m : WF (Mask_Not m).
Proof. unfold Mask_Not, WF. cbn [m0 m1 m2 m3]. repeat split; apply not_w_lt. Qed.

Theorem And_spec a b j : mbit (Mask_And a b) j = mbit a j && mbit b j.
Proof.
  unfold Mask_And, mbit. destruct (j / 64) as [|[[|[]|]|[|[]|]|]]; cbn [word m0 m1 m2 m3];
  rewrite ?N.land_spec, ?N.bits_0; reflexivity.
Qed.
Theorem Or_spec a b j : mbit (Mask_Or a b) j = mbit a j || mbit b j.
Proof.
  unfold Mask_Or, mbit. destruct (j / 64) as [|[[|[]|]|[|[]|]|]]; cbn [word m0 m1 m2 m3];
  rewrite ?N.lor_spec, ?N.bits_0; reflexivity.
Qed.
Theorem Xor_spec a b j : mbit (Mask_Xor a b) j = xorb (mbit a j) (mbit b j).
Proof.
  unfold Mask_Xor, mbit. destruct (j / 64) as [|[[|[]|]|[|[]|]|]]; cbn [word m0 m1 m2 m3];
  rewrite ?N.lxor_spec, ?N.bits_0; reflexivity.
Qed.

Theorem And_WF a b : WF a -> WF (Mask_And a b).
Proof. intros (H0 & H1 & H2 & H3). unfold Mask_And, WF. cbn [word m0 m1 m2 m3]. repeat split; apply land_lt; assumption. Qed.
Theorem Or_WF a b : WF a -> WF b -> WF (Mask_Or a b).
Proof. intros (H0 & H1 & H2 & H3) (G0 & G1 & G2 & G3). unfold Mask_Or, WF. cbn [word m0 m1 m2 m3]. repeat split; apply lor_lt; assumption. Qed.
Theorem Xor_WF a b : WF a -> WF b -> WF (Mask_Xor a b).
Proof. intros (H0 & H1 & H2 & H3) (G0 & G1 & G2 & G3). unfold Mask_Xor, WF. cbn [word m0 m1 m2 m3]. repeat split; apply lxor_lt; assumption. Qed.

Theorem Reset_spec m j : mbit (Mask_Reset m) j = false.
Proof. unfold Mask_Reset. cbv zeta. apply mbit_zero. Qed.

(** ** Contains / ContainsAny / IsZero *)
Lemma word_sub a b w : w < 4 -> WF b ->
  ((N.land (word a w) (word b w) =? word b w) = true <->
   forall k, k < 64 -> mbit b (64 * w + k) = true -> mbit a (64 * w + k) = true).
Proof.
  intros Hw Hb. rewrite land_eqb_spec. split.
  - intros H k Hk. rewrite !bit_of_word by assumption. apply H.
  - intros H k Hk. destruct (N.lt_ge_cases k 64) as [Hlt|Hge].
    + specialize (H k Hlt). rewrite !bit_of_word in H by assumption. now apply H.
    + rewrite word_high in Hk by assumption. discriminate.
Qed.

Lemma all_bits_split (P : N -> Prop) :
  (forall j, j < 256 -> P j) <->
  (forall w, w < 4 -> forall k, k < 64 -> P (64 * w + k)).
Proof.
  split.
  - intros H w Hw k Hk. apply H. lia.
  - intros H j Hj. rewrite (N.div_mod j 64) by lia. apply H; [apply N.div_lt_upper_bound; lia|apply mod64_lt].
Qed.

Theorem Contains_spec a b : WF b ->
  Mask_Contains a b = true <-> forall j, j < 256 -> mbit b j = true -> mbit a j = true.
Proof.
  intros Hb. unfold Mask_Contains. rewrite !andb_true_iff.
  rewrite (all_bits_split (fun j => mbit b j = true -> mbit a j = true)).
  rewrite (word_sub a b 0), (word_sub a b 1), (word_sub a b 2), (word_sub a b 3) by (assumption || lia).
  split.
  - intros [[[H0 H1] H2] H3] w Hw. assert (w = 0 \/ w = 1 \/ w = 2 \/ w = 3) as [->|[->|[->| ->]]] by lia; assumption.
  - intros H. repeat split; apply H; lia.
Qed.

Lemma word_any a b w : w < 4 -> WF b ->
  (negb (N.land (word a w) (word b w) =? 0) = true <->
   exists k, k < 64 /\ mbit a (64 * w + k) = true /\ mbit b (64 * w + k) = true).
Proof.
  intros Hw Hb. rewrite land_neq0_spec. split.
  - intros (k & Ha & Hk). destruct (N.lt_ge_cases k 64) as [Hlt|Hge].
    + exists k. rewrite !bit_of_word by assumption. auto.
    + rewrite word_high in Hk by assumption. discriminate.
  - intros (k & Hlt & Ha & Hk). exists k. rewrite !bit_of_word in * by assumption. auto.
Qed.

Theorem ContainsAny_spec a b : WF b ->
  Mask_ContainsAny a b = true <-> exists j, j < 256 /\ mbit a j = true /\ mbit b j = true.
Proof.
  intros Hb. unfold Mask_ContainsAny. rewrite !orb_true_iff.
  rewrite (word_any a b 0), (word_any a b 1), (word_any a b 2), (word_any a b 3) by (assumption || lia).
  split.
  - intros [[[H|H]|H]|H]; destruct H as (k & Hk & Ha & Hbb); eexists; (split; [|split; eassumption]); lia.
  - intros (j & Hj & Ha & Hbb).
    assert (Hd := N.div_mod j 64 ltac:(lia)). assert (Hm := mod64_lt j).
    destruct (idx_cases j Hj) as [Hw|[Hw|[Hw|Hw]]]; rewrite Hw in Hd;
      [left; left; left|left; left; right|left; right|right];
      exists (j mod 64); rewrite <- Hd; auto.
Qed.

Theorem IsZero_spec m : WF m ->
  Mask_IsZero m = true <-> forall j, j < 256 -> mbit m j = false.
Proof.
  intros Hm. unfold Mask_IsZero. rewrite !andb_true_iff, !eqb0_spec.
  rewrite (all_bits_split (fun j => mbit m j = false)). split.
  - intros [[[H0 H1] H2] H3] w Hw k Hk. rewrite bit_of_word by assumption.
    assert (w = 0 \/ w = 1 \/ w = 2 \/ w = 3) as [->|[->|[->| ->]]] by lia; auto.
  - intros H. repeat split; intros k; (destruct (N.lt_ge_cases k 64) as [Hlt|Hge];
      [|apply word_high; assumption]).
    + rewrite <- (bit_of_word m 0 k) by (assumption || lia). apply H; [lia|assumption].
    + rewrite <- (bit_of_word m 1 k) by (assumption || lia). apply H; [lia|assumption].
    + rewrite <- (bit_of_word m 2 k) by (assumption || lia). apply H; [lia|assumption].
    + rewrite <- (bit_of_word m 3 k) by (assumption || lia). apply H; [lia|assumption].
Qed.

(** ** TotalBitsSet = number of set bits *)
Lemma count_bits_le x n : count_bits x n <= N.of_nat n.
Proof.
  induction n as [|n IH]; [simpl; lia|].
  change (count_bits x (S n)) with ((if N.testbit x (N.of_nat n) then 1 else 0) + count_bits x n).
  destruct (N.testbit x (N.of_nat n)); lia.
Qed.

Theorem TotalBitsSet_spec m : WF m ->
  Mask_TotalBitsSet m =
  count_bits (word m 0) 64 + count_bits (word m 1) 64 + count_bits (word m 2) 64 + count_bits (word m 3) 64.
Proof.
  intros Hm. unfold Mask_TotalBitsSet.
  rewrite !popcount64_count by (apply word_lt; assumption).
  pose proof (count_bits_le (word m 0) 64) as H0. pose proof (count_bits_le (word m 1) 64) as H1.
  pose proof (count_bits_le (word m 2) 64) as H2. pose proof (count_bits_le (word m 3) 64) as H3.
  change (N.of_nat 64) with 64 in *.
  set (c0 := count_bits (word m 0) 64) in *. set (c1 := count_bits (word m 1) 64) in *.
  set (c2 := count_bits (word m 2) 64) in *. set (c3 := count_bits (word m 3) 64) in *.
  assert (Hp : 256 < 2 ^ 64) by (apply N.log2_lt_pow2; [lia|reflexivity]).
  unfold add_w, wrap. revert Hp. generalize (2 ^ 64). intros P Hp.
  rewrite (N.mod_small (c0 + c1) P) by lia.
  rewrite (N.mod_small (c0 + c1 + c2) P) by lia.
  rewrite (N.mod_small (c0 + c1 + c2 + c3) P) by lia. reflexivity.
Qed.

(** [count_bits] really counts: it is the size of the set of positions below [n]. *)
Lemma count_bits_filter x n :
  count_bits x n = N.of_nat (length (filter (fun k => N.testbit x (N.of_nat k)) (seq 0 n))).
Proof.
  induction n as [|n IH]; [reflexivity|].
  change (count_bits x (S n)) with ((if N.testbit x (N.of_nat n) then 1 else 0) + count_bits x n).
  rewrite seq_S, filter_app, app_length, Nat2N.inj_add, <- IH. cbn [filter Nat.add].
  destruct (N.testbit x (N.of_nat n)); cbn [length]; lia.
Qed.

(** ** Filters *)
Theorem MaskFilter_spec f bits : WF (mf_include f) -> WF (mf_exclude f) ->
  MaskFilter_Matches f bits = true <->
  (forall j, j < 256 -> mbit (mf_include f) j = true -> mbit bits j = true) /\
  (forall j, j < 256 -> mbit (mf_exclude f) j = true -> mbit bits j = false).
Proof.
  intros Hi He. unfold MaskFilter_Matches.
  rewrite andb_true_iff, orb_true_iff, negb_true_iff, Contains_spec by assumption.
  split.
  - intros [Hc Hx]. split; [assumption|]. intros j Hj Hej.
    destruct Hx as [Hx|Hx].
    + destruct (mbit bits j) eqn:Hb; [|reflexivity].
      assert (Mask_ContainsAny bits (mf_exclude f) = true); [|congruence].
      apply ContainsAny_spec; [assumption|]. exists j. auto.
    + rewrite IsZero_spec in Hx by assumption. rewrite Hx in Hej by assumption. discriminate.
  - intros [Hc Hx]. split; [assumption|]. left.
    destruct (Mask_ContainsAny bits (mf_exclude f)) eqn:Hany; [|reflexivity].
    apply ContainsAny_spec in Hany; [|assumption]. destruct Hany as (j & Hj & Hb & Hej).
    rewrite (Hx j Hj Hej) in Hb. discriminate.
Qed.

(** Exclusive: matches exactly the included component set over the whole ID range. *)
Theorem Exclusive_spec m bits : WF m ->
  MaskFilter_Matches (Mask_Exclusive m) bits = true <-> forall j, j < 256 -> mbit bits j = mbit m j.
Proof.
  intros Hm. unfold Mask_Exclusive. rewrite MaskFilter_spec; cbn [mf_include mf_exclude]; [|assumption|apply Not_WF].
  split.
  - intros [Hi He] j Hj. destruct (mbit m j) eqn:Hb.
    + now apply Hi.
    + apply He; [assumption|]. rewrite Not_spec, Hb by assumption. reflexivity.
  - intros H. split; intros j Hj Hb.
    + rewrite H by assumption. assumption.
    + rewrite Not_spec in Hb by assumption. rewrite H by assumption.
      now apply negb_true_iff in Hb.
Qed.

Theorem Mask_Matches_spec m bits : WF m ->
  Mask_Matches m bits = true <-> forall j, j < 256 -> mbit m j = true -> mbit bits j = true.
Proof. intros Hm. unfold Mask_Matches. now apply Contains_spec. Qed.

(** ** Logic filters under arbitrary nesting *)
Inductive gfilter :=
| GMask (m : Mask)
| GMaskFilter (f : MaskFilter)
| GAny (m : Mask) | GNoneOf (m : Mask) | GAnyNot (m : Mask)
| GAnd (l r : gfilter) | GOr (l r : gfilter) | GXor (l r : gfilter) | GNot (g : gfilter)
| GRelation (g : gfilter) | GCached (g : gfilter).

(** What the Go [Matches] methods compute, assembled from the generated functions. *)
Fixpoint gmatches (f : gfilter) (bits : Mask) : bool :=
  match f with
  | GMask m => Mask_Matches m bits
  | GMaskFilter mf => MaskFilter_Matches mf bits
  | GAny m => ANY_Matches m bits
  | GNoneOf m => NoneOF_Matches m bits
  | GAnyNot m => AnyNOT_Matches m bits
  | GAnd l r => AND_Matches (gmatches l bits) (gmatches r bits) bits
  | GOr l r => OR_Matches (gmatches l bits) (gmatches r bits) bits
  | GXor l r => XOR_Matches (gmatches l bits) (gmatches r bits) bits
  | GNot g => NOT_Matches (gmatches g bits) bits
  | GRelation g => RelationFilter_Matches (gmatches g bits) bits
  | GCached g => CachedFilter_Matches (gmatches g bits) bits
  end.

(** The documented meaning, as a proposition over the component set [S]. *)
Fixpoint denote (f : gfilter) (S : N -> bool) : Prop :=
  match f with
  | GMask m => forall j, j < 256 -> mbit m j = true -> S j = true
  | GMaskFilter mf => (forall j, j < 256 -> mbit (mf_include mf) j = true -> S j = true) /\
                      (forall j, j < 256 -> mbit (mf_exclude mf) j = true -> S j = false)
  | GAny m => exists j, j < 256 /\ S j = true /\ mbit m j = true
  | GNoneOf m => ~ exists j, j < 256 /\ S j = true /\ mbit m j = true
  | GAnyNot m => ~ forall j, j < 256 -> mbit m j = true -> S j = true
  | GAnd l r => denote l S /\ denote r S
  | GOr l r => denote l S \/ denote r S
  | GXor l r => ~ (denote l S <-> denote r S)
  | GNot g => ~ denote g S
  | GRelation g => denote g S
  | GCached g => denote g S
  end.

Fixpoint gwf (f : gfilter) : Prop :=
  match f with
  | GMask m | GAny m | GNoneOf m | GAnyNot m => WF m
  | GMaskFilter mf => WF (mf_include mf) /\ WF (mf_exclude mf)
  | GAnd l r | GOr l r | GXor l r => gwf l /\ gwf r
  | GNot g | GRelation g | GCached g => gwf g
  end.

Theorem matches_denote f bits : gwf f -> gmatches f bits = true <-> denote f (mbit bits).
Proof.
  induction f as [m|mf|m|m|m|l IHl r IHr|l IHl r IHr|l IHl r IHr|g IH|g IH|g IH]; simpl; intros Hwf.
  - now apply Mask_Matches_spec.
  - destruct Hwf. now apply MaskFilter_spec.
  - unfold ANY_Matches. cbv zeta. now apply ContainsAny_spec.
  - unfold NoneOF_Matches. cbv zeta. rewrite negb_true_iff, <- not_true_iff_false.
    now rewrite ContainsAny_spec.
  - unfold AnyNOT_Matches. cbv zeta. rewrite negb_true_iff, <- not_true_iff_false.
    now rewrite Contains_spec.
  - destruct Hwf as [Hl Hr]. unfold AND_Matches. rewrite andb_true_iff, IHl, IHr by assumption. reflexivity.
  - destruct Hwf as [Hl Hr]. unfold OR_Matches. rewrite orb_true_iff, IHl, IHr by assumption. reflexivity.
  - destruct Hwf as [Hl Hr]. unfold XOR_Matches. rewrite <- (IHl Hl), <- (IHr Hr).
    destruct (gmatches l bits), (gmatches r bits); simpl; intuition congruence.
  - unfold NOT_Matches. rewrite negb_true_iff, <- not_true_iff_false, IH by assumption. reflexivity.
  - unfold RelationFilter_Matches. now apply IH.
  - unfold CachedFilter_Matches. now apply IH.
Qed.

(** Non-vacuity: concrete masks across word boundaries satisfy the hypotheses. *)
Example wf_example : WF (All [0; 63; 64; 127; 128; 255]) /\
  mbit (All [0; 63; 64; 127; 128; 255]) 64 = true /\ mbit (All [0; 63; 64; 127; 128; 255]) 65 = false /\
  Mask_TotalBitsSet (All [0; 63; 64; 127; 128; 255]) = 6.
Proof.
  split; [apply All_WF; repeat constructor; lia|]. vm_compute. auto.
Qed.
