(** Generated subscription code (ecs/util.go, listener/util.go) against each other and
    against the model's definitions. *)
From Coq Require Import NArith Bool List.
From Arche Require Import Pure.MachInt Gen.Mask256 Gen.Mask64 Model.Ops.

Ltac split_ifs := repeat match goal with |- context [if ?c then _ else _] => destruct c end; reflexivity.

Lemma subscribes_copies_256 t a r s o n :
  Mask256.listener_subscribes t a r s o n = Mask256.subscribes t a r s o n.
Proof. unfold Mask256.listener_subscribes, Mask256.subscribes. split_ifs. Qed.

Lemma subscribes_copies_64 t a r s o n :
  Mask64.listener_subscribes t a r s o n = Mask64.subscribes t a r s o n.
Proof. unfold Mask64.listener_subscribes, Mask64.subscribes. split_ifs. Qed.

Lemma subscription_gen_model b0 b1 b2 b3 b4 b5 :
  Mask256.subscription b0 b1 b2 b3 b4 b5 = Model.Ops.subscription b0 b1 b2 b3 b4 b5.
Proof. destruct b0, b1, b2, b3, b4, b5; vm_compute; reflexivity. Qed.
