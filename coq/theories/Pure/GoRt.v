(** * Run-time prelude of the translator's imperative subset (trusted library).

    Outcomes, slices and arrays as the generated code of [Gen/Go*.v] uses them.

    - [res A]: a Go call returns ([Ret]), panics ([Panicked]: an explicit [panic], an
      index out of range, [make] with len > cap) or leaves what the list model of a
      slice can express ([Outside]: re-slicing beyond the length, which would re-expose
      elements of the backing array the model has dropped).
    - [slice A]: the visible elements and the capacity.  Aliasing between slices that
      share a backing array is NOT modelled; the translator refuses functions in which
      a second name for a backing array is written through (see translator/imp.go).
    - The capacity chosen by the Go run time when [append] has to grow is not specified
      by the language; [s_append] doubles, and nothing proved depends on the value. *)
From Coq Require Import NArith List Bool Lia.
Import ListNotations.
Open Scope N_scope.

Inductive res (A : Type) : Type :=
| Ret (a : A)
| Panicked
| Outside.
Arguments Ret {A} a.
Arguments Panicked {A}.
Arguments Outside {A}.

Definition rbind {A B} (r : res A) (k : A -> res B) : res B :=
  match r with
  | Ret a => k a
  | Panicked => Panicked
  | Outside => Outside
  end.
Definition go_guard {A} (b : bool) (k : res A) : res A := if b then k else Panicked.
Definition go_inside {A} (b : bool) (k : res A) : res A := if b then k else Outside.

Record slice (A : Type) := mkSlice { s_data : list A; s_cap : N }.
Arguments mkSlice {A} s_data s_cap.
Arguments s_data {A} s.
Arguments s_cap {A} s.

Definition s_nil {A} : slice A := mkSlice [] 0.
Definition s_len {A} (s : slice A) : N := N.of_nat (length (s_data s)).

Fixpoint list_upd {A} (l : list A) (i : nat) (v : A) : list A :=
  match l, i with
  | [], _ => []
  | _ :: t, O => v :: t
  | h :: t, S j => h :: list_upd t j v
  end.

Definition a_get {A} (d : A) (l : list A) (i : N) : A := nth (N.to_nat i) l d.
Definition a_set {A} (l : list A) (i : N) (v : A) : list A := list_upd l (N.to_nat i) v.
Definition a_make {A} (d : A) (n : N) : list A := repeat d (N.to_nat n).

Definition s_get {A} (d : A) (s : slice A) (i : N) : A := a_get d (s_data s) i.
Definition s_set {A} (s : slice A) (i : N) (v : A) : slice A := mkSlice (a_set (s_data s) i v) (s_cap s).
(* make([]T, n, c); the caller guards n <= c *)
Definition s_make {A} (d : A) (n c : N) : slice A := mkSlice (a_make d n) c.
(* copy(dst, src): the first min(len dst, len src) elements *)
Definition s_copy {A} (dst src : slice A) : slice A :=
  mkSlice (firstn (length (s_data dst)) (s_data src) ++ skipn (length (s_data src)) (s_data dst)) (s_cap dst).
Definition s_append {A} (s : slice A) (v : A) : slice A :=
  if s_len s <? s_cap s then mkSlice (s_data s ++ [v]) (s_cap s)
  else mkSlice (s_data s ++ [v]) (N.max (2 * s_cap s) (s_len s + 1)).
(* s[:n]; the caller guards n <= len s *)
Definition s_prefix {A} (s : slice A) (n : N) : slice A := mkSlice (firstn (N.to_nat n) (s_data s)) (s_cap s).

(** ** Lemmas *)
Lemma list_upd_length {A} (l : list A) i v : length (list_upd l i v) = length l.
Proof. revert i; induction l as [|h t IH]; intros [|i]; simpl; auto. Qed.

Lemma list_upd_nth_eq {A} (l : list A) i v d : (i < length l)%nat -> nth i (list_upd l i v) d = v.
Proof. revert i; induction l as [|h t IH]; intros [|i]; simpl; intros H; try lia; auto. apply IH; lia. Qed.

Lemma list_upd_nth_ne {A} (l : list A) i j v d : i <> j -> nth j (list_upd l i v) d = nth j l d.
Proof.
  revert i j; induction l as [|h t IH]; intros [|i] [|j]; simpl; intros H; try congruence; auto.
Qed.

Lemma a_make_length {A} (d : A) n : length (a_make d n) = N.to_nat n.
Proof. apply repeat_length. Qed.

Lemma s_copy_all {A} (dst src : slice A) :
  length (s_data src) = length (s_data dst) -> s_copy dst src = mkSlice (s_data src) (s_cap dst).
Proof.
  intros H. unfold s_copy. rewrite <- H, firstn_all, H, skipn_all. now rewrite app_nil_r.
Qed.

Lemma s_append_data {A} (s : slice A) v : s_data (s_append s v) = s_data s ++ [v].
Proof. unfold s_append. now destruct (_ <? _). Qed.

Lemma s_append_cap {A} (s : slice A) v : s_len (s_append s v) <= s_cap (s_append s v).
Proof.
  unfold s_append, s_len. destruct (N.ltb_spec (N.of_nat (length (s_data s))) (s_cap s)); simpl;
    rewrite app_length; simpl; lia.
Qed.

(** [for i := range s]: the indices 0 .. len-1 *)
Definition n_range (n : N) : list N := map N.of_nat (seq 0 (N.to_nat n)).
