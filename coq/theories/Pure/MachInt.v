(** * Machine integers for the generated code (trusted library of the translator).

    Go's fixed-width unsigned arithmetic on [N]: every operation that can leave the
    range is wrapped at its width explicitly; shifts by at least the width give 0 as in
    Go; [popcount64] is [bits.OnesCount64]. *)
From Coq Require Import NArith Lia Bool List.
Open Scope N_scope.

Definition wrap (w x : N) : N := x mod 2 ^ w.
Definition add_w (w a b : N) : N := wrap w (a + b).
Definition sub_w (w a b : N) : N := wrap w (wrap w a + 2 ^ w - wrap w b).
Definition mul_w (w a b : N) : N := wrap w (a * b).
Definition not_w (w a : N) : N := N.lxor (wrap w a) (N.ones w).
Definition shl_w (w a s : N) : N := if s <? w then wrap w (N.shiftl a s) else 0.

Fixpoint popcount_pos (p : positive) : N :=
  match p with
  | xH => 1
  | xO q => popcount_pos q
  | xI q => 1 + popcount_pos q
  end.
Definition popcount64 (x : N) : N := match x with N0 => 0 | Npos p => popcount_pos p end.

(** ** Lemmas *)
Lemma wrap_small w x : x < 2 ^ w -> wrap w x = x.
Proof. intros. unfold wrap. now apply N.mod_small. Qed.

Lemma wrap_lt w x : wrap w x < 2 ^ w.
Proof. unfold wrap. apply N.mod_lt. apply N.pow_nonzero. lia. Qed.

Lemma wrap_bits w x k : N.testbit (wrap w x) k = N.testbit x k && (k <? w).
Proof.
  unfold wrap. destruct (N.ltb_spec k w).
  - rewrite N.mod_pow2_bits_low by assumption. now rewrite andb_true_r.
  - rewrite N.mod_pow2_bits_high by assumption. now rewrite andb_false_r.
Qed.

Lemma lt_pow2_bits x w : x < 2 ^ w -> forall k, w <= k -> N.testbit x k = false.
Proof.
  intros H k Hk. destruct (N.eq_dec x 0) as [->|Hx]; [apply N.bits_0|].
  apply N.bits_above_log2. apply N.log2_lt_pow2 in H; lia.
Qed.

Lemma bits_lt_pow2 x w : (forall k, w <= k -> N.testbit x k = false) -> x < 2 ^ w.
Proof.
  intros H. destruct (N.eq_dec x 0) as [->|Hx].
  - apply N.neq_0_lt_0. apply N.pow_nonzero. lia.
  - apply N.log2_lt_pow2; [lia|]. destruct (N.lt_ge_cases (N.log2 x) w) as [|Hge]; [assumption|].
    specialize (H _ Hge). rewrite N.bit_log2 in H by assumption. discriminate.
Qed.

Lemma shl_w_one w s : s < w -> shl_w w 1 s = 2 ^ s.
Proof.
  intros H. unfold shl_w. rewrite (proj2 (N.ltb_lt _ _) H).
  rewrite N.shiftl_1_l. apply wrap_small. apply N.pow_lt_mono_r; lia.
Qed.

Lemma shl_w_big w a s : w <= s -> shl_w w a s = 0.
Proof. intros H. unfold shl_w. now rewrite (proj2 (N.ltb_ge _ _) H). Qed.

Lemma land_pow2_eqb x o : (N.land x (2 ^ o) =? 2 ^ o) = N.testbit x o.
Proof.
  destruct (N.testbit x o) eqn:Hb.
  - apply N.eqb_eq. apply N.bits_inj. intros k. rewrite N.land_spec, N.pow2_bits_eqb.
    destruct (N.eqb_spec o k) as [->|]; [now rewrite Hb|now rewrite andb_false_r].
  - apply N.eqb_neq. intros Heq.
    assert (N.testbit (N.land x (2 ^ o)) o = N.testbit (2 ^ o) o) by now rewrite Heq.
    rewrite N.land_spec, Hb, N.pow2_bits_true in H. discriminate.
Qed.

Lemma not_w_bits w a k : N.testbit (not_w w a) k = negb (N.testbit a k) && (k <? w).
Proof.
  unfold not_w. rewrite N.lxor_spec, wrap_bits.
  destruct (N.ltb_spec k w).
  - rewrite N.ones_spec_low by assumption. rewrite !andb_true_r. now rewrite xorb_true_r.
  - rewrite N.ones_spec_high by assumption. now rewrite !andb_false_r.
Qed.

Lemma not_w_lt w a : not_w w a < 2 ^ w.
Proof.
  apply bits_lt_pow2. intros k Hk. rewrite not_w_bits.
  rewrite (proj2 (N.ltb_ge _ _) Hk). apply andb_false_r.
Qed.

(** The offset computation of the 256-bit mask: [id - 64 * (id / 64)] in uint8. *)
Lemma offset_u8 i : i < 256 -> sub_w 8 i (mul_w 8 64 (i / 64)) = i mod 64.
Proof.
  intros H. unfold sub_w, mul_w, wrap.
  assert (Hd : i / 64 < 4) by (apply N.div_lt_upper_bound; lia).
  assert (Hm := N.div_mod i 64 ltac:(lia)).
  assert (Hlt := N.mod_lt i 64 ltac:(lia)).
  change (2 ^ 8) with 256.
  rewrite (N.mod_small (64 * (i / 64))) by lia.
  rewrite (N.mod_small i) by lia.
  rewrite (N.mod_small (64 * (i / 64)) 256) by lia.
  replace (i + 256 - 64 * (i / 64)) with (i mod 64 + 1 * 256) by lia.
  rewrite N.mod_add by lia. apply N.mod_small. lia.
Qed.

Lemma land_eqb_spec a b :
  (N.land a b =? b) = true <-> forall k, N.testbit b k = true -> N.testbit a k = true.
Proof.
  rewrite N.eqb_eq. split.
  - intros H k Hk. assert (N.testbit (N.land a b) k = N.testbit b k) by now rewrite H.
    rewrite N.land_spec, Hk, andb_true_r in H0. assumption.
  - intros H. apply N.bits_inj. intros k. rewrite N.land_spec.
    destruct (N.testbit b k) eqn:Hb; [rewrite (H _ Hb); reflexivity|apply andb_false_r].
Qed.

Lemma land_neq0_spec a b :
  negb (N.land a b =? 0) = true <-> exists k, N.testbit a k = true /\ N.testbit b k = true.
Proof.
  rewrite negb_true_iff, N.eqb_neq. split.
  - intros H. destruct (N.eq_dec (N.land a b) 0) as [|Hne]; [contradiction|].
    exists (N.log2 (N.land a b)). apply andb_true_iff. rewrite <- N.land_spec.
    now apply N.bit_log2.
  - intros (k & Ha & Hb) Hz.
    assert (N.testbit (N.land a b) k = true) by (rewrite N.land_spec, Ha, Hb; reflexivity).
    rewrite Hz, N.bits_0 in H. discriminate.
Qed.

Lemma eqb0_spec a : (a =? 0) = true <-> forall k, N.testbit a k = false.
Proof.
  rewrite N.eqb_eq. split; [intros ->; apply N.bits_0|].
  intros H. apply N.bits_inj_0. assumption.
Qed.

(** popcount = number of set bits below 64. *)
Fixpoint count_bits (x : N) (n : nat) : N :=
  match n with
  | O => 0
  | S k => (if N.testbit x (N.of_nat k) then 1 else 0) + count_bits x k
  end.

Lemma count_bits_double x n : count_bits (2 * x) (S n) = count_bits x n.
Proof.
  induction n as [|n IH].
  - change (count_bits (2 * x) 1) with ((if N.testbit (2 * x) 0 then 1 else 0) + 0).
    rewrite N.testbit_even_0. reflexivity.
  - change (count_bits (2 * x) (S (S n))) with
      ((if N.testbit (2 * x) (N.of_nat (S n)) then 1 else 0) + count_bits (2 * x) (S n)).
    rewrite IH. rewrite Nat2N.inj_succ, N.testbit_even_succ by apply N.le_0_l. reflexivity.
Qed.

Lemma count_bits_succ_double x n : count_bits (2 * x + 1) (S n) = 1 + count_bits x n.
Proof.
  induction n as [|n IH].
  - change (count_bits (2 * x + 1) 1) with ((if N.testbit (2 * x + 1) 0 then 1 else 0) + 0).
    rewrite N.testbit_odd_0. reflexivity.
  - change (count_bits (2 * x + 1) (S (S n))) with
      ((if N.testbit (2 * x + 1) (N.of_nat (S n)) then 1 else 0) + count_bits (2 * x + 1) (S n)).
    rewrite IH. rewrite Nat2N.inj_succ, N.testbit_odd_succ by apply N.le_0_l.
    change (count_bits x (S n)) with ((if N.testbit x (N.of_nat n) then 1 else 0) + count_bits x n). lia.
Qed.

Lemma count_bits_0 n : count_bits 0 n = 0.
Proof.
  induction n as [|n IH]; [reflexivity|].
  change (count_bits 0 (S n)) with ((if N.testbit 0 (N.of_nat n) then 1 else 0) + count_bits 0 n).
  rewrite N.bits_0, IH. reflexivity.
Qed.

Lemma popcount_pos_count p : forall n, (N.pos p < 2 ^ N.of_nat n) -> popcount_pos p = count_bits (N.pos p) n.
Proof.
  induction p as [q IH|q IH|]; intros n Hn.
  - destruct n as [|n]; [simpl in Hn; lia|]. change (popcount_pos q~1) with (1 + popcount_pos q).
    change (N.pos q~1) with (2 * N.pos q + 1). rewrite count_bits_succ_double. f_equal.
    apply IH. rewrite Nat2N.inj_succ, N.pow_succ_r' in Hn. lia.
  - destruct n as [|n]; [simpl in Hn; lia|]. change (popcount_pos q~0) with (popcount_pos q).
    change (N.pos q~0) with (2 * N.pos q). rewrite count_bits_double.
    apply IH. rewrite Nat2N.inj_succ, N.pow_succ_r' in Hn. lia.
  - destruct n as [|n]; [simpl in Hn; lia|]. change (popcount_pos 1) with 1.
    change (N.pos 1) with (2 * 0 + 1). rewrite count_bits_succ_double, count_bits_0. reflexivity.
Qed.

Lemma popcount64_count x : x < 2 ^ 64 -> popcount64 x = count_bits x 64.
Proof.
  intros H. destruct x as [|p]; simpl popcount64.
  - now rewrite count_bits_0.
  - now apply (popcount_pos_count p 64).
Qed.
