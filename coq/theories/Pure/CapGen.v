(** * The capacity arithmetic of ecs/util.go, as translated (Gen/Mask256.v), is the model's.

    [capacity], [capacityNonZero], [capacityU32] of the current source (regenerated on every
    run) against [capacity] / [capacity_nz] of Model/Base.v, which the model uses for table
    growth and the number of layout slots; and what that number is: the least multiple of
    the increment that holds the size.  Bounds: results below 2^63 (Go int) resp. 2^32. *)
From Arche Require Import Model.Base.
From Arche Require Import Pure.MachInt Gen.Mask256.
From Coq Require Import ZifyN ZifyNat.
Local Open Scope nat_scope.

Ltac Zify.zify_post_hook ::= Z.div_mod_to_equations.

Lemma capacity_spec size inc :
  0 < inc ->
  size <= Base.capacity size inc < size + inc /\ Base.capacity size inc mod inc = 0.
Proof.
  intros Hinc. unfold Base.capacity.
  pose proof (Nat.div_mod size inc ltac:(lia)) as Hdm.
  pose proof (Nat.mod_upper_bound size inc ltac:(lia)) as Hm.
  destruct (Nat.eqb_spec (size mod inc) 0) as [He|He].
  - rewrite Nat.add_0_r. split; [lia|]. rewrite Nat.mul_comm. apply Nat.mod_mul. lia.
  - split; [lia|].
    replace (inc * (size / inc) + inc) with ((size / inc + 1) * inc) by lia. apply Nat.mod_mul. lia.
Qed.

Lemma capacity_least size inc c :
  0 < inc -> size <= c -> c mod inc = 0 -> Base.capacity size inc <= c.
Proof.
  intros Hinc Hc Hm. destruct (capacity_spec size inc Hinc) as [[H1 H2] H3].
  apply Nat.mod_divides in Hm as [k Hk]; [|lia]. apply Nat.mod_divides in H3 as [j Hj]; [|lia].
  rewrite Hj in *. subst c.
  assert (j < k + 1) by (apply (Nat.mul_lt_mono_pos_l inc); lia).
  apply Nat.mul_le_mono_l. lia.
Qed.

Lemma gen_body w (size inc : nat) :
  0 < inc -> (N.of_nat (Base.capacity size inc) < 2 ^ w)%N ->
  (let cap := mul_w w (N.of_nat inc) (N.of_nat size / N.of_nat inc) in
   if negb (N.of_nat size mod N.of_nat inc =? 0)%N then add_w w cap (N.of_nat inc) else cap)
  = N.of_nat (Base.capacity size inc).
Proof.
  intros Hinc Hb. cbv zeta. unfold Base.capacity in *.
  rewrite <- Nat2N.inj_div, <- Nat2N.inj_mod.
  assert (Hmul : mul_w w (N.of_nat inc) (N.of_nat (size / inc)) = N.of_nat (inc * (size / inc))).
  { unfold mul_w. rewrite <- Nat2N.inj_mul. apply wrap_small.
    destruct (size mod inc =? 0); lia. }
  rewrite Hmul.
  destruct (Nat.eqb_spec (size mod inc) 0) as [He|He].
  - rewrite He. cbn. by rewrite Nat.add_0_r.
  - assert ((N.of_nat (size mod inc) =? 0)%N = false) as -> by (apply N.eqb_neq; lia).
    cbn [negb]. unfold add_w. rewrite <- Nat2N.inj_add. by apply wrap_small.
Qed.

Theorem capacity_gen size inc :
  0 < inc -> (N.of_nat (Base.capacity size inc) < 2 ^ 63)%N ->
  Mask256.capacity (N.of_nat size) (N.of_nat inc) = N.of_nat (Base.capacity size inc).
Proof.
  intros Hinc Hb. unfold Mask256.capacity. apply (gen_body 64); [done|].
  eapply N.lt_trans; [exact Hb|]. done.
Qed.

Theorem capacityNonZero_gen size inc :
  0 < inc -> (N.of_nat (Base.capacity size inc) < 2 ^ 63)%N ->
  Mask256.capacityNonZero (N.of_nat size) (N.of_nat inc) = N.of_nat (capacity_nz size inc).
Proof.
  intros Hinc Hb. unfold Mask256.capacityNonZero, capacity_nz.
  destruct (Nat.eqb_spec size 0) as [->|Hne]; [done|].
  assert ((N.of_nat size =? 0)%N = false) as -> by (apply N.eqb_neq; lia).
  apply (gen_body 64); [done|]. eapply N.lt_trans; [exact Hb|]. done.
Qed.

Theorem capacityU32_gen size inc :
  0 < inc -> (N.of_nat (Base.capacity size inc) < 2 ^ 32)%N ->
  Mask256.capacityU32 (N.of_nat size) (N.of_nat inc) = N.of_nat (Base.capacity size inc).
Proof. intros Hinc Hb. unfold Mask256.capacityU32. by apply (gen_body 32). Qed.

Example capacity_examples :
  Mask256.capacity 0 16 = 0%N /\ Mask256.capacity 17 16 = 32%N /\ Mask256.capacityNonZero 0 16 = 16%N /\
  Mask256.capacityU32 128 128 = 128%N /\ Base.capacity 129 128 = 256.
Proof. vm_compute. done. Qed.

Theorem capacity_code_tie size inc :
  0 < inc -> (N.of_nat (Base.capacity size inc) < 2 ^ 63)%N ->
  Mask256.capacity (N.of_nat size) (N.of_nat inc) = N.of_nat (Base.capacity size inc) /\
  Mask256.capacityNonZero (N.of_nat size) (N.of_nat inc) = N.of_nat (capacity_nz size inc).
Proof. intros H1 H2. split; [exact (capacity_gen size inc H1 H2)|exact (capacityNonZero_gen size inc H1 H2)]. Qed.

Theorem capacity_is_least_multiple size inc :
  0 < inc ->
  size <= Base.capacity size inc < size + inc /\ Base.capacity size inc mod inc = 0 /\
  forall c, size <= c -> c mod inc = 0 -> Base.capacity size inc <= c.
Proof.
  intros H. destruct (capacity_spec size inc H) as [H1 H2].
  split; [exact H1|]. split; [exact H2|]. intros c. exact (capacity_least size inc c H).
Qed.
