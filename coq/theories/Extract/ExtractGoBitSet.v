(** Extraction of the translator's output Gen/GoBitSet.v for the translator validation
    (ocaml/tv_bitset: replays the calls tv_harness made against the real Go code; spec search).
    [ExtrOcamlBasic] only; N and positive stay the extracted inductive types. *)
From Arche Require Import Model.Base Model.Pool Pure.MachInt Pure.GoRt Gen.Mask256 Gen.GoBitSet.
Require Import ExtrOcamlBasic.
Extraction Language OCaml.
Extraction "gm_bitset.ml" zero_bitSet bitSet_data bitSet_Get bitSet_Set bitSet_Reset bitSet_ExtendTo.
