(** Extraction of the translator's output Gen/GoIntPool.v for the translator validation
    (ocaml/tv_intpool: replays the calls tv_harness made against the real Go code; spec search).
    [ExtrOcamlBasic] only; N and positive stay the extracted inductive types. *)
From Arche Require Import Model.Base Model.Pool Pure.MachInt Pure.GoRt Gen.Mask256 Gen.GoIntPool.
Require Import ExtrOcamlBasic.
Extraction Language OCaml.
Extraction "gm_intpool.ml" go_newIntPool intPool_Get intPool_Recycle intPool_Reset.
