(** Extraction of the translator's output Gen/GoResources.v for the translator validation
    (ocaml/tv_res: replays the calls tv_harness made against the real Go code; spec search).
    [ExtrOcamlBasic] only; N and positive stay the extracted inductive types. *)
From Arche Require Import Pure.MachInt Pure.GoRt Gen.Mask256 Gen.GoResources.
Require Import ExtrOcamlBasic.
Extraction Language OCaml.
Extraction "gm_res.ml" Resources_resources s_make Resources_Add Resources_Remove Resources_Get Resources_Has Resources_reset.
