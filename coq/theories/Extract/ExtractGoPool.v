(** Extraction of the translator's output Gen/GoEntityPool.v for the translator validation
    (ocaml/tv_pool: replays the calls tv_harness made against the real Go code; spec search).
    [ExtrOcamlBasic] only; N and positive stay the extracted inductive types. *)
From Arche Require Import Model.Base Model.Pool Pure.MachInt Pure.GoRt Gen.Mask256 Gen.GoEntityPool.
Require Import ExtrOcamlBasic.
Extraction Language OCaml.
Extraction "gm_pool.ml" go_newEntityPool entityPool_Get entityPool_Recycle entityPool_Alive entityPool_Reset pool_init pool_get pool_recycle pool_alive_opt.
