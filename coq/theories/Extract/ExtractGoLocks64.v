(** Extraction of the translator's output Gen.GoLocks64.v for the translator validation
    (ocaml/tv_lock64: replays the calls tv_harness made against the real Go code; spec search).
    [ExtrOcamlBasic] only; N and positive stay the extracted inductive types. *)
From Arche Require Import Model.Base Model.Pool Pure.MachInt Pure.GoRt Gen.Mask64 Gen.GoLocks64.
Require Import ExtrOcamlBasic.
Extraction Language OCaml.
Extraction "gm_lock64.ml" zero_lockMask lockMask_Lock lockMask_Unlock lockMask_IsLocked lockMask_Reset Mask_Get locks_init locks_lock locks_unlock locks_locked.
