(** Extraction of the translator's output Gen/GoPaged.v for the translator validation
    (ocaml/tv_paged: replays the calls tv_harness made against the real Go code; spec search).
    [ExtrOcamlBasic] only; N and positive stay the extracted inductive types. *)
From Arche Require Import Model.Base Model.Pool Pure.MachInt Pure.GoRt Gen.Mask256 Gen.GoPaged.
Require Import ExtrOcamlBasic.
Extraction Language OCaml.
Extraction "gm_paged.ml" zero_pagedSlice pagedSlice_Add pagedSlice_Get pagedSlice_Set pagedSlice_Len.
