(** Extraction of the executable model for the correspondence driver.
    [ExtrOcamlBasic] only: bool, option, list, prod, unit, sumbool map to OCaml's own
    types; nat, positive, N, Z stay the extracted inductive types. *)
From Arche Require Import Model.Base Model.Pool Model.Filter Model.World Model.Ops.
Require Import ExtrOcamlBasic.
Extraction Language OCaml.
Extraction "model.ml" step world_init mask_of mask_ids mask_not world_dump pool_alive is_locked.
