(** C12 - Subscriptions and Dispatch deliver exactly the selected part of the event stream.
    Statements only; proofs in Proofs/Subs.v (the rule, Dispatch) and Proofs/SubsSites.v
    (at EVERY emission site of the model - creation, removal, exchange, Relations.Set and
    batch operations - a listener restricted to types S and components C receives exactly
    the sub-list of the events an all-subscribing listener receives that the documented
    rule selects, with content and order unchanged).  The generated copies of [subscribes]
    (ecs/util.go and listener/util.go) are related to each other in Pure/SubsGen.v. *)
From Arche Require Import Model.Base Model.World Model.Ops Proofs.Subs Pure.SubsGen Proofs.SubsSites.

(** The subscription rule: an event is of interest iff some subscribed type occurred and,
    under a component restriction, a relation type touched a relation component in it, a
    creation/addition type an added component in it, or a removal type a removed one. *)
Theorem C12_rule : forall trigger added removed subs o n,
  subscribes trigger added removed subs o n = true <->
  trigger <> 0%N /\
  (subs = None \/
   exists s, subs = Some s /\
     ((contains_any trigger 48 = true /\ (opt_bit s o = true \/ opt_bit s n = true)) \/
      (contains_any trigger 5 = true /\ exists x, added = Some x /\ contains_any s x = true) \/
      (contains_any trigger 10 = true /\ exists x, removed = Some x /\ contains_any s x = true))).
Proof. exact subscribes_rule. Qed.

(** Dispatch: each sub-listener receives exactly what it would receive if installed alone,
    for every list of sub-listeners (given at construction or added later), every
    subscription mask and every component restriction. *)
Theorem C12_dispatch : forall subs i l bits a r o n eva evr,
  subs !! i = Some l -> mask_arg_ok a eva -> mask_arg_ok r evr ->
  i ∈ recipients (LDispatch subs) bits a r o n eva evr <->
  recipients (LCallback l) bits a r o n eva evr = [0].
Proof. exact dispatch_equiv. Qed.

(** The two copies of [subscribes] in the source (package ecs and package listener),
    as regenerated from the current tree, are extensionally equal - in both builds. *)
Theorem C12_copies_equal_256 : forall t a r s o n,
  Arche.Gen.Mask256.listener_subscribes t a r s o n = Arche.Gen.Mask256.subscribes t a r s o n.
Proof. exact subscribes_copies_256. Qed.
Theorem C12_copies_equal_64 : forall t a r s o n,
  Arche.Gen.Mask64.listener_subscribes t a r s o n = Arche.Gen.Mask64.subscribes t a r s o n.
Proof. exact subscribes_copies_64. Qed.
(** The generated [subscription] is the documented bit assignment (all 64 cases). *)
Theorem C12_subscription_bits : forall b0 b1 b2 b3 b4 b5,
  Arche.Gen.Mask256.subscription b0 b1 b2 b3 b4 b5 = subscription b0 b1 b2 b3 b4 b5.
Proof. exact subscription_gen_model. Qed.


(** Every emission site: restricted listener = filter of the all-subscribing listener. *)
Theorem C12_site_exchange : forall w e x add rem l,
  ev_exchange (with_listener w (LCallback l)) e x add rem =
  filter (fun ev => selects l ev = true) (ev_exchange (with_listener w SubsSites.lall) e x add rem).
Proof. exact exchange_site. Qed.
Theorem C12_site_create : forall w e mask ids newrel l,
  ev_create (with_listener w (LCallback l)) e mask ids newrel =
  filter (fun ev => selects l ev = true) (ev_create (with_listener w SubsSites.lall) e mask ids newrel).
Proof. exact create_site. Qed.
Theorem C12_site_remove : forall w e nd target l,
  ev_remove (with_listener w (LCallback l)) e nd target =
  filter (fun ev => selects l ev = true) (ev_remove (with_listener w SubsSites.lall) e nd target).
Proof. exact remove_site. Qed.
Theorem C12_site_target : forall w e rid oldtarget l,
  ev_target (with_listener w (LCallback l)) e rid oldtarget =
  filter (fun ev => selects l ev = true) (ev_target (with_listener w SubsSites.lall) e rid oldtarget).
Proof. exact target_site. Qed.
Theorem C12_site_batch : forall w segs added_ids removed_ids l,
  ev_batch (with_listener w (LCallback l)) segs added_ids removed_ids =
  filter (fun ev => selects l ev = true) (ev_batch (with_listener w SubsSites.lall) segs added_ids removed_ids).
Proof. exact batch_site. Qed.

Print Assumptions C12_dispatch.
Print Assumptions C12_site_batch.
Print Assumptions C12_rule.
Print Assumptions C12_copies_equal_256.

(** Sub-listeners added to a Dispatch later: the struct's incremental bookkeeping (NewDispatch's
    loop, then any number of AddListener calls) presents exactly the Subscriptions() /
    Components() the model computes from the whole list, so what it delivers is [recipients]
    of the whole list - and by [C12_dispatch] each sub-listener, early or late, receives what
    it would receive alone.  The mirror [d_add] of AddListener is tied to the code by the
    correspondence run, which compares Subscriptions()/Components() of every Dispatch it builds
    (sub-listeners given at construction, added before and after SetListener) with [outer_cfg]. *)
From Arche Require Import Proofs.DispatchAdd.
Theorem C12_dispatch_add_cfg : forall ls more,
  let d := foldl d_add (d_new ls) more in
  d_subs d = ls ++ more /\ d_cfg d = outer_cfg (LDispatch (ls ++ more)).
Proof. exact dispatch_add_cfg. Qed.
Theorem C12_dispatch_add_recipients : forall ls more bits a r o n eva evr,
  let d := foldl d_add (d_new ls) more in
  (if gate (d_cfg d) bits a r o n then
     omap (fun '(i, l) => if gate l bits (Some eva) (Some evr) o n then Some i else None)
          (imap (fun i l => (i, l)) (d_subs d))
   else []) = recipients (LDispatch (ls ++ more)) bits a r o n eva evr.
Proof. exact dispatch_add_recipients. Qed.
Example C12_dispatch_add_nonvacuous :
  d_cfg (foldl d_add (d_new [mkL 1 (Some 2%N)]) [mkL 4 (Some 8%N)]) = mkL 5 (Some 10%N) /\
  d_cfg (foldl d_add (d_new [mkL 1 (Some 2%N)]) [mkL 4 None; mkL 8 (Some 1%N)]) = mkL 13 None /\
  outer_cfg (LDispatch [mkL 1 (Some 2%N); mkL 4 None; mkL 8 (Some 1%N)]) = mkL 13 None.
Proof. exact demo_dispatch_add. Qed.
Print Assumptions C12_dispatch_add_cfg.
Print Assumptions C12_dispatch_add_recipients.
