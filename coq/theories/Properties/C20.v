(** C20 - Resources: one value per type per world, exact value, strict add/remove.
    Statements only; proofs in Proofs/ResReg.v (on top of Proofs/StepFrame.v). *)
From Arche Require Import Model.Base Model.Pool Model.World Model.Ops Proofs.StepFrame Proofs.ResReg.

(** After every operation of the model the resource map is what the partial-map
    specification says: only Add (of an absent id), Remove (of a present id) and Reset (of
    an unlocked world) change it - no entity operation, query, lock, cache operation or
    registration does. *)
Theorem C20_resources_map : forall w o, w_res (fst (fst (step w o))) = res_spec w o.
Proof. exact resources_map. Qed.

Theorem C20_get : forall w id,
  step w (OResGet id) = (w, match w_res w !! id with Some o => Ok (VOptZ o) | None => Panic end, []).
Proof. exact resources_get. Qed.

Theorem C20_strict : forall w id v,
  (forall x, w_res w !! id = Some (Some x) -> step w (OResAdd id v) = (w, Panic, [])) /\
  (w_res w !! id = Some None -> step w (OResRemove id) = (w, Panic, [])).
Proof. exact resources_strict. Qed.

Theorem C20_ids_independent : forall w key isrel zs,
  w_resreg (fst (fst (step w (ORegister key isrel zs)))) = w_resreg w /\
  w_reg (fst (fst (step w (OResReg key)))) = w_reg w.
Proof. exact res_ids_independent. Qed.

Print Assumptions C20_resources_map.
