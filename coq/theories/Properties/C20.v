(** C20 - Resources: one value per type per world, exact value, strict add/remove.
    Statements only; proofs in Proofs/ResReg.v (on top of Proofs/StepFrame.v). *)
From Arche Require Import Model.Base Model.Pool Model.World Model.Ops Proofs.StepFrame Proofs.ResReg.

(** After every operation of the model the resource map is what the partial-map
    specification says: only Add (of an absent id), Remove (of a present id) and Reset (of
    an unlocked world) change it - no entity operation, query, lock, cache operation or
    registration does. *)
Theorem C20_resources_map : forall w o, w_res (fst (fst (step w o))) = res_spec w o.
Proof. exact resources_map. Qed.

Theorem C20_get : forall w id,
  step w (OResGet id) = (w, match w_res w !! id with Some o => Ok (VOptZ o) | None => Panic end, []).
Proof. exact resources_get. Qed.

Theorem C20_strict : forall w id v,
  (forall x, w_res w !! id = Some (Some x) -> step w (OResAdd id v) = (w, Panic, [])) /\
  (w_res w !! id = Some None -> step w (OResRemove id) = (w, Panic, [])).
Proof. exact resources_strict. Qed.

Theorem C20_ids_independent : forall w key isrel zs,
  w_resreg (fst (fst (step w (ORegister key isrel zs)))) = w_resreg w /\
  w_reg (fst (fst (step w (OResReg key)))) = w_reg w.
Proof. exact res_ids_independent. Qed.

Print Assumptions C20_resources_map.

(** ** The resource storage of the code itself: Add / Remove / Get / Has / reset of
    ecs/resources.go, as translated into [Gen/GoResources.v] (regenerated on every run),
    return what the model's step returns on the model's list [w_res], panics included
    (double add, removal of an absent resource, id out of range); reset clears every slot.
    Values of type [any] are nil or opaque numbers; [f] is any map from the model's values. *)
From Arche Require Import Pure.GoRt Gen.GoResources Proofs.ResTie.
Local Open Scope nat_scope.
Theorem C20_code_add : forall (f : Z -> N) g l i v, rr f g l ->
  match l !! i with
  | Some None => exists g', Resources_Add g (N.of_nat i) (Some (f v)) = Ret g' /\ rr f g' (<[i := Some v]> l)
  | _ => Resources_Add g (N.of_nat i) (Some (f v)) = Panicked
  end.
Proof. exact Add_tie. Qed.
Theorem C20_code_remove : forall (f : Z -> N) g l i, rr f g l ->
  match l !! i with
  | Some (Some _) => exists g', Resources_Remove g (N.of_nat i) = Ret g' /\ rr f g' (<[i := None]> l)
  | _ => Resources_Remove g (N.of_nat i) = Panicked
  end.
Proof. exact Remove_tie. Qed.
Theorem C20_code_get : forall (f : Z -> N) g l i, rr f g l ->
  Resources_Get g (N.of_nat i) = match l !! i with Some o => Ret (fmap f o) | None => Panicked end.
Proof. exact Get_tie. Qed.
Theorem C20_code_has : forall (f : Z -> N) g l i, rr f g l ->
  Resources_Has g (N.of_nat i) = match l !! i with Some o => Ret (bool_decide (is_Some o)) | None => Panicked end.
Proof. exact Has_tie. Qed.
Theorem C20_code_reset : forall (f : Z -> N) g l, rr f g l ->
  exists g', Resources_reset g = Ret g' /\ rr f g' (replicate (length l) None).
Proof. exact reset_tie. Qed.
Print Assumptions C20_code_add.
Print Assumptions C20_code_reset.
