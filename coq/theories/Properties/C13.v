(** C13 - Determinism.  Formal content (see DESIGN.md section 6, C13; level: partial):
    (a) the model of every operation is a Gallina function, so equal inputs give equal
        outputs: [step_deterministic] below is what that means for histories;
    (b) the current source contains no [range] over a map-typed expression
        (fact table regenerated from /repo on every run), the only construct through
        which Go's randomised map iteration could reach an observable.
    GC timing and address-dependent behaviour cannot be exhibited by a Gallina model;
    they are sampled by replaying histories in separate processes (tools/propcfg.py). *)
From Coq Require Import List String.
From Arche Require Import Model.Base Model.World Model.Ops Gen.PkgFacts Proofs.RelRefine Proofs.SpecDet.

Theorem C13_no_map_range : map_ranges = nil.
Proof. reflexivity. Qed.

(** The CURRENT source starts no goroutine, has no select statement, and imports none of
    sync, sync/atomic, time, math/rand, crypto/rand, runtime, os (regenerated fact tables):
    neither scheduling nor time nor randomness nor the environment can reach the results. *)
Theorem C13_no_goroutines : go_stmts = nil.
Proof. reflexivity. Qed.
Theorem C13_no_scheduling_time_random_imports : nondet_imports = nil.
Proof. reflexivity. Qed.

Theorem C13_step_deterministic : forall (w1 w2 : world) (ops : list op),
  w1 = w2 -> run w1 ops = run w2 ops /\
  (forall o, step (run w1 ops) o = step (run w2 ops) o).
Proof. intros w1 w2 ops ->. split; reflexivity. Qed.

(** (c) Stronger than (a): the observable behaviour does not even depend on the concrete
    world (table order, capacities, retired tables, free lists, cache contents), only on the
    abstract store and the entity pool: two worlds refining the same abstract state with
    the same pool give the same outcomes, values and handles for every history of the
    single-entity core. *)
Theorem C13_behaviour_depends_on_abstract_state_only : forall ops w1 w2 A,
  R w1 A -> R w2 A -> w_pool w1 = w_pool w2 -> w_tb w1 = w_tb w2 ->
  det_run A (w_pool w1) (w_tb w1) ops ->
  outcomes w1 ops = outcomes w2 ops /\
  exists A', R (run w1 ops) A' /\ R (run w2 ops) A' /\ w_pool (run w1 ops) = w_pool (run w2 ops).
Proof. exact same_spec_same_behaviour. Qed.

Print Assumptions C13_no_map_range.
Print Assumptions C13_no_goroutines.
Print Assumptions C13_no_scheduling_time_random_imports.
Print Assumptions C13_behaviour_depends_on_abstract_state_only.
Print Assumptions C13_step_deterministic.

(** ** Storage order in the code of /repo itself: archetypes and nodes live in a
    pagedSlice (ecs/util.go); as translated into [Gen/GoPaged.v] it is an append-only list -
    position i holds the i-th value added, whatever the page layout. *)
From Arche Require Import Pure.GoRt Gen.GoPaged Proofs.PagedTie.
Local Open Scope nat_scope.
Theorem C13_code_paged_add : forall g l v, ps_rel g l -> (N.of_nat (length l) + 1 < 2 ^ 31)%N ->
  exists g', pagedSlice_Add g v = Ret g' /\ ps_rel g' (l ++ [v]).
Proof. exact Add_tie. Qed.
Theorem C13_code_paged_get : forall g l i x, ps_rel g l -> l !! i = Some x -> pagedSlice_Get g (N.of_nat i) = Ret x.
Proof. exact PagedTie.Get_tie. Qed.
Theorem C13_code_paged_set : forall g l i v, ps_rel g l -> i < length l ->
  exists g', pagedSlice_Set g (N.of_nat i) v = Ret g' /\ ps_rel g' (<[i := v]> l).
Proof. exact PagedTie.Set_tie. Qed.
Theorem C13_code_paged_len : forall g l, ps_rel g l -> pagedSlice_Len g = N.of_nat (length l).
Proof. exact Len_tie. Qed.
Example C13_code_paged_initial : ps_rel zero_pagedSlice [].
Proof. exact zero_rel. Qed.
Print Assumptions C13_code_paged_add.
