(** C10 - Illegal operations panic, and single-entity failures change nothing.
    Statements only; proofs in Proofs/Atomic.v. *)
From Arche Require Import Model.Base Model.Pool Model.World Model.Ops Proofs.Atomic.

(** Whatever the operation and the state: a panic returns the very world it was given
    (every observable as before, the world fully usable) and emits no event.  (Batch
    operations that fail after they have started moving tables are not [Panic] but
    [Undef] in the model: the property only speaks about single-entity operations.) *)
Theorem C10_panic_atomic : forall w o w' evs, step w o = (w', Panic, evs) -> w' = w /\ evs = [].
Proof. exact panic_atomic. Qed.

(** Removed or recycled entities are refused by every single-entity operation. *)
Theorem C10_dead_entity : forall w e,
  chk_alive w e <> Some true ->
  (forall add rem, step w (OExchange e add rem) = (w, Panic, [])) /\
  step w (ORemoveEntity e) = (w, Panic, []) /\ (forall id, step w (OGet e id) = (w, Panic, [])) /\
  (forall id v, step w (OSet e id v) = (w, Panic, [])) /\ (forall id t, step w (ORelSet e id t) = (w, Panic, [])) /\
  step w (OMask e) = (w, Panic, []).
Proof. exact illegal_dead_entity. Qed.

(** A dead relation target is refused through every entry point that takes one. *)
Theorem C10_dead_target : forall w e rid t,
  target_ok w t = false ->
  step w (ORelSet e rid t) = (w, Panic, []) /\
  (forall add rem, step w (ORelExchange e add rem rid t) = (w, Panic, [])) /\
  (forall b, b_rel b <> None -> step w (OBNew b (Some t)) = (w, Panic, [])) /\
  (forall a q, step w (OBatchSetRel q a rid t) = (w, Panic, [])).
Proof. exact illegal_dead_target. Qed.

(** Adding a present component, removing an absent one, duplicate ids. *)
Theorem C10_component_args : forall w e add rem,
  is_locked w = false -> (add <> [] \/ rem <> []) ->
  (forall tid row t nd, ent_table w e = Some (tid, row, t, nd) -> exchange_mask (n_mask nd) add rem = None) ->
  step w (OExchange e add rem) = (w, Panic, []).
Proof. exact illegal_component_args. Qed.

Print Assumptions C10_panic_atomic.
Print Assumptions C10_dead_target.
