(** C10 - Illegal operations panic, and single-entity failures change nothing.
    Statements only; proofs in Proofs/Atomic.v. *)
From Arche Require Import Model.Base Model.Pool Model.World Model.Ops Proofs.Atomic Proofs.RelRefine Proofs.SpecDet.

(** Whatever the operation and the state: a panic returns the very world it was given
    (every observable as before, the world fully usable) and emits no event.  (Batch
    operations that fail after they have started moving tables are not [Panic] but
    [Undef] in the model: the property only speaks about single-entity operations.) *)
Theorem C10_panic_atomic : forall w o w' evs, step w o = (w', Panic, evs) -> w' = w /\ evs = [].
Proof. exact panic_atomic. Qed.

(** Removed or recycled entities are refused by every single-entity operation. *)
Theorem C10_dead_entity : forall w e,
  chk_alive w e <> Some true ->
  (forall add rem, step w (OExchange e add rem) = (w, Panic, [])) /\
  step w (ORemoveEntity e) = (w, Panic, []) /\ (forall id, step w (OGet e id) = (w, Panic, [])) /\
  (forall id v, step w (OSet e id v) = (w, Panic, [])) /\ (forall id t, step w (ORelSet e id t) = (w, Panic, [])) /\
  step w (OMask e) = (w, Panic, []).
Proof. exact illegal_dead_entity. Qed.

(** A dead relation target is refused through every entry point that takes one. *)
Theorem C10_dead_target : forall w e rid t,
  target_ok w t = false ->
  step w (ORelSet e rid t) = (w, Panic, []) /\
  (forall add rem, step w (ORelExchange e add rem rid t) = (w, Panic, [])) /\
  (forall b, b_rel b <> None -> step w (OBNew b (Some t)) = (w, Panic, [])) /\
  (forall a q, step w (OBatchSetRel q a rid t) = (w, Panic, [])).
Proof. exact illegal_dead_target. Qed.

(** Adding a present component, removing an absent one, duplicate ids. *)
Theorem C10_component_args : forall w e add rem,
  is_locked w = false -> (add <> [] \/ rem <> []) ->
  (forall tid row t nd, ent_table w e = Some (tid, row, t, nd) -> exchange_mask (n_mask nd) add rem = None) ->
  step w (OExchange e add rem) = (w, Panic, []).
Proof. exact illegal_component_args. Qed.

(** The complete specification: on a world that refines the abstract store, whether an
    operation of the single-entity core panics - and what it returns otherwise - is the
    function [spec_out] of the abstract state and the pool.  Reading [spec_exchange]:
    a dead or recycled entity, a dead target, nothing to do together with a relation
    argument, removing an absent component ([exmask_rem]), adding a present one
    ([exmask_add]), duplicate ids, adding and removing the same id, a second relation
    component ([wa_ok]), a relation argument that is not a relation component of the new
    set ([xtarget]) - each gives Panic, everything else Ok. *)
Theorem C10_outcome_is_specified : forall w A o,
  R w A -> det_op A (w_tb w) o ->
  snd (fst (step w o)) = spec_out A (w_pool w) (w_tb w) o /\
  w_pool (fst (fst (step w o))) = spec_pool (w_pool w) o (snd (fst (step w o))).
Proof. exact step_outcome. Qed.

Example C10_spec_example :
  outcomes (world_init 4 4 64) demo_det_ops =
  [Ok (VNat 0); Ok (VNat 1); Ok (VNat 2); Ok (VEnt (mkE 1 0)); Ok (VEnt (mkE 2 0)); Panic; Panic; Ok VUnit;
   Ok VUnit; Ok VUnit; Panic; Ok (VEnt (mkE 1 0)); Panic].
Proof. exact demo_det_outcomes. Qed.

Print Assumptions C10_panic_atomic.
Print Assumptions C10_outcome_is_specified.
Print Assumptions C10_dead_target.
