(** C10 - Illegal operations panic, and single-entity failures change nothing.
    Statements only; proofs in Proofs/Atomic.v. *)
From Arche Require Import Model.Base Model.Pool Model.World Model.Ops Proofs.Frame Proofs.Atomic Proofs.GhostBase Proofs.RelRefine Proofs.QueryExact Proofs.SpecDet Proofs.Ghost.

(** Whatever the operation and the state: a panic emits no event and returns [ghost_of w o]:
    the very world it was given for every operation except the creation and exchange
    operations, which call findOrCreateArchetype before their last argument check (or panic
    inside it) and keep the empty graph nodes (and possibly one empty table) created on the
    way - the code does exactly that, and the model follows it (Model/Ops.v).  (Batch
    operations that fail after they have started moving tables are not [Panic] but [Undef]
    in the model: the property only speaks about single-entity operations.) *)
Theorem C10_panic_atomic : forall w o w' evs,
  step w o = (w', Panic, evs) -> w' = ghost_of w o /\ evs = [].
Proof. exact panic_atomic. Qed.

Theorem C10_panic_atomic_other : forall w o w' evs,
  ghost_op o = false -> step w o = (w', Panic, evs) -> w' = w /\ evs = [].
Proof. exact panic_atomic_other. Qed.

(** Every observable is as before and the world remains fully usable: after ANY failed call
    on a world that refines an abstract store, the world refines THE SAME abstract store
    (alive entities, masks, targets, values, registry), registered filters still list exactly
    what they select, the pool and index (every handle, the future handle sequence), target
    bits, locks, open queries, resources, listener and configuration are equal, every
    non-empty table is the very same table and new tables are empty. *)
Theorem C10_panic_observables : forall w A o w' evs,
  R w A -> cache_ok w -> ids_reg A (ghost_ids o) ->
  step w o = (w', Panic, evs) ->
  evs = [] /\ R w' A /\ cache_ok w' /\
  w_pool w' = w_pool w /\ w_index w' = w_index w /\ w_tbits w' = w_tbits w /\ frame w w' /\
  (forall tid t, w_tables w !! tid = Some t -> t_ents t <> [] -> w_tables w' !! tid = Some t) /\
  (forall tid t, w_tables w' !! tid = Some t -> w_tables w !! tid = None -> t_ents t = []) /\
  (ghost_op o = false -> w' = w).
Proof. exact panic_observables. Qed.

Example C10_ghost_demo :
  let w := run (world_init 2 2 64) [ORegister 10 false false; ORegister 11 false false] in
  snd (fst (step w (ONew [0; 0]))) = Panic /\
  length (w_nodes (fst (fst (step w (ONew [0; 0]))))) = S (length (w_nodes w)) /\
  w_tables (fst (fst (step w (ONew [0; 0])))) = w_tables w /\
  w_pool (fst (fst (step w (ONew [0; 0])))) = w_pool w.
Proof. exact ghost_demo. Qed.

(** Removed or recycled entities are refused by every single-entity operation. *)
Theorem C10_dead_entity : forall w e,
  chk_alive w e <> Some true ->
  (forall add rem, step w (OExchange e add rem) = (w, Panic, [])) /\
  step w (ORemoveEntity e) = (w, Panic, []) /\ (forall id, step w (OGet e id) = (w, Panic, [])) /\
  (forall id v, step w (OSet e id v) = (w, Panic, [])) /\ (forall id t, step w (ORelSet e id t) = (w, Panic, [])) /\
  step w (OMask e) = (w, Panic, []).
Proof. exact illegal_dead_entity. Qed.

(** A dead relation target is refused through every entry point that takes one. *)
Theorem C10_dead_target : forall w e rid t,
  target_ok w t = false ->
  step w (ORelSet e rid t) = (w, Panic, []) /\
  (forall add rem, step w (ORelExchange e add rem rid t) = (w, Panic, [])) /\
  (forall b, b_rel b <> None -> step w (OBNew b (Some t)) = (w, Panic, [])) /\
  (forall a q, step w (OBatchSetRel q a rid t) = (w, Panic, [])).
Proof. exact illegal_dead_target. Qed.

(** Adding a present component, removing an absent one, duplicate ids. *)
Theorem C10_component_args : forall w e add rem,
  is_locked w = false -> (add <> [] \/ rem <> []) ->
  (forall tid row t nd, ent_table w e = Some (tid, row, t, nd) -> exchange_mask (n_mask nd) add rem = None) ->
  step w (OExchange e add rem) = (w, Panic, []).
Proof. exact illegal_component_args. Qed.

(** The complete specification: on a world that refines the abstract store, whether an
    operation of the single-entity core panics - and what it returns otherwise - is the
    function [spec_out] of the abstract state and the pool.  Reading [spec_exchange]:
    a dead or recycled entity, a dead target, nothing to do together with a relation
    argument, removing an absent component ([exmask_rem]), adding a present one
    ([exmask_add]), duplicate ids, adding and removing the same id, a second relation
    component ([wa_ok]), a relation argument that is not a relation component of the new
    set ([xtarget]) - each gives Panic, everything else Ok. *)
Theorem C10_outcome_is_specified : forall w A o,
  R w A -> det_op A (w_tb w) o ->
  snd (fst (step w o)) = spec_out A (w_pool w) (w_tb w) o /\
  w_pool (fst (fst (step w o))) = spec_pool (w_pool w) o (snd (fst (step w o))).
Proof. exact step_outcome. Qed.

Example C10_spec_example :
  outcomes (world_init 4 4 64) demo_det_ops =
  [Ok (VNat 0); Ok (VNat 1); Ok (VNat 2); Ok (VEnt (mkE 1 0)); Ok (VEnt (mkE 2 0)); Panic; Panic; Ok VUnit;
   Ok VUnit; Ok VUnit; Panic; Ok (VEnt (mkE 1 0)); Panic].
Proof. exact demo_det_outcomes. Qed.

Print Assumptions C10_panic_atomic.
Print Assumptions C10_panic_atomic_other.
Print Assumptions C10_panic_observables.
Print Assumptions C10_outcome_is_specified.
Print Assumptions C10_dead_target.
