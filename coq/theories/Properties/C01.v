From Arche Require Import Model.Base.
