(** C01 - Component data integrity across every structural change.
    Statements only.  Proofs: Proofs/Tables.v (one table: Alloc, Remove, Reset and the
    zero tail), Proofs/Store.v (index/row bijection; Set, move between tables, creation:
    all for arbitrary worlds, including relation tables), Proofs/Graph.v and
    Proofs/WorldInv.v (the exchange as a whole, for worlds without relation components),
    Proofs/RelGraph.v, RelWorld.v, RelRefine.v (the same for ARBITRARY registries, with
    relation tables, retirement and re-use, and the refinement of the single-entity core
    to an abstract store entity -> (mask, target, values) over all histories).

    [store_ok w live] is the invariant: the index and the table rows are a bijection on
    the alive entities, every table has capacity for its rows, one cell per column, and a
    zero tail.  [ent_cells w e] is what the storage says about [e]: node, target, cells. *)
From Arche Require Import Model.Base Model.Pool Model.World Model.Ops
  Proofs.PoolInv Proofs.Tables Proofs.Store Proofs.Graph Proofs.WorldInv
  Proofs.RelGraph Proofs.RelWorld Proofs.RelRefine.

(** Set / write-through: exactly one cell of one entity changes. *)
Theorem C01_set : forall w live e id v w',
  store_ok w live -> e ∈ live -> set_comp w e id v = Some w' ->
  store_ok w' live /\ w_nodes w' = w_nodes w /\ w_index w' = w_index w /\ w_pool w' = w_pool w /\
  (forall e', e' ∈ live -> e' <> e -> ent_cells w' e' = ent_cells w e') /\
  (exists nd tgt r c, ent_cells w e = Some (nd, tgt, r) /\
     (exists n, w_nodes w !! nd = Some n /\ col_of n id = Some c) /\
     ent_cells w' e = Some (nd, tgt, if reg_is_zs w id then r else <[c := v]> r)).
Proof. exact set_comp_spec. Qed.

(** Moving an entity between any two tables (the step shared by Add, Remove, Exchange,
    Assign and Relations.Set): the invariant is kept, every other entity - including the
    one swapped into the vacated row - keeps its cells, the moved entity gets the kept
    cells copied over a zero row; table growth by any capacity increment included. *)
Theorem C01_move : forall w live e src row dst keep st dt sn dn,
  store_ok w live -> e ∈ live -> loc w e = Some (src, row) -> src <> dst ->
  w_tables w !! src = Some st -> w_tables w !! dst = Some dt ->
  w_nodes w !! t_node st = Some sn -> w_nodes w !! t_node dt = Some dn -> 0 < node_capinc w dn ->
  let w' := move_entity w e src row dst keep in
  store_ok w' live /\ w_nodes w' = w_nodes w /\ w_pool w' = w_pool w /\ w_tbits w' = w_tbits w /\
  w_cache w' = w_cache w /\ length (w_tables w') = length (w_tables w) /\
  (forall e', e' ∈ live -> e' <> e -> ent_cells w' e' = ent_cells w e') /\
  (exists srow, t_rows st !! row = Some srow /\
     ent_cells w' e = Some (t_node dt, t_target dt, copy_cells keep (n_ids sn) srow (n_ids dn) (zero_row dn))) /\
  (forall tid, tid <> src -> tid <> dst -> w_tables w' !! tid = w_tables w !! tid) /\
  (exists st1, w_tables w' !! src = Some st1 /\ tlen st1 = tlen st - 1 /\ t_node st1 = t_node st /\
               t_target st1 = t_target st /\ t_active st1 = t_active st /\ t_layouts st1 = t_layouts st) /\
  (exists dt2, w_tables w' !! dst = Some dt2 /\ tlen dt2 = tlen dt + 1 /\ t_node dt2 = t_node dt /\
               t_target dt2 = t_target dt /\ t_active dt2 = t_active dt /\ t_layouts dt2 = t_layouts dt).
Proof. exact move_entity_ok. Qed.

(** A newly created entity is not among the alive ones, gets an all-zero row, and no
    existing entity changes. *)
Theorem C01_create : forall w live issued frees tid t nd,
  store_ok w live -> pool_inv (w_pool w) live issued frees ->
  length (w_index w) = length (p_ents (w_pool w)) ->
  w_tables w !! tid = Some t -> w_nodes w !! t_node t = Some nd -> 0 < node_capinc w nd ->
  let '(w', e) := create_entity w tid in
  e ∉ live /\ e ∉ issued /\ store_ok w' (e :: live) /\
  (exists frees', pool_inv (w_pool w') (e :: live) (e :: issued) frees') /\
  length (w_index w') = length (p_ents (w_pool w')) /\
  w_nodes w' = w_nodes w /\ w_reg w' = w_reg w /\ w_tb w' = w_tb w /\ w_capinc w' = w_capinc w /\
  (forall e', e' ∈ live -> ent_cells w' e' = ent_cells w e') /\
  ent_cells w' e = Some (t_node t, t_target t, zero_row nd) /\
  (forall tid' t', w_tables w !! tid' = Some t' -> exists t'', w_tables w' !! tid' = Some t'' /\ t_node t'' = t_node t').
Proof. exact create_entity_ok. Qed.

(** The exchange as a whole (World.Add / Remove / Exchange and the structural part of
    Assign), on worlds without relation components: the entity reports exactly the
    exchanged component set, kept components keep their values, added ones read zero, and
    nothing changes for any other alive entity. *)
Theorem C01_exchange_partial : forall w live e add rem w' x,
  world_ok w live -> e ∈ live -> exchange_nn w e add rem None = Some (w', Some x) ->
  world_ok w' live /\
  (forall e', e' ∈ live -> e' <> e -> ent_mask w' e' = ent_mask w e' /\ forall id, comp_val w' e' id = comp_val w e' id) /\
  exists oldmask newmask,
    ent_mask w e = Some oldmask /\ exchange_mask oldmask add rem = Some newmask /\
    ent_mask w' e = Some newmask /\ newmask <> oldmask /\
    forall id, id < w_tb w -> bit newmask id = true ->
      comp_val w' e id = if bit oldmask id then comp_val w e id else Some 0%Z.
Proof. exact exchange_ok. Qed.

Print Assumptions C01_move.
Print Assumptions C01_create.
Print Assumptions C01_exchange_partial.

(** NewEntity: a fresh handle with exactly the requested components, all zero, and no
    existing entity changes (worlds without relation components). *)
Theorem C01_new_entity_partial : forall w live issued ids w' e evs,
  world_ok2 w live issued -> op_new w ids [] = (w', Ok (VEnt e), evs) ->
  e ∉ issued /\ world_ok2 w' (e :: live) (e :: issued) /\
  (forall e', e' ∈ live -> ent_mask w' e' = ent_mask w e' /\ forall id, comp_val w' e' id = comp_val w e' id) /\
  ent_mask w' e = Some (foldl (fun m id => setb m id true) 0%N ids) /\
  forall id, id < w_tb w -> bit (foldl (fun m id => setb m id true) 0%N ids) id = true -> comp_val w' e id = Some 0%Z.
Proof. exact new_entity_ok. Qed.

(** The invariant behind all of the above holds after every history of registrations,
    creations, exchanges, value writes and reads from a new world (any capacity increment,
    any number of entities), provided operations address handles issued in that history. *)
Theorem C01_history_partial : forall ops w live issued,
  world_ok2 w live issued -> core_run_ok w issued ops -> exists live' issued', world_ok2 (run w ops) live' issued'.
Proof. exact core_history. Qed.
Theorem C01_initial_world : forall capinc relcapinc tb, 0 < capinc -> world_ok2 (world_init capinc relcapinc tb) [] [].
Proof. exact world_init_ok. Qed.

(** Non-vacuity: a concrete history with growth (capacity increment 1), moves between
    three tables and a swap-remove of a non-last row satisfies the premises. *)
Example C01_history_example :
  let w0 := world_init 1 0 256 in
  let ops := [ORegister 10 false false; ORegister 11 false false; ONew [0]; ONew [0]; ONew [0; 1];
              OSet (mkE 1 0) 0 7%Z; OExchange (mkE 1 0) [1] []; OExchange (mkE 3 0) [] [0]; OGet (mkE 2 0) 0] in
  core_run_ok w0 [] ops /\
  fst (step (run w0 ops) (OView (mkE 1 0))) = (run w0 ops, Ok (VView 3 [(0, 7%Z); (1, 0%Z)] None)).
Proof.
  split; [|vm_compute; reflexivity].
  vm_compute. repeat split; try constructor; auto using elem_of_list_here, elem_of_list_further.
Qed.


(** For arbitrary registries (relation components included): every state reachable from a
    new world by single-entity operations refines the abstract store - masks, values and
    targets of ALL alive entities are exactly what the history of calls dictates
    ([R] relates the world to the abstract state computed by [astep] alone). *)
Theorem C01_refinement_every_history : forall capinc relcapinc tb ops,
  0 < capinc -> pre_run (world_init capinc relcapinc tb) a_init ops ->
  R (run (world_init capinc relcapinc tb) ops) (snd (arun (world_init capinc relcapinc tb) a_init ops)).
Proof. exact rel_reachable. Qed.

Theorem C01_refinement_step : forall w A o,
  R w A -> op_pre A o -> R (fst (fst (step w o))) (astep A o (snd (fst (step w o)))).
Proof. exact rel_step. Qed.

(** What [R] says about one alive entity. *)
Theorem C01_R_views : forall w A e,
  R w A -> e ∈ as_live A -> exists a, assoc_get e (as_ents A) = Some a /\
    ent_mask w e = Some (a_mask a) /\ ent_target w e = Some (a_target a) /\
    (forall id, id < w_tb w -> bit (a_mask a) id = true -> comp_val w e id = Some (aval a id)).
Proof.
  intros w A e HR He. destruct (r_ents _ _ HR e He) as (a & Ha & [V1 V2 V3 _ _ _]). exists a. done.
Qed.

Print Assumptions C01_history_partial.
Print Assumptions C01_refinement_every_history.

(** ** Creation WITH component values (NewEntityWith, Builder.New of a value builder with or
    without relation target): the creation without values followed by one Set per value - as
    worlds by definition of the model ([C01_create_with_is_create_then_set]) and as abstract
    stores: the new world refines the store in which the entity has been added and every
    given value written ([C01_new_with], [C01_builder_new_with]); with [C01_R_views] the
    values read back are the values given. *)
From Arche Require Import Proofs.CreateWith.
Theorem C01_create_with_is_create_then_set : forall w ids cs,
  match op_new w ids [] with
  | (w0, Ok (VEnt e), _) =>
      fst (fst (op_new w ids cs)) = set_comps w0 e cs /\ snd (fst (op_new w ids cs)) = Ok (VEnt e)
  | (_, out, _) => snd (fst (op_new w ids cs)) = out
  end.
Proof. exact op_new_split. Qed.

Theorem C01_new_with : forall w A cs w' e evs,
  R w A -> ids_reg A (map fst cs) -> cs <> [] ->
  step w (ONewWith cs) = (w', Ok (VEnt e), evs) ->
  R w' (a_sets (a_add A e (mkA (new_mask (map fst cs)) ezero [])) e cs).
Proof. exact step_new_with. Qed.

Theorem C01_builder_new_with : forall w A b target w' e evs,
  R w A -> ids_reg A (b_ids b) -> (forall vs, b_vals b = Some vs -> length vs = length (b_ids b)) ->
  step w (OBNew b target) = (w', Ok (VEnt e), evs) ->
  R w' (a_sets (a_add A e (mkA (new_mask (b_ids b)) (default ezero target) [])) e (b_comps b)).
Proof. exact step_builder_new_with. Qed.

Example C01_new_with_nonvacuous :
  let w := run (world_init 2 2 64) [ORegister 10 false false; ORegister 11 false false] in
  let r := step w (ONewWith [(0, 5%Z); (1, 7%Z)]) in
  snd (fst r) = Ok (VEnt (mkE 1 0)) /\
  snd (fst (step (fst (fst r)) (OGet (mkE 1 0) 0))) = Ok (VOptZ (Some 5%Z)) /\
  snd (fst (step (fst (fst r)) (OGet (mkE 1 0) 1))) = Ok (VOptZ (Some 7%Z)) /\
  assoc_get (mkE 1 0) (as_ents (a_sets (a_add a_init (mkE 1 0) (mkA (new_mask [0; 1]) ezero [])) (mkE 1 0) [(0, 5%Z); (1, 7%Z)])) =
    Some (mkA 3 ezero [(1, 7%Z); (0, 5%Z)]).
Proof. exact demo_new_with. Qed.

Print Assumptions C01_new_with.
Print Assumptions C01_builder_new_with.
