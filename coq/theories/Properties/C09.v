(** C09 - World lock: held exactly while queries are open; blocks every structural change.
    Statements only; proofs in Proofs/Locks.v (lock mask and bit pool, all histories of
    lock/unlock requests), Proofs/LockWorld.v (structural operations under a lock) and
    Proofs/LockHist.v (the world level: for EVERY history of ANY operations of the model -
    legal or not, queries opened by Query or by batch Q calls, exhausted by Next / Step or
    closed, removal events, Reset, loads - the held lock bits are exactly the lock bits of
    the open queries, each held once; hence locked iff a query is open). *)
From Arche Require Import Model.Base Model.Pool Model.World Model.Ops Proofs.Locks Proofs.LockWorld Proofs.LockHist.

(** For every history of lock and unlock requests on a lock mask of [tb] bits: the world
    is locked exactly while some lock is held, no bit is held twice, at most [tb] are held,
    and a further lock succeeds exactly while fewer than [tb] are held (for any number of
    lock/unlock cycles before). *)
Theorem C09_lock_history : forall tb ops,
  let '(l, held) := lrun tb (locks_init tb) [] ops in
  (exists frees, lock_inv tb l held frees) /\
  (locks_locked l = true <-> held <> []) /\ NoDup held /\ length held <= tb /\
  (is_Some (locks_lock tb l) <-> length held < tb).
Proof. exact lock_history. Qed.

(** A lock request returns a bit that is not held; an unlock releases exactly the given
    bit, and a bit that is not held is refused (released exactly once). *)
Theorem C09_lock : forall tb l held frees, lock_inv tb l held frees ->
  match locks_lock tb l with
  | Some (l', b) => length held < tb /\ b ∉ held /\ b < tb /\ exists frees', lock_inv tb l' (b :: held) frees'
  | None => length held = tb
  end.
Proof. exact lock_spec. Qed.
Theorem C09_unlock : forall tb l held frees b, lock_inv tb l held frees ->
  match locks_unlock l b with
  | Some l' => b ∈ held /\ lock_inv tb l' (filter (fun x => x <> b) held) (b :: frees)
  | None => b ∉ held
  end.
Proof. exact unlock_spec. Qed.

(** While locked, every structural operation panics and returns the world itself. *)
Theorem C09_locked_rejects : forall w o,
  is_locked w = true -> structural o = true -> step w o = (w, Panic, []).
Proof. exact locked_rejects. Qed.

(** Registering a new component type in a locked world panics with the world unchanged
    (the registry is rolled back); known types are still resolved. *)
Theorem C09_register_locked : forall w key isrel zs,
  is_locked w = true ->
  step w (ORegister key isrel zs) = (w, Panic, []) \/
  exists id, step w (ORegister key isrel zs) = (w, Ok (VNat id), []) /\
             (exists c, w_reg w !! id = Some c /\ ci_key c = key).
Proof. exact register_locked. Qed.


(** The world level: one step of any operation, and every history from a new world. *)
Theorem C09_step : forall w o, lockq w -> lockq (fst (fst (step w o))).
Proof. exact lockq_step. Qed.

Theorem C09_locked_iff_query_open : forall capinc relcapinc tb ops,
  let w := run (world_init capinc relcapinc tb) ops in
  (is_locked w = true <-> exists q, q ∈ w_queries w /\ q_closed q = false) /\
  NoDup (open_locks w) /\ length (open_locks w) <= w_tb w.
Proof. exact locked_iff_open_query. Qed.

Print Assumptions C09_lock_history.
Print Assumptions C09_locked_iff_query_open.
Print Assumptions C09_locked_rejects.

(** ** The lock code of /repo itself (ecs/util.go lockMask, ecs/pool.go bitPool), as
    translated into [Gen/GoLocks.v]: on every sequence of Lock / Unlock / IsLocked / Reset
    calls it returns what the model's lock state returns, panics included (bit
    exhaustion, unbalanced unlock). *)
From Arche Require Import Pure.GoRt Gen.GoLocks Proofs.LockTie.
Local Open Scope nat_scope.
Theorem C09_code_lock : forall g l held frees,
  lock_rel g l -> lock_inv 256 l held frees ->
  match locks_lock 256 l with
  | Some (l', b) => exists g', lockMask_Lock g = Ret (g', N.of_nat b) /\ lock_rel g' l'
  | None => lockMask_Lock g = Panicked
  end.
Proof. exact Lock_tie. Qed.
Theorem C09_code_unlock : forall g l held frees b,
  lock_rel g l -> lock_inv 256 l held frees -> b < 256 ->
  match locks_unlock l b with
  | Some l' => exists g', lockMask_Unlock g (N.of_nat b) = Ret g' /\ lock_rel g' l'
  | None => lockMask_Unlock g (N.of_nat b) = Panicked
  end.
Proof. exact Unlock_tie. Qed.
Theorem C09_code_history : forall ops g l held frees,
  lock_rel g l -> lock_inv 256 l held frees -> Forall lop_ok ops ->
  match ml_run l ops with
  | Ret (l', outs) => exists g', gl_run g ops = Ret (g', map lconv outs) /\ lock_rel g' l'
  | _ => gl_run g ops = Panicked
  end.
Proof. exact lock_code_history. Qed.
Example C09_code_initial : lock_rel zero_lockMask (locks_init 256).
Proof. exact zero_lock_rel. Qed.
Print Assumptions C09_code_history.

(** The same for the `tiny` build (64 lock bits): [Gen/GoLocks64.v] is the translation of the
    same source files under the build tag, [Proofs/LockTie64.v] the tie to the model's lock
    state with 64 bits. *)
From Arche Require Gen.GoLocks64 Proofs.LockTie64.
Theorem C09_code_history_tiny : forall ops g l held frees,
  LockTie64.lock_rel g l -> lock_inv 64 l held frees -> Forall LockTie64.lop_ok ops ->
  match LockTie64.ml_run l ops with
  | Ret (l', outs) => exists g', LockTie64.gl_run g ops = Ret (g', map LockTie64.lconv outs) /\ LockTie64.lock_rel g' l'
  | _ => LockTie64.gl_run g ops = Panicked
  end.
Proof. exact LockTie64.lock_code_history. Qed.
Example C09_code_initial_tiny : LockTie64.lock_rel GoLocks64.zero_lockMask (locks_init 64).
Proof. exact LockTie64.zero_lock_rel. Qed.
Print Assumptions C09_code_history_tiny.
