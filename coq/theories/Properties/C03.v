(** C03 - Queries visit exactly the matching entities, once; Count/EntityAt/Step agree.
    Statements only; proofs in Proofs/Cursor.v (cursor machine against the flat
    enumeration) and Proofs/WorldInv.v (the enumeration against the world, see below). *)
From Arche Require Import Model.Base Model.World Model.Ops Proofs.Cursor.

(** Iterating [Next] from a fresh query visits exactly the enumeration, in order, each
    position once, and then reports exhaustion. *)
Theorem C03_next_enumerates : forall segs b l,
  Forall seg_ok segs -> visit (S (length (enum segs))) (fresh segs b l) = enum segs.
Proof. exact next_enumerates. Qed.

(** [Count] equals the number of positions [Next] visits. *)
Theorem C03_count : forall segs b l,
  Forall seg_ok segs -> q_count (fresh segs b l) = length (enum segs).
Proof. exact count_is_length. Qed.

(** [EntityAt i] is the entity at the i-th visited position (out of range: panic). *)
Theorem C03_entity_at : forall w segs i,
  Forall seg_ok segs ->
  entity_at w segs i =
  enum segs !! i ≫= fun '(tid, row) => w_tables w !! tid ≫= fun t => t_ents t !! row.
Proof. exact entity_at_is_nth. Qed.

(** [Step k] lands where [k] calls of [Next] would, from any cursor position, and ends
    the query exactly when they would. *)
Theorem C03_step : forall fuel q k,
  qinv q -> 0 < k -> length (drop (q_next q) (q_segs q)) < fuel -> Forall seg_ok (q_segs q) ->
  match step_loop fuel q k with
  | Some (q', true) => iter_next k q = Some q'
  | Some (_, false) => iter_next k q = None
  | None => False
  end.
Proof. exact step_is_iter_next. Qed.

Print Assumptions C03_next_enumerates.
Print Assumptions C03_step.
Print Assumptions C03_entity_at.
