(** C03 - Queries visit exactly the matching entities, once; Count/EntityAt/Step agree.
    Statements only; proofs in Proofs/Cursor.v (cursor machine against the flat
    enumeration) and Proofs/QueryExact.v (the enumeration against the world: exactly the
    alive entities whose mask and relation target match, for any registry, with relation
    tables and retired tables). *)
From Arche Require Import Model.Base Model.Filter Model.World Model.Ops Proofs.Cursor
  Proofs.Store Proofs.WorldInv Proofs.RelGraph Proofs.RelWorld Proofs.QueryExact.

(** Iterating [Next] from a fresh query visits exactly the enumeration, in order, each
    position once, and then reports exhaustion. *)
Theorem C03_next_enumerates : forall segs b l,
  Forall seg_ok segs -> visit (S (length (enum segs))) (fresh segs b l) = enum segs.
Proof. exact next_enumerates. Qed.

(** [Count] equals the number of positions [Next] visits. *)
Theorem C03_count : forall segs b l,
  Forall seg_ok segs -> q_count (fresh segs b l) = length (enum segs).
Proof. exact count_is_length. Qed.

(** [EntityAt i] is the entity at the i-th visited position (out of range: panic). *)
Theorem C03_entity_at : forall w segs i,
  Forall seg_ok segs ->
  entity_at w segs i =
  enum segs !! i ≫= fun '(tid, row) => w_tables w !! tid ≫= fun t => t_ents t !! row.
Proof. exact entity_at_is_nth. Qed.

(** [Step k] lands where [k] calls of [Next] would, from any cursor position, and ends
    the query exactly when they would. *)
Theorem C03_step : forall fuel q k,
  qinv q -> 0 < k -> length (drop (q_next q) (q_segs q)) < fuel -> Forall seg_ok (q_segs q) ->
  match step_loop fuel q k with
  | Some (q', true) => iter_next k q = Some q'
  | Some (_, false) => iter_next k q = None
  | None => False
  end.
Proof. exact step_is_iter_next. Qed.

(** The world side.  In every world satisfying the storage and graph invariants (they hold
    in every state reachable by the single-entity core, C01), for every filter expression
    (And/Or/Not/... of masks) with optional relation target, an uncached query visits a
    list of entities that has no repetition and contains exactly the alive entities that
    match ([ent_matches]: mask matches; if the filter names a target and the entity has a
    relation component, its target is that one). *)
Theorem C03_query_visits_exact : forall w live f b l,
  world_okr w live ->
  let q := fresh (plain_segs w (walk_tables w f)) b l in
  exists L, map (pos_ent w) (visit (S (length (enum (q_segs q)))) q) = map Some L /\ NoDup L /\
    forall e, e ∈ L <-> (e ∈ live /\ ent_matches w f e).
Proof. exact query_visits_exact. Qed.

(** The same for the table list batch operations work on. *)
Theorem C03_batch_tables_exact : forall w live f,
  world_okr w live ->
  NoDup (table_ents w (get_tables w f)) /\
  forall e, e ∈ table_ents w (get_tables w f) <-> (e ∈ live /\ ent_matches w f e).
Proof. exact get_tables_exact. Qed.

Print Assumptions C03_next_enumerates.
Print Assumptions C03_query_visits_exact.
Print Assumptions C03_step.
Print Assumptions C03_entity_at.
