(** C17 - Entity dump/load.  Statements only; proofs in Proofs/ResReg.v (pool),
    Proofs/PoolInv.v (what equal pools imply for all later creations and removals) and
    Proofs/LoadRefine.v (world level: the loaded world satisfies all invariants, its alive
    entities are exactly those of the dumped world, every issued handle gets the same Alive
    answer, its pool is identical - so all later creations and removals issue the same
    handles - and it refines the abstract store again, so that every continuation is
    covered by the history theorems). *)
From Arche Require Import Model.Base Model.Pool Model.World Model.Ops Proofs.ResReg
  Proofs.RelRefine Proofs.QueryExact Proofs.CacheInv Proofs.LoadRefine.

(** Loading a dump reproduces the dumped world's entity pool exactly ... *)
Theorem C17_load_dump_pool : forall w1 w2 w',
  world_load w2 (world_dump w1) = Some w' -> w_pool w' = w_pool w1.
Proof. exact load_dump_pool. Qed.

(** ... hence the same Alive answer for every handle and the same handles for every
    later creation and removal. *)
Theorem C17_same_future : forall w1 w',
  w_pool w' = w_pool w1 ->
  pool_get (w_pool w') = pool_get (w_pool w1) /\
  forall e, pool_recycle (w_pool w') e = pool_recycle (w_pool w1) e /\ pool_alive (w_pool w') e = pool_alive (w_pool w1) e.
Proof. exact load_same_future. Qed.

(** Loading into a locked world, or one that has (or had, without a reset) entities, is
    refused and changes nothing. *)
Theorem C17_load_refused : forall w d,
  is_locked w = true \/ 1 < length (p_ents (w_pool w)) \/ 0 < p_avail (w_pool w) ->
  step w (OLoad d) = (w, Panic, []).
Proof. exact load_refused. Qed.


Theorem C17_load_refines : forall w A w2 A2 w3,
  R w A -> R w2 A2 -> cache_ok w2 ->
  world_load w2 (world_dump w) = Some w3 ->
  let L := all_entities w in
  L ≡ₚ as_live A /\ w_pool w3 = w_pool w /\
  R w3 (mkAS (map (fun e => (e, mkA 0 ezero [])) L) L (as_issued A) (as_reg A2)) /\ cache_ok w3.
Proof. exact load_refines. Qed.

Print Assumptions C17_load_dump_pool.
Print Assumptions C17_load_refines.
