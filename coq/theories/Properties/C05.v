(** C05 - Relation targets (level: partial, see DESIGN.md).  Proved on the model: what
    Relations.Get reports is the target stored with the entity's table; it is part of
    [ent_cells], which the move, creation and removal theorems of C01/C06 preserve for all
    other entities; a dead target is refused by every target-taking entry point.  The
    remaining clauses are decided by the correspondence run. *)
From Arche Require Import Model.Base Model.Pool Model.World Model.Ops
  Proofs.PoolInv Proofs.Store Proofs.Misc Proofs.Atomic.

Theorem C05_get_reports_table_target : forall w e id tid row t nd,
  ent_table w e = Some (tid, row, t, nd) -> check_relation w tid id = true ->
  step w (ORelGet e id) = (w, Ok (VEnt (t_target t)), []).
Proof. exact rel_get_is_table_target. Qed.

Theorem C05_get_refused : forall w e id tid row t nd,
  ent_table w e = Some (tid, row, t, nd) -> n_rel nd <> Some id ->
  w_tables w !! tid = Some t -> w_nodes w !! t_node t = Some nd ->
  step w (ORelGet e id) = (w, Panic, []).
Proof. exact rel_get_refused. Qed.

(** Only an alive entity or the zero entity can be assigned as a target. *)
Theorem C05_dead_target_refused : forall w e rid t,
  target_ok w t = false ->
  step w (ORelSet e rid t) = (w, Panic, []) /\
  (forall add rem, step w (ORelExchange e add rem rid t) = (w, Panic, [])) /\
  (forall b, b_rel b <> None -> step w (OBNew b (Some t)) = (w, Panic, [])) /\
  (forall a q, step w (OBatchSetRel q a rid t) = (w, Panic, [])).
Proof. exact illegal_dead_target. Qed.

(** The target of every OTHER entity survives a move of some entity between tables
    (Relations.Set, Add/Remove/Exchange): [ent_cells] includes the target. *)
Theorem C05_target_frame_move : forall w live e src row dst keep st dt sn dn,
  store_ok w live -> e ∈ live -> loc w e = Some (src, row) -> src <> dst ->
  w_tables w !! src = Some st -> w_tables w !! dst = Some dt ->
  w_nodes w !! t_node st = Some sn -> w_nodes w !! t_node dt = Some dn -> 0 < node_capinc w dn ->
  forall e', e' ∈ live -> e' <> e -> ent_cells (move_entity w e src row dst keep) e' = ent_cells w e'.
Proof. intros. by eapply move_entity_ok. Qed.

Print Assumptions C05_dead_target_refused.
