(** C05 - Relation targets.  Proved on the model, for worlds with any registry (relation
    and ordinary component types), any number of relation tables, retired tables and
    re-used tables: the single-entity operations refine an abstract store
    entity -> (mask, target, values) ([C05_refinement_step], [C05_every_history]); in
    particular Relations.Get returns the target last assigned by creation with target,
    Relations.Set or an exchange with relation argument, an exchange that keeps the
    relation component keeps the target, one that removes it resets the target to zero,
    and no operation on one entity changes the target of another.  A dead target is
    refused by every target-taking entry point.  Batch operations and relation FILTERS
    are decided by the correspondence run. *)
From Arche Require Import Model.Base Model.Pool Model.World Model.Ops
  Proofs.PoolInv Proofs.Store Proofs.Misc Proofs.Atomic Proofs.WorldInv
  Proofs.RelGraph Proofs.RelWorld Proofs.RelRefine.

Theorem C05_get_reports_table_target : forall w e id tid row t nd,
  ent_table w e = Some (tid, row, t, nd) -> check_relation w tid id = true ->
  step w (ORelGet e id) = (w, Ok (VEnt (t_target t)), []).
Proof. exact rel_get_is_table_target. Qed.

Theorem C05_get_refused : forall w e id tid row t nd,
  ent_table w e = Some (tid, row, t, nd) -> n_rel nd <> Some id ->
  w_tables w !! tid = Some t -> w_nodes w !! t_node t = Some nd ->
  step w (ORelGet e id) = (w, Panic, []).
Proof. exact rel_get_refused. Qed.

(** Only an alive entity or the zero entity can be assigned as a target. *)
Theorem C05_dead_target_refused : forall w e rid t,
  target_ok w t = false ->
  step w (ORelSet e rid t) = (w, Panic, []) /\
  (forall add rem, step w (ORelExchange e add rem rid t) = (w, Panic, [])) /\
  (forall b, b_rel b <> None -> step w (OBNew b (Some t)) = (w, Panic, [])) /\
  (forall a q, step w (OBatchSetRel q a rid t) = (w, Panic, [])).
Proof. exact illegal_dead_target. Qed.

(** The target of every OTHER entity survives a move of some entity between tables
    (Relations.Set, Add/Remove/Exchange): [ent_cells] includes the target. *)
Theorem C05_target_frame_move : forall w live e src row dst keep st dt sn dn,
  store_ok w live -> e ∈ live -> loc w e = Some (src, row) -> src <> dst ->
  w_tables w !! src = Some st -> w_tables w !! dst = Some dt ->
  w_nodes w !! t_node st = Some sn -> w_nodes w !! t_node dt = Some dn -> 0 < node_capinc w dn ->
  forall e', e' ∈ live -> e' <> e -> ent_cells (move_entity w e src row dst keep) e' = ent_cells w e'.
Proof. intros. by eapply move_entity_ok. Qed.


(** Exchange (Add / Remove / Exchange / Relations.Exchange) on a world with relation
    tables: mask, target, relation and values of the entity are what the call dictates;
    every other entity keeps mask, target, relation and values. *)
Theorem C05_exchange_with_relation : forall w live e add rem rel w' x,
  world_okr w live -> e ∈ live -> Forall (fun id => id < length (w_reg w)) add ->
  exchange_nn w e add rem rel = Some (w', Some x) ->
  world_okr w' live /\ w_pool w' = w_pool w /\ length (w_index w') = length (w_index w) /\ w_reg w' = w_reg w /\
  (forall e', e' ∈ live -> e' <> e ->
     ent_mask w' e' = ent_mask w e' /\ ent_target w' e' = ent_target w e' /\ ent_rel w' e' = ent_rel w e' /\
     forall id, comp_val w' e' id = comp_val w e' id) /\
  exists oldmask newmask oldtarget newtarget newrel,
    ent_mask w e = Some oldmask /\ ent_target w e = Some oldtarget /\
    exchange_mask oldmask add rem = Some newmask /\
    exchange_target w oldmask newmask oldtarget rem rel = Some newtarget /\
    ent_mask w' e = Some newmask /\ newmask <> oldmask /\
    ent_rel w' e = Some newrel /\ relP w newmask newrel /\
    ent_target w' e = Some (match newrel with Some _ => newtarget | None => ezero end) /\
    forall id, id < w_tb w -> bit newmask id = true ->
      comp_val w' e id = if bit oldmask id then comp_val w e id else Some 0%Z.
Proof. exact exchange_rok. Qed.

(** Relations.Set: the target becomes the given one; mask, relation and every value stay. *)
Theorem C05_set_relation : forall w live e rid target w' evs,
  world_okr w live -> e ∈ live ->
  op_set_relation w e rid target = (w', Ok VUnit, evs) ->
  world_okr w' live /\ w_pool w' = w_pool w /\ length (w_index w') = length (w_index w) /\ w_reg w' = w_reg w /\
  (forall e', e' ∈ live -> e' <> e ->
     ent_mask w' e' = ent_mask w e' /\ ent_target w' e' = ent_target w e' /\ ent_rel w' e' = ent_rel w e' /\
     forall id, comp_val w' e' id = comp_val w e' id) /\
  ent_rel w e = Some (Some rid) /\ ent_rel w' e = Some (Some rid) /\ ent_mask w' e = ent_mask w e /\
  ent_target w' e = Some target /\ forall id, comp_val w' e id = comp_val w e id.
Proof. exact set_relation_rok. Qed.

(** Creation with a target. *)
Theorem C05_new_with_target : forall w live issued rid target ids w' e evs,
  world_okr2 w live issued -> Forall (fun id => id < length (w_reg w)) ids ->
  op_new_target w rid target ids [] = (w', Ok (VEnt e), evs) ->
  e ∉ issued /\ world_okr2 w' (e :: live) (e :: issued) /\ w_reg w' = w_reg w /\
  (forall e', e' ∈ live -> ent_mask w' e' = ent_mask w e' /\ ent_target w' e' = ent_target w e' /\
      ent_rel w' e' = ent_rel w e' /\ forall id, comp_val w' e' id = comp_val w e' id) /\
  exists mask, exmask_add 0 ids = Some mask /\ ent_mask w' e = Some mask /\ ent_rel w' e = Some (Some rid) /\
    ent_target w' e = Some target /\
    forall id, id < w_tb w -> bit mask id = true -> comp_val w' e id = Some 0%Z.
Proof. exact new_entity_target_rok. Qed.

(** Refinement: one step, every history from a new world, and the read accessors. *)
Theorem C05_refinement_step : forall w A o,
  R w A -> op_pre A o -> R (fst (fst (step w o))) (astep A o (snd (fst (step w o)))).
Proof. exact rel_step. Qed.

Theorem C05_every_history : forall capinc relcapinc tb ops,
  0 < capinc -> pre_run (world_init capinc relcapinc tb) a_init ops ->
  R (run (world_init capinc relcapinc tb) ops) (snd (arun (world_init capinc relcapinc tb) a_init ops)).
Proof. exact rel_reachable. Qed.

Theorem C05_reads_agree : forall w A e,
  R w A -> e ∈ as_issued A ->
  (forall w' m evs, step w (OMask e) = (w', Ok (VMask m), evs) ->
     exists a, assoc_get e (as_ents A) = Some a /\ m = a_mask a) /\
  (forall id w' b evs, step w (OHas e id) = (w', Ok (VBool b), evs) ->
     exists a, assoc_get e (as_ents A) = Some a /\ b = bit (a_mask a) id) /\
  (forall id w' t evs, step w (ORelGet e id) = (w', Ok (VEnt t), evs) ->
     exists a, assoc_get e (as_ents A) = Some a /\ t = a_target a /\ arel (as_reg A) (a_mask a) = Some id) /\
  (forall id w' o evs, id < w_tb w -> step w (OGet e id) = (w', Ok (VOptZ o), evs) ->
     exists a, assoc_get e (as_ents A) = Some a /\ o = if bit (a_mask a) id then Some (aval a id) else None) /\
  (forall w' b evs, step w (OAlive e) = (w', Ok (VBool b), evs) -> b = bool_decide (e ∈ as_live A)).
Proof. exact rel_reads. Qed.

(** The hypotheses are satisfiable and the theorem says something: see
    [RelRefine.demo_pre], [demo_result], [demo_refines]. *)
Example C05_nonvacuous : R (run (world_init 4 4 64) demo_ops) (snd (arun (world_init 4 4 64) a_init demo_ops)).
Proof. exact demo_refines. Qed.

Print Assumptions C05_dead_target_refused.
Print Assumptions C05_exchange_with_relation.
Print Assumptions C05_refinement_step.
Print Assumptions C05_every_history.
Print Assumptions C05_reads_agree.
