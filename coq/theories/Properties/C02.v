(** C02 - Entity handles: alive until removed, never alive again, never shared.
    Statements only; proofs live in Proofs/PoolInv.v. *)
From Arche Require Import Model.Base Model.Pool Proofs.PoolInv.

(** For every history of creations and removals from a new or reset pool: alive ids are
    pairwise distinct, issued handles are pairwise distinct, Alive = "not yet removed"
    for every handle ever issued, the zero entity is dead, Len = number alive. *)
Theorem C02_handles : forall ops,
  let '(p, live, issued) := prun pool_init [] [] ops in
  NoDup (map eid live) /\ NoDup issued /\
  (forall e, e ∈ issued -> pool_alive p e = true <-> e ∈ live) /\
  pool_alive p ezero = false /\ pool_len p = length live.
Proof. exact pool_history. Qed.
Print Assumptions C02_handles.

Theorem C02_never_alive_again : forall ops1 ops2 e,
  let '(p1, live1, issued1) := prun pool_init [] [] ops1 in
  e ∈ issued1 -> e ∉ live1 ->
  let '(p2, live2, issued2) := prun p1 live1 issued1 ops2 in
  pool_alive p2 e = false.
Proof. exact dead_stays_dead. Qed.
Print Assumptions C02_never_alive_again.

(** Known finding K1: [prun] refuses a recycle at generation 2^32-1; the Go code does
    not, and then a stale handle is alive again and is re-issued. *)
Theorem C02_gen_wrap_refuted :
  let p := mkPool [(0, gen_max); (1, gen_max)] 0 0 in
  let stale := mkE 1 0 in
  pool_alive p stale = false /\
  pool_alive (pool_recycle p (mkE 1 gen_max)) stale = true /\
  snd (pool_get (pool_recycle p (mkE 1 gen_max))) = stale.
Proof. exact gen_wrap_refuted. Qed.
Print Assumptions C02_gen_wrap_refuted.

(** The world only ever talks to the pool through [pool_get] (creation) and
    [pool_recycle] of an alive handle (removal), keeping the pool invariant: *)
From Arche Require Import Model.World Model.Ops Proofs.Store.
Theorem C02_world_create : forall w live issued frees tid t nd,
  store_ok w live -> pool_inv (w_pool w) live issued frees ->
  length (w_index w) = length (p_ents (w_pool w)) ->
  w_tables w !! tid = Some t -> w_nodes w !! t_node t = Some nd -> 0 < node_capinc w nd ->
  let '(w', e) := create_entity w tid in
  e ∉ live /\ e ∉ issued /\ store_ok w' (e :: live) /\
  (exists frees', pool_inv (w_pool w') (e :: live) (e :: issued) frees') /\
  length (w_index w') = length (p_ents (w_pool w')) /\
  w_nodes w' = w_nodes w /\ w_reg w' = w_reg w /\ w_tb w' = w_tb w /\ w_capinc w' = w_capinc w /\
  (forall e', e' ∈ live -> ent_cells w' e' = ent_cells w e') /\
  ent_cells w' e = Some (t_node t, t_target t, zero_row nd) /\
  (forall tid' t', w_tables w !! tid' = Some t' -> exists t'', w_tables w' !! tid' = Some t'' /\ t_node t'' = t_node t').
Proof. exact create_entity_ok. Qed.
Theorem C02_world_remove : forall w live issued frees e,
  store_ok w live -> pool_inv (w_pool w) live issued frees -> e ∈ live -> (egen e < gen_max)%N ->
  is_locked w = false ->
  let r := op_remove_entity w e in
  snd (fst r) = Ok VUnit /\
  store_ok (fst (fst r)) (filter (fun x => x <> e) live) /\
  pool_inv (w_pool (fst (fst r))) (filter (fun x => x <> e) live) issued (eid e :: frees) /\
  (forall e', e' ∈ live -> e' <> e -> ent_cells (fst (fst r)) e' = ent_cells w e') /\
  pool_alive (w_pool (fst (fst r))) e = false.
Proof. exact remove_entity_ok. Qed.
Print Assumptions C02_world_remove.

(** ** The pool code of /repo itself.  [Gen/GoEntityPool.v] is the translation of ecs/pool.go and
    ecs/entity.go, regenerated on every run; on related states the translated Get, Recycle
    and Alive return what the model's functions return, for every pool with fewer than
    2^32 slots, and so does every call sequence.  The theorems above therefore speak
    about this code. *)
From Arche Require Import Pure.GoRt Gen.GoEntityPool Proofs.PoolTie.
Local Open Scope nat_scope.
Theorem C02_code_new : forall inc, (1 <= inc < 2 ^ 32)%N ->
  exists g, go_newEntityPool inc = Ret g /\ pool_rel g pool_init.
Proof. exact newEntityPool_tie. Qed.
Theorem C02_code_get : forall g p live issued frees,
  pool_rel g p -> pool_inv p live issued frees -> small p ->
  exists g', entityPool_Get g = Ret (g', ent_go (pool_get p).2) /\ pool_rel g' (pool_get p).1.
Proof. exact Get_tie. Qed.
Theorem C02_code_recycle : forall g p e,
  pool_rel g p -> eid e <> 0 -> eid e < length (p_ents p) -> (N.of_nat (p_avail p) + 1 < 2 ^ 32)%N ->
  exists g', entityPool_Recycle g (ent_go e) = Ret g' /\ pool_rel g' (pool_recycle p e).
Proof. exact Recycle_tie. Qed.
Theorem C02_code_recycle_zero_panics : forall g e, eid e = 0 -> entityPool_Recycle g (ent_go e) = Panicked.
Proof. exact Recycle_zero_panics. Qed.
Theorem C02_code_alive : forall g p e, pool_rel g p ->
  entityPool_Alive g (ent_go e) = match pool_alive_opt p e with Some b => Ret b | None => Panicked end.
Proof. exact Alive_tie. Qed.
Theorem C02_code_history : forall ops g p live issued frees s' outs,
  pool_rel g p -> pool_inv p live issued frees ->
  (N.of_nat (length (p_ents p) + length ops) + 1 < 2 ^ 32)%N ->
  m_run (p, live) ops = Some (s', outs) ->
  exists g', g_run g ops = Ret (g', map conv outs) /\ pool_rel g' (fst s') /\
    exists issued' frees', pool_inv (fst s') (snd s') issued' frees'.
Proof. exact pool_code_history. Qed.
Print Assumptions C02_code_history.
Print Assumptions C02_code_alive.
