(** C02 - Entity handles: alive until removed, never alive again, never shared.
    Statements only; proofs live in Proofs/PoolInv.v. *)
From Arche Require Import Model.Base Model.Pool Proofs.PoolInv.

(** For every history of creations and removals from a new or reset pool: alive ids are
    pairwise distinct, issued handles are pairwise distinct, Alive = "not yet removed"
    for every handle ever issued, the zero entity is dead, Len = number alive. *)
Theorem C02_handles : forall ops,
  let '(p, live, issued) := prun pool_init [] [] ops in
  NoDup (map eid live) /\ NoDup issued /\
  (forall e, e ∈ issued -> pool_alive p e = true <-> e ∈ live) /\
  pool_alive p ezero = false /\ pool_len p = length live.
Proof. exact pool_history. Qed.
Print Assumptions C02_handles.

Theorem C02_never_alive_again : forall ops1 ops2 e,
  let '(p1, live1, issued1) := prun pool_init [] [] ops1 in
  e ∈ issued1 -> e ∉ live1 ->
  let '(p2, live2, issued2) := prun p1 live1 issued1 ops2 in
  pool_alive p2 e = false.
Proof. exact dead_stays_dead. Qed.
Print Assumptions C02_never_alive_again.

(** Known finding K1: [prun] refuses a recycle at generation 2^32-1; the Go code does
    not, and then a stale handle is alive again and is re-issued. *)
Theorem C02_gen_wrap_refuted :
  let p := mkPool [(0, gen_max); (1, gen_max)] 0 0 in
  let stale := mkE 1 0 in
  pool_alive p stale = false /\
  pool_alive (pool_recycle p (mkE 1 gen_max)) stale = true /\
  snd (pool_get (pool_recycle p (mkE 1 gen_max))) = stale.
Proof. exact gen_wrap_refuted. Qed.
Print Assumptions C02_gen_wrap_refuted.
