(** C15 - Reset returns the world to the behaviour of a fresh one (level: partial).
    Proved on the model: after Reset the entity pool, the entity index, the target bits and
    the lock mask are exactly those of a new world, all resources are gone, the world is
    unlocked, and component ids, resource ids, the listener and the registered filters (ids
    and original filters) are kept.  That the retained table structure behaves like a fresh
    one for all later operations is decided by the correspondence run (profile reset). *)
From Arche Require Import Model.Base Model.Pool Model.World Model.Ops Proofs.Misc.

Theorem C15_reset_state : forall w,
  let w' := world_reset w in
  w_pool w' = pool_init /\ w_index w' = [None] /\ w_tbits w' = [false] /\ w_locks w' = locks_init (w_tb w) /\
  w_res w' = replicate (w_tb w) None /\ w_reg w' = w_reg w /\ w_resreg w' = w_resreg w /\ w_listener w' = w_listener w /\
  w_cnext w' = w_cnext w /\ map c_id (w_cache w') = map c_id (w_cache w) /\ map c_filter (w_cache w') = map c_filter (w_cache w) /\
  is_locked w' = false.
Proof. exact world_reset_abs. Qed.

Print Assumptions C15_reset_state.
