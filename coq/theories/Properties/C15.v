(** C15 - Reset returns the world to the behaviour of a fresh one.
    Proved on the model: after Reset the entity pool, the entity index, the target bits and
    the lock mask are exactly those of a new world, all resources are gone, the world is
    unlocked, and component ids, resource ids, the listener and the registered filters (ids
    and original filters) are kept ([C15_reset_state]).  From ANY world satisfying the
    invariants - entities alive, relation tables, retired tables, registered filters -
    Reset yields a world that refines the EMPTY abstract store with the same registry,
    with storage, graph and cache invariants intact ([C15_reset_refines]); hence every
    history continued after a Reset (further Resets included) refines the abstract run
    from the empty store, exactly as a new world with the same registrations does
    ([C15_history_with_reset], compare [C01_refinement_every_history]).  Resources,
    listeners and batch operations after Reset: correspondence run (profile reset). *)
From Arche Require Import Model.Base Model.Pool Model.World Model.Ops Proofs.Misc
  Proofs.Store Proofs.RelGraph Proofs.RelWorld Proofs.RelRefine Proofs.QueryExact Proofs.CacheInv Proofs.ResetInv Proofs.SpecDet.

Theorem C15_reset_state : forall w,
  let w' := world_reset w in
  w_pool w' = pool_init /\ w_index w' = [None] /\ w_tbits w' = [false] /\ w_locks w' = locks_init (w_tb w) /\
  w_res w' = replicate (w_tb w) None /\ w_reg w' = w_reg w /\ w_resreg w' = w_resreg w /\ w_listener w' = w_listener w /\
  w_cnext w' = w_cnext w /\ map c_id (w_cache w') = map c_id (w_cache w) /\ map c_filter (w_cache w') = map c_filter (w_cache w) /\
  is_locked w' = false.
Proof. exact world_reset_abs. Qed.


Theorem C15_reset_refines : forall w,
  rwi w ->
  R (world_reset w) (mkAS [] [] [] (w_reg w)) /\ cache_ok (world_reset w) /\ rwi (world_reset w).
Proof. exact reset_refines. Qed.

(** One step and whole histories of the core operations, filter (un)registration and Reset. *)
Theorem C15_step_with_reset : forall w A o,
  R w A -> cache_ok w -> op_pre3 A o ->
  R (fst (fst (step w o))) (astep A o (snd (fst (step w o)))) /\ cache_ok (fst (fst (step w o))).
Proof. exact full_step. Qed.

Theorem C15_history_with_reset : forall ops w A,
  R w A -> cache_ok w -> pre_run3 w A ops ->
  R (run w ops) (snd (arun w A ops)) /\ cache_ok (run w ops).
Proof. exact full_history. Qed.

(** A reset world and a new world with the same registry refine the same abstract state. *)
Theorem C15_reset_like_new : forall w A,
  R w A -> cache_ok w ->
  R (world_reset w) (mkAS [] [] [] (as_reg A)) /\ cache_ok (world_reset w).
Proof.
  intros w A HR C. assert (I : rwi w).
  { pose proof HR as [[[S G] _ _] _ _ _]. split; [done| |done]. intros tid t Ht. by apply (so_table _ _ S tid). }
  destruct (reset_refines w I) as (HR0 & C0 & _). by rewrite (r_reg _ _ HR).
Qed.

(** Observationally: after Reset - whatever the world contained - every history of the
    single-entity core gives the same outcomes, values and handles as on any world that
    refines the empty store with the same registry and has a fresh pool, e.g. a new world
    after the same registrations. *)
Theorem C15_reset_behaves_like_new : forall w A wn ops,
  R w A -> cache_ok w ->
  R wn (mkAS [] [] [] (as_reg A)) -> w_pool wn = pool_init -> w_tb wn = w_tb w ->
  det_run (mkAS [] [] [] (as_reg A)) pool_init (w_tb w) ops ->
  outcomes (world_reset w) ops = outcomes wn ops.
Proof. exact reset_like_new. Qed.

Example C15_nonvacuous : pre_run3 (world_init 4 4 64) a_init demo_reset_ops.
Proof. exact demo_reset_pre. Qed.

Print Assumptions C15_reset_state.
Print Assumptions C15_reset_behaves_like_new.
Print Assumptions C15_reset_refines.
Print Assumptions C15_history_with_reset.

(** ** Reset in the code of /repo itself (translations [Gen/GoEntityPool.v], [Gen/GoLocks.v], [Gen/GoBitSet.v]): the entity pool, the
    lock mask and the target bit set come back to their initial model states. *)
From Arche Require Import Pure.GoRt Gen.GoEntityPool Gen.GoLocks Gen.GoBitSet Proofs.PoolInv Proofs.PoolTie Proofs.LockTie Proofs.BitSetTie.
Local Open Scope nat_scope.
Theorem C15_code_pool_reset : forall g p live issued frees,
  pool_rel g p -> pool_inv p live issued frees ->
  exists g', entityPool_Reset g = Ret g' /\ pool_rel g' pool_init.
Proof. exact PoolTie.Reset_tie. Qed.
Theorem C15_code_lock_reset : forall g l, lock_rel g l -> lock_rel (lockMask_Reset g) (locks_init 256).
Proof. exact LockReset_tie. Qed.
Theorem C15_code_bitset_reset : forall g n, n <= 64 * length (words g) ->
  exists g', bitSet_Reset g = Ret g' /\ bs_rel g' (replicate n false).
Proof. exact BitSetTie.Reset_tie. Qed.
Print Assumptions C15_code_pool_reset.
Print Assumptions C15_code_bitset_reset.
