(** C11 - Entity events are complete and truthful (level: partial).  Proved on the model:
    the content of the exchange event (added / removed = the set differences of the old and
    new component sets, old relation and target from the old table, the six type bits), no
    event without listener, no event from a panicking operation.  Event streams of whole
    histories (one event per change, batch = singles, delivery timing) are decided by the
    correspondence run, which compares every operation's event list with the model's. *)
From Arche Require Import Model.Base Model.World Model.Ops Proofs.Misc Proofs.Atomic Proofs.Bits.

Theorem C11_added_removed_are_differences : forall old new i,
  bit (N.land new (N.lxor old new)) i = bit new i && negb (bit old i) /\
  bit (N.land old (N.lxor old new)) i = bit old i && negb (bit new i).
Proof. exact added_removed_bits. Qed.

Theorem C11_exchange_event : forall w e x add rem t nd,
  w_listener w = Some (LCallback (mkL 63 None)) -> w_tables w !! x_new x = Some t -> w_nodes w !! t_node t = Some nd ->
  let relch := opt_ne (x_oldrel x) (n_rel nd) in
  let tgch := negb (ent_eqb (x_oldtarget x) (t_target t)) in
  let bits := subscription false false (negb (bool_decide (add = []))) (negb (bool_decide (rem = []))) relch (relch || tgch) in
  ev_exchange w e x add rem =
    if (N.land 63 bits =? 0)%N then []
    else [mkEv e (N.land (n_mask nd) (N.lxor (x_oldmask x) (n_mask nd))) (N.land (x_oldmask x) (N.lxor (x_oldmask x) (n_mask nd)))
               add rem (x_oldrel x) (n_rel nd) (x_oldtarget x) bits (is_locked w) 0].
Proof. exact ev_exchange_exact. Qed.

Theorem C11_no_event_from_failed_call : forall w o w' evs, step w o = (w', Panic, evs) -> w' = w /\ evs = [].
Proof. exact panic_atomic. Qed.

Print Assumptions C11_exchange_event.
