(** C11 - Entity events are complete and truthful.  Proved on the model, with a listener
    subscribed to everything, on every world satisfying the invariants (any registry,
    relation tables): a successful Add/Remove/Exchange (with or without relation argument)
    emits EXACTLY ONE event whose added / removed masks are the differences of the entity's
    component sets before and after, whose old / new relation and old target are those
    before and after, whose type bits name exactly the kinds of change, delivered after the
    change with the world unlocked ([C11_exchange_event_exact]); replaying it on the old
    component set gives the new one ([C11_replay]); creation emits one event with the full
    mask, Relations.Set one TargetChanged event unless the target is unchanged (then none),
    removal one event BEFORE the removal with the world locked; no event without listener,
    none from a panicking call.  Batch event lists and whole-history streams: correspondence
    run (every operation's event list is compared with the model's). *)
From Arche Require Import Model.Base Model.World Model.Ops Proofs.Misc Proofs.Atomic Proofs.Bits
  Proofs.Store Proofs.WorldInv Proofs.RelGraph Proofs.RelWorld Proofs.RelRefine Proofs.EventsExact.

Theorem C11_added_removed_are_differences : forall old new i,
  bit (N.land new (N.lxor old new)) i = bit new i && negb (bit old i) /\
  bit (N.land old (N.lxor old new)) i = bit old i && negb (bit new i).
Proof. exact added_removed_bits. Qed.

Theorem C11_exchange_event : forall w e x add rem t nd,
  w_listener w = Some (LCallback (mkL 63 None)) -> w_tables w !! x_new x = Some t -> w_nodes w !! t_node t = Some nd ->
  let relch := opt_ne (x_oldrel x) (n_rel nd) in
  let tgch := negb (ent_eqb (x_oldtarget x) (t_target t)) in
  let bits := subscription false false (negb (bool_decide (add = []))) (negb (bool_decide (rem = []))) relch (relch || tgch) in
  ev_exchange w e x add rem =
    if (N.land 63 bits =? 0)%N then []
    else [mkEv e (N.land (n_mask nd) (N.lxor (x_oldmask x) (n_mask nd))) (N.land (x_oldmask x) (N.lxor (x_oldmask x) (n_mask nd)))
               add rem (x_oldrel x) (n_rel nd) (x_oldtarget x) bits (is_locked w) 0].
Proof. exact ev_exchange_exact. Qed.

Theorem C11_no_event_from_failed_call : forall w o w' evs, step w o = (w', Panic, evs) -> w' = ghost_of w o /\ evs = [].
Proof. exact panic_atomic. Qed.


Theorem C11_exchange_event_exact : forall w live e add rem rel w' x,
  world_okr w live -> e ∈ live -> Forall (fun id => id < length (w_reg w)) add ->
  w_listener w = Some lall ->
  exchange_nn w e add rem rel = Some (w', Some x) ->
  exists om nm orl nrl ot nt,
    ent_mask w e = Some om /\ ent_mask w' e = Some nm /\ ent_rel w e = Some orl /\ ent_rel w' e = Some nrl /\
    ent_target w e = Some ot /\ ent_target w' e = Some nt /\
    ev_exchange w' e x add rem =
      [mkEv e (N.land nm (N.lxor om nm)) (N.land om (N.lxor om nm)) add rem orl nrl ot (xbits add rem orl nrl ot nt) false 0].
Proof. exact exchange_event_exact. Qed.

Theorem C11_type_bits : forall add rem orl nrl ot nt,
  let b := xbits add rem orl nrl ot nt in
  N.testbit b 0 = false /\ N.testbit b 1 = false /\
  N.testbit b 2 = negb (bool_decide (add = [])) /\ N.testbit b 3 = negb (bool_decide (rem = [])) /\
  N.testbit b 4 = opt_ne orl nrl /\ N.testbit b 5 = (opt_ne orl nrl || negb (ent_eqb ot nt)).
Proof. exact xbits_spec. Qed.

Theorem C11_replay : forall om nm,
  N.ldiff (N.lor om (N.land nm (N.lxor om nm))) (N.land om (N.lxor om nm)) = nm.
Proof. exact replay_masks. Qed.

Theorem C11_creation_event : forall w live issued ids w' e evs,
  world_okr2 w live issued -> Forall (fun id => id < length (w_reg w)) ids -> w_listener w = Some lall ->
  op_new w ids [] = (w', Ok (VEnt e), evs) ->
  exists m r, ent_mask w' e = Some m /\ ent_rel w' e = Some r /\
    evs = [mkEv e m 0 ids [] None r ezero
             (subscription true false (negb (bool_decide (ids = []))) false (bool_decide (is_Some r)) (bool_decide (is_Some r))) false 0].
Proof. exact new_event_exact. Qed.

Theorem C11_target_event : forall w live e rid target w' evs,
  world_okr w live -> e ∈ live -> w_listener w = Some lall ->
  op_set_relation w e rid target = (w', Ok VUnit, evs) ->
  exists ot, ent_target w e = Some ot /\ ent_target w' e = Some target /\
    evs = if ent_eqb ot target then [] else [mkEv e 0 0 [] [] (Some rid) (Some rid) ot 32 false 0].
Proof. exact target_event_exact. Qed.

Theorem C11_removal_event : forall w live e,
  world_okr w live -> e ∈ live -> chk_alive w e = Some true -> is_locked w = false -> w_listener w = Some lall ->
  exists m r tg, ent_mask w e = Some m /\ ent_rel w e = Some r /\ ent_target w e = Some tg /\
    snd (op_remove_entity w e) =
      [mkEv e 0 m [] (mask_ids (w_tb w) m) r None tg
            (subscription false true false (negb (bool_decide (mask_ids (w_tb w) m = []))) (bool_decide (is_Some r)) (bool_decide (is_Some r))) true 0].
Proof. exact remove_event_exact. Qed.

Print Assumptions C11_exchange_event.
Print Assumptions C11_exchange_event_exact.
Print Assumptions C11_removal_event.

(** ** Batch exchange.  With an all-subscribing listener the events of Batch.Add / Remove /
    Exchange (Relations.ExchangeBatch) are, entity by entity in processing order, exactly the
    event of the single exchange: the difference of the entity's masks before and after, the
    id lists of the call, old and new relation, the old target, the type bits. *)
From Arche Require Import Model.Filter Proofs.QueryExact Proofs.CacheInv Proofs.BatchEvents.
Theorem C11_batch_exchange_events : forall w A f add rem rel w' n evs,
  R w A -> cache_ok w -> Forall (fun id => id < length (as_reg A)) add -> (add <> [] \/ rem <> []) ->
  w_listener w = Some lall ->
  op_batch_exchange w (FPlain f) add rem rel = (w', Ok (VNat n), evs) ->
  evs = flat_map (ev_of w w' add rem) (table_ents w (get_tables w f)).
Proof. exact batch_exchange_events_exact. Qed.
Print Assumptions C11_batch_exchange_events.

(** ** Batch removal.  With an all-subscribing listener Batch.RemoveEntities emits, in
    processing order, exactly one removal event per matching entity: the event of the single
    removal (full mask and id list removed, old relation, old target, delivered before the
    entity is gone). *)
From Arche Require Import Model.Pool Proofs.BatchRemove.
Theorem C11_batch_remove_events : forall w A f w' n evs,
  R w A -> cache_ok w -> w_listener w = Some lall ->
  (forall e, e ∈ table_ents w (get_tables w f) -> (egen e < gen_max)%N) ->
  op_remove_entities w (FPlain f) = (w', Ok (VNat n), evs) ->
  evs = flat_map (rm_ev w) (table_ents w (get_tables w f)).
Proof. exact batch_remove_events_exact. Qed.
Print Assumptions C11_batch_remove_events.

(** ** Batch.SetRelation / Relations.SetBatch.  With an all-subscribing listener the call
    emits, in processing order, exactly one TargetChanged event per entity whose target
    actually changed - the event of the single Relations.Set ([C11_target_event_exact]):
    no component added or removed, the relation component as old and new relation, the
    entity's OLD target, type bits = TargetChanged - and none for entities that already had
    the target. *)
From Arche Require Import Proofs.BatchQ.
Theorem C11_batch_set_relation_events : forall w A f rid T w' n evs,
  R w A -> cache_ok w -> w_listener w = Some lall ->
  op_batch_set_relation w (FPlain f) rid T = (w', Ok (VNat n), evs) ->
  evs = flat_map (sr_ev w rid) (table_ents w (retargeted T w (get_tables w f))).
Proof. exact batch_set_relation_events_exact. Qed.
Print Assumptions C11_batch_set_relation_events.

(** ** Replaying the event stream rebuilds the world.  A shadow "entity -> component set" is
    updated from each event alone (creation: enter the added set; removal: delete; otherwise
    (old + added) - removed).  For every history of creations, Add/Remove/Exchange (with or
    without relation argument), Relations.Set, RemoveEntity, registrations and reads, with a
    listener subscribed to everything, the shadow rebuilt from the events alone holds exactly
    the alive entities, each with the component set the world reports: no change goes
    unreported, no event reports a change that did not happen. *)
From Arche Require Import Proofs.EventReplay.
Theorem C11_replay_step : forall w A S o,
  R w A -> w_listener w = Some lall -> op_preE A o -> shadow_ok A S ->
  let r := step w o in
  shadow_ok (astep A o (snd (fst r))) (sh_replay S (snd r)) /\ w_listener (fst (fst r)) = Some lall.
Proof. exact replay_step. Qed.

Theorem C11_replaying_events_rebuilds_the_world : forall ops w A S,
  R w A -> w_listener w = Some lall -> shadow_ok A S -> pre_runE w A ops ->
  let w' := run w ops in let A' := snd (arun w A ops) in let S' := sh_replay S (events_of w ops) in
  (forall e, e ∈ as_live A' -> assoc_get e S' = ent_mask w' e) /\
  (forall e, e ∉ as_live A' -> assoc_get e S' = None).
Proof. exact replay_rebuilds_world. Qed.

Example C11_replay_nonvacuous :
  let w := run (world_init 2 2 64) demo_replay_setup in
  let A := snd (arun (world_init 2 2 64) a_init demo_replay_setup) in
  (w_listener w = Some lall /\ pre_runE w A demo_replay_ops) /\
  sh_replay [] (events_of w demo_replay_ops) = [(mkE 2 1, 4%N); (mkE 3 0, 3%N); (mkE 1 0, 4%N)] /\
  length (events_of w demo_replay_ops) = 9.
Proof. split; [exact demo_replay_pre|exact demo_replay_result]. Qed.
Print Assumptions C11_replaying_events_rebuilds_the_world.

(** ** ... with batch operations in the history (Batch.Add / Remove / Exchange,
    Relations.ExchangeBatch, Batch.SetRelation, Batch.RemoveEntities with unregistered OR registered
    filters, Builder.NewBatch of id builders):
    the events of a batch touch pairwise distinct entities, each carrying the difference of
    that entity's component sets, so the shadow rebuilt from the events alone still holds
    exactly the alive entities with the component sets the world reports. *)
From Arche Require Import Proofs.BatchHist Proofs.EventReplayBatch.
Theorem C11_replay_step_with_batches : forall w A S o,
  inv3 w A -> w_listener w = Some lall -> op_preEB w A o -> shadow_ok A S ->
  let r := step w o in
  shadow_ok (astep_b w A o (snd (fst r))) (sh_replay S (snd r)) /\ w_listener (fst (fst r)) = Some lall /\
  inv3 (fst (fst r)) (astep_b w A o (snd (fst r))).
Proof. exact replay_step_b. Qed.

Theorem C11_replaying_events_rebuilds_the_world_with_batches : forall ops w A S,
  inv3 w A -> w_listener w = Some lall -> shadow_ok A S -> pre_runEB w A ops ->
  let w' := run w ops in let A' := arun4 w A ops in let S' := sh_replay S (events_of w ops) in
  (forall e, e ∈ as_live A' -> assoc_get e S' = ent_mask w' e) /\
  (forall e, e ∉ as_live A' -> assoc_get e S' = None).
Proof. exact replay_rebuilds_world_b. Qed.

Example C11_replay_with_batches_nonvacuous :
  let w := run (world_init 2 2 64) demo_replay_setup in
  let A := snd (arun (world_init 2 2 64) a_init demo_replay_setup) in
  (w_listener w = Some lall /\ pre_runEB w A demo_replay_b_ops) /\
  sh_replay [] (events_of w demo_replay_b_ops) =
    [(mkE 6 0, 5%N); (mkE 5 0, 5%N); (mkE 2 1, 4%N); (mkE 4 0, 3%N); (mkE 3 0, 3%N); (mkE 1 0, 0%N)] /\
  length (events_of w demo_replay_b_ops) = 15.
Proof. split; [exact demo_replay_b_pre|exact demo_replay_b_result]. Qed.
Example C11_replay_with_registered_filter_nonvacuous :
  let w := run (world_init 2 2 64) demo_replay_c_setup in
  let A := snd (arun (world_init 2 2 64) a_init demo_replay_c_setup) in
  (w_listener w = Some lall /\ pre_runEB w A demo_replay_c_ops) /\
  sh_replay [] (events_of w demo_replay_c_ops) = [(mkE 2 0, 4%N); (mkE 1 0, 0%N); (mkE 3 0, 4%N)] /\
  length (events_of w demo_replay_c_ops) = 7.
Proof. split; [exact demo_replay_c_pre|exact demo_replay_c_result]. Qed.
Print Assumptions C11_replaying_events_rebuilds_the_world_with_batches.

(** ** ... components AND relation targets.  The relation target is not part of an event (only
    the old target is); events arrive after the change, so a listener reads the target from the
    world it is called in - on a creation event and on every event whose type bits say
    RelationChanged or TargetChanged, and only then.  The shadow (component set, target) kept
    this way holds, after every history of creations (with and without target), exchanges (with
    or without relation argument), Relations.Set, Set, RemoveEntity, registrations and reads,
    exactly the alive entities with the component sets and targets the world reports: the type
    bits never miss a change of the target. *)
From Arche Require Import Proofs.EventReplayT.
Theorem C11_replay_with_targets : forall ops w A S,
  R w A -> w_listener w = Some lall -> shadow_t_ok A S -> pre_runT w A ops ->
  let w' := run w ops in let A' := snd (arun w A ops) in let S' := replay_run w S ops in
  (forall e, e ∈ as_live A' -> exists m t, assoc_get e S' = Some (m, t) /\ ent_mask w' e = Some m /\ ent_target w' e = Some t) /\
  (forall e, e ∉ as_live A' -> assoc_get e S' = None).
Proof. exact replay_t_rebuilds_world. Qed.

Example C11_replay_with_targets_nonvacuous :
  let w := run (world_init 2 2 64) demo_replay_setup in
  let A := snd (arun (world_init 2 2 64) a_init demo_replay_setup) in
  (w_listener w = Some lall /\ pre_runT w A demo_replay_t_ops) /\
  replay_run w [] demo_replay_t_ops =
    [(mkE 1 1, (4%N, ezero)); (mkE 2 0, (5%N, ezero)); (mkE 3 0, (6%N, mkE 2 0))].
Proof. split; [exact demo_replay_t_pre|exact demo_replay_t_result]. Qed.
Print Assumptions C11_replay_with_targets.

(** ** Batch exchange through a REGISTERED filter: the same events, entity by entity, in the
    order of the cached table list (creation order, not graph order). *)
From Arche Require Import Proofs.BatchEventsCached.
Theorem C11_batch_exchange_events_cached : forall w A id ce add rem rel w' n evs,
  R w A -> cache_ok w -> cache_get w id = Some ce ->
  Forall (fun id => id < length (as_reg A)) add -> (add <> [] \/ rem <> []) ->
  w_listener w = Some lall ->
  op_batch_exchange w (FCached id) add rem rel = (w', Ok (VNat n), evs) ->
  evs = flat_map (ev_of w w' add rem) (table_ents w (c_tables ce)).
Proof. exact batch_exchange_events_cached. Qed.
Print Assumptions C11_batch_exchange_events_cached.

Theorem C11_batch_set_relation_events_cached : forall w A id ce rid T w' n evs,
  R w A -> cache_ok w -> cache_get w id = Some ce -> w_listener w = Some lall ->
  op_batch_set_relation w (FCached id) rid T = (w', Ok (VNat n), evs) ->
  evs = flat_map (sr_ev w rid) (table_ents w (retargeted T w (c_tables ce))).
Proof. exact batch_set_relation_events_cached. Qed.

Theorem C11_batch_remove_events_cached : forall w A id ce w' n evs,
  R w A -> cache_ok w -> cache_get w id = Some ce -> w_listener w = Some lall ->
  (forall e, e ∈ table_ents w (c_tables ce) -> (egen e < gen_max)%N) ->
  op_remove_entities w (FCached id) = (w', Ok (VNat n), evs) ->
  evs = flat_map (rm_ev w) (table_ents w (c_tables ce)).
Proof. exact batch_remove_events_cached. Qed.
Print Assumptions C11_batch_set_relation_events_cached.
Print Assumptions C11_batch_remove_events_cached.
