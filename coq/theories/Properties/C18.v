(** C18 - The generic API is a faithful typed view of the ID-based core (level: partial).
    Proved here: the cached compilation of a filter builder always serves the current
    configuration (Proofs/Generic.v).  The delegation bodies of the generated API are
    compared with their ID-based equivalents by the differential run over all arities. *)
From Arche Require Import Model.Base Model.Filter Proofs.Generic.

Theorem C18_compiled_current : forall tb ops init,
  ginv tb init ->
  let s := foldl (gstep tb) init ops in
  gquery_filter tb s = core_filter tb (gs_config s).
Proof. exact compiled_current. Qed.

Print Assumptions C18_compiled_current.
