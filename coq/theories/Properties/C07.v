(** C07 - Registering a filter never changes what it selects (level: partial).  Proved on
    the model: registration stores the original filter with exactly the tables the
    unregistered filter selects at that moment; unregistration returns the original filter
    and leaves all other entries in place; neither touches tables or nodes.  That the list
    stays equal to the uncached selection under later table creation / retirement / reset
    is decided by the correspondence run (every cached scan is paired with an uncached one). *)
From Arche Require Import Model.Base Model.Filter Model.World Model.Ops Proofs.Misc.

Theorem C07_register : forall w f,
  let '(w', id) := cache_register w f in
  id = w_cnext w /\ w_cache w' = w_cache w ++ [mkCE id f (get_tables w f)] /\ w_tables w' = w_tables w /\ w_nodes w' = w_nodes w.
Proof. exact cache_register_entry. Qed.

Theorem C07_unregister : forall w id w' f,
  cache_unregister w id = Some (w', f) ->
  (exists e, e ∈ w_cache w /\ c_id e = id /\ c_filter e = f) /\
  (forall e, e ∈ w_cache w' -> e ∈ w_cache w) /\ w_tables w' = w_tables w /\ w_nodes w' = w_nodes w.
Proof. exact cache_unregister_original. Qed.

Print Assumptions C07_unregister.
