(** C07 - Registering a filter never changes what it selects.  Proved on the model:
    registration stores the original filter with exactly the tables the unregistered
    filter selects at that moment; unregistration returns the original filter and leaves
    all other entries in place; and the CACHE INVARIANT - every registered filter lists,
    without repetition, exactly the tables an uncached evaluation of the same filter
    selects NOW - is kept by table creation, LIFO re-use, retirement, cleanup, entity
    moves, entity creation/removal and component registration, hence holds after every
    history of single-entity operations and (un)registrations from a new world
    ([C07_every_history]).  A query through a registered filter therefore visits exactly
    the alive entities matching the original filter, each once.  Batch operations and
    Reset: correspondence run (every cached scan is paired with an uncached one). *)
From Arche Require Import Model.Base Model.Filter Model.World Model.Ops Proofs.Misc Proofs.Cursor
  Proofs.Store Proofs.WorldInv Proofs.RelGraph Proofs.RelWorld Proofs.RelRefine Proofs.QueryExact Proofs.CacheInv.

Theorem C07_register : forall w f,
  let '(w', id) := cache_register w f in
  id = w_cnext w /\ w_cache w' = w_cache w ++ [mkCE id f (get_tables w f)] /\ w_tables w' = w_tables w /\ w_nodes w' = w_nodes w.
Proof. exact cache_register_entry. Qed.

Theorem C07_unregister : forall w id w' f,
  cache_unregister w id = Some (w', f) ->
  (exists e, e ∈ w_cache w /\ c_id e = id /\ c_filter e = f) /\
  (forall e, e ∈ w_cache w' -> e ∈ w_cache w) /\ w_tables w' = w_tables w /\ w_nodes w' = w_nodes w.
Proof. exact cache_unregister_original. Qed.


(** The invariant and its consequences. *)
Theorem C07_step : forall w A o,
  R w A -> cache_ok w -> op_pre2 A o ->
  R (fst (fst (step w o))) (astep A o (snd (fst (step w o)))) /\ cache_ok (fst (fst (step w o))).
Proof. exact cache_step. Qed.

Theorem C07_every_history : forall ops w A,
  R w A -> cache_ok w -> pre_run2 w A ops ->
  R (run w ops) (snd (arun w A ops)) /\ cache_ok (run w ops).
Proof. exact cache_history. Qed.

Theorem C07_cached_query_exact : forall capinc relcapinc tb ops ce b l,
  0 < capinc -> pre_run2 (world_init capinc relcapinc tb) a_init ops ->
  let w := run (world_init capinc relcapinc tb) ops in
  let A := snd (arun (world_init capinc relcapinc tb) a_init ops) in
  ce ∈ w_cache w ->
  exists L, map (pos_ent w) (visit (S (length (enum (plain_segs w (c_tables ce))))) (fresh (plain_segs w (c_tables ce)) b l)) = map Some L /\
    NoDup L /\ forall e, e ∈ L <-> (e ∈ as_live A /\ ent_matches w (c_filter ce) e).
Proof. exact cached_query_exact_reachable. Qed.

(** The pieces: creation (fresh or re-used table) and retirement keep the invariant. *)
Theorem C07_create_table : forall w nid nd target fs,
  rgraph_ok w -> cache_ok w -> w_nodes w !! nid = Some nd -> node_get_table nd target = None ->
  cache_ok (fst (create_table w nid target fs)).
Proof. exact cache_ok_create. Qed.
Theorem C07_retire_table : forall w tid t nd r,
  rgraph_ok w -> cache_ok w -> w_tables w !! tid = Some t -> w_nodes w !! t_node t = Some nd ->
  n_rel nd = Some r -> t_active t = true -> tlen t = 0 -> cache_ok (retire_table w tid).
Proof. exact cache_ok_retire. Qed.

Example C07_nonvacuous : pre_run2 (world_init 4 4 64) a_init demo_cache_ops.
Proof. exact demo_cache_pre. Qed.

Print Assumptions C07_unregister.
Print Assumptions C07_every_history.
Print Assumptions C07_cached_query_exact.

(** ** The IDs of cached filters in the code of /repo itself: intPool[uint32] of ecs/pool.go,
    as translated into [Gen/GoIntPool.v], never hands out an ID that is in use - in every
    history of Get / Recycle (of an ID in use) / Reset from a new pool. *)
From Arche Require Import Pure.GoRt Gen.GoIntPool Proofs.IntPoolTie.
Local Open Scope nat_scope.
Theorem C07_code_ids_fresh : forall g ds used frees,
  ip_inv g ds used frees -> (N.of_nat (length ds) + 1 < 2 ^ 32)%N ->
  exists g' v, intPool_Get g = Ret (g', v) /\ N.to_nat v ∉ used.
Proof. exact ip_fresh. Qed.
Theorem C07_code_ids_history : forall ops g ds used frees x,
  ip_inv g ds used frees -> (N.of_nat (length ds + length ops) + 1 < 2 ^ 32)%N ->
  irun g used ops = Some x ->
  exists g' used' outs ds' frees', x = Ret (g', used', outs) /\ ip_inv g' ds' used' frees' /\ NoDup used'.
Proof. exact ip_history. Qed.
Theorem C07_code_ids_new : forall inc, (inc < 2 ^ 32)%N -> exists g, go_newIntPool inc = Ret g /\ ip_inv g [] [] [].
Proof. exact ip_new. Qed.
Print Assumptions C07_code_ids_history.
