(** C14 - Components holding pointers are safe under garbage collection (level: partial).
    The formal content is the storage discipline of the model: cells vacated by a removal
    are zeroed, so the storage retains nothing (see also Proofs/WorldInv.v: [wf_zero] for
    every reachable state).  Write barriers and collector timing are outside the model. *)
From Arche Require Import Model.Base Model.World Proofs.Tables.

(** Removing a row zeroes the vacated last row and keeps every other row (up to the swap). *)
Theorem C14_remove_zeroes : forall zr t row,
  row < tlen t -> tlen t <= length (t_rows t) ->
  t_rows (fst (tbl_remove zr t row)) !! (tlen t - 1) = Some zr.
Proof. exact tbl_remove_zeroes. Qed.

(** Resetting a table zeroes every row. *)
Theorem C14_reset_zeroes : forall zr t i,
  0 < tlen t -> i < length (t_rows t) -> t_rows (tbl_reset zr t) !! i = Some zr.
Proof. exact tbl_reset_zeroes. Qed.

Print Assumptions C14_remove_zeroes.
