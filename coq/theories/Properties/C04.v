(** C04 - Masks are sets of component IDs; filters match exactly per their definition.
    Statements only, about the definitions GENERATED from the current sources
    (Gen/Mask256.v: default build; Gen/Mask64.v: tiny build).  Proofs: Pure/MaskProofs*.v. *)
From Coq Require Import NArith Bool List.
From Arche Require Import Pure.MachInt Pure.MaskProofs256 Pure.MaskProofs64.
Open Scope N_scope.

Module D := Arche.Gen.Mask256.
Module P := Arche.Pure.MaskProofs256.

Theorem C04_get : forall m i, i < 256 -> D.Mask_Get m i = P.mbit m i.
Proof. exact P.Get_spec. Qed.
Theorem C04_set : forall m i v j, i < 256 -> P.mbit (D.Mask_Set m i v) j = if j =? i then v else P.mbit m j.
Proof. exact P.Set_spec. Qed.
Theorem C04_all : forall ids j, Forall (fun i => i < 256) ids -> P.mbit (D.All ids) j = existsb (N.eqb j) ids.
Proof. exact P.All_spec. Qed.
Theorem C04_not : forall m j, j < 256 -> P.mbit (D.Mask_Not m) j = negb (P.mbit m j).
Proof. exact P.Not_spec. Qed.
Theorem C04_and : forall a b j, P.mbit (D.Mask_And a b) j = P.mbit a j && P.mbit b j.
Proof. exact P.And_spec. Qed.
Theorem C04_or : forall a b j, P.mbit (D.Mask_Or a b) j = P.mbit a j || P.mbit b j.
Proof. exact P.Or_spec. Qed.
Theorem C04_xor : forall a b j, P.mbit (D.Mask_Xor a b) j = xorb (P.mbit a j) (P.mbit b j).
Proof. exact P.Xor_spec. Qed.
Theorem C04_reset : forall m j, P.mbit (D.Mask_Reset m) j = false.
Proof. exact P.Reset_spec. Qed.
Theorem C04_contains : forall a b, P.WF b ->
  D.Mask_Contains a b = true <-> forall j, j < 256 -> P.mbit b j = true -> P.mbit a j = true.
Proof. exact P.Contains_spec. Qed.
Theorem C04_contains_any : forall a b, P.WF b ->
  D.Mask_ContainsAny a b = true <-> exists j, j < 256 /\ P.mbit a j = true /\ P.mbit b j = true.
Proof. exact P.ContainsAny_spec. Qed.
Theorem C04_is_zero : forall m, P.WF m -> D.Mask_IsZero m = true <-> forall j, j < 256 -> P.mbit m j = false.
Proof. exact P.IsZero_spec. Qed.
Theorem C04_total_bits : forall m, P.WF m ->
  D.Mask_TotalBitsSet m = count_bits (D.word m 0) 64 + count_bits (D.word m 1) 64 + count_bits (D.word m 2) 64 + count_bits (D.word m 3) 64.
Proof. exact P.TotalBitsSet_spec. Qed.
Theorem C04_mask_filter : forall f bits, P.WF (D.mf_include f) -> P.WF (D.mf_exclude f) ->
  D.MaskFilter_Matches f bits = true <->
  (forall j, j < 256 -> P.mbit (D.mf_include f) j = true -> P.mbit bits j = true) /\
  (forall j, j < 256 -> P.mbit (D.mf_exclude f) j = true -> P.mbit bits j = false).
Proof. exact P.MaskFilter_spec. Qed.
Theorem C04_exclusive : forall m bits, P.WF m ->
  D.MaskFilter_Matches (D.Mask_Exclusive m) bits = true <-> forall j, j < 256 -> P.mbit bits j = P.mbit m j.
Proof. exact P.Exclusive_spec. Qed.
(** Arbitrary nesting of the logic filters, no depth bound. *)
Theorem C04_logic_filters : forall f bits, P.gwf f -> P.gmatches f bits = true <-> P.denote f (P.mbit bits).
Proof. exact P.matches_denote. Qed.
(** Well-formedness (every word below 2^64) is preserved, so the hypotheses above hold
    for every mask the API can build. *)
Theorem C04_wf : P.WF D.mask_zero /\ (forall m i v, i < 256 -> P.WF m -> P.WF (D.Mask_Set m i v)) /\
  (forall m, P.WF (D.Mask_Not m)) /\ (forall a b, P.WF a -> P.WF (D.Mask_And a b)) /\
  (forall a b, P.WF a -> P.WF b -> P.WF (D.Mask_Or a b)) /\ (forall a b, P.WF a -> P.WF b -> P.WF (D.Mask_Xor a b)).
Proof. exact (conj P.WF_zero (conj P.Set_WF (conj P.Not_WF (conj P.And_WF (conj P.Or_WF P.Xor_WF))))). Qed.

Print Assumptions C04_logic_filters.
Print Assumptions C04_exclusive.
Print Assumptions C04_total_bits.

(** The tiny build (64 IDs). *)
Module T := Arche.Gen.Mask64.
Module Q := Arche.Pure.MaskProofs64.
Theorem C04_tiny_get : forall m i, i < 64 -> T.Mask_Get m i = Q.mbit m i.
Proof. exact Q.Get_spec. Qed.
Theorem C04_tiny_set : forall m i v j, i < 64 -> j < 64 -> Q.mbit (T.Mask_Set m i v) j = if j =? i then v else Q.mbit m j.
Proof. exact Q.Set_spec. Qed.
Theorem C04_tiny_not : forall m j, j < 64 -> Q.mbit (T.Mask_Not m) j = negb (Q.mbit m j).
Proof. exact Q.Not_spec. Qed.
Theorem C04_tiny_contains : forall a b, Q.WF b ->
  T.Mask_Contains a b = true <-> forall j, j < 64 -> Q.mbit b j = true -> Q.mbit a j = true.
Proof. exact Q.Contains_spec. Qed.
Theorem C04_tiny_contains_any : forall a b, Q.WF b ->
  T.Mask_ContainsAny a b = true <-> exists j, j < 64 /\ Q.mbit a j = true /\ Q.mbit b j = true.
Proof. exact Q.ContainsAny_spec. Qed.
Theorem C04_tiny_mask_filter : forall f bits, Q.WF (T.mf_include f) -> Q.WF (T.mf_exclude f) ->
  T.MaskFilter_Matches f bits = true <->
  (forall j, j < 64 -> Q.mbit (T.mf_include f) j = true -> Q.mbit bits j = true) /\
  (forall j, j < 64 -> Q.mbit (T.mf_exclude f) j = true -> Q.mbit bits j = false).
Proof. exact Q.MaskFilter_spec. Qed.
Theorem C04_tiny_exclusive : forall m bits, Q.WF m ->
  T.MaskFilter_Matches (T.Mask_Exclusive m) bits = true <-> forall j, j < 64 -> Q.mbit bits j = Q.mbit m j.
Proof. exact Q.Exclusive_spec. Qed.
Theorem C04_tiny_total_bits : forall m, Q.WF m -> T.Mask_TotalBitsSet m = count_bits (T.mbits m) 64.
Proof. exact Q.TotalBitsSet_spec. Qed.
Print Assumptions C04_tiny_exclusive.
