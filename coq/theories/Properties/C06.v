(** C06 - Target death and table recycling never corrupt or leak entities.
    Statements only; proofs in Proofs/Store.v and Proofs/Misc.v.  [ent_cells w e] is the
    triple (node, relation target, component cells) the storage holds for [e]. *)
From Arche Require Import Model.Base Model.Pool Model.World Model.Ops
  Proofs.PoolInv Proofs.Tables Proofs.Store Proofs.Misc.

(** Removing ANY alive entity - a relation target or not, targeting itself or not, with
    its target clean-up and the retirement of emptied tables - succeeds from every state
    satisfying the storage invariant, and every other alive entity keeps its node, its
    (possibly now dead) target and all its component cells. *)
Theorem C06_remove_entity : forall w live issued frees e,
  store_ok w live -> pool_inv (w_pool w) live issued frees -> e ∈ live -> (egen e < gen_max)%N ->
  is_locked w = false ->
  let r := op_remove_entity w e in
  snd (fst r) = Ok VUnit /\
  store_ok (fst (fst r)) (filter (fun x => x <> e) live) /\
  pool_inv (w_pool (fst (fst r))) (filter (fun x => x <> e) live) issued (eid e :: frees) /\
  (forall e', e' ∈ live -> e' <> e -> ent_cells (fst (fst r)) e' = ent_cells w e') /\
  pool_alive (w_pool (fst (fst r))) e = false.
Proof. exact remove_entity_ok. Qed.

(** Retiring a table (only empty tables are retired) changes no entity's data ... *)
Theorem C06_retire_keeps : forall w live tid,
  store_ok w live ->
  store_ok (cleanup_table w tid) live /\ w_pool (cleanup_table w tid) = w_pool w /\
  (forall e, ent_cells (cleanup_table w tid) e = ent_cells w e).
Proof. exact cleanup_table_keeps. Qed.
Theorem C06_target_cleanup_keeps : forall w live target,
  store_ok w live ->
  store_ok (cleanup_tables_for w target) live /\ w_pool (cleanup_tables_for w target) = w_pool w /\
  (forall e, ent_cells (cleanup_tables_for w target) e = ent_cells w e).
Proof. exact cleanup_tables_for_keeps. Qed.

(** ... and an empty table is all zero, so storage re-used for another target starts empty:
    no entity and no component value of the old target can show up. *)
Theorem C06_reuse_starts_empty : forall zr t i,
  table_ok zr t -> tlen t = 0 -> i < length (t_rows t) -> t_rows t !! i = Some zr /\ t_ents t = [].
Proof. exact empty_table_all_zero. Qed.

Print Assumptions C06_remove_entity.
