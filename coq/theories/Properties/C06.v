(** C06 - Target death and table recycling never corrupt or leak entities.
    Statements only; proofs in Proofs/Store.v and Proofs/Misc.v.  [ent_cells w e] is the
    triple (node, relation target, component cells) the storage holds for [e]. *)
From Arche Require Import Model.Base Model.Pool Model.World Model.Ops
  Proofs.PoolInv Proofs.Tables Proofs.Store Proofs.Misc Proofs.WorldInv Proofs.RelGraph Proofs.RelWorld Proofs.RelRefine.

(** Removing ANY alive entity - a relation target or not, targeting itself or not, with
    its target clean-up and the retirement of emptied tables - succeeds from every state
    satisfying the storage invariant, and every other alive entity keeps its node, its
    (possibly now dead) target and all its component cells. *)
Theorem C06_remove_entity : forall w live issued frees e,
  store_ok w live -> pool_inv (w_pool w) live issued frees -> e ∈ live -> (egen e < gen_max)%N ->
  is_locked w = false ->
  let r := op_remove_entity w e in
  snd (fst r) = Ok VUnit /\
  store_ok (fst (fst r)) (filter (fun x => x <> e) live) /\
  pool_inv (w_pool (fst (fst r))) (filter (fun x => x <> e) live) issued (eid e :: frees) /\
  (forall e', e' ∈ live -> e' <> e -> ent_cells (fst (fst r)) e' = ent_cells w e') /\
  pool_alive (w_pool (fst (fst r))) e = false.
Proof. exact remove_entity_ok. Qed.

(** Retiring a table (only empty tables are retired) changes no entity's data ... *)
Theorem C06_retire_keeps : forall w live tid,
  store_ok w live ->
  store_ok (cleanup_table w tid) live /\ w_pool (cleanup_table w tid) = w_pool w /\
  (forall e, ent_cells (cleanup_table w tid) e = ent_cells w e).
Proof. exact cleanup_table_keeps. Qed.
Theorem C06_target_cleanup_keeps : forall w live target,
  store_ok w live ->
  store_ok (cleanup_tables_for w target) live /\ w_pool (cleanup_tables_for w target) = w_pool w /\
  (forall e, ent_cells (cleanup_tables_for w target) e = ent_cells w e).
Proof. exact cleanup_tables_for_keeps. Qed.

(** ... and an empty table is all zero, so storage re-used for another target starts empty:
    no entity and no component value of the old target can show up. *)
Theorem C06_reuse_starts_empty : forall zr t i,
  table_ok zr t -> tlen t = 0 -> i < length (t_rows t) -> t_rows t !! i = Some zr /\ t_ents t = [].
Proof. exact empty_table_all_zero. Qed.


(** With the graph invariant (target map, free list, re-use): removing an entity - target
    or not - keeps the whole invariant, so that everything proved for exchanges, creations
    and Relations.Set keeps holding afterwards (retired tables are re-used LIFO by
    [create_table], see [RelGraph.create_table_rel_reuse_rok]); every other entity keeps
    mask, relation, (possibly dead) target and values. *)
Theorem C06_remove_entity_graph : forall w live issued e,
  world_okr2 w live issued -> e ∈ live -> (egen e < gen_max)%N -> is_locked w = false ->
  let r := op_remove_entity w e in
  snd (fst r) = Ok VUnit /\ world_okr2 (fst (fst r)) (filter (fun x => x <> e) live) issued /\
  w_reg (fst (fst r)) = w_reg w /\
  (forall e', e' ∈ live -> e' <> e ->
     ent_mask (fst (fst r)) e' = ent_mask w e' /\ ent_target (fst (fst r)) e' = ent_target w e' /\
     ent_rel (fst (fst r)) e' = ent_rel w e' /\ forall id, comp_val (fst (fst r)) e' id = comp_val w e' id) /\
  pool_alive (w_pool (fst (fst r))) e = false.
Proof. exact remove_entity_rok. Qed.

(** Retirement and cleanup keep the graph invariant. *)
Theorem C06_cleanup_keeps_graph : forall w tid target,
  rgraph_ok w -> rgraph_ok (cleanup_table w tid) /\ rgraph_ok (cleanup_tables_for w target).
Proof. intros w tid target G. split; [by apply cleanup_table_rok|by apply cleanup_tables_for_rok]. Qed.

(** Re-use of a retired table: the table handed out is empty, active, has the new target,
    and the invariant holds again. *)
Theorem C06_reuse : forall w nid nd r target fs tid,
  rgraph_ok w -> w_nodes w !! nid = Some nd -> n_rel nd = Some r -> last (n_free nd) = Some tid ->
  assoc_get target (n_tmap nd) = None ->
  let '(w1, tid') := create_table w nid target fs in
  tid' = tid /\ ext_r w w1 /\ rgraph_ok w1 /\
  exists t nd', w_tables w1 !! tid = Some t /\ t_node t = nid /\ t_ents t = [] /\ t_active t = true /\
     t_target t = target /\
     w_nodes w1 !! nid = Some nd' /\ n_mask nd' = n_mask nd /\ n_rel nd' = n_rel nd /\ n_ids nd' = n_ids nd.
Proof. exact create_table_rel_reuse_rok. Qed.

(** After the target of an entity has been removed, the entity still reports the dead
    target (a concrete history; the general statement is [C06_remove_entity_graph]). *)
Example C06_dangling_target :
  snd (arun (world_init 4 4 64) a_init demo_ops) =
  mkAS [(demo_e2, mkA 2 demo_e1 [])] [demo_e2] [demo_e2; demo_e1]
       [mkCI 10 false false; mkCI 11 true false; mkCI 12 false true].
Proof. exact demo_result. Qed.

Print Assumptions C06_remove_entity.
Print Assumptions C06_remove_entity_graph.
Print Assumptions C06_reuse.

(** ** The target marks in the code of /repo itself: ecs/bitset.go (World.targetEntities),
    as translated into [Gen/GoBitSet.v], is the model's list of booleans [w_tbits]. *)
From Arche Require Import Pure.GoRt Gen.GoBitSet Proofs.BitSetTie.
Local Open Scope nat_scope.
Theorem C06_code_bitset_get : forall g l i x, bs_rel g l -> l !! i = Some x -> bitSet_Get g (N.of_nat i) = Ret x.
Proof. exact BitSetTie.Get_tie. Qed.
Theorem C06_code_bitset_set : forall g l i v, bs_rel g l -> i < length l ->
  exists g', bitSet_Set g (N.of_nat i) v = Ret g' /\ bs_rel g' (<[i := v]> l).
Proof. exact Set_tie_insert. Qed.
Theorem C06_code_bitset_append : forall g l v, bs_rel g l -> length l < 64 * length (words g) ->
  exists g', bitSet_Set g (N.of_nat (length l)) v = Ret g' /\ bs_rel g' (l ++ [v]).
Proof. exact Set_tie_append. Qed.
Theorem C06_code_bitset_extend : forall g l n, bs_rel g l -> (n < 2 ^ 63)%N ->
  exists g', bitSet_ExtendTo g n = Ret g' /\ bs_rel g' l /\ (n <= 64 * N.of_nat (length (words g')))%N.
Proof. exact ExtendTo_tie. Qed.
Print Assumptions C06_code_bitset_set.
Print Assumptions C06_code_bitset_extend.
