(** C16 - Type registry: stable bijection, dense ids.  Statements only; proofs in
    Proofs/ResReg.v.  (The clause "all ids are usable" is the layout invariant of the
    storage proof, Proofs/WorldInv.v; the reflection-based [isRelation] is tied to the
    source by the correspondence run over eight type shapes, see DESIGN.md.) *)
From Arche Require Import Model.Base Model.Pool Model.World Model.Ops Proofs.ResReg.

Theorem C16_register : forall w key isrel zs,
  reg_wf w ->
  match step w (ORegister key isrel zs) with
  | (w', Ok (VNat id), _) =>
      reg_wf w' /\ (exists c, w_reg w' !! id = Some c /\ ci_key c = key) /\
      (forall j c, w_reg w !! j = Some c -> w_reg w' !! j = Some c) /\
      ((exists c, w_reg w !! id = Some c /\ ci_key c = key /\ w_reg w' = w_reg w) \/
       (id = length (w_reg w) /\ key ∉ map ci_key (w_reg w) /\ w_reg w' = w_reg w ++ [mkCI key isrel zs]))
  | (w', Panic, _) => w' = w /\ key ∉ map ci_key (w_reg w) /\ (length (w_reg w) = w_tb w \/ is_locked w = true)
  | _ => False
  end.
Proof. exact registry_register. Qed.

Theorem C16_injective : forall w i j ci cj,
  reg_wf w -> w_reg w !! i = Some ci -> w_reg w !! j = Some cj -> ci_key ci = ci_key cj -> i = j.
Proof. exact registry_injective. Qed.

Theorem C16_stable : forall w o,
  (forall k r z, o <> ORegister k r z) -> w_reg (fst (fst (step w o))) = w_reg w.
Proof. exact registry_stable. Qed.

Print Assumptions C16_register.
Print Assumptions C16_stable.

(** ** The capacity arithmetic of the code itself (ecs/util.go, regenerated translation
    [Gen/Mask256.v]): the number of layout slots per table ([capacityNonZero] of the number
    of registered types, in chunks of 16) and the growth of tables ([capacity],
    [capacityU32]) are the model's [capacity_nz] / [capacity] - the least multiple of the
    increment that holds the size - so every registered ID has a layout slot. *)
From Arche Require Import Pure.MachInt Gen.Mask256 Pure.CapGen.
Local Open Scope nat_scope.
Theorem C16_code_capacity : forall size inc,
  0 < inc -> (N.of_nat (Base.capacity size inc) < 2 ^ 63)%N ->
  Mask256.capacity (N.of_nat size) (N.of_nat inc) = N.of_nat (Base.capacity size inc) /\
  Mask256.capacityNonZero (N.of_nat size) (N.of_nat inc) = N.of_nat (capacity_nz size inc).
Proof. exact capacity_code_tie. Qed.
Theorem C16_code_capacityU32 : forall size inc,
  0 < inc -> (N.of_nat (Base.capacity size inc) < 2 ^ 32)%N ->
  Mask256.capacityU32 (N.of_nat size) (N.of_nat inc) = N.of_nat (Base.capacity size inc).
Proof. exact capacityU32_gen. Qed.
Theorem C16_capacity_is_least_multiple : forall size inc,
  0 < inc ->
  size <= Base.capacity size inc < size + inc /\ Base.capacity size inc mod inc = 0 /\
  forall c, size <= c -> c mod inc = 0 -> Base.capacity size inc <= c.
Proof. exact capacity_is_least_multiple. Qed.
Print Assumptions C16_code_capacity.
Print Assumptions C16_capacity_is_least_multiple.
