(** C16 - Type registry: stable bijection, dense ids.  Statements only; proofs in
    Proofs/ResReg.v.  (The clause "all ids are usable" is the layout invariant of the
    storage proof, Proofs/WorldInv.v; the reflection-based [isRelation] is tied to the
    source by the correspondence run over eight type shapes, see DESIGN.md.) *)
From Arche Require Import Model.Base Model.Pool Model.World Model.Ops Proofs.ResReg.

Theorem C16_register : forall w key isrel zs,
  reg_wf w ->
  match step w (ORegister key isrel zs) with
  | (w', Ok (VNat id), _) =>
      reg_wf w' /\ (exists c, w_reg w' !! id = Some c /\ ci_key c = key) /\
      (forall j c, w_reg w !! j = Some c -> w_reg w' !! j = Some c) /\
      ((exists c, w_reg w !! id = Some c /\ ci_key c = key /\ w_reg w' = w_reg w) \/
       (id = length (w_reg w) /\ key ∉ map ci_key (w_reg w) /\ w_reg w' = w_reg w ++ [mkCI key isrel zs]))
  | (w', Panic, _) => w' = w /\ key ∉ map ci_key (w_reg w) /\ (length (w_reg w) = w_tb w \/ is_locked w = true)
  | _ => False
  end.
Proof. exact registry_register. Qed.

Theorem C16_injective : forall w i j ci cj,
  reg_wf w -> w_reg w !! i = Some ci -> w_reg w !! j = Some cj -> ci_key ci = ci_key cj -> i = j.
Proof. exact registry_injective. Qed.

Theorem C16_stable : forall w o,
  (forall k r z, o <> ORegister k r z) -> w_reg (fst (fst (step w o))) = w_reg w.
Proof. exact registry_stable. Qed.

Print Assumptions C16_register.
Print Assumptions C16_stable.
