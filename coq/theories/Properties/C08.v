(** C08 - Batch operations equal the same single-entity operations one by one.
    Proved on the model for Batch.Add / Remove / Exchange and Relations.ExchangeBatch with an
    uncached filter, on every world the refinement relation [R] covers (any registry,
    relation tables, retired tables, registered filters): the call refines the abstract store
    with the single-entity exchange [a_exchange] applied to EXACTLY the entities that matched
    the filter when the call was made (each once), the returned count is their number, all
    other entities are untouched, and the storage / graph / cache invariants hold afterwards
    ([C08_batch_exchange]); the abstract state is the one reached by applying the
    single-entity update to those entities one by one in any order ([C08_equals_singles]).
    The building block is [C08_move_all]: moving a whole table is the single move of each of
    its rows.  The same for Batch.SetRelation / Relations.SetBatch ([C08_batch_set_relation]:
    every matching entity gets the new target, mask / relation / values stay; entities whose
    table already has the target are counted but not moved).  RemoveEntities, batch
    creation, the Q variants and cached filters as arguments: correspondence run against the
    model (whose batch paths share [move_all] / [copy_cells] with the proved ones). *)
From Arche Require Import Model.Base Model.Filter Model.World Model.Ops Proofs.Misc Proofs.StepFrame
  Proofs.Store Proofs.WorldInv Proofs.RelGraph Proofs.RelWorld Proofs.RelRefine Proofs.QueryExact Proofs.CacheInv
  Proofs.BatchMove Proofs.BatchExchange Proofs.BatchSetRel.

Theorem C08_count : forall w a add rem rel w' n evs,
  op_batch_exchange w a add rem rel = (w', Ok (VNat n), evs) -> (add <> [] \/ rem <> []) ->
  exists tids, arg_tables w a = Some tids /\ n = total_len w tids.
Proof. exact batch_exchange_count. Qed.

Theorem C08_frame : forall w o, touches_rr o = false -> frame_rr w (fst (fst (step w o))).
Proof. exact step_frame_rr. Qed.


Theorem C08_batch_exchange : forall w A f add rem rel w' n evs,
  R w A -> cache_ok w -> Forall (fun id => id < length (as_reg A)) add -> (add <> [] \/ rem <> []) ->
  op_batch_exchange w (FPlain f) add rem rel = (w', Ok (VNat n), evs) ->
  let L := table_ents w (get_tables w f) in
  n = length L /\ NoDup L /\ (forall e, e ∈ L <-> (e ∈ as_live A /\ ent_matches w f e)) /\
  R w' (a_map A L (fun a => a_exchange (as_reg A) a add rem rel)) /\ cache_ok w'.
Proof. exact batch_exchange_refines. Qed.

Theorem C08_equals_singles : forall (A : astate) (L : list Entity) g e,
  NoDup L ->
  assoc_get e (as_ents (a_map A L g)) = assoc_get e (as_ents (foldl (fun A e0 => a_upd A e0 g) A L)).
Proof. exact batch_equals_singles. Qed.

(** One table of the batch: the single-entity effect on each of its entities ([xviews] is the
    conclusion of the single-entity theorem [C05_exchange_with_relation]), nothing else changes. *)
Theorem C08_one_table : forall w live src st add rem rel w' sg,
  world_okr w live -> cache_ok w -> w_tables w !! src = Some st -> t_ents st <> [] ->
  Forall (fun id => id < length (w_reg w)) add -> (add <> [] \/ rem <> []) ->
  exchange_table w src add rem rel = Some (w', sg) ->
  world_okr w' live /\ cache_ok w' /\
  (forall e, e ∈ live -> e ∉ t_ents st -> ent_cells w' e = ent_cells w e) /\
  (forall e, e ∈ t_ents st -> exists sn mask, w_nodes w !! t_node st = Some sn /\
      exchange_mask (n_mask sn) add rem = Some mask /\ ent_mask w' e = Some mask /\
      forall id, id < w_tb w -> bit mask id = true ->
        comp_val w' e id = if bit (n_mask sn) id then comp_val w e id else Some 0%Z).
Proof.
  intros w live src st add rem rel w' sg K C Hst Hne Hreg Hn H.
  destruct (exchange_table_rok w live src st add rem rel w' sg K C Hst Hne Hreg Hn H)
    as (sn & mask & target & dst & newrel & Hsn & Hmask & _ & _ & _ & _ & _ & K' & C' & _ & _ & _ & _ & Hoth & Hmoved & _).
  split; [done|]. split; [done|]. split; [done|]. intros e He. exists sn, mask.
  destruct (Hmoved e He) as (Hm & _ & _ & Hv). done.
Qed.

Example C08_nonvacuous :
  let w := run (world_init 2 2 64) demo_batch_ops in
  fst (step w (OBatchExchange false (FPlain (FAll 1)) [2] [] None)) =
    (fst (fst (step w (OBatchExchange false (FPlain (FAll 1)) [2] [] None))), Ok (VNat 3)) /\
  table_ents w (get_tables w (FAll 1)) = [mkE 1 0; mkE 2 0; mkE 3 0].
Proof. exact demo_batch. Qed.

Theorem C08_batch_set_relation : forall w A f rid T w' n evs,
  R w A -> cache_ok w ->
  op_batch_set_relation w (FPlain f) rid T = (w', Ok (VNat n), evs) ->
  let L := table_ents w (get_tables w f) in
  n = length L /\ NoDup L /\ (forall e, e ∈ L <-> (e ∈ as_live A /\ ent_matches w f e)) /\
  R w' (a_map A L (fun a => mkA (a_mask a) T (a_vals a))) /\ cache_ok w'.
Proof. exact batch_set_relation_refines. Qed.

Print Assumptions C08_count.
Print Assumptions C08_batch_set_relation.
Print Assumptions C08_batch_exchange.
Print Assumptions C08_equals_singles.

(** ** Batch creation.  [World.createEntities] (n handles from the pool, one AllocN, one index
    pass) yields literally the world and the handles of n calls of [World.createEntity];
    Builder.NewBatch refines n abstract creations through the same builder, in every world
    that refines an abstract store; [ilen] (target bits as long as the entity index) holds
    in every world reachable by ANY operations. *)
From Arche Require Import Model.Pool Proofs.PoolInv Proofs.IlenInv Proofs.BatchCreate.
Theorem C08_create_entities_is_iterated_create_entity : forall w tid n t nd live issued frees,
  w_tables w !! tid = Some t -> w_nodes w !! t_node t = Some nd -> 0 < node_capinc w nd ->
  pool_inv (w_pool w) live issued frees ->
  length (w_index w) = length (p_ents (w_pool w)) -> length (w_tbits w) = length (w_index w) ->
  create_entities w tid (S n) =
  (let '(w1, e) := create_entity w tid in
   let '(w2, es) := create_entities w1 tid n in (w2, e :: es)).
Proof. exact create_entities_cons. Qed.
Theorem C08_batch_new_equals_singles : forall w A count b target w' es evs,
  R w A -> cache_ok w -> ilen w -> ids_reg A (b_ids b) -> b_vals b = None ->
  op_new_batch w count b target = (w', Ok (VEnts es), evs) ->
  Z.of_nat (length es) = count /\ NoDup es /\ (forall e, e ∈ es -> e ∉ as_issued A) /\
  R w' (foldl (fun A e => astep A (OBNew b target) (Ok (VEnt e))) A es) /\ cache_ok w' /\ ilen w'.
Proof. exact batch_new_equals_singles. Qed.
Theorem C08_ilen_every_history : forall capinc relcapinc tb ops, ilen (run (world_init capinc relcapinc tb) ops).
Proof. exact ilen_reachable. Qed.
Print Assumptions C08_batch_new_equals_singles.
Print Assumptions C08_create_entities_is_iterated_create_entity.
Print Assumptions C08_ilen_every_history.

(** ** Batch.RemoveEntities.  Removing all matching entities in one call refines the single
    removals of exactly those entities (tables that had one of them as relation target are
    cleaned up; children that survive become orphans, as with single removals); the count
    is their number.  Generations below the last one (finding K1). *)
From Arche Require Import Proofs.BatchRemove.
Theorem C08_batch_remove_equals_singles : forall w A f w' n evs,
  R w A -> cache_ok w ->
  (forall e, e ∈ table_ents w (get_tables w f) -> (egen e < gen_max)%N) ->
  op_remove_entities w (FPlain f) = (w', Ok (VNat n), evs) ->
  let L := table_ents w (get_tables w f) in
  n = length L /\ NoDup L /\ (forall e, e ∈ L <-> (e ∈ as_live A /\ ent_matches w f e)) /\
  R w' (foldl (fun A e => astep A (ORemoveEntity e) (Ok VUnit)) A L) /\ cache_ok w'.
Proof. exact batch_remove_refines. Qed.

(** ** The ...Q variants: the returned query enumerates exactly the entities the batch call
    changed (Batch.AddQ / RemoveQ / ExchangeQ, Relations.ExchangeBatchQ) resp. created
    (Builder.NewBatchQ), in processing order; the world is that of the plain variant plus
    one lock bit and the query. *)
From Arche Require Import Proofs.Cursor Proofs.BatchQ.
Theorem C08_batch_exchange_q : forall w A f add rem rel w2 h evs,
  R w A -> cache_ok w -> Forall (fun id => id < length (as_reg A)) add -> (add <> [] \/ rem <> []) ->
  op_batch_exchange_q w (FPlain f) add rem rel = (w2, Ok (VNat h), evs) ->
  exists w' n evs' q,
    op_batch_exchange w (FPlain f) add rem rel = (w', Ok (VNat n), evs') /\
    w_queries w2 = w_queries w' ++ [q] /\ h = length (w_queries w') /\ w_tables w2 = w_tables w' /\
    w_index w2 = w_index w' /\ w_pool w2 = w_pool w' /\ w_nodes w2 = w_nodes w' /\
    q_closed q = false /\
    omap (pos_ent w2) (enum (q_segs q)) = table_ents w (get_tables w f) /\
    length (enum (q_segs q)) = n.
Proof. exact batch_exchange_q_visits. Qed.
Theorem C08_new_batch_q : forall w A count b target w2 h evs,
  R w A -> ids_reg A (b_ids b) ->
  op_new_batch_q w count b target = (w2, Ok (VNat h), evs) ->
  exists w' es evs' q,
    op_new_batch w count b target = (w', Ok (VEnts es), evs') /\
    w_queries w2 = w_queries w' ++ [q] /\ h = length (w_queries w') /\ w_tables w2 = w_tables w' /\
    w_index w2 = w_index w' /\ w_pool w2 = w_pool w' /\ w_nodes w2 = w_nodes w' /\
    q_closed q = false /\
    omap (pos_ent w2) (enum (q_segs q)) = es.
Proof. exact batch_new_q_visits. Qed.
Print Assumptions C08_batch_remove_equals_singles.
Print Assumptions C08_batch_exchange_q.
Print Assumptions C08_new_batch_q.

Theorem C08_set_relation_q : forall w A f rid T w2 h evs,
  R w A -> cache_ok w ->
  op_batch_set_relation_q w (FPlain f) rid T = (w2, Ok (VNat h), evs) ->
  exists w' n evs' q,
    op_batch_set_relation w (FPlain f) rid T = (w', Ok (VNat n), evs') /\
    w_queries w2 = w_queries w' ++ [q] /\ h = length (w_queries w') /\ w_tables w2 = w_tables w' /\
    w_index w2 = w_index w' /\ w_pool w2 = w_pool w' /\ w_nodes w2 = w_nodes w' /\
    q_closed q = false /\
    omap (pos_ent w2) (enum (q_segs q)) = table_ents w (retargeted T w (get_tables w f)).
Proof. exact batch_set_relation_q_visits. Qed.
Print Assumptions C08_set_relation_q.

(** ** Registered filters as batch arguments, and batch operations at history level.

    A registered filter hands the batch its cached table list, whose ORDER (creation / re-use
    order) differs from the graph order an unregistered filter is evaluated in.  The batch
    call through the registered filter nevertheless refines the abstract store with the same
    update applied to the same entities as the call through the unregistered filter
    ([C08_batch_exchange_cached], [C08_batch_set_relation_cached]; RemoveEntities:
    [C08_batch_remove_cached]). *)
From Arche Require Import Proofs.BatchCached Proofs.BatchHist Proofs.IlenInv Proofs.BatchRemove.
Theorem C08_batch_exchange_cached : forall w A id ce add rem rel w' n evs,
  R w A -> cache_ok w -> cache_get w id = Some ce ->
  Forall (fun id => id < length (as_reg A)) add -> (add <> [] \/ rem <> []) ->
  op_batch_exchange w (FCached id) add rem rel = (w', Ok (VNat n), evs) ->
  let L := table_ents w (World.get_tables w (c_filter ce)) in
  n = length L /\ (forall e, e ∈ L <-> (e ∈ as_live A /\ ent_matches w (c_filter ce) e)) /\
  R w' (a_map A L (fun a => a_exchange (as_reg A) a add rem rel)) /\ cache_ok w'.
Proof. exact batch_exchange_cached. Qed.

Theorem C08_batch_set_relation_cached : forall w A id ce rid T w' n evs,
  R w A -> cache_ok w -> cache_get w id = Some ce ->
  op_batch_set_relation w (FCached id) rid T = (w', Ok (VNat n), evs) ->
  let L := table_ents w (World.get_tables w (c_filter ce)) in
  n = length L /\ (forall e, e ∈ L <-> (e ∈ as_live A /\ ent_matches w (c_filter ce) e)) /\
  R w' (a_map A L (fun a => mkA (a_mask a) T (a_vals a))) /\ cache_ok w'.
Proof. exact batch_set_relation_cached. Qed.

Theorem C08_batch_remove_cached : forall w A id ce w' n evs,
  R w A -> cache_ok w -> cache_get w id = Some ce ->
  (forall e, e ∈ table_ents w (c_tables ce) -> (egen e < gen_max)%N) ->
  op_remove_entities w (FCached id) = (w', Ok (VNat n), evs) ->
  let L := table_ents w (c_tables ce) in
  n = length L /\ NoDup L /\ (forall e, e ∈ L <-> (e ∈ as_live A /\ ent_matches w (c_filter ce) e)) /\
  R w' (a_remove_all A L) /\ cache_ok w'.
Proof. exact batch_remove_cached. Qed.

Example C08_cached_order_differs :
  let w := run (world_init 2 2 64) demo_cached_ops in
  map c_tables (w_cache w) = [[2; 3; 4]] /\ World.get_tables w (FAll 1) = [2; 4; 3] /\
  table_ents w [2; 3; 4] = [mkE 3 0; mkE 4 0; mkE 5 0] /\
  snd (fst (step w (OBatchExchange false (FCached 0) [] [0] None))) = Ok (VNat 3) /\
  snd (fst (step w (OBatchRemove (FCached 0)))) = Ok (VNat 3).
Proof. exact demo_cached. Qed.

(** Every history of the single-entity core, Reset, filter (un)registration AND the batch
    operations (exchange family, SetRelation, RemoveEntities, NewBatch; unregistered or
    registered filter arguments) that return normally, and creation with component values
    (NewEntityWith, Builder.New / NewBatch of value builders), keeps the refinement relation to the
    abstract store, in which a batch call is the single-entity update applied to exactly the
    entities the filter selects IN THE ABSTRACT STORE ([a_sel], characterised by
    [C08_abstract_selection]). *)
Theorem C08_abstract_selection : forall w A f, R w A ->
  forall e, e ∈ a_sel A f <-> (e ∈ as_live A /\ ent_matches w f e).
Proof. exact a_sel_exact. Qed.

(** Builder.NewBatch of a VALUE builder: NewBatch of the ids, then one Set per given value and
    created entity (worlds: by definition, [C08_new_batch_with_split]; abstract stores:
    [C08_batch_new_with]). *)
From Arche Require Import Proofs.CreateWith Proofs.BatchCreateWith.
Theorem C08_new_batch_with_split : forall w count b target,
  new_entities_nn w count b target =
  match new_entities_nn w count (b_novals b) target with
  | Some (w3, tid, start, es) => Some (foldl (fun w e => set_comps w e (b_comps b)) w3 es, tid, start, es)
  | None => None
  end.
Proof. exact new_entities_nn_split. Qed.

Theorem C08_batch_new_with : forall w A count b target w' es evs,
  R w A -> cache_ok w -> ilen w -> ids_reg A (b_ids b) ->
  op_new_batch w count b target = (w', Ok (VEnts es), evs) ->
  let a0 := mkA (new_mask (b_ids b)) (default ezero target) [] in
  Z.of_nat (length es) = count /\ NoDup es /\ (forall e, e ∈ es -> e ∉ as_issued A) /\
  R w' (a_sets_all (a_add_all A es a0) es (b_comps b)) /\ cache_ok w' /\ ilen w'.
Proof. exact batch_new_with_refines. Qed.
Print Assumptions C08_batch_new_with.

Theorem C08_batch_step : forall w A o,
  inv3 w A -> op_pre4 w A o -> inv3 (fst (fst (step w o))) (astep_b w A o (snd (fst (step w o)))).
Proof. exact batch_step. Qed.

Theorem C08_every_history_with_batches : forall ops w A,
  inv3 w A -> pre_run4 w A ops -> inv3 (run w ops) (arun4 w A ops).
Proof. exact batch_history. Qed.

Example C08_history_with_values_nonvacuous :
  pre_run4 (world_init 2 2 64) a_init demo_bh_vals_ops /\
  inv3 (run (world_init 2 2 64) demo_bh_vals_ops) (arun4 (world_init 2 2 64) a_init demo_bh_vals_ops) /\
  let A := arun4 (world_init 2 2 64) a_init demo_bh_vals_ops in
  option_map (fun a => aval a 0) (assoc_get (mkE 6 0) (as_ents A)) = Some 5%Z /\
  option_map (fun a => aval a 2) (assoc_get (mkE 6 0) (as_ents A)) = Some 7%Z /\
  option_map (fun a => aval a 0) (assoc_get (mkE 8 0) (as_ents A)) = Some 9%Z /\
  option_map (fun a => aval a 2) (assoc_get (mkE 8 0) (as_ents A)) = Some 4%Z /\
  option_map (fun a => aval a 0) (assoc_get (mkE 9 0) (as_ents A)) = Some 3%Z /\
  option_map a_target (assoc_get (mkE 9 0) (as_ents A)) = Some (mkE 1 0).
Proof. split; [exact demo_bh_vals_pre|]. split; [exact demo_bh_vals_refines|exact demo_bh_vals_result]. Qed.

Example C08_history_nonvacuous :
  pre_run4 (world_init 2 2 64) a_init demo_bh_ops /\
  inv3 (run (world_init 2 2 64) demo_bh_ops) (arun4 (world_init 2 2 64) a_init demo_bh_ops) /\
  let A := arun4 (world_init 2 2 64) a_init demo_bh_ops in
  as_live A = [mkE 5 0; mkE 4 0; mkE 3 0; mkE 2 0; mkE 1 0] /\
  assoc_get (mkE 3 0) (as_ents A) = Some (mkA 2 (mkE 2 0) []) /\
  assoc_get (mkE 5 0) (as_ents A) = Some (mkA 2 (mkE 2 0) []) /\
  assoc_get (mkE 4 0) (as_ents A) = Some (mkA 4 ezero []) /\
  length (as_issued A) = 8.
Proof. split; [exact demo_bh_pre|]. split; [exact demo_bh_refines|exact demo_bh_result]. Qed.

Print Assumptions C08_batch_exchange_cached.
Print Assumptions C08_batch_set_relation_cached.
Print Assumptions C08_batch_remove_cached.
Print Assumptions C08_abstract_selection.
Print Assumptions C08_batch_step.
Print Assumptions C08_every_history_with_batches.

(** ** A Q variant followed by Close is the plain variant.  Batch.AddQ / RemoveQ / ExchangeQ
    (Relations.ExchangeBatchQ) and Batch.SetRelationQ do the batch, lock the world and return
    a query; closing it releases the lock and emits the batch's events.  After the Close the
    world has the tables, index, pool and nodes of the plain call, is unlocked again, refines
    the same abstract store, keeps the cache invariant; the Q call itself emits no event and
    the Close emits exactly the events of the plain call. *)
From Arche Require Import Proofs.BatchQClose.
Theorem C08_exchange_q_then_close : forall w A f add rem rel w2 h evs2,
  R w A -> cache_ok w -> Forall (fun id => id < length (as_reg A)) add -> (add <> [] \/ rem <> []) ->
  step w (OBatchExchange true (FPlain f) add rem rel) = (w2, Ok (VNat h), evs2) ->
  exists w' n evs' w3,
    step w (OBatchExchange false (FPlain f) add rem rel) = (w', Ok (VNat n), evs') /\
    evs2 = [] /\ step w2 (OQClose h) = (w3, Ok VUnit, evs') /\
    R w3 (a_map A (table_ents w (World.get_tables w f)) (fun a => a_exchange (as_reg A) a add rem rel)) /\ cache_ok w3 /\
    w_tables w3 = w_tables w' /\ w_index w3 = w_index w' /\ w_pool w3 = w_pool w' /\ w_nodes w3 = w_nodes w' /\
    is_locked w3 = false.
Proof. exact exchange_q_then_close. Qed.

Theorem C08_set_relation_q_then_close : forall w A f rid T w2 h evs2,
  R w A -> cache_ok w ->
  step w (OBatchSetRel true (FPlain f) rid T) = (w2, Ok (VNat h), evs2) ->
  exists w' n evs' w3,
    step w (OBatchSetRel false (FPlain f) rid T) = (w', Ok (VNat n), evs') /\
    evs2 = [] /\ step w2 (OQClose h) = (w3, Ok VUnit, evs') /\
    R w3 (a_map A (table_ents w (World.get_tables w f)) (fun a => mkA (a_mask a) T (a_vals a))) /\ cache_ok w3 /\
    w_tables w3 = w_tables w' /\ w_index w3 = w_index w' /\ w_pool w3 = w_pool w' /\ w_nodes w3 = w_nodes w' /\
    is_locked w3 = false.
Proof. exact set_relation_q_then_close. Qed.

Example C08_q_then_close_nonvacuous :
  let w := run (world_init 2 2 64) (demo_batch_ops ++ [OSetListener (Some (LCallback (mkL 63 None)))]) in
  let rq := step w (OBatchExchange true (FPlain (FAll 1)) [2] [] None) in
  let rc := step (fst (fst rq)) (OQClose 0) in
  let rp := step w (OBatchExchange false (FPlain (FAll 1)) [2] [] None) in
  snd (fst rq) = Ok (VNat 0) /\ snd rq = [] /\ snd (fst rc) = Ok VUnit /\
  snd rc = snd rp /\ length (snd rp) = 3 /\
  w_tables (fst (fst rc)) = w_tables (fst (fst rp)) /\ w_index (fst (fst rc)) = w_index (fst (fst rp)) /\
  is_locked (fst (fst rq)) = true /\ is_locked (fst (fst rc)) = false.
Proof. exact demo_q_close. Qed.
Print Assumptions C08_exchange_q_then_close.
Print Assumptions C08_set_relation_q_then_close.

(** Builder.NewBatchQ followed by Close is Builder.NewBatch: no event at the call, locked until
    the Close; afterwards tables, index, pool and graph of the plain NewBatch, unlocked, the same
    abstract store (each new entity added with the builder's mask and target), cache invariant.
    Events of the Close against the events of the plain call: none on either side without a
    listener; with one, compared on the example below and by the correspondence run. *)
From Arche Require Import Proofs.BatchCreate Proofs.IlenInv Proofs.BatchNewQClose.
Theorem C08_new_batch_q_then_close : forall w A count b target w2 h evs2,
  R w A -> cache_ok w -> ilen w -> ids_reg A (b_ids b) -> b_vals b = None ->
  op_new_batch_q w count b target = (w2, Ok (VNat h), evs2) ->
  exists w' es evs' w3 evs3,
    op_new_batch w count b target = (w', Ok (VEnts es), evs') /\
    evs2 = [] /\ is_locked w2 = true /\ step w2 (OQClose h) = (w3, Ok VUnit, evs3) /\
    Z.of_nat (length es) = count /\ NoDup es /\ (forall e, e ∈ es -> e ∉ as_issued A) /\
    R w3 (a_add_all A es (mkA (new_mask (b_ids b)) (default ezero target) [])) /\ cache_ok w3 /\
    w_tables w3 = w_tables w' /\ w_index w3 = w_index w' /\ w_pool w3 = w_pool w' /\ w_nodes w3 = w_nodes w' /\
    is_locked w3 = false /\
    (w_listener w' = None -> evs3 = [] /\ evs' = []).
Proof. exact new_batch_q_then_close. Qed.
Example C08_new_batch_q_then_close_nonvacuous :
  let w := run demo_bc_world [OSetListener (Some (LCallback (mkL 63 None)))] in
  let rq := step w (OBBatchQ (mkB [0; 1] None (Some 1)) 3%Z (Some (mkE 1 0))) in
  let rc := step (fst (fst rq)) (OQClose 0) in
  let rp := step w (OBBatch (mkB [0; 1] None (Some 1)) 3%Z (Some (mkE 1 0))) in
  snd (fst rq) = Ok (VNat 0) /\ snd rq = [] /\ snd (fst rc) = Ok VUnit /\
  length (snd rc) = 3 /\ length (snd rp) = 3 /\ map (fun e => (ev_ent e, ev_added e, ev_removed e, ev_newrel e, ev_types e, ev_to e)) (snd rc) = map (fun e => (ev_ent e, ev_added e, ev_removed e, ev_newrel e, ev_types e, ev_to e)) (snd rp) /\
  w_tables (fst (fst rc)) = w_tables (fst (fst rp)) /\ w_index (fst (fst rc)) = w_index (fst (fst rp)) /\
  w_pool (fst (fst rc)) = w_pool (fst (fst rp)) /\
  is_locked (fst (fst rq)) = true /\ is_locked (fst (fst rc)) = false.
Proof. exact demo_new_q_close. Qed.
Print Assumptions C08_new_batch_q_then_close.

(** The events of that Close are the events of the plain NewBatch (entities, order, recipients,
    masks, relation, event types, lock flag), with AddedIDs = the node's ascending id list. *)
From Arche Require Import Proofs.BatchNewQEvents.
Theorem C08_new_batch_q_close_events : forall w A count b target w2 h evs2 w' es evs',
  R w A -> ids_reg A (b_ids b) ->
  op_new_batch_q w count b target = (w2, Ok (VNat h), evs2) ->
  op_new_batch w count b target = (w', Ok (VEnts es), evs') ->
  exists w3 evs3, step w2 (OQClose h) = (w3, Ok VUnit, evs3) /\
    evs3 = map (ev_set_added_ids (mask_ids (w_tb w) (new_mask (b_ids b)))) evs'.
Proof. exact new_batch_q_close_events. Qed.
Example C08_new_batch_q_close_events_nonvacuous :
  let w := run demo_bc_world [OSetListener (Some (LCallback (mkL 63 None)))] in
  let rq := step w (OBBatchQ (mkB [1; 0] None (Some 1)) 3%Z (Some (mkE 1 0))) in
  let rc := step (fst (fst rq)) (OQClose 0) in
  let rp := step w (OBBatch (mkB [1; 0] None (Some 1)) 3%Z (Some (mkE 1 0))) in
  snd rc = map (ev_set_added_ids [0; 1]) (snd rp) /\ length (snd rp) = 3 /\
  map ev_added_ids (snd rp) = [[1; 0]; [1; 0]; [1; 0]] /\ map ev_added_ids (snd rc) = [[0; 1]; [0; 1]; [0; 1]].
Proof. exact demo_new_q_close_events. Qed.
Print Assumptions C08_new_batch_q_close_events.
