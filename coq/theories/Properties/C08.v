(** C08 - Batch operations equal the same single-entity operations one by one (level:
    partial).  Proved on the model: a batch exchange returns the number of entities in the
    tables the filter selects at call time, and it touches only the store (the same frame as
    the single operation).  The per-entity equality of the resulting states is decided by
    the correspondence run against the model, whose batch moves use the same cell copy
    ([copy_cells], Proofs/Store.v) as the single move. *)
From Arche Require Import Model.Base Model.Filter Model.World Model.Ops Proofs.Misc Proofs.StepFrame.

Theorem C08_count : forall w a add rem rel w' n evs,
  op_batch_exchange w a add rem rel = (w', Ok (VNat n), evs) -> (add <> [] \/ rem <> []) ->
  exists tids, arg_tables w a = Some tids /\ n = total_len w tids.
Proof. exact batch_exchange_count. Qed.

Theorem C08_frame : forall w o, touches_rr o = false -> frame_rr w (fst (fst (step w o))).
Proof. exact step_frame_rr. Qed.

Print Assumptions C08_count.
