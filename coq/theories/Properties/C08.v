(** C08 - Batch operations equal the same single-entity operations one by one.
    Proved on the model for Batch.Add / Remove / Exchange and Relations.ExchangeBatch with an
    uncached filter, on every world the refinement relation [R] covers (any registry,
    relation tables, retired tables, registered filters): the call refines the abstract store
    with the single-entity exchange [a_exchange] applied to EXACTLY the entities that matched
    the filter when the call was made (each once), the returned count is their number, all
    other entities are untouched, and the storage / graph / cache invariants hold afterwards
    ([C08_batch_exchange]); the abstract state is the one reached by applying the
    single-entity update to those entities one by one in any order ([C08_equals_singles]).
    The building block is [C08_move_all]: moving a whole table is the single move of each of
    its rows.  The same for Batch.SetRelation / Relations.SetBatch ([C08_batch_set_relation]:
    every matching entity gets the new target, mask / relation / values stay; entities whose
    table already has the target are counted but not moved).  RemoveEntities, batch
    creation, the Q variants and cached filters as arguments: correspondence run against the
    model (whose batch paths share [move_all] / [copy_cells] with the proved ones). *)
From Arche Require Import Model.Base Model.Filter Model.World Model.Ops Proofs.Misc Proofs.StepFrame
  Proofs.Store Proofs.WorldInv Proofs.RelGraph Proofs.RelWorld Proofs.RelRefine Proofs.QueryExact Proofs.CacheInv
  Proofs.BatchMove Proofs.BatchExchange Proofs.BatchSetRel.

Theorem C08_count : forall w a add rem rel w' n evs,
  op_batch_exchange w a add rem rel = (w', Ok (VNat n), evs) -> (add <> [] \/ rem <> []) ->
  exists tids, arg_tables w a = Some tids /\ n = total_len w tids.
Proof. exact batch_exchange_count. Qed.

Theorem C08_frame : forall w o, touches_rr o = false -> frame_rr w (fst (fst (step w o))).
Proof. exact step_frame_rr. Qed.


Theorem C08_batch_exchange : forall w A f add rem rel w' n evs,
  R w A -> cache_ok w -> Forall (fun id => id < length (as_reg A)) add -> (add <> [] \/ rem <> []) ->
  op_batch_exchange w (FPlain f) add rem rel = (w', Ok (VNat n), evs) ->
  let L := table_ents w (get_tables w f) in
  n = length L /\ NoDup L /\ (forall e, e ∈ L <-> (e ∈ as_live A /\ ent_matches w f e)) /\
  R w' (a_map A L (fun a => a_exchange (as_reg A) a add rem rel)) /\ cache_ok w'.
Proof. exact batch_exchange_refines. Qed.

Theorem C08_equals_singles : forall (A : astate) (L : list Entity) g e,
  NoDup L ->
  assoc_get e (as_ents (a_map A L g)) = assoc_get e (as_ents (foldl (fun A e0 => a_upd A e0 g) A L)).
Proof. exact batch_equals_singles. Qed.

(** One table of the batch: the single-entity effect on each of its entities ([xviews] is the
    conclusion of the single-entity theorem [C05_exchange_with_relation]), nothing else changes. *)
Theorem C08_one_table : forall w live src st add rem rel w' sg,
  world_okr w live -> cache_ok w -> w_tables w !! src = Some st -> t_ents st <> [] ->
  Forall (fun id => id < length (w_reg w)) add -> (add <> [] \/ rem <> []) ->
  exchange_table w src add rem rel = Some (w', sg) ->
  world_okr w' live /\ cache_ok w' /\
  (forall e, e ∈ live -> e ∉ t_ents st -> ent_cells w' e = ent_cells w e) /\
  (forall e, e ∈ t_ents st -> exists sn mask, w_nodes w !! t_node st = Some sn /\
      exchange_mask (n_mask sn) add rem = Some mask /\ ent_mask w' e = Some mask /\
      forall id, id < w_tb w -> bit mask id = true ->
        comp_val w' e id = if bit (n_mask sn) id then comp_val w e id else Some 0%Z).
Proof.
  intros w live src st add rem rel w' sg K C Hst Hne Hreg Hn H.
  destruct (exchange_table_rok w live src st add rem rel w' sg K C Hst Hne Hreg Hn H)
    as (sn & mask & target & dst & newrel & Hsn & Hmask & _ & _ & _ & _ & _ & K' & C' & _ & _ & _ & _ & Hoth & Hmoved & _).
  split; [done|]. split; [done|]. split; [done|]. intros e He. exists sn, mask.
  destruct (Hmoved e He) as (Hm & _ & _ & Hv). done.
Qed.

Example C08_nonvacuous :
  let w := run (world_init 2 2 64) demo_batch_ops in
  fst (step w (OBatchExchange false (FPlain (FAll 1)) [2] [] None)) =
    (fst (fst (step w (OBatchExchange false (FPlain (FAll 1)) [2] [] None))), Ok (VNat 3)) /\
  table_ents w (get_tables w (FAll 1)) = [mkE 1 0; mkE 2 0; mkE 3 0].
Proof. exact demo_batch. Qed.

Theorem C08_batch_set_relation : forall w A f rid T w' n evs,
  R w A -> cache_ok w ->
  op_batch_set_relation w (FPlain f) rid T = (w', Ok (VNat n), evs) ->
  let L := table_ents w (get_tables w f) in
  n = length L /\ NoDup L /\ (forall e, e ∈ L <-> (e ∈ as_live A /\ ent_matches w f e)) /\
  R w' (a_map A L (fun a => mkA (a_mask a) T (a_vals a))) /\ cache_ok w'.
Proof. exact batch_set_relation_refines. Qed.

Print Assumptions C08_count.
Print Assumptions C08_batch_set_relation.
Print Assumptions C08_batch_exchange.
Print Assumptions C08_equals_singles.
