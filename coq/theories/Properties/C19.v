(** C19 - Worlds are isolated.  Formal content (level: partial):
    (a) in the product model (a list of worlds) an operation on world [i] leaves every
        other world untouched, so any interleaving of histories on distinct worlds gives
        each world its solo run;
    (b) the current source has no package-level variable that is ever written outside
        its declaration (fact table regenerated from /repo on every run), which is what
        justifies modelling a world as a value without shared state.
    Data races and cross-goroutine visibility are runtime behaviour: they are observed
    by the race detector in the correspondence run, not by this theorem. *)
From Coq Require Import String.
From Arche Require Import Model.Base Model.World Model.Ops Gen.PkgFacts.
From stdpp Require Import list.

Definition never_written (v : string * string * nat) : bool := Nat.eqb (snd v) 0.

Theorem C19_pkg_vars_never_written : forallb never_written pkg_vars = true.
Proof. vm_compute. reflexivity. Qed.

(** A system of worlds; an operation addresses one of them. *)
Definition sys_step (ws : list world) (i : nat) (o : op) : list world :=
  match ws !! i with
  | Some w => <[i := fst (fst (step w o))]> ws
  | None => ws
  end.

Theorem C19_frame : forall ws i j o, i <> j -> sys_step ws i o !! j = ws !! j.
Proof.
  intros ws i j o Hij. unfold sys_step. destruct (ws !! i); [|reflexivity].
  by rewrite list_lookup_insert_ne.
Qed.

(** Any interleaving: running a schedule of (world, op) pairs gives world [j] exactly
    the run of the operations addressed to [j], in order. *)
Fixpoint sys_run (ws : list world) (sched : list (nat * op)) : list world :=
  match sched with
  | [] => ws
  | (i, o) :: r => sys_run (sys_step ws i o) r
  end.

Definition ops_of (j : nat) (sched : list (nat * op)) : list op :=
  map snd (filter (fun p => fst p = j) sched).

Theorem C19_isolation : forall sched ws j w,
  ws !! j = Some w -> sys_run ws sched !! j = Some (run w (ops_of j sched)).
Proof.
  induction sched as [|[i o] r IH]; intros ws j w Hj; simpl.
  - exact Hj.
  - unfold ops_of. rewrite filter_cons. simpl. destruct (decide (i = j)) as [->|Hne].
    + simpl. apply IH. unfold sys_step. rewrite Hj. rewrite list_lookup_insert; [done|].
      by apply lookup_lt_Some in Hj.
    + apply IH. rewrite C19_frame; done.
Qed.

Print Assumptions C19_pkg_vars_never_written.
Print Assumptions C19_isolation.
