(** * C08 / C11: the events of the Close after Builder.NewBatchQ, exactly.

    [new_entities_nn_where]: Builder.NewBatch appends its entities, in creation order, to one
    table whose node carries exactly the builder's ids; a non-zero target only with a relation.
    [new_batch_q_close_events]: the events emitted by closing the query returned by NewBatchQ
    are the events of the plain NewBatch - same entities in the same order, same recipients,
    same masks, relation, event-type bits, lock flag - with AddedIDs replaced by the node's
    ascending id list (the plain call reports the builder's list as given). *)
From Arche Require Import Model.Base Model.Pool Model.Filter Model.World Model.Ops
  Proofs.Tables Proofs.Bits Proofs.Store Proofs.Graph Proofs.Atomic Proofs.WorldInv
  Proofs.Frame Proofs.StepFrame Proofs.RelGraph Proofs.RelWorld Proofs.RelRefine Proofs.QueryExact Proofs.CacheInv
  Proofs.BatchMove Proofs.BatchExchange Proofs.BatchSetRel Proofs.BatchCreate Proofs.IlenInv Proofs.BatchQ Proofs.BatchQClose
  Proofs.BatchNewQClose.

(** node and target of every table, and the graph nodes *)
Definition meta_same (w w' : world) : Prop :=
  w_nodes w' = w_nodes w /\ w_reg w' = w_reg w /\ w_tb w' = w_tb w /\
  forall tid, (fun t => (t_node t, t_target t)) <$> (w_tables w' !! tid) = (fun t => (t_node t, t_target t)) <$> (w_tables w !! tid).

Lemma meta_same_refl w : meta_same w w.
Proof. by repeat split. Qed.
Lemma meta_same_trans a b c : meta_same a b -> meta_same b c -> meta_same a c.
Proof. intros (A1 & A2 & A3 & A4) (B1 & B2 & B3 & B4). repeat split; try congruence. Qed.

Lemma meta_upd w tid t t' :
  w_tables w !! tid = Some t -> t_node t' = t_node t -> t_target t' = t_target t -> meta_same w (upd_table w tid t').
Proof.
  intros Ht Hn Hg. repeat split; try done. intros tid'. unfold upd_table. simpl.
  destruct (decide (tid' = tid)) as [->|Hne].
  - rewrite list_lookup_insert by (by apply lookup_lt_Some in Ht). rewrite Ht. simpl. by rewrite Hn, Hg.
  - by rewrite list_lookup_insert_ne.
Qed.

Lemma set_comp_meta w e id v w' : set_comp w e id v = Some w' -> meta_same w w'.
Proof.
  unfold set_comp. intros H.
  destruct (chk_alive w e) as [[]|]; try done. destruct (loc w e) as [[tid0 row]|]; [|done].
  destruct (w_tables w !! tid0) as [t|] eqn:Ht; [|done]. destruct (w_nodes w !! t_node t); [|done].
  destruct (col_of n id); [|done]. destruct (reg_is_zs w id); injection H as <-; [apply meta_same_refl|].
  by apply (meta_upd w tid0 t).
Qed.

Lemma set_comps_meta cs : forall w e, meta_same w (set_comps w e cs).
Proof.
  unfold set_comps. induction cs as [|[id v] r IH]; intros w e; simpl; [apply meta_same_refl|].
  destruct (set_comp w e id v) as [w1|] eqn:H; simpl; [|apply IH].
  eapply meta_same_trans; [by apply (set_comp_meta w e id v)|apply IH].
Qed.

Lemma create_entities_meta w tid n : meta_same w (create_entities w tid n).1.
Proof.
  unfold create_entities. destruct (w_tables w !! tid) as [t|] eqn:Ht; [|apply meta_same_refl].
  destruct (w_nodes w !! t_node t) as [nd|]; [|apply meta_same_refl].
  destruct (pool_get_n (w_pool w) n) as [p es]. unfold tbl_allocn.
  destruct (foldl _ _ _) as [idx tb]. simpl.
  repeat split; try done. intros tid'. unfold upd_table. simpl.
  destruct (decide (tid' = tid)) as [->|Hne].
  - rewrite list_lookup_insert by (by apply lookup_lt_Some in Ht). rewrite Ht. simpl.
    unfold tbl_extend. by destruct (_ <=? _).
  - by rewrite list_lookup_insert_ne.
Qed.

Lemma set_tbit_meta w e : meta_same w (set_tbit w e).
Proof. unfold set_tbit. destruct (ent_is_zero e); by repeat split. Qed.

Lemma pool_get_n_length n : forall p, length (pool_get_n p n).2 = n.
Proof.
  induction n as [|k IH]; intros p; simpl; [done|].
  destruct (pool_get p) as [p1 e]. specialize (IH p1). destruct (pool_get_n p1 k) as [p2 es]. simpl in *. by rewrite IH.
Qed.

(** Where Builder.NewBatch puts its entities: one table, appended in creation order; its
    node carries exactly the builder's ids; the table has a non-zero target only if the node
    has a relation. *)
Lemma new_entities_nn_where w count b target w4 tid start es :
  rgraph_ok w -> Forall (fun id => id < length (w_reg w)) (b_ids b) ->
  new_entities_nn w count b target = Some (w4, tid, start, es) ->
  exists t nd pre, w_tables w4 !! tid = Some t /\ w_nodes w4 !! t_node t = Some nd /\
    t_ents t = pre ++ es /\ start = length pre /\ es <> [] /\
    exmask_add 0 (b_ids b) = Some (n_mask nd) /\
    t_target t = (if node_has_rel nd then default ezero target else ezero) /\
    n_ids nd = mask_ids (w_tb w4) (n_mask nd) /\ length (w_reg w4) <= w_tb w4 /\ w_reg w4 = w_reg w.
Proof.
  intros G Hids Hn. unfold new_entities_nn in Hn.
  set (tg := default ezero target) in *.
  assert (Hbody :
    (if is_locked w then None else if (count <? 1)%Z then None else
     if negb (target_ok w tg) then None else
     match (match b_ids b with [] => Some (w, 0) | _ => find_or_create_table w 0 (b_ids b) [] tg end) with
     | None => None
     | Some (w1, tid0) =>
         if match target, b_rel b with Some _, Some rid => negb (check_relation w1 tid0 rid) | _, _ => false end then None else
         let w2 := match target with Some t => set_tbit w1 t | None => w1 end in
         let start0 := match w_tables w2 !! tid0 with Some t => tlen t | None => 0 end in
         let '(w3, es1) := create_entities w2 tid0 (Z.to_nat count) in
         Some (foldl (fun w e => set_comps w e (b_comps b)) w3 es1, tid0, start0, es1)
     end) = Some (w4, tid, start, es)).
  { destruct target as [t|]; [destruct (b_rel b); [exact Hn|done]|destruct (b_rel b); exact Hn]. }
  clear Hn. destruct (is_locked w); [done|]. destruct (count <? 1)%Z eqn:Hcnt; [done|]. apply Z.ltb_ge in Hcnt.
  destruct (negb (target_ok w tg)); [done|].
  destruct (match b_ids b with [] => Some (w, 0) | _ => find_or_create_table w 0 (b_ids b) [] tg end) as [[w1 tid0]|] eqn:Hf; [|done].
  destruct (new_table_rok w (b_ids b) tg w1 tid0 G Hids Hf) as (E & G1 & dt & dn & Hdt & Hdn & Hm & _ & Htt).
  destruct (match target, b_rel b with Some _, Some rid => negb (check_relation w1 tid0 rid) | _, _ => false end); [done|].
  set (wt := match target with Some t => set_tbit w1 t | None => w1 end) in *. cbv zeta in Hbody.
  assert (M1 : meta_same w1 wt) by (unfold wt; destruct target; [apply set_tbit_meta|apply meta_same_refl]).
  assert (Hdt2 : w_tables wt !! tid0 = Some dt /\ w_nodes wt !! t_node dt = Some dn).
  { unfold wt. destruct target as [t|]; [|done]. unfold set_tbit. by destruct (ent_is_zero t). }
  destruct Hdt2 as [Hdt2 Hdn2]. rewrite Hdt2 in Hbody.
  pose proof (create_entities_ents wt tid0 (Z.to_nat count) dt dn Hdt2 Hdn2) as Hents.
  pose proof (create_entities_meta wt tid0 (Z.to_nat count)) as M2.
  assert (Hlen : length (create_entities wt tid0 (Z.to_nat count)).2 = Z.to_nat count).
  { unfold create_entities. rewrite Hdt2, Hdn2. destruct (pool_get_n (w_pool wt) (Z.to_nat count)) as [p es0] eqn:Hp.
    unfold tbl_allocn. destruct (foldl _ _ _) as [idx tb]. simpl.
    pose proof (pool_get_n_length (Z.to_nat count) (w_pool wt)) as X. by rewrite Hp in X. }
  destruct (create_entities wt tid0 (Z.to_nat count)) as [w5 es1]. cbn [fst snd] in Hents, M2, Hlen.
  injection Hbody as <- <- <- <-.
  assert (Hfold : forall (ll : list Entity) w0, tbl_ents (foldl (fun w0 e => set_comps w0 e (b_comps b)) w0 ll) tid0 = tbl_ents w0 tid0
                                              /\ meta_same w0 (foldl (fun w0 e => set_comps w0 e (b_comps b)) w0 ll)).
  { clear. induction ll as [|e r IH]; intros w0; [split; [done|apply meta_same_refl]|]. simpl. destruct (IH (set_comps w0 e (b_comps b))) as [I1 I2].
    split; [rewrite I1; apply set_comps_ents|]. eapply meta_same_trans; [apply set_comps_meta|exact I2]. }
  destruct (Hfold es1 w5) as [Hf1 M3].
  set (wfin := foldl (fun w0 e => set_comps w0 e (b_comps b)) w5 es1) in *.
  pose proof (meta_same_trans _ _ _ M1 (meta_same_trans _ _ _ M2 M3)) as (Mn & Mr & Mtb & Mt).
  specialize (Mt tid0). rewrite Hdt in Mt. simpl in Mt.
  destruct (w_tables wfin !! tid0) as [tf|] eqn:Htf; [|done]. simpl in Mt. injection Mt as Hnf Htf'.
  exists tf, dn, (t_ents dt). split; [done|]. split; [by rewrite Mn, Hnf|].
  split. { unfold tbl_ents in Hf1, Hents. rewrite Htf in Hf1. by rewrite Hf1. }
  split; [done|]. split. { intros ->. simpl in Hlen. lia. }
  split; [exact Hm|]. split; [by rewrite Htf'|].
  split. { rewrite Mtb. apply (rg_ids _ G1 _ _ Hdn). }
  split. { rewrite Mr, Mtb. apply (rg_reglen _ G1). }
  rewrite Mr. apply (xr_reg _ _ E).
Qed.

Definition ev_set_added_ids (ids : list nat) (e : event) : event :=
  mkEv (ev_ent e) (ev_added e) (ev_removed e) ids (ev_removed_ids e) (ev_oldrel e) (ev_newrel e)
       (ev_oldtarget e) (ev_types e) (ev_locked e) (ev_to e).

Lemma contains_any_zero s : contains_any s 0 = false.
Proof. unfold contains_any. by rewrite N.land_0_r. Qed.

Lemma subscribes_removed_zero trigger added subs o n :
  subscribes trigger added (Some 0%N) subs o n = subscribes trigger added None subs o n.
Proof. unfold subscribes. destruct subs as [s|]; [|done]. by rewrite contains_any_zero. Qed.

Lemma gate_removed_zero l bits added o n : gate l bits added (Some 0%N) o n = gate l bits added None o n.
Proof. unfold gate. by rewrite subscribes_removed_zero. Qed.

Lemma recipients_removed_zero ls bits added o n a r :
  recipients ls bits added (Some 0%N) o n a r = recipients ls bits added None o n a r.
Proof. unfold recipients. by rewrite gate_removed_zero. Qed.

Lemma mask_ids_nil_iff tb ids m :
  exmask_add 0 ids = Some m -> Forall (fun id => id < tb) ids -> (mask_ids tb m = [] <-> ids = []).
Proof.
  intros Hm Hlt. apply exmask_add_fold in Hm. split.
  - intros Hnil. destruct ids as [|i r]; [done|]. exfalso.
    assert (Hin : i ∈ mask_ids tb m).
    { unfold mask_ids. apply elem_of_list_filter. split.
      - subst m. rewrite bit_fold_set. rewrite (bool_decide_eq_true_2 (i ∈ i :: r)) by (apply elem_of_cons; by left). apply orb_true_r.
      - apply elem_of_seq. apply Forall_cons in Hlt as [Hi _]. lia. }
    rewrite Hnil in Hin. by apply elem_of_nil in Hin.
  - intros ->. simpl in Hm. subst m. unfold mask_ids. induction (seq 0 tb) as [|x l IH]; [done|].
    rewrite filter_cons. rewrite bit_zero. simpl. destruct (decide (false = true)); [done|]. exact IH.
Qed.

(** The events of the Close after NewBatchQ are the events of the plain NewBatch, entity by
    entity and recipient by recipient, with AddedIDs = the node's (ascending) id list instead of
    the builder's list. *)
Theorem new_batch_q_close_events w A count b target w2 h evs2 w' es evs' :
  R w A -> ids_reg A (b_ids b) ->
  op_new_batch_q w count b target = (w2, Ok (VNat h), evs2) ->
  op_new_batch w count b target = (w', Ok (VEnts es), evs') ->
  exists w3 evs3, step w2 (OQClose h) = (w3, Ok VUnit, evs3) /\
    evs3 = map (ev_set_added_ids (mask_ids (w_tb w) (new_mask (b_ids b)))) evs'.
Proof.
  intros HR Hids H Hp. pose proof HR as [K Hr Hu He]. unfold ids_reg in Hids. rewrite Hr in Hids.
  unfold op_new_batch_q in H. unfold op_new_batch in Hp.
  destruct (new_entities_nn w count b target) as [[[[w1 tid] start] es0]|] eqn:Hn; [|done].
  destruct (open_query w1 _ _) as [[w2' h']|] eqn:Hq; [|done]. injection H as <- <- <-.
  destruct (table_mask_rel w1 tid) as [m r] eqn:Hmr. injection Hp as <- <- <-.
  pose proof (frame_new_entities_nn _ _ _ _ _ _ _ _ Hn) as F.
  assert (Hu1 : is_locked w1 = false) by (unfold is_locked in *; by rewrite (fr_locks _ _ F)).
  destruct K as [[S G] P L].
  destruct (new_entities_nn_where w count b target w1 tid start es0 G Hids Hn)
    as (t & nd & pre & Ht & Hnd & Hents & Hstart & Hne & Hm & Htt & Hnids & Hreglen & Hreg).
  destruct (open_then_close w1 _ _ w2' h' Hu1 Hq) as (l3 & q & Hl3 & Hqs & Hqb & Hh & Hclose). cbv zeta in Hclose.
  eexists _, _. split; [exact Hclose|].
  rewrite Ht, Hnd. unfold table_mask_rel in Hmr. rewrite Ht, Hnd in Hmr. injection Hmr as <- <-.
  unfold ev_batch, ev_create. cbn [w_listener w_tables w_nodes set].
  assert (Hl : is_locked (w1 <| w_locks := l3 |> <| w_queries := w_queries w1 ++ [q <| q_closed := true |>] |>) = is_locked w1).
  { unfold is_locked. simpl. rewrite Hl3. symmetry. exact Hu1. }
  rewrite Hl. clear Hl Hclose.
  destruct w1 as [wp wi wtbits wnodes wtabs wreg wlocks wcache wcn wres wresreg wlist wci wrci wtbb wq]. unfold set. simpl in *.
  destruct wlist as [l|].
  2:{ clear. induction es0 as [|e r0 IH]; [done|]. simpl. exact IH. }
  cbn [flat_map s_tid s_old s_start s_end]. rewrite app_nil_r, Ht, Hnd.
  assert (Htake : take (start + length es0 - start) (drop start (t_ents t)) = es0).
  { rewrite Hents, Hstart. rewrite drop_app_alt by done. replace (length pre + length es0 - length pre) with (length es0) by lia. apply firstn_all. }
  rewrite Htake.
  assert (Hnm : n_mask nd = new_mask (b_ids b)) by (by apply exmask_add_fold in Hm).
  assert (Htb : wtbb = w_tb w) by (pose proof (fr_tb _ _ F) as X; simpl in X; congruence).
  assert (Hidsnil : bool_decide (n_ids nd = []) = bool_decide (b_ids b = [])).
  { apply bool_decide_ext. rewrite Hnids. apply mask_ids_nil_iff; [exact Hm|].
    eapply Forall_impl; [exact Hids|]. intros id Hid. simpl. rewrite <- Hreg in Hid. lia. }
  assert (Hrel : (bool_decide (is_Some (n_rel nd)) || negb (ent_is_zero (t_target t))) = bool_decide (is_Some (n_rel nd))).
  { rewrite Htt. destruct (node_has_rel nd) eqn:Hhr.
    - apply node_has_rel_true in Hhr as [rid Hrid]. rewrite Hrid. by rewrite bool_decide_eq_true_2.
    - rewrite orb_comm. reflexivity. }
  rewrite Hidsnil, Hrel.
  rewrite Hnids, Htb, Hnm.
  clear. induction es0 as [|e r0 IH]; [done|]. cbn [flat_map]. rewrite map_app, <- IH. f_equal.
  rewrite recipients_removed_zero, map_map. apply map_ext. intros i. reflexivity.
Qed.

(** Non-vacuity: builder ids given in descending order [1; 0]: the plain call reports them as
    given, the Close reports the node's ascending list; everything else in the events is equal. *)
Example demo_new_q_close_events :
  let w := run demo_bc_world [OSetListener (Some (LCallback (mkL 63 None)))] in
  let rq := step w (OBBatchQ (mkB [1; 0] None (Some 1)) 3%Z (Some (mkE 1 0))) in
  let rc := step (fst (fst rq)) (OQClose 0) in
  let rp := step w (OBBatch (mkB [1; 0] None (Some 1)) 3%Z (Some (mkE 1 0))) in
  snd rc = map (ev_set_added_ids [0; 1]) (snd rp) /\ length (snd rp) = 3 /\
  map ev_added_ids (snd rp) = [[1; 0]; [1; 0]; [1; 0]] /\ map ev_added_ids (snd rc) = [[0; 1]; [0; 1]; [0; 1]].
Proof. vm_compute. done. Qed.
