(** * C08 at history level: every history of the single-entity core, Reset, filter
      (un)registration AND the batch operations (Batch.Add/Remove/Exchange,
      Relations.ExchangeBatch, Batch.SetRelation, Batch.RemoveEntities, Builder.NewBatch), with
      unregistered or registered filters as arguments, keeps the refinement relation to the
      abstract store - in which a batch call IS the single-entity update applied to the
      entities that match the filter in the abstract store ([a_sel]), nothing else.

      The abstract selection [a_sel] looks at the abstract store only (mask, target); that it
      is what the world's filter evaluation selects is [a_sel_exact]. *)
From Arche Require Import Model.Base Model.Pool Model.Filter Model.World Model.Ops
  Proofs.Tables Proofs.Bits Proofs.Store Proofs.Graph Proofs.WorldInv Proofs.Cursor
  Proofs.Atomic Proofs.Frame Proofs.StepFrame Proofs.Subs Proofs.PoolInv Proofs.Locks
  Proofs.RelGraph Proofs.RelWorld Proofs.RelRefine Proofs.QueryExact Proofs.CacheInv Proofs.BatchMove
  Proofs.BatchExchange Proofs.BatchSetRel Proofs.BatchRemove Proofs.ResetInv Proofs.IlenInv Proofs.BatchCreate
  Proofs.BatchCached Proofs.GhostBase Proofs.CreateWith Proofs.BatchCreateWith.

(** ** The filter behind a filter argument *)
Definition arg_filter (w : world) (fa : farg) : option fexpr :=
  match fa with
  | FPlain f => Some f
  | FCached id => option_map c_filter (cache_get w id)
  end.

Lemma arg_ok w A fa l f :
  R w A -> cache_ok w -> arg_tables w fa = Some l -> arg_filter w fa = Some f ->
  NoDup l /\ forall tid, tid ∈ l <-> tid ∈ World.get_tables w f.
Proof.
  intros [K _ _ _] C Hl Hf. destruct fa as [g|id]; simpl in *.
  - injection Hl as <-. injection Hf as <-. split; [|done].
    rewrite get_tables_contrib. by apply (selected_nodup w (as_live A)), K.
  - destruct (cache_get w id) as [ce|] eqn:Hget; [|done]. simpl in *. injection Hl as <-. injection Hf as <-.
    by destruct (cached_arg_ok w id ce C Hget) as (_ & ? & ?).
Qed.

Lemma arg_filter_some w fa l : arg_tables w fa = Some l -> exists f, arg_filter w fa = Some f.
Proof.
  destruct fa as [g|id]; simpl; [by eexists|]. destruct (cache_get w id); [by eexists|done].
Qed.

(** ** Selection in the abstract store *)
Definition a_matches (reg : list cinfo) (f : fexpr) (a : aent) : bool :=
  fmatches f (a_mask a) &&
  match ftarget f, arel reg (a_mask a) with
  | Some t, Some _ => ent_eqb (a_target a) t
  | _, _ => true
  end.

Definition a_sel (A : astate) (f : fexpr) : list Entity :=
  filter (fun e => default false (a_matches (as_reg A) f <$> assoc_get e (as_ents A)) = true) (as_live A).

Lemma a_sel_exact w A f : R w A -> forall e, e ∈ a_sel A f <-> (e ∈ as_live A /\ ent_matches w f e).
Proof.
  intros [K Hr Hu He] e. unfold a_sel. rewrite elem_of_list_filter. split.
  - intros [Hm Hin]. split; [done|]. destruct (He e Hin) as (a & Ha & V). rewrite Ha in Hm. simpl in Hm.
    unfold a_matches in Hm. apply andb_true_iff in Hm as [Hm1 Hm2].
    exists (a_mask a), (a_target a), (arel (w_reg w) (a_mask a)).
    split; [apply V|]. split; [apply V|]. split; [apply (ent_rel_arel w (as_live A)); [apply K|done|apply V]|]. split; [done|].
    rewrite <- Hr. destruct (ftarget f); [|done]. destruct (arel _ _); [|done]. by apply ent_eqb_eq.
  - intros [Hin (m & tg & rel & Hm & Ht & Hrel & Hf & Htg)]. split; [|done].
    destruct (He e Hin) as (a & Ha & V). rewrite Ha. simpl. unfold a_matches.
    rewrite (v_mask _ _ _ _ V) in Hm. injection Hm as <-. rewrite (v_target _ _ _ _ V) in Ht. injection Ht as <-.
    rewrite (ent_rel_arel w (as_live A) e (a_mask a)) in Hrel; [|apply K|done|apply V]. injection Hrel as <-.
    rewrite Hf. simpl. rewrite Hr. destruct (ftarget f); [|done]. destruct (arel _ _); [|done]. by apply ent_eqb_eq.
Qed.

(** [R] looks at the live set, the issued set, the registry and the entries of live entities. *)
Lemma R_ext w A A' :
  R w A -> as_live A' = as_live A -> as_issued A' = as_issued A -> as_reg A' = as_reg A ->
  (forall e, e ∈ as_live A -> assoc_get e (as_ents A') = assoc_get e (as_ents A)) -> R w A'.
Proof.
  intros [K Hr Hu He] H1 H2 H3 H4. split.
  - by rewrite H1, H2.
  - by rewrite H3.
  - done.
  - intros e Hin. rewrite H1 in Hin. rewrite H3, (H4 e Hin). by apply He.
Qed.

(** ** The abstract batch step *)
Definition astep_b (w : world) (A : astate) (o : op) (out : outcome) : astate :=
  match o, out with
  | OBatchExchange false fa add rem rel, Ok (VNat _) =>
      match arg_filter w fa, add, rem with
      | _, [], [] => A
      | Some f, _, _ => a_map A (a_sel A f) (fun a => a_exchange (as_reg A) a add rem rel)
      | None, _, _ => A
      end
  | OBatchSetRel false fa rid T, Ok (VNat _) =>
      match arg_filter w fa with
      | Some f => a_map A (a_sel A f) (fun a => mkA (a_mask a) T (a_vals a))
      | None => A
      end
  | OBatchRemove fa, Ok (VNat _) =>
      match arg_filter w fa with
      | Some f => a_remove_all A (a_sel A f)
      | None => A
      end
  | OBBatch b _ tg, Ok (VEnts es) =>
      a_sets_all (a_add_all A es (mkA (new_mask (b_ids b)) (default ezero tg) [])) es (b_comps b)
  | ONewWith cs, Ok (VEnt e) => a_sets (a_add A e (mkA (new_mask (map fst cs)) ezero [])) e cs
  | OBNew b tg, Ok (VEnt e) => a_sets (a_add A e (mkA (new_mask (b_ids b)) (default ezero tg) [])) e (b_comps b)
  | _, _ => astep A o out
  end.

Definition returns_ok (w : world) (o : op) : Prop := exists v, snd (fst (step w o)) = Ok v.

Definition op_pre4 (w : world) (A : astate) (o : op) : Prop :=
  match o with
  | OBatchExchange false _ add _ _ => ids_reg A add /\ returns_ok w o
  | OBatchSetRel false _ _ _ => returns_ok w o
  | OBatchRemove _ => (forall e, e ∈ as_live A -> (egen e < gen_max)%N) /\ returns_ok w o
  | OBBatch b _ _ => ids_reg A (b_ids b) /\ returns_ok w o
  | ONewWith cs => ids_reg A (map fst cs)
  | OBNew b _ => ids_reg A (b_ids b)
  | _ => op_pre3 A o
  end.

Definition inv3 (w : world) (A : astate) : Prop := R w A /\ cache_ok w /\ ilen w.

Lemma a_remove_all_mem A L L' : (forall e, e ∈ L <-> e ∈ L') ->
  forall w, R w (a_remove_all A L) -> R w (a_remove_all A L').
Proof.
  intros Hmem w HR. destruct (a_remove_all_fields L A) as (F1 & F2 & F3). destruct (a_remove_all_fields L' A) as (G1 & G2 & G3).
  apply (R_ext w (a_remove_all A L)); try done; try congruence.
  - rewrite F1, G1. apply list_filter_iff. intros x. by rewrite Hmem.
  - intros e Hin. rewrite F1 in Hin. apply elem_of_list_filter in Hin as [Hn _].
    rewrite !a_remove_all_get; [done|done|]. by rewrite <- Hmem.
Qed.

Theorem batch_step w A o :
  inv3 w A -> op_pre4 w A o ->
  inv3 (res_world (step w o)) (astep_b w A o (snd (fst (step w o)))).
Proof.
  intros (HR & C & Hil) Hpre.
  assert (Hil' : ilen (res_world (step w o))) by (by apply ilen_step).
  assert (Hcore : op_pre3 A o -> astep_b w A o (snd (fst (step w o))) = astep A o (snd (fst (step w o))) ->
            inv3 (res_world (step w o)) (astep_b w A o (snd (fst (step w o))))).
  { intros Hp ->. destruct (full_step w A o HR C Hp) as [H1 H2]. split; [exact H1|split; [exact H2|exact Hil']]. }
  assert (Hghost : ids_reg A (ghost_ids o) -> step w o = (ghost_of w o, Panic, []) ->
            inv3 (res_world (step w o)) (astep_b w A o (snd (fst (step w o))))).
  { intros Hids Hs. rewrite Hs in Hil' |- *. simpl in Hil' |- *.
    assert (astep_b w A o Panic = A) as ->.
    { destruct o; simpl; try done; repeat match goal with |- context [match ?b with true => _ | false => _ end] => destruct b end; done. }
    split; [by apply ghost_R|]. split; [|done].
    pose proof HR as [[[S G] _ _] Hr _ _]. unfold ids_reg in Hids. rewrite Hr in Hids. by apply ghost_cache_ok. }
  assert (Hzip : forall b : bspec, Forall (fun p => fst p ∈ b_ids b) (b_comps b)).
  { intros b. unfold b_comps. destruct (b_vals b) as [vs|]; [|constructor]. apply Forall_forall. intros [id v] Hin.
    simpl. by apply elem_of_zip_l in Hin. }
  destruct o; try (apply Hcore; [exact Hpre|reflexivity]).
  - (* ONewWith *)
    destruct (step_cases w (ONewWith cs)) as [[Hs Hnp]|[_ Hs]]; [|by apply Hghost].
    rewrite Hs in Hil' |- *. simpl in Hnp, Hil' |- *.
    assert (Hop : (match cs with [] => op_new w [] [] | _ :: _ => op_new w (map fst cs) cs end) = op_new w (map fst cs) cs) by (by destruct cs).
    rewrite Hop in *. destruct (op_new w (map fst cs) cs) as [[w' out] evs] eqn:H. simpl in *.
    destruct (op_new_shape _ _ _ _ _ _ H) as [->|[e ->]]; [done|].
    assert (Hcs : Forall (fun p => fst p ∈ map fst cs) cs) by (apply Forall_forall; intros p Hp; by apply elem_of_list_fmap_1).
    destruct (new_with_inv w A (map fst cs) cs w' e evs HR C Hpre Hcs H) as [X1 X2]. done.
  - (* OBNew *)
    destruct (step_cases w (OBNew b target)) as [[Hs Hnp]|[_ Hs]]; [|by apply Hghost].
    rewrite Hs in Hil' |- *. simpl in Hnp, Hil' |- *. unfold op_builder_new in *.
    destruct target as [tg|]; simpl.
    + destruct (b_rel b) as [rid|]; [|done].
      destruct (op_new_target w rid tg (b_ids b) (b_comps b)) as [[w' out] evs] eqn:H. simpl in *.
      destruct (op_new_target_shape _ _ _ _ _ _ _ _ H) as [->|[e ->]]; [done|].
      destruct (new_target_with_inv w A rid tg (b_ids b) (b_comps b) w' e evs HR C Hpre (Hzip b) H) as [X1 X2]. done.
    + destruct (op_new w (b_ids b) (b_comps b)) as [[w' out] evs] eqn:H. simpl in *.
      destruct (op_new_shape _ _ _ _ _ _ H) as [->|[e ->]]; [done|].
      destruct (new_with_inv w A (b_ids b) (b_comps b) w' e evs HR C Hpre (Hzip b) H) as [X1 X2]. done.
  - (* OBBatch *)
    destruct Hpre as (Hids & [v Hok]).
    assert (Hs : step w (OBBatch b count target) = step0 w (OBBatch b count target))
      by (apply step_not_panic; rewrite <- step_out_eq, Hok; done).
    rewrite Hs in Hok, Hil' |- *. clear Hs. simpl in Hok, Hil' |- *.
    destruct (op_new_batch w count b target) as [[w' out] evs] eqn:H. simpl in Hok, Hil' |- *. subst out.
    assert (Hes : exists es, v = VEnts es).
    { unfold op_new_batch in H. destruct (new_entities_nn w count b target) as [[[[w4 tid] start] es0]|]; [|done].
      destruct (table_mask_rel w4 tid). injection H as _ <- _. by eexists. }
    destruct Hes as [es ->].
    destruct (batch_new_with_refines w A count b target w' es evs HR C Hil Hids H) as (_ & _ & _ & HR' & C' & _). done.
  - (* OBatchExchange *)
    destruct q; [destruct Hpre|].
    destruct Hpre as (Hids & [v Hok]). simpl in Hok, Hil' |- *.
    destruct (op_batch_exchange w a add rem rel) as [[w' out] evs] eqn:H. simpl in Hok, Hil' |- *. subst out.
    assert (Hn : exists n, v = VNat n).
    { unfold op_batch_exchange, batch_result in H. destruct (exchange_batch_nn w a add rem rel) as [[[[w1 n] segs]|]|[]]; try done.
      injection H as _ <- _. by eexists. }
    destruct Hn as [n ->].
    destruct (decide (add = [] /\ rem = [])) as [[-> ->]|Hne].
    + (* nothing to do *)
      assert (w' = w) as ->.
      { unfold op_batch_exchange, exchange_batch_nn in H. destruct (is_locked w); [done|]. destruct (negb _); [done|].
        destruct (bool_decide _); [done|]. simpl in H. by injection H as <- _ _. }
      destruct (arg_filter w a); done.
    + assert (Hne' : add <> [] \/ rem <> []).
      { destruct add; [|by left]. destruct rem; [|by right]. exfalso. by apply Hne. }
      assert (Hl : exists l, arg_tables w a = Some l).
      { unfold op_batch_exchange, exchange_batch_nn in H. destruct (is_locked w); [done|]. destruct (negb _); [done|].
        destruct (arg_tables w a) as [l|]; [by eexists|]. destruct add, rem; try done. exfalso; by apply Hne. }
      destruct Hl as [l Hl]. destruct (arg_filter_some w a l Hl) as [f Hf]. rewrite Hf.
      destruct (arg_ok w A a l f HR C Hl Hf) as [Hnd Hsel].
      destruct (batch_exchange_refines_arg w A a l f add rem rel w' n evs HR C Hl Hnd Hsel Hids Hne' H) as (_ & _ & Hmem & HR' & C').
      assert (Hsame : forall e, e ∈ table_ents w l <-> e ∈ a_sel A f) by (intros e; by rewrite Hmem, (a_sel_exact w A f HR)).
      rewrite (a_map_ext_mem A _ _ _ Hsame) in HR'.
      destruct add; [destruct rem; [exfalso; by apply Hne|]|]; done.
  - (* OBatchSetRel *)
    destruct q; [destruct Hpre|].
    destruct Hpre as [v Hok]. simpl in Hok, Hil' |- *.
    destruct (op_batch_set_relation w a rid t) as [[w' out] evs] eqn:H. simpl in Hok, Hil' |- *. subst out.
    assert (Hn : exists n, v = VNat n).
    { unfold op_batch_set_relation, batch_result in H. destruct (set_relation_batch_nn w a rid t) as [[[[w1 n] segs]|]|[]]; try done.
      injection H as _ <- _. by eexists. }
    destruct Hn as [n ->].
    assert (Hl : exists l, arg_tables w a = Some l).
    { unfold op_batch_set_relation, set_relation_batch_nn in H. destruct (is_locked w); [done|]. destruct (negb _); [done|].
      destruct (arg_tables w a) as [l|]; [by eexists|done]. }
    destruct Hl as [l Hl]. destruct (arg_filter_some w a l Hl) as [f Hf]. rewrite Hf.
    destruct (arg_ok w A a l f HR C Hl Hf) as [Hnd Hsel].
    destruct (batch_set_relation_refines_arg w A a l f rid t w' n evs HR C Hl Hnd Hsel H) as (_ & _ & Hmem & HR' & C').
    assert (Hsame : forall e, e ∈ table_ents w l <-> e ∈ a_sel A f) by (intros e; by rewrite Hmem, (a_sel_exact w A f HR)).
    rewrite (a_map_ext_mem A _ _ _ Hsame) in HR'. done.
  - (* OBatchRemove *)
    destruct Hpre as (Hgen & [v Hok]). simpl in Hok, Hil' |- *.
    destruct (op_remove_entities w a) as [[w' out] evs] eqn:H. simpl in Hok, Hil' |- *. subst out.
    assert (Hl : exists l n, arg_tables w a = Some l /\ v = VNat n).
    { unfold op_remove_entities in H. destruct (is_locked w); [done|].
      destruct (arg_tables w a) as [l|]; [|done]. destruct (locks_lock _ _) as [[lk b]|]; [|done].
      destruct (foldl _ _ _). injection H as _ <- _. by eexists _, _. }
    destruct Hl as (l & n & Hl & ->). destruct (arg_filter_some w a l Hl) as [f Hf]. rewrite Hf.
    destruct (arg_ok w A a l f HR C Hl Hf) as [Hnd Hsel].
    assert (Hgen' : forall e, e ∈ table_ents w l -> (egen e < gen_max)%N).
    { intros e Hin. apply Hgen. pose proof HR as [K _ _ _].
      assert (HLmem : forall e, e ∈ table_ents w l <-> (e ∈ as_live A /\ ent_matches w f e)).
      { apply (table_ents_exact w (as_live A) (r2_ok _ _ _ K)). intros tid t Ht Hne0. rewrite Hsel, get_tables_contrib.
        by apply (selected_exact w (as_live A) true f (r2_ok _ _ _ K)). }
      by apply HLmem in Hin as [? _]. }
    destruct (batch_remove_refines_arg w A a l f w' n evs HR C Hl Hnd Hsel Hgen' H) as (_ & _ & Hmem & HR' & C').
    assert (Hsame : forall e, e ∈ table_ents w l <-> e ∈ a_sel A f) by (intros e; by rewrite Hmem, (a_sel_exact w A f HR)).
    split; [|done]. by apply (a_remove_all_mem A _ _ Hsame).
Qed.

(** ** Histories *)
Fixpoint arun4 (w : world) (A : astate) (ops : list op) : astate :=
  match ops with
  | [] => A
  | o :: r => arun4 (res_world (step w o)) (astep_b w A o (snd (fst (step w o)))) r
  end.
Fixpoint pre_run4 (w : world) (A : astate) (ops : list op) : Prop :=
  match ops with
  | [] => True
  | o :: r => op_pre4 w A o /\ pre_run4 (res_world (step w o)) (astep_b w A o (snd (fst (step w o)))) r
  end.

Theorem batch_history ops : forall w A,
  inv3 w A -> pre_run4 w A ops -> inv3 (run w ops) (arun4 w A ops).
Proof.
  induction ops as [|o r IH]; intros w A HI Hp; simpl; [done|].
  destruct Hp as [Hpre Hp]. apply IH; [by apply batch_step|done].
Qed.

(** Non-vacuity: relation tables created in an order that makes the cached table list differ
    from graph order, then a batch Remove(component) through the REGISTERED filter, a
    NewBatch, a batch SetRelation and a batch RemoveEntities through unregistered filters:
    the side conditions hold, so the final world refines the final abstract store, in which
    entities 3 and 5 have lost component 0 and point to entity 2, and the three batch-created
    entities are gone again. *)
Definition demo_bh_ops : list op := demo_cached_ops ++
  [OBatchExchange false (FCached 0) [] [0] None;
   OBBatch (mkB [0] None None) 3 None;
   OBatchSetRel false (FPlain (FAll 2)) 1 (mkE 2 0);
   OBatchRemove (FPlain (FAll 1))].
Example demo_bh_pre : pre_run4 (world_init 2 2 64) a_init demo_bh_ops.
Proof.
  unfold demo_bh_ops, demo_cached_ops. cbn [app pre_run4].
  repeat (split; [first
    [ (* Batch.RemoveEntities: the generation bound is not for [vm_compute] (comparison with 2^32-1) *)
      split; [intros e He; vm_compute in He; repeat (apply elem_of_cons in He as [->|He]); try reflexivity; by apply elem_of_nil in He
             |vm_compute; by eexists]
    | vm_compute; repeat split; try (repeat (apply List.Forall_cons; [simpl; lia|]); apply List.Forall_nil); try reflexivity;
      try (by eexists); repeat (first [apply elem_of_list_here | apply elem_of_list_further]) ]|]).
  exact I.
Qed.
Example demo_bh_result :
  let A := arun4 (world_init 2 2 64) a_init demo_bh_ops in
  as_live A = [mkE 5 0; mkE 4 0; mkE 3 0; mkE 2 0; mkE 1 0] /\
  assoc_get (mkE 3 0) (as_ents A) = Some (mkA 2 (mkE 2 0) []) /\
  assoc_get (mkE 5 0) (as_ents A) = Some (mkA 2 (mkE 2 0) []) /\
  assoc_get (mkE 4 0) (as_ents A) = Some (mkA 4 ezero []) /\
  length (as_issued A) = 8.
Proof. vm_compute. done. Qed.
Corollary demo_bh_refines :
  inv3 (run (world_init 2 2 64) demo_bh_ops) (arun4 (world_init 2 2 64) a_init demo_bh_ops).
Proof.
  apply batch_history; [|exact demo_bh_pre].
  split; [apply R_init; lia|]. split; [apply cache_ok_init|apply ilen_init].
Qed.

(** Non-vacuity with component values: NewEntityWith, NewBatch and Builder.New (with target)
    of value builders inside a history; the abstract store holds the written values. *)
Definition demo_bh_vals_ops : list op := demo_cached_ops ++
  [ONewWith [(0, 5%Z); (2, 7%Z)];
   OBBatch (mkB [0; 2] (Some [9%Z; 4%Z]) None) 2 None;
   OBNew (mkB [0; 1] (Some [3%Z; 0%Z]) (Some 1)) (Some (mkE 1 0))].
Example demo_bh_vals_pre : pre_run4 (world_init 2 2 64) a_init demo_bh_vals_ops.
Proof.
  unfold demo_bh_vals_ops, demo_cached_ops. cbn [app pre_run4].
  repeat (split; [vm_compute; repeat split; try (repeat (apply List.Forall_cons; [simpl; lia|]); apply List.Forall_nil); try reflexivity;
      try (by eexists); repeat (first [apply elem_of_list_here | apply elem_of_list_further])|]).
  exact I.
Qed.
Example demo_bh_vals_result :
  let A := arun4 (world_init 2 2 64) a_init demo_bh_vals_ops in
  option_map (fun a => aval a 0) (assoc_get (mkE 6 0) (as_ents A)) = Some 5%Z /\
  option_map (fun a => aval a 2) (assoc_get (mkE 6 0) (as_ents A)) = Some 7%Z /\
  option_map (fun a => aval a 0) (assoc_get (mkE 8 0) (as_ents A)) = Some 9%Z /\
  option_map (fun a => aval a 2) (assoc_get (mkE 8 0) (as_ents A)) = Some 4%Z /\
  option_map (fun a => aval a 0) (assoc_get (mkE 9 0) (as_ents A)) = Some 3%Z /\
  option_map a_target (assoc_get (mkE 9 0) (as_ents A)) = Some (mkE 1 0).
Proof. vm_compute. done. Qed.
Corollary demo_bh_vals_refines :
  inv3 (run (world_init 2 2 64) demo_bh_vals_ops) (arun4 (world_init 2 2 64) a_init demo_bh_vals_ops).
Proof.
  apply batch_history; [|exact demo_bh_vals_pre].
  split; [apply R_init; lia|]. split; [apply cache_ok_init|apply ilen_init].
Qed.
