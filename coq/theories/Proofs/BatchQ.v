(** * C08 / C03: the query returned by a batch ...Q call visits exactly the entities the
      batch operation changed, in the order it processed them.

    [exchange_table_seg]: the segment recorded for one moved table is the row range of the
    destination table that now holds that table's entities, in order.
    [xloop_segs]: after the whole loop, every recorded segment still holds exactly those
    entities (destination tables only grow at their end, and are never sources).
    [batch_exchange_q_visits]: the positions enumerated by the query of Batch.AddQ /
    RemoveQ / ExchangeQ (Relations.ExchangeBatchQ) hold exactly the matching entities.
    [batch_set_relation_q_visits]: the query of Batch.SetRelationQ holds exactly the entities of
    the tables that were re-targeted (tables that already had the target do not appear).
    [batch_new_q_visits]: the query of Builder.NewBatchQ holds exactly the new entities. *)
From Arche Require Import Model.Base Model.Pool Model.Filter Model.World Model.Ops
  Proofs.Tables Proofs.Bits Proofs.Store Proofs.Graph Proofs.WorldInv Proofs.Cursor
  Proofs.Frame Proofs.StepFrame
  Proofs.RelGraph Proofs.RelWorld Proofs.RelRefine Proofs.QueryExact Proofs.CacheInv Proofs.BatchMove Proofs.BatchExchange
  Proofs.BatchSetRel Proofs.EventsExact.

Definition seg_ents (w : world) (s : seg) : list Entity :=
  if s_skip s then [] else take (s_end s - s_start s) (drop (s_start s) (tbl_ents w (s_tid s))).

Lemma exchange_table_seg w live src st add rem rel w' sg :
  world_okr w live -> w_tables w !! src = Some st -> t_ents st <> [] ->
  Forall (fun id => id < length (w_reg w)) add -> (add <> [] \/ rem <> []) ->
  exchange_table w src add rem rel = Some (w', sg) ->
  exists dt' pre, w_tables w' !! s_tid sg = Some dt' /\ t_ents dt' = pre ++ t_ents st /\
    s_start sg = length pre /\ s_end sg = length pre + tlen st /\ s_skip sg = false /\ s_tid sg <> src /\
    exists sn, w_nodes w !! t_node st = Some sn /\ s_old sg = Some (n_mask sn, n_rel sn, t_target st).
Proof.
  intros [S G] Hst Hstne Hreg Hnonempty H.
  unfold exchange_table in H. rewrite Hst in H.
  destruct (so_table _ _ S src st Hst) as (sn & Hsn & Hsok). rewrite Hsn in H.
  destruct (exchange_mask (n_mask sn) add rem) as [mask|] eqn:Hmask; [|done].
  destruct (exchange_target w (n_mask sn) mask (t_target st) rem rel) as [target|] eqn:Htarget; [|done].
  destruct (find_or_create_table w src add rem target) as [[w1 dst]|] eqn:Hfoc; [|done].
  destruct (find_or_create_table_rok w src add rem target st sn mask w1 dst G Hst Hsn Hmask Hreg Hfoc)
    as (E & G1 & dt & dn & Hdt & Hdn & Hdm & Hdact & Hdtg).
  assert (S1 : store_ok w1 live) by (by eapply ext_r_store_ok).
  assert (Hst1 : w_tables w1 !! src = Some st).
  { destruct (xr_tables _ _ E src st Hst) as (t' & Ht' & _ & _ & _ & _ & Q). by rewrite (Q Hstne) in Ht'. }
  destruct (xr_nodes _ _ E _ sn Hsn) as (sn1 & Hsn1 & Hsm1 & Hsi1 & Hsr1).
  pose proof (exchange_mask_fold _ _ _ _ Hmask) as Hmf.
  assert (Hpres : forall id, id ∈ rem -> bit (n_mask sn) id = true).
  { unfold exchange_mask in Hmask. destruct (exmask_rem (n_mask sn) rem) as [m1|] eqn:Hr; [|done]. by eapply exmask_rem_present. }
  assert (Hstart : forall id, id ∈ add -> bit (n_mask sn) id = false).
  { unfold find_or_create_table in Hfoc. rewrite Hst, Hsn in Hfoc.
    destruct (walk_rem w (n_mask sn) (n_rel sn) rem) as [[wa ma] ra].
    destruct (walk_add wa (n_mask sn) ma ra add) as [r|] eqn:Hwa; [|done]. by eapply walk_add_start. }
  assert (Hneq : mask <> n_mask sn).
  { intros Heq. destruct add as [|a add'].
    - destruct rem as [|r0 rem']; [destruct Hnonempty; done|].
      assert (Hb : bit mask r0 = false).
      { rewrite Hmf, bit_fold_set, bit_fold_clear.
        rewrite (bool_decide_eq_false_2 (r0 ∉ r0 :: rem')) by (intros Hx; apply Hx; apply elem_of_cons; by left).
        rewrite (bool_decide_eq_false_2 (r0 ∈ [])) by (intros Hx; by apply elem_of_nil in Hx).
        by rewrite andb_false_r. }
      rewrite Heq, (Hpres r0) in Hb; [done|apply elem_of_cons; by left].
    - assert (Hb : bit mask a = true).
      { rewrite Hmf, bit_fold_set, bool_decide_eq_true_2; [apply orb_true_r|apply elem_of_cons; by left]. }
      rewrite Heq, (Hstart a) in Hb; [done|apply elem_of_cons; by left]. }
  assert (Hsd : src <> dst).
  { intros <-. rewrite Hst1 in Hdt. injection Hdt as <-. rewrite Hsn1 in Hdn. injection Hdn as <-. congruence. }
  assert (Hcap : 0 < node_capinc w1 dn).
  { unfold node_capinc. destruct (rg_capinc _ G1). by destruct (node_has_rel dn). }
  pose proof (move_all_ok w1 live src dst mask st dt sn1 dn S1 Hsd Hst1 Hdt Hsn1 Hdn Hcap) as HM.
  destruct (move_all w1 src dst mask) as [w2 start]. simpl in HM. injection H as <- <-.
  destruct HM as (_ & _ & _ & _ & _ & _ & _ & _ & _ & _ & _ & (dt2 & Hdt2' & Hdt2e & _) & Hstartv).
  set (w3 := set_tbit w2 target).
  assert (Ht3 : w_tables w3 = w_tables w2) by (unfold w3, set_tbit; by destruct (ent_is_zero target)).
  assert (Hoth4 : forall tid, tid <> src -> w_tables (cleanup_table w3 src) !! tid = w_tables w3 !! tid).
  { intros tid Hne. unfold cleanup_table. destruct (w_tables w3 !! src) as [tt|]; [|done].
    destruct (w_nodes w3 !! t_node tt); [|done]. destruct (_ || _); [done|]. destruct (_ || _); [done|].
    unfold retire_table. destruct (w_tables w3 !! src) as [t5|]; [|done]. destruct (w_nodes w3 !! t_node t5); [|done].
    simpl. by rewrite list_lookup_insert_ne. }
  exists dt2, (t_ents dt). cbn [s_tid s_start s_end s_skip s_old].
  split; [rewrite Hoth4 by done; by rewrite Ht3|]. split; [done|]. rewrite Hstartv. unfold tlen.
  do 4 (split; [done|]). by exists sn.
Qed.

Lemma flat_map_ext_mem {X Y} (f g : X -> list Y) l : (forall x, x ∈ l -> f x = g x) -> flat_map f l = flat_map g l.
Proof.
  induction l as [|x r IH]; intros H; [done|]. simpl. rewrite (H x (elem_of_list_here _ _)), IH; [done|].
  intros y Hy. apply H. by apply elem_of_list_further.
Qed.

Lemma Forall_impl_mem {X} (P Q : X -> Prop) l : Forall P l -> (forall x, x ∈ l -> P x -> Q x) -> Forall Q l.
Proof.
  induction 1 as [|x r Hx _ IH]; intros H; constructor.
  - apply H; [apply elem_of_list_here|done].
  - apply IH. intros y Hy. apply H. by apply elem_of_list_further.
Qed.

Lemma xloop_segs live add rem rel : (add <> [] \/ rem <> []) -> forall l w segs0 pr w' segs,
  NoDup l -> world_okr w live -> cache_ok w -> Forall (fun id => id < length (w_reg w)) add ->
  (forall tid, tid ∈ l -> tbl_ents w tid <> []) ->
  xloop add rem rel w l segs0 pr = inl (Some (w', segs)) ->
  exists new, segs = segs0 ++ new /\ flat_map (seg_ents w') new = table_ents w l /\
    Forall (fun s => s_skip s = false /\ s_start s < s_end s /\ s_end s <= length (tbl_ents w' (s_tid s)) /\
                     exists om orl ot, s_old s = Some (om, orl, ot) /\
                       forall e, e ∈ seg_ents w' s ->
                         e ∈ live /\ ent_mask w e = Some om /\ ent_rel w e = Some orl /\ ent_target w e = Some ot) new /\
    (forall tid0 t0, tid0 ∉ l -> w_tables w !! tid0 = Some t0 ->
       exists t0', w_tables w' !! tid0 = Some t0' /\ t_ents t0 `prefix_of` t_ents t0').
Proof.
  intros Hnonempty. induction l as [|tid r IH]; intros w segs0 pr w' segs Hnd K C Hreg Hne H.
  { simpl in H. injection H as <- <-. exists []. rewrite app_nil_r. split; [done|]. split; [done|]. split; [constructor|].
    intros tid0 t0 _ Ht0. by exists t0. }
  apply NoDup_cons in Hnd as [Hnotin Hnd].
  assert (Htne : tbl_ents w tid <> []) by (apply Hne, elem_of_list_here).
  unfold xloop in H. simpl in H.
  assert (Hskip : table_skip w tid = false).
  { unfold table_skip, tbl_ents in *. destruct (w_tables w !! tid) as [t|]; [|done]. apply Nat.eqb_neq. unfold tlen. by destruct (t_ents t). }
  rewrite Hskip in H.
  destruct (exchange_table w tid add rem rel) as [[w1 s]|] eqn:Hx; simpl in H; [|done].
  destruct (w_tables w !! tid) as [st|] eqn:Hst; [|unfold tbl_ents in Htne; by rewrite Hst in Htne].
  rewrite (tbl_ents_ne w tid st Hst) in Htne.
  destruct (exchange_table_rok w live tid st add rem rel w1 s K C Hst Htne Hreg Hnonempty Hx)
    as (sn & mask & target & dst & newrel & Hsn & Hmask & Htarget & Hadd & Hrem & HP & Hsd & K1 & C1 & F1 & Hp1 & Hil1 & HN1 & Hoth1 & Hmoved1 & Htab1 & Hdst1).
  destruct (exchange_table_seg w live tid st add rem rel w1 s K Hst Htne Hreg Hnonempty Hx)
    as (dt' & pre & Hdt' & Hdte & Hss & Hse & Hsk & Hsne & sn0 & Hsn0 & Hsold).
  assert (Hreg1 : Forall (fun id => id < length (w_reg w1)) add) by (by rewrite (fr_reg _ _ F1)).
  assert (Hr1 : forall tid', tid' ∈ r -> exists t t1, w_tables w !! tid' = Some t /\ w_tables w1 !! tid' = Some t1 /\ t_node t1 = t_node t /\
            ((tid' <> dst /\ t_ents t1 = t_ents t) \/ (tid' = dst /\ t_ents t1 = t_ents t ++ t_ents st))).
  { intros tid' Hin. assert (tid' <> tid) by (intros ->; done).
    assert (Hex : exists t, w_tables w !! tid' = Some t).
    { specialize (Hne tid' (elem_of_list_further _ _ _ Hin)). unfold tbl_ents in Hne. destruct (w_tables w !! tid'); [by eexists|done]. }
    destruct Hex as [t Ht]. destruct (decide (tid' = dst)) as [->|Hd].
    - destruct (Hdst1 t Ht) as (t1 & nd & Ht1 & He1 & Hn1 & _). exists t, t1. split; [done|]. split; [done|]. split; [done|]. by right.
    - destruct (Htab1 tid' t H0 Hd Ht) as (t1 & Ht1 & He1 & Hn1). exists t, t1. split; [done|]. split; [done|]. split; [done|]. by left. }
  assert (Hne1 : forall tid', tid' ∈ r -> tbl_ents w1 tid' <> []).
  { intros tid' Hin. destruct (Hr1 tid' Hin) as (t & t1 & Ht & Ht1 & _ & Hcase). rewrite (tbl_ents_ne _ _ _ Ht1).
    specialize (Hne tid' (elem_of_list_further _ _ _ Hin)). rewrite (tbl_ents_ne _ _ _ Ht) in Hne.
    destruct Hcase as [[_ ->]|[_ ->]]; [done|]. intros Hx'. apply app_eq_nil in Hx' as [? _]. done. }
  destruct (xloop_ok live add rem rel Hnonempty r w1 (segs0 ++ [s]) true w' segs Hnd K1 C1 Hreg1 Hne1 H)
    as (_ & _ & _ & _ & _ & _ & _ & Hleg' & _).
  destruct (IH w1 (segs0 ++ [s]) true w' segs Hnd K1 C1 Hreg1 Hne1 H) as (new & -> & Hflat & Hall & Hpre).
  (* the destination is not among the remaining tables *)
  assert (Hdst_notin : dst ∉ r).
  { intros Hin. destruct (Hleg' dst Hin) as (t1 & sn1 & Ht1 & Hsn1 & [m2 Hm2] & _).
    destruct (Hr1 dst Hin) as (t & t1' & Ht & Ht1' & Hn1' & _). rewrite Ht1 in Ht1'. injection Ht1' as <-.
    destruct (Hdst1 t Ht) as (t2 & nd & Ht2 & _ & _ & Hndd & Hndm). rewrite Ht1 in Ht2. injection Ht2 as <-.
    destruct (HN1 _ nd Hndd) as (nd1 & Hnd1 & Hm1 & _). rewrite <- Hn1', Hsn1 in Hnd1. injection Hnd1 as <-.
    rewrite Hm1, Hndm in Hm2. rewrite (exchange_mask_twice _ _ _ _ Hmask Hadd Hrem Hnonempty) in Hm2. done. }
  assert (Hents1 : forall tid', tid' ∈ r -> tbl_ents w1 tid' = tbl_ents w tid').
  { intros tid' Hin. destruct (Hr1 tid' Hin) as (t & t1 & Ht & Ht1 & _ & Hcase).
    rewrite (tbl_ents_ne _ _ _ Ht1), (tbl_ents_ne _ _ _ Ht). destruct Hcase as [[_ ->]|[-> _]]; done. }
  (* the segment's table is the destination, whose entities later steps only extend *)
  assert (Hstid : s_tid s ∉ r).
  { (* the recorded table holds the moved entities in w1; a remaining source table holds its own *)
    intros Hin. destruct (Hr1 (s_tid s) Hin) as (t & t1 & Ht & Ht1 & _ & Hcase). rewrite Hdt' in Ht1. injection Ht1 as <-.
    destruct Hcase as [[Hd He1]|[Hd _]]; [|by rewrite Hd in Hin].
    (* not the destination: its entities are those of w, but it also holds st's entities: same entity in two tables *)
    destruct (t_ents st) as [|e0 es0] eqn:Hes; [done|].
    assert (Hin0 : e0 ∈ t_ents t) by (rewrite <- He1, Hdte; apply elem_of_app; right; apply elem_of_list_here).
    apply elem_of_list_lookup in Hin0 as [row Hrow].
    destruct (so_rows _ _ (wr_store _ _ K) (s_tid s) t row e0 Ht Hrow) as [_ Hloc].
    assert (Hrow0 : t_ents st !! 0 = Some e0) by (by rewrite Hes).
    destruct (so_rows _ _ (wr_store _ _ K) tid st 0 e0 Hst Hrow0) as [_ Hloc2]. rewrite Hloc in Hloc2. injection Hloc2 as Heq _.
    apply Hnotin. by rewrite <- Heq. }
  destruct (Hpre (s_tid s) dt' Hstid Hdt') as (dt'' & Hdt'' & Hpfx).
  assert (Hsegents : seg_ents w' s = t_ents st).
  { unfold seg_ents. rewrite Hsk, Hss, Hse. rewrite (tbl_ents_ne _ _ _ Hdt'').
    destruct Hpfx as [ext Hext]. rewrite Hext, Hdte, <- app_assoc.
    rewrite drop_app_alt by done. replace (length pre + tlen st - length pre) with (length (t_ents st)) by (unfold tlen; lia).
    by rewrite take_app. }
  exists (s :: new). split; [by rewrite <- app_assoc|]. split.
  - cbn [flat_map table_ents]. f_equal.
    + by rewrite Hsegents, (tbl_ents_ne _ _ _ Hst).
    + rewrite Hflat. unfold table_ents. apply flat_map_ext_mem. intros tid' Hin'. by apply Hents1.
  - split.
    + constructor.
      * split; [done|]. rewrite Hss, Hse, (tbl_ents_ne _ _ _ Hdt'').
        destruct Hpfx as [ext Hext]. rewrite Hext, Hdte, !app_length. unfold tlen in *. split; [|split; [lia|]].
        { destruct (t_ents st); [done|simpl; lia]. }
        exists (n_mask sn0), (n_rel sn0), (t_target st). split; [done|].
        intros e He. rewrite Hsegents in He. apply elem_of_list_lookup in He as [i Hi].
        destruct (so_rows _ _ (wr_store _ _ K) tid st i e Hst Hi) as [Hlive Hloc]. split; [done|].
        apply (views_of_row w live e tid i st sn0 (wr_store _ _ K) Hlive Hloc Hst Hsn0).
      * eapply Forall_impl_mem; [exact Hall|]. intros s0 Hs0 (A1 & A2 & A3 & om & orl & ot & B1 & B2).
        split; [done|]. split; [done|]. split; [done|]. exists om, orl, ot. split; [done|].
        intros e He. destruct (B2 e He) as (Hlive & V1 & V2 & V3).
        (* e sits in one of the remaining source tables, so the first step left it alone *)
        assert (Hin_flat : e ∈ flat_map (seg_ents w') new) by (apply elem_of_list_In, in_flat_map; exists s0; split; apply elem_of_list_In; done).
        rewrite Hflat in Hin_flat. unfold table_ents in Hin_flat. apply elem_of_list_In, in_flat_map in Hin_flat as (tid' & Hin' & Hmem).
        apply elem_of_list_In in Hin', Hmem. rewrite (Hents1 tid' Hin') in Hmem.
        assert (Hnst : e ∉ t_ents st).
        { destruct (Hr1 tid' Hin') as (t & _ & Ht & _). rewrite (tbl_ents_ne _ _ _ Ht) in Hmem.
          apply elem_of_list_lookup in Hmem as [row Hrow]. destruct (so_rows _ _ (wr_store _ _ K) tid' t row e Ht Hrow) as [_ Hloc].
          intros Hm. apply elem_of_list_lookup in Hm as [i Hi].
          destruct (so_rows _ _ (wr_store _ _ K) tid st i e Hst Hi) as [_ Hloc2]. rewrite Hloc in Hloc2. injection Hloc2 as -> _. done. }
        assert (Hc1 : ent_cells w1 e = ent_cells w e) by (by apply Hoth1).
        destruct (views_same w w1 live e (wr_store _ _ K) Hlive HN1 Hc1) as (X1 & X2 & X3 & _).
        split; [done|]. split; [congruence|]. split; congruence.
    + intros tid0 t0 Hnot0 Ht0. assert (tid0 <> tid) by (intros ->; apply Hnot0, elem_of_list_here).
      assert (Hnr : tid0 ∉ r) by (intros Hin; apply Hnot0; by apply elem_of_list_further).
      destruct (decide (tid0 = dst)) as [->|Hd].
      * destruct (Hdst1 t0 Ht0) as (t1 & nd & Ht1 & He1 & _). destruct (Hpre dst t1 Hnr Ht1) as (t2 & Ht2 & Hp2).
        exists t2. split; [done|]. etrans; [|exact Hp2]. rewrite He1. by apply prefix_app_r.
      * destruct (Htab1 tid0 t0 H0 Hd Ht0) as (t1 & Ht1 & He1 & _). destruct (Hpre tid0 t1 Hnr Ht1) as (t2 & Ht2 & Hp2).
        exists t2. split; [done|]. by rewrite <- He1.
Qed.

(** ** From segments to the positions a query enumerates *)
Lemma omap_seq_lookup {X} (l : list X) a n : a + n <= length l -> omap (fun i => l !! i) (seq a n) = take n (drop a l).
Proof.
  revert a l. induction n as [|n IH]; intros a l H; [done|]. simpl.
  destruct (l !! a) as [x|] eqn:Hx; [|apply lookup_ge_None in Hx; lia].
  rewrite IH by lia. rewrite (drop_S l x a Hx). done.
Qed.

Lemma omap_pos_ent w tid t (l : list nat) :
  w_tables w !! tid = Some t -> omap (pos_ent w) (map (pair tid) l) = omap (fun i => t_ents t !! i) l.
Proof.
  intros Ht. induction l as [|i r IH]; [done|]. cbn [map].
  change (omap (pos_ent w) ((tid, i) :: map (pair tid) r))
    with (match pos_ent w (tid, i) with Some y => y :: omap (pos_ent w) (map (pair tid) r) | None => omap (pos_ent w) (map (pair tid) r) end).
  rewrite IH. unfold pos_ent. cbn [fst snd]. by rewrite Ht.
Qed.

Lemma seg_positions_ents w s :
  s_end s <= length (tbl_ents w (s_tid s)) -> s_start s <= s_end s ->
  omap (pos_ent w) (seg_positions s) = seg_ents w s.
Proof.
  intros He Hs. unfold seg_positions, seg_ents. destruct (s_skip s); [done|].
  unfold tbl_ents in *. destruct (w_tables w !! s_tid s) as [t|] eqn:Ht.
  - rewrite (omap_pos_ent w _ t _ Ht). apply omap_seq_lookup. lia.
  - simpl in He. assert (s_end s - s_start s = 0) as -> by lia. done.
Qed.

Lemma enum_ents w segs :
  Forall (fun s => s_start s <= s_end s /\ s_end s <= length (tbl_ents w (s_tid s))) segs ->
  omap (pos_ent w) (enum segs) = flat_map (seg_ents w) segs.
Proof.
  induction 1 as [|s r [H1 H2] _ IH]; [done|]. unfold enum in *. simpl. rewrite omap_app, IH.
  by rewrite seg_positions_ents.
Qed.

Lemma table_ents_nonempty_eq w tids : table_ents w (nonempty_tables w tids) = table_ents w tids.
Proof.
  unfold table_ents, nonempty_tables. induction tids as [|tid r IH]; [done|].
  rewrite filter_cons. destruct (decide (table_skip w tid = false)) as [Hs|Hs]; simpl; rewrite IH; [done|].
  apply not_false_is_true in Hs. unfold table_skip, tbl_ents in *. destruct (w_tables w !! tid) as [t|]; [|done].
  apply Nat.eqb_eq in Hs. unfold tlen in Hs. by destruct (t_ents t).
Qed.

(** ** Batch.AddQ / RemoveQ / ExchangeQ, Relations.ExchangeBatchQ *)
Theorem batch_exchange_q_visits w A f add rem rel w2 h evs :
  R w A -> cache_ok w -> Forall (fun id => id < length (as_reg A)) add -> (add <> [] \/ rem <> []) ->
  op_batch_exchange_q w (FPlain f) add rem rel = (w2, Ok (VNat h), evs) ->
  exists w' n evs' q,
    op_batch_exchange w (FPlain f) add rem rel = (w', Ok (VNat n), evs') /\
    w_queries w2 = w_queries w' ++ [q] /\ h = length (w_queries w') /\ w_tables w2 = w_tables w' /\
    w_index w2 = w_index w' /\ w_pool w2 = w_pool w' /\ w_nodes w2 = w_nodes w' /\
    q_closed q = false /\
    omap (pos_ent w2) (enum (q_segs q)) = table_ents w (get_tables w f) /\
    length (enum (q_segs q)) = n.
Proof.
  intros HR C Hadd Hnonempty H. pose proof HR as [K Hr Hu He].
  unfold op_batch_exchange_q in H. unfold op_batch_exchange.
  destruct (exchange_batch_nn w (FPlain f) add rem rel) as [[[[w1 n] segs]|]|[]] eqn:Hb; simpl in H; try done.
  destruct (open_query w1 _ _) as [[w3 h3]|] eqn:Hq; [|done]. injection H as <- <- _.
  unfold open_query in Hq. destruct (locks_lock (w_tb w1) (w_locks w1)) as [[l bt]|]; [|done]. injection Hq as <- <-.
  (* the loop *)
  assert (Hloop : xloop add rem rel w (nonempty_tables w (get_tables w f)) [] false = inl (Some (w1, segs)) /\
                  n = total_len w (get_tables w f)).
  { unfold exchange_batch_nn in Hb. rewrite Hu in Hb. destruct (negb _); [done|].
    assert (Hb' : match xloop add rem rel w (nonempty_tables w (get_tables w f)) [] false with
                  | inl (Some (w1, segs)) => inl (Some (w1, total_len w (get_tables w f), segs))
                  | inl None => inr false
                  | inr p => inr p
                  end = inl (Some (w1, n, segs))).
    { destruct add, rem; try exact Hb. destruct Hnonempty; done. }
    destruct (xloop add rem rel w (nonempty_tables w (get_tables w f)) [] false) as [[[w1' segs']|]|p]; try done.
    injection Hb' as <- <- <-. done. }
  destruct Hloop as [Hloop ->].
  rewrite Hr in Hadd.
  destruct (get_tables_exact w (as_live A) f (r2_ok _ _ _ K)) as [HLnd HLmem].
  assert (Hnd : NoDup (nonempty_tables w (get_tables w f))).
  { unfold nonempty_tables. apply NoDup_filter. rewrite get_tables_contrib. by apply (selected_nodup w (as_live A)), K. }
  assert (Hne : forall tid, tid ∈ nonempty_tables w (get_tables w f) -> tbl_ents w tid <> []).
  { intros tid Hin. unfold nonempty_tables in Hin. apply elem_of_list_filter in Hin as [Hs _].
    unfold table_skip, tbl_ents in *. destruct (w_tables w !! tid) as [t|]; [|done]. apply Nat.eqb_neq in Hs. unfold tlen in Hs. by destruct (t_ents t). }
  destruct (xloop_segs (as_live A) add rem rel Hnonempty _ w [] false w1 segs Hnd (r2_ok _ _ _ K) C Hadd Hne Hloop)
    as (new & Hsegs & Hflat & Hall & _). simpl in Hsegs. subst new.
  eexists w1, _, _, _. split; [reflexivity|]. simpl.
  split; [done|]. split; [done|]. repeat (split; [done|]).
  (* the re-computed skip flags are all false *)
  set (segs' := map (fun s => mkSeg (s_tid s) (s_start s) (s_end s) (table_skip w1 (s_tid s)) (s_old s)) segs).
  assert (Hsame : segs' = segs).
  { unfold segs'. clear -Hall. induction Hall as [|s r (Hsk & Hlt & Hle & _) _ IH]; [done|]. simpl. rewrite IH. f_equal.
    assert (table_skip w1 (s_tid s) = false) as ->.
    { unfold table_skip, tbl_ents in *. destruct (w_tables w1 !! s_tid s) as [t|]; [|simpl in Hle; lia].
      apply Nat.eqb_neq. unfold tlen. lia. }
    destruct s. simpl in *. by rewrite Hsk. }
  rewrite Hsame.
  assert (Htabs : forall p, pos_ent (w1 <| w_locks := l |> <| w_queries := w_queries w1 ++ [mkQ segs (Some (add, rem)) 0 None 0 0 bt false] |>) p = pos_ent w1 p) by done.
  split.
  - match goal with |- omap (pos_ent ?x) _ = _ => change (pos_ent x) with (pos_ent w1) end.
    cbn [q_segs]. rewrite enum_ents.
    + rewrite Hflat. apply table_ents_nonempty_eq.
    + eapply Forall_impl; [exact Hall|]. intros s (_ & H1 & H2 & _). split; [lia|done].
  - (* as many positions as entities *)
    cbn [q_segs].
    assert (Hlen : length (enum segs) = length (flat_map (seg_ents w1) segs)).
    { clear -Hall. induction Hall as [|s r (Hsk & Hlt & Hle & _) _ IH]; [done|]. unfold enum in *. simpl.
      rewrite !app_length, IH. f_equal. unfold seg_positions, seg_ents. rewrite Hsk, map_length, seq_length, take_length, drop_length. lia. }
    rewrite Hlen, Hflat, table_ents_nonempty_eq. by rewrite total_len_ents.
Qed.

(** ** Builder.NewBatchQ: the query visits exactly the new entities, in creation order *)
Definition ents_same (w w' : world) : Prop :=
  forall tid, tbl_ents w' tid = tbl_ents w tid.

Lemma set_comp_ents w e id v w' : set_comp w e id v = Some w' -> ents_same w w'.
Proof.
  unfold set_comp. intros H tid.
  destruct (chk_alive w e) as [[]|]; try done. destruct (loc w e) as [[tid0 row]|]; [|done].
  destruct (w_tables w !! tid0) as [t|] eqn:Ht; [|done]. destruct (w_nodes w !! t_node t); [|done].
  destruct (col_of n id); [|done]. destruct (reg_is_zs w id); injection H as <-; [done|].
  unfold tbl_ents, upd_table. simpl. destruct (decide (tid = tid0)) as [->|Hne].
  - rewrite list_lookup_insert by (by apply lookup_lt_Some in Ht). by rewrite Ht.
  - by rewrite list_lookup_insert_ne.
Qed.

Lemma set_comps_ents cs : forall w e, ents_same w (set_comps w e cs).
Proof.
  unfold set_comps. induction cs as [|[id v] r IH]; intros w e tid; simpl; [done|].
  destruct (set_comp w e id v) as [w1|] eqn:H; simpl; [|apply IH].
  rewrite IH. by apply (set_comp_ents w e id v).
Qed.

Lemma create_entities_ents w tid n t nd :
  w_tables w !! tid = Some t -> w_nodes w !! t_node t = Some nd ->
  tbl_ents (create_entities w tid n).1 tid = t_ents t ++ (create_entities w tid n).2.
Proof.
  intros Ht Hnd. unfold create_entities. rewrite Ht, Hnd.
  destruct (pool_get_n (w_pool w) n) as [p es]. unfold tbl_allocn.
  destruct (foldl _ _ _) as [idx tb]. unfold tbl_ents, upd_table. simpl.
  rewrite list_lookup_insert by (by apply lookup_lt_Some in Ht). simpl.
  unfold tbl_extend. by destruct (_ <=? _).
Qed.

Theorem batch_new_q_visits w A count b target w2 h evs :
  R w A -> ids_reg A (b_ids b) ->
  op_new_batch_q w count b target = (w2, Ok (VNat h), evs) ->
  exists w' es evs' q,
    op_new_batch w count b target = (w', Ok (VEnts es), evs') /\
    w_queries w2 = w_queries w' ++ [q] /\ h = length (w_queries w') /\ w_tables w2 = w_tables w' /\
    w_index w2 = w_index w' /\ w_pool w2 = w_pool w' /\ w_nodes w2 = w_nodes w' /\
    q_closed q = false /\
    omap (pos_ent w2) (enum (q_segs q)) = es.
Proof.
  intros HR Hids H. pose proof HR as [K Hr Hu He]. unfold ids_reg in Hids. rewrite Hr in Hids.
  unfold op_new_batch_q in H. unfold op_new_batch.
  destruct (new_entities_nn w count b target) as [[[[w4 tid] start] es]|] eqn:Hn; [|done].
  destruct (open_query w4 _ _) as [[w3 h3]|] eqn:Hq; [|done]. injection H as <- <- _.
  unfold open_query in Hq. destruct (locks_lock (w_tb w4) (w_locks w4)) as [[l bt]|]; [|done]. injection Hq as <- <-.
  destruct (table_mask_rel w4 tid) as [m r].
  eexists w4, es, _, _. split; [reflexivity|]. simpl. split; [done|]. split; [done|]. do 5 (split; [done|]).
  (* where the new entities sit *)
  unfold new_entities_nn in Hn. rewrite Hu in Hn.
  set (tg := default ezero target) in *.
  assert (Hbody :
    (if (count <? 1)%Z then None else
     if negb (target_ok w tg) then None else
     match (match b_ids b with [] => Some (w, 0) | _ => find_or_create_table w 0 (b_ids b) [] tg end) with
     | None => None
     | Some (w1, tid0) =>
         if match target, b_rel b with Some _, Some rid => negb (check_relation w1 tid0 rid) | _, _ => false end then None else
         let w2 := match target with Some t => set_tbit w1 t | None => w1 end in
         let start0 := match w_tables w2 !! tid0 with Some t => tlen t | None => 0 end in
         let '(w3, es1) := create_entities w2 tid0 (Z.to_nat count) in
         Some (foldl (fun w e => set_comps w e (b_comps b)) w3 es1, tid0, start0, es1)
     end) = Some (w4, tid, start, es)).
  { destruct target as [t|]; [destruct (b_rel b); [exact Hn|done]|destruct (b_rel b); exact Hn]. }
  clear Hn. destruct (count <? 1)%Z eqn:Hcnt; [done|]. apply Z.ltb_ge in Hcnt.
  destruct (negb (target_ok w tg)); [done|].
  destruct (match b_ids b with [] => Some (w, 0) | _ => find_or_create_table w 0 (b_ids b) [] tg end) as [[w1 tid0]|] eqn:Hf; [|done].
  destruct K as [[S G] P L].
  destruct (new_table_rok w (b_ids b) tg w1 tid0 G Hids Hf) as (E & G1 & dt & dn & Hdt & Hdn & _).
  destruct (match target, b_rel b with Some _, Some rid => negb (check_relation w1 tid0 rid) | _, _ => false end); [done|].
  set (wt := match target with Some t => set_tbit w1 t | None => w1 end) in *. cbv zeta in Hbody.
  assert (Hdt2 : w_tables wt !! tid0 = Some dt /\ w_nodes wt !! t_node dt = Some dn).
  { unfold wt. destruct target as [t|]; [|done]. unfold set_tbit. by destruct (ent_is_zero t). }
  destruct Hdt2 as [Hdt2 Hdn2]. rewrite Hdt2 in Hbody.
  pose proof (create_entities_ents wt tid0 (Z.to_nat count) dt dn Hdt2 Hdn2) as Hents.
  destruct (create_entities wt tid0 (Z.to_nat count)) as [w5 es1]. cbn [fst snd] in Hents.
  injection Hbody as <- <- <- <-.
  assert (Hfold : forall (ll : list Entity) w0, tbl_ents (foldl (fun w0 e => set_comps w0 e (b_comps b)) w0 ll) tid0 = tbl_ents w0 tid0).
  { clear. induction ll as [|e r IH]; intros w0; [done|]. simpl. rewrite IH. apply set_comps_ents. }
  assert (Hfin : tbl_ents (foldl (fun w0 e => set_comps w0 e (b_comps b)) w5 es1) tid0 = t_ents dt ++ es1) by (by rewrite Hfold).
  set (wfin := foldl (fun w0 e => set_comps w0 e (b_comps b)) w5 es1) in *.
  match goal with |- omap (pos_ent ?x) _ = _ => change (pos_ent x) with (pos_ent wfin) end.
  cbn [q_segs]. unfold enum. cbn [flat_map]. rewrite app_nil_r.
  destruct es1 as [|e0 es1'].
  - (* no entity (count was at least 1, so this does not happen; the statement holds anyway) *)
    unfold seg_positions. cbn [s_skip s_start s_end]. rewrite Nat.add_0_r, Nat.sub_diag. by destruct (table_skip _ _).
  - assert (Hskipf : table_skip wfin tid0 = false).
    { unfold table_skip. unfold tbl_ents in Hfin. destruct (w_tables wfin !! tid0) as [tf|]; [|by destruct (t_ents dt)].
      apply Nat.eqb_neq. unfold tlen. rewrite Hfin, app_length. simpl. lia. }
    rewrite seg_positions_ents.
    + unfold seg_ents. cbn [s_skip s_start s_end s_tid]. rewrite Hskipf, Hfin.
      unfold tlen. rewrite drop_app_alt by done. replace (length (t_ents dt) + length (e0 :: es1') - length (t_ents dt)) with (length (e0 :: es1')) by lia.
      by rewrite firstn_all.
    + cbn [s_end s_tid]. rewrite Hfin, app_length. unfold tlen. lia.
    + cbn [s_start s_end]. lia.
Qed.

(** ** Batch.SetRelationQ: segments of the re-targeted tables *)
Lemma set_relation_table_seg w live src st rid target w' sg :
  world_okr w live -> cache_ok w -> w_tables w !! src = Some st -> t_ents st <> [] ->
  set_relation_table w src rid target = Some (Some (w', sg)) ->
  exists dt' pre, w_tables w' !! s_tid sg = Some dt' /\ t_ents dt' = pre ++ t_ents st /\
    s_start sg = length pre /\ s_end sg = length pre + tlen st /\ s_skip sg = false /\ s_tid sg <> src /\
    t_target dt' = target /\ t_target st <> target /\
    (forall t, w_tables w !! s_tid sg = Some t -> t_ents t <> [] -> t_target t = target /\ pre = t_ents t /\ t_node t = t_node st) /\
    t_node dt' = t_node st /\
    exists sn, w_nodes w !! t_node st = Some sn /\ n_rel sn = Some rid /\ s_old sg = Some (n_mask sn, n_rel sn, t_target st).
Proof.
  intros [S G] C Hst Hstne H.
  unfold set_relation_table in H. rewrite Hst in H.
  destruct (so_table _ _ S src st Hst) as (sn & Hsn & Hsok). rewrite Hsn in H.
  destruct (ent_eqb (t_target st) target) eqn:Heq; [done|]. apply ent_eqb_neq in Heq.
  destruct (negb (check_relation w src rid)) eqn:Hchk; [done|]. apply negb_false_iff in Hchk.
  unfold check_relation in Hchk. rewrite Hst, Hsn in Hchk.
  destruct (n_rel sn) as [r|] eqn:Hrel; [|done]. apply Nat.eqb_eq in Hchk as ->.
  assert (Hdst : exists w1 dst dt dn, (match node_get_table sn target with
                            | Some tid => (w, tid)
                            | None => create_table w (t_node st) target true
                            end) = (w1, dst) /\ ext_r w w1 /\ rgraph_ok w1 /\
            w_tables w1 !! dst = Some dt /\ t_node dt = t_node st /\ t_target dt = target /\
            w_nodes w1 !! t_node st = Some dn).
  { destruct (node_get_table sn target) as [tid|] eqn:Hget.
    - unfold node_get_table in Hget. rewrite (proj2 (node_has_rel_true sn) (ex_intro _ rid Hrel)) in Hget.
      destruct (rg_tmap _ G _ sn target tid Hsn Hget) as (t & Ht & Htn & Htt & Hta).
      exists w, tid, t, sn. split; [done|]. split; [apply ext_r_refl|]. done.
    - pose proof (create_table_rok w (t_node st) sn target true G Hsn Hget) as Hc.
      destruct (create_table w (t_node st) target true) as [wc tid].
      destruct Hc as (E3 & G3 & t & nd' & Ht & Htn & _ & Hta & Htt & Hnd' & Hmn & Hrn & Hin).
      rewrite (proj2 (node_has_rel_true sn) (ex_intro _ rid Hrel)) in Htt.
      exists wc, tid, t, nd'. done. }
  destruct Hdst as (w1 & dst & dt & dn & Hgt & E & G1 & Hdt & Hdtn & Hdtt & Hdn).
  rewrite Hgt in H.
  assert (S1 : store_ok w1 live) by (by eapply ext_r_store_ok).
  assert (Hst1 : w_tables w1 !! src = Some st).
  { destruct (xr_tables _ _ E src st Hst) as (t' & Ht' & _ & _ & _ & _ & Q). by rewrite (Q Hstne) in Ht'. }
  assert (Hsd : src <> dst) by (intros <-; rewrite Hst1 in Hdt; by injection Hdt as <-).
  assert (Hdn' : w_nodes w1 !! t_node dt = Some dn) by (by rewrite Hdtn).
  assert (Hcap : 0 < node_capinc w1 dn).
  { unfold node_capinc. destruct (rg_capinc _ G1). by destruct (node_has_rel dn). }
  pose proof (move_all_ok w1 live src dst (n_mask sn) st dt dn dn S1 Hsd Hst1 Hdt Hdn Hdn' Hcap) as HM.
  destruct (move_all w1 src dst (n_mask sn)) as [w2 start]. simpl in HM.
  destruct HM as (_ & _ & _ & _ & _ & _ & _ & _ & _ & _ & _ & (dt2 & Hdt2' & Hdt2e & Hdt2n & Hdt2t & _) & Hstartv).
  set (w3 := set_tbit w2 target) in *.
  assert (Ht3 : w_tables w3 = w_tables w2) by (unfold w3, set_tbit; by destruct (ent_is_zero target)).
  assert (Hoth4 : forall tid, tid <> src -> w_tables (cleanup_table w3 src) !! tid = w_tables w3 !! tid).
  { intros tid Hne. unfold cleanup_table. destruct (w_tables w3 !! src) as [tt|]; [|done].
    destruct (w_nodes w3 !! t_node tt); [|done]. destruct (_ || _); [done|]. destruct (_ || _); [done|].
    unfold retire_table. destruct (w_tables w3 !! src) as [t5|]; [|done]. destruct (w_nodes w3 !! t_node t5); [|done].
    simpl. by rewrite list_lookup_insert_ne. }
  assert (Hfin : w_tables (cleanup_table w3 src) !! dst = Some dt2) by (rewrite Hoth4 by done; by rewrite Ht3).
  rewrite Hfin in H. injection H as <- <-.
  exists dt2, (t_ents dt). cbn [s_tid s_start s_end s_skip s_old].
  split; [done|]. split; [done|]. rewrite Hstartv. unfold tlen. split; [done|]. split; [by rewrite Hdt2e, app_length|].
  split; [done|]. split; [done|]. split; [congruence|]. split; [done|].
  split.
  { intros t Ht Hne. destruct (xr_tables _ _ E dst t Ht) as (t' & Ht' & _ & _ & _ & _ & Q).
    rewrite Hdt in Ht'. injection Ht' as <-. rewrite (Q Hne) in *. done. }
  split; [congruence|]. exists sn. by rewrite Hrel.
Qed.

Definition moved_b (T : Entity) (w : world) (tid : nat) : bool :=
  match w_tables w !! tid with Some t => negb (ent_eqb (t_target t) T) | None => false end.
Definition retargeted (T : Entity) (w : world) (l : list nat) : list nat :=
  filter (fun tid => moved_b T w tid = true) l.

Lemma srloop_segs live rid T : forall l w segs0 pr w' segs,
  NoDup l -> world_okr w live -> cache_ok w ->
  (forall tid, tid ∈ l -> tbl_ents w tid <> []) ->
  srloop rid T w l segs0 pr = inl (Some (w', segs)) ->
  exists new, segs = segs0 ++ new /\ flat_map (seg_ents w') new = table_ents w (retargeted T w l) /\
    Forall (fun s => s_skip s = false /\ s_start s < s_end s /\ s_end s <= length (tbl_ents w' (s_tid s)) /\
                     exists om orl ot, s_old s = Some (om, orl, ot) /\ ot <> T /\
                       forall e, e ∈ seg_ents w' s ->
                         e ∈ live /\ ent_mask w e = Some om /\ ent_rel w e = Some orl /\ ent_target w e = Some ot) new /\
    (forall tid0 t0, w_tables w !! tid0 = Some t0 -> t_ents t0 <> [] -> (tid0 ∉ l \/ t_target t0 = T) ->
       exists t0', w_tables w' !! tid0 = Some t0' /\ t_ents t0 `prefix_of` t_ents t0' /\ t_target t0' = t_target t0).
Proof.
  induction l as [|tid r IH]; intros w segs0 pr w' segs Hnd K C Hne H.
  { simpl in H. injection H as <- <-. exists []. rewrite app_nil_r. split; [done|]. split; [done|]. split; [constructor|].
    intros tid0 t0 Ht0 _ _. by exists t0. }
  apply NoDup_cons in Hnd as [Hnotin Hnd].
  assert (Htne : tbl_ents w tid <> []) by (apply Hne, elem_of_list_here).
  unfold srloop in H. simpl in H.
  assert (Hskip : table_skip w tid = false).
  { unfold table_skip, tbl_ents in *. destruct (w_tables w !! tid) as [t|]; [|done]. apply Nat.eqb_neq. unfold tlen. by destruct (t_ents t). }
  rewrite Hskip in H.
  destruct (w_tables w !! tid) as [st|] eqn:Hst; [|unfold tbl_ents in Htne; by rewrite Hst in Htne].
  rewrite (tbl_ents_ne w tid st Hst) in Htne.
  destruct (set_relation_table w tid rid T) as [[[w1 s]|]|] eqn:Hx; simpl in H; [| |done].
  - (* the table is moved *)
    destruct (set_relation_table_rok w live tid st rid T w1 s K C Hst Htne Hx)
      as (sn & dst & Hsn & Hrel & Htgne & Hsd & K1 & C1 & F1 & Hp1 & Hil1 & HN1 & Hoth1 & Hmoved1 & Htab1 & Hdst1).
    destruct (set_relation_table_seg w live tid st rid T w1 s K C Hst Htne Hx)
      as (dt' & pre & Hdt' & Hdte & Hss & Hse & Hsk & Hsne & Hdtt & _ & Hdstw & _ & sn0 & Hsn0 & _ & Hsold).
    (* what the first step does to any non-empty table of w other than the source *)
    assert (Hstep : forall tid0 t0, tid0 <> tid -> w_tables w !! tid0 = Some t0 -> t_ents t0 <> [] ->
              exists t1, w_tables w1 !! tid0 = Some t1 /\ t_ents t0 `prefix_of` t_ents t1 /\
                ((tid0 <> s_tid s /\ t1 = t0) \/ (tid0 = s_tid s /\ t_target t0 = T /\ t_target t1 = T /\ t_ents t1 = t_ents t0 ++ t_ents st))).
    { intros tid0 t0 Hne0 Ht0 Hnn. destruct (decide (tid0 = s_tid s)) as [->|Hd].
      - destruct (Hdstw t0 Ht0 Hnn) as (Htt & -> & _). exists dt'. split; [done|]. split; [rewrite Hdte; by apply prefix_app_r|].
        right. done.
      - (* not the segment's table: is it the destination named by the other lemma? *)
        destruct (decide (tid0 = dst)) as [->|Hdd].
        + destruct (Hdst1 t0 Ht0) as (t1 & Ht1 & He1 & _).
          (* then it received the entities, as the segment's table did: the same table *)
          exfalso. destruct (t_ents st) as [|e0 es0] eqn:Hes; [done|].
          assert (Hin1 : e0 ∈ t_ents t1) by (rewrite He1; apply elem_of_app; right; apply elem_of_list_here).
          assert (Hin2 : e0 ∈ t_ents dt') by (rewrite Hdte; apply elem_of_app; right; apply elem_of_list_here).
          apply elem_of_list_lookup in Hin1 as [i1 Hi1]. apply elem_of_list_lookup in Hin2 as [i2 Hi2].
          destruct (so_rows _ _ (wr_store _ _ K1) dst t1 i1 e0 Ht1 Hi1) as [_ L1].
          destruct (so_rows _ _ (wr_store _ _ K1) (s_tid s) dt' i2 e0 Hdt' Hi2) as [_ L2].
          rewrite L1 in L2. injection L2 as Heq _. by apply Hd.
        + exists t0. split; [by apply Htab1|]. split; [done|]. by left. }
    assert (Hne1 : forall tid', tid' ∈ r -> tbl_ents w1 tid' <> []).
    { intros tid' Hin. assert (tid' <> tid) by (intros ->; done).
      pose proof (Hne tid' (elem_of_list_further _ _ _ Hin)) as Hn'. unfold tbl_ents in Hn' |- *.
      destruct (w_tables w !! tid') as [t|] eqn:Ht; [|done].
      destruct (Hstep tid' t H0 Ht Hn') as (t1 & -> & [ext Hp] & _). rewrite Hp. intros Hx'. apply app_eq_nil in Hx' as [? _]. done. }
    destruct (IH w1 (segs0 ++ [s]) true w' segs Hnd K1 C1 Hne1 H) as (new & -> & Hflat & Hall & Hpre).
    (* the segment's table holds the moved entities at the end *)
    assert (Hne_dt : t_ents dt' <> []) by (rewrite Hdte; intros Hx'; apply app_eq_nil in Hx' as [_ ?]; done).
    destruct (Hpre (s_tid s) dt' Hdt' Hne_dt (or_intror Hdtt)) as (dt'' & Hdt'' & Hpfx & _).
    assert (Hsegents : seg_ents w' s = t_ents st).
    { unfold seg_ents. rewrite Hsk, Hss, Hse. rewrite (tbl_ents_ne _ _ _ Hdt'').
      destruct Hpfx as [ext Hext]. rewrite Hext, Hdte, <- app_assoc.
      rewrite drop_app_alt by done. replace (length pre + tlen st - length pre) with (length (t_ents st)) by (unfold tlen; lia).
      by rewrite take_app. }
    (* the remaining re-targeted tables and their entities are those of w *)
    assert (Hsame : forall tid', tid' ∈ r ->
              moved_b T w1 tid' = moved_b T w tid' /\ (moved_b T w tid' = true -> tbl_ents w1 tid' = tbl_ents w tid')).
    { intros tid' Hin. assert (tid' <> tid) by (intros ->; done).
      pose proof (Hne tid' (elem_of_list_further _ _ _ Hin)) as Hn'. unfold moved_b, tbl_ents in Hn' |- *.
      destruct (w_tables w !! tid') as [t|] eqn:Ht; [|done].
      destruct (Hstep tid' t H0 Ht Hn') as (t1 & -> & _ & [[_ ->]|(_ & Ht0 & Ht1 & _)]); [done|].
      rewrite Ht0, Ht1, ent_eqb_refl. done. }
    exists (s :: new). split; [by rewrite <- app_assoc|]. split.
    + (* entities *)
      assert (Hret : retargeted T w (tid :: r) = tid :: retargeted T w r).
      { unfold retargeted. rewrite filter_cons. rewrite decide_True; [done|]. unfold moved_b. rewrite Hst.
        apply negb_true_iff. by apply ent_eqb_neq. }
      rewrite Hret. cbn [flat_map table_ents]. f_equal.
      * by rewrite Hsegents, (tbl_ents_ne _ _ _ Hst).
      * rewrite Hflat.
        unfold table_ents, retargeted. clear -Hsame. induction r as [|x l IHl]; [done|].
        assert (Hx := Hsame x (elem_of_list_here _ _)).
        assert (Hl : forall tid', tid' ∈ l -> moved_b T w1 tid' = moved_b T w tid' /\ (moved_b T w tid' = true -> tbl_ents w1 tid' = tbl_ents w tid'))
          by (intros tid' Hin; apply (Hsame tid'); by apply elem_of_list_further).
        specialize (IHl Hl). rewrite !filter_cons. destruct Hx as [Heqb Hents]. rewrite Heqb.
        destruct (decide (moved_b T w x = true)) as [D1|D1]; [|exact IHl].
        simpl. rewrite IHl. f_equal. by apply Hents.
    + split.
      * constructor.
        { split; [done|]. rewrite Hss, Hse, (tbl_ents_ne _ _ _ Hdt'').
          destruct Hpfx as [ext Hext]. rewrite Hext, Hdte, !app_length. unfold tlen in *. split; [|split; [lia|]].
          { destruct (t_ents st); [done|simpl; lia]. }
          exists (n_mask sn0), (n_rel sn0), (t_target st). split; [done|]. split; [done|].
          intros e He. rewrite Hsegents in He. apply elem_of_list_lookup in He as [i Hi].
          destruct (so_rows _ _ (wr_store _ _ K) tid st i e Hst Hi) as [Hlive Hloc]. split; [done|].
          apply (views_of_row w live e tid i st sn0 (wr_store _ _ K) Hlive Hloc Hst Hsn0). }
        eapply Forall_impl_mem; [exact Hall|]. intros s0 Hs0 (A1 & A2 & A3 & om & orl & ot & B1 & Bne & B2).
        split; [done|]. split; [done|]. split; [done|]. exists om, orl, ot. split; [done|]. split; [done|].
        intros e He. destruct (B2 e He) as (Hlive & V1 & V2 & V3).
        assert (Hin_flat : e ∈ flat_map (seg_ents w') new) by (apply elem_of_list_In, in_flat_map; exists s0; split; apply elem_of_list_In; done).
        rewrite Hflat in Hin_flat. unfold table_ents in Hin_flat. apply elem_of_list_In, in_flat_map in Hin_flat as (tid' & Hin' & Hmem).
        apply elem_of_list_In in Hin', Hmem. unfold retargeted in Hin'. apply elem_of_list_filter in Hin' as [Hmv Hin'].
        destruct (Hsame tid' Hin') as [Hmb Hents]. rewrite Hmb in Hmv. rewrite (Hents Hmv) in Hmem.
        assert (Hnst : e ∉ t_ents st).
        { assert (tid' <> tid) by (intros ->; done).
          unfold tbl_ents in Hmem. destruct (w_tables w !! tid') as [t|] eqn:Ht; [|by apply elem_of_nil in Hmem].
          apply elem_of_list_lookup in Hmem as [row Hrow]. destruct (so_rows _ _ (wr_store _ _ K) tid' t row e Ht Hrow) as [_ Hloc].
          intros Hm. apply elem_of_list_lookup in Hm as [i Hi].
          destruct (so_rows _ _ (wr_store _ _ K) tid st i e Hst Hi) as [_ Hloc2]. rewrite Hloc in Hloc2. injection Hloc2 as -> _. done. }
        assert (Hc1 : ent_cells w1 e = ent_cells w e) by (by apply Hoth1).
        destruct (views_same w w1 live e (wr_store _ _ K) Hlive HN1 Hc1) as (X1 & X2 & X3 & _).
        split; [done|]. split; [congruence|]. split; congruence.
      * intros tid0 t0 Ht0 Hnn Hcond.
        assert (Hne0 : tid0 <> tid).
        { intros ->. rewrite Hst in Ht0. injection Ht0 as <-. destruct Hcond as [Hc|Hc]; [apply Hc, elem_of_list_here|done]. }
        destruct (Hstep tid0 t0 Hne0 Ht0 Hnn) as (t1 & Ht1 & Hp1' & Hcase).
        assert (Hnn1 : t_ents t1 <> []).
        { destruct Hp1' as [ext Hp]. rewrite Hp. intros Hx'. apply app_eq_nil in Hx' as [? _]. done. }
        assert (Hcond1 : tid0 ∉ r \/ t_target t1 = T).
        { destruct Hcase as [[_ ->]|(_ & _ & Htt1 & _)]; [|by right].
          destruct Hcond as [Hc|Hc]; [left; intros Hin; apply Hc; by apply elem_of_list_further|by right]. }
        destruct (Hpre tid0 t1 Ht1 Hnn1 Hcond1) as (t2 & Ht2 & Hp2 & Htg2).
        exists t2. split; [done|]. split; [by etrans|].
        destruct Hcase as [[_ ->]|(_ & Htt0 & Htt1 & _)]; congruence.
  - (* the table already has the target: skipped *)
    assert (Htg : t_target st = T).
    { unfold set_relation_table in Hx. rewrite Hst in Hx. destruct (w_nodes w !! t_node st); [|done].
      destruct (ent_eqb (t_target st) T) eqn:Heq; [by apply ent_eqb_eq in Heq|]. destruct (negb _); [done|].
      destruct (match node_get_table _ _ with Some tid0 => _ | None => _ end). destruct (move_all _ _ _ _). done. }
    assert (Hne' : forall tid', tid' ∈ r -> tbl_ents w tid' <> []) by (intros tid' Hin; apply Hne; by apply elem_of_list_further).
    destruct (IH w segs0 pr w' segs Hnd K C Hne' H) as (new & -> & Hflat & Hall & Hpre).
    exists new. split; [done|]. split.
    + rewrite Hflat. unfold retargeted. rewrite filter_cons. rewrite decide_False; [done|]. unfold moved_b. rewrite Hst, Htg, ent_eqb_refl. done.
    + split; [done|]. intros tid0 t0 Ht0 Hnn Hcond. apply Hpre; try done.
      destruct Hcond as [Hc|Hc]; [left; intros Hin; apply Hc; by apply elem_of_list_further|by right].
Qed.

Lemma table_ents_retargeted_nonempty T w tids :
  table_ents w (retargeted T w (nonempty_tables w tids)) = table_ents w (retargeted T w tids).
Proof.
  unfold table_ents, retargeted, nonempty_tables. induction tids as [|tid r IH]; [done|].
  rewrite (filter_cons _ tid r). destruct (decide (table_skip w tid = false)) as [Hs|Hs].
  - rewrite !filter_cons. destruct (decide (moved_b T w tid = true)); simpl; by rewrite IH.
  - rewrite filter_cons. destruct (decide (moved_b T w tid = true)); simpl; rewrite IH; [|done].
    apply not_false_is_true in Hs. unfold table_skip, tbl_ents in *. destruct (w_tables w !! tid) as [t|]; [|done].
    apply Nat.eqb_eq in Hs. unfold tlen in Hs. by destruct (t_ents t).
Qed.

(** ** Batch.SetRelationQ / Relations.SetBatchQ *)
Theorem batch_set_relation_q_visits w A f rid T w2 h evs :
  R w A -> cache_ok w ->
  op_batch_set_relation_q w (FPlain f) rid T = (w2, Ok (VNat h), evs) ->
  exists w' n evs' q,
    op_batch_set_relation w (FPlain f) rid T = (w', Ok (VNat n), evs') /\
    w_queries w2 = w_queries w' ++ [q] /\ h = length (w_queries w') /\ w_tables w2 = w_tables w' /\
    w_index w2 = w_index w' /\ w_pool w2 = w_pool w' /\ w_nodes w2 = w_nodes w' /\
    q_closed q = false /\
    omap (pos_ent w2) (enum (q_segs q)) = table_ents w (retargeted T w (get_tables w f)).
Proof.
  intros HR C H. pose proof HR as [K Hr Hu He].
  unfold op_batch_set_relation_q in H. unfold op_batch_set_relation.
  destruct (set_relation_batch_nn w (FPlain f) rid T) as [[[[w1 n] segs]|]|[]] eqn:Hb; simpl in H; try done.
  destruct (open_query w1 _ _) as [[w3 h3]|] eqn:Hq; [|done]. injection H as <- <- _.
  unfold open_query in Hq. destruct (locks_lock (w_tb w1) (w_locks w1)) as [[l bt]|]; [|done]. injection Hq as <- <-.
  assert (Hloop : srloop rid T w (nonempty_tables w (get_tables w f)) [] false = inl (Some (w1, segs))).
  { unfold set_relation_batch_nn in Hb. rewrite Hu in Hb. destruct (negb _); [done|]. cbn [arg_tables] in Hb.
    change (batch_loop (fun w tid => set_relation_table w tid rid T)) with (srloop rid T) in Hb.
    destruct (srloop rid T w (nonempty_tables w (get_tables w f)) [] false) as [[[w1' segs']|]|p]; try done.
    by injection Hb as <- _ <-. }
  assert (Hnd : NoDup (nonempty_tables w (get_tables w f))).
  { unfold nonempty_tables. apply NoDup_filter. rewrite get_tables_contrib. by apply (selected_nodup w (as_live A)), K. }
  assert (Hne : forall tid, tid ∈ nonempty_tables w (get_tables w f) -> tbl_ents w tid <> []).
  { intros tid Hin. unfold nonempty_tables in Hin. apply elem_of_list_filter in Hin as [Hs _].
    unfold table_skip, tbl_ents in *. destruct (w_tables w !! tid) as [t|]; [|done]. apply Nat.eqb_neq in Hs. unfold tlen in Hs. by destruct (t_ents t). }
  destruct (srloop_segs (as_live A) rid T _ w [] false w1 segs Hnd (r2_ok _ _ _ K) C Hne Hloop)
    as (new & Hsegs & Hflat & Hall & _). simpl in Hsegs. subst new.
  eexists w1, _, _, _. split; [reflexivity|]. simpl.
  split; [done|]. split; [done|]. repeat (split; [done|]).
  set (segs' := map (fun s => mkSeg (s_tid s) (s_start s) (s_end s) (table_skip w1 (s_tid s)) (s_old s)) segs).
  assert (Hsame : segs' = segs).
  { unfold segs'. clear -Hall. induction Hall as [|s r (Hsk & Hlt & Hle & _) _ IH]; [done|]. simpl. rewrite IH. f_equal.
    assert (table_skip w1 (s_tid s) = false) as ->.
    { unfold table_skip, tbl_ents in *. destruct (w_tables w1 !! s_tid s) as [t|]; [|simpl in Hle; lia].
      apply Nat.eqb_neq. unfold tlen. lia. }
    destruct s. simpl in *. by rewrite Hsk. }
  rewrite Hsame.
  match goal with |- omap (pos_ent ?x) _ = _ => change (pos_ent x) with (pos_ent w1) end.
  cbn [q_segs]. rewrite enum_ents.
  - rewrite Hflat. apply table_ents_retargeted_nonempty.
  - eapply Forall_impl; [exact Hall|]. intros s (_ & H1 & H2 & _). split; [lia|done].
Qed.
