(** * The lock mask of /repo (ecs/util.go lockMask over ecs/pool.go bitPool), as
    translated into [Gen/GoLocks.v], implements the model's lock state: on related states
    Lock, Unlock, IsLocked and Reset return what [Model/Pool.v] returns, panics included
    (bit exhaustion, unbalanced unlock), and so does every call sequence. *)
From Arche Require Import Model.Base Model.Pool Proofs.Bits Proofs.Locks Proofs.GoLemmas.
From Arche Require Import Pure.MachInt Pure.GoRt Gen.Mask64 Pure.MaskProofs64 Gen.GoLocks64.
From Coq Require Import ZifyN ZifyNat.
Local Open Scope nat_scope.

(** ** bitPool + lockMask (tiny build: 64 lock bits) *)
Lemma mbit_zero j : mbit mask_zero j = false.
Proof. unfold mbit, mask_zero. simpl. by destruct j. Qed.

Record lock_rel (g : go_lockMask) (l : lockstate) : Prop := {
  lr_wf : WF (lockMask_locks g);
  lr_mask : forall b, b < 64 -> mbit (lockMask_locks g) (N.of_nat b) = bit (l_mask l) b;
  lr_bits_len : length (bitPool_bits (lockMask_bitPool g)) = 64;
  lr_bits : forall i x, i < l_len l -> l_bits l !! i = Some x ->
              nth i (bitPool_bits (lockMask_bitPool g)) 0%N = N.of_nat x;
  lr_len : bitPool_length (lockMask_bitPool g) = N.of_nat (l_len l);
  lr_next : bitPool_next (lockMask_bitPool g) = N.of_nat (l_next l);
  lr_avail : bitPool_available (lockMask_bitPool g) = N.of_nat (l_avail l);
}.

Lemma mask_set_rel m lm b v :
  WF m -> b < 64 -> (forall j, j < 64 -> mbit m (N.of_nat j) = bit lm j) ->
  WF (Mask_Set m (N.of_nat b) v) /\
  forall j, j < 64 -> mbit (Mask_Set m (N.of_nat b) v) (N.of_nat j) = bit (setb lm b v) j.
Proof.
  intros Hwf Hb Hm. split; [apply Set_WF; [lia|done]|].
  intros j Hj. rewrite Set_spec by lia. rewrite bit_setb.
  destruct (N.eqb_spec (N.of_nat j) (N.of_nat b)) as [Heq|Hne].
  - apply Nat2N.inj in Heq. subst. by rewrite decide_True.
  - rewrite decide_False by (intros ->; done). by apply Hm.
Qed.

Theorem Lock_tie g l held frees :
  lock_rel g l -> lock_inv 64 l held frees ->
  match locks_lock 64 l with
  | Some (l', b) => exists g', lockMask_Lock g = Ret (g', N.of_nat b) /\ lock_rel g' l'
  | None => lockMask_Lock g = Panicked
  end.
Proof.
  intros R I. unfold locks_lock, lockMask_Lock, bitPool_Get.
  rewrite (lr_avail _ _ R).
  pose proof (li_len _ _ _ _ I) as Hlen64.
  destruct (l_avail l =? 0) eqn:Hav.
  - apply Nat.eqb_eq in Hav. rewrite Hav. cbn [N.of_nat N.eqb].
    unfold bitPool_getNew. rewrite (lr_len _ _ R).
    destruct (64 <=? l_len l) eqn:Hfull.
    + apply Nat.leb_le in Hfull.
      assert (N.leb 64 (N.of_nat (l_len l)) = true) as -> by (apply N.leb_le; lia). done.
    + apply Nat.leb_gt in Hfull.
      assert (N.leb 64 (N.of_nat (l_len l)) = false) as -> by (apply N.leb_gt; lia).
      cbv zeta. assert (N.ltb (N.of_nat (l_len l)) 64 = true) as -> by (apply N.ltb_lt; lia).
      unfold go_guard. cbn [rbind fst snd].
      rewrite wrap_small by (change (2 ^ 8)%N with 256%N; lia).
      cbn [set_bitPool_bits set_bitPool_length bitPool_bits bitPool_length set_lockMask_bitPool
           lockMask_locks lockMask_bitPool set_lockMask_locks].
      destruct (mask_set_rel (lockMask_locks g) (l_mask l) (l_len l) true (lr_wf _ _ R) Hfull (lr_mask _ _ R)) as [Hwf' Hm'].
      eexists. split; [reflexivity|].
      split; cbn.
      * done.
      * done.
      * unfold a_set. by rewrite list_upd_length, (lr_bits_len _ _ R).
      * intros i x Hi Hx. unfold a_set. rewrite Nat2N.id.
        destruct (decide (i = l_len l)) as [->|Hne].
        -- rewrite list_upd_nth_eq by (rewrite (lr_bits_len _ _ R); lia).
           rewrite list_lookup_insert in Hx by (rewrite (li_bits_len _ _ _ _ I); lia). by inversion Hx.
        -- rewrite list_upd_nth_ne by done. rewrite list_lookup_insert_ne in Hx by done.
           apply (lr_bits _ _ R); [lia|done].
      * rewrite ?(lr_len _ _ R). unfold add_w. rewrite wrap_small by (change (2 ^ 16)%N with 65536%N; lia). lia.
      * apply R.
      * apply R.
  - apply Nat.eqb_neq in Hav.
    assert (N.eqb (N.of_nat (l_avail l)) 0 = false) as -> by (apply N.eqb_neq; lia).
    destruct frees as [|i r]; [pose proof (li_frees_len _ _ _ _ I); simpl in *; lia|].
    pose proof (li_chain _ _ _ _ I) as Hc. simpl in Hc.
    destruct Hc as [Hnext (link & Hl & _)]. rewrite Hnext in *. rewrite Hl.
    assert (Hi : i < l_len l) by (apply (li_range _ _ _ _ I); right; apply elem_of_cons; by left).
    cbv zeta. rewrite (lr_next _ _ R), Hnext.
    assert (N.ltb (N.of_nat i) 64 = true) as Hb by (apply N.ltb_lt; lia).
    rewrite Hb. unfold go_guard. cbn [andb rbind fst snd].
    cbn [set_bitPool_bits set_bitPool_length bitPool_bits bitPool_length set_lockMask_bitPool
         lockMask_locks lockMask_bitPool set_lockMask_locks set_bitPool_next set_bitPool_available
         bitPool_next bitPool_available].
    unfold a_get, a_set. rewrite !Nat2N.id.
    rewrite list_upd_nth_eq by (rewrite (lr_bits_len _ _ R); lia).
    rewrite (lr_bits _ _ R i link Hi Hl).
    destruct (mask_set_rel (lockMask_locks g) (l_mask l) i true (lr_wf _ _ R) ltac:(lia) (lr_mask _ _ R)) as [Hwf' Hm'].
    eexists. split; [reflexivity|].
    split; cbn.
    + done.
    + done.
    + by rewrite list_upd_length, (lr_bits_len _ _ R).
    + intros j x Hj Hx.
      destruct (decide (j = i)) as [->|Hne].
      * rewrite list_upd_nth_eq by (rewrite (lr_bits_len _ _ R); lia).
        rewrite list_lookup_insert in Hx by (rewrite (li_bits_len _ _ _ _ I); lia). by inversion Hx.
      * rewrite list_upd_nth_ne by done. rewrite list_lookup_insert_ne in Hx by done.
        by apply (lr_bits _ _ R).
    + apply R.
    + done.
    + rewrite (lr_avail _ _ R). unfold sub_w, wrap.
      pose proof (li_frees_len _ _ _ _ I) as Hfl. pose proof (lock_count _ _ _ _ I) as Hcnt.
      simpl in Hfl, Hcnt. change (2 ^ 16)%N with 65536%N.
      rewrite (N.mod_small (N.of_nat (l_avail l))) by lia. rewrite (N.mod_small 1) by lia.
      replace (N.of_nat (l_avail l) + 65536 - 1)%N with (65536 + N.of_nat (l_avail l - 1))%N by lia.
      rewrite <- N.add_mod_idemp_l by lia. rewrite N.mod_same by lia. rewrite N.add_0_l.
      apply N.mod_small. lia.
Qed.

Theorem Unlock_tie g l held frees b :
  lock_rel g l -> lock_inv 64 l held frees -> b < 64 ->
  match locks_unlock l b with
  | Some l' => exists g', lockMask_Unlock g (N.of_nat b) = Ret g' /\ lock_rel g' l'
  | None => lockMask_Unlock g (N.of_nat b) = Panicked
  end.
Proof.
  intros R I Hb. unfold locks_unlock, lockMask_Unlock.
  rewrite Get_spec by lia. rewrite (lr_mask _ _ R) by done.
  destruct (bit (l_mask l) b) eqn:Hbit; cbn [negb]; [|done].
  cbv zeta. unfold bitPool_Recycle. cbv zeta.
  assert (N.ltb (N.of_nat b) 64 = true) as -> by (apply N.ltb_lt; lia).
  unfold go_guard. cbn [rbind].
  cbn [set_bitPool_bits set_bitPool_length bitPool_bits bitPool_length set_lockMask_bitPool
       lockMask_locks lockMask_bitPool set_lockMask_locks set_bitPool_next set_bitPool_available
       bitPool_next bitPool_available].
  destruct (mask_set_rel (lockMask_locks g) (l_mask l) b false (lr_wf _ _ R) Hb (lr_mask _ _ R)) as [Hwf' Hm'].
  assert (Hblen : b < l_len l) by (apply (li_range _ _ _ _ I); left; by apply (li_mask _ _ _ _ I)).
  eexists. split; [reflexivity|].
  split; cbn.
  - done.
  - done.
  - unfold a_set. by rewrite list_upd_length, (lr_bits_len _ _ R).
  - intros j x Hj Hx. unfold a_set. rewrite Nat2N.id.
    destruct (decide (j = b)) as [->|Hne].
    + rewrite list_upd_nth_eq by (rewrite (lr_bits_len _ _ R); lia).
      rewrite list_lookup_insert in Hx by (rewrite (li_bits_len _ _ _ _ I); lia). inversion Hx. apply R.
    + rewrite list_upd_nth_ne by done. rewrite list_lookup_insert_ne in Hx by done.
      by apply (lr_bits _ _ R).
  - apply R.
  - done.
  - rewrite (lr_avail _ _ R). unfold add_w.
    pose proof (li_frees_len _ _ _ _ I) as Hfl. pose proof (lock_count _ _ _ _ I) as Hcnt.
    pose proof (li_len _ _ _ _ I).
    rewrite wrap_small by (change (2 ^ 16)%N with 65536%N; lia). lia.
Qed.

Theorem IsLocked_tie g l held frees :
  lock_rel g l -> lock_inv 64 l held frees ->
  lockMask_IsLocked g = locks_locked l.
Proof.
  intros R I. unfold lockMask_IsLocked, locks_locked. f_equal.
  apply eq_true_iff_eq. rewrite (IsZero_spec _ (lr_wf _ _ R)). rewrite N.eqb_eq. split.
  - intros H. apply mask_ext. intros i. rewrite bit_zero.
    destruct (decide (i < 64)) as [Hi|Hi].
    + rewrite <- (lr_mask _ _ R) by done. apply H. lia.
    + destruct (bit (l_mask l) i) eqn:Hb; [|done].
      apply (li_mask _ _ _ _ I) in Hb.
      pose proof (li_range _ _ _ _ I i (or_introl Hb)). pose proof (li_len _ _ _ _ I). lia.
  - intros H j Hj. replace j with (N.of_nat (N.to_nat j)) by lia.
    rewrite (lr_mask _ _ R) by lia. rewrite H. apply bit_zero.
Qed.

Theorem LockReset_tie g l :
  lock_rel g l -> lock_rel (lockMask_Reset g) (locks_init 64).
Proof.
  intros R. unfold lockMask_Reset, bitPool_Reset. cbv zeta. split; cbn.
  - apply WF_zero.
  - intros b Hb. by rewrite bit_zero.
  - apply R.
  - intros i x Hi. lia.
  - done.
  - done.
  - done.
Qed.

(** ** Lock histories: the translated lock code and the model agree on every sequence of
    Lock / Unlock / IsLocked / Reset calls, panics included (bit exhaustion, unbalanced
    unlock); after a panic both runs stop. *)
Inductive lop := LLock | LUnlock (b : nat) | LIsLocked | LReset.
Inductive lout := LBit (b : nat) | LB (x : bool) | LNone.
Inductive glout := GLBit (b : N) | GLB (x : bool) | GLNone.
Definition lconv (o : lout) : glout :=
  match o with LBit b => GLBit (N.of_nat b) | LB x => GLB x | LNone => GLNone end.

Definition ml_step (l : lockstate) (o : lop) : res (lockstate * lout) :=
  match o with
  | LLock => match locks_lock 64 l with Some (l', b) => Ret (l', LBit b) | None => Panicked end
  | LUnlock b => match locks_unlock l b with Some l' => Ret (l', LNone) | None => Panicked end
  | LIsLocked => Ret (l, LB (locks_locked l))
  | LReset => Ret (locks_init 64, LNone)
  end.

Definition gl_step (g : go_lockMask) (o : lop) : res (go_lockMask * glout) :=
  match o with
  | LLock => rbind (lockMask_Lock g) (fun r => Ret (r.1, GLBit r.2))
  | LUnlock b => rbind (lockMask_Unlock g (N.of_nat b)) (fun g' => Ret (g', GLNone))
  | LIsLocked => Ret (g, GLB (lockMask_IsLocked g))
  | LReset => Ret (lockMask_Reset g, GLNone)
  end.

Fixpoint ml_run (l : lockstate) (ops : list lop) : res (lockstate * list lout) :=
  match ops with
  | [] => Ret (l, [])
  | o :: r => rbind (ml_step l o) (fun x => rbind (ml_run x.1 r) (fun y => Ret (y.1, x.2 :: y.2)))
  end.

Fixpoint gl_run (g : go_lockMask) (ops : list lop) : res (go_lockMask * list glout) :=
  match ops with
  | [] => Ret (g, [])
  | o :: r => rbind (gl_step g o) (fun x => rbind (gl_run x.1 r) (fun y => Ret (y.1, x.2 :: y.2)))
  end.

Definition lop_ok (o : lop) : Prop := match o with LUnlock b => b < 64 | _ => True end.

Theorem lock_code_history ops : forall g l held frees,
  lock_rel g l -> lock_inv 64 l held frees -> Forall lop_ok ops ->
  match ml_run l ops with
  | Ret (l', outs) => exists g', gl_run g ops = Ret (g', map lconv outs) /\ lock_rel g' l'
  | _ => gl_run g ops = Panicked
  end.
Proof.
  induction ops as [|o r IH]; intros g l held frees R I Hok.
  - cbn. eauto.
  - apply Forall_cons in Hok as [Ho Hr]. cbn [ml_run gl_run].
    assert (Hstep : match ml_step l o with
                    | Ret (l1, out) => exists g1, gl_step g o = Ret (g1, lconv out) /\ lock_rel g1 l1 /\
                                         exists held1 frees1, lock_inv 64 l1 held1 frees1
                    | _ => gl_step g o = Panicked
                    end).
    { destruct o as [|b| |]; cbn [ml_step gl_step].
      - pose proof (Lock_tie g l held frees R I) as Ht. pose proof (lock_spec 64 l held frees I) as Hsp.
        destruct (locks_lock 64 l) as [[l1 b]|].
        + destruct Ht as (g1 & -> & R1). destruct Hsp as (_ & _ & _ & frees1 & I1).
          exists g1. cbn. eauto 10.
        + by rewrite Ht.
      - pose proof (Unlock_tie g l held frees b R I Ho) as Ht.
        pose proof (unlock_spec 64 l held frees b I) as Hsp.
        destruct (locks_unlock l b) as [l1|].
        + destruct Ht as (g1 & -> & R1). destruct Hsp as [_ I1]. exists g1. cbn. eauto 10.
        + by rewrite Ht.
      - exists g. rewrite (IsLocked_tie g l held frees R I). cbn. eauto 10.
      - exists (lockMask_Reset g). split; [done|]. split; [by apply (LockReset_tie g l)|].
        exists [], []. apply locks_init_inv. }
    destruct (ml_step l o) as [[l1 out]| |]; cbn [rbind].
    + destruct Hstep as (g1 & -> & R1 & held1 & frees1 & I1). cbn [rbind fst snd].
      specialize (IH g1 l1 held1 frees1 R1 I1 Hr).
      destruct (ml_run l1 r) as [[l' outs]| |]; cbn [rbind].
      * destruct IH as (g' & -> & R'). cbn. eauto.
      * by rewrite IH.
      * by rewrite IH.
    + by rewrite Hstep.
    + by rewrite Hstep.
Qed.

(** ** Non-vacuity: the relations hold initially, and a concrete run through the
    translated code and through the model ends in related states. *)
Example zero_lock_rel : lock_rel zero_lockMask (locks_init 64).
Proof.
  split; cbn; [apply WF_zero | intros b Hb; by rewrite bit_zero | done
                | intros i x Hi; lia | done | done | done].
Qed.

