(** * The entity pool of /repo, as translated, implements the model's pool.

    [Gen/GoEntityPool.v] is regenerated from ecs/pool.go and ecs/entity.go on every run
    (translator/imp.go).  This file proves that, on related states, every translated
    function returns what the hand-written model function of [Model/Pool.v] returns - for
    all pool states, with the machine-integer wrap-around of the Go types written out and
    excluded by visible bounds (fewer than 2^32 slots).  The theorems of PoolInv about the
    model therefore speak about this code; an edit of pool.go that changes behaviour breaks
    one of these proofs. *)
From Arche Require Import Model.Base Model.Pool Proofs.PoolInv Proofs.GoLemmas.
From Arche Require Import Pure.MachInt Pure.GoRt Gen.GoEntityPool.
From Coq Require Import ZifyN ZifyNat.
Local Open Scope nat_scope.

(** ** entityPool *)
Definition gent (x : nat * N) : go_Entity := mk_Entity (N.of_nat x.1) x.2.
Definition ent_go (e : Entity) : go_Entity := mk_Entity (N.of_nat (eid e)) (egen e).

Record pool_rel (g : go_entityPool) (p : pool) : Prop := {
  pr_data : s_data (entityPool_entities g) = map gent (p_ents p);
  pr_next : entityPool_next g = N.of_nat (p_next p);
  pr_avail : entityPool_available g = N.of_nat (p_avail p);
  pr_cap : (s_len (entityPool_entities g) <= s_cap (entityPool_entities g))%N;
  pr_inc : (entityPool_capacityIncrement g < 2 ^ 32)%N;
}.

Definition small (p : pool) : Prop := (N.of_nat (length (p_ents p)) < 2 ^ 32)%N.

Lemma rel_len g p : pool_rel g p -> s_len (entityPool_entities g) = N.of_nat (length (p_ents p)).
Proof. intros R. unfold s_len. by rewrite (pr_data _ _ R), map_length. Qed.

Lemma wrap32_small x : (x < 2 ^ 32)%N -> wrap 32 x = x.
Proof. apply wrap_small. Qed.

Theorem newEntityPool_tie inc :
  (1 <= inc < 2 ^ 32)%N ->
  exists g, go_newEntityPool inc = Ret g /\ pool_rel g pool_init.
Proof.
  intros [H1 H2]. unfold go_newEntityPool. cbv zeta.
  assert (N.leb 1 inc = true) as -> by (apply N.leb_le; lia).
  unfold go_guard. cbn [andb].
  eexists. split; [reflexivity|].
  split; cbn; try done; unfold s_len; cbn; lia.
Qed.

Theorem newEntityPool_zero_panics : go_newEntityPool 0 = Panicked.
Proof. reflexivity. Qed.

Theorem getNew_tie g p :
  pool_rel g p -> small p ->
  let e := mkE (length (p_ents p)) 0 in
  exists g', entityPool_getNew g = Ret (g', ent_go e) /\
    pool_rel g' (p <| p_ents := p_ents p ++ [(eid e, 0%N)] |>).
Proof.
  intros R Hs. cbv zeta. unfold entityPool_getNew. cbv zeta.
  pose proof (rel_len _ _ R) as Hlen. rewrite Hlen. unfold small in Hs.
  rewrite wrap32_small by done.
  assert (Happ : forall sl, s_data sl = s_data (entityPool_entities g) ->
     pool_rel (set_entityPool_entities g (s_append sl (go_newEntity (N.of_nat (length (p_ents p))))))
              (p <| p_ents := p_ents p ++ [(length (p_ents p), 0%N)] |>)).
  { intros sl Hsl. split; cbn.
    - rewrite s_append_data, Hsl, (pr_data _ _ R), map_app. done.
    - apply R.
    - apply R.
    - apply s_append_cap.
    - apply R. }
  destruct (N.eqb_spec (N.of_nat (length (p_ents p))) (s_cap (entityPool_entities g))) as [Hc|Hc].
  - unfold go_guard, go_inside.
    pose proof (pr_inc _ _ R) as Hinc.
    assert (N.ltb (N.of_nat (length (p_ents p)) + entityPool_capacityIncrement g) (2 ^ 63) = true) as ->.
    { apply N.ltb_lt. change (2 ^ 63)%N with 9223372036854775808%N. change (2 ^ 32)%N with 4294967296%N in *. lia. }
    assert (N.leb (N.of_nat (length (p_ents p))) (N.of_nat (length (p_ents p)) + entityPool_capacityIncrement g) = true) as ->
      by (apply N.leb_le; lia).
    eexists. split; [reflexivity|].
    cbn [entityPool_entities set_entityPool_entities].
    rewrite s_copy_all.
    + apply (Happ (mkSlice _ _)). done.
    + cbn. rewrite a_make_length, Nat2N.id. by rewrite (pr_data _ _ R), map_length.
  - eexists. split; [reflexivity|]. by apply Happ.
Qed.

Theorem Get_tie g p live issued frees :
  pool_rel g p -> pool_inv p live issued frees -> small p ->
  exists g', entityPool_Get g = Ret (g', ent_go (pool_get p).2) /\ pool_rel g' (pool_get p).1.
Proof.
  intros R I Hs. unfold entityPool_Get, pool_get.
  rewrite (pr_avail _ _ R).
  destruct (p_avail p =? 0) eqn:Hav.
  - apply Nat.eqb_eq in Hav. rewrite Hav. cbn [N.of_nat N.eqb].
    destruct (getNew_tie g p R Hs) as (g' & -> & R'). cbn.
    exists g'. done.
  - apply Nat.eqb_neq in Hav.
    assert (N.eqb (N.of_nat (p_avail p)) 0 = false) as -> by (apply N.eqb_neq; lia).
    destruct frees as [|i r]; [pose proof (pi_frees_len _ _ _ _ I); simpl in *; lia|].
    pose proof (pi_frees_chain _ _ _ _ I) as Hc. simpl in Hc.
    destruct Hc as [Hnext (link & gn & Hl & _)]. rewrite Hnext in *. rewrite Hl.
    cbv zeta. rewrite (pr_next _ _ R), Hnext.
    pose proof (rel_len _ _ R) as Hlen. rewrite Hlen.
    pose proof (lookup_lt_Some _ _ _ Hl) as Hlt.
    assert (N.ltb (N.of_nat i) (N.of_nat (length (p_ents p))) = true) as Hb by (apply N.ltb_lt; lia).
    rewrite Hb. unfold go_guard. cbn [andb].
    cbn [entityPool_entities set_entityPool_entities set_entityPool_next set_entityPool_available
         entityPool_next entityPool_available].
    unfold s_get, s_set, s_len. cbn [s_data s_cap].
    rewrite (pr_data _ _ R).
    rewrite (a_get_map gent _ _ _ _ Hl).
    change (set_Entity_id (gent (link, gn)) (N.of_nat i)) with (gent (i, gn)).
    change (Entity_id (gent (link, gn))) with (N.of_nat link).
    rewrite a_set_map, map_length, insert_length, Hb.
    rewrite (a_get_map gent _ _ _ (i, gn)) by (by rewrite list_lookup_insert).
    eexists. split; [reflexivity|].
    split; cbn.
    + done.
    + done.
    + rewrite (pr_avail _ _ R). unfold sub_w.
      pose proof (pi_frees_len _ _ _ _ I) as Hfl. simpl in Hfl.
      assert (Hal : p_avail p <= length (p_ents p)).
      { rewrite <- Hfl. change (S (length r)) with (length (i :: r)).
        rewrite <- (seq_length (length (p_ents p)) 0).
        apply (NoDup_incl_length). { apply NoDup_ListNoDup, I. }
        intros x Hx. apply elem_of_list_In in Hx. apply (pi_frees_dead _ _ _ _ I) in Hx.
        apply in_seq. lia. }
      revert Hal Hs. unfold small, wrap. change (2 ^ 32)%N with 4294967296%N.
      intros Hal Hs'. rewrite (N.mod_small (N.of_nat (p_avail p))) by lia.
      rewrite (N.mod_small 1) by lia.
      replace (N.of_nat (p_avail p) + 4294967296 - 1)%N with (4294967296 + N.of_nat (p_avail p - 1))%N by lia.
      rewrite <- N.add_mod_idemp_l by lia. rewrite N.mod_same by lia. rewrite N.add_0_l.
      apply N.mod_small. lia.
    + unfold s_len. cbn. rewrite map_length, insert_length.
      pose proof (pr_cap _ _ R) as Hcap. by rewrite Hlen in Hcap.
    + apply R.
Qed.

Theorem Recycle_tie g p e :
  pool_rel g p -> eid e <> 0 -> eid e < length (p_ents p) -> (N.of_nat (p_avail p) + 1 < 2 ^ 32)%N ->
  exists g', entityPool_Recycle g (ent_go e) = Ret g' /\ pool_rel g' (pool_recycle p e).
Proof.
  intros R H0 Hlt Hav. unfold entityPool_Recycle, pool_recycle.
  destruct (lookup_lt_is_Some_2 _ _ Hlt) as [[link gn] Hl]. rewrite Hl.
  cbn [ent_go Entity_id].
  assert (N.eqb (N.of_nat (eid e)) 0 = false) as -> by (apply N.eqb_neq; lia).
  cbv zeta. pose proof (rel_len _ _ R) as Hlen. rewrite Hlen.
  assert (N.ltb (N.of_nat (eid e)) (N.of_nat (length (p_ents p))) = true) as Hb by (apply N.ltb_lt; lia).
  rewrite Hb. unfold go_guard.
  cbn [entityPool_entities set_entityPool_entities set_entityPool_next set_entityPool_available
       entityPool_next entityPool_available].
  unfold s_get, s_set, s_len. cbn [s_data s_cap].
  rewrite (pr_data _ _ R).
  rewrite (a_get_map gent _ _ _ _ Hl).
  change (set_Entity_gen (gent (link, gn)) (add_w 32 (Entity_gen (gent (link, gn))) 1))
    with (gent (link, add_w 32 gn 1)).
  rewrite a_set_map, map_length, insert_length, Hb.
  rewrite (a_get_map gent _ _ _ (link, add_w 32 gn 1)) by (by rewrite list_lookup_insert).
  change (set_Entity_id (gent (link, add_w 32 gn 1)) (entityPool_next g))
    with (mk_Entity (entityPool_next g) (add_w 32 gn 1)).
  rewrite (pr_next _ _ R).
  change (mk_Entity (N.of_nat (p_next p)) (add_w 32 gn 1)) with (gent (p_next p, add_w 32 gn 1)).
  rewrite a_set_map, list_insert_insert.
  eexists. split; [reflexivity|].
  split; cbn.
  - done.
  - done.
  - rewrite (pr_avail _ _ R). unfold add_w. rewrite wrap_small by lia. lia.
  - unfold s_len. cbn. rewrite map_length, insert_length.
    pose proof (pr_cap _ _ R) as Hcap. by rewrite Hlen in Hcap.
  - apply R.
Qed.

Theorem Recycle_zero_panics g e : eid e = 0 -> entityPool_Recycle g (ent_go e) = Panicked.
Proof. intros H. unfold entityPool_Recycle. cbn [ent_go Entity_id]. by rewrite H. Qed.

Theorem Alive_tie g p e :
  pool_rel g p ->
  entityPool_Alive g (ent_go e) = match pool_alive_opt p e with Some b => Ret b | None => Panicked end.
Proof.
  intros R. unfold entityPool_Alive, pool_alive_opt. cbn [ent_go Entity_id Entity_gen].
  rewrite (rel_len _ _ R). unfold go_guard, s_get. rewrite (pr_data _ _ R).
  destruct (p_ents p !! eid e) as [[link gn]|] eqn:Hl.
  - pose proof (lookup_lt_Some _ _ _ Hl) as Hlt.
    assert (N.ltb (N.of_nat (eid e)) (N.of_nat (length (p_ents p))) = true) as -> by (apply N.ltb_lt; lia).
    rewrite (a_get_map gent _ _ _ _ Hl). cbn. by rewrite N.eqb_sym.
  - apply lookup_ge_None in Hl.
    assert (N.ltb (N.of_nat (eid e)) (N.of_nat (length (p_ents p))) = false) as -> by (apply N.ltb_ge; lia).
    done.
Qed.

Theorem Reset_tie g p live issued frees :
  pool_rel g p -> pool_inv p live issued frees ->
  exists g', entityPool_Reset g = Ret g' /\ pool_rel g' pool_init.
Proof.
  intros R I. unfold entityPool_Reset.
  pose proof (pi_zero _ _ _ _ I) as Hz. pose proof (lookup_lt_Some _ _ _ Hz) as Hlt.
  pose proof (rel_len _ _ R) as Hlen. pose proof (pr_cap _ _ R) as Hcap. rewrite Hlen in *.
  assert (N.leb 1 (N.of_nat (length (p_ents p))) = true) as -> by (apply N.leb_le; lia).
  assert (N.leb 1 (s_cap (entityPool_entities g)) = true) as -> by (apply N.leb_le; lia).
  unfold go_inside, go_guard. eexists. split; [reflexivity|].
  split; cbn; try done.
  - rewrite (pr_data _ _ R). destruct (p_ents p) as [|x t]; [done|]. simpl in Hz. by inversion Hz.
  - unfold s_len. cbn. rewrite (pr_data _ _ R). destruct (p_ents p); [simpl in Hlt; lia|]. cbn.
    change (Pos.to_nat 1) with 1. cbn [take length]. rewrite take_0. cbn [length]. lia.
  - apply R.
Qed.

(** ** Histories: every run of the translated code is the model's run.

    Ghost state [live]: the handles currently alive.  [PRecycle e] is enabled for alive
    handles below the last generation (World.RemoveEntity checks Alive first; the
    generation bound is finding K1).  The bound on the number of slots makes the
    32-bit arithmetic of the Go code exact. *)
Inductive pop := PGet | PRecycle (e : Entity) | PAlive (e : Entity).
Inductive pout := OEnt (e : Entity) | OBool (b : bool) | ONone.
Inductive gout := GEnt (e : go_Entity) | GBool (b : bool) | GNone.
Definition conv (o : pout) : gout :=
  match o with OEnt e => GEnt (ent_go e) | OBool b => GBool b | ONone => GNone end.

Definition m_step (s : pool * list Entity) (o : pop) : option (pool * list Entity * pout) :=
  let '(p, live) := s in
  match o with
  | PGet => Some ((pool_get p).1, (pool_get p).2 :: live, OEnt (pool_get p).2)
  | PRecycle e =>
      if bool_decide (e ∈ live) && (egen e <? gen_max)%N
      then Some (pool_recycle p e, filter (fun x => x <> e) live, ONone) else None
  | PAlive e => match pool_alive_opt p e with Some b => Some (p, live, OBool b) | None => None end
  end.

Definition g_step (g : go_entityPool) (o : pop) : res (go_entityPool * gout) :=
  match o with
  | PGet => rbind (entityPool_Get g) (fun r => Ret (r.1, GEnt r.2))
  | PRecycle e => rbind (entityPool_Recycle g (ent_go e)) (fun g' => Ret (g', GNone))
  | PAlive e => rbind (entityPool_Alive g (ent_go e)) (fun b => Ret (g, GBool b))
  end.

Fixpoint m_run (s : pool * list Entity) (ops : list pop) : option (pool * list Entity * list pout) :=
  match ops with
  | [] => Some (s, [])
  | o :: r =>
      match m_step s o with
      | Some (s', out) =>
          match m_run s' r with Some (s'', outs) => Some (s'', out :: outs) | None => None end
      | None => None
      end
  end.

Fixpoint g_run (g : go_entityPool) (ops : list pop) : res (go_entityPool * list gout) :=
  match ops with
  | [] => Ret (g, [])
  | o :: r => rbind (g_step g o) (fun x => rbind (g_run x.1 r) (fun y => Ret (y.1, x.2 :: y.2)))
  end.

Lemma avail_le_len p live issued frees : pool_inv p live issued frees -> p_avail p <= length (p_ents p).
Proof.
  intros I. rewrite <- (pi_frees_len _ _ _ _ I).
  rewrite <- (seq_length (length (p_ents p)) 0).
  apply NoDup_incl_length; [apply NoDup_ListNoDup, I|].
  intros x Hx. apply elem_of_list_In in Hx. apply (pi_frees_dead _ _ _ _ I) in Hx.
  apply in_seq. lia.
Qed.

Lemma pool_get_len p : length (p_ents (pool_get p).1) <= S (length (p_ents p)).
Proof.
  unfold pool_get. destruct (p_avail p =? 0); cbn; [rewrite app_length; simpl; lia|].
  destruct (p_ents p !! p_next p) as [[link gn]|]; cbn; [rewrite insert_length|]; lia.
Qed.

Lemma pool_recycle_len p e : length (p_ents (pool_recycle p e)) = length (p_ents p).
Proof.
  unfold pool_recycle. destruct (p_ents p !! eid e) as [[link gn]|]; cbn; [by rewrite insert_length|done].
Qed.

Theorem pool_code_history ops : forall g p live issued frees s' outs,
  pool_rel g p -> pool_inv p live issued frees ->
  (N.of_nat (length (p_ents p) + length ops) + 1 < 2 ^ 32)%N ->
  m_run (p, live) ops = Some (s', outs) ->
  exists g', g_run g ops = Ret (g', map conv outs) /\ pool_rel g' (fst s') /\
    exists issued' frees', pool_inv (fst s') (snd s') issued' frees'.
Proof.
  induction ops as [|o r IH]; intros g p live issued frees s' outs R I Hs Hrun.
  - simpl in Hrun. inversion Hrun; subst. exists g. cbn. eauto.
  - cbn [m_run] in Hrun.
    destruct (m_step (p, live) o) as [[[p1 live1] out]|] eqn:Hstep; [|done].
    destruct (m_run (p1, live1) r) as [[s'' outs']|] eqn:Hrun'; [|done].
    inversion Hrun; subst s'' outs. clear Hrun.
    assert (Hstep' : exists g1, g_step g o = Ret (g1, conv out) /\ pool_rel g1 p1 /\
              (exists issued1 frees1, pool_inv p1 live1 issued1 frees1) /\
              length (p_ents p1) <= S (length (p_ents p))).
    { destruct o as [|e|e]; cbn [m_step] in Hstep.
      - inversion Hstep; subst. clear Hstep.
        destruct (Get_tie g p live issued frees R I) as (g1 & Hg & R1).
        { unfold small. simpl in Hs. lia. }
        exists g1. cbn [g_step]. rewrite Hg. cbn. split; [done|]. split; [done|]. split.
        + pose proof (pool_get_inv p live issued frees I) as Hi.
          destruct (pool_get p) as [p' e]. destruct Hi as (frees' & Hi & _). cbn. eauto.
        + apply pool_get_len.
      - destruct (bool_decide (e ∈ live)) eqn:Hin; [|done]. apply bool_decide_eq_true in Hin.
        destruct (egen e <? gen_max)%N eqn:Hgen; [|done]. apply N.ltb_lt in Hgen.
        cbn [andb] in Hstep. inversion Hstep; subst. clear Hstep.
        destruct (pi_live_slot _ _ _ _ I e Hin) as [H0 Hl].
        destruct (Recycle_tie g p e R H0) as (g1 & Hg & R1).
        { by apply lookup_lt_Some in Hl. }
        { pose proof (avail_le_len _ _ _ _ I). simpl in Hs. lia. }
        exists g1. cbn [g_step]. rewrite Hg. cbn. split; [done|]. split; [done|]. split.
        + destruct (pool_recycle_inv p live issued frees e I Hin Hgen) as [Hi _]. eauto.
        + rewrite pool_recycle_len. lia.
      - destruct (pool_alive_opt p e) as [b|] eqn:Ha; [|done]. inversion Hstep; subst. clear Hstep.
        exists g. cbn [g_step]. rewrite (Alive_tie g p1 e R), Ha. cbn. eauto 10. }
    destruct Hstep' as (g1 & Hg1 & R1 & (issued1 & frees1 & I1) & Hlen1).
    destruct (IH g1 p1 live1 issued1 frees1 s' outs' R1 I1) as (g' & Hg' & R' & I'); [|done|].
    { simpl in Hs. lia. }
    exists g'. cbn [g_run]. rewrite Hg1. cbn [rbind fst snd]. rewrite Hg'. cbn. eauto.
Qed.

(** ** A concrete run through the translated code *)
Example go_pool_run :
  (rbind (go_newEntityPool 2) (fun g =>
   rbind (entityPool_Get g) (fun r1 =>
   rbind (entityPool_Get r1.1) (fun r2 =>
   rbind (entityPool_Recycle r2.1 r1.2) (fun g3 =>
   rbind (entityPool_Get g3) (fun r4 =>
   rbind (entityPool_Alive r4.1 r1.2) (fun a => Ret (r4.2, a)))))))) =
  Ret (mk_Entity 1 1, false).
Proof. vm_compute. reflexivity. Qed.
