(** * Refinement of the entity / component / relation core to an abstract store.

    The abstract state is a finite map from alive entities to (component mask, relation
    target, component values) plus the component registry: no tables, no archetype
    graph, no free lists.  [rel_step] shows that every operation of the single-entity
    core (creation with and without target, Add / Remove / Exchange with and without
    relation, Relations.Set, Set, RemoveEntity, registration of ordinary and relation
    component types, and the read accessors) either panics and changes nothing, or has
    exactly its abstract effect, and that the read accessors return what the abstract
    state says.  [rel_history] lifts this to every history. *)
From Arche Require Import Model.Base Model.Pool Model.Filter Model.World Model.Ops
  Proofs.Tables Proofs.Bits Proofs.Store Proofs.Graph Proofs.Atomic Proofs.WorldInv
  Proofs.Frame Proofs.StepFrame Proofs.GhostBase Proofs.RelGraph Proofs.GhostGraph Proofs.RelWorld.

(** ** Abstract state *)
Record aent := mkA { a_mask : N; a_target : Entity; a_vals : list (nat * Z) }.

Fixpoint nlookup (id : nat) (l : list (nat * Z)) : option Z :=
  match l with
  | [] => None
  | (k, v) :: r => if k =? id then Some v else nlookup id r
  end.
Definition aval (a : aent) (id : nat) : Z := default 0%Z (nlookup id (a_vals a)).

Lemma nlookup_filter (f : nat -> bool) id l :
  nlookup id (filter (fun p => f (fst p) = true) l) = if f id then nlookup id l else None.
Proof.
  induction l as [|[k v] r IH]; simpl; [by destruct (f id)|].
  rewrite filter_cons. simpl. destruct (decide (f k = true)) as [Hk|Hk]; simpl.
  - destruct (Nat.eqb_spec k id) as [->|Hne]; [by rewrite Hk|exact IH].
  - destruct (Nat.eqb_spec k id) as [->|Hne]; [|exact IH]. rewrite IH. by destruct (f id).
Qed.

Definition reg_rel (reg : list cinfo) (id : nat) : bool :=
  match reg !! id with Some c => ci_rel c | None => false end.
Definition reg_zs (reg : list cinfo) (id : nat) : bool :=
  match reg !! id with Some c => ci_zs c | None => false end.

(** The relation component of a mask, if any. *)
Definition arel (reg : list cinfo) (m : N) : option nat :=
  head (filter (fun id => bit m id && reg_rel reg id = true) (seq 0 (length reg))).

(** [exchange_target], over the registry only. *)
Definition xtarget (reg : list cinfo) (oldmask newmask : N) (oldtarget : Entity) (rem : list nat)
    (rel : option (nat * Entity)) : option Entity :=
  match rel with
  | Some (rid, tg) =>
      if negb (bit newmask rid) then None else if negb (reg_rel reg rid) then None else Some tg
  | None =>
      if negb (ent_is_zero oldtarget) &&
         contains_any oldmask (mask_of (filter (fun i => reg_rel reg i = true) (seq 0 (length reg))))
      then Some (if existsb (reg_rel reg) rem then ezero else oldtarget)
      else Some oldtarget
  end.
Lemma xtarget_eq w om nm ot rem rel : exchange_target w om nm ot rem rel = xtarget (w_reg w) om nm ot rem rel.
Proof. reflexivity. Qed.

Lemma arel_relP w m rel :
  relP w m rel -> (forall id, bit m id = true -> id < length (w_reg w)) -> arel (w_reg w) m = rel.
Proof.
  intros HP Hb. unfold arel.
  set (l := filter (fun id => bit m id && reg_rel (w_reg w) id = true) (seq 0 (length (w_reg w)))).
  assert (Hl : forall x, x ∈ l <-> rel = Some x).
  { intros x. unfold l. rewrite elem_of_list_filter, elem_of_seq, andb_true_iff. rewrite <- (HP x). unfold reg_is_rel, reg_rel.
    split; [intros [? _]; done|]. intros [H1 H2]. split; [done|]. specialize (Hb x H1). lia. }
  destruct l as [|x r] eqn:Hlist.
  - destruct rel as [x|]; [|done]. assert (x ∈ []) by (by apply Hl). by apply elem_of_nil in H.
  - simpl. symmetry. apply Hl. apply elem_of_list_here.
Qed.

Definition new_mask (ids : list nat) : N := foldl (fun m id => setb m id true) 0%N ids.
Definition xmask (m : N) (add rem : list nat) : N :=
  foldl (fun m id => setb m id true) (foldl (fun m id => setb m id false) m rem) add.

Definition a_exchange (reg : list cinfo) (a : aent) (add rem : list nat) (rel : option (nat * Entity)) : aent :=
  let m' := xmask (a_mask a) add rem in
  mkA m'
      (match arel reg m' with
       | Some _ => default ezero (xtarget reg (a_mask a) m' (a_target a) rem rel)
       | None => ezero
       end)
      (filter (fun p => bit m' (fst p) = true) (a_vals a)).

Record astate := mkAS {
  as_ents : list (Entity * aent);
  as_live : list Entity;
  as_issued : list Entity;
  as_reg : list cinfo;
}.

Definition a_upd (A : astate) (e : Entity) (f : aent -> aent) : astate :=
  match assoc_get e (as_ents A) with
  | Some a => mkAS (assoc_set e (f a) (as_ents A)) (as_live A) (as_issued A) (as_reg A)
  | None => A
  end.
Definition a_add (A : astate) (e : Entity) (a : aent) : astate :=
  mkAS (assoc_set e a (as_ents A)) (e :: as_live A) (e :: as_issued A) (as_reg A).

(** The abstract effect of an operation, given its outcome (the only things taken from
    the concrete run are success / panic and the fresh handle a creation returns). *)
Definition astep (A : astate) (o : op) (out : outcome) : astate :=
  match out with
  | Ok v =>
      match o, v with
      | ONew ids, VEnt e => a_add A e (mkA (new_mask ids) ezero [])
      | OBNew b None, VEnt e => a_add A e (mkA (new_mask (b_ids b)) ezero [])
      | OBNew b (Some tg), VEnt e => a_add A e (mkA (new_mask (b_ids b)) tg [])
      | OExchange e [] [], _ => A
      | OExchange e add rem, _ => a_upd A e (fun a => a_exchange (as_reg A) a add rem None)
      | ORelExchange e add rem rid tg, _ => a_upd A e (fun a => a_exchange (as_reg A) a add rem (Some (rid, tg)))
      | ORelSet e rid tg, _ => a_upd A e (fun a => mkA (a_mask a) tg (a_vals a))
      | OSet e id v, _ => a_upd A e (fun a => if reg_zs (as_reg A) id then a else mkA (a_mask a) (a_target a) ((id, v) :: a_vals a))
      | ORemoveEntity e, _ =>
          mkAS (assoc_del e (as_ents A)) (filter (fun x => x <> e) (as_live A)) (as_issued A) (as_reg A)
      | OReset, _ => mkAS [] [] [] (as_reg A)
      | ORegister key isrel zs, VNat id =>
          if id =? length (as_reg A)
          then mkAS (as_ents A) (as_live A) (as_issued A) (as_reg A ++ [mkCI key isrel zs])
          else A
      | _, _ => A
      end
  | _ => A
  end.

(** ** The refinement relation *)
Record views (w : world) (reg : list cinfo) (e : Entity) (a : aent) : Prop := {
  v_mask : ent_mask w e = Some (a_mask a);
  v_target : ent_target w e = Some (a_target a);
  v_vals : forall id, id < w_tb w -> bit (a_mask a) id = true -> comp_val w e id = Some (aval a id);
  v_zero : forall id, bit (a_mask a) id = false -> aval a id = 0%Z;
  v_bits : forall id, bit (a_mask a) id = true -> id < length reg;
  v_norel : arel reg (a_mask a) = None -> a_target a = ezero;
}.

Record R (w : world) (A : astate) : Prop := {
  r_ok : world_okr2 w (as_live A) (as_issued A);
  r_reg : as_reg A = w_reg w;
  r_unlocked : is_locked w = false;
  r_ents : forall e, e ∈ as_live A -> exists a, assoc_get e (as_ents A) = Some a /\ views w (as_reg A) e a;
}.

(** ** Helpers *)
Lemma views_keep w w' reg e a :
  views w reg e a -> ent_mask w' e = ent_mask w e -> ent_target w' e = ent_target w e ->
  (forall id, comp_val w' e id = comp_val w e id) -> w_tb w' = w_tb w -> views w' reg e a.
Proof.
  intros [V1 V2 V3 V4 V5 V6] Hm Ht Hv Htb. split; try done; try congruence.
  intros id Hid Hb. rewrite Hv. apply V3; [by rewrite <- Htb|done].
Qed.

Lemma R_transfer w w' A :
  R w A -> world_okr2 w' (as_live A) (as_issued A) -> w_reg w' = w_reg w -> w_locks w' = w_locks w ->
  w_listener w' = w_listener w -> w_tb w' = w_tb w ->
  (forall e, e ∈ as_live A -> ent_mask w' e = ent_mask w e /\ ent_target w' e = ent_target w e /\
      forall id, comp_val w' e id = comp_val w e id) ->
  R w' A.
Proof.
  intros [K Hr Hu He] K' Hreg Hlocks Hlis Htb Hsame. split; try done; try congruence.
  - unfold is_locked. by rewrite Hlocks.
  - intros e Hin. destruct (He e Hin) as (a & Ha & V). exists a. split; [done|].
    destruct (Hsame e Hin) as (A1 & A2 & A3). by apply (views_keep w).
Qed.

Lemma live_ne_fresh w A e e' : R w A -> e ∉ as_issued A -> e' ∈ as_live A -> e' <> e.
Proof.
  intros [[_ [frees P] _] _ _ _] Hni Hin ->. apply Hni. by apply (Proofs.PoolInv.pi_live_issued _ _ _ _ P).
Qed.

Lemma arel_none_new reg ids : arel reg (new_mask ids) = None -> True.
Proof. done. Qed.

Lemma bit_new_mask ids id : bit (new_mask ids) id = bool_decide (id ∈ ids).
Proof. unfold new_mask. by rewrite bit_fold_set, bit_zero. Qed.
Lemma bit_xmask m add rem id : bit (xmask m add rem) id = (bit m id && bool_decide (id ∉ rem)) || bool_decide (id ∈ add).
Proof. unfold xmask. by rewrite bit_fold_set, bit_fold_clear. Qed.

Lemma Forall_lt_in (n : nat) ids id : Forall (fun i => i < n) ids -> id ∈ ids -> id < n.
Proof. intros H Hin. rewrite Forall_forall in H. by apply H. Qed.

(** The node of a live entity: its relation is the abstract one. *)
Lemma ent_rel_arel w live e m :
  world_okr w live -> e ∈ live -> ent_mask w e = Some m -> ent_rel w e = Some (arel (w_reg w) m).
Proof.
  intros [S G] He Hm. destruct (so_loc _ _ S e He) as (tid & row & t & Hl & Ht & Hr).
  destruct (so_table _ _ S tid t Ht) as (nd & Hnd & Hok).
  unfold ent_mask, ent_rel, ent_cells in *. rewrite Hl in *. simpl in *. rewrite Ht in *. simpl in *.
  destruct (t_rows t !! row); [|done]. simpl in *. rewrite Hnd in *. simpl in *. injection Hm as <-.
  f_equal. symmetry. apply arel_relP; [by apply (rg_rel _ G (t_node t))|intros id; by apply (rg_bits _ G (t_node t))].
Qed.

Lemma R_update w w' A e f :
  R w A -> e ∈ as_live A -> world_okr2 w' (as_live A) (as_issued A) ->
  w_reg w' = w_reg w -> w_locks w' = w_locks w -> w_listener w' = w_listener w -> w_tb w' = w_tb w ->
  (forall e', e' ∈ as_live A -> e' <> e -> ent_mask w' e' = ent_mask w e' /\ ent_target w' e' = ent_target w e' /\
      forall id, comp_val w' e' id = comp_val w e' id) ->
  (forall a, assoc_get e (as_ents A) = Some a -> views w (as_reg A) e a -> views w' (as_reg A) e (f a)) ->
  R w' (a_upd A e f).
Proof.
  intros [K Hr Hu He] Hin K' Hreg Hlocks Hlis Htb Hoth Hnew.
  destruct (He e Hin) as (a & Ha & V). unfold a_upd. rewrite Ha.
  split; simpl; try done; try congruence.
  - unfold is_locked. by rewrite Hlocks.
  - intros e0 Hin0. rewrite assoc_get_set. destruct (ent_eqb e0 e) eqn:Heq.
    + apply ent_eqb_eq in Heq as ->. exists (f a). split; [done|]. by apply Hnew.
    + apply ent_eqb_neq in Heq. destruct (He e0 Hin0) as (a0 & Ha0 & V0). exists a0. split; [done|].
      destruct (Hoth e0 Hin0 Heq) as (A1 & A2 & A3). by apply (views_keep w).
Qed.

Lemma exchange_alive w e add rem rel r : exchange_nn w e add rem rel = Some r -> chk_alive w e = Some true.
Proof. unfold exchange_nn. destruct (is_locked w); [done|]. by destruct (chk_alive w e) as [[]|]. Qed.

Lemma R_exchange w A e add rem rel w' x :
  R w A -> e ∈ as_issued A -> Forall (fun id => id < length (as_reg A)) add ->
  exchange_nn w e add rem rel = Some (w', Some x) ->
  R w' (a_upd A e (fun a => a_exchange (as_reg A) a add rem rel)).
Proof.
  intros HR Hiss Hadd H. pose proof HR as [K Hr Hu He].
  assert (Hlive : e ∈ as_live A) by (eapply chk_alive_live_r; [exact K|done|by eapply exchange_alive]).
  rewrite Hr in Hadd.
  destruct (exchange_rok w (as_live A) e add rem rel w' x (r2_ok _ _ _ K) Hlive Hadd H)
    as (K' & Hp & Hil & Hreg & Hoth & om & nm & ot & nt & nr & Hom & Hot & Hxm & Hxt & Hnm & Hne & Hnr & HP & Hnt & Hvals).
  pose proof (frame_exchange_nn w e add rem rel w' _ H) as F.
  apply (R_update w w' A e); try done; try apply F.
  - destruct K as [_ [frees P] L]. split; [done|exists frees; by rewrite Hp|by rewrite Hil, Hp].
  - intros e' He' Hne'. destruct (Hoth e' He' Hne') as (A1 & A2 & _ & A4). done.
  - intros a Ha [V1 V2 V3 V4 V5 V6]. rewrite Hom in V1. injection V1 as ->. rewrite Hot in V2. injection V2 as ->.
    pose proof (exchange_mask_fold _ _ _ _ Hxm) as Hfold. change (nm = xmask (a_mask a) add rem) in Hfold. subst nm.
    assert (Hbits : forall id, bit (xmask (a_mask a) add rem) id = true -> id < length (as_reg A)).
    { intros id Hb. rewrite bit_xmask in Hb. apply orb_true_iff in Hb as [Hb|Hb].
      - apply andb_true_iff in Hb as [Hb _]. by apply V5.
      - apply bool_decide_eq_true in Hb. rewrite Hr. by eapply Forall_lt_in. }
    assert (Harel : arel (as_reg A) (xmask (a_mask a) add rem) = nr).
    { rewrite Hr. apply arel_relP; [done|]. intros id Hb. rewrite <- Hr. by apply Hbits. }
    split; unfold a_exchange; simpl.
    + done.
    + rewrite Harel, Hnt. rewrite xtarget_eq, <- Hr in Hxt. rewrite Hxt. by destruct nr.
    + intros id Hid Hb. rewrite (fr_tb _ _ F) in Hid. rewrite (Hvals id Hid Hb).
      unfold aval at 1. simpl. rewrite (nlookup_filter (bit (xmask (a_mask a) add rem))), Hb.
      destruct (bit (a_mask a) id) eqn:Hob; [by apply V3|]. f_equal. symmetry. by apply V4.
    + intros id Hb. unfold aval. simpl. by rewrite (nlookup_filter (bit (xmask (a_mask a) add rem))), Hb.
    + exact Hbits.
    + intros Hn. by rewrite Hn.
Qed.

Lemma frame_op_set_relation w e rid target : frame w (res_world (op_set_relation w e rid target)).
Proof.
  unfold op_set_relation. destruct (is_locked w); [apply frame_refl|].
  destruct (chk_alive w e) as [[]|]; try apply frame_refl.
  destruct (negb _); [apply frame_refl|]. destruct (ent_table w e) as [[[[src row] st] sn]|]; [|apply frame_refl].
  destruct (negb _); [apply frame_refl|]. destruct (ent_eqb _ _); [apply frame_refl|].
  assert (F1 : frame w (fst (match node_get_table sn target with
                             | Some tid => (w, tid)
                             | None => create_table w (t_node st) target true end))).
  { destruct (node_get_table sn target); [apply frame_refl|apply frame_create_table]. }
  destruct (match node_get_table sn target with Some tid => (w, tid) | None => _ end) as [w1 dst]. simpl in *.
  eapply frame_trans; [exact F1|]. eapply frame_trans; [apply frame_move_entity|].
  eapply frame_trans; [apply frame_set_tbit|apply frame_cleanup_table].
Qed.

Lemma set_relation_alive w e rid tg w' evs : op_set_relation w e rid tg = (w', Ok VUnit, evs) -> chk_alive w e = Some true.
Proof. unfold op_set_relation. destruct (is_locked w); [done|]. by destruct (chk_alive w e) as [[]|]. Qed.

Lemma R_set_relation w A e rid tg w' evs :
  R w A -> e ∈ as_issued A -> op_set_relation w e rid tg = (w', Ok VUnit, evs) ->
  R w' (a_upd A e (fun a => mkA (a_mask a) tg (a_vals a))).
Proof.
  intros HR Hiss H. pose proof HR as [K Hr Hu He].
  assert (Hlive : e ∈ as_live A) by (eapply chk_alive_live_r; [exact K|done|by eapply set_relation_alive]).
  destruct (set_relation_rok w (as_live A) e rid tg w' evs (r2_ok _ _ _ K) Hlive H)
    as (K' & Hp & Hil & Hreg & Hoth & Hrel0 & Hrel1 & Hm & Ht & Hv).
  pose proof (frame_op_set_relation w e rid tg) as F. rewrite H in F. simpl in F.
  apply (R_update w w' A e); try done; try apply F.
  - destruct K as [_ [frees P] L]. split; [done|exists frees; by rewrite Hp|by rewrite Hil, Hp].
  - intros e' He' Hne'. destruct (Hoth e' He' Hne') as (A1 & A2 & _ & A4). done.
  - intros a Ha [V1 V2 V3 V4 V5 V6]. split; simpl; try done.
    + congruence.
    + intros id Hid Hb. rewrite Hv. apply V3; [by rewrite <- (fr_tb _ _ F)|done].
    + intros Hn. rewrite (ent_rel_arel w (as_live A) e (a_mask a) (r2_ok _ _ _ K) Hlive V1) in Hrel0.
      rewrite <- Hr in Hrel0. congruence.
Qed.

Lemma col_of_lookup nd id c : col_of nd id = Some c -> n_ids nd !! c = Some id.
Proof. unfold col_of. intros H. apply find_index_Some_lookup in H as (y & Hy & He). apply Nat.eqb_eq in He. by subst. Qed.

Lemma nlookup_cons id v l id' : nlookup id' ((id, v) :: l) = if id =? id' then Some v else nlookup id' l.
Proof. done. Qed.

Lemma R_set w A e id v w' :
  R w A -> e ∈ as_issued A -> set_comp w e id v = Some w' ->
  R w' (a_upd A e (fun a => if reg_zs (as_reg A) id then a else mkA (a_mask a) (a_target a) ((id, v) :: a_vals a))).
Proof.
  intros HR Hiss H. pose proof HR as [K Hr Hu He].
  assert (Hal : chk_alive w e = Some true) by (unfold set_comp in H; by destruct (chk_alive w e) as [[]|]).
  assert (Hlive : e ∈ as_live A) by (eapply chk_alive_live_r; [exact K|done|done]).
  destruct (set_comp_rok w (as_live A) (as_issued A) e id v w' K Hlive H) as (K' & Hn & Hreg & Hlk).
  destruct K as [[S G] P L].
  destruct (set_comp_spec w (as_live A) e id v w' S Hlive H) as (S1 & _ & Hi & Hp & Hoth & (nid & tgt & r & c & Hc & (n & Hnn & Hcol) & Hc')).
  pose proof (frame_set_comp w e id v w' H) as F.
  apply (R_update w w' A e); try done; try apply F.
  - intros e' He' Hne'. unfold ent_mask, ent_target, comp_val. rewrite (Hoth e' He' Hne'), Hn. done.
  - intros a Ha [V1 V2 V3 V4 V5 V6].
    assert (Hmask : n_mask n = a_mask a).
    { unfold ent_mask in V1. rewrite Hc in V1. simpl in V1. rewrite Hnn in V1. simpl in V1. by injection V1. }
    assert (Hidin : bit (a_mask a) id = true).
    { apply col_of_lookup in Hcol. apply elem_of_list_lookup_2 in Hcol.
      assert (Hnid : exists tid t, w_tables w !! tid = Some t /\ t_node t = nid).
      { destruct (so_loc _ _ S e Hlive) as (tid & row & t & Hl0 & Ht & _). exists tid, t. split; [done|].
        unfold ent_cells in Hc. rewrite Hl0 in Hc. simpl in Hc. rewrite Ht in Hc. simpl in Hc. destruct (t_rows t !! row); [|done]. by injection Hc. }
      destruct Hnid as (tid & t & Ht & <-).
      rewrite (rg_ids _ G _ _ Hnn) in Hcol. unfold mask_ids in Hcol. apply elem_of_list_filter in Hcol as [Hb _]. by rewrite <- Hmask. }
    replace (reg_zs (as_reg A) id) with (reg_is_zs w id) by (unfold reg_zs, reg_is_zs; by rewrite Hr).
    destruct (reg_is_zs w id) eqn:Hzs.
    + apply (views_keep w); [by split| | | |apply F]; unfold ent_mask, ent_target, comp_val; rewrite Hc', Hc, ?Hn; done.
    + assert (Hwidth : c < length r).
      { destruct (so_loc _ _ S e Hlive) as (tid & row & t & Hl0 & Ht & _).
        destruct (so_table _ _ S tid t Ht) as (nd & Hnd & [_ Hw _]).
        unfold ent_cells in Hc. rewrite Hl0 in Hc. simpl in Hc. rewrite Ht in Hc. simpl in Hc.
        destruct (t_rows t !! row) as [r0|] eqn:Hr0; [|done]. injection Hc as <- _ <-. rewrite Hnd in Hnn. injection Hnn as <-.
        rewrite (Hw row r0 Hr0). unfold zero_row. rewrite replicate_length. apply col_of_lookup in Hcol. by apply lookup_lt_Some in Hcol. }
      split; simpl.
      * unfold ent_mask in *. rewrite Hc'. rewrite Hc in V1. simpl in *. by rewrite Hn.
      * unfold ent_target in *. rewrite Hc'. rewrite Hc in V2. done.
      * intros id' Hid' Hb'. unfold comp_val. rewrite Hc'. simpl. rewrite Hn, Hnn. simpl.
        unfold aval. simpl. destruct (Nat.eqb_spec id id') as [<-|Hne].
        -- rewrite Hcol. simpl. by rewrite list_lookup_insert.
        -- destruct (col_of n id') as [c'|] eqn:Hcol'; simpl.
           ++ assert (c <> c').
              { intros <-. apply col_of_lookup in Hcol, Hcol'. congruence. }
              rewrite list_lookup_insert_ne by done.
              specialize (V3 id'). unfold comp_val in V3. rewrite Hc in V3. simpl in V3. rewrite Hnn in V3. simpl in V3.
              rewrite Hcol' in V3. simpl in V3. apply V3; [by rewrite <- (fr_tb _ _ F)|done].
           ++ specialize (V3 id'). unfold comp_val in V3. rewrite Hc in V3. simpl in V3. rewrite Hnn in V3. simpl in V3.
              rewrite Hcol' in V3. simpl in V3. apply V3; [by rewrite <- (fr_tb _ _ F)|done].
      * intros id' Hb'. unfold aval. simpl. destruct (Nat.eqb_spec id id') as [<-|Hne]; [congruence|by apply V4].
      * done.
      * done.
Qed.

(** ** Creation *)
Lemma R_add w w' A e a :
  R w A -> e ∉ as_issued A -> world_okr2 w' (e :: as_live A) (e :: as_issued A) ->
  w_reg w' = w_reg w -> w_locks w' = w_locks w -> w_listener w' = w_listener w -> w_tb w' = w_tb w ->
  (forall e', e' ∈ as_live A -> ent_mask w' e' = ent_mask w e' /\ ent_target w' e' = ent_target w e' /\
      forall id, comp_val w' e' id = comp_val w e' id) ->
  views w' (as_reg A) e a -> R w' (a_add A e a).
Proof.
  intros HR Hni K' Hreg Hlocks Hlis Htb Hoth Hnew. pose proof HR as [K Hr Hu He].
  split; simpl; try done; try congruence.
  - unfold is_locked. by rewrite Hlocks.
  - intros e0 Hin0. rewrite assoc_get_set. apply elem_of_cons in Hin0 as [->|Hin0].
    + rewrite ent_eqb_refl. by exists a.
    + assert (Hne : e0 <> e) by (by eapply live_ne_fresh).
      rewrite (proj2 (ent_eqb_neq e0 e) Hne). destruct (He e0 Hin0) as (a0 & Ha0 & V0). exists a0. split; [done|].
      destruct (Hoth e0 Hin0) as (A1 & A2 & A3). by apply (views_keep w).
Qed.

Lemma R_new w A ids w' e evs :
  R w A -> Forall (fun id => id < length (as_reg A)) ids -> op_new w ids [] = (w', Ok (VEnt e), evs) ->
  R w' (a_add A e (mkA (new_mask ids) ezero [])).
Proof.
  intros HR Hids H. pose proof HR as [K Hr Hu He]. rewrite Hr in Hids.
  destruct (new_entity_rok w (as_live A) (as_issued A) ids w' e evs K Hids H)
    as (Hni & K' & Hreg & Hoth & mask & rel & Hmask & Hm & Hrel & HP & Ht & Hz).
  apply exmask_add_fold in Hmask. change (mask = new_mask ids) in Hmask. subst mask.
  pose proof (frame_op_new w ids []) as F. rewrite H in F. simpl in F.
  apply (R_add w w' A e); try done; try apply F.
  - intros e' He'. destruct (Hoth e' He') as (A1 & A2 & _ & A4). done.
  - split; simpl; try done.
    + intros id Hid Hb. rewrite (fr_tb _ _ F) in Hid. by apply Hz.
    + intros id Hb. rewrite bit_new_mask in Hb. apply bool_decide_eq_true in Hb. rewrite Hr. by eapply Forall_lt_in.
Qed.

Lemma R_new_target w A rid tg ids w' e evs :
  R w A -> Forall (fun id => id < length (as_reg A)) ids -> op_new_target w rid tg ids [] = (w', Ok (VEnt e), evs) ->
  R w' (a_add A e (mkA (new_mask ids) tg [])).
Proof.
  intros HR Hids H. pose proof HR as [K Hr Hu He]. rewrite Hr in Hids.
  destruct (new_entity_target_rok w (as_live A) (as_issued A) rid tg ids w' e evs K Hids H)
    as (Hni & K' & Hreg & Hoth & mask & Hmask & Hm & Hrel & Ht & Hz).
  apply exmask_add_fold in Hmask. change (mask = new_mask ids) in Hmask. subst mask.
  pose proof (frame_op_new_target w rid tg ids []) as F. rewrite H in F. simpl in F.
  apply (R_add w w' A e); try done; try apply F.
  - intros e' He'. destruct (Hoth e' He') as (A1 & A2 & _ & A4). done.
  - split; simpl; try done.
    + intros id Hid Hb. rewrite (fr_tb _ _ F) in Hid. by apply Hz.
    + intros id Hb. rewrite bit_new_mask in Hb. apply bool_decide_eq_true in Hb. rewrite Hr. by eapply Forall_lt_in.
    + intros Hn. assert (Hin : e ∈ e :: as_live A) by apply elem_of_list_here.
      rewrite (ent_rel_arel w' _ e (new_mask ids) (r2_ok _ _ _ K') Hin Hm), Hreg, <- Hr in Hrel. congruence.
Qed.

(** ** Removal *)
Lemma lock_unlock_unlocked tb l l1 b :
  locks_locked l = false -> locks_lock tb l = Some (l1, b) -> locks_locked (default l1 (locks_unlock l1 b)) = false.
Proof.
  intros Hu Hl. unfold locks_locked in Hu. apply negb_false_iff, N.eqb_eq in Hu.
  assert (Hm : l_mask l1 = setb 0 b true).
  { unfold locks_lock in Hl. destruct (l_avail l =? 0).
    - destruct (tb <=? l_len l); [done|]. injection Hl as <- <-. simpl. by rewrite Hu.
    - destruct (l_bits l !! l_next l); [|done]. injection Hl as <- <-. simpl. by rewrite Hu. }
  unfold locks_unlock. rewrite Hm, bit_setb_same. simpl. unfold locks_locked. simpl.
  apply negb_false_iff, N.eqb_eq. unfold setb. apply N.bits_inj. intros k.
  destruct (N.eq_dec k (N.of_nat b)) as [->|Hne].
  - rewrite N.clearbit_eq. by rewrite N.bits_0.
  - rewrite N.clearbit_neq by done. rewrite N.setbit_neq by done. done.
Qed.

Lemma remove_entity_unlocked w e : is_locked w = false -> is_locked (res_world (op_remove_entity w e)) = false.
Proof.
  intros Hu. unfold op_remove_entity. rewrite Hu.
  destruct (ent_table w e) as [[[[src row] st] sn]|]; [|done].
  destruct (tbl_remove _ _ _) as [st1 sw]. simpl.
  match goal with |- is_locked (cleanup_table ?x src) = _ => set (w2 := x) end.
  unfold is_locked. destruct (cleanup_table_side w2 src) as (_&_&_&_&_&->&_).
  match goal with _ := (if tbit ?y _ then _ else _) |- _ => set (w1 := y) in * end.
  assert (H1 : locks_locked (w_locks w1) = false).
  { unfold w1. simpl. destruct (ev_remove w e sn (t_target st)); [exact Hu|].
    destruct (locks_lock (w_tb w) (w_locks w)) as [[l0 b0]|] eqn:Hlk; [|exact Hu].
    by eapply lock_unlock_unlocked. }
  unfold w2. destruct (tbit w1 (eid e)); [|done]. simpl. by destruct (cleanup_tables_for_side w1 e) as (_&_&_&_&_&->&_).
Qed.

Lemma R_remove w A e :
  R w A -> e ∈ as_live A -> (egen e < gen_max)%N ->
  R (res_world (op_remove_entity w e))
    (mkAS (assoc_del e (as_ents A)) (filter (fun x => x <> e) (as_live A)) (as_issued A) (as_reg A)).
Proof.
  intros HR Hlive Hg. pose proof HR as [K Hr Hu He].
  destruct (remove_entity_rok w (as_live A) (as_issued A) e K Hlive Hg Hu) as (_ & K' & Hreg & Hoth & _).
  pose proof (step_frame_rr w (ORemoveEntity e) eq_refl) as F. simpl in F.
  split; simpl; try done; try congruence.
  - by apply remove_entity_unlocked.
  - intros e0 Hin0. apply elem_of_list_filter in Hin0 as [Hne Hin0]. rewrite assoc_get_del.
    rewrite (proj2 (ent_eqb_neq e0 e) Hne). destruct (He e0 Hin0) as (a0 & Ha0 & V0). exists a0. split; [done|].
    destruct (Hoth e0 Hin0 Hne) as (A1 & A2 & _ & A4). apply (views_keep w); try done. apply F.
Qed.

(** ** Registration *)
Lemma arel_app reg c m : (forall id, bit m id = true -> id < length reg) -> arel (reg ++ [c]) m = arel reg m.
Proof.
  intros Hb. unfold arel. rewrite app_length. simpl. rewrite Nat.add_1_r, seq_S, filter_app. simpl.
  rewrite filter_cons, filter_nil.
  destruct (decide (bit m (length reg) && reg_rel (reg ++ [c]) (length reg) = true)) as [Hd|Hd].
  { apply andb_true_iff in Hd as [Hd _]. apply Hb in Hd. lia. }
  rewrite app_nil_r. f_equal. apply list_filter_iff. intros id. unfold reg_rel.
  destruct (decide (id < length reg)) as [Hlt|Hge].
  - by rewrite lookup_app_l.
  - destruct (bit m id) eqn:Hbit; [apply Hb in Hbit; lia|done].
Qed.

Lemma R_register w A key isrel zs w' id :
  R w A -> register_comp w key isrel zs = Some (w', id) ->
  R w' (if id =? length (as_reg A)
        then mkAS (as_ents A) (as_live A) (as_issued A) (as_reg A ++ [mkCI key isrel zs]) else A).
Proof.
  intros HR H. pose proof HR as [K Hr Hu He].
  destruct (register_rok w (as_live A) (as_issued A) key isrel zs w' id K H) as (K' & HN & Hcells & Hlocks & Hregs).
  assert (Hside : w_listener w' = w_listener w /\ w_tb w' = w_tb w /\
                  ((w' = w /\ id < length (w_reg w)) \/ (w_reg w' = w_reg w ++ [mkCI key isrel zs] /\ id = length (w_reg w)))).
  { unfold register_comp in H. destruct (find_index _ _) as [i|] eqn:Hf.
    - injection H as <- <-. split; [done|]. split; [done|]. left. split; [done|].
      apply find_index_Some_lookup in Hf as (y & Hy & _). by apply lookup_lt_Some in Hy.
    - destruct (_ <=? _); [done|]. destruct (is_locked w); [done|].
      destruct (_ && _); injection H as <- <-; (split; [done|]; split; [done|]; by right). }
  destruct Hside as (Hlis & Htb & Hcase).
  assert (Hviews : forall e, e ∈ as_live A -> ent_mask w' e = ent_mask w e /\ ent_target w' e = ent_target w e /\
      forall id, comp_val w' e id = comp_val w e id).
  { intros e Hin. destruct (views_same w w' (as_live A) e (wr_store _ _ (r2_ok _ _ _ K)) Hin HN (Hcells e)) as (A1 & A2 & _ & A4). done. }
  destruct Hcase as [[-> Hlt]|[Hreg ->]].
  - rewrite Hr. destruct (Nat.eqb_spec id (length (w_reg w))); [lia|done].
  - rewrite Hr, Nat.eqb_refl.
    split; simpl; try done.
    + unfold is_locked. by rewrite Hlocks.
    + intros e Hin. destruct (He e Hin) as (a & Ha & V). exists a. split; [done|].
      destruct (Hviews e Hin) as (A1 & A2 & A3).
      destruct (views_keep w w' _ e a V A1 A2 A3 Htb) as [V1 V2 V3 V4 V5 V6]. split; try done.
      * intros i Hb. rewrite app_length. simpl. specialize (V5 i Hb). rewrite Hr in V5. lia.
      * intros Hn. apply V6. rewrite <- Hn, <- Hr. symmetry. by apply arel_app.
Qed.

(** ** One step *)
Definition ids_reg (A : astate) (ids : list nat) : Prop := Forall (fun id => id < length (as_reg A)) ids.

(** Side conditions: the operation belongs to the single-entity core, addresses handles
    that were issued by this world, names registered component IDs, and (for removal)
    the generation counter has not reached its last value (known finding K1). *)
Definition op_pre (A : astate) (o : op) : Prop :=
  match o with
  | ONew ids => ids_reg A ids
  | OBNew b _ => ids_reg A (b_ids b) /\ b_vals b = None
  | OExchange e add _ => e ∈ as_issued A /\ ids_reg A add
  | ORelExchange e add _ _ _ => e ∈ as_issued A /\ ids_reg A add
  | ORelSet e _ _ | OSet e _ _ | OGet e _ | OMask e | OHas e _ | ORelGet e _ => e ∈ as_issued A
  | ORemoveEntity e => e ∈ as_issued A /\ (egen e < gen_max)%N
  | ORegister _ _ _ | OAlive _ | OSetListener _ => True
  | _ => False
  end.

Lemma op_new_shape w ids cs w' out evs : op_new w ids cs = (w', out, evs) -> out = Panic \/ exists e, out = Ok (VEnt e).
Proof.
  unfold op_new. destruct (is_locked w); [intros [= _ <- _]; by left|].
  destruct (match ids with [] => _ | _ => _ end) as [[w1 tid]|]; [|intros [= _ <- _]; by left].
  destruct (create_entity w1 tid). destruct (table_mask_rel _ _). intros [= _ <- _]. right. by eexists.
Qed.
Lemma op_new_target_shape w rid t ids cs w' out evs :
  op_new_target w rid t ids cs = (w', out, evs) -> out = Panic \/ exists e, out = Ok (VEnt e).
Proof.
  unfold op_new_target. destruct (is_locked w); [intros [= _ <- _]; by left|]. destruct (negb _); [intros [= _ <- _]; by left|].
  destruct (match ids with [] => _ | _ => _ end) as [[w1 tid]|]; [|intros [= _ <- _]; by left].
  destruct (negb _); [intros [= _ <- _]; by left|].
  destruct (create_entity w1 tid). destruct (table_mask_rel _ _). intros [= _ <- _]. right. by eexists.
Qed.
Lemma op_set_relation_shape w e rid t w' out evs :
  op_set_relation w e rid t = (w', out, evs) -> out = Panic \/ out = Ok VUnit.
Proof.
  unfold op_set_relation. destruct (is_locked w); [intros [= _ <- _]; by left|].
  destruct (chk_alive w e) as [[]|]; try (intros [= _ <- _]; by left).
  destruct (negb _); [intros [= _ <- _]; by left|]. destruct (ent_table w e) as [[[[src row] st] sn]|]; [|intros [= _ <- _]; by left].
  destruct (negb _); [intros [= _ <- _]; by left|]. destruct (ent_eqb _ _); [intros [= _ <- _]; by right|].
  destruct (match node_get_table sn t with Some tid => _ | None => _ end). intros [= _ <- _]. by right.
Qed.
Lemma exchange_nn_none w e add rem rel w1 : exchange_nn w e add rem rel = Some (w1, None) -> add = [] /\ rem = [] /\ w1 = w.
Proof.
  intros H. split; [|split; [|by eapply exchange_nn_none_same]];
  unfold exchange_nn in H; destruct (is_locked w); try done; destruct (chk_alive w e) as [[]|]; try done;
  destruct (negb _); try done; destruct add, rem; try done;
  destruct (loc w e) as [[? ?]|]; try done; destruct (w_tables w !! _) as [st|]; try done;
  destruct (w_nodes w !! _) as [sn|]; try done; destruct (exchange_mask _ _ _); try done;
  destruct (exchange_target _ _ _ _ _ _); try done; destruct (find_or_create_table _ _ _ _ _) as [[? ?]|]; done.
Qed.

Lemma R_set_listener w A l : R w A -> R (w <| w_listener := l |>) A.
Proof.
  intros HR. pose proof HR as [[[S G] P L] Hr Hu He].
  assert (K' : world_okr2 (w <| w_listener := l |>) (as_live A) (as_issued A)).
  { split; [split|done|done].
    - destruct S as [S1 S2 S3 S4]. split; [exact S1|exact S2|exact S3|exact S4].
    - eapply (rgraph_ok_same_nodes w); try done. intros tid t Ht. exists t. done. }
  split; try done.
  intros e Hin. destruct (He e Hin) as (a & Ha & V). exists a. split; [done|]. by apply (views_keep w).
Qed.

(** The world a panicking creation / exchange leaves behind refines the same abstract store:
    no entity, mask, target or value changes. *)
Lemma R_ext_r w w1 A : R w A -> ext_r w w1 -> rgraph_ok w1 -> frame w w1 -> R w1 A.
Proof.
  intros HR E G1 F. pose proof HR as [[[S G] [frees P] L] Hr Hu He].
  apply (R_transfer w); try done.
  - split; [split; [by eapply ext_r_store_ok|done]|exists frees; by rewrite (xr_pool _ _ E)|by rewrite (xr_index _ _ E), (xr_pool _ _ E)].
  - apply F.
  - apply F.
  - apply F.
  - apply F.
  - intros e Hin. destruct (views_same w w1 (as_live A) e S Hin (ext_r_nodes _ _ E) (ext_r_cells w w1 (as_live A) e E S Hin)) as (V1 & V2 & _ & V4).
    done.
Qed.

Lemma ghost_R w A o : R w A -> ids_reg A (ghost_ids o) -> R (ghost_of w o) A.
Proof.
  intros HR Hids. pose proof HR as [[[S G] _ _] Hr _ _]. unfold ids_reg in Hids. rewrite Hr in Hids.
  destruct (ghost_of_rok w o G Hids) as [E G1]. apply (R_ext_r w); try done. apply frame_ghost_of.
Qed.

Lemma op_pre_ghost_ids A o : op_pre A o -> ids_reg A (ghost_ids o).
Proof. destruct o; simpl; intros H; try (by apply Forall_nil); try done; by destruct H. Qed.

Lemma rel_step0 w A o :
  R w A -> op_pre A o -> R (res_world (step0 w o)) (astep A o (snd (fst (step0 w o)))).
Proof.
  intros HR Hpre. destruct o; try (by destruct Hpre); simpl in Hpre |- *.
  - (* ONew *)
    destruct (op_new w ids []) as [[w' out] evs] eqn:H. simpl.
    destruct (op_new_shape _ _ _ _ _ _ H) as [->|[e ->]].
    + apply op_new_panic in H as [-> _]. done.
    + by eapply R_new.
  - (* OBNew *)
    destruct Hpre as [Hids Hv]. unfold op_builder_new. destruct target as [tg|].
    + destruct (b_rel b) as [rid|]; [|done]. unfold b_comps. rewrite Hv.
      destruct (op_new_target w rid tg (b_ids b) []) as [[w' out] evs] eqn:H. simpl.
      destruct (op_new_target_shape _ _ _ _ _ _ _ _ H) as [->|[e ->]].
      * apply op_new_target_panic in H as [-> _]. done.
      * by eapply R_new_target.
    + unfold b_comps. rewrite Hv.
      destruct (op_new w (b_ids b) []) as [[w' out] evs] eqn:H. simpl.
      destruct (op_new_shape _ _ _ _ _ _ H) as [->|[e ->]].
      * apply op_new_panic in H as [-> _]. done.
      * by eapply R_new.
  - (* ORemoveEntity *)
    destruct Hpre as [Hiss Hg].
    destruct (decide (e ∈ as_live A)) as [Hlive|Hdead].
    + pose proof HR as [K _ Hu _].
      destruct (remove_entity_rok w (as_live A) (as_issued A) e K Hlive Hg Hu) as (Hok & _). rewrite Hok.
      by apply R_remove.
    + assert (Hp : op_remove_entity w e = panic w).
      { pose proof HR as [K _ Hu _]. unfold op_remove_entity. rewrite Hu. unfold ent_table.
        destruct (chk_alive w e) as [[]|] eqn:Hal; try done. exfalso. apply Hdead. by eapply chk_alive_live_r. }
      rewrite Hp. done.
  - (* OAlive *) by destruct (chk_alive w e).
  - (* OExchange *)
    destruct Hpre as [Hiss Hadd]. unfold op_exchange.
    destruct (exchange_nn w e add rem None) as [[w1 [x|]]|] eqn:H; simpl; [|apply exchange_nn_none in H as (-> & -> & ->); done|done].
    assert (Hne : match add, rem with [], [] => False | _, _ => True end).
    { destruct add, rem; try done. unfold exchange_nn in H. destruct (is_locked w); [done|]. destruct (chk_alive w e) as [[]|]; done. }
    assert (HR' := R_exchange w A e add rem None w1 x HR Hiss Hadd H).
    destruct add, rem; done.
  - (* OSet *)
    destruct (set_comp w e id v) as [w1|] eqn:H; simpl; [|done]. by eapply R_set.
  - (* OGet *) by destruct (get_comp w e id).
  - (* OHas *) by destruct (ent_table w e) as [[[[? ?] ?] ?]|].
  - (* OMask *) by destruct (ent_table w e) as [[[[? ?] ?] ?]|].
  - (* ORelGet *) destruct (ent_table w e) as [[[[? ?] ?] ?]|]; [|done]. by destruct (check_relation _ _ _).
  - (* ORelSet *)
    destruct (op_set_relation w e id t) as [[w' out] evs] eqn:H. simpl.
    destruct (op_set_relation_shape _ _ _ _ _ _ _ H) as [->| ->].
    + assert (Hs : step w (ORelSet e id t) = (w', Panic, evs)) by done. apply panic_atomic in Hs as [-> _]. done.
    + by eapply R_set_relation.
  - (* ORelExchange *)
    destruct Hpre as [Hiss Hadd]. unfold op_exchange.
    destruct (exchange_nn w e add rem (Some (rid, t))) as [[w1 [x|]]|] eqn:H; simpl; [| |done].
    + by eapply R_exchange.
    + exfalso. unfold exchange_nn in H. destruct (is_locked w); [done|]. destruct (chk_alive w e) as [[]|]; try done.
      destruct (negb _); [done|]. destruct add, rem; try done;
      destruct (loc w e) as [[? ?]|]; try done; destruct (w_tables w !! _) as [st|]; try done;
      destruct (w_nodes w !! _) as [sn|]; try done; destruct (exchange_mask _ _ _); try done;
      destruct (exchange_target _ _ _ _ _ _); try done; destruct (find_or_create_table _ _ _ _ _) as [[? ?]|]; done.
  - (* ORegister *)
    destruct (register_comp w key isrel zs) as [[w1 id]|] eqn:H; simpl; [|done]. by eapply R_register.
  - (* OSetListener *) by apply R_set_listener.
Qed.

Theorem rel_step w A o :
  R w A -> op_pre A o -> R (res_world (step w o)) (astep A o (snd (fst (step w o)))).
Proof.
  intros HR Hpre. destruct (step_cases w o) as [[-> _]|[_ ->]]; [by apply rel_step0|].
  simpl. apply ghost_R; [done|by apply op_pre_ghost_ids].
Qed.


(** ** Histories *)
Fixpoint arun (w : world) (A : astate) (ops : list op) : world * astate :=
  match ops with
  | [] => (w, A)
  | o :: r => arun (res_world (step w o)) (astep A o (snd (fst (step w o)))) r
  end.
Fixpoint pre_run (w : world) (A : astate) (ops : list op) : Prop :=
  match ops with
  | [] => True
  | o :: r => op_pre A o /\ pre_run (res_world (step w o)) (astep A o (snd (fst (step w o)))) r
  end.

Theorem rel_history ops : forall w A,
  R w A -> pre_run w A ops -> R (fst (arun w A ops)) (snd (arun w A ops)) /\ fst (arun w A ops) = run w ops.
Proof.
  induction ops as [|o r IH]; intros w A HR Hp; simpl; [done|].
  destruct Hp as [Hpre Hp]. apply IH; [by apply rel_step|done].
Qed.

Definition a_init : astate := mkAS [] [] [] [].
Lemma R_init capinc relcapinc tb : 0 < capinc -> R (world_init capinc relcapinc tb) a_init.
Proof.
  intros Hc. split.
  - by apply world_init_rok.
  - done.
  - done.
  - intros e He. by apply elem_of_nil in He.
Qed.

(** Every state reachable from a new world by core operations refines the abstract store. *)
Corollary rel_reachable capinc relcapinc tb ops :
  0 < capinc -> pre_run (world_init capinc relcapinc tb) a_init ops ->
  R (run (world_init capinc relcapinc tb) ops) (snd (arun (world_init capinc relcapinc tb) a_init ops)).
Proof.
  intros Hc Hp. destruct (rel_history ops _ _ (R_init capinc relcapinc tb Hc) Hp) as [HR <-]. done.
Qed.

(** ** The read accessors return what the abstract state says *)
Lemma find_index_notin (l : list nat) x : x ∉ l -> find_index (Nat.eqb x) l = None.
Proof.
  induction l as [|y r IH]; intros H; simpl; [done|].
  destruct (Nat.eqb_spec x y) as [->|Hne]; [exfalso; apply H; apply elem_of_list_here|].
  rewrite IH; [done|]. intros Hin. apply H. by apply elem_of_list_further.
Qed.

Lemma ent_table_views w A e tid row t nd :
  R w A -> e ∈ as_issued A -> ent_table w e = Some (tid, row, t, nd) ->
  e ∈ as_live A /\ exists a r, assoc_get e (as_ents A) = Some a /\ views w (as_reg A) e a /\
    t_rows t !! row = Some r /\ n_mask nd = a_mask a /\ t_target t = a_target a /\
    n_ids nd = mask_ids (w_tb w) (n_mask nd) /\ relP w (n_mask nd) (n_rel nd) /\
    (forall id, comp_val w e id = col_of nd id ≫= fun c => r !! c).
Proof.
  intros HR Hiss H. pose proof HR as [K Hr Hu He]. unfold ent_table in H.
  destruct (chk_alive w e) as [[]|] eqn:Hal; try done.
  assert (Hlive : e ∈ as_live A) by (by eapply chk_alive_live_r).
  split; [done|]. destruct (He e Hlive) as (a & Ha & V). exists a.
  destruct K as [[S G] _ _].
  destruct (so_loc _ _ S e Hlive) as (tid0 & row0 & t0 & Hl0 & Ht0 & Hr0). rewrite Hl0, Ht0 in H.
  destruct (so_table _ _ S tid0 t0 Ht0) as (nd0 & Hnd0 & [Hlen Hw _]). rewrite Hnd0 in H. injection H as <- <- <- <-.
  assert (Hrow : exists r, t_rows t0 !! row0 = Some r).
  { apply lookup_lt_is_Some. apply lookup_lt_Some in Hr0. unfold tlen in Hlen. lia. }
  destruct Hrow as [r Hrow]. exists r.
  assert (Hc : ent_cells w e = Some (t_node t0, t_target t0, r)).
  { unfold ent_cells. rewrite Hl0. simpl. rewrite Ht0. simpl. by rewrite Hrow. }
  destruct V as [V1 V2 V3 V4 V5 V6].
  split; [done|]. split; [by split|]. split; [done|].
  split; [unfold ent_mask in V1; rewrite Hc in V1; simpl in V1; rewrite Hnd0 in V1; simpl in V1; by injection V1|].
  split; [unfold ent_target in V2; rewrite Hc in V2; simpl in V2; by injection V2|].
  split; [by apply (rg_ids _ G (t_node t0))|]. split; [by apply (rg_rel _ G (t_node t0))|].
  intros id. unfold comp_val. rewrite Hc. simpl. by rewrite Hnd0.
Qed.

Theorem rel_reads w A e :
  R w A -> e ∈ as_issued A ->
  (forall w' m evs, step w (OMask e) = (w', Ok (VMask m), evs) ->
     exists a, assoc_get e (as_ents A) = Some a /\ m = a_mask a) /\
  (forall id w' b evs, step w (OHas e id) = (w', Ok (VBool b), evs) ->
     exists a, assoc_get e (as_ents A) = Some a /\ b = bit (a_mask a) id) /\
  (forall id w' t evs, step w (ORelGet e id) = (w', Ok (VEnt t), evs) ->
     exists a, assoc_get e (as_ents A) = Some a /\ t = a_target a /\ arel (as_reg A) (a_mask a) = Some id) /\
  (forall id w' o evs, id < w_tb w -> step w (OGet e id) = (w', Ok (VOptZ o), evs) ->
     exists a, assoc_get e (as_ents A) = Some a /\ o = if bit (a_mask a) id then Some (aval a id) else None) /\
  (forall w' b evs, step w (OAlive e) = (w', Ok (VBool b), evs) -> b = bool_decide (e ∈ as_live A)).
Proof.
  intros HR Hiss. split; [|split; [|split; [|split]]].
  - intros w' m evs H. simpl in H. destruct (ent_table w e) as [[[[tid row] t] nd]|] eqn:Het; [|done].
    injection H as _ <-. destruct (ent_table_views w A e tid row t nd HR Hiss Het) as (_ & a & r & Ha & _ & _ & Hm & _).
    by exists a.
  - intros id w' b evs H. simpl in H. destruct (ent_table w e) as [[[[tid row] t] nd]|] eqn:Het; [|done].
    injection H as _ <-. destruct (ent_table_views w A e tid row t nd HR Hiss Het) as (_ & a & r & Ha & _ & _ & Hm & _).
    exists a. by rewrite Hm.
  - intros id w' tg evs H. simpl in H. destruct (ent_table w e) as [[[[tid row] t] nd]|] eqn:Het; [|done].
    destruct (check_relation w tid id) eqn:Hchk; [|done]. injection H as _ <-.
    destruct (ent_table_views w A e tid row t nd HR Hiss Het) as (_ & a & r & Ha & V & _ & Hm & Htg & _ & HP & _).
    exists a. split; [done|]. split; [done|].
    unfold check_relation in Hchk. unfold ent_table in Het. destruct (chk_alive w e) as [[]|]; try done.
    destruct (loc w e) as [[tid0 row0]|]; [|done]. destruct (w_tables w !! tid0) as [t0|] eqn:Ht0; [|done].
    destruct (w_nodes w !! t_node t0) as [n0|] eqn:Hn0; [|done]. injection Het as -> -> -> ->.
    rewrite Ht0, Hn0 in Hchk. destruct (n_rel nd) as [r0|] eqn:Hrel; [|done]. apply Nat.eqb_eq in Hchk as ->.
    rewrite <- Hm. rewrite (r_reg _ _ HR). apply arel_relP; [exact HP|].
    intros i Hb. rewrite <- (r_reg _ _ HR). apply (v_bits _ _ _ _ V). by rewrite <- Hm.
  - intros id w' o evs Hid H. simpl in H. destruct (get_comp w e id) as [o'|] eqn:Hg; [|done]. injection H as _ <-.
    unfold get_comp in Hg. destruct (chk_alive w e) as [[]|] eqn:Hal; try done.
    destruct (loc w e) as [[tid row]|] eqn:Hloc; [|done]. destruct (w_tables w !! tid) as [t|] eqn:Ht; [|done].
    destruct (w_nodes w !! t_node t) as [nd|] eqn:Hnd; [|done].
    assert (Het : ent_table w e = Some (tid, row, t, nd)) by (unfold ent_table; by rewrite Hal, Hloc, Ht, Hnd).
    destruct (ent_table_views w A e tid row t nd HR Hiss Het) as (_ & a & r & Ha & V & Hrow & Hm & _ & Hids & _ & Hcv).
    exists a. split; [done|]. destruct (bit (a_mask a) id) eqn:Hb.
    + pose proof (v_vals _ _ _ _ V id Hid Hb) as Hv. rewrite Hcv in Hv.
      destruct (col_of nd id) as [c|]; [|done]. simpl in Hv. injection Hg as <-. unfold get_cell. rewrite Hrow. simpl. by rewrite Hv.
    + assert (Hnone : col_of nd id = None).
      { unfold col_of. apply find_index_notin. rewrite Hids. unfold mask_ids. intros Hin. apply elem_of_list_filter in Hin as [Hx _].
        rewrite Hm in Hx. congruence. }
      rewrite Hnone in Hg. by injection Hg as <-.
  - intros w' b evs H. simpl in H. destruct (chk_alive w e) as [b0|] eqn:Hal; [|done]. injection H as _ <-.
    destruct HR as [[_ [frees P] _] _ _ _].
    pose proof (Proofs.PoolInv.pool_alive_iff (w_pool w) _ _ frees e P Hiss) as Hiff.
    unfold pool_alive in Hiff. unfold chk_alive in Hal. rewrite Hal in Hiff. simpl in Hiff.
    destruct b0.
    + symmetry. apply bool_decide_eq_true. by apply Hiff.
    + symmetry. apply bool_decide_eq_false. intros Hin. apply Hiff in Hin. done.
Qed.

(** ** Non-vacuity: a concrete history meets the side conditions, exercises relation
       creation, Relations.Set, exchange with and without relation argument and the removal
       of a target; the entity keeps pointing at its dead target (C06). *)
Definition demo_e1 := mkE 1 0.
Definition demo_e2 := mkE 2 0.
Definition demo_ops : list op :=
  [ORegister 10 false false; ORegister 11 true false; ORegister 12 false true;
   ONew [0]; OBNew (mkB [1; 2] None (Some 1)) (Some demo_e1); OSet demo_e2 2 7%Z; ORelGet demo_e2 1;
   ORelSet demo_e2 1 ezero; OExchange demo_e2 [0] [2]; ORelExchange demo_e2 [] [0] 1 demo_e1;
   ORemoveEntity demo_e1; OMask demo_e2; ORelGet demo_e2 1].
Example demo_pre : pre_run (world_init 4 4 64) a_init demo_ops.
Proof.
  vm_compute. repeat split; try (repeat (apply List.Forall_cons; [simpl; lia|]); apply List.Forall_nil); try reflexivity;
  repeat (first [apply elem_of_list_here | apply elem_of_list_further]).
Qed.
Example demo_result :
  snd (arun (world_init 4 4 64) a_init demo_ops) =
  mkAS [(demo_e2, mkA 2 demo_e1 [])] [demo_e2] [demo_e2; demo_e1]
       [mkCI 10 false false; mkCI 11 true false; mkCI 12 false true].
Proof. vm_compute. reflexivity. Qed.
Example demo_refines : R (run (world_init 4 4 64) demo_ops) (snd (arun (world_init 4 4 64) a_init demo_ops)).
Proof. apply rel_reachable; [lia|exact demo_pre]. Qed.
