(** * Resources (C20), component registry (C16) and entity dump/load (C17): the parts
      that do not need the storage invariant. *)
From Arche Require Import Model.Base Model.Pool Model.Filter Model.World Model.Ops Proofs.Frame Proofs.StepFrame.

Notation res_world r := (fst (fst r)).

(** ** Resources: a partial map from resource id to value *)
Definition res_spec (w : world) (o : op) : list (option Z) :=
  match o with
  | OResAdd id v => match w_res w !! id with Some None => <[id := Some v]> (w_res w) | _ => w_res w end
  | OResRemove id => match w_res w !! id with Some (Some _) => <[id := None]> (w_res w) | _ => w_res w end
  | OReset => if is_locked w then w_res w else replicate (w_tb w) None
  | _ => w_res w
  end.

Lemma reset_node_frame_rr w nid : frame_rr w (reset_node w nid).
Proof.
  unfold reset_node. destruct (w_nodes w !! nid) as [nd|]; [|apply frame_rr_refl].
  destruct (negb (n_active nd)); [apply frame_rr_refl|].
  destruct (negb (node_has_rel nd)).
  - generalize (n_tables nd). intros l. revert w. induction l as [|tid r IH]; intros w; simpl; [apply frame_rr_refl|].
    eapply frame_rr_trans; [|apply IH]. destruct (w_tables w !! tid); by split.
  - generalize (n_tables nd). intros l. revert w. induction l as [|tid r IH]; intros w; simpl; [apply frame_rr_refl|].
    eapply frame_rr_trans; [|apply IH]. destruct (w_tables w !! tid); [|apply frame_rr_refl].
    destruct (negb (t_active t)); [apply frame_rr_refl|]. destruct (negb _); [apply frame_rr_of, frame_retire_table|by split].
Qed.

Lemma world_reset_fields w :
  w_res (world_reset w) = replicate (w_tb w) None /\ w_resreg (world_reset w) = w_resreg w /\
  w_reg (world_reset w) = w_reg w /\ w_listener (world_reset w) = w_listener w /\ w_tb (world_reset w) = w_tb w.
Proof.
  unfold world_reset.
  set (w1 := w <| w_index := [None] |> <| w_tbits := [false] |> <| w_pool := pool_init |>
               <| w_locks := locks_init (w_tb w) |> <| w_res := replicate (w_tb w) None |>).
  assert (H : forall l w0, frame_rr w0 (foldl reset_node w0 l)).
  { induction l as [|x r IH]; intros w0; simpl; [apply frame_rr_refl|].
    eapply frame_rr_trans; [apply reset_node_frame_rr|apply IH]. }
  destruct (H (seq 0 (length (w_nodes w1))) w1). by repeat split.
Qed.

(** Every operation changes the resource map exactly as the partial-map specification
    says: only Add/Remove of that id and Reset touch it (entity operations, queries,
    locks, cache, registrations of either kind do not). *)
Theorem resources_map w o : w_res (res_world (step w o)) = res_spec w o.
Proof.
  destruct (touches_rr o) eqn:Ht.
  - destruct o; try discriminate Ht; simpl.
    + destruct (is_locked w); [done|]. simpl. apply world_reset_fields.
    + destruct (register_comp w key isrel zs) as [[w1 id]|] eqn:H; [|done]. simpl.
      unfold register_comp in H. destruct (find_index _ _); [by injection H as <- _|].
      destruct (_ <=? _); [done|]. destruct (is_locked w); [done|]. injection H as <- _.
      destruct (_ && _); [unfold extend_layouts|]; done.
    + destruct (register_res w key) as [[w1 id]|] eqn:H; [|done]. simpl.
      unfold register_res in H. destruct (find_index _ _); [by injection H as <- _|].
      destruct (_ <=? _); [done|]. by injection H as <- _.
    + by destruct (w_res w !! id) as [[]|].
    + by destruct (w_res w !! id) as [[]|].
    + done.
  - rewrite (rr_res _ _ (step_frame_rr w o Ht)). by destruct o.
Qed.

(** Get / Has read the map; Add of a present and Remove of an absent resource panic
    without effect. *)
Theorem resources_get w id :
  step w (OResGet id) = (w, match w_res w !! id with Some o => Ok (VOptZ o) | None => Panic end, []).
Proof. simpl. by destruct (w_res w !! id). Qed.

Theorem resources_strict w id v :
  (forall x, w_res w !! id = Some (Some x) -> step w (OResAdd id v) = (w, Panic, [])) /\
  (w_res w !! id = Some None -> step w (OResRemove id) = (w, Panic, [])).
Proof. split; [intros x H|intros H]; simpl; by rewrite H. Qed.

(** Resource ids and component ids come from separate registries. *)
Theorem res_ids_independent w key isrel zs :
  w_resreg (res_world (step w (ORegister key isrel zs))) = w_resreg w /\
  w_reg (res_world (step w (OResReg key))) = w_reg w.
Proof.
  split; simpl.
  - destruct (register_comp w key isrel zs) as [[w1 id]|] eqn:H; [|done]. simpl.
    unfold register_comp in H. destruct (find_index _ _); [by injection H as <- _|].
    destruct (_ <=? _); [done|]. destruct (is_locked w); [done|]. injection H as <- _.
    destruct (_ && _); [unfold extend_layouts|]; done.
  - destruct (register_res w key) as [[w1 id]|] eqn:H; [|done]. simpl.
    unfold register_res in H. destruct (find_index _ _); [by injection H as <- _|].
    destruct (_ <=? _); [done|]. by injection H as <- _.
Qed.

(** ** Registry: a stable bijection between type keys and dense ids *)
Lemma find_index_spec {A} (p : A -> bool) l :
  match find_index p l with
  | Some i => exists x, l !! i = Some x /\ p x = true /\ forall j y, j < i -> l !! j = Some y -> p y = false
  | None => forall x, x ∈ l -> p x = false
  end.
Proof.
  induction l as [|x r IH]; simpl; [intros x H; by apply elem_of_nil in H|].
  destruct (p x) eqn:Hp.
  - exists x. split; [done|]. split; [done|]. intros j y Hj. lia.
  - destruct (find_index p r) as [i|]; simpl.
    + destruct IH as (y & Hy & Hpy & Hlt). exists y. split; [done|]. split; [done|].
      intros j z Hj Hz. destruct j; simpl in Hz; [by injection Hz as <-|]. apply (Hlt j z); [lia|done].
    + intros y Hy. apply elem_of_cons in Hy as [->|Hy]; [done|by apply IH].
Qed.

Definition reg_wf (w : world) : Prop := NoDup (map ci_key (w_reg w)) /\ length (w_reg w) <= w_tb w.

(** Registration: the same type always gets the same id, a new type gets the next
    dense id, ids of earlier types never change, the key-to-id map stays injective; one
    registration beyond the limit panics and leaves the world unchanged. *)
Lemma register_comp_new w key isrel zs :
  find_index (fun c => ci_key c =? key) (w_reg w) = None ->
  length (w_reg w) < w_tb w -> is_locked w = false ->
  exists w1, register_comp w key isrel zs = Some (w1, length (w_reg w)) /\
             w_reg w1 = w_reg w ++ [mkCI key isrel zs] /\ w_tb w1 = w_tb w.
Proof.
  intros Hf Hlt HL. unfold register_comp. rewrite Hf, HL.
  rewrite (proj2 (Nat.leb_gt _ _) Hlt).
  destruct (_ && _); eexists; (split; [reflexivity|]); [unfold extend_layouts|]; done.
Qed.

Theorem registry_register w key isrel zs :
  reg_wf w ->
  match step w (ORegister key isrel zs) with
  | (w', Ok (VNat id), _) =>
      reg_wf w' /\ (exists c, w_reg w' !! id = Some c /\ ci_key c = key) /\
      (forall j c, w_reg w !! j = Some c -> w_reg w' !! j = Some c) /\
      ((exists c, w_reg w !! id = Some c /\ ci_key c = key /\ w_reg w' = w_reg w) \/
       (id = length (w_reg w) /\ key ∉ map ci_key (w_reg w) /\ w_reg w' = w_reg w ++ [mkCI key isrel zs]))
  | (w', Panic, _) => w' = w /\ key ∉ map ci_key (w_reg w) /\ (length (w_reg w) = w_tb w \/ is_locked w = true)
  | _ => False
  end.
Proof.
  intros [Hnd Hlen]. cbn [step step0].
  pose proof (find_index_spec (fun c => ci_key c =? key) (w_reg w)) as Hf.
  destruct (find_index (fun c => ci_key c =? key) (w_reg w)) as [id|] eqn:Hfi.
  - unfold register_comp. rewrite Hfi. destruct Hf as (c & Hc & Hk & _). apply Nat.eqb_eq in Hk. simpl.
    split; [done|]. split; [by exists c|]. split; [done|]. left. by exists c.
  - assert (Hnk : key ∉ map ci_key (w_reg w)).
    { intros Hin. apply elem_of_list_fmap in Hin as (c & -> & Hc). apply Hf in Hc. by rewrite Nat.eqb_refl in Hc. }
    destruct (decide (length (w_reg w) < w_tb w)) as [Hlt|Hge]; [destruct (is_locked w) eqn:HL|].
    + unfold register_comp. rewrite Hfi, HL, (proj2 (Nat.leb_gt _ _) Hlt). simpl.
      split; [done|]. split; [done|by right].
    + destruct (register_comp_new w key isrel zs Hfi Hlt HL) as (w1 & -> & Hr & Htb). simpl. unfold reg_wf. rewrite Hr, Htb.
      split; [split|].
      * rewrite map_app. simpl. apply NoDup_app. split; [done|]. split; [|apply NoDup_singleton].
        intros x Hx Hx'. apply elem_of_list_singleton in Hx' as ->. done.
      * rewrite app_length. simpl. lia.
      * split; [exists (mkCI key isrel zs); split; [|done]; rewrite lookup_app_r, Nat.sub_diag by lia; done|].
        split; [intros j c Hj; by apply lookup_app_l_Some|]. right. done.
    + unfold register_comp. rewrite Hfi, (proj2 (Nat.leb_le _ _)) by lia. simpl.
      split; [done|]. split; [done|]. left. lia.
Qed.

(** Distinct types get distinct ids (the key-to-id map is injective). *)
Theorem registry_injective w i j ci cj :
  reg_wf w -> w_reg w !! i = Some ci -> w_reg w !! j = Some cj -> ci_key ci = ci_key cj -> i = j.
Proof.
  intros [Hnd _] Hi Hj Hk. eapply NoDup_lookup; [exact Hnd| |].
  - rewrite list_lookup_fmap, Hi. done.
  - rewrite list_lookup_fmap, Hj. simpl. by rewrite Hk.
Qed.

(** No other operation touches the registry (Reset keeps it as well). *)
Theorem registry_stable w o :
  (forall k r z, o <> ORegister k r z) -> w_reg (res_world (step w o)) = w_reg w.
Proof.
  intros Hno. destruct (touches_rr o) eqn:Ht.
  - destruct o; try discriminate Ht; simpl; try done.
    + destruct (is_locked w); [done|]. simpl. apply world_reset_fields.
    + exfalso. by apply (Hno key isrel zs).
    + apply (proj2 (res_ids_independent w key false false)).
    + by destruct (w_res w !! id) as [[]|].
    + by destruct (w_res w !! id) as [[]|].
  - apply (rr_reg _ _ (step_frame_rr w o Ht)).
Qed.

(** ** Dump / Load: the pool *)
Theorem load_dump_pool w1 w2 w' :
  world_load w2 (world_dump w1) = Some w' -> w_pool w' = w_pool w1.
Proof.
  unfold world_load, world_dump. intros H.
  destruct (is_locked w2); [done|]. destruct (_ || _); [done|].
  destruct (w_tables w2 !! 0); [|done]. destruct (w_nodes w2 !! t_node t); [|done].
  destruct (tbl_allocn _ _ _ _). injection H as <-. simpl. by destruct (w_pool w1).
Qed.

(** Loading is refused for a locked world and for a world that has, or had without a
    reset, entities. *)
Theorem load_refused w d :
  is_locked w = true \/ 1 < length (p_ents (w_pool w)) \/ 0 < p_avail (w_pool w) ->
  step w (OLoad d) = (w, Panic, []).
Proof.
  intros H. simpl. unfold world_load. destruct (is_locked w); [done|].
  destruct H as [H|[H|H]]; [done| |].
  - by rewrite (proj2 (Nat.ltb_lt _ _) H).
  - rewrite (proj2 (Nat.ltb_lt _ _) H). by rewrite orb_true_r.
Qed.

(** Equal pools give equal handle sequences for every later creation and removal: the
    future of the loaded world is the future of the dumped one. *)
Theorem load_same_future w1 w' :
  w_pool w' = w_pool w1 ->
  pool_get (w_pool w') = pool_get (w_pool w1) /\
  forall e, pool_recycle (w_pool w') e = pool_recycle (w_pool w1) e /\ pool_alive (w_pool w') e = pool_alive (w_pool w1) e.
Proof. intros ->. done. Qed.
