(** * C11 at history level: replaying the event stream rebuilds the world.

    A listener subscribed to everything keeps a shadow "entity -> component set", updated
    from each event alone: a creation event enters the entity with the added set, a removal
    event deletes it, any other event replaces the set by (old + added) - removed.  For every
    history of creations, Add/Remove/Exchange (with or without relation argument),
    Relations.Set, RemoveEntity, registrations and reads from a world that refines an
    abstract store, the shadow rebuilt from the events alone is at every moment exactly the
    alive entities with their component sets ([replay_history]): no change goes unreported,
    no event reports a change that did not happen. *)
From Arche Require Import Model.Base Model.Pool Model.Filter Model.World Model.Ops
  Proofs.Tables Proofs.Bits Proofs.Store Proofs.Graph Proofs.Atomic Proofs.WorldInv
  Proofs.Frame Proofs.StepFrame Proofs.RelGraph Proofs.RelWorld Proofs.RelRefine Proofs.EventsExact Proofs.SpecDet.

Definition sh_apply (S : list (Entity * N)) (ev : event) : list (Entity * N) :=
  if N.testbit (ev_types ev) 0 then assoc_set (ev_ent ev) (ev_added ev) S
  else if N.testbit (ev_types ev) 1 then assoc_del (ev_ent ev) S
  else match assoc_get (ev_ent ev) S with
       | Some m => assoc_set (ev_ent ev) (N.ldiff (N.lor m (ev_added ev)) (ev_removed ev)) S
       | None => S
       end.
Definition sh_replay (S : list (Entity * N)) (evs : list event) : list (Entity * N) := foldl sh_apply S evs.

(** The shadow is the abstract store's "alive entity -> mask". *)
Definition shadow_ok (A : astate) (S : list (Entity * N)) : Prop :=
  forall e, assoc_get e S = if decide (e ∈ as_live A) then option_map a_mask (assoc_get e (as_ents A)) else None.

(** Operations of the replay theorem. *)
Definition op_preE (A : astate) (o : op) : Prop :=
  match o with
  | ONew _ | OExchange _ _ _ | ORelExchange _ _ _ _ _ | ORelSet _ _ _ | ORemoveEntity _
  | OGet _ _ | OMask _ | OHas _ _ | ORelGet _ _ | OAlive _ | ORegister _ _ _ => op_pre A o
  | _ => False
  end.

Lemma created_bit c d e f : N.testbit (subscription true false c d e f) 0 = true.
Proof. by destruct c, d, e, f. Qed.
Lemma removed_bits c d e f :
  N.testbit (subscription false true c d e f) 0 = false /\ N.testbit (subscription false true c d e f) 1 = true.
Proof. by destruct c, d, e, f. Qed.
Lemma change_bits c d e f :
  N.testbit (subscription false false c d e f) 0 = false /\ N.testbit (subscription false false c d e f) 1 = false.
Proof. by destruct c, d, e, f. Qed.

Lemma shadow_same A A' S :
  as_live A' = as_live A -> (forall e, e ∈ as_live A -> option_map a_mask (assoc_get e (as_ents A')) = option_map a_mask (assoc_get e (as_ents A))) ->
  shadow_ok A S -> shadow_ok A' S.
Proof.
  intros Hl Hm H e. rewrite (H e), Hl. destruct (decide (e ∈ as_live A)); [|done]. symmetry. by apply Hm.
Qed.

Lemma R_live_entry w A e : R w A -> e ∈ as_live A -> exists a, assoc_get e (as_ents A) = Some a /\ ent_mask w e = Some (a_mask a).
Proof. intros HR He. destruct (r_ents _ _ HR e He) as (a & Ha & V). exists a. split; [done|apply V]. Qed.

Lemma shadow_upd A S e a m' f :
  shadow_ok A S -> e ∈ as_live A -> assoc_get e (as_ents A) = Some a -> a_mask (f a) = m' ->
  shadow_ok (a_upd A e f) (assoc_set e m' S).
Proof.
  intros HS Hl Ha Hm e'. unfold a_upd. rewrite Ha. cbn [as_live as_ents]. rewrite !assoc_get_set.
  destruct (ent_eqb e' e) eqn:Heq.
  - apply ent_eqb_eq in Heq as ->. rewrite decide_True by done. simpl. by rewrite Hm.
  - apply HS.
Qed.

(** One successful structural exchange: the event rebuilds the new component set. *)
Lemma replay_exchange w A S e add rem rel w1 x :
  R w A -> w_listener w = Some lall -> e ∈ as_issued A -> ids_reg A add -> shadow_ok A S ->
  exchange_nn w e add rem rel = Some (w1, Some x) ->
  R w1 (a_upd A e (fun a => a_exchange (as_reg A) a add rem rel)) ->
  shadow_ok (a_upd A e (fun a => a_exchange (as_reg A) a add rem rel)) (sh_replay S (ev_exchange w1 e x add rem)).
Proof.
  intros HR Hlis Hiss Hadd HS H HR1. pose proof HR as [K Hr Hu He].
  assert (Hlive : e ∈ as_live A) by (eapply chk_alive_live_r; [exact K|done|by eapply exchange_alive]).
  pose proof Hadd as Hadd'. unfold ids_reg in Hadd'. rewrite Hr in Hadd'.
  destruct (exchange_event_exact w (as_live A) e add rem rel w1 x (r2_ok _ _ _ K) Hlive Hadd' Hlis H)
    as (om & nm & orl & nrl & ot & nt & Hom & Hnm & _ & _ & _ & _ & ->).
  destruct (R_live_entry w A e HR Hlive) as (a & Ha & Hma). rewrite Hom in Hma. injection Hma as ->.
  assert (Hlive1 : e ∈ as_live (a_upd A e (fun a => a_exchange (as_reg A) a add rem rel))) by (unfold a_upd; by rewrite Ha).
  destruct (R_live_entry w1 _ e HR1 Hlive1) as (a1 & Ha1 & Hma1). rewrite Hnm in Hma1. injection Hma1 as ->.
  unfold a_upd in Ha1. rewrite Ha in Ha1. cbn [as_ents] in Ha1. rewrite assoc_get_set, ent_eqb_refl in Ha1. injection Ha1 as <-.
  unfold sh_replay. cbn [foldl]. unfold sh_apply. cbn [ev_types ev_ent ev_added ev_removed]. unfold xbits.
  destruct (change_bits (negb (bool_decide (add = []))) (negb (bool_decide (rem = []))) (opt_ne orl nrl) (opt_ne orl nrl || negb (ent_eqb ot nt))) as [-> ->].
  pose proof (HS e) as HSe. rewrite decide_True in HSe by done. rewrite Ha in HSe. simpl in HSe. rewrite HSe.
  apply (shadow_upd A S e a); try done. by rewrite replay_masks.
Qed.

Theorem replay_step w A S o :
  R w A -> w_listener w = Some lall -> op_preE A o -> shadow_ok A S ->
  let r := step w o in
  shadow_ok (astep A o (snd (fst r))) (sh_replay S (snd r)) /\ w_listener (fst (fst r)) = Some lall.
Proof.
  intros HR Hlis Hpre HS r.
  assert (Hop : op_pre A o) by (destruct o; try done).
  pose proof (rel_step w A o HR Hop) as HR'. fold r in HR'.
  assert (Hl' : w_listener (fst (fst r)) = Some lall).
  { destruct (touches_rr o) eqn:Ht; [|rewrite <- Hlis; apply (rr_listener _ _ (step_frame_rr w o Ht))].
    destruct o; try done. unfold r. simpl. unfold register_comp.
    destruct (find_index _ _); [done|]. destruct (_ <=? _); [done|]. destruct (is_locked w); [done|].
    destruct (_ && _); [unfold extend_layouts|]; done. }
  split; [|exact Hl'].
  pose proof HR as [K Hr Hu He].
  (* a panic: no event, same abstract state *)
  destruct (step_cases w o) as [[Hs Hnp]|[_ Hs]]; [|unfold r; rewrite Hs; simpl; by destruct o].
  unfold r in *. rewrite Hs in *. clear Hs r.
  destruct o; try done; simpl in Hpre, Hnp, HR' |- *.
  - (* ONew *)
    destruct (op_new w ids []) as [[w' out] evs] eqn:H. simpl in *.
    destruct (op_new_shape _ _ _ _ _ _ H) as [->|[e ->]]; [done|].
    pose proof Hpre as Hids. unfold ids_reg in Hids. rewrite Hr in Hids.
    destruct (new_event_exact w (as_live A) (as_issued A) ids w' e evs K Hids Hlis H) as (m & rl & Hm & _ & ->).
    assert (Hin : e ∈ as_live (a_add A e (mkA (new_mask ids) ezero []))) by apply elem_of_list_here.
    destruct (R_live_entry w' _ e HR' Hin) as (a' & Ha' & Hm').
    simpl in Ha'. rewrite assoc_get_set, ent_eqb_refl in Ha'. injection Ha' as <-. simpl in Hm'. rewrite Hm in Hm'. injection Hm' as ->.
    unfold sh_replay. cbn [foldl]. unfold sh_apply. cbn [ev_types ev_ent ev_added]. rewrite created_bit.
    intros e'. rewrite assoc_get_set. simpl. rewrite assoc_get_set.
    destruct (ent_eqb e' e) eqn:Heq.
    + apply ent_eqb_eq in Heq as ->. rewrite decide_True by apply elem_of_list_here. done.
    + apply ent_eqb_neq in Heq. rewrite (HS e').
      destruct (decide (e' ∈ as_live A)) as [Hl|Hl].
      * rewrite decide_True by (by apply elem_of_list_further). done.
      * rewrite decide_False; [done|]. intros Hx. apply elem_of_cons in Hx as [?|?]; done.
  - (* ORemoveEntity *)
    destruct Hpre as [Hiss Hgen].
    destruct (chk_alive w e) as [[]|] eqn:Hal; [| |];
      try (exfalso; unfold op_remove_entity, ent_table in Hnp; rewrite Hu, Hal in Hnp; done).
    assert (Hlive : e ∈ as_live A) by (eapply chk_alive_live_r; [exact K|done|done]).
    destruct (remove_event_exact w (as_live A) e (r2_ok _ _ _ K) Hlive Hal Hu Hlis) as (m & rl & tg & Hm & _ & _ & Hev).
    rewrite Hev.
    assert (Hout : snd (fst (op_remove_entity w e)) = Ok VUnit).
    { unfold op_remove_entity, ent_table in *. rewrite Hu, Hal in *. destruct (loc w e) as [[src row]|]; [|done].
      destruct (w_tables w !! src) as [st|]; [|done]. destruct (w_nodes w !! t_node st); [|done]. by destruct (tbl_remove _ _ _). }
    rewrite Hout. simpl.
    unfold sh_replay. cbn [foldl]. unfold sh_apply. cbn [ev_types ev_ent]. destruct (removed_bits false (negb (bool_decide (mask_ids (w_tb w) m = []))) (bool_decide (is_Some rl)) (bool_decide (is_Some rl))) as [-> ->].
    intros e'. rewrite assoc_get_del. destruct (ent_eqb e' e) eqn:Heq.
    + apply ent_eqb_eq in Heq as ->. cbn [as_live as_ents]. rewrite decide_False; [done|]. intros Hx. apply elem_of_list_filter in Hx as [? _]. done.
    + apply ent_eqb_neq in Heq. rewrite (HS e'). cbn [as_live as_ents]. rewrite assoc_get_del, (proj2 (ent_eqb_neq e' e) Heq).
      destruct (decide (e' ∈ as_live A)) as [Hl|Hl].
      * rewrite decide_True; [done|]. by apply elem_of_list_filter.
      * rewrite decide_False; [done|]. intros Hx. by apply elem_of_list_filter in Hx as [_ ?].
  - (* OAlive *) by destruct (chk_alive w e).
  - (* OExchange *)
    destruct Hpre as [Hiss Hadd]. unfold op_exchange in *.
    destruct (exchange_nn w e add rem None) as [[w1 [x|]]|] eqn:H; simpl in *; [| |done].
    + assert (Hne : match add, rem with [], [] => False | _, _ => True end).
      { destruct add, rem; try done. unfold exchange_nn in H. destruct (is_locked w); [done|]. destruct (chk_alive w e) as [[]|]; done. }
      assert (Ha' : (match add, rem with [], [] => A | _, _ => a_upd A e (fun a => a_exchange (as_reg A) a add rem None) end) =
                    a_upd A e (fun a => a_exchange (as_reg A) a add rem None)) by (by destruct add, rem).
      rewrite Ha' in *. by apply (replay_exchange w A S e add rem None w1 x).
    + apply exchange_nn_none in H as (-> & -> & ->). done.
  - (* OGet *) by destruct (get_comp w e id).
  - (* OHas *) by destruct (ent_table w e) as [[[[? ?] ?] ?]|].
  - (* OMask *) by destruct (ent_table w e) as [[[[? ?] ?] ?]|].
  - (* ORelGet *) destruct (ent_table w e) as [[[[? ?] ?] ?]|]; [|done]. by destruct (check_relation _ _ _).
  - (* ORelSet *)
    destruct (op_set_relation w e id t) as [[w' out] evs] eqn:H. simpl in *.
    destruct (op_set_relation_shape _ _ _ _ _ _ _ H) as [->| ->]; [done|]. simpl.
    assert (Hlive : e ∈ as_live A) by (eapply chk_alive_live_r; [exact K|done|by eapply set_relation_alive]).
    destruct (target_event_exact w (as_live A) e id t w' evs (r2_ok _ _ _ K) Hlive Hlis H) as (ot & _ & _ & ->).
    destruct (R_live_entry w A e HR Hlive) as (a & Ha & Hma).
    pose proof (HS e) as HSe. rewrite decide_True in HSe by done. rewrite Ha in HSe. simpl in HSe.
    destruct (ent_eqb ot t).
    + apply (shadow_same A); try done.
      * unfold a_upd. by rewrite Ha.
      * intros e' He'. unfold a_upd. rewrite Ha. cbn [as_ents]. rewrite assoc_get_set.
        destruct (ent_eqb e' e) eqn:Heq; [|done]. apply ent_eqb_eq in Heq as ->. by rewrite Ha.
    + unfold sh_replay. cbn [foldl]. unfold sh_apply. cbn [ev_types ev_ent ev_added ev_removed].
      change (N.testbit 32 0) with false. change (N.testbit 32 1) with false. cbv iota. rewrite HSe.
      rewrite N.lor_0_r, N.ldiff_0_r. by apply (shadow_upd A S e a).
  - (* ORelExchange *)
    destruct Hpre as [Hiss Hadd]. unfold op_exchange in *.
    destruct (exchange_nn w e add rem (Some (rid, t))) as [[w1 [x|]]|] eqn:H; simpl in *; [| |done].
    + by apply (replay_exchange w A S e add rem (Some (rid, t)) w1 x).
    + exfalso. unfold exchange_nn in H. destruct (is_locked w); [done|]. destruct (chk_alive w e) as [[]|]; try done.
      destruct (negb _); [done|]. destruct add, rem; try done;
      destruct (loc w e) as [[? ?]|]; try done; destruct (w_tables w !! _) as [st|]; try done;
      destruct (w_nodes w !! _) as [sn|]; try done; destruct (exchange_mask _ _ _); try done;
      destruct (exchange_target _ _ _ _ _ _); try done; destruct (find_or_create_table _ _ _ _ _) as [[? ?]|]; done.
  - (* ORegister *)
    destruct (register_comp w key isrel zs) as [[w1 id]|] eqn:H; simpl in *; [|done].
    destruct (id =? length (as_reg A)); [|done]. by apply (shadow_same A).
Qed.

(** ** Histories *)
Fixpoint events_of (w : world) (ops : list op) : list event :=
  match ops with
  | [] => []
  | o :: r => snd (step w o) ++ events_of (fst (fst (step w o))) r
  end.
Fixpoint pre_runE (w : world) (A : astate) (ops : list op) : Prop :=
  match ops with
  | [] => True
  | o :: r => op_preE A o /\ pre_runE (fst (fst (step w o))) (astep A o (snd (fst (step w o)))) r
  end.

Theorem replay_history ops : forall w A S,
  R w A -> w_listener w = Some lall -> shadow_ok A S -> pre_runE w A ops ->
  shadow_ok (snd (arun w A ops)) (sh_replay S (events_of w ops)) /\ R (run w ops) (snd (arun w A ops)).
Proof.
  induction ops as [|o r IH]; intros w A S HR Hlis HS Hp; simpl; [done|].
  destruct Hp as [Hpre Hp]. destruct (replay_step w A S o HR Hlis Hpre HS) as [HS' Hl'].
  assert (Hop : op_pre A o) by (destruct o; try done).
  pose proof (rel_step w A o HR Hop) as HR'.
  unfold sh_replay. rewrite foldl_app. by apply IH.
Qed.

(** In terms of the world: the shadow rebuilt from the events holds exactly the alive
    entities, each with the component set the world reports for it. *)
Corollary replay_rebuilds_world ops w A S :
  R w A -> w_listener w = Some lall -> shadow_ok A S -> pre_runE w A ops ->
  let w' := run w ops in let A' := snd (arun w A ops) in let S' := sh_replay S (events_of w ops) in
  (forall e, e ∈ as_live A' -> assoc_get e S' = ent_mask w' e) /\
  (forall e, e ∉ as_live A' -> assoc_get e S' = None).
Proof.
  intros HR Hlis HS Hp. cbv zeta. destruct (replay_history ops w A S HR Hlis HS Hp) as [HS' HR'].
  split; intros e He; rewrite (HS' e).
  - rewrite decide_True by done. destruct (R_live_entry _ _ e HR' He) as (a & Ha & Hm). rewrite Ha. simpl. by rewrite Hm.
  - by rewrite decide_False.
Qed.

(** Non-vacuity: a history with creations, exchanges, a relation, a re-target and removals. *)
Definition demo_replay_setup : list op :=
  [ORegister 10 false false; ORegister 11 true false; ORegister 12 false false; OSetListener (Some lall)].
Definition demo_replay_ops : list op :=
  [ONew [0]; ONew [0; 2]; ONew []; OExchange (mkE 1 0) [2] [0]; ORelExchange (mkE 3 0) [1] [] 1 (mkE 2 0);
   ORelSet (mkE 3 0) 1 (mkE 1 0); ORemoveEntity (mkE 2 0); OExchange (mkE 3 0) [0] []; ONew [2]].
Example demo_replay_pre :
  let w := run (world_init 2 2 64) demo_replay_setup in
  let A := snd (arun (world_init 2 2 64) a_init demo_replay_setup) in
  w_listener w = Some lall /\ pre_runE w A demo_replay_ops.
Proof.
  vm_compute. repeat split; try (repeat (apply List.Forall_cons; [simpl; lia|]); apply List.Forall_nil); try reflexivity;
  repeat (first [apply elem_of_list_here | apply elem_of_list_further]).
Qed.
Example demo_replay_result :
  let w := run (world_init 2 2 64) demo_replay_setup in
  sh_replay [] (events_of w demo_replay_ops) = [(mkE 2 1, 4%N); (mkE 3 0, 3%N); (mkE 1 0, 4%N)] /\
  length (events_of w demo_replay_ops) = 9.
Proof. vm_compute. done. Qed.
