(** * The target bits have the length of the entity index, in every reachable world.

    [ilen w]: length (w_tbits w) = length (w_index w).  Every operation of the model keeps
    it ([ilen_step], all operations; [ilen_history]); it holds in a new world.  Needed by
    Proofs/BatchCreate.v (batch creation = single creations, literally).  Most operations
    keep both lengths ([ils]); creation, Reset and load change them together. *)
From Arche Require Import Model.Base Model.Pool Model.Filter Model.World Model.Ops Proofs.Frame Proofs.Atomic Proofs.GhostBase.

Notation res_world r := (fst (fst r)).

Definition ilen (w : world) : Prop := length (w_tbits w) = length (w_index w).

Record ils (w w' : world) : Prop := {
  il_tbits : length (w_tbits w') = length (w_tbits w);
  il_index : length (w_index w') = length (w_index w);
}.
Ltac ilfr := split; simpl; repeat (match goal with |- context [if ?b then _ else _] => destruct b | |- context [match ?x with Some _ => _ | None => _ end] => destruct x end); simpl; rewrite ?insert_length; reflexivity.

Lemma foldl_insert_length {A B} (f : B -> nat) (g : B -> A) (l : list B) : forall idx : list A,
  length (foldl (fun idx x => <[f x := g x]> idx) idx l) = length idx.
Proof. induction l as [|x r IH]; intros idx; simpl; [done|]. by rewrite IH, insert_length. Qed.

Lemma ils_ilen w w' : ils w w' -> ilen w -> ilen w'.
Proof. intros [H1 H2] H. unfold ilen in *. congruence. Qed.

Lemma ils_refl w : ils w w.
Proof. ilfr. Qed.

Lemma ils_trans a b c : ils a b -> ils b c -> ils a c.
Proof. intros [] []. split; congruence. Qed.

Lemma ils_upd_table w tid t : ils w (upd_table w tid t).
Proof. ilfr. Qed.

Lemma ils_set_tbit w e : ils w (set_tbit w e).
Proof. unfold set_tbit. destruct (ent_is_zero e); ilfr. Qed.

Lemma ils_find_or_create_node w m rel : ils w (fst (find_or_create_node w m rel)).
Proof. unfold find_or_create_node. destruct (find_node w m); ilfr. Qed.

Lemma ils_walk_rem ids : forall w m rel, ils w (fst (fst (walk_rem w m rel ids))).
Proof.
  induction ids as [|id r IH]; intros w m rel; simpl; [apply ils_refl|].
  eapply ils_trans; [apply ils_find_or_create_node|apply IH].
Qed.

Lemma ils_walk_add ids : forall w start m rel w' m' rel',
  walk_add w start m rel ids = Some (w', m', rel') -> ils w w'.
Proof.
  induction ids as [|id r IH]; intros w start m rel w' m' rel' H; simpl in H.
  - injection H as <- _ _. apply ils_refl.
  - destruct (bit m id); [done|]. destruct (bit start id); [done|].
    destruct (reg_is_rel w id && bool_decide (is_Some rel)); [done|].
    eapply ils_trans; [apply ils_find_or_create_node|]. eapply IH. exact H.
Qed.

Lemma ils_create_table w nid target fs : ils w (fst (create_table w nid target fs)).
Proof.
  unfold create_table. destruct (w_nodes w !! nid); [|apply ils_refl].
  destruct (node_has_rel n); [destruct (last (n_free n))|]; ilfr.
Qed.

Lemma ils_find_or_create_table w src add rem target w' tid :
  find_or_create_table w src add rem target = Some (w', tid) -> ils w w'.
Proof.
  unfold find_or_create_table. intros H.
  destruct (w_tables w !! src) as [st|]; [|done].
  destruct (w_nodes w !! t_node st) as [sn|]; [|done].
  pose proof (ils_walk_rem rem w (n_mask sn) (n_rel sn)) as F1.
  destruct (walk_rem w (n_mask sn) (n_rel sn) rem) as [[w1 m1] rel1]. simpl in F1.
  destruct (walk_add w1 (n_mask sn) m1 rel1 add) as [[[w2 m2] r2]|] eqn:Hadd; [|done].
  pose proof (ils_walk_add _ _ _ _ _ _ _ _ Hadd) as F2.
  destruct (find_node w2 m2) as [nid|]; [|done].
  destruct (w_nodes w2 !! nid) as [nd|]; [|done].
  destruct (node_get_table nd target) as [t|].
  - injection H as <- _. eapply ils_trans; eassumption.
  - pose proof (ils_create_table w2 nid target true) as F3.
    destruct (create_table w2 nid target true) as [w3 t3]. injection H as <- _. simpl in F3.
    eapply ils_trans; [eapply ils_trans; eassumption|exact F3].
Qed.

Lemma ils_retire_table w tid : ils w (retire_table w tid).
Proof.
  unfold retire_table. destruct (w_tables w !! tid); [|apply ils_refl].
  destruct (w_nodes w !! t_node t); [|apply ils_refl]. ilfr.
Qed.

Lemma ils_cleanup_table w tid : ils w (cleanup_table w tid).
Proof.
  unfold cleanup_table. destruct (w_tables w !! tid); [|apply ils_refl].
  destruct (w_nodes w !! t_node t); [|apply ils_refl].
  destruct (_ || _ || _); [apply ils_refl|]. destruct (_ || _); [apply ils_refl|apply ils_retire_table].
Qed.

Lemma ils_foldl {A} (f : world -> A -> world) l :
  (forall w a, ils w (f w a)) -> forall w, ils w (foldl f w l).
Proof.
  intros Hf. induction l as [|a r IH]; intros w; simpl; [apply ils_refl|].
  eapply ils_trans; [apply Hf|apply IH].
Qed.

Lemma ils_cleanup_tables_for w target : ils w (cleanup_tables_for w target).
Proof.
  unfold cleanup_tables_for. apply ils_foldl. intros w0 nid.
  destruct (w_nodes w0 !! nid); [|apply ils_refl].
  destruct (assoc_get target (n_tmap n)); [|apply ils_refl].
  destruct (w_tables w0 !! n0); [|apply ils_refl].
  destruct (tlen t =? 0); [apply ils_retire_table|apply ils_refl].
Qed.

Lemma ils_move_entity w e src row dst keep : ils w (move_entity w e src row dst keep).
Proof.
  unfold move_entity. destruct (w_tables w !! src), (w_tables w !! dst); try apply ils_refl.
  destruct (w_nodes w !! t_node t), (w_nodes w !! t_node t0); try apply ils_refl.
  destruct (tbl_alloc _ _ _ _). destruct (tbl_remove _ _ _). ilfr.
Qed.

Lemma ils_move_all w src dst keep : ils w (fst (move_all w src dst keep)).
Proof.
  unfold move_all. destruct (w_tables w !! src), (w_tables w !! dst); try apply ils_refl.
  destruct (w_nodes w !! t_node t), (w_nodes w !! t_node t0); try apply ils_refl.
  destruct (tbl_allocn _ _ _ _). split; simpl; [done|].
  rewrite (foldl_insert_length (fun x : nat * Entity => eid x.2) (fun x => Some (dst, n1 + x.1))
             (imap (fun i e => (i, e)) (t_ents t)) (w_index w)) || idtac.
  match goal with |- length (foldl ?f ?i ?l) = _ =>
    assert (H : forall l0 i0, length (foldl f i0 l0) = length i0) end.
  { induction l0 as [|[i e] r IH]; intros i0; simpl; [done|]. by rewrite IH, insert_length. }
  apply H.
Qed.

Lemma ils_set_comp w e id v w' : set_comp w e id v = Some w' -> ils w w'.
Proof.
  unfold set_comp. intros H.
  destruct (chk_alive w e) as [[]|]; try done. destruct (loc w e) as [[tid row]|]; [|done].
  destruct (w_tables w !! tid); [|done]. destruct (w_nodes w !! t_node t); [|done].
  destruct (col_of n id); [|done]. destruct (reg_is_zs w id); injection H as <-; [apply ils_refl|ilfr].
Qed.

Lemma ils_set_comps cs : forall w e, ils w (set_comps w e cs).
Proof.
  unfold set_comps. intros w e. apply ils_foldl. intros w0 [id v].
  destruct (set_comp w0 e id v) eqn:H; simpl; [by eapply ils_set_comp|apply ils_refl].
Qed.

Lemma ils_exchange_nn w e add rem rel w' x :
  exchange_nn w e add rem rel = Some (w', x) -> ils w w'.
Proof.
  unfold exchange_nn. intros H.
  destruct (is_locked w); [done|]. destruct (chk_alive w e) as [[]|]; try done.
  destruct (negb _); [done|].
  assert (Hmain :
    match loc w e with
    | Some (src, row) =>
        match w_tables w !! src with
        | Some st =>
            match w_nodes w !! t_node st with
            | Some sn =>
                match exchange_mask (n_mask sn) add rem with
                | Some mask =>
                    match exchange_target w (n_mask sn) mask (t_target st) rem rel with
                    | Some target =>
                        match find_or_create_table w src add rem target with
                        | Some (w1, dst) =>
                            Some (cleanup_table (set_tbit (move_entity w1 e src row dst mask) target) src,
                                  Some (mkX dst (n_mask sn) (t_target st) (n_rel sn)))
                        | None => None
                        end
                    | None => None
                    end
                | None => None
                end
            | None => None
            end
        | None => None
        end
    | None => None
    end = Some (w', x) -> ils w w').
  { clear H. intros H. destruct (loc w e) as [[src row]|]; [|done].
    destruct (w_tables w !! src) as [st|]; [|done]. destruct (w_nodes w !! t_node st) as [sn|]; [|done].
    destruct (exchange_mask _ _ _) as [mask|]; [|done]. destruct (exchange_target _ _ _ _ _ _) as [target|]; [|done].
    destruct (find_or_create_table w src add rem target) as [[w1 dst]|] eqn:Hf; [|done].
    injection H as <- _. eapply ils_trans; [by eapply ils_find_or_create_table|].
    eapply ils_trans; [apply ils_move_entity|]. eapply ils_trans; [apply ils_set_tbit|apply ils_cleanup_table]. }
  destruct add, rem; try (by apply Hmain).
  destruct (bool_decide _); [done|]. injection H as <- _. apply ils_refl.
Qed.

Lemma ils_op_exchange w e add rem rel cs : ils w (res_world (op_exchange w e add rem rel cs)).
Proof.
  unfold op_exchange. destruct (exchange_nn w e add rem rel) as [[w1 [x|]]|] eqn:H; simpl; try apply ils_refl.
  - eapply ils_trans; [by eapply ils_exchange_nn|apply ils_set_comps].
  - by eapply ils_exchange_nn.
Qed.

Lemma ils_open_query w segs b w' h : open_query w segs b = Some (w', h) -> ils w w'.
Proof. unfold open_query. destruct (locks_lock _ _) as [[l bt]|]; [|done]. intros [= <- _]. ilfr. Qed.

Lemma ils_close_query w h q : ils w (res_world (close_query w h q)).
Proof. unfold close_query. destruct (locks_unlock _ _); [ilfr|apply ils_refl]. Qed.

Lemma ils_with_query w h k : (forall q, ils w (res_world (k q))) -> ils w (res_world (with_query w h k)).
Proof. intros Hk. unfold with_query. destruct (w_queries w !! h); [|apply ils_refl]. destruct (q_closed q); [apply ils_refl|apply Hk]. Qed.

Lemma ils_exchange_table w src add rem rel w' s :
  exchange_table w src add rem rel = Some (w', s) -> ils w w'.
Proof.
  unfold exchange_table. intros H.
  destruct (w_tables w !! src) as [st|]; [|done]. destruct (w_nodes w !! t_node st) as [sn|]; [|done].
  destruct (exchange_mask _ _ _) as [mask|]; [|done]. destruct (exchange_target _ _ _ _ _ _) as [target|]; [|done].
  destruct (find_or_create_table w src add rem target) as [[w1 dst]|] eqn:Hf; [|done].
  pose proof (ils_move_all w1 src dst mask) as F2. destruct (move_all w1 src dst mask) as [w2 start]. simpl in F2.
  injection H as <- _.
  eapply ils_trans; [by eapply ils_find_or_create_table|].
  eapply ils_trans; [exact F2|]. eapply ils_trans; [apply ils_set_tbit|apply ils_cleanup_table].
Qed.

Lemma ils_set_relation_table w src rid target w' s :
  set_relation_table w src rid target = Some (Some (w', s)) -> ils w w'.
Proof.
  unfold set_relation_table. intros H.
  destruct (w_tables w !! src) as [st|]; [|done]. destruct (w_nodes w !! t_node st) as [sn|]; [|done].
  destruct (ent_eqb _ _); [done|]. destruct (negb _); [done|].
  assert (F1 : ils w (fst (match node_get_table sn target with
                             | Some tid => (w, tid)
                             | None => create_table w (t_node st) target true end))).
  { destruct (node_get_table sn target); [apply ils_refl|apply ils_create_table]. }
  destruct (match node_get_table sn target with Some tid => (w, tid) | None => _ end) as [w1 dst]. simpl in F1.
  pose proof (ils_move_all w1 src dst (n_mask sn)) as F2. destruct (move_all w1 src dst (n_mask sn)) as [w2 start]. simpl in F2.
  injection H as <- _.
  eapply ils_trans; [exact F1|]. eapply ils_trans; [exact F2|].
  eapply ils_trans; [apply ils_set_tbit|apply ils_cleanup_table].
Qed.

Lemma ils_batch_loop f :
  (forall w tid w1 s, f w tid = Some (Some (w1, s)) -> ils w w1) ->
  forall tids w segs p w' segs', batch_loop f w tids segs p = inl (Some (w', segs')) -> ils w w'.
Proof.
  intros Hf. induction tids as [|tid r IH]; intros w segs p w' segs' H; simpl in H.
  - injection H as <- _. apply ils_refl.
  - destruct (table_skip w tid); [by eapply IH|].
    destruct (f w tid) as [[[w1 s]|]|] eqn:Hft; [|by eapply IH|done].
    eapply ils_trans; [by eapply Hf|by eapply IH].
Qed.

Lemma ils_exchange_batch_nn w a add rem rel w' n segs :
  exchange_batch_nn w a add rem rel = inl (Some (w', n, segs)) -> ils w w'.
Proof.
  unfold exchange_batch_nn. intros H. destruct (is_locked w); [done|]. destruct (negb _); [done|].
  assert (Hm : match arg_tables w a with
      | None => inr false
      | Some tids =>
          match batch_loop (fun w tid => option_map Some (exchange_table w tid add rem rel))
                           w (nonempty_tables w tids) [] false with
          | inl (Some (w1, segs)) => inl (Some (w1, total_len w tids, segs))
          | inl None => inr false
          | inr p => inr p
          end
      end = inl (Some (w', n, segs)) -> ils w w').
  { clear H. intros H. destruct (arg_tables w a) as [tids|]; [|done].
    destruct (batch_loop _ _ _ _ _) as [[[w1 segs1]|]|] eqn:Hb; try done.
    injection H as <- _ _. eapply ils_batch_loop; [|exact Hb].
    intros w0 tid w2 s Hx. simpl in Hx. destruct (exchange_table w0 tid add rem rel) as [[w3 s3]|] eqn:He; simpl in Hx; [|done].
    injection Hx as <- _. by eapply ils_exchange_table. }
  destruct add, rem; try (by apply Hm).
  destruct (bool_decide _); [done|]. injection H as <- _ _. apply ils_refl.
Qed.

Lemma ils_set_relation_batch_nn w a rid target w' n segs :
  set_relation_batch_nn w a rid target = inl (Some (w', n, segs)) -> ils w w'.
Proof.
  unfold set_relation_batch_nn. intros H. destruct (is_locked w); [done|]. destruct (negb _); [done|].
  destruct (arg_tables w a) as [tids|]; [|done].
  destruct (batch_loop _ _ _ _ _) as [[[w1 segs1]|]|] eqn:Hb; try done.
  injection H as <- _ _. eapply ils_batch_loop; [|exact Hb].
  intros w0 tid w2 s Hx. simpl in Hx. by eapply ils_set_relation_table.
Qed.

Lemma ils_batch_result w r k :
  (forall w1 n segs, r = inl (Some (w1, n, segs)) -> ils w (res_world (k w1 n segs))) ->
  ils w (res_world (batch_result w r k)).
Proof.
  intros Hk. unfold batch_result. destruct r as [[[[w1 n] segs]|]|[]]; try apply ils_refl. by apply Hk.
Qed.

Lemma ils_remove_table_entities w tid : ils w (fst (remove_table_entities w tid)).
Proof.
  unfold remove_table_entities. destruct (w_tables w !! tid) as [t|]; [|apply ils_refl].
  destruct (w_nodes w !! t_node t) as [nd|]; [|apply ils_refl].
  assert (H : forall es w0 evs0, ils w0 (fst (foldl (fun '(w, evs) e =>
                     let ev := ev_remove w e nd (t_target t) in
                     let w1 := w <| w_index := <[eid e := None]> (w_index w) |> in
                     let w2 := if tbit w1 (eid e)
                               then (cleanup_tables_for w1 e) <| w_tbits := <[eid e := false]> (w_tbits w1) |>
                               else w1 in
                     (w2 <| w_pool := pool_recycle (w_pool w2) e |>, evs ++ ev)) (w0, evs0) es))).
  { induction es as [|e r IH]; intros w0 evs0; simpl; [apply ils_refl|].
    eapply ils_trans; [|apply IH].
    destruct (tbit _ _); [|ilfr].
    pose proof (ils_cleanup_tables_for (w0 <| w_index := <[eid e := None]> (w_index w0) |>) e) as [H1 H2].
    split; simpl in *; rewrite ?insert_length in *; congruence. }
  specialize (H (t_ents t) w []). destruct (foldl _ _ _) as [w1 evs]. simpl in H.
  assert (F2 : ils w1 (match w_tables w1 !! tid with
                    | Some t1 => upd_table w1 tid (tbl_reset (zero_row nd) t1)
                    | None => w1 end)) by (destruct (w_tables w1 !! tid); ilfr).
  simpl. eapply ils_trans; [exact H|]. eapply ils_trans; [exact F2|].
  apply ils_cleanup_table.
Qed.

(** ** Creation, Reset, load: both lengths change together *)
Lemma ilen_create_entity w tid : ilen w -> ilen (create_entity w tid).1.
Proof.
  unfold ilen, create_entity. intros H.
  destruct (w_tables w !! tid) as [t|]; [|done]. destruct (w_nodes w !! t_node t) as [nd|]; [|done].
  destruct (pool_get (w_pool w)) as [p e]. destruct (tbl_alloc _ _ _ _) as [t' row].
  destruct (eid e =? _); simpl; rewrite ?app_length, ?insert_length; simpl; lia.
Qed.

Lemma index_set_ilen idx tb i v :
  length tb = length idx -> length (index_set idx tb i v).2 = length (index_set idx tb i v).1.
Proof.
  intros Hl. unfold index_set. destruct (Nat.leb_spec (length idx) i) as [H|H]; simpl.
  - rewrite !app_length, !replicate_length. simpl. lia.
  - rewrite !insert_length. lia.
Qed.

Lemma ilen_create_entities w tid n : ilen w -> ilen (create_entities w tid n).1.
Proof.
  unfold ilen, create_entities. intros H.
  destruct (w_tables w !! tid) as [t|]; [|done]. destruct (w_nodes w !! t_node t) as [nd|]; [|done].
  destruct (pool_get_n _ _) as [p es]. destruct (tbl_allocn _ _ _ _) as [t' start].
  match goal with |- context [foldl ?f ?a ?l] =>
    assert (Hf : forall l0 a0, length a0.2 = length a0.1 -> length (foldl f a0 l0).2 = length (foldl f a0 l0).1) end.
  { induction l0 as [|[k e] r IH]; intros [idx tb] Ha; simpl; [done|]. apply IH. simpl in Ha. by apply index_set_ilen. }
  specialize (Hf (imap (fun k e => (k, e)) es) (w_index w, w_tbits w) H).
  simpl in *. destruct (foldl _ _ _) as [idx tb]. simpl in *. done.
Qed.

Lemma ilen_op_new w ids cs : ilen w -> ilen (res_world (op_new w ids cs)).
Proof.
  intros H. unfold op_new. destruct (is_locked w); [done|].
  destruct (match ids with [] => Some (w, 0) | _ => find_or_create_table w 0 ids [] ezero end) as [[w1 tid]|] eqn:Hf; [|done].
  assert (F1 : ils w w1).
  { destruct ids; [injection Hf as <- _; apply ils_refl|by eapply ils_find_or_create_table]. }
  pose proof (ilen_create_entity w1 tid (ils_ilen _ _ F1 H)) as H2. destruct (create_entity w1 tid) as [w2 e]. simpl in H2.
  pose proof (ils_set_comps cs w2 e) as F3. destruct (table_mask_rel _ _). simpl. by eapply ils_ilen.
Qed.

Lemma ilen_op_new_target w rid target ids cs : ilen w -> ilen (res_world (op_new_target w rid target ids cs)).
Proof.
  intros H. unfold op_new_target. destruct (is_locked w); [done|]. destruct (negb _); [done|].
  destruct (match ids with [] => Some (w, 0) | _ => find_or_create_table w 0 ids [] target end) as [[w1 tid]|] eqn:Hf; [|done].
  assert (F1 : ils w w1).
  { destruct ids; [injection Hf as <- _; apply ils_refl|by eapply ils_find_or_create_table]. }
  destruct (negb _); [done|].
  pose proof (ilen_create_entity w1 tid (ils_ilen _ _ F1 H)) as H2. destruct (create_entity w1 tid) as [w2 e]. simpl in H2.
  pose proof (ils_set_comps cs (set_tbit w2 target) e) as F3. destruct (table_mask_rel _ _). simpl.
  eapply ils_ilen; [exact F3|]. eapply ils_ilen; [apply ils_set_tbit|done].
Qed.

Lemma ilen_new_entities_nn w count b target w' tid start es :
  ilen w -> new_entities_nn w count b target = Some (w', tid, start, es) -> ilen w'.
Proof.
  intros Hi. unfold new_entities_nn. intros H.
  assert (Hm : (if is_locked w then None else
      if (count <? 1)%Z then None else
      let tg := default ezero target in
      if negb (target_ok w tg) then None else
      match (match b_ids b with [] => Some (w, 0) | _ => find_or_create_table w 0 (b_ids b) [] tg end) with
      | None => None
      | Some (w1, tid) =>
          if match target, b_rel b with
             | Some _, Some rid => negb (check_relation w1 tid rid)
             | _, _ => false
             end then None else
          let w2 := match target with Some t => set_tbit w1 t | None => w1 end in
          let start := match w_tables w2 !! tid with Some t => tlen t | None => 0 end in
          let '(w3, es) := create_entities w2 tid (Z.to_nat count) in
          let w4 := foldl (fun w e => set_comps w e (b_comps b)) w3 es in
          Some (w4, tid, start, es)
      end) = Some (w', tid, start, es)).
  { destruct target, (b_rel b); done. }
  clear H. destruct (is_locked w); [done|]. destruct (_ <? _)%Z; [done|]. simpl in Hm.
  destruct (negb _); [done|].
  destruct (match b_ids b with [] => _ | _ => _ end) as [[w1 tid1]|] eqn:Hf; [|done].
  assert (F1 : ils w w1).
  { destruct (b_ids b); [injection Hf as <- _; apply ils_refl|by eapply ils_find_or_create_table]. }
  destruct (match target with Some _ => _ | None => _ end); [done|].
  set (w2 := match target with Some t => set_tbit w1 t | None => w1 end) in *.
  assert (F2 : ils w1 w2) by (unfold w2; destruct target; [apply ils_set_tbit|apply ils_refl]).
  pose proof (ilen_create_entities w2 tid1 (Z.to_nat count) (ils_ilen _ _ F2 (ils_ilen _ _ F1 Hi))) as F3.
  destruct (create_entities w2 tid1 (Z.to_nat count)) as [w3 es3]. simpl in F3.
  injection Hm as <- _ _ _.
  eapply ils_ilen; [|exact F3]. apply ils_foldl. intros. apply ils_set_comps.
Qed.

Lemma ils_reset_node w nid : ils w (reset_node w nid).
Proof.
  unfold reset_node. destruct (w_nodes w !! nid) as [nd|]; [|apply ils_refl].
  destruct (negb (n_active nd)); [apply ils_refl|].
  destruct (negb (node_has_rel nd)).
  - apply ils_foldl. intros w0 tid. destruct (w_tables w0 !! tid); [apply ils_upd_table|apply ils_refl].
  - apply ils_foldl. intros w0 tid. destruct (w_tables w0 !! tid) as [t|]; [|apply ils_refl].
    destruct (negb (t_active t)); [apply ils_refl|].
    destruct (negb (ent_is_zero (t_target t))); [apply ils_retire_table|apply ils_upd_table].
Qed.

Lemma ilen_world_reset w : ilen (world_reset w).
Proof.
  unfold world_reset. eapply ils_ilen; [apply ils_foldl; intros; apply ils_reset_node|]. done.
Qed.

Lemma ilen_world_load w d w' : world_load w d = Some w' -> ilen w'.
Proof.
  unfold world_load. intros H. destruct (is_locked w); [done|]. destruct (_ || _); [done|].
  destruct (w_tables w !! 0) as [t0|]; [|done]. destruct (w_nodes w !! t_node t0) as [nd|]; [|done].
  destruct (tbl_allocn _ _ _ _) as [t1 start]. injection H as <-. unfold ilen. simpl.
  rewrite replicate_length.
  match goal with |- _ = length (foldl ?f ?i ?l) =>
    assert (Hf : forall l0 i0, length (foldl f i0 l0) = length i0) end.
  { induction l0 as [|[k e] r IH]; intros i0; simpl; [done|]. by rewrite IH, insert_length. }
  by rewrite Hf, replicate_length.
Qed.

(** ** Every operation keeps [ilen] *)
Lemma ilen_step0 w o : ilen w -> ilen (res_world (step0 w o)).
Proof.
  intros Hi.
  assert (Fr : forall w', ils w w' -> ilen w') by (intros w' F; by apply (ils_ilen w)).
  destruct o; simpl.
  - by apply ilen_op_new.
  - destruct cs; by apply ilen_op_new.
  - unfold op_builder_new. destruct target; [destruct (b_rel b); [by apply ilen_op_new_target|done]|by apply ilen_op_new].
  - unfold op_new_batch. destruct (new_entities_nn w count b target) as [[[[w1 tid] start] es]|] eqn:H; [|done].
    destruct (table_mask_rel _ _). simpl. by eapply ilen_new_entities_nn.
  - unfold op_new_batch_q. destruct (new_entities_nn w count b target) as [[[[w1 tid] start] es]|] eqn:H; [|done].
    pose proof (ilen_new_entities_nn _ _ _ _ _ _ _ _ Hi H) as H1.
    destruct (open_query _ _ _) as [[w2 h]|] eqn:Hq; simpl; [|exact H1].
    eapply ils_ilen; [by eapply ils_open_query|done].
  - unfold op_builder_add. destruct target, (b_rel b); try done;
      destruct (b_vals b); unfold op_assign; try destruct (b_comps b); try done; apply Fr, ils_op_exchange.
  - (* RemoveEntity *)
    unfold op_remove_entity. destruct (is_locked w); [done|].
    destruct (ent_table w e) as [[[[src row] st] sn]|]; [|done].
    destruct (tbl_remove _ _ _) as [st1 swapped]. simpl.
    match goal with |- ilen (cleanup_table ?x src) => set (w2 := x) end.
    match goal with _ := (if tbit ?y _ then _ else _) |- _ => set (w1 := y) in * end.
    assert (F1 : ils w w1) by (unfold w1; ilfr).
    assert (F2 : ils w w2).
    { unfold w2. destruct (tbit w1 (eid e)); [|done].
      destruct (ils_cleanup_tables_for w1 e) as [H1 H2]. destruct F1 as [A B].
      split; simpl; rewrite ?insert_length; congruence. }
    eapply ils_ilen; [apply ils_cleanup_table|]. by apply Fr.
  - by destruct (chk_alive w e).
  - apply Fr, ils_op_exchange.
  - unfold op_assign. destruct cs; [done|apply Fr, ils_op_exchange].
  - destruct (set_comp w e id v) eqn:H; simpl; [by eapply Fr, ils_set_comp|done].
  - by destruct (get_comp w e id).
  - by destruct (ent_table w e) as [[[[? ?] ?] ?]|].
  - by destruct (ent_table w e) as [[[[? ?] ?] ?]|].
  - destruct (ent_table w e) as [[[[? ?] ?] ?]|]; [by destruct (view_of _ _ _)|done].
  - destruct (ent_table w e) as [[[[? ?] ?] ?]|]; [by destruct (check_relation _ _ _)|done].
  - (* RelSet *)
    unfold op_set_relation. destruct (is_locked w); [done|].
    destruct (chk_alive w e) as [[]|]; try done. destruct (negb _); [done|].
    destruct (ent_table w e) as [[[[src row] st] sn]|]; [|done].
    destruct (negb _); [done|]. destruct (ent_eqb _ _); [done|].
    assert (F1 : ils w (fst (match node_get_table sn t with
                             | Some tid => (w, tid)
                             | None => create_table w (t_node st) t true end))).
    { destruct (node_get_table sn t); [apply ils_refl|apply ils_create_table]. }
    destruct (match node_get_table sn t with Some tid => (w, tid) | None => _ end) as [w1 dst]. simpl in *.
    apply Fr. eapply ils_trans; [exact F1|]. eapply ils_trans; [apply ils_move_entity|].
    eapply ils_trans; [apply ils_set_tbit|apply ils_cleanup_table].
  - apply Fr, ils_op_exchange.
  - (* batch exchange *)
    destruct q.
    + unfold op_batch_exchange_q. apply Fr, ils_batch_result. intros w1 n segs Hr.
      pose proof (ils_exchange_batch_nn _ _ _ _ _ _ _ _ Hr) as F1.
      destruct (open_query _ _ _) as [[w2 h]|] eqn:Hq; simpl; [|exact F1].
      eapply ils_trans; [exact F1|by eapply ils_open_query].
    + unfold op_batch_exchange. apply Fr, ils_batch_result. intros w1 n segs Hr. simpl.
      by eapply ils_exchange_batch_nn.
  - destruct q.
    + unfold op_batch_set_relation_q. apply Fr, ils_batch_result. intros w1 n segs Hr.
      pose proof (ils_set_relation_batch_nn _ _ _ _ _ _ _ Hr) as F1.
      destruct (open_query _ _ _) as [[w2 h]|] eqn:Hq; simpl; [|exact F1].
      eapply ils_trans; [exact F1|by eapply ils_open_query].
    + unfold op_batch_set_relation. apply Fr, ils_batch_result. intros w1 n segs Hr. simpl.
      by eapply ils_set_relation_batch_nn.
  - (* RemoveEntities *)
    unfold op_remove_entities. destruct (is_locked w); [done|].
    destruct (arg_tables w a) as [tids|]; [|done].
    destruct (locks_lock _ _) as [[l b]|]; [|done].
    assert (H : forall tids w0 evs0, ils w0 (fst (foldl (fun '(w, evs) tid =>
                     if table_skip w tid then (w, evs)
                     else let '(w1, ev) := remove_table_entities w tid in (w1, evs ++ ev)) (w0, evs0) tids))).
    { clear. induction tids as [|tid r IH]; intros w0 evs0; simpl; [apply ils_refl|].
      destruct (table_skip w0 tid); [apply IH|].
      pose proof (ils_remove_table_entities w0 tid) as F. destruct (remove_table_entities w0 tid) as [w1 ev].
      eapply ils_trans; [exact F|apply IH]. }
    specialize (H tids (w <| w_locks := l |>) []). destruct (foldl _ _ _) as [w1 evs]. simpl in *.
    apply Fr. eapply ils_trans; [|eapply ils_trans; [exact H|]]; ilfr.
  - (* Query *)
    unfold op_query. destruct (match a with FPlain f => _ | FCached id => _ end); [|done].
    destruct (open_query _ _ _) as [[w1 h]|] eqn:Hq; simpl; [by eapply Fr, ils_open_query|done].
  - unfold op_q_next. apply Fr, ils_with_query. intros q.
    destruct (_ <? _); [ilfr|]. destruct (q_advance q); [ilfr|apply ils_close_query].
  - unfold op_q_step. destruct (_ <=? _)%Z; [done|]. apply Fr, ils_with_query. intros q.
    destruct (step_loop _ _ _) as [[q' []]|]; [ilfr|apply ils_close_query|apply ils_refl].
  - apply Fr, ils_with_query. intros; apply ils_refl.
  - destruct (_ <? _)%Z; [done|]. apply Fr, ils_with_query. intros q. destruct (entity_at _ _ _); apply ils_refl.
  - apply Fr, ils_with_query. intros q. pose proof (ils_close_query w h q) as F.
    destruct (close_query w h q) as [[w1 []] evs]; exact F.
  - apply Fr, ils_with_query. intros q. destruct (q_entity w q); apply ils_refl.
  - apply Fr, ils_with_query. intros q. destruct (q_cur q); [destruct (view_of _ _ _)|]; apply ils_refl.
  - apply Fr, ils_with_query. intros q. destruct (q_cur q); [|apply ils_refl].
    destruct (check_relation _ _ _); [destruct (w_tables w !! n)|]; apply ils_refl.
  - unfold cache_register. apply Fr. ilfr.
  - destruct (cache_unregister w id) as [[w1 f]|] eqn:H; [|done]. simpl.
    unfold cache_unregister in H. destruct (find_index _ _); [|done]. destruct (w_cache w !! n); [|done].
    injection H as <- _. apply Fr. ilfr.
  - (* Reset *)
    destruct (is_locked w); [done|]. apply ilen_world_reset.
  - done.
  - destruct (world_load w d) as [w1|] eqn:H; [|done]. simpl. by eapply ilen_world_load.
  - (* Register *)
    destruct (register_comp w key isrel zs) as [[w1 id]|] eqn:H; [|done]. simpl.
    unfold register_comp in H. destruct (find_index _ _); [by injection H as <- _|].
    destruct (_ <=? _); [done|]. destruct (is_locked w); [done|]. injection H as <- _.
    destruct (_ && _); [unfold extend_layouts|]; apply Fr; split; reflexivity.
  - destruct (register_res w key) as [[w1 id]|] eqn:H; [|done]. simpl.
    unfold register_res in H. destruct (find_index _ _); [by injection H as <- _|].
    destruct (_ <=? _); [done|]. injection H as <- _. apply Fr. ilfr.
  - by destruct (w_res w !! id) as [[?|]|].
  - by destruct (w_res w !! id) as [[?|]|].
  - by destruct (w_res w !! id).
  - by destruct (w_res w !! id).
  - apply Fr. ilfr.
  - done.
  - done.
Qed.

(** The world a panicking creation or exchange leaves behind. *)
Lemma ils_foc_world w src add rem target : ils w (foc_world w src add rem target).
Proof.
  apply (foc_world_ind ils).
  - apply ils_refl.
  - intros w1 tid H. by eapply ils_find_or_create_table.
  - intros st sn wa m1 rel1 pre m2 r2 w1 _ _ Hr _ Ha.
    pose proof (ils_walk_rem rem w (n_mask sn) (n_rel sn)) as F1. rewrite Hr in F1. simpl in F1.
    eapply ils_trans; [exact F1|]. by eapply ils_walk_add.
Qed.
Lemma ils_ghost_of w o : ils w (ghost_of w o).
Proof.
  destruct (ghost_of_case w o) as [->|[(tg & _ & _ & ->)|(e & rem & rel & ->)]];
    [apply ils_refl|apply ils_foc_world|].
  destruct (exchange_ghost_case w e (ghost_ids o) rem rel) as [->|(src & row & st & sn & mask & tg & _ & _ & _ & _ & _ & _ & _ & ->)];
    [apply ils_refl|apply ils_foc_world].
Qed.

Theorem ilen_step w o : ilen w -> ilen (res_world (step w o)).
Proof.
  intros Hi. destruct (step_cases w o) as [[-> _]|[_ ->]]; [by apply ilen_step0|].
  simpl. apply (ils_ilen w (ghost_of w o)); [apply ils_ghost_of|done].
Qed.

Theorem ilen_history ops : forall w, ilen w -> ilen (run w ops).
Proof. induction ops as [|o r IH]; intros w H; [done|]. simpl. apply IH. by apply ilen_step. Qed.

Lemma ilen_init capinc relcapinc tb : ilen (world_init capinc relcapinc tb).
Proof. reflexivity. Qed.

Corollary ilen_reachable capinc relcapinc tb ops : ilen (run (world_init capinc relcapinc tb) ops).
Proof. apply ilen_history, ilen_init. Qed.
