(** * C09 at the level of world operations: while locked, every structural operation
      panics and returns the world unchanged (equal, not merely equivalent). *)
From Arche Require Import Model.Base Model.Pool Model.Filter Model.World Model.Ops Proofs.Atomic.

(** The structural entry points of the model's operation type. *)
Definition structural (o : op) : bool :=
  match o with
  | ONew _ | ONewWith _ | OBNew _ _ | OBBatch _ _ _ | OBBatchQ _ _ _ | OBAdd _ _ _
  | ORemoveEntity _ | OExchange _ _ _ | OAssign _ _ | ORelSet _ _ _ | ORelExchange _ _ _ _ _
  | OBatchExchange _ _ _ _ _ | OBatchSetRel _ _ _ _ | OBatchRemove _ | OReset | OLoad _ => true
  | _ => false
  end.

Lemma exchange_nn_locked w e add rem rel : is_locked w = true -> exchange_nn w e add rem rel = None.
Proof. intros H. unfold exchange_nn. by rewrite H. Qed.

Lemma new_entities_nn_locked w c b t : is_locked w = true -> new_entities_nn w c b t = None.
Proof. intros H. unfold new_entities_nn. rewrite H. by destruct t, (b_rel b). Qed.

Lemma locked_rejects0 w o :
  is_locked w = true -> structural o = true -> step0 w o = (w, Panic, []).
Proof.
  intros HL Hs. destruct o; try discriminate Hs; simpl.
  - unfold op_new. by rewrite HL.
  - destruct cs; unfold op_new; by rewrite HL.
  - unfold op_builder_new. destruct target; [destruct (b_rel b); [|done]|]; unfold op_new_target, op_new; by rewrite HL.
  - unfold op_new_batch. by rewrite new_entities_nn_locked.
  - unfold op_new_batch_q. by rewrite new_entities_nn_locked.
  - unfold op_builder_add. destruct target, (b_rel b), (b_vals b); try done;
      unfold op_assign, op_exchange; try rewrite exchange_nn_locked by done; try done;
      destruct (b_comps b); try done; by rewrite exchange_nn_locked.
  - unfold op_remove_entity. by rewrite HL.
  - unfold op_exchange. by rewrite exchange_nn_locked.
  - unfold op_assign. destruct cs; [done|]. unfold op_exchange. by rewrite exchange_nn_locked.
  - unfold op_set_relation. by rewrite HL.
  - unfold op_exchange. by rewrite exchange_nn_locked.
  - destruct q; unfold op_batch_exchange, op_batch_exchange_q, exchange_batch_nn; by rewrite HL.
  - destruct q; unfold op_batch_set_relation, op_batch_set_relation_q, set_relation_batch_nn; by rewrite HL.
  - unfold op_remove_entities. by rewrite HL.
  - by rewrite HL.
  - unfold world_load. by rewrite HL.
Qed.

Theorem locked_rejects w o :
  is_locked w = true -> structural o = true -> step w o = (w, Panic, []).
Proof. intros HL Hs. apply step_panic_same; [by apply locked_rejects0|by apply ghost_of_locked]. Qed.

(** Registering a new component type in a locked world panics and leaves the registry
    (and everything else) unchanged; a type that is already registered is still found. *)
Theorem register_locked w key isrel zs :
  is_locked w = true ->
  step w (ORegister key isrel zs) = (w, Panic, []) \/
  exists id, step w (ORegister key isrel zs) = (w, Ok (VNat id), []) /\
             (exists c, w_reg w !! id = Some c /\ ci_key c = key).
Proof.
  intros HL. rewrite (step_other w (ORegister key isrel zs)) by done. simpl. unfold register_comp.
  destruct (find_index (fun c => ci_key c =? key) (w_reg w)) as [id|] eqn:Hf.
  - right. exists id. split; [done|].
    clear HL. revert id Hf. induction (w_reg w) as [|c r IH]; intros id Hf; simpl in *; [done|].
    destruct (ci_key c =? key) eqn:Hk.
    + injection Hf as <-. exists c. split; [done|]. by apply Nat.eqb_eq.
    + destruct (find_index _ r) as [j|]; [|done]. injection Hf as <-. by apply (IH j).
  - left. destruct (w_tb w <=? length (w_reg w)); [done|]. by rewrite HL.
Qed.

(** Read-only and value operations are not blocked by the lock. *)
Theorem locked_allows_reads w e id :
  step w (OGet e id) = (w, match get_comp w e id with Some o => Ok (VOptZ o) | None => Panic end, []).
Proof. simpl. by destruct (get_comp w e id). Qed.
