(** * C03 / C07: a query visits exactly the matching entities, each exactly once.

    For every world satisfying the storage and graph invariants (any registry, relation
    tables, retired tables), every filter expression and optional relation target, the
    tables selected for an uncached query ([walk_tables]), for a batch operation
    ([get_tables]) and - under the cache invariant - those listed by a registered
    filter hold exactly the alive entities whose mask and relation target match, and
    the cursor of Proofs/Cursor.v enumerates them without repetition. *)
From Arche Require Import Model.Base Model.Pool Model.Filter Model.World Model.Ops
  Proofs.Tables Proofs.Bits Proofs.Store Proofs.Graph Proofs.WorldInv Proofs.Cursor
  Proofs.RelGraph Proofs.RelWorld.

Definition tbl_ents (w : world) (tid : nat) : list Entity :=
  match w_tables w !! tid with Some t => t_ents t | None => [] end.
Definition table_ents (w : world) (tids : list nat) : list Entity := flat_map (tbl_ents w) tids.
Definition pos_ent (w : world) (p : nat * nat) : option Entity :=
  w_tables w !! fst p ≫= fun t => t_ents t !! snd p.

(** What it means for an entity to match a filter with optional relation target (a
    target constrains only entities that have a relation component). *)
Definition ent_matches (w : world) (f : fexpr) (e : Entity) : Prop :=
  exists m tg rel, ent_mask w e = Some m /\ ent_target w e = Some tg /\ ent_rel w e = Some rel /\
    fmatches f m = true /\ match ftarget f, rel with Some t, Some _ => tg = t | _, _ => True end.

Definition table_matches (w : world) (f : fexpr) (t : table) : Prop :=
  exists nd, w_nodes w !! t_node t = Some nd /\ fmatches f (n_mask nd) = true /\
    match ftarget f, n_rel nd with Some tg, Some _ => t_target t = tg | _, _ => True end.

(** ** List lemmas *)
Lemma lookup_seq_map {A} (l : list A) : map (fun r => l !! r) (seq 0 (length l)) = map Some l.
Proof.
  apply list_eq. intros i. rewrite !list_lookup_fmap. destruct (decide (i < length l)) as [Hlt|Hge].
  - rewrite lookup_seq_lt by done. simpl. destruct (lookup_lt_is_Some_2 l i Hlt) as [x Hx]. by rewrite Hx.
  - rewrite lookup_seq_ge by lia. rewrite (proj2 (lookup_ge_None l i)) by lia. done.
Qed.

Lemma elem_of_flat_map {A B} (g : A -> list B) l b : b ∈ flat_map g l <-> exists x, x ∈ l /\ b ∈ g x.
Proof.
  rewrite elem_of_list_In, in_flat_map. split; intros (x & H1 & H2); exists x; by rewrite ?elem_of_list_In in *.
Qed.

Lemma NoDup_flat_map_key {A B} (g : A -> list B) (key : B -> A) l :
  NoDup l -> (forall x b, x ∈ l -> b ∈ g x -> key b = x) -> (forall x, x ∈ l -> NoDup (g x)) ->
  NoDup (flat_map g l).
Proof.
  induction l as [|x r IH]; intros Hnd Hkey Hg; simpl; [apply NoDup_nil_2|].
  apply NoDup_cons in Hnd as [Hx Hr]. apply NoDup_app. split; [apply Hg, elem_of_list_here|]. split.
  - intros b Hb Hb2. apply elem_of_flat_map in Hb2 as (y & Hy & Hby).
    assert (key b = x) by (apply Hkey; [apply elem_of_list_here|done]).
    assert (key b = y) by (apply Hkey; [by apply elem_of_list_further|done]). congruence.
  - apply IH; [done| |].
    + intros y b Hy Hb. apply Hkey; [by apply elem_of_list_further|done].
    + intros y Hy. apply Hg. by apply elem_of_list_further.
Qed.

(** ** Positions of a plain query and the entities behind them *)
Lemma plain_segs_ok w tids : Forall seg_ok (plain_segs w tids).
Proof.
  unfold plain_segs. apply Forall_fmap, Forall_forall. intros tid _. unfold seg_ok, table_skip. simpl.
  destruct (w_tables w !! tid) as [t|]; [|by left].
  destruct (Nat.eqb_spec (tlen t) 0) as [Hz|Hnz]; [left; by rewrite Hz|right; split; [done|lia]].
Qed.

Lemma plain_enum_ents w tids : map (pos_ent w) (enum (plain_segs w tids)) = map Some (table_ents w tids).
Proof.
  unfold enum, table_ents. induction tids as [|tid r IH]; [done|].
  simpl. rewrite !map_app, IH. f_equal.
  unfold seg_positions, table_skip, tbl_ents. simpl. destruct (w_tables w !! tid) as [t|] eqn:Ht; [|done].
  destruct (Nat.eqb_spec (tlen t) 0) as [Hz|Hnz].
  - unfold tlen in Hz. by destruct (t_ents t).
  - rewrite Nat.sub_0_r, map_map. unfold pos_ent. simpl. rewrite Ht. simpl. apply lookup_seq_map.
Qed.

(** ** Entities of a list of tables *)
Section exact.
  Context (w : world) (live : list Entity).
  Hypothesis K : world_okr w live.

  Lemma tbl_ents_nodup tid : NoDup (tbl_ents w tid).
  Proof.
    unfold tbl_ents. destruct (w_tables w !! tid) as [t|] eqn:Ht; [|apply NoDup_nil_2].
    apply NoDup_alt. intros i j e Hi Hj.
    destruct (so_rows _ _ (wr_store _ _ K) tid t i e Ht Hi) as [_ H1].
    destruct (so_rows _ _ (wr_store _ _ K) tid t j e Ht Hj) as [_ H2]. congruence.
  Qed.

  Lemma table_ents_nodup tids : NoDup tids -> NoDup (table_ents w tids).
  Proof.
    intros Hnd. apply (NoDup_flat_map_key (tbl_ents w) (fun e => match loc w e with Some (tid, _) => tid | None => 0 end)); [done| |].
    - intros tid e _ He. unfold tbl_ents in He. destruct (w_tables w !! tid) as [t|] eqn:Ht; [|by apply elem_of_nil in He].
      apply elem_of_list_lookup in He as [row Hrow].
      destruct (so_rows _ _ (wr_store _ _ K) tid t row e Ht Hrow) as [_ ->]. done.
    - intros tid _. apply tbl_ents_nodup.
  Qed.

  (** The views of an entity in terms of its table and node. *)
  Lemma ent_views_of_row tid t row e nd :
    w_tables w !! tid = Some t -> t_ents t !! row = Some e -> w_nodes w !! t_node t = Some nd ->
    e ∈ live /\ ent_mask w e = Some (n_mask nd) /\ ent_target w e = Some (t_target t) /\ ent_rel w e = Some (n_rel nd).
  Proof.
    intros Ht Hrow Hnd. destruct (so_rows _ _ (wr_store _ _ K) tid t row e Ht Hrow) as [Hlive Hloc].
    destruct (so_table _ _ (wr_store _ _ K) tid t Ht) as (nd0 & Hnd0 & [Hlen _ _]).
    assert (Hr : exists r, t_rows t !! row = Some r).
    { apply lookup_lt_is_Some. apply lookup_lt_Some in Hrow. unfold tlen in Hlen. lia. }
    destruct Hr as [r Hr]. split; [done|].
    unfold ent_mask, ent_target, ent_rel, ent_cells. rewrite Hloc. simpl. rewrite Ht. simpl. rewrite Hr. simpl. by rewrite Hnd.
  Qed.

  Lemma table_ents_exact tids f :
    (forall tid t, w_tables w !! tid = Some t -> t_ents t <> [] -> (tid ∈ tids <-> table_matches w f t)) ->
    forall e, e ∈ table_ents w tids <-> (e ∈ live /\ ent_matches w f e).
  Proof.
    intros Hsel e. unfold table_ents. rewrite elem_of_flat_map. split.
    - intros (tid & Htid & He). unfold tbl_ents in He. destruct (w_tables w !! tid) as [t|] eqn:Ht; [|by apply elem_of_nil in He].
      apply elem_of_list_lookup in He as [row Hrow].
      assert (Hne : t_ents t <> []) by (intros Hn; by rewrite Hn in Hrow).
      destruct (proj1 (Hsel tid t Ht Hne) Htid) as (nd & Hnd & Hfm & Htg).
      destruct (ent_views_of_row tid t row e nd Ht Hrow Hnd) as (Hlive & Hm & Ht' & Hr).
      split; [done|]. exists (n_mask nd), (t_target t), (n_rel nd). done.
    - intros (Hlive & m & tg & rel & Hm & Htg & Hrel & Hfm & Hc).
      destruct (so_loc _ _ (wr_store _ _ K) e Hlive) as (tid & row & t & Hloc & Ht & Hrow).
      destruct (so_table _ _ (wr_store _ _ K) tid t Ht) as (nd & Hnd & _).
      destruct (ent_views_of_row tid t row e nd Ht Hrow Hnd) as (_ & Hm' & Ht' & Hr').
      rewrite Hm in Hm'. injection Hm' as ->. rewrite Htg in Ht'. injection Ht' as ->. rewrite Hrel in Hr'. injection Hr' as ->.
      assert (Hne : t_ents t <> []) by (intros Hn; by rewrite Hn in Hrow).
      exists tid. split.
      + apply (Hsel tid t Ht Hne). exists nd. done.
      + unfold tbl_ents. rewrite Ht. by eapply elem_of_list_lookup_2.
  Qed.
End exact.

(** ** The tables selected for a filter *)
Definition contrib (w : world) (filt : bool) (f : fexpr) (nd : node) : list nat :=
  if n_active nd && fmatches f (n_mask nd) then
    if negb (node_has_rel nd) then n_tables nd
    else match ftarget f with
         | Some t => match assoc_get t (n_tmap nd) with Some tid => [tid] | None => [] end
         | None => if filt then filter (fun tid => tbl_active w tid = true) (n_tables nd) else n_tables nd
         end
  else [].
Lemma walk_tables_contrib w f : walk_tables w f = flat_map (contrib w false f) (w_nodes w).
Proof. reflexivity. Qed.
Lemma get_tables_contrib w f : get_tables w f = flat_map (contrib w true f) (w_nodes w).
Proof. reflexivity. Qed.

Section select.
  Context (w : world) (live : list Entity) (filt : bool) (f : fexpr).
  Hypothesis K : world_okr w live.
  Let G := wr_graph _ _ K.

  Lemma contrib_table i nd tid :
    w_nodes w !! i = Some nd -> tid ∈ contrib w filt f nd ->
    n_active nd = true /\ fmatches f (n_mask nd) = true /\
    exists t, w_tables w !! tid = Some t /\ t_node t = i /\
      match ftarget f, n_rel nd with Some tg, Some _ => t_target t = tg | _, _ => True end.
  Proof.
    intros Hnd Hin. unfold contrib in Hin.
    destruct (n_active nd) eqn:Ha; [|by apply elem_of_nil in Hin]. simpl in Hin.
    destruct (fmatches f (n_mask nd)) eqn:Hf; [|by apply elem_of_nil in Hin]. split; [done|]. split; [done|].
    destruct (n_rel nd) as [r|] eqn:Hrel.
    - rewrite (proj2 (node_has_rel_true nd) (ex_intro _ r Hrel)) in Hin. simpl in Hin.
      destruct (ftarget f) as [tg|].
      + destruct (assoc_get tg (n_tmap nd)) as [tid0|] eqn:Hg; [|by apply elem_of_nil in Hin].
        apply elem_of_list_singleton in Hin as ->.
        destruct (rg_tmap _ G i nd tg tid0 Hnd Hg) as (t & Ht & Htn & Htt & _). by exists t.
      + assert (Hin' : tid ∈ n_tables nd) by (destruct filt; [by apply elem_of_list_filter in Hin as [_ ?]|done]).
        destruct (rg_ntables _ G i nd tid Hnd Hin') as (t & Ht & Htn). by exists t.
    - rewrite (proj2 (node_has_rel_false nd) Hrel) in Hin. simpl in Hin.
      destruct (rg_ntables _ G i nd tid Hnd Hin) as (t & Ht & Htn). exists t. split; [done|]. split; [done|]. by destruct (ftarget f).
  Qed.

  Lemma contrib_nodup i nd : w_nodes w !! i = Some nd -> NoDup (contrib w filt f nd).
  Proof.
    intros Hnd. unfold contrib. destruct (_ && _); [|apply NoDup_nil_2].
    pose proof (rg_tnodup _ G i nd Hnd) as Hn.
    destruct (negb _); [done|]. destruct (ftarget f).
    - destruct (assoc_get _ _); [apply NoDup_singleton|apply NoDup_nil_2].
    - destruct filt; [by apply NoDup_filter|done].
  Qed.

  Lemma nodes_nodup : NoDup (w_nodes w).
  Proof. apply NoDup_alt. intros i j nd Hi Hj. by apply (rg_masks _ G i j nd nd). Qed.

  Definition dummy_node : node := mkNode 0 [] None false [] [] [].

  Lemma selected_nodup : NoDup (flat_map (contrib w filt f) (w_nodes w)).
  Proof.
    apply (NoDup_flat_map_key _ (fun tid => default dummy_node (w_tables w !! tid ≫= fun t => w_nodes w !! t_node t))).
    - apply nodes_nodup.
    - intros nd tid Hnd Hin. apply elem_of_list_lookup in Hnd as [i Hi].
      destruct (contrib_table i nd tid Hi Hin) as (_ & _ & t & Ht & Htn & _). rewrite Ht. simpl. by rewrite Htn, Hi.
    - intros nd Hnd. apply elem_of_list_lookup in Hnd as [i Hi]. by eapply contrib_nodup.
  Qed.

  Lemma selected_exact tid t :
    w_tables w !! tid = Some t -> t_ents t <> [] ->
    (tid ∈ flat_map (contrib w filt f) (w_nodes w) <-> table_matches w f t).
  Proof.
    intros Ht Hne. rewrite elem_of_flat_map. split.
    - intros (nd & Hnd & Hin). apply elem_of_list_lookup in Hnd as [i Hi].
      destruct (contrib_table i nd tid Hi Hin) as (_ & Hf & t' & Ht' & Htn & Hc). rewrite Ht in Ht'. injection Ht' as <-.
      exists nd. by rewrite Htn.
    - intros (nd & Hnd & Hf & Hc). exists nd. split; [by eapply elem_of_list_lookup_2|].
      destruct (rg_table _ G tid t Ht) as (nd0 & Hnd0 & Hin & Hrest). rewrite Hnd in Hnd0. injection Hnd0 as <-.
      unfold contrib. rewrite (rg_active _ G _ nd tid Hnd Hin), Hf. simpl.
      destruct (n_rel nd) as [r|] eqn:Hrel.
      + rewrite (proj2 (node_has_rel_true nd) (ex_intro _ r Hrel)). simpl.
        assert (Hact : t_active t = true).
        { destruct (t_active t) eqn:Ha; [done|]. destruct Hrest as [_ He]. done. }
        rewrite Hact in Hrest. destruct (ftarget f) as [tg|].
        * rewrite <- Hc, Hrest. apply elem_of_list_here.
        * destruct filt; [|done]. apply elem_of_list_filter. split; [|done]. unfold tbl_active. by rewrite Ht.
      + by rewrite (proj2 (node_has_rel_false nd) Hrel).
  Qed.
End select.

(** ** The theorems *)
Theorem walk_tables_exact w live f :
  world_okr w live ->
  NoDup (table_ents w (walk_tables w f)) /\
  forall e, e ∈ table_ents w (walk_tables w f) <-> (e ∈ live /\ ent_matches w f e).
Proof.
  intros K. rewrite walk_tables_contrib. split.
  - apply (table_ents_nodup w live K). by apply (selected_nodup w live).
  - apply (table_ents_exact w live K). intros tid t. by apply (selected_exact w live).
Qed.

Theorem get_tables_exact w live f :
  world_okr w live ->
  NoDup (table_ents w (get_tables w f)) /\
  forall e, e ∈ table_ents w (get_tables w f) <-> (e ∈ live /\ ent_matches w f e).
Proof.
  intros K. rewrite get_tables_contrib. split.
  - apply (table_ents_nodup w live K). by apply (selected_nodup w live).
  - apply (table_ents_exact w live K). intros tid t. by apply (selected_exact w live).
Qed.

(** An uncached query: the cursor, driven by [Next] until exhausted, visits exactly the
    alive entities matching the filter, each once. *)
Theorem query_visits_exact w live f b l :
  world_okr w live ->
  let q := fresh (plain_segs w (walk_tables w f)) b l in
  exists L, map (pos_ent w) (visit (S (length (enum (q_segs q)))) q) = map Some L /\ NoDup L /\
    forall e, e ∈ L <-> (e ∈ live /\ ent_matches w f e).
Proof.
  intros K q. exists (table_ents w (walk_tables w f)).
  destruct (walk_tables_exact w live f K) as [Hnd Hex]. split; [|done].
  unfold q. change (q_segs (fresh (plain_segs w (walk_tables w f)) b l)) with (plain_segs w (walk_tables w f)).
  rewrite next_enumerates by apply plain_segs_ok. apply plain_enum_ents.
Qed.

(** ** Registered (cached) filters *)

(** Membership in [get_tables], for every table (empty or not). *)
Lemma get_tables_mem w f tid :
  rgraph_ok w ->
  (tid ∈ get_tables w f <-> exists t, w_tables w !! tid = Some t /\ t_active t = true /\ table_matches w f t).
Proof.
  intros G. rewrite get_tables_contrib, elem_of_flat_map. split.
  - intros (nd & Hnd & Hin). apply elem_of_list_lookup in Hnd as [i Hi]. unfold contrib in Hin.
    destruct (n_active nd) eqn:Ha; [|by apply elem_of_nil in Hin]. simpl in Hin.
    destruct (fmatches f (n_mask nd)) eqn:Hf; [|by apply elem_of_nil in Hin].
    destruct (n_rel nd) as [r|] eqn:Hrel.
    + rewrite (proj2 (node_has_rel_true nd) (ex_intro _ r Hrel)) in Hin. simpl in Hin.
      destruct (ftarget f) as [tg|] eqn:Hft.
      * destruct (assoc_get tg (n_tmap nd)) as [tid0|] eqn:Hg; [|by apply elem_of_nil in Hin].
        apply elem_of_list_singleton in Hin as ->.
        destruct (rg_tmap _ G i nd tg tid0 Hi Hg) as (t & Ht & Htn & Htt & Hta). exists t. split; [done|]. split; [done|].
        exists nd. rewrite Htn, Hft, Hrel. done.
      * apply elem_of_list_filter in Hin as [Hact Hin]. destruct (rg_ntables _ G i nd tid Hi Hin) as (t & Ht & Htn).
        exists t. unfold tbl_active in Hact. rewrite Ht in Hact. split; [done|]. split; [done|]. exists nd. rewrite Htn, Hft. done.
    + rewrite (proj2 (node_has_rel_false nd) Hrel) in Hin. simpl in Hin.
      destruct (rg_ntables _ G i nd tid Hi Hin) as (t & Ht & Htn). exists t. split; [done|].
      destruct (rg_table _ G tid t Ht) as (nd0 & Hnd0 & _ & Hrest). rewrite Htn, Hi in Hnd0. injection Hnd0 as <-.
      rewrite Hrel in Hrest. destruct Hrest as (_ & _ & Hact). split; [done|]. exists nd. rewrite Htn, Hrel. split; [done|]. split; [done|]. by destruct (ftarget f).
  - intros (t & Ht & Hact & nd & Hnd & Hf & Hc). exists nd. split; [by eapply elem_of_list_lookup_2|].
    destruct (rg_table _ G tid t Ht) as (nd0 & Hnd0 & Hin & Hrest). rewrite Hnd in Hnd0. injection Hnd0 as <-.
    unfold contrib. rewrite (rg_active _ G _ nd tid Hnd Hin), Hf. simpl.
    destruct (n_rel nd) as [r|] eqn:Hrel.
    + rewrite (proj2 (node_has_rel_true nd) (ex_intro _ r Hrel)). simpl. rewrite Hact in Hrest.
      destruct (ftarget f) as [tg|].
      * rewrite <- Hc, Hrest. apply elem_of_list_here.
      * apply elem_of_list_filter. split; [|done]. unfold tbl_active. by rewrite Ht.
    + by rewrite (proj2 (node_has_rel_false nd) Hrel).
Qed.

(** The cache invariant: every registered filter lists, without repetition, exactly the
    tables an uncached evaluation of the same filter selects now. *)
Definition cache_ok (w : world) : Prop :=
  forall ce, ce ∈ w_cache w -> NoDup (c_tables ce) /\ forall tid, tid ∈ c_tables ce <-> tid ∈ get_tables w (c_filter ce).

(** A query through a registered filter visits exactly the matching entities. *)
Theorem cached_visits_exact w live ce b l :
  world_okr w live -> cache_ok w -> ce ∈ w_cache w ->
  let q := fresh (plain_segs w (c_tables ce)) b l in
  exists L, map (pos_ent w) (visit (S (length (enum (q_segs q)))) q) = map Some L /\ NoDup L /\
    forall e, e ∈ L <-> (e ∈ live /\ ent_matches w (c_filter ce) e).
Proof.
  intros K C Hce q. exists (table_ents w (c_tables ce)). destruct (C ce Hce) as [Hnd Hmem].
  split; [|split].
  - unfold q. change (q_segs (fresh (plain_segs w (c_tables ce)) b l)) with (plain_segs w (c_tables ce)).
    rewrite next_enumerates by apply plain_segs_ok. apply plain_enum_ents.
  - by apply (table_ents_nodup w live K).
  - apply (table_ents_exact w live K). intros tid t Ht Hne. rewrite Hmem, get_tables_contrib. by apply (selected_exact w live).
Qed.

(** Registration computes the list from scratch; the new entry satisfies the invariant. *)
Lemma cache_register_ok w live f :
  world_okr w live -> cache_ok w -> cache_ok (fst (cache_register w f)).
Proof.
  intros K C ce Hce. unfold cache_register in Hce. simpl in Hce.
  assert (Hgt : forall g, get_tables (w <| w_cache := w_cache w ++ [mkCE (w_cnext w) f (get_tables w f)] |> <| w_cnext := S (w_cnext w) |>) g = get_tables w g) by done.
  apply elem_of_app in Hce as [Hce|Hce].
  - destruct (C ce Hce) as [H1 H2]. split; [done|]. intros tid. by rewrite Hgt.
  - apply elem_of_list_singleton in Hce as ->. simpl. split; [|intros tid; by rewrite Hgt].
    rewrite get_tables_contrib. by apply (selected_nodup w live).
Qed.

Lemma cache_unregister_ok w id w' f : cache_ok w -> cache_unregister w id = Some (w', f) -> cache_ok w'.
Proof.
  intros C H. unfold cache_unregister in H. destruct (find_index _ _) as [i|]; [|done].
  destruct (w_cache w !! i) as [e|] eqn:He; [|done]. injection H as <- _.
  intros ce Hce. simpl in Hce.
  assert (Hin : ce ∈ w_cache w) by (eapply swap_remove_elem; [by apply lookup_lt_Some in He|done]).
  destruct (C ce Hin) as [H1 H2]. done.
Qed.
