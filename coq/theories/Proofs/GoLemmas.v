(** * Lists of the translator's run-time prelude (Pure/GoRt.v) against std++ lists. *)
From Arche Require Import Model.Base Pure.GoRt.
Local Open Scope nat_scope.

Lemma list_upd_insert {A} (l : list A) i v : list_upd l i v = <[i := v]> l.
Proof. revert i; induction l as [|h t IH]; intros [|i]; simpl; try done. by rewrite IH. Qed.

Lemma a_get_map {A B} (f : A -> B) (d : B) (l : list A) (i : nat) x :
  l !! i = Some x -> a_get d (map f l) (N.of_nat i) = f x.
Proof.
  intros H. unfold a_get. rewrite Nat2N.id.
  apply nth_lookup_Some with (d := d). by rewrite list_lookup_fmap, H.
Qed.

Lemma a_set_map {A B} (f : A -> B) (l : list A) (i : nat) v :
  a_set (map f l) (N.of_nat i) (f v) = map f (<[i := v]> l).
Proof. unfold a_set. rewrite Nat2N.id, list_upd_insert. by rewrite list_fmap_insert. Qed.

