(** * C17: dump / load at world level.

    Dumping a world that refines an abstract store and loading the dump into a fresh or
    reset world (any registry, any capacity increment) yields a world that again satisfies
    all invariants, whose alive entities are exactly the alive entities of the dumped
    world (without components), whose issued-handle history is the same - every handle ever
    issued gets the same Alive answer - and whose entity pool is IDENTICAL to the dumped
    one, so that every later creation and removal issues the same handles in both. *)
From Arche Require Import Model.Base Model.Pool Model.Filter Model.World Model.Ops
  Proofs.PoolInv Proofs.Tables Proofs.Bits Proofs.Store Proofs.Graph Proofs.WorldInv Proofs.Cursor
  Proofs.RelGraph Proofs.RelWorld Proofs.RelRefine Proofs.QueryExact Proofs.CacheInv Proofs.BatchMove Proofs.ResReg.

Lemma pool_inv_perm p live live' issued frees : live ≡ₚ live' -> pool_inv p live issued frees -> pool_inv p live' issued frees.
Proof.
  intros HP [I1 I2 I3 I4 I5 I6 I7 I8 I9 I10 I11 I12]. split; try done.
  - by rewrite <- HP.
  - intros e He. rewrite <- HP in He. by apply I3.
  - intros i Hi. rewrite <- HP. by apply I7.
  - intros i Hi. rewrite <- HP. by apply I8.
  - intros e He. rewrite <- HP in He. by apply I9.
  - intros e He Hn. apply I11; [done|]. by rewrite HP.
Qed.

(** The alive entities in dump order. *)
Lemma all_entities_exact w live :
  world_okr w live -> NoDup (all_entities w) /\ forall e, e ∈ all_entities w <-> e ∈ live.
Proof.
  intros K. destruct (walk_tables_exact w live (FAll 0) K) as [Hnd Hmem].
  split; [exact Hnd|]. intros e. change (all_entities w) with (table_ents w (walk_tables w (FAll 0))). rewrite Hmem.
  split; [by intros [? _]|]. intros He. split; [done|].
  destruct (so_loc _ _ (wr_store _ _ K) e He) as (tid & row & t & Hl & Ht & Hr).
  destruct (so_table _ _ (wr_store _ _ K) tid t Ht) as (nd & Hnd' & _).
  destruct (ent_views_of_row w live K tid t row e nd Ht Hr Hnd') as (_ & Hm & Htg & Hrel).
  exists (n_mask nd), (t_target t), (n_rel nd). split; [done|]. split; [done|]. split; [done|]. split; [|done].
  simpl. unfold contains. by rewrite N.land_0_r.
Qed.

Lemma views_of_row3 w live e tid row t nd :
  store_ok w live -> e ∈ live -> loc w e = Some (tid, row) -> w_tables w !! tid = Some t -> w_nodes w !! t_node t = Some nd ->
  ent_mask w e = Some (n_mask nd) /\ ent_rel w e = Some (n_rel nd) /\ ent_target w e = Some (t_target t).
Proof.
  intros S He Hloc Ht Hnd. destruct (so_loc _ _ S e He) as (tid0 & row0 & t0 & Hl0 & Ht0 & Hr0).
  rewrite Hloc in Hl0. injection Hl0 as <- <-. rewrite Ht in Ht0. injection Ht0 as <-.
  destruct (so_table _ _ S tid t Ht) as (nd0 & Hnd0 & [Hlen _ _]).
  assert (Hr : exists r, t_rows t !! row = Some r).
  { apply lookup_lt_is_Some. apply lookup_lt_Some in Hr0. unfold tlen in Hlen. lia. }
  destruct Hr as [r Hr].
  unfold ent_mask, ent_rel, ent_target, ent_cells. rewrite Hloc. simpl. rewrite Ht. simpl. rewrite Hr. simpl. by rewrite Hnd.
Qed.

Lemma assoc_get_map_const {V} (L : list Entity) (a : V) e : e ∈ L -> assoc_get e (map (fun e => (e, a)) L) = Some a.
Proof.
  induction L as [|x r IH]; intros Hin; [by apply elem_of_nil in Hin|]. simpl. destruct (ent_eqb e x) eqn:Heq; [done|].
  apply ent_eqb_neq in Heq. apply elem_of_cons in Hin as [->|Hin]; [done|]. by apply IH.
Qed.

Lemma omap_alive (p : pool) (L : list Entity) :
  (forall e, e ∈ L -> p_ents p !! eid e = Some (eid e, egen e)) ->
  omap (fun i => match p_ents p !! i with Some (id, g) => Some (mkE id g) | None => None end) (map eid L) = L.
Proof.
  induction L as [|e r IH]; intros H; simpl; [done|].
  rewrite (H e (elem_of_list_here _ _)). simpl. destruct e as [i g]. simpl. f_equal.
  apply IH. intros e0 He0. apply H. by apply elem_of_list_further.
Qed.

Theorem load_refines w A w2 A2 w3 :
  R w A -> R w2 A2 -> cache_ok w2 ->
  world_load w2 (world_dump w) = Some w3 ->
  let L := all_entities w in
  L ≡ₚ as_live A /\ w_pool w3 = w_pool w /\
  R w3 (mkAS (map (fun e => (e, mkA 0 ezero [])) L) L (as_issued A) (as_reg A2)) /\ cache_ok w3.
Proof.
  intros HR HR2 C2 H L. pose proof (load_dump_pool w w2 w3 H) as Hpool.
  pose proof HR as [[K [frees P] Lil] Hr Hu He]. pose proof HR2 as [[[S2 G2] [frees2 P2] Lil2] Hr2 Hu2 He2].
  destruct (all_entities_exact w (as_live A) K) as [HLnd HLmem]. fold L in HLnd, HLmem.
  assert (HLperm : L ≡ₚ as_live A).
  { apply NoDup_Permutation; [done| |done]. apply NoDup_fmap_1 with eid. apply P. }
  split; [done|]. split; [done|].
  unfold world_load in H. rewrite Hu2 in H.
  destruct ((1 <? length (p_ents (w_pool w2))) || (0 <? p_avail (w_pool w2))) eqn:Hfresh; [done|].
  apply orb_false_iff in Hfresh as [Hf1 Hf2]. apply Nat.ltb_ge in Hf1.
  (* the receiving world has no entity *)
  assert (Hnolive : as_live A2 = []).
  { destruct (as_live A2) as [|e r] eqn:Hl; [done|]. exfalso.
    destruct (pi_live_slot _ _ _ _ P2 e) as [Hz Hs]; [apply elem_of_list_here|]. apply lookup_lt_Some in Hs. lia. }
  assert (Hempty2 : forall tid t, w_tables w2 !! tid = Some t -> t_ents t = []).
  { intros tid t Ht. destruct (t_ents t) as [|e r] eqn:Hte; [done|]. exfalso.
    destruct (so_rows _ _ S2 tid t 0 e Ht) as [Hin _]; [by rewrite Hte|]. rewrite Hnolive in Hin. by apply elem_of_nil in Hin. }
  destruct (rg_table0 _ G2) as (t0 & n0 & Ht0 & Hn0 & Hm0). rewrite Ht0, Hn0 in H.
  assert (Hes : omap (fun i => match d_ents (world_dump w) !! i with Some (id, g) => Some (mkE id g) | None => None end) (d_alive (world_dump w)) = L).
  { unfold world_dump. simpl. apply omap_alive. intros e Hin. apply HLmem in Hin. by destruct (pi_live_slot _ _ _ _ P e Hin). }
  rewrite Hes in H.
  destruct (so_table _ _ S2 0 t0 Ht0) as (n0' & Hn0' & Hok0). rewrite Hn0 in Hn0'. injection Hn0' as <-.
  pose proof (tbl_allocn_spec (w_capinc w2) (zero_row n0) t0 L (proj1 (rg_capinc _ G2)) Hok0) as Ha.
  destruct (tbl_allocn (w_capinc w2) (zero_row n0) t0 L) as [t1 start].
  destruct Ha as (-> & Hte & Htok & _ & _ & _ & Htn & Htt & Hta & _).
  assert (Hstart : tlen t0 = 0) by (unfold tlen; by rewrite (Hempty2 0 t0 Ht0)).
  rewrite Hstart in H. rewrite (Hempty2 0 t0 Ht0) in Hte. simpl in Hte.
  (* the index *)
  assert (HLeid : NoDup (map eid L)).
  { apply NoDup_alt. intros i j x Hi Hj. rewrite list_lookup_fmap in Hi, Hj.
    destruct (L !! i) as [e1|] eqn:H1; [|done]. destruct (L !! j) as [e2|] eqn:H2; [|done]. simpl in Hi, Hj. injection Hi as Hi. injection Hj as Hj.
    assert (e1 = e2).
    { eapply (live_eid_inj w (as_live A)); [apply K| | |congruence]; apply HLmem; by eapply elem_of_list_lookup_2. }
    subst e2. by eapply NoDup_lookup. }
  set (n := length (d_ents (world_dump w))) in *.
  assert (Hn : n = length (p_ents (w_pool w))) by done.
  assert (Hlt : forall e, e ∈ L -> eid e < length (replicate n (None : option (nat * nat)))).
  { intros e Hin. rewrite replicate_length. apply HLmem in Hin. destruct (pi_live_slot _ _ _ _ P e Hin) as [_ Hs]. apply lookup_lt_Some in Hs. lia. }
  destruct (foldl_index_spec 0 0 L 0 (replicate n None) HLeid Hlt) as (Hil & Hiin & Hiout).
  set (idx := foldl (fun idx '(i, e) => <[eid e := Some (0, 0 + i)]> idx) (replicate n None) (imap (fun i e => (0 + i, e)) L)) in *.
  injection H as <-.
  match goal with |- R ?x _ /\ _ => set (w3 := x) in * end.
  assert (Hidx : w_index w3 = idx) by reflexivity.
  assert (Htl : forall tid, w_tables w3 !! tid = if decide (tid = 0) then Some t1 else w_tables w2 !! tid).
  { intros tid. change (w_tables w3) with (<[0 := t1]> (w_tables w2)). eapply lookup_insert_cases. exact Ht0. }
  assert (Hloc3 : forall k e, L !! k = Some e -> loc w3 e = Some (0, k)).
  { intros k e Hk. unfold loc. rewrite Hidx. rewrite (Hiin k e Hk). done. }
  assert (S3 : store_ok w3 L).
  { split.
    - exact HLeid.
    - intros e Hin. apply elem_of_list_lookup in Hin as [k Hk]. exists 0, k, t1. split; [by apply Hloc3|]. split; [by rewrite Htl|]. by rewrite Hte.
    - intros tid t row e Ht Hrow. rewrite Htl in Ht. destruct (decide (tid = 0)) as [->|Hne].
      + injection Ht as <-. rewrite Hte in Hrow. split; [by eapply elem_of_list_lookup_2|by apply Hloc3].
      + rewrite (Hempty2 tid t Ht) in Hrow. done.
    - intros tid t Ht. rewrite Htl in Ht. destruct (decide (tid = 0)) as [->|Hne].
      + injection Ht as <-. exists n0. by rewrite Htn.
      + by apply (so_table _ _ S2 tid). }
  assert (G3 : rgraph_ok w3).
  { eapply (rgraph_ok_same_nodes w2 w3); try done.
    - intros tid t Ht. rewrite Htl. destruct (decide (tid = 0)) as [->|]; [|by exists t].
      rewrite Ht0 in Ht. injection Ht as <-. exists t1. repeat split; try done. intros Hina.
      destruct (rg_table _ G2 0 t0 Ht0) as (nd & Hnd & _ & Hrest). rewrite Hn0 in Hnd. injection Hnd as <-.
      assert (Hr0 : n_rel n0 = None).
      { destruct (n_rel n0) as [r|] eqn:Hr0; [|done]. pose proof (rg_rel _ G2 _ n0 Hn0 r) as [_ HH].
        destruct (HH Hr0) as [Hb _]. by rewrite Hm0, bit_zero in Hb. }
      rewrite Hr0 in Hrest. destruct Hrest as (_ & _ & Hact). congruence.
    - intros tid t' Ht'. rewrite Htl in Ht'. destruct (decide (tid = 0)) as [->|]; by eexists. }
  assert (Htarget0 : t_target t1 = ezero).
  { rewrite Htt. destruct (rg_table _ G2 0 t0 Ht0) as (nd & Hnd & _ & Hrest). rewrite Hn0 in Hnd. injection Hnd as <-.
    assert (Hr0 : n_rel n0 = None).
    { destruct (n_rel n0) as [r|] eqn:Hr0; [|done]. pose proof (rg_rel _ G2 _ n0 Hn0 r) as [_ HH].
      destruct (HH Hr0) as [Hb _]. by rewrite Hm0, bit_zero in Hb. }
    rewrite Hr0 in Hrest. by destruct Hrest as (_ & ? & _). }
  split.
  - split; simpl.
    + split; [by split| |].
      * exists frees. change (w_pool w3) with (mkPool (d_ents (world_dump w)) (d_next (world_dump w)) (d_avail (world_dump w))).
        unfold world_dump. simpl. apply (pool_inv_perm _ (as_live A)); [done|]. by destruct (w_pool w).
      * rewrite Hidx, Hil, replicate_length. done.
    + done.
    + done.
    + intros e Hin. exists (mkA 0 ezero []). split.
      * by apply assoc_get_map_const.
      * apply elem_of_list_lookup in Hin as [k Hk].
        assert (Ht13 : w_tables w3 !! 0 = Some t1) by (by rewrite Htl).
        assert (Hn13 : w_nodes w3 !! t_node t1 = Some n0) by (by rewrite Htn).
        destruct (views_of_row3 w3 L e 0 k t1 n0 S3 (elem_of_list_lookup_2 _ _ _ Hk) (Hloc3 k e Hk) Ht13 Hn13) as (V1 & V2 & V3).
        split; simpl; try done; try (by rewrite V1, Hm0); try (by rewrite V3, Htarget0);
          intros id; rewrite ?bit_zero; done.
  - apply (cache_ok_sim w2); try done; [by apply nodes_same_eq|].
    intros tid. rewrite Htl. destruct (decide (tid = 0)) as [->|]; [by rewrite Ht0|by destruct (w_tables w2 !! tid)].
Qed.
