(** * C11 at history level, components AND relation targets.

    The listener of [EventReplay.v] keeps the component set of every entity from the events
    alone.  The relation target is not part of an event (only the OLD target is); C11 says
    events arrive after the change, so a listener that wants the target reads it from the world
    it is called in.  Here the shadow keeps (component set, target): the set is updated from
    the event alone, the target is read from the world after the operation on a creation event
    and on every event whose type bits say RelationChanged or TargetChanged - and ONLY then.
    [replay_t_history]: after every history of creations (with and without target),
    Add/Remove/Exchange (with or without relation argument), Relations.Set, RemoveEntity,
    registrations and reads the shadow holds exactly the alive entities with their component
    sets and targets: the type bits never miss a change of the target. *)
From Arche Require Import Model.Base Model.Pool Model.Filter Model.World Model.Ops
  Proofs.Tables Proofs.Bits Proofs.Store Proofs.Graph Proofs.Atomic Proofs.WorldInv
  Proofs.Frame Proofs.StepFrame Proofs.RelGraph Proofs.RelWorld Proofs.RelRefine Proofs.EventsExact Proofs.SpecDet
  Proofs.BatchCreate Proofs.EventReplay.

Definition sht_apply (w' : world) (S : list (Entity * (N * Entity))) (ev : event) : list (Entity * (N * Entity)) :=
  let e := ev_ent ev in
  let tg := default ezero (ent_target w' e) in
  if N.testbit (ev_types ev) 0 then assoc_set e (ev_added ev, tg) S
  else if N.testbit (ev_types ev) 1 then assoc_del e S
  else match assoc_get e S with
       | Some (m, t) =>
           assoc_set e (N.ldiff (N.lor m (ev_added ev)) (ev_removed ev),
                        if N.testbit (ev_types ev) 4 || N.testbit (ev_types ev) 5 then tg else t) S
       | None => S
       end.
Definition sht_replay (w' : world) (S : list (Entity * (N * Entity))) (evs : list event) : list (Entity * (N * Entity)) :=
  foldl (sht_apply w') S evs.

Definition shadow_t_ok (A : astate) (S : list (Entity * (N * Entity))) : Prop :=
  forall e, assoc_get e S =
    if decide (e ∈ as_live A) then option_map (fun a => (a_mask a, a_target a)) (assoc_get e (as_ents A)) else None.

Lemma sub_bits a b c d e f :
  N.testbit (subscription a b c d e f) 0 = a /\ N.testbit (subscription a b c d e f) 1 = b /\
  N.testbit (subscription a b c d e f) 4 = e /\ N.testbit (subscription a b c d e f) 5 = f.
Proof. by destruct a, b, c, d, e, f. Qed.

Lemma shadow_t_same A A' S :
  as_live A' = as_live A ->
  (forall e, e ∈ as_live A -> option_map (fun a => (a_mask a, a_target a)) (assoc_get e (as_ents A')) =
                              option_map (fun a => (a_mask a, a_target a)) (assoc_get e (as_ents A))) ->
  shadow_t_ok A S -> shadow_t_ok A' S.
Proof.
  intros Hl Hm H e. rewrite (H e), Hl. destruct (decide (e ∈ as_live A)); [|done]. symmetry. by apply Hm.
Qed.

Lemma shadow_t_upd A S e a p f :
  shadow_t_ok A S -> e ∈ as_live A -> assoc_get e (as_ents A) = Some a -> (a_mask (f a), a_target (f a)) = p ->
  shadow_t_ok (a_upd A e f) (assoc_set e p S).
Proof.
  intros HS Hl Ha Hm e'. unfold a_upd. rewrite Ha. cbn [as_live as_ents]. rewrite !assoc_get_set.
  destruct (ent_eqb e' e) eqn:Heq.
  - apply ent_eqb_eq in Heq as ->. rewrite decide_True by done. simpl. by rewrite Hm.
  - apply HS.
Qed.

Lemma R_live_views w A e : R w A -> e ∈ as_live A ->
  exists a, assoc_get e (as_ents A) = Some a /\ ent_mask w e = Some (a_mask a) /\ ent_target w e = Some (a_target a).
Proof. intros HR He. destruct (r_ents _ _ HR e He) as (a & Ha & V). exists a. split; [done|]. split; apply V. Qed.

(** One successful structural exchange. *)
Lemma replay_t_exchange w A S e add rem rel w1 x :
  R w A -> w_listener w = Some lall -> e ∈ as_issued A -> ids_reg A add -> shadow_t_ok A S ->
  exchange_nn w e add rem rel = Some (w1, Some x) ->
  R w1 (a_upd A e (fun a => a_exchange (as_reg A) a add rem rel)) ->
  shadow_t_ok (a_upd A e (fun a => a_exchange (as_reg A) a add rem rel)) (sht_replay w1 S (ev_exchange w1 e x add rem)).
Proof.
  intros HR Hlis Hiss Hadd HS H HR1. pose proof HR as [K Hr Hu He].
  assert (Hlive : e ∈ as_live A) by (eapply chk_alive_live_r; [exact K|done|by eapply exchange_alive]).
  pose proof Hadd as Hadd'. unfold ids_reg in Hadd'. rewrite Hr in Hadd'.
  destruct (exchange_event_exact w (as_live A) e add rem rel w1 x (r2_ok _ _ _ K) Hlive Hadd' Hlis H)
    as (om & nm & orl & nrl & ot & nt & Hom & Hnm & _ & _ & Hot & Hnt & ->).
  destruct (R_live_views w A e HR Hlive) as (a & Ha & Hma & Hta). rewrite Hom in Hma. injection Hma as ->. rewrite Hot in Hta. injection Hta as ->.
  assert (Hlive1 : e ∈ as_live (a_upd A e (fun a => a_exchange (as_reg A) a add rem rel))) by (unfold a_upd; by rewrite Ha).
  destruct (R_live_views w1 _ e HR1 Hlive1) as (a1 & Ha1 & Hma1 & Hta1). rewrite Hnm in Hma1. injection Hma1 as ->. rewrite Hnt in Hta1. injection Hta1 as ->.
  unfold a_upd in Ha1. rewrite Ha in Ha1. cbn [as_ents] in Ha1. rewrite assoc_get_set, ent_eqb_refl in Ha1. injection Ha1 as <-.
  unfold sht_replay. cbn [foldl]. unfold sht_apply. cbn [ev_types ev_ent ev_added ev_removed]. unfold xbits.
  destruct (sub_bits false false (negb (bool_decide (add = []))) (negb (bool_decide (rem = []))) (opt_ne orl nrl) (opt_ne orl nrl || negb (ent_eqb (a_target a) (a_target (a_exchange (as_reg A) a add rem rel))))) as (-> & -> & -> & ->).
  pose proof (HS e) as HSe. rewrite decide_True in HSe by done. rewrite Ha in HSe. simpl in HSe. rewrite HSe.
  apply (shadow_t_upd A S e a); try done. rewrite replay_masks, Hnt. cbn [default from_option]. f_equal.
  destruct (opt_ne orl nrl); cbn [orb negb]; [done|]. destruct (ent_eqb _ _) eqn:Heq; cbn [negb]; [|done]. apply ent_eqb_eq in Heq. by rewrite Heq.
Qed.

(** Creation with a relation target: one creation event with the full component set. *)
Lemma new_target_event_exact w live issued rid target ids w' e evs :
  world_okr2 w live issued -> Forall (fun id => id < length (w_reg w)) ids -> w_listener w = Some lall ->
  op_new_target w rid target ids [] = (w', Ok (VEnt e), evs) ->
  exists m, ent_mask w' e = Some m /\ ent_target w' e = Some target /\
    evs = [mkEv e m 0 ids [] None (Some rid) ezero
             (subscription true false (negb (bool_decide (ids = []))) false true true) false 0].
Proof.
  intros K Hreg Hlis H.
  destruct (new_entity_target_rok w live issued rid target ids w' e evs K Hreg H) as (Hni & K' & _ & _ & mask & _ & Hm & Hr & Ht & _).
  pose proof (frame_op_new_target w rid target ids []) as F. rewrite H in F. simpl in F.
  unfold op_new_target in H. destruct (is_locked w) eqn:Hul; [done|]. destruct (negb (target_ok w target)); [done|].
  destruct (match ids with [] => Some (w, 0) | _ => find_or_create_table w 0 ids [] target end) as [[w1 tid]|] eqn:Hf; [|done].
  destruct K as [[S G] [frees P] L].
  destruct (new_table_rok w ids target w1 tid G Hreg Hf) as (E & G1 & dt & dn & Hdt & Hdn & _).
  destruct (negb (check_relation w1 tid rid)); [done|].
  pose proof (create_entity_ents w1 tid dt dn Hdt Hdn) as Hents.
  destruct (create_entity w1 tid) as [w2 e2]. simpl in H.
  destruct (table_mask_rel (set_tbit w2 target) tid) as [m r] eqn:Htm. injection H as <- <- <-.
  destruct Hents as (t' & Ht' & He').
  destruct (BatchCreate.set_tbit_fields w2 target) as (Fn & Ft & Fi & _).
  assert (Ht'' : w_tables (set_tbit w2 target) !! tid = Some t') by (by rewrite Ft).
  assert (Hloc : loc (set_tbit w2 target) e2 = Some (tid, length (t_ents dt))).
  { apply (so_rows _ _ (wr_store _ _ (r2_ok _ _ _ K')) tid t' (length (t_ents dt)) e2 Ht'').
    rewrite He'. rewrite lookup_app_r by lia. by rewrite Nat.sub_diag. }
  rewrite (table_mask_rel_views (set_tbit w2 target) tid _ e2 mask (Some rid) Hloc Hm Hr) in Htm. injection Htm as <- <-.
  exists mask. split; [done|]. split; [done|].
  unfold ev_create. rewrite (fr_listener _ _ F), Hlis.
  assert (Hul2 : is_locked (set_tbit w2 target) = false) by (unfold is_locked; by rewrite (fr_locks _ _ F)).
  rewrite Hul2. rewrite recipients_all by apply subscription_lt.
  assert (Hnz : (subscription true false (negb (bool_decide (ids = []))) false true true =? 0)%N = false) by (by destruct (negb _)).
  simpl. by rewrite Hnz.
Qed.

Theorem replay_t_step w A S o :
  R w A -> w_listener w = Some lall -> op_pre A o -> touches_rr o = false \/ (exists k r z, o = ORegister k r z) ->
  (match o with OSetListener _ => False | _ => True end) ->
  shadow_t_ok A S ->
  let r := step w o in
  shadow_t_ok (astep A o (snd (fst r))) (sht_replay (fst (fst r)) S (snd r)) /\ w_listener (fst (fst r)) = Some lall.
Proof.
  intros HR Hlis Hop Htouch Hnot HS r.
  pose proof (rel_step w A o HR Hop) as HR'. fold r in HR'.
  assert (Hl' : w_listener (fst (fst r)) = Some lall).
  { destruct Htouch as [Ht|(k & rr & z & ->)]; [rewrite <- Hlis; apply (rr_listener _ _ (step_frame_rr w o Ht))|].
    unfold r. simpl. unfold register_comp.
    destruct (find_index _ _); [done|]. destruct (_ <=? _); [done|]. destruct (is_locked w); [done|].
    destruct (_ && _); [unfold extend_layouts|]; done. }
  split; [|exact Hl'].
  pose proof HR as [K Hr Hu He].
  destruct (step_cases w o) as [[Hs Hnp]|[_ Hs]]; [|unfold r; rewrite Hs; simpl; by destruct o].
  unfold r in *. rewrite Hs in *. clear Hs r.
  destruct o; try done; simpl in Hop, Hnp, HR' |- *.
  - (* ONew *)
    destruct (op_new w ids []) as [[w' out] evs] eqn:H. simpl in *.
    destruct (op_new_shape _ _ _ _ _ _ H) as [->|[e ->]]; [done|].
    pose proof Hop as Hids. unfold ids_reg in Hids. rewrite Hr in Hids.
    destruct (new_event_exact w (as_live A) (as_issued A) ids w' e evs K Hids Hlis H) as (m & rl & Hm & _ & ->).
    assert (Hin : e ∈ as_live (a_add A e (mkA (new_mask ids) ezero []))) by apply elem_of_list_here.
    destruct (R_live_views w' _ e HR' Hin) as (a' & Ha' & Hm' & Ht').
    simpl in Ha'. rewrite assoc_get_set, ent_eqb_refl in Ha'. injection Ha' as <-. simpl in Hm', Ht'. rewrite Hm in Hm'. injection Hm' as ->.
    unfold sht_replay. cbn [foldl]. unfold sht_apply. cbn [ev_types ev_ent ev_added]. rewrite created_bit, Ht'. simpl.
    intros e'. rewrite assoc_get_set. simpl. rewrite assoc_get_set.
    destruct (ent_eqb e' e) eqn:Heq.
    + apply ent_eqb_eq in Heq as ->. rewrite decide_True by apply elem_of_list_here. done.
    + apply ent_eqb_neq in Heq. rewrite (HS e').
      destruct (decide (e' ∈ as_live A)) as [Hl|Hl].
      * rewrite decide_True by (by apply elem_of_list_further). done.
      * rewrite decide_False; [done|]. intros Hx. apply elem_of_cons in Hx as [?|?]; done.
  - (* OBNew *)
    destruct Hop as [Hids Hv]. pose proof Hids as Hids'. unfold ids_reg in Hids'. rewrite Hr in Hids'.
    unfold op_builder_new in *. unfold b_comps in *. rewrite Hv in *.
    assert (Hnew : forall tg0 w' e evs m,
              R w' (a_add A e (mkA (new_mask (b_ids b)) tg0 [])) -> ent_mask w' e = Some m -> ent_target w' e = Some tg0 ->
              forall bits, N.testbit bits 0 = true ->
              shadow_t_ok (a_add A e (mkA (new_mask (b_ids b)) tg0 [])) (sht_replay w' S [mkEv e m 0 (b_ids b) [] None evs ezero bits false 0])).
    { intros tg0 w' e rl m HRn Hm Ht bits Hb.
      assert (Hin : e ∈ as_live (a_add A e (mkA (new_mask (b_ids b)) tg0 []))) by apply elem_of_list_here.
      destruct (R_live_views w' _ e HRn Hin) as (a' & Ha' & Hm' & Ht').
      simpl in Ha'. rewrite assoc_get_set, ent_eqb_refl in Ha'. injection Ha' as <-. simpl in Hm', Ht'. rewrite Hm in Hm'. injection Hm' as ->.
      unfold sht_replay. cbn [foldl]. unfold sht_apply. cbn [ev_types ev_ent ev_added]. rewrite Hb, Ht. simpl.
      intros e'. rewrite assoc_get_set. simpl. rewrite assoc_get_set.
      destruct (ent_eqb e' e) eqn:Heq.
      + apply ent_eqb_eq in Heq as ->. rewrite decide_True by apply elem_of_list_here. done.
      + apply ent_eqb_neq in Heq. rewrite (HS e').
        destruct (decide (e' ∈ as_live A)) as [Hl|Hl].
        * rewrite decide_True by (by apply elem_of_list_further). done.
        * rewrite decide_False; [done|]. intros Hx. apply elem_of_cons in Hx as [?|?]; done. }
    destruct target as [tg|].
    + destruct (b_rel b) as [rid|]; [|done].
      destruct (op_new_target w rid tg (b_ids b) []) as [[w' out] evs] eqn:H. simpl in *.
      destruct (op_new_target_shape _ _ _ _ _ _ _ _ H) as [->|[e ->]]; [done|].
      destruct (new_target_event_exact w (as_live A) (as_issued A) rid tg (b_ids b) w' e evs K Hids' Hlis H) as (m & Hm & Ht & ->).
      apply (Hnew tg w' e (Some rid) m HR' Hm Ht). apply created_bit.
    + destruct (op_new w (b_ids b) []) as [[w' out] evs] eqn:H. simpl in *.
      destruct (op_new_shape _ _ _ _ _ _ H) as [->|[e ->]]; [done|].
      destruct (new_event_exact w (as_live A) (as_issued A) (b_ids b) w' e evs K Hids' Hlis H) as (m & rl & Hm & _ & ->).
      assert (Hin : e ∈ as_live (a_add A e (mkA (new_mask (b_ids b)) ezero []))) by apply elem_of_list_here.
      destruct (R_live_views w' _ e HR' Hin) as (a' & Ha' & _ & Ht').
      simpl in Ha'. rewrite assoc_get_set, ent_eqb_refl in Ha'. injection Ha' as <-. simpl in Ht'.
      apply (Hnew ezero w' e rl m HR' Hm Ht'). apply created_bit.
  - (* ORemoveEntity *)
    destruct Hop as [Hiss Hgen].
    destruct (chk_alive w e) as [[]|] eqn:Hal; [| |];
      try (exfalso; unfold op_remove_entity, ent_table in Hnp; rewrite Hu, Hal in Hnp; done).
    assert (Hlive : e ∈ as_live A) by (eapply chk_alive_live_r; [exact K|done|done]).
    destruct (remove_event_exact w (as_live A) e (r2_ok _ _ _ K) Hlive Hal Hu Hlis) as (m & rl & tg & Hm & _ & _ & Hev).
    rewrite Hev.
    assert (Hout : snd (fst (op_remove_entity w e)) = Ok VUnit).
    { unfold op_remove_entity, ent_table in *. rewrite Hu, Hal in *. destruct (loc w e) as [[src row]|]; [|done].
      destruct (w_tables w !! src) as [st|]; [|done]. destruct (w_nodes w !! t_node st); [|done]. by destruct (tbl_remove _ _ _). }
    rewrite Hout. simpl.
    unfold sht_replay. cbn [foldl]. unfold sht_apply. cbn [ev_types ev_ent].
    destruct (removed_bits false (negb (bool_decide (mask_ids (w_tb w) m = []))) (bool_decide (is_Some rl)) (bool_decide (is_Some rl))) as [-> ->].
    intros e'. rewrite assoc_get_del. destruct (ent_eqb e' e) eqn:Heq.
    + apply ent_eqb_eq in Heq as ->. cbn [as_live as_ents]. rewrite decide_False; [done|]. intros Hx. apply elem_of_list_filter in Hx as [? _]. done.
    + apply ent_eqb_neq in Heq. rewrite (HS e'). cbn [as_live as_ents]. rewrite assoc_get_del, (proj2 (ent_eqb_neq e' e) Heq).
      destruct (decide (e' ∈ as_live A)) as [Hl|Hl].
      * rewrite decide_True; [done|]. by apply elem_of_list_filter.
      * rewrite decide_False; [done|]. intros Hx. by apply elem_of_list_filter in Hx as [_ ?].
  - (* OAlive *) by destruct (chk_alive w e).
  - (* OExchange *)
    destruct Hop as [Hiss Hadd]. unfold op_exchange in *.
    destruct (exchange_nn w e add rem None) as [[w1 [x|]]|] eqn:H; simpl in *; [| |done].
    + assert (Ha' : (match add, rem with [], [] => A | _, _ => a_upd A e (fun a => a_exchange (as_reg A) a add rem None) end) =
                    a_upd A e (fun a => a_exchange (as_reg A) a add rem None)).
      { destruct add, rem; try done. unfold exchange_nn in H. destruct (is_locked w); [done|]. destruct (chk_alive w e) as [[]|]; done. }
      rewrite Ha' in *. by apply (replay_t_exchange w A S e add rem None w1 x).
    + apply exchange_nn_none in H as (-> & -> & ->). done.
  - (* OSet *)
    destruct (set_comp w e id v) as [w1|] eqn:H; simpl in *; [|done].
    apply (shadow_t_same A); try done.
    + unfold a_upd. by destruct (assoc_get e (as_ents A)).
    + intros e' He'. unfold a_upd. destruct (assoc_get e (as_ents A)) as [a|] eqn:Ha; [|done]. cbn [as_ents]. rewrite assoc_get_set.
      destruct (ent_eqb e' e) eqn:Heq; [|done]. apply ent_eqb_eq in Heq as ->. rewrite Ha. simpl. by destruct (reg_zs (as_reg A) id).
  - (* OGet *) by destruct (get_comp w e id).
  - (* OHas *) by destruct (ent_table w e) as [[[[? ?] ?] ?]|].
  - (* OMask *) by destruct (ent_table w e) as [[[[? ?] ?] ?]|].
  - (* ORelGet *) destruct (ent_table w e) as [[[[? ?] ?] ?]|]; [|done]. by destruct (check_relation _ _ _).
  - (* ORelSet *)
    destruct (op_set_relation w e id t) as [[w' out] evs] eqn:H. simpl in *.
    destruct (op_set_relation_shape _ _ _ _ _ _ _ H) as [->| ->]; [done|]. simpl.
    assert (Hlive : e ∈ as_live A) by (eapply chk_alive_live_r; [exact K|done|by eapply set_relation_alive]).
    destruct (target_event_exact w (as_live A) e id t w' evs (r2_ok _ _ _ K) Hlive Hlis H) as (ot & Hot & Hnt & ->).
    destruct (R_live_views w A e HR Hlive) as (a & Ha & Hma & Hta). rewrite Hot in Hta. injection Hta as ->.
    pose proof (HS e) as HSe. rewrite decide_True in HSe by done. rewrite Ha in HSe. simpl in HSe.
    destruct (ent_eqb (a_target a) t) eqn:Heq.
    + apply ent_eqb_eq in Heq. apply (shadow_t_same A); try done.
      * unfold a_upd. by rewrite Ha.
      * intros e' He'. unfold a_upd. rewrite Ha. cbn [as_ents]. rewrite assoc_get_set.
        destruct (ent_eqb e' e) eqn:Heq'; [|done]. apply ent_eqb_eq in Heq' as ->. rewrite Ha. simpl. by rewrite Heq.
    + unfold sht_replay. cbn [foldl]. unfold sht_apply. cbn [ev_types ev_ent ev_added ev_removed].
      change (N.testbit 32 0) with false. change (N.testbit 32 1) with false. change (N.testbit 32 4) with false. change (N.testbit 32 5) with true.
      cbv iota. rewrite HSe, Hnt. simpl. rewrite N.lor_0_r, N.ldiff_0_r. by apply (shadow_t_upd A S e a).
  - (* ORelExchange *)
    destruct Hop as [Hiss Hadd]. unfold op_exchange in *.
    destruct (exchange_nn w e add rem (Some (rid, t))) as [[w1 [x|]]|] eqn:H; simpl in *; [| |done].
    + by apply (replay_t_exchange w A S e add rem (Some (rid, t)) w1 x).
    + exfalso. unfold exchange_nn in H. destruct (is_locked w); [done|]. destruct (chk_alive w e) as [[]|]; try done.
      destruct (negb _); [done|]. destruct add, rem; try done;
      destruct (loc w e) as [[? ?]|]; try done; destruct (w_tables w !! _) as [st|]; try done;
      destruct (w_nodes w !! _) as [sn|]; try done; destruct (exchange_mask _ _ _); try done;
      destruct (exchange_target _ _ _ _ _ _); try done; destruct (find_or_create_table _ _ _ _ _) as [[? ?]|]; done.
  - (* ORegister *)
    destruct (register_comp w key isrel zs) as [[w1 id]|] eqn:H; simpl in *; [|done].
    destruct (id =? length (as_reg A)); [|done]. by apply (shadow_t_same A).
Qed.

(** ** Histories *)
Definition op_preT (A : astate) (o : op) : Prop :=
  op_pre A o /\ (touches_rr o = false \/ exists k r z, o = ORegister k r z) /\
  match o with OSetListener _ => False | _ => True end.

Fixpoint pre_runT (w : world) (A : astate) (ops : list op) : Prop :=
  match ops with
  | [] => True
  | o :: r => op_preT A o /\ pre_runT (fst (fst (step w o))) (astep A o (snd (fst (step w o)))) r
  end.

(** Each operation's events are delivered in the world after that operation (removal events
    before it: they only delete). *)
Fixpoint replay_run (w : world) (S : list (Entity * (N * Entity))) (ops : list op) : list (Entity * (N * Entity)) :=
  match ops with
  | [] => S
  | o :: r => replay_run (fst (fst (step w o))) (sht_replay (fst (fst (step w o))) S (snd (step w o))) r
  end.

Theorem replay_t_history ops : forall w A S,
  R w A -> w_listener w = Some lall -> shadow_t_ok A S -> pre_runT w A ops ->
  shadow_t_ok (snd (arun w A ops)) (replay_run w S ops) /\ R (run w ops) (snd (arun w A ops)).
Proof.
  induction ops as [|o r IH]; intros w A S HR Hlis HS Hp; simpl; [done|].
  destruct Hp as [(Hop & Ht & Hn) Hp]. destruct (replay_t_step w A S o HR Hlis Hop Ht Hn HS) as [HS' Hl'].
  pose proof (rel_step w A o HR Hop) as HR'. by apply IH.
Qed.

Corollary replay_t_rebuilds_world ops w A S :
  R w A -> w_listener w = Some lall -> shadow_t_ok A S -> pre_runT w A ops ->
  let w' := run w ops in let A' := snd (arun w A ops) in let S' := replay_run w S ops in
  (forall e, e ∈ as_live A' -> exists m t, assoc_get e S' = Some (m, t) /\ ent_mask w' e = Some m /\ ent_target w' e = Some t) /\
  (forall e, e ∉ as_live A' -> assoc_get e S' = None).
Proof.
  intros HR Hlis HS Hp. cbv zeta. destruct (replay_t_history ops w A S HR Hlis HS Hp) as [HS' HR'].
  split; intros e He; rewrite (HS' e).
  - rewrite decide_True by done. destruct (R_live_views _ _ e HR' He) as (a & Ha & Hm & Ht). rewrite Ha. simpl. by eexists _, _.
  - by rewrite decide_False.
Qed.

(** Non-vacuity: creations with and without target, exchanges, a re-target, a removal of a target. *)
Definition demo_replay_t_ops : list op :=
  [ONew [0]; ONew [0; 2]; OBNew (mkB [1; 2] None (Some 1)) (Some (mkE 1 0)); OExchange (mkE 1 0) [2] [0];
   ORelExchange (mkE 2 0) [1] [] 1 (mkE 1 0); ORelSet (mkE 3 0) 1 (mkE 2 0); OSet (mkE 3 0) 2 7%Z;
   OExchange (mkE 2 0) [] [1]; ORemoveEntity (mkE 1 0); ONew [2]].
Example demo_replay_t_pre :
  let w := run (world_init 2 2 64) demo_replay_setup in
  let A := snd (arun (world_init 2 2 64) a_init demo_replay_setup) in
  w_listener w = Some lall /\ pre_runT w A demo_replay_t_ops.
Proof.
  vm_compute. repeat split; try (repeat (apply List.Forall_cons; [simpl; lia|]); apply List.Forall_nil); try reflexivity;
  try (by left); repeat (first [apply elem_of_list_here | apply elem_of_list_further]).
Qed.
Example demo_replay_t_result :
  let w := run (world_init 2 2 64) demo_replay_setup in
  replay_run w [] demo_replay_t_ops =
    [(mkE 1 1, (4%N, ezero)); (mkE 2 0, (5%N, ezero)); (mkE 3 0, (6%N, mkE 2 0))].
Proof. vm_compute. done. Qed.
