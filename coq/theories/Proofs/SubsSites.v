(** * C12 at every emission site: a restricted listener receives exactly the events an
      all-subscribing listener receives that the documented rule selects - same content,
      same order. *)
From Arche Require Import Model.Base Model.Pool Model.Filter Model.World Model.Ops Proofs.Subs.

Definition lall : lstn := LCallback (mkL 63 None).

(** The documented rule, applied to an event. *)
Definition selects (l : lcfg) (ev : event) : bool :=
  gate l (ev_types ev) (Some (ev_added ev)) (Some (ev_removed ev)) (ev_oldrel ev) (ev_newrel ev).

Definition with_listener (w : world) (l : lstn) : world := w <| w_listener := Some l |>.

Lemma subscription_lt a b c d e f : N.land 63 (subscription a b c d e f) = subscription a b c d e f.
Proof. by destruct a, b, c, d, e, f. Qed.

(** A nil mask and an empty mask select the same. *)
Lemma gate_none_zero_added l bits r o n : gate l bits None r o n = gate l bits (Some 0%N) r o n.
Proof.
  unfold gate, subscribes. destruct (N.land (lc_subs l) bits =? 0)%N; [done|]. simpl.
  destruct (lc_comps l) as [s|]; [|done]. unfold contains_any. by rewrite N.land_0_r.
Qed.
Lemma gate_none_zero_removed l bits a o n : gate l bits a None o n = gate l bits a (Some 0%N) o n.
Proof.
  unfold gate, subscribes. destruct (N.land (lc_subs l) bits =? 0)%N; [done|]. simpl.
  destruct (lc_comps l) as [s|]; [|done]. unfold contains_any. by rewrite N.land_0_r.
Qed.

Lemma recipients_callback l bits a r o n ea er :
  recipients (LCallback l) bits a r o n ea er = if gate l bits a r o n then [0] else [].
Proof. done. Qed.

Lemma gate_all bits a r o n : N.land 63 bits = bits -> gate (mkL 63 None) bits a r o n = negb (bits =? 0)%N.
Proof. intros Hb. unfold gate, subscribes, lc_subs, lc_comps. rewrite Hb. by destruct (bits =? 0)%N. Qed.

Lemma gate_zero l a r o n : gate l 0 a r o n = false.
Proof. unfold gate. by rewrite N.land_0_r. Qed.

Lemma site_generic l bits a r o n ea er (f : nat -> event) :
  N.land 63 bits = bits -> (forall to, selects l (f to) = gate l bits a r o n) ->
  map f (recipients (LCallback l) bits a r o n ea er) =
  filter (fun ev => selects l ev = true) (map f (recipients lall bits a r o n ea er)).
Proof.
  intros Hb Hsel. unfold lall. rewrite !recipients_callback, (gate_all bits) by done.
  destruct (bits =? 0)%N eqn:Hz.
  - apply N.eqb_eq in Hz. subst bits. by rewrite gate_zero.
  - simpl. rewrite filter_cons, filter_nil. destruct (decide (selects l (f 0) = true)) as [Hd|Hd]; rewrite Hsel in Hd.
    + by rewrite Hd.
    + destruct (gate l bits a r o n); done.
Qed.

Local Opaque recipients gate.

(** Creation. *)
Theorem create_site w e mask ids newrel l :
  ev_create (with_listener w (LCallback l)) e mask ids newrel =
  filter (fun ev => selects l ev = true) (ev_create (with_listener w lall) e mask ids newrel).
Proof.
  unfold ev_create, with_listener. simpl. apply site_generic; [apply subscription_lt|].
  intros to. unfold selects. simpl. by rewrite <- gate_none_zero_removed.
Qed.

(** Removal. *)
Theorem remove_site w e nd target l :
  ev_remove (with_listener w (LCallback l)) e nd target =
  filter (fun ev => selects l ev = true) (ev_remove (with_listener w lall) e nd target).
Proof.
  unfold ev_remove, with_listener. simpl. apply site_generic; [apply subscription_lt|].
  intros to. unfold selects. simpl. by rewrite <- gate_none_zero_added.
Qed.

(** Add / Remove / Exchange. *)
Theorem exchange_site w e x add rem l :
  ev_exchange (with_listener w (LCallback l)) e x add rem =
  filter (fun ev => selects l ev = true) (ev_exchange (with_listener w lall) e x add rem).
Proof.
  unfold ev_exchange, with_listener. simpl. destruct (w_tables w !! x_new x) as [t|]; [|done].
  destruct (w_nodes w !! t_node t) as [nd|]; [|done]. apply site_generic; [apply subscription_lt|]. done.
Qed.

(** Relations.Set. *)
Theorem target_site w e rid oldtarget l :
  ev_target (with_listener w (LCallback l)) e rid oldtarget =
  filter (fun ev => selects l ev = true) (ev_target (with_listener w lall) e rid oldtarget).
Proof.
  unfold ev_target, with_listener. simpl. apply site_generic; [done|].
  intros to. unfold selects. simpl. by rewrite <- gate_none_zero_added, <- gate_none_zero_removed.
Qed.

(** Batch operations: one event per entity of every range, in range order. *)
Lemma filter_flat_map {A B} (P : B -> Prop) `{forall x, Decision (P x)} (g : A -> list B) l :
  filter P (flat_map g l) = flat_map (fun x => filter P (g x)) l.
Proof. induction l as [|x r IH]; simpl; [done|]. by rewrite filter_app, IH. Qed.

Theorem batch_site w segs added_ids removed_ids l :
  ev_batch (with_listener w (LCallback l)) segs added_ids removed_ids =
  filter (fun ev => selects l ev = true) (ev_batch (with_listener w lall) segs added_ids removed_ids).
Proof.
  unfold ev_batch, with_listener. simpl. rewrite filter_flat_map. apply flat_map_ext. intros s.
  destruct (w_tables w !! s_tid s) as [t|]; [|done]. destruct (w_nodes w !! t_node t) as [nd|]; [|done].
  destruct (s_old s) as [[[om orel] otg]|]; rewrite filter_flat_map; apply flat_map_ext; intros e;
    (apply site_generic; [apply subscription_lt|done]).
Qed.
