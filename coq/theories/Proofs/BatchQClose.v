(** * C08 / C09: a Q variant followed by Close is the plain variant.

    Batch.ExchangeQ / AddQ / RemoveQ (Relations.ExchangeBatchQ) and Batch.SetRelationQ do the
    batch, lock the world and return a query; closing that query releases the lock and emits
    the batch's events.  [exchange_q_then_close], [set_relation_q_then_close]: after the
    Close the world is the world of the plain variant except for the lock bookkeeping (again
    unlocked) and the closed query record; the events of the Close are exactly the events of
    the plain call; hence it refines the same abstract store and keeps the cache invariant. *)
From Arche Require Import Model.Base Model.Pool Model.Filter Model.World Model.Ops
  Proofs.Tables Proofs.Bits Proofs.Store Proofs.Graph Proofs.Atomic Proofs.WorldInv
  Proofs.Frame Proofs.StepFrame Proofs.RelGraph Proofs.RelWorld Proofs.RelRefine Proofs.QueryExact Proofs.CacheInv
  Proofs.BatchMove Proofs.BatchExchange Proofs.BatchSetRel.

Lemma lock_then_unlock tb l l1 b : locks_lock tb l = Some (l1, b) -> exists l2, locks_unlock l1 b = Some l2.
Proof.
  intros H. unfold locks_unlock.
  assert (Hb : bit (l_mask l1) b = true).
  { unfold locks_lock in H. destruct (l_avail l =? 0).
    - destruct (tb <=? l_len l); [done|]. injection H as <- <-. simpl. apply bit_setb_same.
    - destruct (l_bits l !! l_next l); [|done]. injection H as <- <-. simpl. apply bit_setb_same. }
  rewrite Hb. by eexists.
Qed.

(** [R] and [cache_ok] do not look at the lock pool's free list or at the query records. *)
Lemma R_locks_queries w A l qs :
  R w A -> locks_locked l = false -> R (w <| w_locks := l |> <| w_queries := qs |>) A.
Proof.
  intros HR Hl. pose proof HR as [[[S G] P L] Hr Hu He]. split.
  - split; [split|done|done].
    + destruct S as [S1 S2 S3 S4]. split; [exact S1|exact S2|exact S3|exact S4].
    + eapply (rgraph_ok_same_nodes w); try done. intros tid t Ht. exists t. done.
  - done.
  - done.
  - intros e Hin. destruct (He e Hin) as (a & Ha & V). exists a. split; [done|]. by apply (views_keep w).
Qed.

(** Opening a query over [segs] on an unlocked world and closing it again. *)
Lemma open_then_close w1 segs batch w2 h :
  is_locked w1 = false -> open_query w1 segs batch = Some (w2, h) ->
  exists l3 q,
    let w3 := w1 <| w_locks := l3 |> <| w_queries := w_queries w1 ++ [q <| q_closed := true |>] |> in
    locks_locked l3 = false /\ q_segs q = segs /\ q_batch q = batch /\ h = length (w_queries w1) /\
    step w2 (OQClose h) = (w3, Ok VUnit, match batch with Some (a, r) => ev_batch w3 segs a r | None => [] end).
Proof.
  intros Hu H. unfold open_query in H. destruct (locks_lock (w_tb w1) (w_locks w1)) as [[l b]|] eqn:Hl; [|done].
  injection H as <- <-.
  destruct (lock_then_unlock _ _ _ _ Hl) as [l3 Hul].
  exists l3, (mkQ segs batch 0 None 0 0 b false). cbv zeta.
  split. { pose proof (lock_unlock_unlocked (w_tb w1) (w_locks w1) l b Hu Hl) as X. by rewrite Hul in X. }
  split; [done|]. split; [done|]. split; [done|].
  destruct w1. unfold set in *. simpl in *. unfold with_query. simpl.
  rewrite lookup_app_r by done. rewrite Nat.sub_diag. simpl.
  unfold close_query. simpl. rewrite Hul. unfold set. simpl.
  rewrite insert_app_r_alt by done. rewrite Nat.sub_diag. simpl. by destruct batch as [[a r]|].
Qed.

Lemma ev_batch_indep w w' (X : seg -> bool) segs a r :
  w_listener w' = w_listener w -> w_tables w' = w_tables w -> w_nodes w' = w_nodes w -> is_locked w' = is_locked w ->
  ev_batch w' (map (fun s => mkSeg (s_tid s) (s_start s) (s_end s) (X s) (s_old s)) segs) a r = ev_batch w segs a r.
Proof.
  intros H1 H2 H3 H4. unfold ev_batch. rewrite H1, H2, H3, H4. destruct (w_listener w); [|done].
  induction segs as [|s rest IH]; [done|]. simpl. by rewrite IH.
Qed.

Theorem exchange_q_then_close w A f add rem rel w2 h evs2 :
  R w A -> cache_ok w -> Forall (fun id => id < length (as_reg A)) add -> (add <> [] \/ rem <> []) ->
  step w (OBatchExchange true (FPlain f) add rem rel) = (w2, Ok (VNat h), evs2) ->
  exists w' n evs' w3,
    step w (OBatchExchange false (FPlain f) add rem rel) = (w', Ok (VNat n), evs') /\
    evs2 = [] /\ step w2 (OQClose h) = (w3, Ok VUnit, evs') /\
    R w3 (a_map A (table_ents w (World.get_tables w f)) (fun a => a_exchange (as_reg A) a add rem rel)) /\ cache_ok w3 /\
    w_tables w3 = w_tables w' /\ w_index w3 = w_index w' /\ w_pool w3 = w_pool w' /\ w_nodes w3 = w_nodes w' /\
    is_locked w3 = false.
Proof.
  intros HR C Hadd Hne H. simpl in H. unfold op_batch_exchange_q in H.
  destruct (exchange_batch_nn w (FPlain f) add rem rel) as [[[[w1 n] segs]|]|[]] eqn:Hb; simpl in H; try done.
  destruct (open_query w1 _ _) as [[w2' h']|] eqn:Hq; [|done]. injection H as <- <- <-.
  assert (Hplain : op_batch_exchange w (FPlain f) add rem rel = (w1, Ok (VNat n), ev_batch w1 segs add rem))
    by (unfold op_batch_exchange; by rewrite Hb).
  destruct (batch_exchange_refines w A f add rem rel w1 n _ HR C Hadd Hne Hplain) as (_ & _ & _ & HR1 & C1).
  pose proof (r_unlocked _ _ HR1) as Hu1.
  destruct (open_then_close w1 _ _ w2' h' Hu1 Hq) as (l3 & q & Hl3 & Hqs & Hqb & Hh & Hclose). cbv zeta in Hclose.
  eexists w1, n, _, _. split; [simpl; exact Hplain|]. split; [done|].
  split.
  { rewrite Hclose. f_equal. apply ev_batch_indep; try done. unfold is_locked. simpl. by rewrite Hl3. }
  split; [by apply R_locks_queries|]. split; [exact C1|]. repeat (split; [done|]). unfold is_locked. simpl. exact Hl3.
Qed.

Theorem set_relation_q_then_close w A f rid T w2 h evs2 :
  R w A -> cache_ok w ->
  step w (OBatchSetRel true (FPlain f) rid T) = (w2, Ok (VNat h), evs2) ->
  exists w' n evs' w3,
    step w (OBatchSetRel false (FPlain f) rid T) = (w', Ok (VNat n), evs') /\
    evs2 = [] /\ step w2 (OQClose h) = (w3, Ok VUnit, evs') /\
    R w3 (a_map A (table_ents w (World.get_tables w f)) (fun a => mkA (a_mask a) T (a_vals a))) /\ cache_ok w3 /\
    w_tables w3 = w_tables w' /\ w_index w3 = w_index w' /\ w_pool w3 = w_pool w' /\ w_nodes w3 = w_nodes w' /\
    is_locked w3 = false.
Proof.
  intros HR C H. simpl in H. unfold op_batch_set_relation_q in H.
  destruct (set_relation_batch_nn w (FPlain f) rid T) as [[[[w1 n] segs]|]|[]] eqn:Hb; simpl in H; try done.
  destruct (open_query w1 _ _) as [[w2' h']|] eqn:Hq; [|done]. injection H as <- <- <-.
  assert (Hplain : op_batch_set_relation w (FPlain f) rid T = (w1, Ok (VNat n), ev_batch w1 segs [] []))
    by (unfold op_batch_set_relation; by rewrite Hb).
  destruct (batch_set_relation_refines w A f rid T w1 n _ HR C Hplain) as (_ & _ & _ & HR1 & C1).
  pose proof (r_unlocked _ _ HR1) as Hu1.
  destruct (open_then_close w1 _ _ w2' h' Hu1 Hq) as (l3 & q & Hl3 & Hqs & Hqb & Hh & Hclose). cbv zeta in Hclose.
  eexists w1, n, _, _. split; [simpl; exact Hplain|]. split; [done|].
  split.
  { rewrite Hclose. f_equal. apply ev_batch_indep; try done. unfold is_locked. simpl. by rewrite Hl3. }
  split; [by apply R_locks_queries|]. split; [exact C1|]. repeat (split; [done|]). unfold is_locked. simpl. exact Hl3.
Qed.

(** Non-vacuity: AddQ over two tables, then Close: the tables, index and pool of the plain Add,
    the events of the plain Add delivered at the Close. *)
Example demo_q_close :
  let w := run (world_init 2 2 64) (demo_batch_ops ++ [OSetListener (Some (LCallback (mkL 63 None)))]) in
  let rq := step w (OBatchExchange true (FPlain (FAll 1)) [2] [] None) in
  let rc := step (fst (fst rq)) (OQClose 0) in
  let rp := step w (OBatchExchange false (FPlain (FAll 1)) [2] [] None) in
  snd (fst rq) = Ok (VNat 0) /\ snd rq = [] /\ snd (fst rc) = Ok VUnit /\
  snd rc = snd rp /\ length (snd rp) = 3 /\
  w_tables (fst (fst rc)) = w_tables (fst (fst rp)) /\ w_index (fst (fst rc)) = w_index (fst (fst rp)) /\
  is_locked (fst (fst rq)) = true /\ is_locked (fst (fst rc)) = false.
Proof. vm_compute. done. Qed.
