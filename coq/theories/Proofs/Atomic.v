(** * C10: a panicking operation emits no event and returns the world it was given - up to
      the empty graph nodes (and empty table) an unfinished [findOrCreateArchetype] leaves
      behind in the creation and exchange operations ([ghost_of], characterised in
      Proofs/Ghost.v: no entity, value, handle, lock or selection changes). *)
From Arche Require Import Model.Base Model.Pool Model.Filter Model.World Model.Ops.

Ltac break_match :=
  match goal with
  | |- context [match ?x with _ => _ end] => destruct x eqn:?
  | |- context [if ?x then _ else _] => destruct x eqn:?
  end.

Ltac panic_leaf := intros; simplify_eq; try done.

Lemma close_query_panic w h q w' evs : close_query w h q = (w', Panic, evs) -> w' = w /\ evs = [].
Proof. unfold close_query. destruct (locks_unlock _ _); [done|]. by intros [= <- <-]. Qed.

Lemma with_query_panic w h k w' evs :
  (forall q w' evs, k q = (w', Panic, evs) -> w' = w /\ evs = []) ->
  with_query w h k = (w', Panic, evs) -> w' = w /\ evs = [].
Proof.
  intros Hk. unfold with_query. destruct (w_queries w !! h) as [q|]; [|by intros [= <- <-]].
  destruct (q_closed q); [by intros [= <- <-]|]. apply Hk.
Qed.

Lemma batch_result_panic w r k w' evs :
  (forall w1 n segs w' evs, k w1 n segs = (w', Panic, evs) -> False) ->
  batch_result w r k = (w', Panic, evs) -> w' = w /\ evs = [].
Proof.
  intros Hk. unfold batch_result. destruct r as [[[[w1 n] segs]|]|[]]; try (by intros [= <- <-]).
  intros H. exfalso. by eapply Hk.
Qed.

Lemma op_new_panic w ids cs w' evs : op_new w ids cs = (w', Panic, evs) -> w' = w /\ evs = [].
Proof.
  unfold op_new. destruct (is_locked w); [by intros [= <- <-]|].
  destruct (match ids with [] => _ | _ => _ end) as [[w1 tid]|]; [|by intros [= <- <-]].
  destruct (create_entity w1 tid). destruct (table_mask_rel _ _). done.
Qed.

Lemma op_new_target_panic w rid t ids cs w' evs : op_new_target w rid t ids cs = (w', Panic, evs) -> w' = w /\ evs = [].
Proof.
  unfold op_new_target. destruct (is_locked w); [by intros [= <- <-]|]. destruct (negb _); [by intros [= <- <-]|].
  destruct (match ids with [] => _ | _ => _ end) as [[w1 tid]|]; [|by intros [= <- <-]].
  destruct (negb _); [by intros [= <- <-]|].
  destruct (create_entity w1 tid). destruct (table_mask_rel _ _). done.
Qed.

Lemma op_exchange_panic w e add rem rel cs w' evs : op_exchange w e add rem rel cs = (w', Panic, evs) -> w' = w /\ evs = [].
Proof. unfold op_exchange. destruct (exchange_nn w e add rem rel) as [[w1 [x|]]|]; try done. by intros [= <- <-]. Qed.

(** Every [Panic] outcome of the operation proper comes with the unchanged world and no event. *)
Theorem panic_atomic0 w o w' evs : step0 w o = (w', Panic, evs) -> w' = w /\ evs = [].
Proof.
  destruct o; simpl.
  - apply op_new_panic.
  - destruct cs; apply op_new_panic.
  - unfold op_builder_new. destruct target; [destruct (b_rel b); [apply op_new_target_panic|by intros [= <- <-]]|apply op_new_panic].
  - unfold op_new_batch. destruct (new_entities_nn w count b target) as [[[[w1 tid] start] es]|]; [|by intros [= <- <-]].
    by destruct (table_mask_rel _ _).
  - unfold op_new_batch_q. destruct (new_entities_nn w count b target) as [[[[w1 tid] start] es]|]; [|by intros [= <- <-]].
    by destruct (open_query _ _ _) as [[? ?]|].
  - unfold op_builder_add. destruct target, (b_rel b); try (by intros [= <- <-]);
      destruct (b_vals b); unfold op_assign; try destruct (b_comps b); try (by intros [= <- <-]); apply op_exchange_panic.
  - unfold op_remove_entity. destruct (is_locked w); [by intros [= <- <-]|].
    destruct (ent_table w e) as [[[[src row] st] sn]|]; [|by intros [= <- <-]]. by destruct (tbl_remove _ _ _).
  - destruct (chk_alive w e); [done|by intros [= <- <-]].
  - apply op_exchange_panic.
  - unfold op_assign. destruct cs; [by intros [= <- <-]|apply op_exchange_panic].
  - destruct (set_comp w e id v); [done|by intros [= <- <-]].
  - destruct (get_comp w e id); [done|by intros [= <- <-]].
  - destruct (ent_table w e) as [[[[? ?] ?] ?]|]; [done|by intros [= <- <-]].
  - destruct (ent_table w e) as [[[[? ?] ?] ?]|]; [done|by intros [= <- <-]].
  - destruct (ent_table w e) as [[[[? ?] ?] ?]|]; [destruct (view_of _ _ _); [done|]|]; by intros [= <- <-].
  - destruct (ent_table w e) as [[[[? ?] ?] ?]|]; [destruct (check_relation _ _ _); [done|]|]; by intros [= <- <-].
  - unfold op_set_relation. destruct (is_locked w); [by intros [= <- <-]|].
    destruct (chk_alive w e) as [[]|]; try (by intros [= <- <-]). destruct (negb _); [by intros [= <- <-]|].
    destruct (ent_table w e) as [[[[src row] st] sn]|]; [|by intros [= <- <-]].
    destruct (negb _); [by intros [= <- <-]|]. destruct (ent_eqb _ _); [done|].
    by destruct (match node_get_table sn t with Some tid => _ | None => _ end).
  - apply op_exchange_panic.
  - destruct q; [unfold op_batch_exchange_q|unfold op_batch_exchange]; apply batch_result_panic; intros w1 n segs w2 evs2; [by destruct (open_query _ _ _) as [[? ?]|]|done].
  - destruct q; [unfold op_batch_set_relation_q|unfold op_batch_set_relation]; apply batch_result_panic; intros w1 n segs w2 evs2; [by destruct (open_query _ _ _) as [[? ?]|]|done].
  - unfold op_remove_entities. destruct (is_locked w); [by intros [= <- <-]|].
    destruct (arg_tables w a); [|by intros [= <- <-]]. destruct (locks_lock _ _) as [[lk bt]|]; [|by intros [= <- <-]].
    by destruct (foldl _ _ _).
  - unfold op_query. destruct (match a with FPlain f => _ | FCached id => _ end); [|by intros [= <- <-]].
    destruct (open_query _ _ _) as [[? ?]|]; [done|by intros [= <- <-]].
  - unfold op_q_next. apply with_query_panic. intros q w2 evs2. destruct (_ <? _); [done|]. destruct (q_advance q); [done|].
    intros H. (* close_query on exhaustion: its panic (unbalanced unlock) also returns w *)
    unfold close_query in H. destruct (locks_unlock _ _); [done|]. by injection H as <- <-.
  - unfold op_q_step. destruct (_ <=? _)%Z; [by intros [= <- <-]|]. apply with_query_panic. intros q w2 evs2.
    destruct (step_loop _ _ _) as [[q' []]|]; [done| |done].
    intros H. unfold close_query in H. destruct (locks_unlock _ _); [done|]. by injection H as <- <-.
  - apply with_query_panic. done.
  - destruct (_ <? _)%Z; [by intros [= <- <-]|]. apply with_query_panic. intros q w2 evs2. destruct (entity_at _ _ _); [done|by intros [= <- <-]].
  - apply with_query_panic. intros q w2 evs2. unfold close_query. destruct (locks_unlock _ _); [done|]. by intros [= <- <-].
  - apply with_query_panic. intros q w2 evs2. destruct (q_entity w q); [done|by intros [= <- <-]].
  - apply with_query_panic. intros q w2 evs2. destruct (q_cur q); [destruct (view_of _ _ _); [done|]|]; by intros [= <- <-].
  - apply with_query_panic. intros q w2 evs2. destruct (q_cur q); [|by intros [= <- <-]].
    destruct (check_relation _ _ _); [destruct (w_tables w !! n); [done|]|]; by intros [= <- <-].
  - by destruct (cache_register w f).
  - destruct (cache_unregister w id) as [[? ?]|]; [done|by intros [= <- <-]].
  - destruct (is_locked w); [by intros [= <- <-]|done].
  - done.
  - destruct (world_load w d); [done|by intros [= <- <-]].
  - destruct (register_comp w key isrel zs) as [[? ?]|]; [done|by intros [= <- <-]].
  - destruct (register_res w key) as [[? ?]|]; [done|by intros [= <- <-]].
  - destruct (w_res w !! id) as [[]|]; by intros [= <- <-].
  - destruct (w_res w !! id) as [[]|]; by intros [= <- <-].
  - destruct (w_res w !! id); [done|by intros [= <- <-]].
  - destruct (w_res w !! id); [done|by intros [= <- <-]].
  - done.
  - done.
  - done.
Qed.

(** [step] is [step0] unless [step0] panics; then the world is [ghost_of]. *)
Lemma with_ghost_same w r : (forall w' evs, r = (w', Panic, evs) -> w' = w) -> with_ghost w r = r.
Proof. intros H. destruct r as [[w' []] evs]; try done. simpl. by rewrite (H w' evs eq_refl). Qed.
Lemma step_eq w o : step w o = with_ghost (ghost_of w o) (step0 w o).
Proof.
  destruct o; try reflexivity;
    match goal with |- step w ?o = _ =>
      change (step0 w o = with_ghost w (step0 w o)); symmetry; apply with_ghost_same;
      intros w' evs H; exact (proj1 (panic_atomic0 w o w' evs H))
    end.
Qed.
Lemma step_cases w o :
  (step w o = step0 w o /\ snd (fst (step0 w o)) <> Panic) \/
  (step0 w o = (w, Panic, []) /\ step w o = (ghost_of w o, Panic, [])).
Proof.
  rewrite step_eq. unfold with_ghost. destruct (step0 w o) as [[w' out] evs] eqn:H. destruct out; try (left; by split).
  right. by destruct (panic_atomic0 w o w' evs H) as [-> ->].
Qed.

Lemma step_out_eq w o : snd (fst (step w o)) = snd (fst (step0 w o)).
Proof. rewrite step_eq. unfold with_ghost. by destruct (step0 w o) as [[w' []] evs]. Qed.
Lemma step_events w o : snd (step w o) = snd (step0 w o).
Proof. rewrite step_eq. unfold with_ghost. by destruct (step0 w o) as [[w' []] evs]. Qed.
Lemma step_not_panic w o : snd (fst (step0 w o)) <> Panic -> step w o = step0 w o.
Proof. rewrite step_eq. unfold with_ghost. by destruct (step0 w o) as [[w' []] evs]. Qed.
Lemma step_ok w o w' v evs : step w o = (w', Ok v, evs) <-> step0 w o = (w', Ok v, evs).
Proof. rewrite step_eq. unfold with_ghost. destruct (step0 w o) as [[w1 []] evs1]; split; intros H; try done. Qed.
Lemma step_panic0 w o : step0 w o = (w, Panic, []) -> step w o = (ghost_of w o, Panic, []).
Proof. rewrite step_eq. unfold with_ghost. by intros ->. Qed.

(** Every [Panic] outcome of [step] comes with no event and with the world [ghost_of w o]:
    [w] itself for every operation except the creation and exchange operations that panic
    inside or after [findOrCreateArchetype]. *)
Theorem panic_atomic w o w' evs : step w o = (w', Panic, evs) -> w' = ghost_of w o /\ evs = [].
Proof.
  destruct (step_cases w o) as [[Heq Hnp]|[H0 ->]]; [|by intros [= <- <-]].
  rewrite Heq. intros H. rewrite H in Hnp. done.
Qed.

Definition ghost_op (o : op) : bool :=
  match o with
  | ONew _ | ONewWith _ | OBNew _ _ | OBBatch _ _ _ | OBBatchQ _ _ _ | OBAdd _ _ _
  | OExchange _ _ _ | OAssign _ _ | ORelExchange _ _ _ _ _ => true
  | _ => false
  end.
Lemma ghost_of_other w o : ghost_op o = false -> ghost_of w o = w.
Proof. by destruct o. Qed.
Lemma step_other w o : ghost_op o = false -> step w o = step0 w o.
Proof.
  intros Hg. by destruct o.
Qed.
Lemma ghost_of_locked w o : is_locked w = true -> ghost_of w o = w.
Proof.
  intros HL. destruct o; try done; simpl.
  - unfold ghost_new. by rewrite HL.
  - unfold ghost_new. by rewrite HL.
  - unfold ghost_builder_new, ghost_new_target, ghost_new. rewrite HL. by destruct target, (b_rel b).
  - unfold ghost_new_batch. rewrite HL. by destruct target, (b_rel b).
  - unfold ghost_new_batch. rewrite HL. by destruct target, (b_rel b).
  - unfold ghost_builder_add, ghost_assign, exchange_ghost. rewrite HL. destruct target, (b_rel b), (b_vals b); try done; by destruct (b_comps b).
  - unfold exchange_ghost. by rewrite HL.
  - unfold ghost_assign, exchange_ghost. rewrite HL. by destruct cs.
  - unfold exchange_ghost. by rewrite HL.
Qed.
Corollary panic_atomic_other w o w' evs : ghost_op o = false -> step w o = (w', Panic, evs) -> w' = w /\ evs = [].
Proof. intros Hg H. destruct (panic_atomic w o w' evs H) as [-> ->]. by rewrite ghost_of_other. Qed.

Lemma step_panic_same w o : step0 w o = (w, Panic, []) -> ghost_of w o = w -> step w o = (w, Panic, []).
Proof. intros H G. rewrite (step_panic0 w o H). by rewrite G. Qed.

(** The documented illegal-argument classes panic (here: the single-entity ones that
    need no storage invariant); these panics come before any graph walk: the world is
    returned as it was. *)
Theorem illegal_dead_entity w e :
  chk_alive w e <> Some true ->
  (forall add rem, step w (OExchange e add rem) = (w, Panic, [])) /\
  step w (ORemoveEntity e) = (w, Panic, []) /\ (forall id, step w (OGet e id) = (w, Panic, [])) /\
  (forall id v, step w (OSet e id v) = (w, Panic, [])) /\ (forall id t, step w (ORelSet e id t) = (w, Panic, [])) /\
  step w (OMask e) = (w, Panic, []).
Proof.
  intros Hd. repeat split; intros; apply step_panic_same; try reflexivity; simpl.
  - unfold op_exchange, exchange_nn. destruct (is_locked w); [done|]. by destruct (chk_alive w e) as [[]|].
  - unfold exchange_ghost. destruct (is_locked w); [done|]. by destruct (chk_alive w e) as [[]|].
  - unfold op_remove_entity, ent_table. destruct (is_locked w); [done|]. by destruct (chk_alive w e) as [[]|].
  - unfold get_comp. by destruct (chk_alive w e) as [[]|].
  - unfold set_comp. by destruct (chk_alive w e) as [[]|].
  - unfold op_set_relation. destruct (is_locked w); [done|]. by destruct (chk_alive w e) as [[]|].
  - unfold ent_table. by destruct (chk_alive w e) as [[]|].
Qed.

Theorem illegal_dead_target w e rid t :
  target_ok w t = false ->
  step w (ORelSet e rid t) = (w, Panic, []) /\
  (forall add rem, step w (ORelExchange e add rem rid t) = (w, Panic, [])) /\
  (forall b, b_rel b <> None -> step w (OBNew b (Some t)) = (w, Panic, [])) /\
  (forall a q, step w (OBatchSetRel q a rid t) = (w, Panic, [])).
Proof.
  intros Ht. repeat split; intros; apply step_panic_same; try reflexivity; simpl.
  - unfold op_set_relation. destruct (is_locked w); [done|]. destruct (chk_alive w e) as [[]|]; try done. by rewrite Ht.
  - unfold op_exchange, exchange_nn. destruct (is_locked w); [done|]. destruct (chk_alive w e) as [[]|]; try done. by rewrite Ht.
  - unfold exchange_ghost. destruct (is_locked w); [done|]. destruct (chk_alive w e) as [[]|]; try done. by rewrite Ht.
  - unfold op_builder_new. destruct (b_rel b); [|done]. unfold op_new_target. destruct (is_locked w); [done|]. by rewrite Ht.
  - unfold ghost_builder_new. destruct (b_rel b); [|done]. unfold ghost_new_target. destruct (is_locked w); [done|]. by rewrite Ht.
  - destruct q; unfold op_batch_set_relation_q, op_batch_set_relation, set_relation_batch_nn;
      (destruct (is_locked w); [done|]); by rewrite Ht.
Qed.

(** Adding a present component, removing an absent one, or naming an id twice: the
    exchange mask does not exist, and the operation panics. *)
Theorem illegal_component_args w e add rem :
  is_locked w = false -> (add <> [] \/ rem <> []) ->
  (forall tid row t nd, ent_table w e = Some (tid, row, t, nd) -> exchange_mask (n_mask nd) add rem = None) ->
  step w (OExchange e add rem) = (w, Panic, []).
Proof.
  intros HL Hne Hbad. apply step_panic_same; simpl.
  - unfold op_exchange, exchange_nn, ent_table in *. rewrite HL.
    destruct (chk_alive w e) as [[]|]; try done. simpl.
    destruct add as [|a add']; [destruct rem as [|r rem']; [destruct Hne; done|]|];
      (destruct (loc w e) as [[tid row]|]; [|done]);
      (destruct (w_tables w !! tid) as [t|]; [|done]); (destruct (w_nodes w !! t_node t) as [nd|]; [|done]);
      by rewrite (Hbad tid row t nd eq_refl).
  - unfold exchange_ghost, ent_table in *. rewrite HL.
    destruct (chk_alive w e) as [[]|]; try done. simpl.
    destruct add as [|a add']; [destruct rem as [|r rem']; [done|]|];
      (destruct (loc w e) as [[tid row]|]; [|done]);
      (destruct (w_tables w !! tid) as [t|]; [|done]); (destruct (w_nodes w !! t_node t) as [nd|]; [|done]);
      by rewrite (Hbad tid row t nd eq_refl).
Qed.
