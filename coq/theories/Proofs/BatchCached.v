(** * C08 / C07: batch operations through a REGISTERED filter.

    The batch theorems of BatchExchange / BatchSetRel / BatchRemove are stated for the tables an
    uncached filter selects, in graph order.  A registered filter hands the batch its cached
    table list, whose ORDER is the order in which tables were created or re-used, not graph
    order.  The theorems below are the same statements for ANY filter argument: for a list [l]
    of tables without repetition that contains exactly the tables the filter [f] selects
    ([cache_ok] gives this for every cache entry), the call refines the abstract store with
    the single-entity update applied to exactly the matching entities ([table_ents w l], which
    for a cached filter is the same SET as for the uncached one). *)
From Arche Require Import Model.Base Model.Pool Model.Filter Model.World Model.Ops
  Proofs.Tables Proofs.Bits Proofs.Store Proofs.Graph Proofs.WorldInv Proofs.Cursor
  Proofs.Frame Proofs.StepFrame Proofs.Subs Proofs.PoolInv Proofs.Locks
  Proofs.RelGraph Proofs.RelWorld Proofs.RelRefine Proofs.QueryExact Proofs.CacheInv Proofs.BatchMove
  Proofs.BatchExchange Proofs.BatchSetRel Proofs.BatchRemove.

Theorem batch_exchange_refines_arg w A (fa : farg) l f add rem rel w' n evs :
  R w A -> cache_ok w -> arg_tables w fa = Some l -> NoDup l -> (forall tid, tid ∈ l <-> tid ∈ World.get_tables w f) -> Forall (fun id => id < length (as_reg A)) add -> (add <> [] \/ rem <> []) ->
  op_batch_exchange w fa add rem rel = (w', Ok (VNat n), evs) ->
  let L := table_ents w (l) in
  n = length L /\ NoDup L /\ (forall e, e ∈ L <-> (e ∈ as_live A /\ ent_matches w f e)) /\
  R w' (a_map A L (fun a => a_exchange (as_reg A) a add rem rel)) /\ cache_ok w'.
Proof.
  intros HR C Harg Hndl Hsel Hadd Hnonempty H L. pose proof HR as [K Hr Hu He].
  assert (HLnd : NoDup (table_ents w l)) by (by apply (table_ents_nodup w (as_live A) (r2_ok _ _ _ K))).
  assert (HLmem : forall e, e ∈ table_ents w l <-> (e ∈ as_live A /\ ent_matches w f e)).
  { apply (table_ents_exact w (as_live A) (r2_ok _ _ _ K)). intros tid t Ht Hne0. rewrite Hsel, get_tables_contrib.
    by apply (selected_exact w (as_live A) true f (r2_ok _ _ _ K)). }
  unfold op_batch_exchange, exchange_batch_nn in H. rewrite Hu, Harg in H.
  destruct (negb _) eqn:Htok; [done|].
  assert (Hbody : batch_result w
      (match xloop add rem rel w (nonempty_tables w (l)) [] false with
       | inl (Some (w1, segs)) => inl (Some (w1, total_len w (l), segs))
       | inl None => inr false
       | inr p => inr p
       end) (fun w1 n segs => ok w1 (VNat n) (ev_batch w1 segs add rem)) = (w', Ok (VNat n), evs)).
  { destruct add, rem; try exact H. destruct Hnonempty; done. }
  clear H. destruct (xloop add rem rel w (nonempty_tables w (l)) [] false) as [[[w1 segs]|]|p] eqn:Hloop;
    [|done|by destruct p].
  simpl in Hbody. injection Hbody as <- <- _.
  rewrite Hr in Hadd.
  assert (Hnd : NoDup (nonempty_tables w (l))).
  { unfold nonempty_tables. by apply NoDup_filter. }
  assert (Hne : forall tid, tid ∈ nonempty_tables w (l) -> tbl_ents w tid <> []).
  { intros tid Hin. unfold nonempty_tables in Hin. apply elem_of_list_filter in Hin as [Hs _].
    unfold table_skip, tbl_ents in *. destruct (w_tables w !! tid) as [t|]; [|done]. apply Nat.eqb_neq in Hs. unfold tlen in Hs. by destruct (t_ents t). }
  destruct (xloop_ok (as_live A) add rem rel Hnonempty _ w [] false w1 segs Hnd (r2_ok _ _ _ K) C Hadd Hne Hloop)
    as (K' & C' & F & Hp & Hil & HN & Hoth & _ & Hviews).
  split; [apply total_len_ents|]. split; [done|]. split; [done|]. split; [|done].
  split; unfold a_map; cbn [as_ents as_live as_issued as_reg].
  - destruct K as [_ [frees P] L0]. split; [done|exists frees; by rewrite Hp|by rewrite Hil, Hp].
  - by rewrite (fr_reg _ _ F).
  - unfold is_locked. by rewrite (fr_locks _ _ F).
  - intros e Hin. destruct (He e Hin) as (a & Ha & V).
    pose proof (assoc_get_a_map (as_ents A) L (fun a => a_exchange (as_reg A) a add rem rel) e) as Hag. cbn beta in Hag. rewrite Hag, Ha. simpl.
    destruct (decide (e ∈ L)) as [HL|HL].
    + exists (a_exchange (as_reg A) a add rem rel). split; [done|].
      apply table_ents_nonempty in HL as (tid & Htid & Hmem).
      apply (views_of_xviews w w1); try done; [by eapply Hviews|by rewrite Hr|apply F].
    + exists a. split; [done|].
      assert (Hc : ent_cells w1 e = ent_cells w e).
      { apply Hoth; [done|]. intros tid Htid Hmem. apply HL. apply table_ents_nonempty. by exists tid. }
      destruct (views_same w w1 (as_live A) e (wr_store _ _ (r2_ok _ _ _ K)) Hin HN Hc) as (V1 & V2 & _ & V4).
      apply (views_keep w); try done. apply F.
Qed.

Theorem batch_set_relation_refines_arg w A (fa : farg) l f rid T w' n evs :
  R w A -> cache_ok w -> arg_tables w fa = Some l -> NoDup l -> (forall tid, tid ∈ l <-> tid ∈ World.get_tables w f) ->
  op_batch_set_relation w fa rid T = (w', Ok (VNat n), evs) ->
  let L := table_ents w (l) in
  n = length L /\ NoDup L /\ (forall e, e ∈ L <-> (e ∈ as_live A /\ ent_matches w f e)) /\
  R w' (a_map A L (fun a => mkA (a_mask a) T (a_vals a))) /\ cache_ok w'.
Proof.
  intros HR C Harg Hndl Hsel H L. pose proof HR as [K Hr Hu He].
  assert (HLnd : NoDup (table_ents w l)) by (by apply (table_ents_nodup w (as_live A) (r2_ok _ _ _ K))).
  assert (HLmem : forall e, e ∈ table_ents w l <-> (e ∈ as_live A /\ ent_matches w f e)).
  { apply (table_ents_exact w (as_live A) (r2_ok _ _ _ K)). intros tid t Ht Hne0. rewrite Hsel, get_tables_contrib.
    by apply (selected_exact w (as_live A) true f (r2_ok _ _ _ K)). }
  unfold op_batch_set_relation, set_relation_batch_nn in H. rewrite Hu in H.
  destruct (negb (target_ok w T)); [done|]. rewrite Harg in H.
  change (batch_loop (fun w tid => set_relation_table w tid rid T)) with (srloop rid T) in H.
  destruct (srloop rid T w (nonempty_tables w (l)) [] false) as [[[w1 segs]|]|p] eqn:Hloop;
    [|done|by destruct p].
  simpl in H. injection H as <- <- _.
  assert (Hnd : NoDup (nonempty_tables w (l))).
  { unfold nonempty_tables. by apply NoDup_filter. }
  assert (Hne : forall tid, tid ∈ nonempty_tables w (l) -> tbl_ents w tid <> []).
  { intros tid Hin. unfold nonempty_tables in Hin. apply elem_of_list_filter in Hin as [Hs _].
    unfold table_skip, tbl_ents in *. destruct (w_tables w !! tid) as [t|]; [|done]. apply Nat.eqb_neq in Hs. unfold tlen in Hs. by destruct (t_ents t). }
  destruct (srloop_ok (as_live A) rid T _ w [] false w1 segs Hnd (r2_ok _ _ _ K) C Hne Hloop)
    as (K' & C' & F & Hp & Hil & HN & Hoth & Hviews).
  split; [apply total_len_ents|]. split; [done|]. split; [done|]. split; [|done].
  split; unfold a_map; cbn [as_ents as_live as_issued as_reg].
  - destruct K as [_ [frees P] L0]. split; [done|exists frees; by rewrite Hp|by rewrite Hil, Hp].
  - by rewrite (fr_reg _ _ F).
  - unfold is_locked. by rewrite (fr_locks _ _ F).
  - intros e Hin. destruct (He e Hin) as (a & Ha & V).
    pose proof (assoc_get_a_map (as_ents A) L (fun a => mkA (a_mask a) T (a_vals a)) e) as Hag. cbn beta in Hag. rewrite Hag, Ha. simpl.
    destruct (decide (e ∈ L)) as [HL|HL].
    + exists (mkA (a_mask a) T (a_vals a)). split; [done|].
      apply table_ents_nonempty in HL as (tid & Htid & Hmem).
      destruct (Hviews tid e Htid Hmem) as (V1 & V2 & V3 & V4 & V5).
      destruct V as [W1 W2 W3 W4 W5 W6]. split; simpl; try done.
      * congruence.
      * intros id Hid Hb. rewrite V4. apply W3; [by rewrite <- (fr_tb _ _ F)|done].
      * intros Hn. destruct V5 as [V5|V5]; [rewrite W2 in V5; injection V5 as <-; by apply W6|].
        rewrite (ent_rel_arel w (as_live A) e (a_mask a) (r2_ok _ _ _ K) Hin W1) in V5. rewrite <- Hr in V5. congruence.
    + exists a. split; [done|].
      assert (Hc : ent_cells w1 e = ent_cells w e).
      { apply Hoth; [done|]. intros tid Htid Hmem. apply HL. apply table_ents_nonempty. by exists tid. }
      destruct (views_same w w1 (as_live A) e (wr_store _ _ (r2_ok _ _ _ K)) Hin HN Hc) as (V1 & V2 & _ & V4).
      apply (views_keep w); try done. apply F.
Qed.

Theorem batch_remove_refines_arg w A (fa : farg) l f w' n evs :
  R w A -> cache_ok w -> arg_tables w fa = Some l -> NoDup l -> (forall tid, tid ∈ l <-> tid ∈ World.get_tables w f) ->
  (forall e, e ∈ table_ents w (l) -> (egen e < gen_max)%N) ->
  op_remove_entities w fa = (w', Ok (VNat n), evs) ->
  let L := table_ents w (l) in
  n = length L /\ NoDup L /\ (forall e, e ∈ L <-> (e ∈ as_live A /\ ent_matches w f e)) /\
  R w' (a_remove_all A L) /\ cache_ok w'.
Proof.
  intros HR C Harg Hndl Hsel Hgen H L. pose proof HR as [K Hr Hu He].
  assert (HLnd : NoDup (table_ents w l)) by (by apply (table_ents_nodup w (as_live A) (r2_ok _ _ _ K))).
  assert (HLmem : forall e, e ∈ table_ents w l <-> (e ∈ as_live A /\ ent_matches w f e)).
  { apply (table_ents_exact w (as_live A) (r2_ok _ _ _ K)). intros tid t Ht Hne0. rewrite Hsel, get_tables_contrib.
    by apply (selected_exact w (as_live A) true f (r2_ok _ _ _ K)). }
  unfold op_remove_entities in H. rewrite Hu, Harg in H.
  destruct (locks_lock (w_tb w) (w_locks w)) as [[lk b]|] eqn:Hlk; [|done].
  set (wl := w <| w_locks := lk |>) in *.
  assert (Kl : world_okr2 wl (as_live A) (as_issued A)).
  { destruct K as [[S G] P Li]. split; [split|done|done].
    - destruct S as [A1 A2 A3 A4]. by split.
    - eapply (rgraph_ok_same_nodes w); try done; intros tid t Ht; exists t; repeat split; try done; intros; congruence. }
  assert (Cl : cache_ok wl) by done.
  change (foldl _ (wl, []) (l)) with (foldl rm_tables_step (wl, []) (l)) in H.
  assert (Htabs : table_ents wl (l) = L) by done.
  assert (Hndt : NoDup (l)).
  { done. }
  destruct (rm_loop_ok (as_issued A) (l) wl (as_live A) [] Hndt Kl Cl) as (K1 & C1 & N1 & A1 & A2 & A3 & A4 & A5).
  { intros e Hin. apply Hgen. exact Hin. }
  rewrite Htabs in K1, A5.
  destruct (foldl rm_tables_step (wl, []) (l)) as [w1 evs1]. cbn [fst] in *.
  injection H as <- <- _.
  split; [by rewrite total_len_ents|]. split; [done|]. split; [done|].
  destruct (a_remove_all_fields L A) as (Hal & Hai & Har).
  set (wf := w1 <| w_locks := default (w_locks w1) (locks_unlock (w_locks w1) b) |>).
  assert (Kf : world_okr2 wf (filter (fun x => x ∉ L) (as_live A)) (as_issued A)).
  { destruct K1 as [[S G] P Li]. split; [split|done|done].
    - destruct S as [B1 B2 B3 B4]. by split.
    - eapply (rgraph_ok_same_nodes w1); try done; intros tid t Ht; exists t; repeat split; try done; intros; congruence. }
  split; [|done].
  split.
  - by rewrite Hal, Hai.
  - rewrite Har, Hr. simpl. by rewrite A1.
  - unfold is_locked. simpl. rewrite A3. simpl. unfold is_locked in Hu. by apply (lock_unlock_unlocked (w_tb w) (w_locks w)).
  - rewrite Hal, Har. intros e Hin. pose proof Hin as Hin'. apply elem_of_list_filter in Hin' as [Hn Hl].
    rewrite a_remove_all_get by done. destruct (He e Hl) as (a0 & Ha0 & V0). exists a0. split; [done|].
    assert (Hc : ent_cells wf e = ent_cells w e).
    { transitivity (ent_cells w1 e); [by apply ent_cells_same|]. rewrite (A5 e Hin). by apply ent_cells_same. }
    assert (HN : nodes_same w wf).
    { eapply nodes_same_trans; [apply (nodes_same_eq w wl); done|]. eapply nodes_same_trans; [exact N1|by apply nodes_same_eq]. }
    destruct (views_same w wf (as_live A) e (wr_store _ _ (r2_ok _ _ _ K)) Hl HN Hc) as (V1 & V2 & _ & V4).
    apply (views_keep w); try done; simpl; by rewrite A2.
Qed.

(** ** Registered filters *)
Lemma cache_get_mem w id ce : cache_get w id = Some ce -> ce ∈ w_cache w.
Proof.
  unfold cache_get. destruct (list_find _ _) as [[i x]|] eqn:E; [|done]. simpl. intros [= <-].
  apply list_find_Some in E as (H & _). by eapply elem_of_list_lookup_2.
Qed.

Lemma cached_arg_ok w id ce : cache_ok w -> cache_get w id = Some ce ->
  arg_tables w (FCached id) = Some (c_tables ce) /\ NoDup (c_tables ce) /\
  forall tid, tid ∈ c_tables ce <-> tid ∈ World.get_tables w (c_filter ce).
Proof.
  intros C Hget. destruct (C ce (cache_get_mem w id ce Hget)) as [Hnd Hmem].
  split; [|done]. simpl. by rewrite Hget.
Qed.

(** The abstract update depends on the SET of entities only. *)
Lemma a_map_ext_mem A L L' g : (forall e, e ∈ L <-> e ∈ L') -> a_map A L g = a_map A L' g.
Proof.
  intros H. unfold a_map. f_equal. apply map_ext. intros [e a]. simpl.
  destruct (decide (e ∈ L)) as [H1|H1], (decide (e ∈ L')) as [H2|H2]; try done; exfalso; [apply H2|apply H1]; by apply H.
Qed.

Lemma cached_same_entities w A ce :
  R w A -> cache_ok w -> ce ∈ w_cache w ->
  forall e, e ∈ table_ents w (c_tables ce) <-> e ∈ table_ents w (World.get_tables w (c_filter ce)).
Proof.
  intros [K _ _ _] C Hce e. destruct (C ce Hce) as [_ Hmem].
  destruct (get_tables_exact w (as_live A) (c_filter ce) (r2_ok _ _ _ K)) as [_ HL]. rewrite HL.
  apply (table_ents_exact w (as_live A) (r2_ok _ _ _ K)). intros tid t Ht Hne0. rewrite Hmem, get_tables_contrib.
  by apply (selected_exact w (as_live A) true (c_filter ce) (r2_ok _ _ _ K)).
Qed.

(** Batch.Add/Remove/Exchange through a registered filter: exactly what the unregistered
    filter would have done, as abstract stores (same entities, same update), whatever the
    order of the cached table list. *)
Theorem batch_exchange_cached w A id ce add rem rel w' n evs :
  R w A -> cache_ok w -> cache_get w id = Some ce ->
  Forall (fun id => id < length (as_reg A)) add -> (add <> [] \/ rem <> []) ->
  op_batch_exchange w (FCached id) add rem rel = (w', Ok (VNat n), evs) ->
  let L := table_ents w (World.get_tables w (c_filter ce)) in
  n = length L /\ (forall e, e ∈ L <-> (e ∈ as_live A /\ ent_matches w (c_filter ce) e)) /\
  R w' (a_map A L (fun a => a_exchange (as_reg A) a add rem rel)) /\ cache_ok w'.
Proof.
  intros HR C Hget Hadd Hne H L.
  destruct (cached_arg_ok w id ce C Hget) as (Harg & Hnd & Hsel).
  destruct (batch_exchange_refines_arg w A (FCached id) (c_tables ce) (c_filter ce) add rem rel w' n evs HR C Harg Hnd Hsel Hadd Hne H)
    as (Hn & HLnd & HLmem & HR' & C').
  pose proof (cached_same_entities w A ce HR C (cache_get_mem w id ce Hget)) as Hsame.
  pose proof HR as [K _ _ _].
  destruct (get_tables_exact w (as_live A) (c_filter ce) (r2_ok _ _ _ K)) as [HLnd' HLmem'].
  split.
  { rewrite Hn. apply Permutation_length. apply NoDup_Permutation; done. }
  split; [done|]. split; [|done].
  by rewrite <- (a_map_ext_mem A _ L _ Hsame).
Qed.

Theorem batch_set_relation_cached w A id ce rid T w' n evs :
  R w A -> cache_ok w -> cache_get w id = Some ce ->
  op_batch_set_relation w (FCached id) rid T = (w', Ok (VNat n), evs) ->
  let L := table_ents w (World.get_tables w (c_filter ce)) in
  n = length L /\ (forall e, e ∈ L <-> (e ∈ as_live A /\ ent_matches w (c_filter ce) e)) /\
  R w' (a_map A L (fun a => mkA (a_mask a) T (a_vals a))) /\ cache_ok w'.
Proof.
  intros HR C Hget H L.
  destruct (cached_arg_ok w id ce C Hget) as (Harg & Hnd & Hsel).
  destruct (batch_set_relation_refines_arg w A (FCached id) (c_tables ce) (c_filter ce) rid T w' n evs HR C Harg Hnd Hsel H)
    as (Hn & HLnd & HLmem & HR' & C').
  pose proof (cached_same_entities w A ce HR C (cache_get_mem w id ce Hget)) as Hsame.
  pose proof HR as [K _ _ _].
  destruct (get_tables_exact w (as_live A) (c_filter ce) (r2_ok _ _ _ K)) as [HLnd' HLmem'].
  split.
  { rewrite Hn. apply Permutation_length. apply NoDup_Permutation; done. }
  split; [done|]. split; [|done].
  by rewrite <- (a_map_ext_mem A _ L _ Hsame).
Qed.

(** Batch.RemoveEntities through a registered filter: the matching entities, all of them,
    are removed (in the order of the cached table list). *)
Theorem batch_remove_cached w A id ce w' n evs :
  R w A -> cache_ok w -> cache_get w id = Some ce ->
  (forall e, e ∈ table_ents w (c_tables ce) -> (egen e < gen_max)%N) ->
  op_remove_entities w (FCached id) = (w', Ok (VNat n), evs) ->
  let L := table_ents w (c_tables ce) in
  n = length L /\ NoDup L /\ (forall e, e ∈ L <-> (e ∈ as_live A /\ ent_matches w (c_filter ce) e)) /\
  R w' (a_remove_all A L) /\ cache_ok w'.
Proof.
  intros HR C Hget Hgen H.
  destruct (cached_arg_ok w id ce C Hget) as (Harg & Hnd & Hsel).
  exact (batch_remove_refines_arg w A (FCached id) (c_tables ce) (c_filter ce) w' n evs HR C Harg Hnd Hsel Hgen H).
Qed.

(** Non-vacuity: a world in which the cached table list of a registered filter ([2; 3; 4]:
    creation order) differs from the graph order of the unregistered filter ([2; 4; 3]: the
    second table of the relation node comes before the later node), and batch calls through
    the registered filter succeed on all three entities. *)
Definition demo_cached_ops : list op :=
  [ORegister 10 false false; ORegister 11 true false; ORegister 12 false false;
   ONew [2]; ONew [2]; OCacheRegister (FAll 1);
   OBNew (mkB [0; 1] None (Some 1)) (Some (mkE 1 0)); ONew [0; 2];
   OBNew (mkB [0; 1] None (Some 1)) (Some (mkE 2 0))].
Example demo_cached :
  let w := run (world_init 2 2 64) demo_cached_ops in
  map c_tables (w_cache w) = [[2; 3; 4]] /\ World.get_tables w (FAll 1) = [2; 4; 3] /\
  table_ents w [2; 3; 4] = [mkE 3 0; mkE 4 0; mkE 5 0] /\
  snd (fst (step w (OBatchExchange false (FCached 0) [] [0] None))) = Ok (VNat 3) /\
  snd (fst (step w (OBatchRemove (FCached 0)))) = Ok (VNat 3).
Proof. vm_compute. done. Qed.
