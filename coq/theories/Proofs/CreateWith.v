(** * C01: creation WITH component values (NewEntityWith, Builder.New of a value builder,
      with or without relation target) is the creation without values followed by one Set per
      given value - as worlds by definition of the model ([op_new_split]), and as abstract
      stores: the new world refines the abstract store in which the new entity has been added
      and each given value has been written ([new_with_refines], [new_target_with_refines]). *)
From Arche Require Import Model.Base Model.Pool Model.Filter Model.World Model.Ops
  Proofs.Tables Proofs.Bits Proofs.Store Proofs.Graph Proofs.Atomic Proofs.WorldInv
  Proofs.Frame Proofs.StepFrame Proofs.RelGraph Proofs.RelWorld Proofs.RelRefine Proofs.SpecDet.

Definition a_set1 (A : astate) (e : Entity) (id : nat) (v : Z) : astate := astep A (OSet e id v) (Ok VUnit).
Definition a_sets (A : astate) (e : Entity) (cs : list (nat * Z)) : astate :=
  foldl (fun A '(id, v) => a_set1 A e id v) A cs.

Lemma a_set1_fields A e id v :
  as_live (a_set1 A e id v) = as_live A /\ as_issued (a_set1 A e id v) = as_issued A /\ as_reg (a_set1 A e id v) = as_reg A /\
  forall a, assoc_get e (as_ents A) = Some a ->
    exists a', assoc_get e (as_ents (a_set1 A e id v)) = Some a' /\ a_mask a' = a_mask a.
Proof.
  unfold a_set1, astep, a_upd. destruct (assoc_get e (as_ents A)) as [a0|] eqn:Ha; simpl; [|done].
  repeat split; try done. intros a [= <-]. rewrite assoc_get_set, (proj2 (ent_eqb_eq e e) eq_refl).
  eexists. split; [done|]. by destruct (reg_zs (as_reg A) id).
Qed.

(** The model creates with values by creating and then writing: same handle, same outcome. *)
Lemma op_new_split w ids cs :
  match op_new w ids [] with
  | (w0, Ok (VEnt e), _) =>
      fst (fst (op_new w ids cs)) = set_comps w0 e cs /\ snd (fst (op_new w ids cs)) = Ok (VEnt e)
  | (_, out, _) => snd (fst (op_new w ids cs)) = out
  end.
Proof.
  unfold op_new. destruct (is_locked w); [done|].
  destruct (match ids with [] => _ | _ => _ end) as [[w1 tid]|]; [|done].
  destruct (create_entity w1 tid) as [w2 e]. simpl. by destruct (table_mask_rel w2 tid), (table_mask_rel (set_comps w2 e cs) tid).
Qed.

Lemma op_new_target_split w rid tg ids cs :
  match op_new_target w rid tg ids [] with
  | (w0, Ok (VEnt e), _) =>
      fst (fst (op_new_target w rid tg ids cs)) = set_comps w0 e cs /\ snd (fst (op_new_target w rid tg ids cs)) = Ok (VEnt e)
  | (_, out, _) => snd (fst (op_new_target w rid tg ids cs)) = out
  end.
Proof.
  unfold op_new_target. destruct (is_locked w); [done|]. destruct (negb (target_ok w tg)); [done|].
  destruct (match ids with [] => _ | _ => _ end) as [[w1 tid]|]; [|done].
  destruct (negb (check_relation w1 tid rid)); [done|].
  destruct (create_entity w1 tid) as [w2 e]. simpl.
  by destruct (table_mask_rel (set_tbit w2 tg) tid), (table_mask_rel (set_comps (set_tbit w2 tg) e cs) tid).
Qed.

(** Writing the given values one by one: every write succeeds and is the abstract write. *)
Lemma set_comps_refines cs : forall w A e a,
  R w A -> e ∈ as_issued A -> pool_alive_opt (w_pool w) e = Some true -> assoc_get e (as_ents A) = Some a ->
  Forall (fun p => bit (a_mask a) (fst p) = true /\ fst p < w_tb w) cs ->
  R (set_comps w e cs) (a_sets A e cs).
Proof.
  induction cs as [|[id v] r IH]; intros w A e a HR Hiss Hal Ha Hall; [done|].
  apply Forall_cons in Hall as [[Hbit Hid] Hall]. simpl in Hbit, Hid.
  unfold set_comps, a_sets. cbn [foldl]. fold (set_comps (default w (set_comp w e id v)) e r). fold (a_sets (a_set1 A e id v) e r).
  pose proof (set_outcome w A e id v HR Hiss Hid) as Hout. unfold spec_set in Hout. rewrite Hal, Ha, Hbit in Hout. simpl in Hout.
  destruct (set_comp w e id v) as [w1|] eqn:Hs; [|done]. simpl.
  pose proof (R_set w A e id v w1 HR Hiss Hs) as HR1. change (R w1 (a_set1 A e id v)) in HR1.
  destruct (a_set1_fields A e id v) as (F1 & F2 & F3 & F4). destruct (F4 a Ha) as (a' & Ha' & Hm').
  pose proof HR as [K _ _ _].
  assert (Hlive : e ∈ as_live A) by (eapply chk_alive_live_r; [exact K|done|done]).
  destruct (set_comp_spec w (as_live A) e id v w1 (wr_store _ _ (r2_ok _ _ _ K)) Hlive Hs) as (_ & _ & _ & Hp & _).
  pose proof (frame_set_comp w e id v w1 Hs) as F.
  apply (IH w1 (a_set1 A e id v) e a'); try done.
  - by rewrite F2.
  - by rewrite Hp.
  - rewrite Hm', (fr_tb _ _ F). done.
Qed.

(** The freshly created entity is alive, issued, and has the mask of its ids. *)
Lemma new_entity_alive w0 A0 e :
  R w0 A0 -> e ∈ as_live A0 -> e ∈ as_issued A0 -> pool_alive_opt (w_pool w0) e = Some true.
Proof.
  intros [K _ _ _] Hl Hi. destruct K as [_ [frees P] _].
  pose proof (proj2 (Proofs.PoolInv.pool_alive_iff (w_pool w0) (as_live A0) (as_issued A0) frees e P Hi) Hl) as H.
  unfold pool_alive in H. destruct (pool_alive_opt (w_pool w0) e) as [[]|]; done.
Qed.

Theorem new_with_refines w A ids cs w' e evs :
  R w A -> ids_reg A ids -> Forall (fun p => fst p ∈ ids) cs ->
  op_new w ids cs = (w', Ok (VEnt e), evs) ->
  R w' (a_sets (a_add A e (mkA (new_mask ids) ezero [])) e cs).
Proof.
  intros HR Hids Hcs H. pose proof (op_new_split w ids cs) as Hsp. rewrite H in Hsp. simpl in Hsp.
  destruct (op_new w ids []) as [[w0 out0] evs0] eqn:H0.
  destruct (op_new_shape _ _ _ _ _ _ H0) as [->|[e0 ->]]; [done|]. destruct Hsp as [-> [= ->]].
  pose proof (R_new w A ids w0 e0 evs0 HR Hids H0) as HR0.
  set (A0 := a_add A e0 (mkA (new_mask ids) ezero [])) in *.
  assert (Hl0 : e0 ∈ as_live A0) by apply elem_of_list_here.
  assert (Hi0 : e0 ∈ as_issued A0) by apply elem_of_list_here.
  apply (set_comps_refines cs w0 A0 e0 (mkA (new_mask ids) ezero [])); try done.
  - by apply (new_entity_alive w0 A0).
  - unfold A0, a_add. simpl. by rewrite assoc_get_set, (proj2 (ent_eqb_eq e0 e0) eq_refl).
  - eapply Forall_impl; [exact Hcs|]. intros [id v] Hin. simpl in *. split.
    + rewrite bit_new_mask. by apply bool_decide_eq_true_2.
    + pose proof HR0 as [[[_ G0] _ _] Hr0 _ _]. pose proof (rg_reglen _ G0) as Hle.
      unfold ids_reg in Hids. rewrite Forall_forall in Hids. specialize (Hids id Hin).
      assert (Hreg : as_reg A0 = as_reg A) by done. rewrite <- Hreg, Hr0 in Hids. lia.
Qed.

Theorem new_target_with_refines w A rid tg ids cs w' e evs :
  R w A -> ids_reg A ids -> Forall (fun p => fst p ∈ ids) cs ->
  op_new_target w rid tg ids cs = (w', Ok (VEnt e), evs) ->
  R w' (a_sets (a_add A e (mkA (new_mask ids) tg [])) e cs).
Proof.
  intros HR Hids Hcs H. pose proof (op_new_target_split w rid tg ids cs) as Hsp. rewrite H in Hsp. simpl in Hsp.
  destruct (op_new_target w rid tg ids []) as [[w0 out0] evs0] eqn:H0.
  destruct (op_new_target_shape _ _ _ _ _ _ _ _ H0) as [->|[e0 ->]]; [done|]. destruct Hsp as [-> [= ->]].
  pose proof (R_new_target w A rid tg ids w0 e0 evs0 HR Hids H0) as HR0.
  set (A0 := a_add A e0 (mkA (new_mask ids) tg [])) in *.
  assert (Hl0 : e0 ∈ as_live A0) by apply elem_of_list_here.
  assert (Hi0 : e0 ∈ as_issued A0) by apply elem_of_list_here.
  apply (set_comps_refines cs w0 A0 e0 (mkA (new_mask ids) tg [])); try done.
  - by apply (new_entity_alive w0 A0).
  - unfold A0, a_add. simpl. by rewrite assoc_get_set, (proj2 (ent_eqb_eq e0 e0) eq_refl).
  - eapply Forall_impl; [exact Hcs|]. intros [id v] Hin. simpl in *. split.
    + rewrite bit_new_mask. by apply bool_decide_eq_true_2.
    + pose proof HR0 as [[[_ G0] _ _] Hr0 _ _]. pose proof (rg_reglen _ G0) as Hle.
      unfold ids_reg in Hids. rewrite Forall_forall in Hids. specialize (Hids id Hin).
      assert (Hreg : as_reg A0 = as_reg A) by done. rewrite <- Hreg, Hr0 in Hids. lia.
Qed.

(** At the level of operations: NewEntityWith and Builder.New of a value builder. *)
Theorem step_new_with w A cs w' e evs :
  R w A -> ids_reg A (map fst cs) -> cs <> [] ->
  step w (ONewWith cs) = (w', Ok (VEnt e), evs) ->
  R w' (a_sets (a_add A e (mkA (new_mask (map fst cs)) ezero [])) e cs).
Proof.
  intros HR Hids Hne H. apply step_ok in H. simpl in H. destruct cs as [|c cs']; [done|].
  apply (new_with_refines w A (map fst (c :: cs')) (c :: cs') w' e evs HR Hids); [|done].
  apply Forall_forall. intros p Hp. by apply elem_of_list_fmap_1.
Qed.

Theorem step_builder_new_with w A b target w' e evs :
  R w A -> ids_reg A (b_ids b) -> (forall vs, b_vals b = Some vs -> length vs = length (b_ids b)) ->
  step w (OBNew b target) = (w', Ok (VEnt e), evs) ->
  R w' (a_sets (a_add A e (mkA (new_mask (b_ids b)) (default ezero target) [])) e (b_comps b)).
Proof.
  intros HR Hids Hlen H. apply step_ok in H. simpl in H. unfold op_builder_new in H.
  assert (Hcs : Forall (fun p => fst p ∈ b_ids b) (b_comps b)).
  { unfold b_comps. destruct (b_vals b) as [vs|]; [|constructor]. apply Forall_forall. intros [id v] Hin.
    simpl. apply elem_of_zip_l in Hin. done. }
  destruct target as [tg|]; simpl.
  - destruct (b_rel b) as [rid|]; [|done]. by apply (new_target_with_refines w A rid tg (b_ids b) (b_comps b) w' e evs).
  - by apply (new_with_refines w A (b_ids b) (b_comps b) w' e evs).
Qed.

(** Non-vacuity: creation with two values, then reading them back. *)
Example demo_new_with :
  let w := run (world_init 2 2 64) [ORegister 10 false false; ORegister 11 false false] in
  let r := step w (ONewWith [(0, 5%Z); (1, 7%Z)]) in
  snd (fst r) = Ok (VEnt (mkE 1 0)) /\
  snd (fst (step (fst (fst r)) (OGet (mkE 1 0) 0))) = Ok (VOptZ (Some 5%Z)) /\
  snd (fst (step (fst (fst r)) (OGet (mkE 1 0) 1))) = Ok (VOptZ (Some 7%Z)) /\
  assoc_get (mkE 1 0) (as_ents (a_sets (a_add a_init (mkE 1 0) (mkA (new_mask [0; 1]) ezero [])) (mkE 1 0) [(0, 5%Z); (1, 7%Z)])) =
    Some (mkA 3 ezero [(1, 7%Z); (0, 5%Z)]).
Proof. vm_compute. done. Qed.
