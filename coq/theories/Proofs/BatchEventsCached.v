(** * C11: the events of a batch exchange through ANY filter argument (registered filters
      included) are, entity by entity in the order of the argument's table list, the events of the
      single exchanges; with [BatchCached.cached_arg_ok] this covers registered filters. *)
From Arche Require Import Model.Base Model.Pool Model.Filter Model.World Model.Ops
  Proofs.Tables Proofs.Bits Proofs.Store Proofs.Graph Proofs.WorldInv Proofs.Cursor
  Proofs.Frame Proofs.StepFrame Proofs.Subs
  Proofs.RelGraph Proofs.RelWorld Proofs.RelRefine Proofs.QueryExact Proofs.CacheInv Proofs.BatchMove
  Proofs.PoolInv Proofs.BatchExchange Proofs.BatchSetRel Proofs.BatchRemove Proofs.EventsExact Proofs.BatchQ Proofs.BatchEvents Proofs.BatchCached.

Theorem batch_exchange_events_exact_arg w A (fa : farg) l f add rem rel w' n evs :
  R w A -> cache_ok w -> arg_tables w fa = Some l -> NoDup l -> (forall tid, tid ∈ l <-> tid ∈ World.get_tables w f) -> Forall (fun id => id < length (as_reg A)) add -> (add <> [] \/ rem <> []) ->
  w_listener w = Some lall ->
  op_batch_exchange w fa add rem rel = (w', Ok (VNat n), evs) ->
  evs = flat_map (ev_of w w' add rem) (table_ents w (l)).
Proof.
  intros HR C Harg Hndl Hsel Hadd Hnonempty Hlis H. pose proof HR as [K Hr Hu He].
  unfold op_batch_exchange in H.
  destruct (exchange_batch_nn w fa add rem rel) as [[[[w1 n1] segs]|]|[]] eqn:Hb; simpl in H; try done.
  injection H as <- _ <-.
  pose proof (frame_exchange_batch_nn _ _ _ _ _ _ _ _ Hb) as F.
  assert (Hloop : xloop add rem rel w (nonempty_tables w (l)) [] false = inl (Some (w1, segs))).
  { unfold exchange_batch_nn in Hb. rewrite Hu, Harg in Hb. destruct (negb _); [done|].
    assert (Hb' : match xloop add rem rel w (nonempty_tables w (l)) [] false with
                  | inl (Some (w1, segs)) => inl (Some (w1, total_len w (l), segs))
                  | inl None => inr false
                  | inr p => inr p
                  end = inl (Some (w1, n1, segs))).
    { destruct add, rem; try exact Hb. destruct Hnonempty; done. }
    destruct (xloop add rem rel w (nonempty_tables w (l)) [] false) as [[[w1' segs']|]|p]; try done.
    by injection Hb' as <- _ <-. }
  rewrite Hr in Hadd.
  assert (Hnd : NoDup (nonempty_tables w (l))).
  { unfold nonempty_tables. by apply NoDup_filter. }
  assert (Hne : forall tid, tid ∈ nonempty_tables w (l) -> tbl_ents w tid <> []).
  { intros tid Hin. unfold nonempty_tables in Hin. apply elem_of_list_filter in Hin as [Hs _].
    unfold table_skip, tbl_ents in *. destruct (w_tables w !! tid) as [t|]; [|done]. apply Nat.eqb_neq in Hs. unfold tlen in Hs. by destruct (t_ents t). }
  destruct (xloop_segs (as_live A) add rem rel Hnonempty _ w [] false w1 segs Hnd (r2_ok _ _ _ K) C Hadd Hne Hloop)
    as (new & Hsegs & Hflat & Hall & _). simpl in Hsegs. subst new.
  destruct (xloop_ok (as_live A) add rem rel Hnonempty _ w [] false w1 segs Hnd (r2_ok _ _ _ K) C Hadd Hne Hloop)
    as (K1 & _).
  rewrite <- (table_ents_nonempty_eq w (l)), <- Hflat, flat_map_flat_map.
  unfold ev_batch. rewrite (fr_listener _ _ F), Hlis.
  assert (Hul : is_locked w1 = false) by (unfold is_locked; by rewrite (fr_locks _ _ F)).
  clear Hflat Hb Hloop. induction Hall as [|s r (Hsk & Hlt & Hle & om & orl & ot & Hold & Hviews) _ IH]; [done|].
  cbn [flat_map]. rewrite IH. f_equal. clear IH.
  (* one segment *)
  unfold tbl_ents in Hle. destruct (w_tables w1 !! s_tid s) as [t|] eqn:Ht; [|simpl in Hle; lia].
  destruct (so_table _ _ (wr_store _ _ K1) (s_tid s) t Ht) as (nd & Hnd' & _). rewrite Hnd', Hold, Hul.
  assert (Hse : seg_ents w1 s = take (s_end s - s_start s) (drop (s_start s) (t_ents t))).
  { unfold seg_ents, tbl_ents. by rewrite Hsk, Ht. }
  rewrite <- Hse. 
  apply flat_map_ext_mem. intros e Hein.
  destruct (Hviews e Hein) as (Hlive & V1 & V2 & V3).
  (* where e sits in the final world *)
  rewrite Hse in Hein. apply elem_of_take in Hein as (i & Hi & _). rewrite lookup_drop in Hi.
  destruct (so_rows _ _ (wr_store _ _ K1) (s_tid s) t _ e Ht Hi) as [_ Hloc].
  destruct (views_of_row w1 (as_live A) e (s_tid s) _ t nd (wr_store _ _ K1) Hlive Hloc Ht Hnd') as (W1 & W2 & W3).
  unfold ev_of. rewrite V1, V2, V3, W1, W2, W3.
  set (bits := subscription false false (negb (bool_decide (add = []))) (negb (bool_decide (rem = [])))
                 (opt_ne orl (n_rel nd)) (opt_ne orl (n_rel nd) || negb (ent_eqb ot (t_target t)))).
  rewrite recipients_all by apply subscription_lt.
  change bits with (xbits add rem orl (n_rel nd) ot (t_target t)). rewrite (xbits_nonzero _ _ _ _ _ _ Hnonempty).
  simpl. do 2 f_equal.
  - rewrite (N.lxor_comm (n_mask nd) om). apply N.land_comm.
  - rewrite (N.lxor_comm (n_mask nd) om). apply N.land_comm.
Qed.

Corollary batch_exchange_events_cached w A id ce add rem rel w' n evs :
  R w A -> cache_ok w -> cache_get w id = Some ce ->
  Forall (fun id => id < length (as_reg A)) add -> (add <> [] \/ rem <> []) ->
  w_listener w = Some lall ->
  op_batch_exchange w (FCached id) add rem rel = (w', Ok (VNat n), evs) ->
  evs = flat_map (ev_of w w' add rem) (table_ents w (c_tables ce)).
Proof.
  intros HR C Hget Hadd Hne Hlis H. destruct (cached_arg_ok w id ce C Hget) as (Harg & Hnd & Hsel).
  by apply (batch_exchange_events_exact_arg w A (FCached id) (c_tables ce) (c_filter ce) add rem rel w' n evs).
Qed.


(** Batch.SetRelation and Batch.RemoveEntities through any filter argument. *)
Theorem batch_set_relation_events_exact_arg w A (fa : farg) l f rid T w' n evs :
  R w A -> cache_ok w -> arg_tables w fa = Some l -> NoDup l -> (forall tid, tid ∈ l <-> tid ∈ World.get_tables w f) -> w_listener w = Some lall ->
  op_batch_set_relation w fa rid T = (w', Ok (VNat n), evs) ->
  evs = flat_map (sr_ev w rid) (table_ents w (retargeted T w (l))).
Proof.
  intros HR C Harg Hndl Hsel Hlis H. pose proof HR as [K Hr Hu He].
  unfold op_batch_set_relation in H.
  destruct (set_relation_batch_nn w fa rid T) as [[[[w1 n1] segs]|]|[]] eqn:Hb; simpl in H; try done.
  injection H as <- _ <-.
  assert (Hloop : srloop rid T w (nonempty_tables w (l)) [] false = inl (Some (w1, segs))).
  { unfold set_relation_batch_nn in Hb. rewrite Hu in Hb. destruct (negb _); [done|]. rewrite Harg in Hb.
    change (batch_loop (fun w tid => set_relation_table w tid rid T)) with (srloop rid T) in Hb.
    destruct (srloop rid T w (nonempty_tables w (l)) [] false) as [[[w1' segs']|]|p]; try done.
    by injection Hb as <- _ <-. }
  assert (Hnd : NoDup (nonempty_tables w (l))).
  { unfold nonempty_tables. by apply NoDup_filter. }
  assert (Hne : forall tid, tid ∈ nonempty_tables w (l) -> tbl_ents w tid <> []).
  { intros tid Hin. unfold nonempty_tables in Hin. apply elem_of_list_filter in Hin as [Hs _].
    unfold table_skip, tbl_ents in *. destruct (w_tables w !! tid) as [t|]; [|done]. apply Nat.eqb_neq in Hs. unfold tlen in Hs. by destruct (t_ents t). }
  destruct (srloop_segs (as_live A) rid T _ w [] false w1 segs Hnd (r2_ok _ _ _ K) C Hne Hloop)
    as (new & Hsegs & Hflat & Hall & _). simpl in Hsegs. subst new.
  destruct (srloop_ok (as_live A) rid T _ w [] false w1 segs Hnd (r2_ok _ _ _ K) C Hne Hloop)
    as (K1 & _ & F & _ & _ & _ & _ & Hviews).
  assert (Hall2 : Forall (fun s => (s_skip s = false /\ s_start s < s_end s /\ s_end s <= length (tbl_ents w1 (s_tid s)) /\
                     exists om orl ot, s_old s = Some (om, orl, ot) /\ ot <> T /\
                       forall e, e ∈ seg_ents w1 s ->
                         e ∈ as_live A /\ ent_mask w e = Some om /\ ent_rel w e = Some orl /\ ent_target w e = Some ot) /\
                     (forall e, e ∈ seg_ents w1 s -> srviews T rid w w1 e)) segs).
  { apply Forall_forall. intros s Hs. split; [by apply (proj1 (Forall_forall _ _) Hall)|].
    intros e Hein.
    assert (Hin_flat : e ∈ flat_map (seg_ents w1) segs) by (apply elem_of_list_In, in_flat_map; exists s; split; apply elem_of_list_In; done).
    rewrite Hflat in Hin_flat. unfold table_ents in Hin_flat. apply elem_of_list_In, in_flat_map in Hin_flat as (tid' & Hin' & Hmem).
    apply elem_of_list_In in Hin', Hmem. unfold retargeted in Hin'. apply elem_of_list_filter in Hin' as [_ Hin'].
    by apply (Hviews tid' e). }
  rewrite <- (table_ents_retargeted_nonempty T w (l)), <- Hflat, flat_map_flat_map.
  unfold ev_batch. rewrite (fr_listener _ _ F), Hlis.
  assert (Hul : is_locked w1 = false) by (unfold is_locked; by rewrite (fr_locks _ _ F)).
  clear Hflat Hb Hloop Hall. induction Hall2 as [|s r [(Hsk & Hlt & Hle & om & orl & ot & Hold & Hotne & Hold_views) Hsv] _ IH]; [done|].
  cbn [flat_map]. rewrite IH. f_equal. clear IH.
  unfold tbl_ents in Hle. destruct (w_tables w1 !! s_tid s) as [t|] eqn:Ht; [|simpl in Hle; lia].
  destruct (so_table _ _ (wr_store _ _ K1) (s_tid s) t Ht) as (nd & Hnd' & _). rewrite Hnd', Hold, Hul.
  assert (Hse : seg_ents w1 s = take (s_end s - s_start s) (drop (s_start s) (t_ents t))).
  { unfold seg_ents, tbl_ents. by rewrite Hsk, Ht. }
  rewrite <- Hse.
  apply flat_map_ext_mem. intros e Hein.
  destruct (Hold_views e Hein) as (Hlive & V1 & V2 & V3).
  destruct (Hsv e Hein) as (S1 & S2 & S3 & _ & S5).
  rewrite Hse in Hein. apply elem_of_take in Hein as (i & Hi & _). rewrite lookup_drop in Hi.
  destruct (so_rows _ _ (wr_store _ _ K1) (s_tid s) t _ e Ht Hi) as [_ Hloc].
  destruct (views_of_row w1 (as_live A) e (s_tid s) _ t nd (wr_store _ _ K1) Hlive Hloc Ht Hnd') as (W1 & W2 & W3).
  assert (Hm : n_mask nd = om) by congruence.
  assert (Hrl : n_rel nd = orl) by congruence.
  assert (Htg : t_target t = T) by congruence.
  assert (Horl : orl = Some rid).
  { destruct S5 as [S5|S5]; [|congruence]. rewrite V3 in S5. by injection S5. }
  unfold sr_ev. rewrite V3, Hm, Hrl, Htg, Horl, N.lxor_nilpotent. cbn [opt_ne]. rewrite Nat.eqb_refl.
  assert (Hneq : ent_eqb ot T = false) by (by apply ent_eqb_neq). rewrite Hneq.
  cbn [bool_decide negb orb]. rewrite recipients_all by done. done.
Qed.

Theorem batch_remove_events_exact_arg w A (fa : farg) l f w' n evs :
  R w A -> cache_ok w -> arg_tables w fa = Some l -> NoDup l -> (forall tid, tid ∈ l <-> tid ∈ World.get_tables w f) -> w_listener w = Some lall ->
  (forall e, e ∈ table_ents w (l) -> (egen e < gen_max)%N) ->
  op_remove_entities w fa = (w', Ok (VNat n), evs) ->
  evs = flat_map (rm_ev w) (table_ents w (l)).
Proof.
  intros HR C Harg Hndl Hsel Hlis Hgen H. pose proof HR as [K Hr Hu He].
  unfold op_remove_entities in H. rewrite Hu, Harg in H.
  destruct (locks_lock (w_tb w) (w_locks w)) as [[lk b]|] eqn:Hlk; [|done].
  set (wl := w <| w_locks := lk |>) in *.
  assert (Kl : world_okr2 wl (as_live A) (as_issued A)).
  { destruct K as [[S G] P Li]. split; [split|done|done].
    - destruct S as [A1 A2 A3 A4]. by split.
    - eapply (rgraph_ok_same_nodes w); try done; intros tid t Ht; exists t; repeat split; try done; intros; congruence. }
  change (foldl _ (wl, []) (l)) with (foldl rm_tables_step (wl, []) (l)) in H.
  assert (Hndt : NoDup (l)).
  { done. }
  pose proof (rm_loop_events_ok (as_issued A) (l) wl (as_live A) [] Hndt Kl C Hlis Hgen) as Hev.
  destruct (foldl rm_tables_step (wl, []) (l)) as [w1 evs1]. cbn [snd] in Hev.
  injection H as _ _ <-. rewrite Hev. done.
Qed.

Corollary batch_set_relation_events_cached w A id ce rid T w' n evs :
  R w A -> cache_ok w -> cache_get w id = Some ce -> w_listener w = Some lall ->
  op_batch_set_relation w (FCached id) rid T = (w', Ok (VNat n), evs) ->
  evs = flat_map (sr_ev w rid) (table_ents w (retargeted T w (c_tables ce))).
Proof.
  intros HR C Hget Hlis H. destruct (cached_arg_ok w id ce C Hget) as (Harg & Hnd & Hsel).
  by apply (batch_set_relation_events_exact_arg w A (FCached id) (c_tables ce) (c_filter ce) rid T w' n evs).
Qed.

Corollary batch_remove_events_cached w A id ce w' n evs :
  R w A -> cache_ok w -> cache_get w id = Some ce -> w_listener w = Some lall ->
  (forall e, e ∈ table_ents w (c_tables ce) -> (egen e < gen_max)%N) ->
  op_remove_entities w (FCached id) = (w', Ok (VNat n), evs) ->
  evs = flat_map (rm_ev w) (table_ents w (c_tables ce)).
Proof.
  intros HR C Hget Hlis Hgen H. destruct (cached_arg_ok w id ce C Hget) as (Harg & Hnd & Hsel).
  by apply (batch_remove_events_exact_arg w A (FCached id) (c_tables ce) (c_filter ce) w' n evs).
Qed.
