(** * C11: the events of a batch exchange through ANY filter argument (registered filters
      included) are, entity by entity in the order of the argument's table list, the events of the
      single exchanges; with [BatchCached.cached_arg_ok] this covers registered filters. *)
From Arche Require Import Model.Base Model.Pool Model.Filter Model.World Model.Ops
  Proofs.Tables Proofs.Bits Proofs.Store Proofs.Graph Proofs.WorldInv Proofs.Cursor
  Proofs.Frame Proofs.StepFrame Proofs.Subs
  Proofs.RelGraph Proofs.RelWorld Proofs.RelRefine Proofs.QueryExact Proofs.CacheInv Proofs.BatchMove
  Proofs.BatchExchange Proofs.BatchSetRel Proofs.EventsExact Proofs.BatchQ Proofs.BatchEvents Proofs.BatchCached.

Theorem batch_exchange_events_exact_arg w A (fa : farg) l f add rem rel w' n evs :
  R w A -> cache_ok w -> arg_tables w fa = Some l -> NoDup l -> (forall tid, tid ∈ l <-> tid ∈ World.get_tables w f) -> Forall (fun id => id < length (as_reg A)) add -> (add <> [] \/ rem <> []) ->
  w_listener w = Some lall ->
  op_batch_exchange w fa add rem rel = (w', Ok (VNat n), evs) ->
  evs = flat_map (ev_of w w' add rem) (table_ents w (l)).
Proof.
  intros HR C Harg Hndl Hsel Hadd Hnonempty Hlis H. pose proof HR as [K Hr Hu He].
  unfold op_batch_exchange in H.
  destruct (exchange_batch_nn w fa add rem rel) as [[[[w1 n1] segs]|]|[]] eqn:Hb; simpl in H; try done.
  injection H as <- _ <-.
  pose proof (frame_exchange_batch_nn _ _ _ _ _ _ _ _ Hb) as F.
  assert (Hloop : xloop add rem rel w (nonempty_tables w (l)) [] false = inl (Some (w1, segs))).
  { unfold exchange_batch_nn in Hb. rewrite Hu, Harg in Hb. destruct (negb _); [done|].
    assert (Hb' : match xloop add rem rel w (nonempty_tables w (l)) [] false with
                  | inl (Some (w1, segs)) => inl (Some (w1, total_len w (l), segs))
                  | inl None => inr false
                  | inr p => inr p
                  end = inl (Some (w1, n1, segs))).
    { destruct add, rem; try exact Hb. destruct Hnonempty; done. }
    destruct (xloop add rem rel w (nonempty_tables w (l)) [] false) as [[[w1' segs']|]|p]; try done.
    by injection Hb' as <- _ <-. }
  rewrite Hr in Hadd.
  assert (Hnd : NoDup (nonempty_tables w (l))).
  { unfold nonempty_tables. by apply NoDup_filter. }
  assert (Hne : forall tid, tid ∈ nonempty_tables w (l) -> tbl_ents w tid <> []).
  { intros tid Hin. unfold nonempty_tables in Hin. apply elem_of_list_filter in Hin as [Hs _].
    unfold table_skip, tbl_ents in *. destruct (w_tables w !! tid) as [t|]; [|done]. apply Nat.eqb_neq in Hs. unfold tlen in Hs. by destruct (t_ents t). }
  destruct (xloop_segs (as_live A) add rem rel Hnonempty _ w [] false w1 segs Hnd (r2_ok _ _ _ K) C Hadd Hne Hloop)
    as (new & Hsegs & Hflat & Hall & _). simpl in Hsegs. subst new.
  destruct (xloop_ok (as_live A) add rem rel Hnonempty _ w [] false w1 segs Hnd (r2_ok _ _ _ K) C Hadd Hne Hloop)
    as (K1 & _).
  rewrite <- (table_ents_nonempty_eq w (l)), <- Hflat, flat_map_flat_map.
  unfold ev_batch. rewrite (fr_listener _ _ F), Hlis.
  assert (Hul : is_locked w1 = false) by (unfold is_locked; by rewrite (fr_locks _ _ F)).
  clear Hflat Hb Hloop. induction Hall as [|s r (Hsk & Hlt & Hle & om & orl & ot & Hold & Hviews) _ IH]; [done|].
  cbn [flat_map]. rewrite IH. f_equal. clear IH.
  (* one segment *)
  unfold tbl_ents in Hle. destruct (w_tables w1 !! s_tid s) as [t|] eqn:Ht; [|simpl in Hle; lia].
  destruct (so_table _ _ (wr_store _ _ K1) (s_tid s) t Ht) as (nd & Hnd' & _). rewrite Hnd', Hold, Hul.
  assert (Hse : seg_ents w1 s = take (s_end s - s_start s) (drop (s_start s) (t_ents t))).
  { unfold seg_ents, tbl_ents. by rewrite Hsk, Ht. }
  rewrite <- Hse. 
  apply flat_map_ext_mem. intros e Hein.
  destruct (Hviews e Hein) as (Hlive & V1 & V2 & V3).
  (* where e sits in the final world *)
  rewrite Hse in Hein. apply elem_of_take in Hein as (i & Hi & _). rewrite lookup_drop in Hi.
  destruct (so_rows _ _ (wr_store _ _ K1) (s_tid s) t _ e Ht Hi) as [_ Hloc].
  destruct (views_of_row w1 (as_live A) e (s_tid s) _ t nd (wr_store _ _ K1) Hlive Hloc Ht Hnd') as (W1 & W2 & W3).
  unfold ev_of. rewrite V1, V2, V3, W1, W2, W3.
  set (bits := subscription false false (negb (bool_decide (add = []))) (negb (bool_decide (rem = [])))
                 (opt_ne orl (n_rel nd)) (opt_ne orl (n_rel nd) || negb (ent_eqb ot (t_target t)))).
  rewrite recipients_all by apply subscription_lt.
  change bits with (xbits add rem orl (n_rel nd) ot (t_target t)). rewrite (xbits_nonzero _ _ _ _ _ _ Hnonempty).
  simpl. do 2 f_equal.
  - rewrite (N.lxor_comm (n_mask nd) om). apply N.land_comm.
  - rewrite (N.lxor_comm (n_mask nd) om). apply N.land_comm.
Qed.

Corollary batch_exchange_events_cached w A id ce add rem rel w' n evs :
  R w A -> cache_ok w -> cache_get w id = Some ce ->
  Forall (fun id => id < length (as_reg A)) add -> (add <> [] \/ rem <> []) ->
  w_listener w = Some lall ->
  op_batch_exchange w (FCached id) add rem rel = (w', Ok (VNat n), evs) ->
  evs = flat_map (ev_of w w' add rem) (table_ents w (c_tables ce)).
Proof.
  intros HR C Hget Hadd Hne Hlis H. destruct (cached_arg_ok w id ce C Hget) as (Harg & Hnd & Hsel).
  by apply (batch_exchange_events_exact_arg w A (FCached id) (c_tables ce) (c_filter ce) add rem rel w' n evs).
Qed.
