(** * The bit set of ecs/bitset.go (World.targetEntities), as translated, is a list of
    booleans.

    [Gen/GoBitSet.v] contains the translation of bitSet.Get/Set/Reset/ExtendTo; the model
    keeps [w_tbits : list bool].  On related states the translated functions read and
    write exactly the model's list; Reset clears every bit; ExtendTo changes no bit and
    provides the capacity asked for. *)
From Arche Require Import Model.Base Proofs.GoLemmas.
From Arche Require Import Pure.MachInt Pure.GoRt Gen.Mask256 Pure.MaskProofs256 Gen.GoBitSet.
From Coq Require Import ZifyN ZifyNat.
Local Open Scope nat_scope.

Definition words (g : go_bitSet) : list N := s_data (bitSet_data g).
Definition gbit (g : go_bitSet) (i : N) : bool :=
  N.testbit (nth (N.to_nat (i / 64)) (words g) 0%N) (i mod 64).

Record bs_rel (g : go_bitSet) (l : list bool) : Prop := {
  bs_len : length l <= 64 * length (words g);
  bs_bits : forall i x, l !! i = Some x -> gbit g (N.of_nat i) = x;
}.

Lemma chunk_lt (i : N) (n : nat) : (i < 64 * N.of_nat n)%N -> (i / 64 < N.of_nat n)%N.
Proof. intros H. apply N.div_lt_upper_bound; lia. Qed.

Lemma mask_of_bit (o : N) : (o < 64)%N -> wrap 64 (shl_w 64 1 o) = (2 ^ o)%N.
Proof.
  intros H. rewrite shl_w_one by done. apply wrap_small. apply N.pow_lt_mono_r; lia.
Qed.

Theorem Get_bits g i :
  (i < 64 * N.of_nat (length (words g)))%N -> bitSet_Get g i = Ret (gbit g i).
Proof.
  intros Hi. unfold bitSet_Get. cbv zeta. unfold s_len. fold (words g).
  assert (N.ltb (i / 64) (N.of_nat (length (words g))) = true) as -> by (apply N.ltb_lt, chunk_lt, Hi).
  unfold go_guard. rewrite mask_of_bit by (apply N.mod_lt; lia).
  rewrite land_pow2_eqb. done.
Qed.

Lemma gbit_upd g g' c v :
  words g' = list_upd (words g) (N.to_nat c) v -> (c < N.of_nat (length (words g)))%N ->
  forall j, gbit g' j = if (j / 64 =? c)%N then N.testbit v (j mod 64) else gbit g j.
Proof.
  intros Hw Hc j. unfold gbit. rewrite Hw.
  destruct (N.eqb_spec (j / 64) c) as [->|Hne].
  - rewrite list_upd_nth_eq by lia. done.
  - rewrite list_upd_nth_ne by lia. done.
Qed.

Theorem Set_bits g i v :
  (i < 64 * N.of_nat (length (words g)))%N ->
  exists g', bitSet_Set g i v = Ret g' /\ length (words g') = length (words g) /\
    forall j, gbit g' j = if (j =? i)%N then v else gbit g j.
Proof.
  intros Hi. unfold bitSet_Set. cbv zeta. unfold s_len. fold (words g).
  pose proof (chunk_lt _ _ Hi) as Hc.
  assert (N.ltb (i / 64) (N.of_nat (length (words g))) = true) as -> by (by apply N.ltb_lt).
  unfold go_guard.
  assert (Ho : (i mod 64 < 64)%N) by (apply N.mod_lt; lia).
  rewrite ?mask_of_bit by done. rewrite ?shl_w_one by done.
  destruct v.
  - eexists. split; [reflexivity|]. split.
    + unfold words; cbn. unfold a_set. by rewrite list_upd_length.
    + intros j. erewrite gbit_upd; [| unfold words; cbn; unfold a_set; reflexivity | done].
      unfold s_get, a_get. fold (words g).
      destruct (N.eqb_spec (j / 64) (i / 64)) as [Heq|Hne].
      * rewrite N.lor_spec, N.pow2_bits_eqb.
        destruct (N.eqb_spec j i) as [->|Hji].
        -- rewrite N.eqb_refl. apply orb_true_r.
        -- destruct (N.eqb_spec (i mod 64) (j mod 64)) as [Hm|Hm].
           ++ exfalso. apply Hji. by apply pos_decomp.
           ++ rewrite orb_false_r. unfold gbit. by rewrite Heq.
      * destruct (N.eqb_spec j i) as [->|Hji]; [done|done].
  - eexists. split; [reflexivity|]. split.
    + unfold words; cbn. unfold a_set. by rewrite list_upd_length.
    + intros j. erewrite gbit_upd; [| unfold words; cbn; unfold a_set; reflexivity | done].
      unfold s_get, a_get. fold (words g).
      destruct (N.eqb_spec (j / 64) (i / 64)) as [Heq|Hne].
      * rewrite N.land_spec. rewrite (wrap_small 64 (not_w 64 _)) by apply not_w_lt.
        rewrite not_w_bits, N.pow2_bits_eqb.
        assert (N.ltb (j mod 64) 64 = true) as -> by (apply N.ltb_lt, N.mod_lt; lia).
        rewrite andb_true_r.
        destruct (N.eqb_spec j i) as [->|Hji].
        -- rewrite N.eqb_refl. apply andb_false_r.
        -- destruct (N.eqb_spec (i mod 64) (j mod 64)) as [Hm|Hm].
           ++ exfalso. apply Hji. by apply pos_decomp.
           ++ cbn. rewrite andb_true_r. unfold gbit. by rewrite Heq.
      * destruct (N.eqb_spec j i) as [->|Hji]; [done|done].
Qed.

(** Reset: the loop clears one word per round. *)
Lemma reset_loop (ws : list N) cap : forall k,
  k <= length ws ->
  fold_left (fun acc_ i => rbind acc_ (fun b =>
     go_guard (N.ltb i (s_len (bitSet_data b)))
       (Ret (set_bitSet_data b (s_set (bitSet_data b) i 0%N)))))
    (map N.of_nat (seq k (length ws - k)))
    (Ret (mk_bitSet (mkSlice (repeat 0%N k ++ skipn k ws) cap)))
  = Ret (mk_bitSet (mkSlice (repeat 0%N (length ws)) cap)).
Proof.
  intros k. remember (length ws - k) as d eqn:Hd. revert k Hd.
  induction d as [|d IH]; intros k Hd Hk.
  - assert (k = length ws) as -> by lia. cbn. by rewrite skipn_all, app_nil_r.
  - cbn [seq map fold_left rbind].
    unfold s_len. cbn [bitSet_data s_data].
    rewrite app_length, repeat_length, skipn_length.
    assert (N.ltb (N.of_nat k) (N.of_nat (k + (length ws - k))) = true) as -> by (apply N.ltb_lt; lia).
    unfold go_guard. cbn [set_bitSet_data bitSet_data s_set s_data s_cap].
    specialize (IH (S k) ltac:(lia) ltac:(lia)).
    match goal with |- fold_left ?f ?l (Ret ?x) = _ =>
      replace x with (mk_bitSet (mkSlice (repeat 0%N (S k) ++ skipn (S k) ws) cap)); [exact IH|] end.
    unfold set_bitSet_data, s_set. cbn [bitSet_data s_data s_cap]. f_equal. f_equal.
    unfold a_set. rewrite Nat2N.id. rewrite list_upd_insert.
    rewrite insert_app_r_alt by (rewrite repeat_length; lia).
    rewrite repeat_length, Nat.sub_diag.
    destruct (skipn k ws) as [|x t] eqn:Hsk.
    { exfalso. assert (length (skipn k ws) = 0) by (by rewrite Hsk). rewrite skipn_length in H. lia. }
    cbn. replace (skipn (S k) ws) with t.
    + change (0%N :: repeat 0%N k ++ t) with ((0%N :: repeat 0%N k) ++ t).
      rewrite (repeat_cons k 0%N). rewrite <- app_assoc. done.
    + replace (S k) with (k + 1) by lia. rewrite <- drop_drop. by rewrite Hsk.
Qed.

Theorem Reset_bits g :
  exists g', bitSet_Reset g = Ret g' /\ length (words g') = length (words g) /\
    forall j, gbit g' j = false.
Proof.
  unfold bitSet_Reset. cbv zeta.
  destruct g as [[ws cap]]. unfold n_range, s_len. cbn [bitSet_data s_data]. rewrite Nat2N.id.
  pose proof (reset_loop ws cap 0 ltac:(lia)) as H. rewrite Nat.sub_0_r in H. cbn [repeat app] in H. change (drop 0 ws) with ws in H. unfold s_len in H.
  rewrite H. cbn [rbind]. eexists. split; [reflexivity|]. split.
  - unfold words. cbn. by rewrite repeat_length.
  - intros j. unfold gbit, words. cbn.
    destruct (nth_in_or_default (N.to_nat (j / 64)) (repeat 0%N (length ws)) 0%N) as [Hin| ->].
    + apply repeat_spec in Hin. rewrite Hin. apply N.bits_0.
    + apply N.bits_0.
Qed.

Theorem ExtendTo_bits g n :
  (n < 2 ^ 63)%N ->
  exists g', bitSet_ExtendTo g n = Ret g' /\
    length (words g) <= length (words g') /\ (n <= 64 * N.of_nat (length (words g')))%N /\
    forall j, (j < 64 * N.of_nat (length (words g)))%N -> gbit g' j = gbit g j.
Proof.
  intros Hn. unfold bitSet_ExtendTo. cbv zeta. unfold s_len. fold (words g).
  assert (Hgrow : forall chunks, (N.of_nat (length (words g)) < chunks)%N ->
     let g' := set_bitSet_data (set_bitSet_data g (s_make 0%N chunks chunks))
                 (s_copy (bitSet_data (set_bitSet_data g (s_make 0%N chunks chunks))) (bitSet_data g)) in
     length (words g') = N.to_nat chunks /\
     forall j, (j < 64 * N.of_nat (length (words g)))%N -> gbit g' j = gbit g j).
  { intros chunks Hc g'. subst g'. unfold words.
    cbn [set_bitSet_data bitSet_data]. unfold s_copy, s_make. cbn [s_data s_cap]. fold (words g).
    rewrite a_make_length. split.
    - rewrite app_length, take_length, drop_length, a_make_length. lia.
    - intros j Hj. unfold gbit, words. cbn [set_bitSet_data bitSet_data s_data]. fold (words g).
      rewrite firstn_all2 by lia. rewrite app_nth1; [done|].
      pose proof (chunk_lt _ _ Hj). lia. }
  assert (Hdiv : (n / 64 < 2 ^ 63)%N) by (apply N.div_lt_upper_bound; lia).
  assert (Hw : N.ltb (n / 64 + 1) (2 ^ 63) = true).
  { apply N.ltb_lt. pose proof (N.div_mod n 64 ltac:(lia)).
    change (2 ^ 63)%N with 9223372036854775808%N in *. lia. }
  pose proof (N.div_mod n 64 ltac:(lia)) as Hdm.
  pose proof (N.mod_lt n 64 ltac:(lia)) as Hml.
  destruct (N.ltb_spec 0 (n mod 64)) as [Hb|Hb].
  - rewrite Hw. unfold go_inside. destruct (N.leb_spec (n / 64 + 1) (N.of_nat (length (words g)))) as [Hle|Hgt].
    + exists g. split; [done|]. split; [lia|]. split; [lia|done].
    + rewrite N.leb_refl. unfold go_guard. eexists. split; [reflexivity|].
      destruct (Hgrow _ Hgt) as [Hl Hbits]. rewrite Hl. split; [lia|]. split; [lia|]. exact Hbits.
  - destruct (N.leb_spec (n / 64) (N.of_nat (length (words g)))) as [Hle|Hgt].
    + exists g. split; [done|]. split; [lia|]. split; [lia|done].
    + rewrite N.leb_refl. unfold go_guard. eexists. split; [reflexivity|].
      destruct (Hgrow _ Hgt) as [Hl Hbits]. rewrite Hl. split; [lia|]. split; [lia|]. exact Hbits.
Qed.

(** ** The same on related states *)
Theorem Get_tie g l i x : bs_rel g l -> l !! i = Some x -> bitSet_Get g (N.of_nat i) = Ret x.
Proof.
  intros R Hl. pose proof (lookup_lt_Some _ _ _ Hl). pose proof (bs_len _ _ R).
  rewrite Get_bits by lia. by rewrite (bs_bits _ _ R i x Hl).
Qed.

Theorem Set_tie_insert g l i v :
  bs_rel g l -> i < length l ->
  exists g', bitSet_Set g (N.of_nat i) v = Ret g' /\ bs_rel g' (<[i := v]> l).
Proof.
  intros R Hi. pose proof (bs_len _ _ R).
  destruct (Set_bits g (N.of_nat i) v ltac:(lia)) as (g' & Hs & Hlen & Hb).
  exists g'. split; [done|]. split.
  - rewrite insert_length, Hlen. done.
  - intros j x Hj. rewrite Hb.
    destruct (decide (j = i)) as [->|Hne].
    + rewrite N.eqb_refl. rewrite list_lookup_insert in Hj by done. by inversion Hj.
    + rewrite list_lookup_insert_ne in Hj by done.
      assert ((N.of_nat j =? N.of_nat i)%N = false) as -> by (apply N.eqb_neq; lia).
      by apply (bs_bits _ _ R).
Qed.

Theorem Set_tie_append g l v :
  bs_rel g l -> length l < 64 * length (words g) ->
  exists g', bitSet_Set g (N.of_nat (length l)) v = Ret g' /\ bs_rel g' (l ++ [v]).
Proof.
  intros R Hi.
  destruct (Set_bits g (N.of_nat (length l)) v ltac:(lia)) as (g' & Hs & Hlen & Hb).
  exists g'. split; [done|]. split.
  - rewrite app_length, Hlen. simpl. lia.
  - intros j x Hj. rewrite Hb.
    destruct (decide (j = length l)) as [->|Hne].
    + rewrite N.eqb_refl. rewrite lookup_app_r in Hj by lia. rewrite Nat.sub_diag in Hj. by inversion Hj.
    + assert (j < length l).
      { apply lookup_lt_Some in Hj. rewrite app_length in Hj. simpl in Hj. lia. }
      rewrite lookup_app_l in Hj by done.
      assert ((N.of_nat j =? N.of_nat (length l))%N = false) as -> by (apply N.eqb_neq; lia).
      by apply (bs_bits _ _ R).
Qed.

Theorem Reset_tie g n :
  n <= 64 * length (words g) ->
  exists g', bitSet_Reset g = Ret g' /\ bs_rel g' (replicate n false).
Proof.
  intros Hn. destruct (Reset_bits g) as (g' & Hr & Hlen & Hb).
  exists g'. split; [done|]. split.
  - rewrite replicate_length, Hlen. done.
  - intros j x Hj. apply lookup_replicate in Hj as [-> _]. apply Hb.
Qed.

Theorem ExtendTo_tie g l n :
  bs_rel g l -> (n < 2 ^ 63)%N ->
  exists g', bitSet_ExtendTo g n = Ret g' /\ bs_rel g' l /\ (n <= 64 * N.of_nat (length (words g')))%N.
Proof.
  intros R Hn. destruct (ExtendTo_bits g n Hn) as (g' & He & Hlen & Hcap & Hb).
  exists g'. split; [done|]. split; [|done]. pose proof (bs_len _ _ R). split.
  - lia.
  - intros j x Hj. pose proof (lookup_lt_Some _ _ _ Hj). rewrite Hb by lia. by apply (bs_bits _ _ R).
Qed.

(** The empty bit set of [newWorld] ([bitSet{}] extended to one bit) carries [[false]]. *)
Example initial_bitset :
  exists g, bitSet_ExtendTo zero_bitSet 1 = Ret g /\
    exists g', bitSet_Set g 0 false = Ret g' /\ bs_rel g' [false].
Proof.
  eexists. split; [vm_compute; reflexivity|]. eexists. split; [vm_compute; reflexivity|].
  split; [cbn; lia|]. intros [|i] x Hx; [|done]. inversion Hx. reflexivity.
Qed.
