(** * C12: sub-listeners added to a Dispatch later.

    listener.Dispatch keeps its Subscriptions() / Components() incrementally: NewDispatch folds
    over the initial sub-listeners, AddListener extends the three fields.  [dsp] mirrors the
    struct, [d_add] AddListener, [d_new] NewDispatch.  [dispatch_add_cfg]: after any number of
    AddListener calls the Dispatch presents exactly the configuration the model computes from
    the whole list ([outer_cfg (LDispatch (ls ++ more))]), so by [recipients] (and
    C12_dispatch) every sub-listener, early or late, receives what it would receive alone. *)
From Arche Require Import Model.Base Model.Pool Model.Filter Model.World Model.Ops.

Record dsp := mkD { d_subs : list lcfg; d_events : N; d_comps : N; d_hasc : bool }.

Definition d_add (d : dsp) (l : lcfg) : dsp :=
  mkD (d_subs d ++ [l]) (N.lor (d_events d) (lc_subs l))
      (match lc_comps l with Some c => N.lor (d_comps d) c | None => d_comps d end)
      (match lc_comps l with Some _ => d_hasc d | None => false end).
Definition d_new (ls : list lcfg) : dsp := foldl d_add (mkD [] 0%N 0%N true) ls.
Definition d_cfg (d : dsp) : lcfg := mkL (d_events d) (if d_hasc d then Some (d_comps d) else None).

Definition d_inv (d : dsp) : Prop :=
  d_events d = foldl (fun acc l => N.lor acc (lc_subs l)) 0%N (d_subs d) /\
  d_hasc d = forallb (fun l => bool_decide (is_Some (lc_comps l))) (d_subs d) /\
  d_comps d = foldl (fun acc l => N.lor acc (default 0%N (lc_comps l))) 0%N (d_subs d).

Lemma d_add_inv d l : d_inv d -> d_inv (d_add d l).
Proof.
  intros (H1 & H2 & H3). unfold d_inv, d_add. cbn [d_subs d_events d_comps d_hasc].
  rewrite !foldl_app, forallb_app. cbn [foldl forallb]. rewrite <- H1, <- H2, <- H3.
  split; [done|]. destruct (lc_comps l) as [c|]; simpl.
  - rewrite ?andb_true_r. done.
  - rewrite ?andb_false_r, ?N.lor_0_r. done.
Qed.

Lemma d_adds_inv ls : forall d, d_inv d -> d_inv (foldl d_add d ls) /\ d_subs (foldl d_add d ls) = d_subs d ++ ls.
Proof.
  induction ls as [|l r IH]; intros d I; simpl; [by rewrite app_nil_r|].
  destruct (IH (d_add d l) (d_add_inv d l I)) as [I' S]. split; [done|]. rewrite S. simpl. by rewrite <- app_assoc.
Qed.

Lemma d_cfg_inv d : d_inv d -> d_cfg d = outer_cfg (LDispatch (d_subs d)).
Proof. intros (H1 & H2 & H3). unfold d_cfg, outer_cfg. by rewrite H1, H2, H3. Qed.

Theorem dispatch_add_cfg ls more :
  let d := foldl d_add (d_new ls) more in
  d_subs d = ls ++ more /\ d_cfg d = outer_cfg (LDispatch (ls ++ more)).
Proof.
  cbv zeta. assert (I0 : d_inv (mkD [] 0%N 0%N true)) by done.
  destruct (d_adds_inv ls _ I0) as [I1 S1]. simpl in S1. fold (d_new ls) in I1, S1.
  destruct (d_adds_inv more _ I1) as [I2 S2]. rewrite S1 in S2.
  split; [done|]. rewrite <- S2. by apply d_cfg_inv.
Qed.

(** Hence what a Dispatch that grew by AddListener delivers is [recipients] of the whole list. *)
Corollary dispatch_add_recipients ls more bits a r o n eva evr :
  let d := foldl d_add (d_new ls) more in
  (if gate (d_cfg d) bits a r o n then
     omap (fun '(i, l) => if gate l bits (Some eva) (Some evr) o n then Some i else None)
          (imap (fun i l => (i, l)) (d_subs d))
   else []) = recipients (LDispatch (ls ++ more)) bits a r o n eva evr.
Proof. cbv zeta. destruct (dispatch_add_cfg ls more) as [-> ->]. reflexivity. Qed.

(** Non-vacuity: an unrestricted Dispatch gets restricted sub-listeners; a restricted one gets an
    unrestricted sub-listener and loses its restriction. *)
Example demo_dispatch_add :
  d_cfg (foldl d_add (d_new [mkL 1 (Some 2%N)]) [mkL 4 (Some 8%N)]) = mkL 5 (Some 10%N) /\
  d_cfg (foldl d_add (d_new [mkL 1 (Some 2%N)]) [mkL 4 None; mkL 8 (Some 1%N)]) = mkL 13 None /\
  outer_cfg (LDispatch [mkL 1 (Some 2%N); mkL 4 None; mkL 8 (Some 1%N)]) = mkL 13 None.
Proof. vm_compute. done. Qed.
