(** * Subscriptions and Dispatch (C12) on the model's event gate. *)
From Arche Require Import Model.Base Model.Pool Model.Filter Model.World Model.Ops Pure.MachInt Proofs.Bits.
Open Scope nat_scope.

Lemma contains_any_spec a b :
  contains_any a b = true <-> exists k, N.testbit a k = true /\ N.testbit b k = true.
Proof. unfold contains_any. apply land_neq0_spec. Qed.

Lemma contains_any_mono_l a a' b :
  (forall k, N.testbit a k = true -> N.testbit a' k = true) ->
  contains_any a b = true -> contains_any a' b = true.
Proof. rewrite !contains_any_spec. intros H (k & Ha & Hb). exists k. auto. Qed.

Lemma contains_any_mono_r a b b' :
  (forall k, N.testbit b k = true -> N.testbit b' k = true) ->
  contains_any a b = true -> contains_any a b' = true.
Proof. rewrite !contains_any_spec. intros H (k & Ha & Hb). exists k. auto. Qed.

Definition sub_bits (a b : N) : Prop := forall k, N.testbit a k = true -> N.testbit b k = true.

Lemma sub_bits_land a b c : sub_bits a b -> sub_bits (N.land a c) (N.land b c).
Proof. intros H k. rewrite !N.land_spec, !andb_true_iff. intros [? ?]. auto. Qed.

Lemma nonzero_mono a b : sub_bits a b -> (a =? 0)%N = false -> (b =? 0)%N = false.
Proof.
  intros H. rewrite !N.eqb_neq. intros Ha Hb. apply Ha. apply N.bits_inj_0. intros k.
  destruct (N.testbit a k) eqn:Hk; [|done]. apply H in Hk. by rewrite Hb, N.bits_0 in Hk.
Qed.

Definition sub_comps (s s' : option N) : Prop :=
  match s', s with
  | None, _ => True
  | Some b, Some a => sub_bits a b
  | Some _, None => False
  end.

Lemma opt_bit_mono a b o : sub_bits a b -> opt_bit a o = true -> opt_bit b o = true.
Proof. unfold opt_bit, bit. destruct o; [|done]. intros H. apply H. Qed.

(** [subscribes] is monotone in the trigger bits and in the component restriction. *)
Lemma subscribes_mono t t' added removed s s' o n :
  sub_bits t t' -> sub_comps s s' ->
  subscribes t added removed s o n = true -> subscribes t' added removed s' o n = true.
Proof.
  intros Ht Hs. unfold subscribes.
  destruct (t =? 0)%N eqn:Ht0; [done|]. rewrite (nonzero_mono _ _ Ht Ht0).
  destruct s' as [b|]; [|done]. destruct s as [a|]; [|done]. simpl in Hs.
  intros H.
  destruct (contains_any t 48 && (opt_bit a o || opt_bit a n)) eqn:H1.
  - apply andb_true_iff in H1 as [H1 H2].
    rewrite (contains_any_mono_l _ _ _ Ht H1).
    apply orb_true_iff in H2 as [H2|H2]; rewrite (opt_bit_mono _ _ _ Hs H2); simpl; [done|by rewrite orb_true_r].
  - destruct (contains_any t' 48 && (opt_bit b o || opt_bit b n)); [done|].
    destruct (contains_any t 5 && match added with Some x => contains_any a x | None => false end) eqn:H2.
    + apply andb_true_iff in H2 as [H2 H3]. rewrite (contains_any_mono_l _ _ _ Ht H2).
      destruct added as [x|]; [|done]. by rewrite (contains_any_mono_l _ _ _ Hs H3).
    + destruct (contains_any t' 5 && match added with Some x => contains_any b x | None => false end); [done|].
      destruct (contains_any t 10 && match removed with Some x => contains_any a x | None => false end) eqn:H3; [|done].
      apply andb_true_iff in H3 as [H3 H4]. rewrite (contains_any_mono_l _ _ _ Ht H3).
      destruct removed as [x|]; [|done]. by rewrite (contains_any_mono_l _ _ _ Hs H4).
Qed.

Lemma gate_mono l l' bits added removed o n :
  sub_bits (lc_subs l) (lc_subs l') -> sub_comps (lc_comps l) (lc_comps l') ->
  gate l bits added removed o n = true -> gate l' bits added removed o n = true.
Proof.
  intros Hs Hc. unfold gate. cbv zeta. rewrite !andb_true_iff, !negb_true_iff. intros [H0 H1]. split.
  - eapply nonzero_mono; [|exact H0]. by apply sub_bits_land.
  - eapply subscribes_mono; [by apply sub_bits_land|exact Hc|exact H1].
Qed.

(** The Dispatch's own subscription data covers each of its sub-listeners. *)
Lemma foldl_lor_acc (f : lcfg -> N) subs : forall acc k,
  N.testbit acc k = true -> N.testbit (foldl (fun a l => N.lor a (f l)) acc subs) k = true.
Proof.
  induction subs as [|x r IH]; intros acc k H; simpl; [done|]. apply IH. rewrite N.lor_spec, H. done.
Qed.

Lemma foldl_lor_elem (f : lcfg -> N) subs l : l ∈ subs -> forall acc,
  sub_bits (f l) (foldl (fun a x => N.lor a (f x)) acc subs).
Proof.
  induction subs as [|x r IH]; intros Hin acc k Hk; [by apply elem_of_nil in Hin|].
  apply elem_of_cons in Hin as [->|Hin]; simpl.
  - apply foldl_lor_acc. rewrite N.lor_spec, Hk. apply orb_true_r.
  - by apply IH.
Qed.

Lemma outer_covers subs l : l ∈ subs ->
  sub_bits (lc_subs l) (lc_subs (outer_cfg (LDispatch subs))) /\
  sub_comps (lc_comps l) (lc_comps (outer_cfg (LDispatch subs))).
Proof.
  intros Hin. simpl. split; [by apply (foldl_lor_elem lc_subs)|].
  destruct (forallb _ subs) eqn:Hall; [|done].
  rewrite forallb_forall in Hall. specialize (Hall l).
  assert (Hl : In l subs) by (by apply elem_of_list_In).
  apply Hall in Hl. apply bool_decide_eq_true in Hl as [c Hc]. rewrite Hc. simpl.
  pose proof (foldl_lor_elem (fun x => default 0%N (lc_comps x)) subs l Hin 0%N) as H.
  cbv beta in H. rewrite Hc in H. exact H.
Qed.

(** The masks the world hands to [subscribes] and the masks stored in the event agree:
    either the same mask, or nil at the call site and the zero mask in the event. *)
Definition mask_arg_ok (arg : option N) (ev : N) : Prop := arg = Some ev \/ (arg = None /\ ev = 0%N).

Lemma gate_arg l bits a r o n eva evr :
  mask_arg_ok a eva -> mask_arg_ok r evr ->
  gate l bits a r o n = gate l bits (Some eva) (Some evr) o n.
Proof.
  intros Ha Hr. unfold gate, subscribes. cbv zeta.
  destruct (N.land (lc_subs l) bits =? 0)%N; [done|]. simpl. destruct (lc_comps l) as [s|]; [|done].
  assert (Ea : match a with Some x => contains_any s x | None => false end = contains_any s eva).
  { destruct Ha as [->|[-> ->]]; [done|]. unfold contains_any. by rewrite N.land_0_r. }
  assert (Er : match r with Some x => contains_any s x | None => false end = contains_any s evr).
  { destruct Hr as [->|[-> ->]]; [done|]. unfold contains_any. by rewrite N.land_0_r. }
  by rewrite Ea, Er.
Qed.

(** Dispatch delivers to each sub-listener exactly what it would receive if it were
    installed alone - for any composition of sub-listeners, added at construction or later
    (the model's [LDispatch] is the state NewDispatch / AddListener maintain). *)
Theorem dispatch_equiv subs i l bits a r o n eva evr :
  subs !! i = Some l -> mask_arg_ok a eva -> mask_arg_ok r evr ->
  i ∈ recipients (LDispatch subs) bits a r o n eva evr <->
  recipients (LCallback l) bits a r o n eva evr = [0].
Proof.
  intros Hi Ha Hr. unfold recipients. simpl outer_cfg at 2.
  rewrite (gate_arg l bits a r o n eva evr Ha Hr).
  assert (Hin : l ∈ subs) by (by eapply elem_of_list_lookup_2).
  destruct (outer_covers subs l Hin) as [Hs Hc].
  destruct (gate l bits (Some eva) (Some evr) o n) eqn:Hg.
  - split; [done|]. intros _.
    rewrite (gate_arg _ bits a r o n eva evr Ha Hr).
    rewrite (gate_mono l _ bits _ _ o n Hs Hc Hg).
    apply elem_of_list_omap. exists (i, l). split.
    + apply elem_of_lookup_imap. exists i, l. done.
    + by rewrite Hg.
  - split; [|done]. intros Hm. destruct (gate (outer_cfg (LDispatch subs)) bits a r o n); [|by apply elem_of_nil in Hm].
    apply elem_of_list_omap in Hm as ([j l'] & Hjl & Hsome).
    apply elem_of_lookup_imap in Hjl as (j' & l'' & [= -> ->] & Hl'').
    destruct (gate l'' bits (Some eva) (Some evr) o n) eqn:Hg'; [|done]. injection Hsome as <-.
    rewrite Hi in Hl''. injection Hl'' as <-. congruence.
Qed.

(** The documented subscription rule. *)
Theorem subscribes_rule trigger added removed subs o n :
  subscribes trigger added removed subs o n = true <->
  trigger <> 0%N /\
  (subs = None \/
   exists s, subs = Some s /\
     ((contains_any trigger 48 = true /\ (opt_bit s o = true \/ opt_bit s n = true)) \/
      (contains_any trigger 5 = true /\ exists x, added = Some x /\ contains_any s x = true) \/
      (contains_any trigger 10 = true /\ exists x, removed = Some x /\ contains_any s x = true))).
Proof.
  unfold subscribes. destruct (N.eqb_spec trigger 0) as [->|Hne].
  - split; [done|]. intros [? _]. done.
  - destruct subs as [s|]; [|split; [intros _; split; [done|by left]|done]].
    split.
    + intros H. split; [done|]. right. exists s. split; [done|].
      destruct (contains_any trigger 48 && (opt_bit s o || opt_bit s n)) eqn:H1.
      { apply andb_true_iff in H1 as [H1 H2]. apply orb_true_iff in H2. left. done. }
      destruct (contains_any trigger 5 && match added with Some a => contains_any s a | None => false end) eqn:H2.
      { apply andb_true_iff in H2 as [H2 H3]. right. left. split; [done|]. destruct added as [x|]; [|done]. by exists x. }
      destruct (contains_any trigger 10 && match removed with Some r => contains_any s r | None => false end) eqn:H3; [|done].
      apply andb_true_iff in H3 as [H3 H4]. right. right. split; [done|]. destruct removed as [x|]; [|done]. by exists x.
    + intros [_ [Hn|(s' & [= <-] & Hc)]]; [done|].
      destruct Hc as [[H1 H2]|[[H1 (x & -> & H2)]|[H1 (x & -> & H2)]]].
      * rewrite H1. apply orb_true_iff in H2. by rewrite H2.
      * rewrite H1, H2. simpl. by destruct (contains_any trigger 48 && _).
      * rewrite H1, H2. simpl. destruct (contains_any trigger 48 && _); [done|]. by destruct (contains_any trigger 5 && _).
Qed.

(** Non-vacuity: a Dispatch of three sub-listeners, one without restriction. *)
Example dispatch_example :
  let subs := [mkL 5 (Some 2%N); mkL 48 None; mkL 10 (Some 4%N)] in
  recipients (LDispatch subs) 21 (Some 6%N) None None (Some 1) 6 0 = [0; 1] /\
  recipients (LCallback (mkL 5 (Some 2%N))) 21 (Some 6%N) None None (Some 1) 6 0 = [0] /\
  recipients (LCallback (mkL 10 (Some 4%N))) 21 (Some 6%N) None None (Some 1) 6 0 = [].
Proof. vm_compute. done. Qed.
