(** * The archetype graph WITH relation components: nodes, relation tables per target,
      the target map, retirement to the free list and LIFO re-use.

    Proofs/Graph.v treats worlds without relation components.  This file states the
    invariant that ties nodes, tables, the per-node target map ([archetypeMap]) and the
    free list ([freeIndices]) together for arbitrary registries, and proves that node
    creation, the exchange walk, table creation (fresh and re-used), the move of an
    entity, retirement and cleanup all keep it. *)
From Arche Require Import Model.Base Model.Pool Model.Filter Model.World Model.Ops
  Proofs.Tables Proofs.Bits Proofs.Store Proofs.Graph.

(** ** Association lists *)
Lemma assoc_get_del {V} k k' (l : list (Entity * V)) :
  assoc_get k (assoc_del k' l) = if ent_eqb k k' then None else assoc_get k l.
Proof.
  induction l as [|[k0 v] r IH]; simpl; [by destruct (ent_eqb k k')|].
  destruct (ent_eqb k' k0) eqn:H1.
  - apply ent_eqb_eq in H1 as ->. rewrite IH. destruct (ent_eqb k k0); done.
  - simpl. rewrite IH. destruct (ent_eqb k k0) eqn:H2; [|done].
    apply ent_eqb_eq in H2 as ->. destruct (ent_eqb k0 k') eqn:H3; [|done].
    apply ent_eqb_eq in H3 as ->. by rewrite ent_eqb_refl in H1.
Qed.
Lemma assoc_get_set {V} k k' (v : V) l :
  assoc_get k (assoc_set k' v l) = if ent_eqb k k' then Some v else assoc_get k l.
Proof. unfold assoc_set. simpl. rewrite assoc_get_del. by destruct (ent_eqb k k'). Qed.
#[global] Opaque assoc_set.

(** ** The relation of a mask *)
Definition relP (w : world) (m : N) (rel : option nat) : Prop :=
  forall id, (bit m id = true /\ reg_is_rel w id = true) <-> rel = Some id.

Lemma node_has_rel_true nd : node_has_rel nd = true <-> exists r, n_rel nd = Some r.
Proof. unfold node_has_rel. rewrite bool_decide_eq_true. split; intros [r H]; by exists r. Qed.
Lemma node_has_rel_false nd : node_has_rel nd = false <-> n_rel nd = None.
Proof.
  unfold node_has_rel. rewrite bool_decide_eq_false. split.
  - intros H. destruct (n_rel nd); [exfalso; apply H; by eexists|done].
  - intros -> [? ?]. done.
Qed.

(** ** The invariant *)
Record rgraph_ok (w : world) : Prop := {
  rg_ids : forall nid nd, w_nodes w !! nid = Some nd -> n_ids nd = mask_ids (w_tb w) (n_mask nd);
  rg_rel : forall nid nd, w_nodes w !! nid = Some nd -> relP w (n_mask nd) (n_rel nd);
  rg_bits : forall nid nd id, w_nodes w !! nid = Some nd -> bit (n_mask nd) id = true -> id < length (w_reg w);
  rg_masks : forall i j ni nj, w_nodes w !! i = Some ni -> w_nodes w !! j = Some nj -> n_mask ni = n_mask nj -> i = j;
  rg_table : forall tid t, w_tables w !! tid = Some t -> exists nd, w_nodes w !! t_node t = Some nd /\
      tid ∈ n_tables nd /\
      match n_rel nd with
      | Some _ => if t_active t then assoc_get (t_target t) (n_tmap nd) = Some tid
                  else tid ∈ n_free nd /\ t_ents t = []
      | None => n_tables nd = [tid] /\ t_target t = ezero /\ t_active t = true
      end;
  rg_ntables : forall nid nd tid, w_nodes w !! nid = Some nd -> tid ∈ n_tables nd ->
      exists t, w_tables w !! tid = Some t /\ t_node t = nid;
  rg_tmap : forall nid nd tg tid, w_nodes w !! nid = Some nd -> assoc_get tg (n_tmap nd) = Some tid ->
      exists t, w_tables w !! tid = Some t /\ t_node t = nid /\ t_target t = tg /\ t_active t = true;
  rg_free : forall nid nd, w_nodes w !! nid = Some nd -> NoDup (n_free nd) /\ forall tid, tid ∈ n_free nd ->
      exists t, w_tables w !! tid = Some t /\ t_node t = nid /\ t_active t = false;
  rg_norel : forall nid nd, w_nodes w !! nid = Some nd -> n_rel nd = None -> n_tmap nd = [] /\ n_free nd = [];
  rg_table0 : exists t0 n0, w_tables w !! 0 = Some t0 /\ w_nodes w !! t_node t0 = Some n0 /\ n_mask n0 = 0%N;
  rg_capinc : 0 < w_capinc w /\ 0 < w_relcapinc w;
  rg_reglen : length (w_reg w) <= w_tb w;
  rg_active : forall nid nd tid, w_nodes w !! nid = Some nd -> tid ∈ n_tables nd -> n_active nd = true;
  rg_tnodup : forall nid nd, w_nodes w !! nid = Some nd -> NoDup (n_tables nd);
}.

(** ** Extension that may re-activate an empty, retired table *)
Record ext_r (w w1 : world) : Prop := {
  xr_pool : w_pool w1 = w_pool w;
  xr_index : w_index w1 = w_index w;
  xr_tbits : w_tbits w1 = w_tbits w;
  xr_reg : w_reg w1 = w_reg w;
  xr_tb : w_tb w1 = w_tb w;
  xr_capinc : w_capinc w1 = w_capinc w /\ w_relcapinc w1 = w_relcapinc w;
  xr_tables : forall tid t, w_tables w !! tid = Some t -> exists t', w_tables w1 !! tid = Some t' /\
      t_node t' = t_node t /\ t_ents t' = t_ents t /\ t_rows t' = t_rows t /\ t_layouts t' = t_layouts t /\
      (t_ents t <> [] -> t' = t);
  xr_new_tables : forall tid t, w_tables w1 !! tid = Some t -> w_tables w !! tid = None ->
      t_ents t = [] /\ exists nd, w_nodes w1 !! t_node t = Some nd /\ table_ok (zero_row nd) t;
  xr_nodes : forall nid nd, w_nodes w !! nid = Some nd ->
      exists nd', w_nodes w1 !! nid = Some nd' /\ n_mask nd' = n_mask nd /\ n_ids nd' = n_ids nd /\ n_rel nd' = n_rel nd;
}.

Lemma ext_ext_r w w1 : ext w w1 -> ext_r w w1.
Proof.
  intros E. split; try apply E.
  intros tid t H. exists t. split; [by apply (ex_tables _ _ E)|done].
Qed.
Lemma ext_r_refl w : ext_r w w.
Proof. apply ext_ext_r, ext_refl. Qed.

Lemma ext_r_trans a b c : ext_r a b -> ext_r b c -> ext_r a c.
Proof.
  intros E1 E2. split.
  - by rewrite (xr_pool _ _ E2), (xr_pool _ _ E1).
  - by rewrite (xr_index _ _ E2), (xr_index _ _ E1).
  - by rewrite (xr_tbits _ _ E2), (xr_tbits _ _ E1).
  - by rewrite (xr_reg _ _ E2), (xr_reg _ _ E1).
  - by rewrite (xr_tb _ _ E2), (xr_tb _ _ E1).
  - destruct (xr_capinc _ _ E1) as [A1 A2], (xr_capinc _ _ E2) as [B1 B2]. split; [by rewrite B1|by rewrite B2].
  - intros tid t H. destruct (xr_tables _ _ E1 tid t H) as (t1 & H1 & N1 & En1 & R1 & L1 & Q1).
    destruct (xr_tables _ _ E2 tid t1 H1) as (t2 & H2 & N2 & En2 & R2 & L2 & Q2).
    exists t2. split; [done|]. repeat split; try congruence.
    intros Hne. rewrite Q2 by congruence. by apply Q1.
  - intros tid t Hc Ha. destruct (w_tables b !! tid) as [tb|] eqn:Hb.
    + destruct (xr_tables _ _ E2 tid tb Hb) as (t2 & H2 & N2 & En2 & R2 & L2 & Q2).
      rewrite Hc in H2. injection H2 as <-.
      destruct (xr_new_tables _ _ E1 tid tb Hb Ha) as (He & nd & Hnd & Hok). split; [congruence|].
      destruct (xr_nodes _ _ E2 _ nd Hnd) as (nd' & Hnd' & _ & Hids & _). exists nd'. rewrite N2. split; [done|].
      unfold zero_row in *. rewrite Hids. destruct Hok as [O1 O2 O3]. split; unfold tlen in *; rewrite ?En2, ?R2; done.
    + by apply (xr_new_tables _ _ E2 tid t Hc Hb).
  - intros nid nd H. destruct (xr_nodes _ _ E1 nid nd H) as (n1 & H1 & M1 & I1 & R1).
    destruct (xr_nodes _ _ E2 nid n1 H1) as (n2 & H2 & M2 & I2 & R2). exists n2. split; [done|]. repeat split; congruence.
Qed.

Lemma ext_r_loc w w1 e : ext_r w w1 -> loc w1 e = loc w e.
Proof. intros E. unfold loc. by rewrite (xr_index _ _ E). Qed.

Lemma ext_r_store_ok w w1 live : ext_r w w1 -> store_ok w live -> store_ok w1 live.
Proof.
  intros E S. split.
  - apply S.
  - intros e He. destruct (so_loc _ _ S e He) as (tid & row & t & Hl & Ht & Hr).
    destruct (xr_tables _ _ E tid t Ht) as (t' & Ht' & _ & He' & _).
    exists tid, row, t'. rewrite (ext_r_loc _ _ _ E). split; [done|]. split; [done|congruence].
  - intros tid t row e Ht Hr. destruct (w_tables w !! tid) as [t0|] eqn:H0.
    + destruct (xr_tables _ _ E tid t0 H0) as (t' & Ht' & _ & He' & _). rewrite Ht in Ht'. injection Ht' as <-.
      rewrite (ext_r_loc _ _ _ E). apply (so_rows _ _ S tid t0 row e); congruence.
    + destruct (xr_new_tables _ _ E tid t Ht H0) as [He _]. by rewrite He in Hr.
  - intros tid t Ht. destruct (w_tables w !! tid) as [t0|] eqn:H0.
    + destruct (xr_tables _ _ E tid t0 H0) as (t' & Ht' & N' & He' & R' & _). rewrite Ht in Ht'. injection Ht' as <-.
      destruct (so_table _ _ S tid t0 H0) as (nd & Hnd & Hok).
      destruct (xr_nodes _ _ E _ nd Hnd) as (nd' & Hnd' & _ & Hids & _). exists nd'. rewrite N'. split; [done|].
      unfold zero_row in *. rewrite Hids. destruct Hok as [O1 O2 O3]. split; unfold tlen in *; rewrite ?He', ?R'; done.
    + by destruct (xr_new_tables _ _ E tid t Ht H0) as [_ H].
Qed.

Lemma ext_r_cells w w1 live e : ext_r w w1 -> store_ok w live -> e ∈ live -> ent_cells w1 e = ent_cells w e.
Proof.
  intros E S He. destruct (so_loc _ _ S e He) as (tid & row & t & Hl & Ht & Hr).
  destruct (xr_tables _ _ E tid t Ht) as (t' & Ht' & _ & _ & _ & _ & Q).
  assert (t' = t) as -> by (apply Q; intros Hn; by rewrite Hn in Hr).
  unfold ent_cells. rewrite (ext_r_loc _ _ _ E), Hl. simpl. by rewrite Ht, Ht'.
Qed.

Lemma relP_ext_r w w1 m r : ext_r w w1 -> relP w m r -> relP w1 m r.
Proof. intros E H id. unfold reg_is_rel. rewrite (xr_reg _ _ E). apply H. Qed.

(** ** Node creation *)
Lemma lookup_snoc_cases {A} (l : list A) x i :
  (l ++ [x]) !! i = if decide (i = length l) then Some x else l !! i.
Proof.
  destruct (decide (i = length l)) as [->|Hne].
  - rewrite lookup_app_r by lia. by rewrite Nat.sub_diag.
  - destruct (decide (i < length l)); [by rewrite lookup_app_l|].
    rewrite lookup_app_r by lia. destruct (i - length l) as [|k] eqn:Hk; [lia|].
    simpl. symmetry. apply lookup_ge_None. lia.
Qed.

Lemma find_or_create_node_rok w m rel :
  rgraph_ok w -> relP w m rel -> (forall id, bit m id = true -> id < length (w_reg w)) ->
  let '(w1, nid) := find_or_create_node w m rel in
  ext w w1 /\ rgraph_ok w1 /\ w_cache w1 = w_cache w /\ w_tables w1 = w_tables w /\
  exists nd, w_nodes w1 !! nid = Some nd /\ n_mask nd = m.
Proof.
  intros G HP Hb. unfold find_or_create_node. pose proof (find_node_spec w m) as Hf.
  destruct (find_node w m) as [i|].
  - destruct Hf as (nd & Hnd & Hm). split; [apply ext_refl|]. split; [done|]. split; [done|]. split; [done|]. by exists nd.
  - set (nn := new_node w m rel).
    assert (Hlk : forall nid, (w_nodes w ++ [nn]) !! nid =
              if decide (nid = length (w_nodes w)) then Some nn else w_nodes w !! nid) by (intros; apply lookup_snoc_cases).
    split; [|split; [|split; [done|split; [done|]]]].
    + split; try done.
      * intros tid t H1 H2. simpl in *. congruence.
      * intros nid nd H. exists nd. simpl. rewrite lookup_app_l; [done|]. by apply lookup_lt_Some in H.
    + split; simpl.
      * intros nid nd H. rewrite Hlk in H. destruct (decide _); [injection H as <-; done|by apply (rg_ids _ G nid)].
      * intros nid nd H. rewrite Hlk in H. destruct (decide _); [injection H as <-; exact HP|by apply (rg_rel _ G nid)].
      * intros nid nd id H. rewrite Hlk in H. destruct (decide _); [injection H as <-; apply Hb|by apply (rg_bits _ G nid)].
      * intros i j ni nj Hi Hj Hm. rewrite Hlk in Hi, Hj.
        destruct (decide (i = _)) as [->|], (decide (j = _)) as [->|]; try done.
        -- injection Hi as <-. simpl in Hm. exfalso. by apply (Hf j nj).
        -- injection Hj as <-. simpl in Hm. exfalso. by apply (Hf i ni).
        -- by apply (rg_masks _ G i j ni nj).
      * intros tid t Ht. destruct (rg_table _ G tid t Ht) as (nd & Hnd & Hrest). exists nd. split; [|done].
        rewrite lookup_app_l; [done|]. by apply lookup_lt_Some in Hnd.
      * intros nid nd tid H Hin. rewrite Hlk in H. destruct (decide _); [injection H as <-; simpl in Hin; by apply elem_of_nil in Hin|by apply (rg_ntables _ G nid nd)].
      * intros nid nd tg tid H Hg. rewrite Hlk in H. destruct (decide _); [injection H as <-; done|by apply (rg_tmap _ G nid nd)].
      * intros nid nd H. rewrite Hlk in H. destruct (decide _); [injection H as <-; simpl; split; [apply NoDup_nil_2|intros ? Hx; by apply elem_of_nil in Hx]|by apply (rg_free _ G nid nd)].
      * intros nid nd H. rewrite Hlk in H. destruct (decide _); [injection H as <-; done|by apply (rg_norel _ G nid nd)].
      * destruct (rg_table0 _ G) as (t0 & n0 & H0 & Hn0 & Hm0). exists t0, n0. split; [done|]. split; [|done].
        rewrite lookup_app_l; [done|]. by apply lookup_lt_Some in Hn0.
      * apply G.
      * apply G.
      * intros nid nd tid H Hin. rewrite Hlk in H. destruct (decide _); [injection H as <-; simpl in Hin; by apply elem_of_nil in Hin|by apply (rg_active _ G nid nd tid)].
      * intros nid nd H. rewrite Hlk in H. destruct (decide _); [injection H as <-; apply NoDup_nil_2|by apply (rg_tnodup _ G nid nd)].
    + exists nn. simpl. rewrite Hlk. by destruct (decide _).
Qed.

Lemma relP_ext w w1 m r : ext w w1 -> relP w m r -> relP w1 m r.
Proof. intros E. apply relP_ext_r. by apply ext_ext_r. Qed.

(** ** The exchange walk *)
Lemma bit_setb_same m id b : bit (setb m id b) id = b.
Proof. unfold bit, setb. destruct b; [apply N.setbit_eq|apply N.clearbit_eq]. Qed.
Lemma bit_setb_other m id id' b : id <> id' -> bit (setb m id b) id' = bit m id'.
Proof. intros H. unfold bit, setb. destruct b; [apply N.setbit_neq|apply N.clearbit_neq]; lia. Qed.

Lemma relP_rem w m rel id : relP w m rel -> bit m id = true ->
  relP w (setb m id false) (if reg_is_rel w id then None else rel).
Proof.
  intros HP Hb id'. destruct (decide (id = id')) as [<-|Hne].
  - rewrite bit_setb_same. split; [intros [? _]; done|].
    destruct (reg_is_rel w id) eqn:Hr; [done|]. intros H. apply HP in H as [_ H]. congruence.
  - rewrite bit_setb_other by done. destruct (reg_is_rel w id) eqn:Hr; [|apply HP].
    split; [|done]. intros H. apply HP in H. assert (Some id = Some id') as [= ?]; [|done].
    rewrite <- H. symmetry. by apply HP.
Qed.

Lemma relP_add w m rel id : relP w m rel -> bit m id = false ->
  (reg_is_rel w id && bool_decide (is_Some rel)) = false ->
  relP w (setb m id true) (if reg_is_rel w id then Some id else rel).
Proof.
  intros HP Hb Hc id'. destruct (decide (id = id')) as [<-|Hne].
  - rewrite bit_setb_same. destruct (reg_is_rel w id) eqn:Hr; [done|].
    split; [intros [_ ?]; done|]. intros H. apply HP in H as [_ H]. congruence.
  - rewrite bit_setb_other by done. destruct (reg_is_rel w id) eqn:Hr; [|apply HP].
    simpl in Hc. apply bool_decide_eq_false in Hc.
    split; [|intros [= ?]; done]. intros H. apply HP in H. exfalso. apply Hc. by eexists.
Qed.

Lemma walk_rem_rok ids : forall w m rel m',
  rgraph_ok w -> relP w m rel -> (forall id, bit m id = true -> id < length (w_reg w)) -> has_node w m ->
  exmask_rem m ids = Some m' ->
  let '(w1, m1, r1) := walk_rem w m rel ids in
  ext w w1 /\ rgraph_ok w1 /\ w_cache w1 = w_cache w /\ w_tables w1 = w_tables w /\ relP w1 m1 r1 /\
  m1 = m' /\ has_node w1 m1 /\ (forall id, bit m1 id = true -> id < length (w_reg w)).
Proof.
  induction ids as [|id r IH]; intros w m rel m' G HP Hb Hn Hx; simpl in *.
  - injection Hx as <-. split; [apply ext_refl|]. done.
  - destruct (bit m id) eqn:Hbit; [|done].
    pose proof (relP_rem w m rel id HP Hbit) as HP'.
    assert (Hb' : forall id0, bit (setb m id false) id0 = true -> id0 < length (w_reg w)).
    { intros id0 H0. destruct (decide (id = id0)) as [<-|Hne]; [by rewrite bit_setb_same in H0|].
      rewrite bit_setb_other in H0 by done. by apply Hb. }
    pose proof (find_or_create_node_rok w (setb m id false) _ G HP' Hb') as H1.
    destruct (find_or_create_node w (setb m id false) _) as [w1 nid]. simpl.
    destruct H1 as (E1 & G1 & C1 & T1 & nd & Hnd & Hm).
    assert (Hb1 : forall id0, bit (setb m id false) id0 = true -> id0 < length (w_reg w1)) by (rewrite (ex_reg _ _ E1); exact Hb').
    specialize (IH w1 (setb m id false) _ m' G1 (relP_ext _ _ _ _ E1 HP') Hb1 (ex_intro _ nid (ex_intro _ nd (conj Hnd Hm))) Hx).
    destruct (walk_rem w1 (setb m id false) _ r) as [[w2 m2] r2].
    destruct IH as (E2 & G2 & C2 & T2 & R2 & M2 & H2 & B2).
    split; [by eapply ext_trans|]. split; [done|]. split; [congruence|]. split; [congruence|].
    split; [done|]. split; [done|]. split; [done|]. by rewrite <- (ex_reg _ _ E1).
Qed.

Lemma walk_add_rok ids : forall w start m rel w2 m2 r2,
  rgraph_ok w -> relP w m rel -> (forall id, bit m id = true -> id < length (w_reg w)) -> has_node w m ->
  Forall (fun id => id < length (w_reg w)) ids ->
  walk_add w start m rel ids = Some (w2, m2, r2) ->
  ext w w2 /\ rgraph_ok w2 /\ w_cache w2 = w_cache w /\ w_tables w2 = w_tables w /\ relP w2 m2 r2 /\
  exmask_add m ids = Some m2 /\ has_node w2 m2.
Proof.
  induction ids as [|id r IH]; intros w start m rel w2 m2 r2 G HP Hb Hn Hreg H; simpl in H |- *.
  - injection H as <- <- <-. split; [apply ext_refl|]. done.
  - destruct (bit m id) eqn:Hbit; [done|]. destruct (bit start id); [done|].
    destruct (reg_is_rel w id && bool_decide (is_Some rel)) eqn:Hc; [done|].
    pose proof (relP_add w m rel id HP Hbit Hc) as HP'.
    apply Forall_cons in Hreg as [Hid Hreg].
    assert (Hb' : forall id0, bit (setb m id true) id0 = true -> id0 < length (w_reg w)).
    { intros id0 H0. destruct (decide (id = id0)) as [<-|Hne]; [done|].
      rewrite bit_setb_other in H0 by done. by apply Hb. }
    pose proof (find_or_create_node_rok w (setb m id true) _ G HP' Hb') as H1.
    destruct (find_or_create_node w (setb m id true) _) as [w1 nid]. simpl in H.
    destruct H1 as (E1 & G1 & C1 & T1 & nd & Hnd & Hm).
    assert (Hb1 : forall id0, bit (setb m id true) id0 = true -> id0 < length (w_reg w1)) by (rewrite (ex_reg _ _ E1); exact Hb').
    assert (Hreg1 : Forall (fun id => id < length (w_reg w1)) r) by (by rewrite (ex_reg _ _ E1)).
    destruct (IH w1 start (setb m id true) _ w2 m2 r2 G1 (relP_ext _ _ _ _ E1 HP') Hb1 (ex_intro _ nid (ex_intro _ nd (conj Hnd Hm))) Hreg1 H)
      as (E2 & G2 & C2 & T2 & R2 & M2 & H2).
    split; [by eapply ext_trans|]. split; [done|]. split; [congruence|]. split; [congruence|]. done.
Qed.

(** ** Table creation: fresh table of a relation-free node, fresh table of a relation
       node, re-use of a retired table (LIFO) *)
Lemma node_update_fields w nid nd nd' tabs cache :
  w_nodes w !! nid = Some nd -> n_mask nd' = n_mask nd -> n_ids nd' = n_ids nd -> n_rel nd' = n_rel nd ->
  let w1 := w <| w_tables := tabs |> <| w_nodes := <[nid := nd']> (w_nodes w) |> <| w_cache := cache |> in
  rgraph_ok w ->
  (forall j, w_nodes w1 !! j = if decide (j = nid) then Some nd' else w_nodes w !! j) /\
  (forall j n, w_nodes w1 !! j = Some n -> n_ids n = mask_ids (w_tb w1) (n_mask n)) /\
  (forall j n, w_nodes w1 !! j = Some n -> relP w1 (n_mask n) (n_rel n)) /\
  (forall j n id, w_nodes w1 !! j = Some n -> bit (n_mask n) id = true -> id < length (w_reg w1)) /\
  (forall i j ni nj, w_nodes w1 !! i = Some ni -> w_nodes w1 !! j = Some nj -> n_mask ni = n_mask nj -> i = j).
Proof.
  intros Hnd Hm Hi Hr w1 G.
  assert (Hnl : forall j, w_nodes w1 !! j = if decide (j = nid) then Some nd' else w_nodes w !! j).
  { intros j. simpl. eapply lookup_insert_cases. exact Hnd. }
  split; [exact Hnl|]. split; [|split; [|split]].
  - intros j n H. rewrite Hnl in H. destruct (decide (j = nid)) as [->|]; [injection H as <-; rewrite Hi, Hm; by apply (rg_ids _ G nid)|by apply (rg_ids _ G j)].
  - intros j n H. rewrite Hnl in H. destruct (decide (j = nid)) as [->|]; [injection H as <-; rewrite Hm, Hr; by apply (rg_rel _ G nid)|by apply (rg_rel _ G j)].
  - intros j n id H. rewrite Hnl in H. destruct (decide (j = nid)) as [->|]; [injection H as <-; rewrite Hm; by apply (rg_bits _ G nid)|by apply (rg_bits _ G j)].
  - intros i j ni nj Hi' Hj' Hmm. rewrite Hnl in Hi', Hj'.
    destruct (decide (i = nid)) as [->|], (decide (j = nid)) as [->|]; try done.
    + injection Hi' as <-. rewrite Hm in Hmm. by apply (rg_masks _ G nid j nd nj).
    + injection Hj' as <-. rewrite Hm in Hmm. by apply (rg_masks _ G i nid ni nd).
    + by apply (rg_masks _ G i j ni nj).
Qed.

Lemma table_ok_fresh zr nid target n lay : table_ok zr (mkTable nid target [] (replicate n zr) true lay).
Proof.
  split; unfold tlen; simpl.
  - lia.
  - intros i r Hi. apply lookup_replicate in Hi as [-> _]. done.
  - intros i _ Hi. rewrite replicate_length in Hi. by apply lookup_replicate_2.
Qed.

Lemma create_table_norel_rok w nid nd target fs :
  rgraph_ok w -> w_nodes w !! nid = Some nd -> n_rel nd = None -> n_tables nd = [] ->
  let '(w1, tid) := create_table w nid target fs in
  ext_r w w1 /\ rgraph_ok w1 /\
  exists t nd', w_tables w1 !! tid = Some t /\ t_node t = nid /\ t_ents t = [] /\ t_active t = true /\
     t_target t = ezero /\ w_tables w !! tid = None /\
     w_nodes w1 !! nid = Some nd' /\ n_mask nd' = n_mask nd /\ n_rel nd' = n_rel nd /\ n_ids nd' = n_ids nd.
Proof.
  intros G Hnd Hrel Hnt. unfold create_table. rewrite Hnd.
  rewrite (proj2 (node_has_rel_false nd) Hrel).
  set (tid := length (w_tables w)).
  set (cap := if fs then w_capinc w else 1).
  set (t := mkTable nid ezero [] (replicate cap (zero_row nd)) true (layouts_for w)).
  set (nd' := nd <| n_active := true |> <| n_tables := n_tables nd ++ [tid] |>).
  set (cache := map (centry_add nd ezero tid) (w_cache w)).
  destruct (node_update_fields w nid nd nd' (w_tables w ++ [t]) cache Hnd eq_refl eq_refl eq_refl G) as (Hnl & F1 & F2 & F3 & F4).
  set (w1 := w <| w_tables := w_tables w ++ [t] |> <| w_nodes := <[nid := nd']> (w_nodes w) |> <| w_cache := cache |>) in *.
  assert (Htl : forall j, w_tables w1 !! j = if decide (j = tid) then Some t else w_tables w !! j) by (intros; apply lookup_snoc_cases).
  assert (Hold : forall j t0, w_tables w !! j = Some t0 -> j <> tid) by (intros j t0 H ->; apply lookup_lt_Some in H; unfold tid in H; lia).
  destruct (rg_norel _ G nid nd Hnd Hrel) as [Htm Hfr].
  split; [|split].
  - split; try done.
    + intros j t0 H. exists t0. rewrite Htl. destruct (decide (j = tid)) as [->|]; [by apply Hold in H|done].
    + intros j t0 H Hnone. rewrite Htl in H. destruct (decide (j = tid)) as [->|]; [|congruence].
      injection H as <-. split; [done|]. exists nd'. rewrite Hnl. change (t_node t) with nid.
      destruct (decide (nid = nid)); [|done]. split; [done|apply table_ok_fresh].
    + intros j n0 H. rewrite Hnl. destruct (decide (j = nid)) as [->|]; [|by exists n0].
      rewrite Hnd in H. injection H as <-. exists nd'. done.
  - split; try done.
    + intros tid0 t0 Ht0. rewrite Htl in Ht0. destruct (decide (tid0 = tid)) as [->|Hne].
      * injection Ht0 as <-. exists nd'. rewrite Hnl. change (t_node t) with nid. destruct (decide (nid = nid)); [|done].
        split; [done|]. simpl. rewrite Hnt. simpl. split; [apply elem_of_list_here|]. rewrite Hrel. done.
      * destruct (rg_table _ G tid0 t0 Ht0) as (n0 & Hn0 & Hin & Hrest).
        destruct (decide (t_node t0 = nid)) as [Heq|Hnn].
        -- rewrite Heq, Hnd in Hn0. injection Hn0 as <-. rewrite Hnt in Hin. by apply elem_of_nil in Hin.
        -- exists n0. rewrite Hnl. destruct (decide (t_node t0 = nid)); done.
    + intros j n tid0 Hn Hin. rewrite Hnl in Hn. destruct (decide (j = nid)) as [->|].
      * injection Hn as <-. simpl in Hin. rewrite Hnt in Hin. simpl in Hin. apply elem_of_list_singleton in Hin as ->.
        exists t. rewrite Htl. by destruct (decide (tid = tid)).
      * destruct (rg_ntables _ G j n tid0 Hn Hin) as (t0 & Ht0 & Htn). exists t0. rewrite Htl.
        destruct (decide (tid0 = tid)) as [->|]; [by apply Hold in Ht0|done].
    + intros j n tg tid0 Hn Hg. rewrite Hnl in Hn. destruct (decide (j = nid)) as [->|].
      * injection Hn as <-. simpl in Hg. by rewrite Htm in Hg.
      * destruct (rg_tmap _ G j n tg tid0 Hn Hg) as (t0 & Ht0 & Hrest). exists t0. rewrite Htl.
        destruct (decide (tid0 = tid)) as [->|]; [by apply Hold in Ht0|done].
    + intros j n Hn. rewrite Hnl in Hn. destruct (decide (j = nid)) as [->|].
      * injection Hn as <-. simpl. rewrite Hfr. split; [apply NoDup_nil_2|intros ? Hx; by apply elem_of_nil in Hx].
      * destruct (rg_free _ G j n Hn) as [Hnd0 Hall]. split; [done|]. intros tid0 Hin.
        destruct (Hall tid0 Hin) as (t0 & Ht0 & Hrest). exists t0. rewrite Htl.
        destruct (decide (tid0 = tid)) as [->|]; [by apply Hold in Ht0|done].
    + intros j n Hn Hr. rewrite Hnl in Hn. destruct (decide (j = nid)) as [->|]; [injection Hn as <-; done|by apply (rg_norel _ G j n)].
    + destruct (rg_table0 _ G) as (t0 & n0 & H0 & Hn0 & Hm0).
      exists t0. rewrite Htl. destruct (decide (0 = tid)) as [He|]; [by apply Hold in H0|].
      destruct (decide (t_node t0 = nid)) as [Heq|Hneq].
      * exists nd'. rewrite Hnl, Heq. destruct (decide (nid = nid)); [|done]. split; [done|]. split; [done|].
        rewrite Heq, Hnd in Hn0. by injection Hn0 as <-.
      * exists n0. rewrite Hnl. by destruct (decide (t_node t0 = nid)).
    + apply G.
    + apply G.
    + intros j n tid0 Hn Hin. rewrite Hnl in Hn. destruct (decide (j = nid)) as [->|]; [by injection Hn as <-|by apply (rg_active _ G j n tid0)].
    + intros j n Hn. rewrite Hnl in Hn. destruct (decide (j = nid)) as [->|]; [injection Hn as <-; simpl; rewrite Hnt; apply NoDup_singleton|by apply (rg_tnodup _ G j n)].
  - exists t, nd'. rewrite Htl, Hnl. destruct (decide (tid = tid)); [|done]. destruct (decide (nid = nid)); [|done].
    repeat split; try done. apply lookup_ge_None. unfold tid. lia.
Qed.

Lemma create_table_rel_fresh_rok w nid nd r target fs :
  rgraph_ok w -> w_nodes w !! nid = Some nd -> n_rel nd = Some r -> n_free nd = [] ->
  assoc_get target (n_tmap nd) = None ->
  let '(w1, tid) := create_table w nid target fs in
  ext_r w w1 /\ rgraph_ok w1 /\
  exists t nd', w_tables w1 !! tid = Some t /\ t_node t = nid /\ t_ents t = [] /\ t_active t = true /\
     t_target t = target /\
     w_nodes w1 !! nid = Some nd' /\ n_mask nd' = n_mask nd /\ n_rel nd' = n_rel nd /\ n_ids nd' = n_ids nd.
Proof.
  intros G Hnd Hrel Hfr Hnone. unfold create_table. rewrite Hnd.
  rewrite (proj2 (node_has_rel_true nd) (ex_intro _ r Hrel)). rewrite Hfr. simpl.
  set (tid := length (w_tables w)).
  set (t := mkTable nid target [] (replicate (w_relcapinc w) (zero_row nd)) true (layouts_for w)).
  set (nd' := nd <| n_active := true |> <| n_tables := n_tables nd ++ [tid] |> <| n_tmap := assoc_set target tid (n_tmap nd) |>).
  set (cache := map (centry_add nd target tid) (w_cache w)).
  destruct (node_update_fields w nid nd nd' (w_tables w ++ [t]) cache Hnd eq_refl eq_refl eq_refl G) as (Hnl & F1 & F2 & F3 & F4).
  set (w1 := w <| w_tables := w_tables w ++ [t] |> <| w_nodes := <[nid := nd']> (w_nodes w) |> <| w_cache := cache |>) in *.
  assert (Htl : forall j, w_tables w1 !! j = if decide (j = tid) then Some t else w_tables w !! j) by (intros; apply lookup_snoc_cases).
  assert (Hold : forall j t0, w_tables w !! j = Some t0 -> j <> tid) by (intros j t0 H ->; apply lookup_lt_Some in H; unfold tid in H; lia).
  split; [|split].
  - split; try done.
    + intros j t0 H. exists t0. rewrite Htl. destruct (decide (j = tid)) as [->|]; [by apply Hold in H|done].
    + intros j t0 H Hn0. rewrite Htl in H. destruct (decide (j = tid)) as [->|]; [|congruence].
      injection H as <-. split; [done|]. exists nd'. rewrite Hnl. change (t_node t) with nid.
      destruct (decide (nid = nid)); [|done]. split; [done|apply table_ok_fresh].
    + intros j n0 H. rewrite Hnl. destruct (decide (j = nid)) as [->|]; [|by exists n0].
      rewrite Hnd in H. injection H as <-. exists nd'. done.
  - split; try done.
    + intros tid0 t0 Ht0. rewrite Htl in Ht0. destruct (decide (tid0 = tid)) as [->|Hne].
      * injection Ht0 as <-. exists nd'. rewrite Hnl. change (t_node t) with nid. destruct (decide (nid = nid)); [|done].
        split; [done|]. simpl. split; [apply elem_of_app; right; apply elem_of_list_here|]. rewrite Hrel.
        rewrite assoc_get_set. by rewrite ent_eqb_refl.
      * destruct (rg_table _ G tid0 t0 Ht0) as (n0 & Hn0 & Hin & Hrest).
        destruct (decide (t_node t0 = nid)) as [Heq|Hnn].
        -- rewrite Heq, Hnd in Hn0. injection Hn0 as <-. exists nd'. rewrite Hnl, Heq. destruct (decide (nid = nid)); [|done].
           split; [done|]. simpl. split; [apply elem_of_app; by left|]. rewrite Hrel in Hrest |- *.
           destruct (t_active t0); [|done]. rewrite assoc_get_set.
           destruct (ent_eqb (t_target t0) target) eqn:He; [|done]. apply ent_eqb_eq in He. rewrite He in Hrest. congruence.
        -- exists n0. rewrite Hnl. destruct (decide (t_node t0 = nid)); done.
    + intros j n tid0 Hn Hin. rewrite Hnl in Hn. destruct (decide (j = nid)) as [->|].
      * injection Hn as <-. simpl in Hin. apply elem_of_app in Hin as [Hin|Hin].
        -- destruct (rg_ntables _ G nid nd tid0 Hnd Hin) as (t0 & Ht0 & Htn). exists t0. rewrite Htl.
           destruct (decide (tid0 = tid)) as [->|]; [by apply Hold in Ht0|done].
        -- apply elem_of_list_singleton in Hin as ->. exists t. rewrite Htl. by destruct (decide (tid = tid)).
      * destruct (rg_ntables _ G j n tid0 Hn Hin) as (t0 & Ht0 & Htn). exists t0. rewrite Htl.
        destruct (decide (tid0 = tid)) as [->|]; [by apply Hold in Ht0|done].
    + intros j n tg tid0 Hn Hg. rewrite Hnl in Hn. destruct (decide (j = nid)) as [->|].
      * injection Hn as <-. simpl in Hg. rewrite assoc_get_set in Hg. destruct (ent_eqb tg target) eqn:He.
        -- apply ent_eqb_eq in He as ->. injection Hg as <-. exists t. rewrite Htl. by destruct (decide (tid = tid)).
        -- destruct (rg_tmap _ G nid nd tg tid0 Hnd Hg) as (t0 & Ht0 & Hrest). exists t0. rewrite Htl.
           destruct (decide (tid0 = tid)) as [->|]; [by apply Hold in Ht0|done].
      * destruct (rg_tmap _ G j n tg tid0 Hn Hg) as (t0 & Ht0 & Hrest). exists t0. rewrite Htl.
        destruct (decide (tid0 = tid)) as [->|]; [by apply Hold in Ht0|done].
    + intros j n Hn. rewrite Hnl in Hn.
      assert (Hgen : forall n0, w_nodes w !! j = Some n0 -> NoDup (n_free n0) /\ forall tid0, tid0 ∈ n_free n0 ->
                exists t0, w_tables w1 !! tid0 = Some t0 /\ t_node t0 = j /\ t_active t0 = false).
      { intros n0 Hn0. destruct (rg_free _ G j n0 Hn0) as [Hnd0 Hall]. split; [done|]. intros tid0 Hin.
        destruct (Hall tid0 Hin) as (t0 & Ht0 & Hrest). exists t0. rewrite Htl.
        destruct (decide (tid0 = tid)) as [->|]; [by apply Hold in Ht0|done]. }
      destruct (decide (j = nid)) as [->|]; [injection Hn as <-; by apply (Hgen nd)|by apply Hgen].
    + intros j n Hn Hr. rewrite Hnl in Hn. destruct (decide (j = nid)) as [->|]; [injection Hn as <-; simpl in Hr; congruence|by apply (rg_norel _ G j n)].
    + destruct (rg_table0 _ G) as (t0 & n0 & H0 & Hn0 & Hm0).
      exists t0. rewrite Htl. destruct (decide (0 = tid)) as [He|]; [by apply Hold in H0|].
      destruct (decide (t_node t0 = nid)) as [Heq|Hneq].
      * exists nd'. rewrite Hnl, Heq. destruct (decide (nid = nid)); [|done]. split; [done|]. split; [done|].
        rewrite Heq, Hnd in Hn0. by injection Hn0 as <-.
      * exists n0. rewrite Hnl. by destruct (decide (t_node t0 = nid)).
    + apply G.
    + apply G.
    + intros j n tid0 Hn Hin. rewrite Hnl in Hn. destruct (decide (j = nid)) as [->|]; [by injection Hn as <-|by apply (rg_active _ G j n tid0)].
    + intros j n Hn. rewrite Hnl in Hn. destruct (decide (j = nid)) as [->|]; [|by apply (rg_tnodup _ G j n)].
      injection Hn as <-. simpl. apply NoDup_app. split; [by apply (rg_tnodup _ G nid nd)|]. split; [|apply NoDup_singleton].
      intros x Hx Hx2. apply elem_of_list_singleton in Hx2 as ->.
      destruct (rg_ntables _ G nid nd tid Hnd Hx) as (t0 & Ht0 & _). by apply Hold in Ht0.
  - exists t, nd'. rewrite Htl, Hnl. destruct (decide (tid = tid)); [|done]. destruct (decide (nid = nid)); [|done].
    repeat split; done.
Qed.

Lemma take_snoc_pred {A} (l : list A) x : take (length (l ++ [x]) - 1) (l ++ [x]) = l.
Proof. rewrite app_length. simpl. replace (length l + 1 - 1) with (length l) by lia. by rewrite take_app. Qed.

Lemma create_table_rel_reuse_rok w nid nd r target fs tid :
  rgraph_ok w -> w_nodes w !! nid = Some nd -> n_rel nd = Some r -> last (n_free nd) = Some tid ->
  assoc_get target (n_tmap nd) = None ->
  let '(w1, tid') := create_table w nid target fs in
  tid' = tid /\ ext_r w w1 /\ rgraph_ok w1 /\
  exists t nd', w_tables w1 !! tid = Some t /\ t_node t = nid /\ t_ents t = [] /\ t_active t = true /\
     t_target t = target /\
     w_nodes w1 !! nid = Some nd' /\ n_mask nd' = n_mask nd /\ n_rel nd' = n_rel nd /\ n_ids nd' = n_ids nd.
Proof.
  intros G Hnd Hrel Hlast Hnone. unfold create_table. rewrite Hnd.
  rewrite (proj2 (node_has_rel_true nd) (ex_intro _ r Hrel)). rewrite Hlast.
  apply last_Some in Hlast as [fl Hfl].
  destruct (rg_free _ G nid nd Hnd) as [Hfnd Hfall].
  destruct (Hfall tid) as (t0 & Ht0 & Ht0n & Ht0a); [rewrite Hfl; apply elem_of_app; right; apply elem_of_list_here|].
  destruct (rg_table _ G tid t0 Ht0) as (n0 & Hn0 & Hin0 & Hrest0).
  rewrite Ht0n, Hnd in Hn0. injection Hn0 as <-. rewrite Hrel, Ht0a in Hrest0. destruct Hrest0 as [_ Hempty].
  set (f := fun t : table => t <| t_target := target |> <| t_active := true |>).
  set (t := f t0).
  set (nd' := nd <| n_free := take (length (n_free nd) - 1) (n_free nd) |> <| n_tmap := assoc_set target tid (n_tmap nd) |>).
  assert (Hfree' : n_free nd' = fl) by (simpl; rewrite Hfl; apply take_snoc_pred).
  set (tabs := alter f tid (w_tables w)).
  set (cache := map (centry_add nd target tid) (w_cache (w <| w_tables := tabs |>))).
  destruct (node_update_fields w nid nd nd' tabs cache Hnd eq_refl eq_refl eq_refl G) as (Hnl & F1 & F2 & F3 & F4).
  set (w1 := w <| w_tables := tabs |> <| w_nodes := <[nid := nd']> (w_nodes w) |> <| w_cache := cache |>) in *.
  assert (Htl : forall j, w_tables w1 !! j = if decide (j = tid) then Some t else w_tables w !! j).
  { intros j. simpl. unfold tabs. destruct (decide (j = tid)) as [->|].
    - rewrite list_lookup_alter, Ht0. done.
    - by rewrite list_lookup_alter_ne. }
  assert (Hnotin : tid ∉ fl).
  { rewrite Hfl in Hfnd. apply NoDup_app in Hfnd as (_ & Hd & _). intros Hin. apply (Hd tid Hin). apply elem_of_list_here. }
  assert (Hw1 : (w <| w_tables := tabs |> <| w_nodes := <[nid := nd']> (w_nodes (w <| w_tables := tabs |>)) |>
                   <| w_cache := cache |>) = w1) by done.
  split; [done|]. split; [|split].
  - split; try done.
    + intros j t1 H. rewrite Htl. destruct (decide (j = tid)) as [->|].
      * rewrite Ht0 in H. injection H as <-. exists t. split; [done|]. repeat split; try done.
      * exists t1. done.
    + intros j t1 H Hn1. rewrite Htl in H. destruct (decide (j = tid)) as [->|]; congruence.
    + intros j n0 H. rewrite Hnl. destruct (decide (j = nid)) as [->|]; [|by exists n0].
      rewrite Hnd in H. injection H as <-. exists nd'. done.
  - split; try done.
    + intros tid0 t1 Ht1. rewrite Htl in Ht1. destruct (decide (tid0 = tid)) as [->|Hne].
      * injection Ht1 as <-. exists nd'. rewrite Hnl. change (t_node t) with (t_node t0). rewrite Ht0n.
        destruct (decide (nid = nid)); [|done].
        split; [done|]. split; [done|]. change (n_rel nd') with (n_rel nd). rewrite Hrel. simpl.
        rewrite assoc_get_set. by rewrite ent_eqb_refl.
      * destruct (rg_table _ G tid0 t1 Ht1) as (n0 & Hn0 & Hin & Hrest).
        destruct (decide (t_node t1 = nid)) as [Heq|Hnn].
        -- rewrite Heq, Hnd in Hn0. injection Hn0 as <-. exists nd'. rewrite Hnl, Heq. destruct (decide (nid = nid)); [|done].
           split; [done|]. split; [done|]. change (n_rel nd') with (n_rel nd). rewrite Hrel in Hrest |- *.
           destruct (t_active t1).
           ++ simpl. rewrite assoc_get_set.
              destruct (ent_eqb (t_target t1) target) eqn:He; [|done]. apply ent_eqb_eq in He. rewrite He in Hrest. congruence.
           ++ destruct Hrest as [Hinf He1]. split; [|done]. rewrite Hfree'. rewrite Hfl in Hinf.
              apply elem_of_app in Hinf as [?|Hx]; [done|]. apply elem_of_list_singleton in Hx. done.
        -- exists n0. rewrite Hnl. destruct (decide (t_node t1 = nid)); done.
    + intros j n tid0 Hn Hin.
      assert (Hgen : forall n0, w_nodes w !! j = Some n0 -> tid0 ∈ n_tables n0 -> exists t1, w_tables w1 !! tid0 = Some t1 /\ t_node t1 = j).
      { intros n0 Hn0 Hin0'. destruct (rg_ntables _ G j n0 tid0 Hn0 Hin0') as (t1 & Ht1 & Htn). rewrite Htl.
        destruct (decide (tid0 = tid)) as [->|]; [|by exists t1]. exists t. split; [done|].
        rewrite Ht0 in Ht1. injection Ht1 as <-. done. }
      rewrite Hnl in Hn. destruct (decide (j = nid)) as [->|]; [injection Hn as <-; by apply (Hgen nd)|by apply (Hgen n)].
    + intros j n tg tid0 Hn Hg.
      assert (Hgen : forall n0, w_nodes w !! j = Some n0 -> assoc_get tg (n_tmap n0) = Some tid0 ->
                exists t1, w_tables w1 !! tid0 = Some t1 /\ t_node t1 = j /\ t_target t1 = tg /\ t_active t1 = true).
      { intros n0 Hn0 Hg0. destruct (rg_tmap _ G j n0 tg tid0 Hn0 Hg0) as (t1 & Ht1 & Hrest). rewrite Htl.
        destruct (decide (tid0 = tid)) as [->|]; [|by exists t1].
        rewrite Ht0 in Ht1. injection Ht1 as <-. destruct Hrest as (_ & _ & Ha). congruence. }
      rewrite Hnl in Hn. destruct (decide (j = nid)) as [->|]; [|by apply (Hgen n)].
      injection Hn as <-. simpl in Hg. rewrite assoc_get_set in Hg. destruct (ent_eqb tg target) eqn:He.
      * apply ent_eqb_eq in He as ->. injection Hg as <-. exists t. rewrite Htl. destruct (decide (tid = tid)); [|done]. done.
      * by apply (Hgen nd).
    + intros j n Hn. rewrite Hnl in Hn. destruct (decide (j = nid)) as [->|].
      * injection Hn as <-. rewrite Hfree'. split; [rewrite Hfl in Hfnd; by apply NoDup_app in Hfnd as (? & _)|].
        intros tid0 Hin. destruct (Hfall tid0) as (t1 & Ht1 & Hrest); [rewrite Hfl; apply elem_of_app; by left|].
        exists t1. rewrite Htl. destruct (decide (tid0 = tid)) as [->|]; done.
      * destruct (rg_free _ G j n Hn) as [Hnd0 Hall]. split; [done|]. intros tid0 Hin.
        destruct (Hall tid0 Hin) as (t1 & Ht1 & Htn & Hta). exists t1. rewrite Htl.
        destruct (decide (tid0 = tid)) as [->|]; [|done]. rewrite Ht0 in Ht1. injection Ht1 as <-. congruence.
    + intros j n Hn Hr. rewrite Hnl in Hn. destruct (decide (j = nid)) as [->|]; [injection Hn as <-; simpl in Hr; congruence|by apply (rg_norel _ G j n)].
    + destruct (rg_table0 _ G) as (t1 & n1 & H1 & Hn1 & Hm1).
      assert (exists t2, w_tables w1 !! 0 = Some t2 /\ t_node t2 = t_node t1) as (t2 & Ht2 & Htn2).
      { rewrite Htl. destruct (decide (0 = tid)) as [<-|]; [|by exists t1]. exists t. rewrite Ht0 in H1. injection H1 as <-. done. }
      exists t2. rewrite Htn2.
      destruct (decide (t_node t1 = nid)) as [Heq|Hneq].
      * exists nd'. rewrite Hnl, Heq. destruct (decide (nid = nid)); [|done]. split; [done|]. split; [done|].
        rewrite Heq, Hnd in Hn1. by injection Hn1 as <-.
      * exists n1. rewrite Hnl. by destruct (decide (t_node t1 = nid)).
    + apply G.
    + apply G.
    + intros j n tid0 Hn Hin. rewrite Hnl in Hn. destruct (decide (j = nid)) as [->|]; [injection Hn as <-; by apply (rg_active _ G nid nd tid0)|by apply (rg_active _ G j n tid0)].
    + intros j n Hn. rewrite Hnl in Hn. destruct (decide (j = nid)) as [->|]; [injection Hn as <-; by apply (rg_tnodup _ G nid nd)|by apply (rg_tnodup _ G j n)].
  - exists t, nd'. rewrite Htl, Hnl. destruct (decide (tid = tid)); [|done]. destruct (decide (nid = nid)); [|done].
    repeat split; try done.
Qed.

Lemma create_table_rok w nid nd target fs :
  rgraph_ok w -> w_nodes w !! nid = Some nd -> node_get_table nd target = None ->
  let '(w1, tid) := create_table w nid target fs in
  ext_r w w1 /\ rgraph_ok w1 /\
  exists t nd', w_tables w1 !! tid = Some t /\ t_node t = nid /\ t_ents t = [] /\ t_active t = true /\
     t_target t = (if node_has_rel nd then target else ezero) /\
     w_nodes w1 !! nid = Some nd' /\ n_mask nd' = n_mask nd /\ n_rel nd' = n_rel nd /\ n_ids nd' = n_ids nd.
Proof.
  intros G Hnd Hget. unfold node_get_table in Hget. destruct (n_rel nd) as [r|] eqn:Hrel.
  - rewrite (proj2 (node_has_rel_true nd) (ex_intro _ r Hrel)) in Hget |- *.
    destruct (last (n_free nd)) as [tid|] eqn:Hlast.
    + pose proof (create_table_rel_reuse_rok w nid nd r target fs tid G Hnd Hrel Hlast Hget) as H.
      destruct (create_table w nid target fs) as [w1 tid']. destruct H as (-> & E & G1 & H). simpl. rewrite Hrel in H. done.
    + apply last_None in Hlast.
      pose proof (create_table_rel_fresh_rok w nid nd r target fs G Hnd Hrel Hlast Hget) as H.
      destruct (create_table w nid target fs) as [w1 tid']. simpl. rewrite Hrel in H. done.
  - rewrite (proj2 (node_has_rel_false nd) Hrel) in Hget |- *.
    assert (Hnt : n_tables nd = []) by (by destruct (n_tables nd)).
    pose proof (create_table_norel_rok w nid nd target fs G Hnd Hrel Hnt) as H.
    destruct (create_table w nid target fs) as [w1 tid']. destruct H as (E & G1 & t & nd' & H1 & H2 & H3 & H4 & H5 & _ & H6).
    split; [done|]. split; [done|]. exists t, nd'. rewrite Hrel in H6. done.
Qed.

(** The destination table of an exchange, for arbitrary registries. *)
Lemma find_or_create_table_rok w src add rem target st sn mask w1 dst :
  rgraph_ok w -> w_tables w !! src = Some st -> w_nodes w !! t_node st = Some sn ->
  exchange_mask (n_mask sn) add rem = Some mask ->
  Forall (fun id => id < length (w_reg w)) add ->
  find_or_create_table w src add rem target = Some (w1, dst) ->
  ext_r w w1 /\ rgraph_ok w1 /\
  exists dt dn, w_tables w1 !! dst = Some dt /\ w_nodes w1 !! t_node dt = Some dn /\ n_mask dn = mask /\
     t_active dt = true /\ t_target dt = (if node_has_rel dn then target else ezero).
Proof.
  intros G Hst Hsn Hmask Hreg H. unfold find_or_create_table in H. rewrite Hst, Hsn in H.
  unfold exchange_mask in Hmask. destruct (exmask_rem (n_mask sn) rem) as [m1'|] eqn:Hrem; [|done]. simpl in Hmask.
  pose proof (walk_rem_rok rem w (n_mask sn) (n_rel sn) m1' G (rg_rel _ G _ _ Hsn) (fun id => rg_bits _ G _ _ id Hsn)
                (ex_intro _ _ (ex_intro _ sn (conj Hsn eq_refl))) Hrem) as H1.
  destruct (walk_rem w (n_mask sn) (n_rel sn) rem) as [[wa m1] r1].
  destruct H1 as (E1 & G1 & _ & _ & HP1 & -> & Hn1 & Hb1).
  destruct (walk_add wa (n_mask sn) m1' r1 add) as [[[wb m2] r2]|] eqn:Hadd; [|done].
  assert (Hb1' : forall id, bit m1' id = true -> id < length (w_reg wa)) by (by rewrite (ex_reg _ _ E1)).
  assert (Hreg1 : Forall (fun id => id < length (w_reg wa)) add) by (by rewrite (ex_reg _ _ E1)).
  destruct (walk_add_rok add wa (n_mask sn) m1' r1 wb m2 r2 G1 HP1 Hb1' Hn1 Hreg1 Hadd) as (E2 & G2 & _ & _ & HP2 & Hm2 & Hn2).
  rewrite Hmask in Hm2. injection Hm2 as <-.
  pose proof (find_node_spec wb mask) as Hf. destruct (find_node wb mask) as [nid|]; [|destruct Hn2 as (i & n & Hi & Hmi); by apply Hf in Hi].
  destruct Hf as (nd & Hnd & Hmnd). rewrite Hnd in H.
  assert (E12 : ext_r w wb) by (apply ext_ext_r; by eapply ext_trans).
  destruct (node_get_table nd target) as [tid|] eqn:Hget.
  - injection H as <- <-. split; [done|]. split; [done|].
    unfold node_get_table in Hget. destruct (n_rel nd) as [r|] eqn:Hrel.
    + rewrite (proj2 (node_has_rel_true nd) (ex_intro _ r Hrel)) in Hget.
      destruct (rg_tmap _ G2 nid nd target tid Hnd Hget) as (t & Ht & Htn & Htt & Hta).
      exists t, nd. rewrite Htn. split; [done|]. split; [done|]. split; [done|]. split; [done|].
      by rewrite (proj2 (node_has_rel_true nd) (ex_intro _ r Hrel)).
    + rewrite (proj2 (node_has_rel_false nd) Hrel) in Hget.
      assert (Hin : tid ∈ n_tables nd) by (destruct (n_tables nd); [done|]; injection Hget as ->; apply elem_of_list_here).
      destruct (rg_ntables _ G2 nid nd tid Hnd Hin) as (t & Ht & Htn).
      destruct (rg_table _ G2 tid t Ht) as (nd0 & Hnd0 & _ & Hrest). rewrite Htn, Hnd in Hnd0. injection Hnd0 as <-.
      rewrite Hrel in Hrest. destruct Hrest as (_ & Htt & Hta).
      exists t, nd. rewrite Htn. split; [done|]. split; [done|]. split; [done|]. split; [done|].
      by rewrite (proj2 (node_has_rel_false nd) Hrel).
  - pose proof (create_table_rok wb nid nd target true G2 Hnd Hget) as Hc.
    destruct (create_table wb nid target true) as [wc tid]. injection H as <- <-.
    destruct Hc as (E3 & G3 & t & nd' & Ht & Htn & _ & Hta & Htt & Hnd' & Hmn & Hrn & _).
    split; [by eapply ext_r_trans|]. split; [done|].
    exists t, nd'. rewrite Htn. split; [done|]. split; [done|]. split; [congruence|]. split; [done|].
    unfold node_has_rel in *. by rewrite Hrn.
Qed.

(** ** Changes of table contents only (moves, writes, creation of entities) *)
Lemma rgraph_ok_same_nodes w w' :
  rgraph_ok w -> w_nodes w' = w_nodes w -> w_tb w' = w_tb w -> w_capinc w' = w_capinc w ->
  w_relcapinc w' = w_relcapinc w -> w_reg w' = w_reg w ->
  (forall tid t, w_tables w !! tid = Some t -> exists t', w_tables w' !! tid = Some t' /\ t_node t' = t_node t /\
      t_target t' = t_target t /\ t_active t' = t_active t /\ (t_active t = false -> t_ents t = [] -> t_ents t' = [])) ->
  (forall tid t', w_tables w' !! tid = Some t' -> is_Some (w_tables w !! tid)) ->
  rgraph_ok w'.
Proof.
  intros G Hn Htb Hc Hrc Hreg Ht Ht'.
  assert (HP : forall m r, relP w m r -> relP w' m r) by (intros m r H id; unfold reg_is_rel; rewrite Hreg; apply H).
  assert (Hback : forall tid t', w_tables w' !! tid = Some t' -> exists t, w_tables w !! tid = Some t /\ t_node t' = t_node t /\
      t_target t' = t_target t /\ t_active t' = t_active t /\ (t_active t = false -> t_ents t = [] -> t_ents t' = [])).
  { intros tid t' H'. destruct (Ht' tid t' H') as [t H]. destruct (Ht tid t H) as (t2 & H2 & Hr). rewrite H' in H2. injection H2 as <-. by exists t. }
  split; rewrite ?Hn, ?Htb, ?Hc, ?Hrc, ?Hreg; try apply G.
  - intros nid nd H. apply HP. by apply (rg_rel _ G nid).
  - intros tid t' H'. destruct (Hback tid t' H') as (t & H & Hnn & Htt & Hta & Hte).
    destruct (rg_table _ G tid t H) as (nd & Hnd & Hin & Hrest). exists nd. rewrite Hnn. split; [done|]. split; [done|].
    rewrite Htt, Hta. destruct (n_rel nd); [|done]. destruct (t_active t) eqn:Ha; [done|]. split; [apply Hrest|apply Hte; [done|apply Hrest]].
  - intros nid nd tid Hnd Hin. destruct (rg_ntables _ G nid nd tid Hnd Hin) as (t & H & Hnn).
    destruct (Ht tid t H) as (t' & H' & Hn' & _). exists t'. split; [done|congruence].
  - intros nid nd tg tid Hnd Hg. destruct (rg_tmap _ G nid nd tg tid Hnd Hg) as (t & H & Hnn & Htt & Hta).
    destruct (Ht tid t H) as (t' & H' & Hn' & Ht2 & Ha2 & _). exists t'. split; [done|]. repeat split; congruence.
  - intros nid nd Hnd. destruct (rg_free _ G nid nd Hnd) as [Hnd0 Hall]. split; [done|]. intros tid Hin.
    destruct (Hall tid Hin) as (t & H & Hnn & Hta). destruct (Ht tid t H) as (t' & H' & Hn' & _ & Ha2 & _).
    exists t'. split; [done|]. split; congruence.
  - destruct (rg_table0 _ G) as (t0 & n0 & H0 & Hn0 & Hm0). destruct (Ht 0 t0 H0) as (t' & H' & Hn' & _).
    exists t', n0. rewrite Hn'. done.
Qed.

Lemma set_tbit_rok w e : rgraph_ok w -> rgraph_ok (set_tbit w e).
Proof.
  intros G. unfold set_tbit. destruct (ent_is_zero e); [done|].
  eapply (rgraph_ok_same_nodes w); try done.
  intros tid t H. exists t. done.
Qed.

(** ** Retirement and cleanup *)
Lemma bit_zero id : bit 0 id = false.
Proof. unfold bit. apply N.bits_0. Qed.

Lemma retire_table_rok_gen w tid t nd r :
  rgraph_ok w -> w_tables w !! tid = Some t -> w_nodes w !! t_node t = Some nd -> n_rel nd = Some r ->
  t_active t = true -> rgraph_ok (retire_table w tid).
Proof.
  intros G Ht Hnd Hrel Hact. unfold retire_table. rewrite Ht, Hnd.
  set (t0 := tbl_reset (zero_row nd) t).
  assert (Hf0 : t_node t0 = t_node t /\ t_target t0 = t_target t /\ t_ents t0 = []).
  { unfold t0, tbl_reset. destruct (tlen t =? 0) eqn:He; [|done]. apply Nat.eqb_eq in He. unfold tlen in He. by destruct (t_ents t). }
  destruct Hf0 as (Hn0' & Htg0 & He0).
  set (nid := t_node t) in *.
  set (t' := t0 <| t_active := false |>).
  assert (Hn' : t_node t' = nid) by exact Hn0'.
  assert (He' : t_ents t' = []) by exact He0.
  set (nd' := nd <| n_tmap := assoc_del (t_target t) (n_tmap nd) |> <| n_free := n_free nd ++ [tid] |>).
  set (tabs := <[tid := t']> (w_tables w)).
  set (cache := map (centry_remove tid) (w_cache w)).
  destruct (node_update_fields w nid nd nd' tabs cache Hnd eq_refl eq_refl eq_refl G) as (Hnl & F1 & F2 & F3 & F4).
  set (w1 := w <| w_tables := tabs |> <| w_nodes := <[nid := nd']> (w_nodes w) |> <| w_cache := cache |>) in *.
  change (rgraph_ok w1).
  assert (Htl : forall j, w_tables w1 !! j = if decide (j = tid) then Some t' else w_tables w !! j).
  { intros j. simpl. unfold tabs. eapply lookup_insert_cases. exact Ht. }
  destruct (rg_table _ G tid t Ht) as (n0 & Hn0 & Hintab & Hrest0). fold nid in Hn0. rewrite Hnd in Hn0. injection Hn0 as <-.
  rewrite Hrel, Hact in Hrest0.
  destruct (rg_free _ G nid nd Hnd) as [Hfnd Hfall].
  assert (Hnotfree : tid ∉ n_free nd).
  { intros Hin. destruct (Hfall tid Hin) as (t1 & Ht1 & _ & Ha). rewrite Ht in Ht1. injection Ht1 as <-. congruence. }
  split; try done.
  - intros tid0 t1 Ht1. rewrite Htl in Ht1. destruct (decide (tid0 = tid)) as [->|Hne].
    + injection Ht1 as <-. exists nd'. rewrite Hn', Hnl. destruct (decide (nid = nid)); [|done].
      split; [done|]. split; [done|]. change (n_rel nd') with (n_rel nd). rewrite Hrel. simpl.
      split; [apply elem_of_app; right; apply elem_of_list_here|done].
    + destruct (rg_table _ G tid0 t1 Ht1) as (n1 & Hn1 & Hin & Hrest).
      destruct (decide (t_node t1 = nid)) as [Heq|Hnn].
      * rewrite Heq, Hnd in Hn1. injection Hn1 as <-. exists nd'. rewrite Hnl, Heq. destruct (decide (nid = nid)); [|done].
        split; [done|]. split; [done|]. change (n_rel nd') with (n_rel nd). rewrite Hrel in Hrest |- *.
        destruct (t_active t1).
        -- simpl. rewrite assoc_get_del.
           destruct (ent_eqb (t_target t1) (t_target t)) eqn:He; [|done]. apply ent_eqb_eq in He. rewrite He in Hrest. congruence.
        -- destruct Hrest as [Hinf He1]. split; [|done]. simpl. apply elem_of_app. by left.
      * exists n1. rewrite Hnl. destruct (decide (t_node t1 = nid)); done.
  - intros j n tid0 Hn Hin.
    assert (Hgen : forall n0, w_nodes w !! j = Some n0 -> tid0 ∈ n_tables n0 -> exists t1, w_tables w1 !! tid0 = Some t1 /\ t_node t1 = j).
    { intros n0 Hn0 Hin0'. destruct (rg_ntables _ G j n0 tid0 Hn0 Hin0') as (t1 & Ht1 & Htn). rewrite Htl.
      destruct (decide (tid0 = tid)) as [->|]; [|by exists t1]. exists t'. split; [done|].
      rewrite Ht in Ht1. injection Ht1 as <-. by rewrite Hn'. }
    rewrite Hnl in Hn. destruct (decide (j = nid)) as [->|]; [injection Hn as <-; by apply (Hgen nd)|by apply (Hgen n)].
  - intros j n tg tid0 Hn Hg.
    assert (Hgen : forall n0, w_nodes w !! j = Some n0 -> assoc_get tg (n_tmap n0) = Some tid0 -> tg <> t_target t \/ j <> nid ->
              exists t1, w_tables w1 !! tid0 = Some t1 /\ t_node t1 = j /\ t_target t1 = tg /\ t_active t1 = true).
    { intros n0 Hn0 Hg0 Hdiff. destruct (rg_tmap _ G j n0 tg tid0 Hn0 Hg0) as (t1 & Ht1 & Htn & Htt & Hta). rewrite Htl.
      destruct (decide (tid0 = tid)) as [->|]; [|by exists t1].
      rewrite Ht in Ht1. injection Ht1 as <-. destruct Hdiff as [Hd|Hd]; [by rewrite Htt in Hd|by rewrite <- Htn in Hd]. }
    rewrite Hnl in Hn. destruct (decide (j = nid)) as [->|]; [|apply (Hgen n); [done|done|by right]].
    injection Hn as <-. simpl in Hg. rewrite assoc_get_del in Hg. destruct (ent_eqb tg (t_target t)) eqn:He; [done|].
    apply ent_eqb_neq in He. apply (Hgen nd); [done|done|by left].
  - intros j n Hn. rewrite Hnl in Hn. destruct (decide (j = nid)) as [->|].
    + injection Hn as <-. simpl. split.
      * apply NoDup_app. split; [done|]. split; [|apply NoDup_singleton].
        intros x Hx Hx2. apply elem_of_list_singleton in Hx2 as ->. done.
      * intros tid0 Hin. apply elem_of_app in Hin as [Hin|Hin].
        -- destruct (Hfall tid0 Hin) as (t1 & Ht1 & Hrest). exists t1. rewrite Htl.
           destruct (decide (tid0 = tid)) as [->|]; [done|done].
        -- apply elem_of_list_singleton in Hin as ->. exists t'. rewrite Htl. destruct (decide (tid = tid)); done.
    + destruct (rg_free _ G j n Hn) as [Hnd0 Hall]. split; [done|]. intros tid0 Hin.
      destruct (Hall tid0 Hin) as (t1 & Ht1 & Htn & Hta). exists t1. rewrite Htl.
      destruct (decide (tid0 = tid)) as [->|]; [|done]. rewrite Ht in Ht1. injection Ht1 as <-. congruence.
  - intros j n Hn Hr. rewrite Hnl in Hn. destruct (decide (j = nid)) as [->|]; [injection Hn as <-; simpl in Hr; congruence|by apply (rg_norel _ G j n)].
  - destruct (rg_table0 _ G) as (t1 & n1 & H1 & Hn1 & Hm1).
    assert (Hnn : t_node t1 <> nid).
    { intros Heq. rewrite Heq, Hnd in Hn1. injection Hn1 as <-.
      pose proof (rg_rel _ G nid nd Hnd r) as [_ HH]. destruct (HH Hrel) as [Hb _]. by rewrite Hm1, bit_zero in Hb. }
    exists t1, n1. rewrite Htl, Hnl. destruct (decide (0 = tid)) as [<-|].
    + rewrite Ht in H1. injection H1 as <-. done.
    + by destruct (decide (t_node t1 = nid)).
  - apply G.
  - apply G.
  - intros j n tid0 Hn Hin. rewrite Hnl in Hn. destruct (decide (j = nid)) as [->|]; [injection Hn as <-; by apply (rg_active _ G nid nd tid0)|by apply (rg_active _ G j n tid0)].
  - intros j n Hn. rewrite Hnl in Hn. destruct (decide (j = nid)) as [->|]; [injection Hn as <-; by apply (rg_tnodup _ G nid nd)|by apply (rg_tnodup _ G j n)].
Qed.

Lemma retire_table_rok w tid t nd r :
  rgraph_ok w -> w_tables w !! tid = Some t -> w_nodes w !! t_node t = Some nd -> n_rel nd = Some r ->
  t_active t = true -> tlen t = 0 -> rgraph_ok (retire_table w tid).
Proof. intros G Ht Hnd Hrel Hact _. by eapply retire_table_rok_gen. Qed.

Lemma cleanup_table_rok w tid : rgraph_ok w -> rgraph_ok (cleanup_table w tid).
Proof.
  intros G. unfold cleanup_table. destruct (w_tables w !! tid) as [t|] eqn:Ht; [|done].
  destruct (w_nodes w !! t_node t) as [nd|] eqn:Hnd; [|done].
  destruct (0 <? tlen t) eqn:Hl; [done|]. destruct (node_has_rel nd) eqn:Hr; [|done].
  destruct (t_active t) eqn:Ha; [|done]. simpl.
  destruct (ent_is_zero (t_target t) || pool_alive (w_pool w) (t_target t)); [done|].
  apply node_has_rel_true in Hr as [r Hr]. apply Nat.ltb_ge in Hl.
  eapply retire_table_rok; try done. lia.
Qed.

Lemma cleanup_tables_for_rok w target : rgraph_ok w -> rgraph_ok (cleanup_tables_for w target).
Proof.
  unfold cleanup_tables_for. generalize (seq 0 (length (w_nodes w))). intros l. revert w.
  induction l as [|nid l IH]; intros w G; simpl; [done|]. apply IH.
  destruct (w_nodes w !! nid) as [nd|] eqn:Hnd; [|done].
  destruct (assoc_get target (n_tmap nd)) as [tid|] eqn:Hg; [|done].
  destruct (rg_tmap _ G nid nd target tid Hnd Hg) as (t & Ht & Htn & Htt & Hta). rewrite Ht.
  destruct (tlen t =? 0) eqn:Hl; [|done]. apply Nat.eqb_eq in Hl.
  destruct (n_rel nd) as [r|] eqn:Hr; [|destruct (rg_norel _ G nid nd Hnd Hr) as [Hm _]; by rewrite Hm in Hg].
  eapply retire_table_rok; try done. by rewrite Htn.
Qed.
