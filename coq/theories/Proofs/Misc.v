(** * Smaller facts used by the property files C05, C06, C07, C08, C11, C15. *)
From Arche Require Import Model.Base Model.Pool Model.Filter Model.World Model.Ops
  Proofs.Tables Proofs.Bits Proofs.Store Proofs.Frame Proofs.StepFrame Proofs.ResReg.

(** ** C06: a retired table is empty and all zero, so whatever re-uses it starts empty *)
Lemma empty_table_all_zero zr t i :
  table_ok zr t -> tlen t = 0 -> i < length (t_rows t) -> t_rows t !! i = Some zr /\ t_ents t = [].
Proof.
  intros [Hc Hw Hz] Hl Hi. split; [apply Hz; lia|]. unfold tlen in Hl. by destruct (t_ents t).
Qed.

(** Re-activating a retired table (archetype.Activate) changes target and activity only. *)
Lemma reactivate_keeps_rows (t : table) target :
  t_ents (t <| t_target := target |> <| t_active := true |>) = t_ents t /\
  t_rows (t <| t_target := target |> <| t_active := true |>) = t_rows t.
Proof. done. Qed.

(** ** C05: what Relations.Get reports is the target of the entity's table *)
Lemma rel_get_is_table_target w e id tid row t nd :
  ent_table w e = Some (tid, row, t, nd) -> check_relation w tid id = true ->
  step w (ORelGet e id) = (w, Ok (VEnt (t_target t)), []).
Proof. intros H Hc. simpl. by rewrite H, Hc. Qed.

Lemma rel_get_refused w e id tid row t nd :
  ent_table w e = Some (tid, row, t, nd) -> n_rel nd <> Some id ->
  w_tables w !! tid = Some t -> w_nodes w !! t_node t = Some nd ->
  step w (ORelGet e id) = (w, Panic, []).
Proof.
  intros H Hr Ht Hn. simpl. rewrite H. unfold check_relation. rewrite Ht, Hn.
  destruct (n_rel nd) as [r|]; [|done]. destruct (Nat.eqb_spec r id) as [->|]; [done|done].
Qed.

(** ** C11: content of the exchange event *)
Lemma added_removed_bits old new i :
  bit (N.land new (N.lxor old new)) i = bit new i && negb (bit old i) /\
  bit (N.land old (N.lxor old new)) i = bit old i && negb (bit new i).
Proof.
  unfold bit. rewrite !N.land_spec, !N.lxor_spec.
  destruct (N.testbit new _), (N.testbit old _); done.
Qed.

(** With a listener subscribed to everything (no component restriction) the exchange
    emits exactly one event, unless nothing it could report happened; its masks are the
    set differences, the old relation / target are those of the old table. *)
Lemma ev_exchange_exact w e x add rem t nd :
  w_listener w = Some (LCallback (mkL 63 None)) -> w_tables w !! x_new x = Some t -> w_nodes w !! t_node t = Some nd ->
  let relch := opt_ne (x_oldrel x) (n_rel nd) in
  let tgch := negb (ent_eqb (x_oldtarget x) (t_target t)) in
  let bits := subscription false false (negb (bool_decide (add = []))) (negb (bool_decide (rem = []))) relch (relch || tgch) in
  ev_exchange w e x add rem =
    if (N.land 63 bits =? 0)%N then []
    else [mkEv e (N.land (n_mask nd) (N.lxor (x_oldmask x) (n_mask nd))) (N.land (x_oldmask x) (N.lxor (x_oldmask x) (n_mask nd)))
               add rem (x_oldrel x) (n_rel nd) (x_oldtarget x) bits (is_locked w) 0].
Proof.
  intros Hl Ht Hn. unfold ev_exchange. rewrite Hl, Ht, Hn. cbv zeta.
  unfold recipients, gate, subscribes. simpl outer_cfg. cbn [lc_subs lc_comps].
  destruct (N.land 63 _ =? 0)%N; done.
Qed.

(** No listener, no events. *)
Lemma no_listener_no_events w e x add rem nd tg m ids r :
  w_listener w = None ->
  ev_exchange w e x add rem = [] /\ ev_remove w e nd tg = [] /\ ev_create w e m ids r = [] /\ ev_target w e 0 tg = [].
Proof. intros H. unfold ev_exchange, ev_remove, ev_create, ev_target. by rewrite H. Qed.

(** ** C15: what Reset leaves behind *)
Lemma world_reset_abs w :
  let w' := world_reset w in
  w_pool w' = pool_init /\ w_index w' = [None] /\ w_tbits w' = [false] /\ w_locks w' = locks_init (w_tb w) /\
  w_res w' = replicate (w_tb w) None /\ w_reg w' = w_reg w /\ w_resreg w' = w_resreg w /\ w_listener w' = w_listener w /\
  w_cnext w' = w_cnext w /\ map c_id (w_cache w') = map c_id (w_cache w) /\ map c_filter (w_cache w') = map c_filter (w_cache w) /\
  is_locked w' = false.
Proof.
  unfold world_reset.
  set (w1 := w <| w_index := [None] |> <| w_tbits := [false] |> <| w_pool := pool_init |>
               <| w_locks := locks_init (w_tb w) |> <| w_res := replicate (w_tb w) None |>).
  assert (Hcache : forall (l : list centry) tid, map c_id (map (centry_remove tid) l) = map c_id l /\
                                               map c_filter (map (centry_remove tid) l) = map c_filter l).
  { intros l tid. induction l as [|c r [IH1 IH2]]; [done|]. simpl. rewrite IH1, IH2.
    unfold centry_remove. by destruct (find_index _ _). }
  assert (Hnode : forall w0 nid,
    w_pool (reset_node w0 nid) = w_pool w0 /\ w_index (reset_node w0 nid) = w_index w0 /\ w_tbits (reset_node w0 nid) = w_tbits w0 /\
    w_locks (reset_node w0 nid) = w_locks w0 /\ w_cnext (reset_node w0 nid) = w_cnext w0 /\
    map c_id (w_cache (reset_node w0 nid)) = map c_id (w_cache w0) /\ map c_filter (w_cache (reset_node w0 nid)) = map c_filter (w_cache w0)).
  { intros w0 nid. unfold reset_node. destruct (w_nodes w0 !! nid) as [nd|]; [|done].
    destruct (negb (n_active nd)); [done|]. destruct (negb (node_has_rel nd)).
    - generalize (n_tables nd). intros l. revert w0. induction l as [|tid r IH]; intros w0; simpl; [done|].
      destruct (IH (match w_tables w0 !! tid with Some t => upd_table w0 tid (tbl_reset (zero_row nd) t) | None => w0 end)) as (A & B & C & D & E & F & G).
      destruct (w_tables w0 !! tid); simpl in *; done.
    - generalize (n_tables nd). intros l. revert w0. induction l as [|tid r IH]; intros w0; simpl; [done|].
      match goal with |- context [foldl _ ?x r] => destruct (IH x) as (A & B & C & D & E & F & G) end.
      destruct (w_tables w0 !! tid) as [t|] eqn:Ht; [|done].
      destruct (negb (t_active t)); [done|]. destruct (negb (ent_is_zero (t_target t))); [|done].
      unfold retire_table in *. rewrite Ht in *. destruct (w_nodes w0 !! t_node t); [|done]. simpl in *.
      destruct (Hcache (w_cache w0) tid) as [H1 H2]. rewrite F, G. done. }
  assert (Hfold : forall l w0,
    w_pool (foldl reset_node w0 l) = w_pool w0 /\ w_index (foldl reset_node w0 l) = w_index w0 /\ w_tbits (foldl reset_node w0 l) = w_tbits w0 /\
    w_locks (foldl reset_node w0 l) = w_locks w0 /\ w_cnext (foldl reset_node w0 l) = w_cnext w0 /\
    map c_id (w_cache (foldl reset_node w0 l)) = map c_id (w_cache w0) /\ map c_filter (w_cache (foldl reset_node w0 l)) = map c_filter (w_cache w0)).
  { induction l as [|nid r IH]; intros w0; simpl; [done|].
    destruct (IH (reset_node w0 nid)) as (A & B & C & D & E & F & G). destruct (Hnode w0 nid) as (A' & B' & C' & D' & E' & F' & G').
    repeat split; congruence. }
  destruct (Hfold (seq 0 (length (w_nodes w1))) w1) as (A & B & C & D & E & F & G).
  destruct (world_reset_fields w) as (R1 & R2 & R3 & R4 & R5). unfold world_reset in R1, R2, R3, R4, R5. fold w1 in R1, R2, R3, R4, R5.
  repeat split; try done. unfold is_locked. rewrite D. unfold locks_locked, locks_init. simpl. done.
Qed.

(** ** C07: Register / Unregister *)
Lemma cache_register_entry w f :
  let '(w', id) := cache_register w f in
  id = w_cnext w /\ w_cache w' = w_cache w ++ [mkCE id f (get_tables w f)] /\ w_tables w' = w_tables w /\ w_nodes w' = w_nodes w.
Proof. done. Qed.

Lemma cache_unregister_original w id w' f :
  cache_unregister w id = Some (w', f) ->
  (exists e, e ∈ w_cache w /\ c_id e = id /\ c_filter e = f) /\
  (forall e, e ∈ w_cache w' -> e ∈ w_cache w) /\ w_tables w' = w_tables w /\ w_nodes w' = w_nodes w.
Proof.
  unfold cache_unregister. intros H. destruct (find_index _ _) as [i|] eqn:Hi; [|done].
  destruct (w_cache w !! i) as [e|] eqn:He; [|done]. injection H as <- <-.
  apply find_index_Some_lookup in Hi as (e' & He' & Hid). rewrite He in He'. injection He' as <-. apply Nat.eqb_eq in Hid.
  split; [exists e; split; [by eapply elem_of_list_lookup_2|done]|]. split; [|done].
  intros x Hx. simpl in Hx. eapply swap_remove_elem; [|exact Hx]. by apply lookup_lt_Some in He.
Qed.

(** ** C08: the count a batch operation returns *)
Lemma batch_exchange_count w a add rem rel w' n evs :
  op_batch_exchange w a add rem rel = (w', Ok (VNat n), evs) -> (add <> [] \/ rem <> []) ->
  exists tids, arg_tables w a = Some tids /\ n = total_len w tids.
Proof.
  unfold op_batch_exchange, batch_result, exchange_batch_nn. intros H Hne.
  destruct (is_locked w); [done|]. destruct (negb _); [done|].
  assert (Hm : match arg_tables w a with
      | None => inr false
      | Some tids =>
          match batch_loop (fun w tid => option_map Some (exchange_table w tid add rem rel)) w (nonempty_tables w tids) [] false with
          | inl (Some (w1, segs)) => inl (Some (w1, total_len w tids, segs))
          | inl None => inr false
          | inr p => inr p
          end
      end = (match add, rem with
             | [], [] => if bool_decide (is_Some rel) then inr false else inl (Some (w, 0, []))
             | _, _ => match arg_tables w a with
                | None => inr false
                | Some tids =>
                    match batch_loop (fun w tid => option_map Some (exchange_table w tid add rem rel)) w (nonempty_tables w tids) [] false with
                    | inl (Some (w1, segs)) => inl (Some (w1, total_len w tids, segs))
                    | inl None => inr false
                    | inr p => inr p
                    end
                end end)).
  { destruct add, rem; try done. destruct Hne; done. }
  rewrite <- Hm in H. clear Hm. destruct (arg_tables w a) as [tids|]; [|done].
  destruct (batch_loop _ _ _ _ _) as [[[w1 segs]|]|[]]; try done. injection H as <- <- _. by exists tids.
Qed.
