(** * C09 over histories: the world is locked exactly while a query is open.

    [lockq w]: the lock mask and its bit pool are consistent, and the set of held lock bits
    is exactly the set of the lock bits of the open (not yet closed or exhausted) queries,
    each held once.  [lockq_step]: EVERY operation of the model keeps this - opening a
    query (also by a batch Q call) takes exactly one bit, exhausting or closing it gives
    exactly that bit back, removal events take and return one bit, everything else leaves
    locks and queries alone.  Hence, in every state reachable from a new world by any
    history of any operations, [is_locked] holds iff a query is open. *)
From Arche Require Import Model.Base Model.Pool Model.Filter Model.World Model.Ops
  Proofs.Locks Proofs.LockWorld Proofs.Frame Proofs.StepFrame Proofs.RelRefine Proofs.Atomic Proofs.GhostBase.

Definition open_locks (w : world) : list nat :=
  map q_lock (filter (fun q => q_closed q = false) (w_queries w)).

Definition lockq (w : world) : Prop :=
  exists held frees, lock_inv (w_tb w) (w_locks w) held frees /\ held ≡ₚ open_locks w.

Lemma lock_inv_perm tb l held held' frees : held ≡ₚ held' -> lock_inv tb l held frees -> lock_inv tb l held' frees.
Proof.
  intros HP [I1 I2 I3 I4 I5 I6 I7 I8 I9 I10]. split; try done.
  - intros b. rewrite I1. by rewrite HP.
  - by rewrite <- HP.
  - intros b Hb. rewrite <- HP. by apply I6.
  - intros b. rewrite <- HP. apply I7.
  - intros b Hb. rewrite <- HP. by apply I8.
Qed.

Lemma lockq_locked_iff w : lockq w -> (is_locked w = true <-> open_locks w <> []).
Proof.
  intros (held & frees & I & HP). unfold is_locked. rewrite (locked_iff _ _ _ _ I). split.
  - intros Hne Hn. apply Hne. rewrite Hn in HP. by apply Permutation_nil_r in HP.
  - intros Hne Hn. apply Hne. rewrite Hn in HP. by apply Permutation_nil_l in HP.
Qed.

(** Operations that leave locks and queries alone. *)
Definition lq_same (w w' : world) : Prop :=
  w_locks w' = w_locks w /\ w_queries w' = w_queries w /\ w_tb w' = w_tb w.
Lemma lq_refl w : lq_same w w.
Proof. done. Qed.
Lemma lq_trans a b c : lq_same a b -> lq_same b c -> lq_same a c.
Proof. intros (A1 & A2 & A3) (B1 & B2 & B3). repeat split; congruence. Qed.
Lemma lq_of_frame w w' : frame w w' -> lq_same w w'.
Proof. intros F. split; [apply F|]. split; apply F. Qed.
Lemma lockq_same w w' : lq_same w w' -> lockq w -> lockq w'.
Proof. intros (H1 & H2 & H3) (held & frees & I & HP). exists held, frees. unfold open_locks. rewrite H1, H2, H3. done. Qed.

(** Opening a query. *)
Lemma lockq_open w segs b w' h : lockq w -> open_query w segs b = Some (w', h) -> lockq w'.
Proof.
  intros (held & frees & I & HP) H. unfold open_query in H.
  pose proof (lock_spec _ _ _ _ I) as Hl. destruct (locks_lock (w_tb w) (w_locks w)) as [[l bt]|]; [|done].
  injection H as <- _. destruct Hl as (_ & _ & _ & frees' & I').
  exists (bt :: held), frees'. split; [exact I'|].
  assert (Hol : open_locks (w <| w_locks := l |> <| w_queries := w_queries w ++ [mkQ segs b 0 None 0 0 bt false] |>) = open_locks w ++ [bt]).
  { unfold open_locks. change (w_queries (w <| w_locks := l |> <| w_queries := w_queries w ++ [mkQ segs b 0 None 0 0 bt false] |>))
      with (w_queries w ++ [mkQ segs b 0 None 0 0 bt false]).
    rewrite filter_app, map_app. f_equal. }
  rewrite Hol, HP. apply Permutation_cons_append.
Qed.

(** Replacing a query by one with the same lock and the same open/closed state. *)
Lemma open_locks_upd (qs : list qstate) h q q' :
  qs !! h = Some q -> q_lock q' = q_lock q -> q_closed q' = q_closed q ->
  map q_lock (filter (fun q => q_closed q = false) (<[h := q']> qs)) = map q_lock (filter (fun q => q_closed q = false) qs).
Proof.
  revert h. induction qs as [|x r IH]; intros h Hq Hl Hc; [done|].
  destruct h as [|h]; simpl in *.
  - injection Hq as ->. rewrite !filter_cons. rewrite Hc. destruct (decide (q_closed q = false)); simpl; by rewrite ?Hl.
  - rewrite !filter_cons. destruct (decide (q_closed x = false)); simpl; by rewrite (IH h Hq Hl Hc).
Qed.

(** Closing an open query removes exactly its lock from the list. *)
Lemma open_locks_close_perm (qs : list qstate) h q q' :
  qs !! h = Some q -> q_closed q = false -> q_closed q' = true ->
  map q_lock (filter (fun q => q_closed q = false) qs) ≡ₚ
  q_lock q :: map q_lock (filter (fun q => q_closed q = false) (<[h := q']> qs)).
Proof.
  revert h. induction qs as [|x r IH]; intros h Hq Ho Hc; [done|].
  destruct h as [|h]; simpl in *.
  - injection Hq as ->. rewrite !filter_cons. rewrite Hc, Ho. simpl.
    destruct (decide (true = false)); [done|]. by destruct (decide (false = false)).
  - rewrite !filter_cons. destruct (decide (q_closed x = false)); simpl.
    + rewrite (IH h Hq Ho Hc). apply Permutation_swap.
    + by apply IH.
Qed.

Lemma filter_all_id {A} (P : A -> Prop) `{forall x, Decision (P x)} (l : list A) : (forall x, x ∈ l -> P x) -> filter P l = l.
Proof.
  induction l as [|x r IH]; intros Hall; [done|]. rewrite filter_cons.
  destruct (decide (P x)) as [|Hn]; [|exfalso; apply Hn, Hall, elem_of_list_here].
  f_equal. apply IH. intros y Hy. apply Hall. by apply elem_of_list_further.
Qed.

Lemma lockq_close w h q q' :
  lockq w -> w_queries w !! h = Some q -> q_closed q = false -> q_lock q' = q_lock q ->
  forall l, locks_unlock (w_locks w) (q_lock q') = Some l ->
  lockq (w <| w_locks := l |> <| w_queries := <[h := q' <| q_closed := true |>]> (w_queries w) |>).
Proof.
  intros (held & frees & I & HP) Hq Ho Hlk l Hu. rewrite Hlk in Hu.
  pose proof (unlock_spec _ _ _ _ (q_lock q) I) as Hs. rewrite Hu in Hs. destruct Hs as [Hin I'].
  eexists _, _. split; [exact I'|].
  pose proof (open_locks_close_perm (w_queries w) h q (q' <| q_closed := true |>) Hq Ho eq_refl) as HP2.
  unfold open_locks in *. simpl.
  set (after := map q_lock (filter (fun q0 => q_closed q0 = false) (<[h := q' <| q_closed := true |>]> (w_queries w)))) in *.
  assert (HP3 : held ≡ₚ q_lock q :: after) by (etrans; [exact HP|exact HP2]).
  assert (Hnd : NoDup (q_lock q :: after)) by (rewrite <- HP3; apply I).
  etrans; [apply (filter_Permutation (fun x => x <> q_lock q) _ _ HP3)|].
  rewrite filter_cons. destruct (decide (q_lock q <> q_lock q)); [done|].
  rewrite filter_all_id; [done|]. intros x Hx Heq. subst x. by apply NoDup_cons in Hnd as [? _].
Qed.

(** The cursor never touches the lock or the closed flag. *)
Lemma q_advance_keeps q q' : q_advance q = Some q' -> q_lock q' = q_lock q /\ q_closed q' = q_closed q.
Proof. unfold q_advance. destruct (next_seg _ _) as [[k s]|]; [|done]. by intros [= <-]. Qed.
Lemma step_loop_keeps fuel : forall q k q' b, step_loop fuel q k = Some (q', b) -> q_lock q' = q_lock q /\ q_closed q' = q_closed q.
Proof.
  induction fuel as [|f IH]; intros q k q' b H; simpl in H; [done|].
  destruct (_ <=? _); [by injection H as <- _|].
  destruct (q_advance q) as [q1|] eqn:Ha; [|by injection H as <- _].
  destruct (q_advance_keeps _ _ Ha) as [L1 C1].
  destruct (_ =? 0); [injection H as <- _; done|].
  destruct (IH _ _ _ _ H) as [L2 C2]. split; congruence.
Qed.

Lemma lockq_upd_query w h q q' :
  lockq w -> w_queries w !! h = Some q -> q_lock q' = q_lock q -> q_closed q' = q_closed q -> lockq (upd_query w h q').
Proof.
  intros (held & frees & I & HP) Hq Hl Hc. exists held, frees. split; [exact I|].
  unfold open_locks, upd_query. simpl. by rewrite (open_locks_upd _ h q q' Hq Hl Hc).
Qed.

Lemma lockq_close_query w h q q' :
  lockq w -> w_queries w !! h = Some q -> q_closed q = false -> q_lock q' = q_lock q ->
  lockq (res_world (close_query w h q')).
Proof.
  intros L Hq Ho Hl. unfold close_query. destruct (locks_unlock (w_locks w) (q_lock q')) as [l|] eqn:Hu; [|done].
  simpl. by eapply lockq_close.
Qed.

(** Taking and at once returning a bit (the window of removal events). *)
Lemma lockq_lock_unlock w l b :
  lockq w -> locks_lock (w_tb w) (w_locks w) = Some (l, b) ->
  forall w1, w_tb w1 = w_tb w -> w_queries w1 = w_queries w -> w_locks w1 = default l (locks_unlock l b) -> lockq w1.
Proof.
  intros (held & frees & I & HP) Hl w1 Htb Hqs Hlk.
  pose proof (lock_spec _ _ _ _ I) as Hs. rewrite Hl in Hs. destruct Hs as (_ & Hnotin & _ & frees' & I').
  pose proof (unlock_spec _ _ _ _ b I') as Hu. destruct (locks_unlock l b) as [l2|].
  - destruct Hu as [_ I2]. simpl in Hlk. exists held, (b :: frees'). unfold open_locks. rewrite Htb, Hqs, Hlk. split; [|done].
    rewrite filter_cons in I2. destruct (decide (b <> b)); [done|]. rewrite filter_all_id in I2; [done|]. intros x Hx ->. done.
  - exfalso. apply Hu. apply elem_of_list_here.
Qed.

(** ** Helper facts about the operations that lock *)
Lemma remove_table_entities_lq w tid : lq_same w (fst (remove_table_entities w tid)).
Proof.
  unfold remove_table_entities. destruct (w_tables w !! tid) as [t|]; [|apply lq_refl].
  destruct (w_nodes w !! t_node t) as [nd|]; [|apply lq_refl].
  assert (H : forall es w0 evs0, lq_same w0 (fst (foldl (fun '(w, evs) e =>
                     let ev := ev_remove w e nd (t_target t) in
                     let w1 := w <| w_index := <[eid e := None]> (w_index w) |> in
                     let w2 := if tbit w1 (eid e)
                               then (cleanup_tables_for w1 e) <| w_tbits := <[eid e := false]> (w_tbits w1) |>
                               else w1 in
                     (w2 <| w_pool := pool_recycle (w_pool w2) e |>, evs ++ ev)) (w0, evs0) es))).
  { induction es as [|e r IH]; intros w0 evs0; simpl; [apply lq_refl|].
    eapply lq_trans; [|apply IH].
    destruct (tbit _ _); [|done].
    pose proof (frame_cleanup_tables_for (w0 <| w_index := <[eid e := None]> (w_index w0) |>) e) as [].
    repeat split; simpl in *; congruence. }
  specialize (H (t_ents t) w []). destruct (foldl _ _ _) as [w1 evs]. simpl in H.
  assert (F2 : lq_same w1 (match w_tables w1 !! tid with
                    | Some t1 => upd_table w1 tid (tbl_reset (zero_row nd) t1)
                    | None => w1 end)) by (by destruct (w_tables w1 !! tid)).
  simpl. eapply lq_trans; [exact H|]. eapply lq_trans; [exact F2|].
  apply lq_of_frame, frame_cleanup_table.
Qed.

Lemma world_reset_lq w : w_locks (world_reset w) = locks_init (w_tb w) /\ w_queries (world_reset w) = w_queries w /\ w_tb (world_reset w) = w_tb w.
Proof.
  unfold world_reset.
  set (w1 := w <| w_index := [None] |> <| w_tbits := [false] |> <| w_pool := pool_init |>
               <| w_locks := locks_init (w_tb w) |> <| w_res := replicate (w_tb w) None |>).
  assert (F : frame w1 (foldl reset_node w1 (seq 0 (length (w_nodes w1))))).
  { apply frame_foldl. intros w0 nid. unfold reset_node. destruct (w_nodes w0 !! nid) as [nd|]; [|apply frame_refl].
    destruct (negb (n_active nd)); [apply frame_refl|]. destruct (negb (node_has_rel nd)).
    - apply frame_foldl. intros w2 tid. destruct (w_tables w2 !! tid); [apply frame_upd_table|apply frame_refl].
    - apply frame_foldl. intros w2 tid. destruct (w_tables w2 !! tid) as [t|]; [|apply frame_refl].
      destruct (negb (t_active t)); [apply frame_refl|]. destruct (negb _); [apply frame_retire_table|apply frame_upd_table]. }
  split; [by rewrite (fr_locks _ _ F)|]. split; [by rewrite (fr_queries _ _ F)|by rewrite (fr_tb _ _ F)].
Qed.

Lemma lockq_batch_result w r k :
  lockq w -> (forall w1 n segs, r = inl (Some (w1, n, segs)) -> lockq (res_world (k w1 n segs))) ->
  lockq (res_world (batch_result w r k)).
Proof. intros L H. unfold batch_result. destruct r as [[[[w1 n] segs]|]|[]]; simpl; try done. by apply H. Qed.

Lemma lockq_with_query w h k :
  lockq w -> (forall q, w_queries w !! h = Some q -> q_closed q = false -> lockq (res_world (k q))) ->
  lockq (res_world (with_query w h k)).
Proof.
  intros L H. unfold with_query. destruct (w_queries w !! h) as [q|] eqn:Hq; [|done].
  destruct (q_closed q) eqn:Hc; [done|]. by apply H.
Qed.

(** ** Every operation keeps the invariant *)
Lemma lockq_step0 w o : lockq w -> lockq (res_world (step0 w o)).
Proof.
  intros L.
  assert (Fr : forall w', frame w w' -> lockq w') by (intros w' F; apply (lockq_same w); [by apply lq_of_frame|done]).
  destruct o; simpl.
  - apply Fr, frame_op_new.
  - destruct cs; apply Fr, frame_op_new.
  - unfold op_builder_new. destruct target; [destruct (b_rel b); [apply Fr, frame_op_new_target|done]|apply Fr, frame_op_new].
  - unfold op_new_batch. destruct (new_entities_nn w count b target) as [[[[w1 tid] start] es]|] eqn:H; [|done].
    destruct (table_mask_rel _ _). simpl. by eapply Fr, frame_new_entities_nn.
  - unfold op_new_batch_q. destruct (new_entities_nn w count b target) as [[[[w1 tid] start] es]|] eqn:H; [|done].
    pose proof (Fr _ (frame_new_entities_nn _ _ _ _ _ _ _ _ H)) as L1.
    destruct (open_query _ _ _) as [[w2 h]|] eqn:Hq; simpl; [|exact L1]. by eapply lockq_open.
  - unfold op_builder_add. destruct target, (b_rel b); try done;
      destruct (b_vals b); unfold op_assign; try destruct (b_comps b); try done; apply Fr, frame_op_exchange.
  - (* RemoveEntity *)
    unfold op_remove_entity. destruct (is_locked w); [done|].
    destruct (ent_table w e) as [[[[src row] st] sn]|]; [|done].
    destruct (tbl_remove _ _ _) as [st1 swapped]. simpl.
    match goal with |- lockq (cleanup_table ?x src) => set (w2 := x) end.
    apply (lockq_same w2); [apply lq_of_frame, frame_cleanup_table|].
    match goal with _ := (if tbit ?y _ then _ else _) |- _ => set (w1 := y) in * end.
    assert (L1 : lockq w1).
    { destruct (ev_remove w e sn (t_target st)) eqn:Hev.
      - apply (lockq_same w); [|done]. unfold w1. done.
      - destruct (locks_lock (w_tb w) (w_locks w)) as [[l0 b0]|] eqn:Hlk.
        + apply (lockq_lock_unlock w l0 b0 L Hlk); unfold w1; done.
        + apply (lockq_same w); [|done]. unfold w1. done. }
    unfold w2. destruct (tbit w1 (eid e)); [|done].
    apply (lockq_same w1); [|done].
    pose proof (frame_cleanup_tables_for w1 e) as []. repeat split; simpl in *; congruence.
  - by destruct (chk_alive w e).
  - apply Fr, frame_op_exchange.
  - unfold op_assign. destruct cs; [done|apply Fr, frame_op_exchange].
  - destruct (set_comp w e id v) eqn:H; simpl; [by eapply Fr, frame_set_comp|done].
  - by destruct (get_comp w e id).
  - by destruct (ent_table w e) as [[[[? ?] ?] ?]|].
  - by destruct (ent_table w e) as [[[[? ?] ?] ?]|].
  - destruct (ent_table w e) as [[[[? ?] ?] ?]|]; [by destruct (view_of _ _ _)|done].
  - destruct (ent_table w e) as [[[[? ?] ?] ?]|]; [by destruct (check_relation _ _ _)|done].
  - apply Fr, frame_op_set_relation.
  - apply Fr, frame_op_exchange.
  - (* batch exchange *)
    destruct q.
    + unfold op_batch_exchange_q. apply lockq_batch_result; [done|]. intros w1 n segs Hr.
      pose proof (Fr _ (frame_exchange_batch_nn _ _ _ _ _ _ _ _ Hr)) as L1.
      destruct (open_query _ _ _) as [[w2 h]|] eqn:Hq; simpl; [|exact L1]. by eapply lockq_open.
    + unfold op_batch_exchange. apply lockq_batch_result; [done|]. intros w1 n segs Hr. simpl.
      by eapply Fr, frame_exchange_batch_nn.
  - destruct q.
    + unfold op_batch_set_relation_q. apply lockq_batch_result; [done|]. intros w1 n segs Hr.
      pose proof (Fr _ (frame_set_relation_batch_nn _ _ _ _ _ _ _ Hr)) as L1.
      destruct (open_query _ _ _) as [[w2 h]|] eqn:Hq; simpl; [|exact L1]. by eapply lockq_open.
    + unfold op_batch_set_relation. apply lockq_batch_result; [done|]. intros w1 n segs Hr. simpl.
      by eapply Fr, frame_set_relation_batch_nn.
  - (* RemoveEntities *)
    unfold op_remove_entities. destruct (is_locked w); [done|].
    destruct (arg_tables w a) as [tids|]; [|done].
    destruct (locks_lock _ _) as [[l b]|] eqn:Hlk; [|done].
    assert (H : forall tids w0 evs0, lq_same w0 (fst (foldl (fun '(w, evs) tid =>
                     if table_skip w tid then (w, evs)
                     else let '(w1, ev) := remove_table_entities w tid in (w1, evs ++ ev)) (w0, evs0) tids))).
    { clear. induction tids as [|tid r IH]; intros w0 evs0; simpl; [apply lq_refl|].
      destruct (table_skip w0 tid); [apply IH|].
      pose proof (remove_table_entities_lq w0 tid) as F. destruct (remove_table_entities w0 tid) as [w1 ev].
      eapply lq_trans; [exact F|apply IH]. }
    specialize (H tids (w <| w_locks := l |>) []). destruct (foldl _ _ _) as [w1 evs]. simpl in *.
    destruct H as (H1 & H2 & H3). simpl in *.
    apply (lockq_lock_unlock w l b L Hlk); simpl; [done|done|by rewrite H1].
  - (* Query *)
    unfold op_query. destruct (match a with FPlain f => _ | FCached id => _ end); [|done].
    destruct (open_query _ _ _) as [[w1 h]|] eqn:Hq; simpl; [by eapply lockq_open|done].
  - unfold op_q_next. apply lockq_with_query; [done|]. intros q Hq Ho.
    destruct (_ <? _); [simpl; by eapply lockq_upd_query|].
    destruct (q_advance q) as [q'|] eqn:Ha.
    + destruct (q_advance_keeps _ _ Ha) as [Hl Hc]. simpl. eapply lockq_upd_query; try done; congruence.
    + by eapply lockq_close_query.
  - unfold op_q_step. destruct (_ <=? _)%Z; [done|]. apply lockq_with_query; [done|]. intros q Hq Ho.
    destruct (step_loop _ _ _) as [[q' []]|] eqn:Hs; [| |done].
    + destruct (step_loop_keeps _ _ _ _ _ Hs) as [Hl Hc]. simpl. eapply lockq_upd_query; try done; congruence.
    + destruct (step_loop_keeps _ _ _ _ _ Hs) as [Hl Hc]. by eapply lockq_close_query.
  - apply lockq_with_query; [done|]. intros q _ _. done.
  - destruct (_ <? _)%Z; [done|]. apply lockq_with_query; [done|]. intros q _ _. by destruct (entity_at _ _ _).
  - apply lockq_with_query; [done|]. intros q Hq Ho.
    pose proof (lockq_close_query w h q q L Hq Ho eq_refl) as Lc.
    destruct (close_query w h q) as [[w1 [v| |]] evs]; done.
  - apply lockq_with_query; [done|]. intros q _ _. by destruct (q_entity w q).
  - apply lockq_with_query; [done|]. intros q _ _. destruct (q_cur q); [by destruct (view_of _ _ _)|done].
  - apply lockq_with_query; [done|]. intros q _ _. destruct (q_cur q); [|done].
    destruct (check_relation _ _ _); [by destruct (w_tables w !! _)|done].
  - by apply (lockq_same w).
  - destruct (cache_unregister w id) as [[w1 f]|] eqn:H; simpl; [|done].
    apply (lockq_same w); [|done]. unfold cache_unregister in H. destruct (find_index _ _); [|done].
    destruct (w_cache w !! n); [|done]. by injection H as <- _.
  - (* Reset *)
    destruct (is_locked w) eqn:Hu; [done|]. simpl.
    destruct (world_reset_lq w) as (H1 & H2 & H3).
    assert (Hol : open_locks w = []).
    { destruct (open_locks w) eqn:Ho; [done|]. assert (is_locked w = true) by (apply lockq_locked_iff; [done|by rewrite Ho]). congruence. }
    exists [], []. unfold open_locks. rewrite H1, H2, H3. split; [apply locks_init_inv|]. unfold open_locks in Hol. by rewrite Hol.
  - done.
  - destruct (world_load w d) as [w1|] eqn:H; simpl; [|done]. apply (lockq_same w); [|done].
    unfold world_load in H. destruct (is_locked w); [done|]. destruct (_ || _); [done|].
    destruct (w_tables w !! 0) as [t0|]; [|done]. destruct (w_nodes w !! t_node t0); [|done].
    destruct (tbl_allocn _ _ _ _). by injection H as <-.
  - destruct (register_comp w key isrel zs) as [[w1 id]|] eqn:H; simpl; [|done]. apply (lockq_same w); [|done].
    unfold register_comp in H. destruct (find_index _ _); [by injection H as <- _|].
    destruct (_ <=? _); [done|]. destruct (is_locked w); [done|]. by destruct (_ && _); injection H as <- _.
  - destruct (register_res w key) as [[w1 id]|] eqn:H; simpl; [|done]. apply (lockq_same w); [|done].
    unfold register_res in H. destruct (find_index _ _); [by injection H as <- _|]. destruct (_ <=? _); [done|]. by injection H as <- _.
  - by destruct (w_res w !! id) as [[]|].
  - by destruct (w_res w !! id) as [[]|].
  - by destruct (w_res w !! id).
  - by destruct (w_res w !! id).
  - by apply (lockq_same w).
  - done.
  - done.
Qed.

Theorem lockq_step w o : lockq w -> lockq (res_world (step w o)).
Proof.
  intros L. destruct (step_cases w o) as [[-> _]|[_ ->]]; [by apply lockq_step0|].
  simpl. apply (lockq_same w); [apply lq_of_frame, frame_ghost_of|done].
Qed.


(** ** Histories *)
Theorem lockq_history ops : forall w, lockq w -> lockq (run w ops).
Proof. induction ops as [|o r IH]; intros w L; simpl; [done|]. by apply IH, lockq_step. Qed.

Lemma lockq_init capinc relcapinc tb : lockq (world_init capinc relcapinc tb).
Proof.
  exists [], []. unfold world_init. cbn -[locks_init replicate]. split; [apply locks_init_inv|done].
Qed.

(** In every state reachable from a new world - by ANY operations, legal or not - the world
    is locked iff some query is open; every open query holds exactly one lock bit, all
    distinct, and at most [tb] are held. *)
Corollary locked_iff_open_query capinc relcapinc tb ops :
  let w := run (world_init capinc relcapinc tb) ops in
  (is_locked w = true <-> exists q, q ∈ w_queries w /\ q_closed q = false) /\
  NoDup (open_locks w) /\ length (open_locks w) <= w_tb w.
Proof.
  intros w. pose proof (lockq_history ops _ (lockq_init capinc relcapinc tb)) as L. fold w in L.
  split; [|split].
  - rewrite (lockq_locked_iff w L). unfold open_locks. split.
    + intros Hne. destruct (filter (fun q => q_closed q = false) (w_queries w)) as [|q r] eqn:Hf; [done|].
      exists q. assert (Hin : q ∈ filter (fun q => q_closed q = false) (w_queries w)) by (rewrite Hf; apply elem_of_list_here).
      by apply elem_of_list_filter in Hin as [? ?].
    + intros (q & Hin & Hc) Hn. apply fmap_nil_inv in Hn.
      assert (Hx : q ∈ filter (fun q => q_closed q = false) (w_queries w)) by (by apply elem_of_list_filter).
      rewrite Hn in Hx. by apply elem_of_nil in Hx.
  - destruct L as (held & frees & I & HP). rewrite <- HP. apply I.
  - destruct L as (held & frees & I & HP). rewrite <- HP. pose proof (lock_count _ _ _ _ I). pose proof (li_len _ _ _ _ I). lia.
Qed.
